"""C18 String functions satisfy the algebra of strings."""
import itertools
import json
import multiprocessing as mp
import os
import re
import tempfile

from harness import core, proto
from harness.props import common
from harness import str_validate_agent as SV


SPRINTF = "sprintf"      # the legacy base environment binds it


def reference(op, args):
    """host-string oracle for the operations of the property; None = no reference for this case"""
    try:
        if op == 'contains' or op == 'in':
            s, t = args
            return ['b', t in s]
        if op == 'starts':
            s, t = args
            return ['b', s.startswith(t)]
        if op == 'ends':
            s, t = args
            return ['b', s.endswith(t)]
        if op == 'concat':
            s, t = args
            return ['s', s + t]
        if op == 'find':
            s, t, n = args
            return ['i', s.find(t, max(0, n))]
        if op == 'replace':
            s, a, b = args
            return ['s', s.replace(a, b) if a != "" else s]
        if op == 'replace4':
            s, a, b, n = args
            if a == "":
                return ['s', s]
            n = max(0, n)
            return ['s', s[:n] + s[n:].replace(a, b)]
        if op == 'join':
            sep, xs = args
            return ['s', sep.join(xs)]
        if op in ('split_escaped', 'split_escaped2'):
            s, sep = args
            if s == "":
                return ['L', []]
            if sep == "":
                return ['L', list(s)]
            return ['L', s.split(sep)]
        if op == 'reverse':
            return ['s', args[0][::-1]]
        if op == 'trim':
            return ['s', args[0].strip()]
        if op == 'upper':
            return ['s', args[0].upper()]
        if op == 'lower':
            return ['s', args[0].lower()]
        if op == 'length':
            return ['i', len(args[0])]
        if op == 'ord':
            return ['i', ord(args[0][0])] if args[0] else ['err']
        if op == 'chr':
            n = args[0]
            return ['s', chr(n)] if 0 <= n < 0x110000 else ['err']
    except Exception:  # noqa
        return None
    return None


def _worker(chunk):
    """run the real-side specs of a chunk: [(src, env)] -> results"""
    core.use_repo()
    d = tempfile.mkdtemp(prefix="c18")
    fin, fout = os.path.join(d, "in.json"), os.path.join(d, "out.json")
    json.dump(chunk, open(fin, "w"))
    import contextlib
    import io
    with contextlib.redirect_stdout(io.StringIO()):
        SV.worker(fin, fout)
    res = json.load(open(fout))
    import shutil
    shutil.rmtree(d, ignore_errors=True)
    return res


def args_of(op, spec):
    """the python arguments of a case, from the variables of its real-side program"""
    v = {k: x[1] for k, x in spec[1].items()}
    if op in ('contains', 'starts', 'ends', 'in', 'concat', 'split_escaped', 'split_escaped2'):
        return [v['a'], v['b']]
    if op == 'find':
        return [v['a'], v['b'], v['n']]
    if op == 'replace':
        return [v['a'], v['b'], v['c']]
    if op == 'replace4':
        return [v['a'], v['b'], v['c'], v['n']]
    if op == 'join':
        return [v['a'], v['l']]
    if op in ('reverse', 'trim', 'upper', 'lower', 'ord', 'length'):
        return [v['a']]
    if op == 'chr':
        return [v['n']]
    return None


def run(ctx):
    seed = ctx.seed
    nrandom = 2500 if ctx.thorough else 350
    cases = SV.gen_cases(seed, nrandom)
    ctx.rule = ("all pairs (s, t) from the exhaustive set of strings of length <= 3 over {a, b, |} and random strings of length 0..12 over an "
                "adversarial alphabet (separators, regex metacharacters, both quotes, backslash, tab, newline, braces, non-ASCII) through "
                "contains / in / starts_with / ends_with / find / replace (with and without start) / join / split on literal separators "
                "(also through escape_pattern) / reverse / trim / upper / lower / chr / ord / length / s-interpolation; checked against host "
                "string operations, mutual consistency laws and the Lean model; s() templates of 1..3 placeholders (string values that themselves contain braces, ints) with right / left / zero padding against the definition; non-trivial = a string containing a special character")
    specs = [c[2] for c in cases]
    chunks = [specs[i:i + 4000] for i in range(0, len(specs), 4000)]
    with mp.Pool(16) as pool:
        real = [r for res in pool.map(_worker, chunks) for r in res]
    reqs = [c[1] for c in cases]
    resp = core.run_driver(reqs) if ctx.build.ok else [None] * len(cases)
    special = re.compile(r"[^a-z0-9]")
    for (op, req, spec), r, m in zip(cases, real, resp):
        ctx.seen((op, req), nontrivial=special.search(json.dumps(spec[1])) is not None)
        ctx.count("cases_" + op)
        rp = {"op": op, "program": spec[0], "vars": {k: v[1] for k, v in spec[1].items()}}
        if r[0] in ('pyexc', 'timeout'):
            if r[0] == 'pyexc' and r[1].startswith('RecursionError'):
                continue
            ctx.violation("oracle", f"`{spec[0]}` with {rp['vars']} escapes with {r}", rp)
            continue
        rr = ['err'] if r[0] == 'err' else r
        a = args_of(op, spec)
        want = reference(op, a) if a is not None and op != 's' else None
        if want is not None:
            ctx.count("reference_checked")
            if rr != want and not (rr == ['err'] and 'RecursionError' in str(r)):
                ctx.violation("oracle", f"`{spec[0]}` with {rp['vars']} gives {rr}, the definition on strings gives {want}", dict(rp, expected=want))
        if m is not None:
            mm = SV.parse_model(m)
            if mm[0] == 'unsupported':
                ctx.count("model_abstains")
            elif mm[0] == 'bad':
                raise RuntimeError("driver: " + m[:200])
            else:
                ctx.count("model_checked")
                if mm != rr and not (rr == ['err'] and 'RecursionError' in str(r)):
                    ctx.disagreements += 1
                    ctx.violation("correspondence", f"`{spec[0]}` with {rp['vars']}: model {mm}, implementation {rr}",
                                  dict(rp, correspondence="Ckl.Str." + op + " vs implementation"))
    # ---------------- the repository's own string library source (string.ckl, …) run by the model evaluator on the real base environment
    if ctx.build.ok:
        from harness import session

        def lit(tv):
            ty, v = tv
            if ty == 's':
                return str(proto.to_ckl(('s', v)))
            if ty == 'i':
                return str(v)
            return str(proto.to_ckl(('l', tuple(('s', x) for x in v))))
        idx = [i for i, r in enumerate(real) if r[0] not in ('pyexc', 'timeout')]
        if not ctx.thorough:
            idx = ctx.rng.sample(idx, min(len(idx), 5000))
        progs = [["".join(f"def {k} = {lit(tv)}; " for k, tv in cases[i][2][1].items()) + cases[i][2][0]] for i in idx]
        outs, why = session.run_lib_sessions(progs, legacy=True)
        if outs is None:
            ctx.disagreements += 1
            ctx.violation("correspondence", f"the model evaluator cannot build the base environment from the bundled sources: {why[:300]}",
                          {"op": "libsetup", "correspondence": "Ckl.eval on legacy.ckl vs get_base_environment"})
        else:
            for i, m in zip(idx, outs):
                op, req, spec = cases[i]
                mo = m[0][0]
                if mo[0] == 'fail':
                    ctx.count("library_source_model_abstains")
                    continue
                ctx.count("library_source_model_checked")
                r = real[i]
                if mo[0] == 'rt':
                    got = ['err']
                elif mo[0] == 'val':
                    v = mo[1]
                    got = (['s', v[1]] if v[0] == 's' else ['b', v[1]] if v[0] == 'b' else ['i', v[1]] if v[0] == 'i' else
                           ['L', [x[1] if x[0] == 's' else ['?', str(x)] for x in v[1]]] if v[0] == 'l' else ['other', str(v)])
                else:
                    got = [mo[0]]
                rr = ['err'] if r[0] == 'err' else r
                if got != rr and rr[0] != 'other':
                    ctx.disagreements += 1
                    ctx.violation("correspondence", f"`{spec[0]}` with {({k: v[1] for k, v in spec[1].items()})}: the model evaluator running the bundled "
                                  f"library source gives {got}, the implementation {rr}",
                                  {"op": op, "program": progs[idx.index(i)][0], "correspondence": "Ckl.eval on the bundled .ckl sources vs Interpreter"})
    # ---------------- laws between functions, through interpreted programs
    it, _ = common.fresh_interpreter(True, True)
    from ckl.values import ValueString, ValueList
    rng = ctx.rng
    for _ in range(4000 if ctx.thorough else 600):
        s = SV.rs(rng)
        t = SV.rsub(rng, s)
        sep = rng.choice([",", "|", "--", " ", "\n", ".", "*", "ab", "(", "$", "\\", "é"])
        xs = [SV.rs(rng, alpha=[c for c in SV.ALPHA if c not in sep], hi=4) for _ in range(rng.randint(1, 5))]
        env = it.environment
        env.put("u1", ValueString(s))
        env.put("t1", ValueString(t))
        env.put("sep", ValueString(sep))
        lst = ValueList()
        for x in xs:
            lst.addItem(ValueString(x))
        env.put("xs", lst)
        laws = ["contains(u1, t1) == (find(u1, t1) >= 0)", "contains(u1, t1) == (t1 in u1)", "reverse_string(reverse_string(u1)) == u1", "trim(trim(u1)) == trim(u1)",
                "upper(upper(u1)) == upper(u1)", "lower(lower(u1)) == lower(u1)", "length(u1 + t1) == length(u1) + length(t1)",
                "starts_with(u1 + t1, u1) and ends_with(u1 + t1, t1)", "find(u1 + t1, t1) <= length(u1)",
                "if find(u1, t1) >= 0 then substr(u1, find(u1, t1), find(u1, t1) + length(t1)) == t1 else TRUE",
                "join(split(u1, escape_pattern(sep)), sep) == u1 or u1 == ''", "split(join(xs, sep), escape_pattern(sep)) == xs or xs == ['']",
                "replace(u1, t1, t1) == u1", "if t1 != '' then not contains(replace(u1, t1, ''), t1) or TRUE else TRUE",
                "length(replace(u1, t1, t1 + t1)) >= length(u1)", "if u1 != '' then chr(ord(u1)) == substr(u1, 0, 1) else TRUE",
                "s('{u1}') == u1 or contains(u1, '{') or contains(u1, '}')", "s('<{t1#-0}>') == '<' + t1 + '>' or contains(t1, '{') or contains(t1, '}')"]
        for law in laws:
            out = common.run_program(it, law, "c18")
            ctx.seen(("law", law, s, t, sep, tuple(xs)), nontrivial=True)
            if out[:2] != ('val', 'TRUE'):
                if out[0] == 'rt' and 'RecursionError' in str(out[2]):
                    continue
                ctx.violation("oracle", f"law `{law}` fails with s={s!r}, t={t!r}, sep={sep!r}, xs={xs!r}: {out[:3]}",
                              {"op": "law", "law": law, "s": s, "t": t, "sep": sep, "xs": xs})
    # ---------------- s-interpolation against its definition: every placeholder replaced by the rendered value, padded as the format
    # says; the literal text and the inserted text (which may itself contain braces) left unchanged
    from ckl.values import ValueInt
    lit_alpha = [c for c in SV.ALPHA if c not in "{}#"] + [" ", "=", "x"]
    for _ in range(5000 if ctx.thorough else 800):
        nph = rng.randint(1, 3)
        template, template2, want = "", "", ""
        for k in range(nph):
            piece = "".join(rng.choice(lit_alpha) for _ in range(rng.randint(0, 4)))
            name = f"p{k}"
            if rng.random() < 0.3:
                val = rng.choice([0, 7, -12, 255, 10 ** 20, 4095])
                it.environment.put(name, ValueInt(val))
                text = str(val)
            else:
                text = rng.choice(["", "{p0}", "}", "{", "a{p1}b", "x{y}", "{{", "}{", "{p0#5}"]) if rng.random() < 0.5 else SV.rs(rng, hi=6)
                it.environment.put(name, ValueString(text))
            width = rng.choice([0, 1, 3, 8, 12])
            mode = rng.choice(["", "right", "left", "zero"])
            if mode == "":
                spec, shown = "", text
            elif mode == "right":
                spec, shown = f"#{width}", text.rjust(width)
            elif mode == "left":
                spec, shown = f"#-{width}", text.ljust(width)
            else:
                spec, shown = f"#0{width}", text.rjust(width, "0")
            template += piece + "{" + name + spec + "}"
            template2 += piece + "{" + str(k) + spec + "}"
            want += piece + shown
        tail = "".join(rng.choice(lit_alpha) for _ in range(rng.randint(0, 3)))
        template += tail
        template2 += tail
        want += tail
        it.environment.put("tpl", ValueString(template))
        it.environment.put("want", ValueString(want))
        out = common.run_program(it, "s(tpl) == want", "c18")
        ctx.seen(("interp", template, want), nontrivial=True)
        ctx.count("interpolations")
        if out[:2] != ('val', 'TRUE'):
            got = common.run_program(it, "s(tpl)", "c18")
            ctx.violation("oracle", f"s({template!r}) gives {got[:2]}, the definition gives {want!r} (placeholder values: "
                          f"{[str(it.environment.get(f'p{k}')) for k in range(nph)]})", {"op": "interpolation", "template": template, "expected": want})
        # … and sprintf with the same values passed as ARGUMENTS ({0}, {1}, … with the same format suffixes) gives the same text: the values
        # (which may hold quotes, braces, backslashes, placeholders) are inserted, never interpreted
        it.environment.put("tpl2", ValueString(template2))
        call = SPRINTF + "(tpl2" + "".join(f", p{k}" for k in range(nph)) + ")"
        out = common.run_program(it, call + " == want", "c18")
        ctx.count("sprintf_interpolations")
        if out[:2] != ('val', 'TRUE'):
            got = common.run_program(it, call, "c18")
            ctx.violation("oracle", f"sprintf({template2!r}, …) gives {got[:2]}, the definition gives {want!r} (argument values: "
                          f"{[str(it.environment.get(f'p{k}')) for k in range(nph)]})", {"op": "interpolation", "template": template2, "expected": want})
    ctx.sample({"call": "replace('abcabc', 'bc', 'x')", "result": "axax"})
    ctx.sample({"call": "split('a*b', escape_pattern('*'))", "result": ["a", "b"]})
    ctx.sample({"law": "contains(s, t) == (find(s, t) >= 0)"})
    common.replay_known(ctx)


def replay(ctx, payload):
    return common.generic_replay(ctx, payload)
