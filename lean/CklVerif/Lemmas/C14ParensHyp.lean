/-
  C14 (redundant parentheses) — the induction hypothesis of the extension proof.

  `Hyp x k` says: every production of the parser, run on a lexer state and on its extension by the
  stopper `x.t` (followed by `x.rest`), succeeds on the extension whenever it succeeds on the
  state, with the same value and with the extension of the remaining state — for all lexer states
  whose measure `16 * (remaining tokens) + rank` is below `k`.  For `pBareBlock`, `bareLoop` and
  `catchLoop` — which may stop in front of a `;` or `catch` that the extension could supply —
  the claim is made only when the first run leaves at least one token (`ERelW NELt`, `ERelW NELe`).
-/
import CklVerif.Lemmas.C14ParensHelpers2
namespace Ckl.C14X
open Ckl Ckl.Parser

local notation "kw" => (some TokType.keyword)
local notation "ip" => (some TokType.interpunction)
local notation "op" => (some TokType.operator)
local notation "idt" => (some TokType.identifier)

/-! ### tactic abbreviations for the simulation proofs -/

/-- rewrite the first run with everything that is known about an empty lexer state -/
macro "nil_tac " h:term:max : tactic =>
  `(tactic| (simp [matchIf_nil $h, matchIf2_nil $h, peekn_nil $h, expect_nil $h, next_nil $h, peek_nil $h,
      matchIdentifier_nil $h, hasNext_nil $h, isEndCatchFinally_nil $h, sepUnless_nil $h, matchOpTable_nil $h,
      matchBracketCompound_nil $h, pExpression_nil $h, pOr_nil $h, pStatement_nil $h, pBlock_nil $h,
      pPrimary_nil $h, listLoop_nil $h, setLoop_nil $h, mapLoop_nil $h, objLoop_nil $h, classLoop_nil $h,
      comprFinish_nil $h, paramsLoop_nil $h, argsLoop_nil $h, finallyLoop_nil $h, blockLoop_nil $h,
      blockOrStmt_nil $h, blockOrExpr_nil $h, blockOrOr_nil $h]))

/-- case split on `matchIf` of a continuation token in both runs at once -/
macro "mif " hs:term:max v:term:max ty:term:max " with " s1:ident h1:ident s1':ident h1':ident hs1:ident : tactic =>
  `(tactic| rcases matchIf_tab $hs (v := $v) (ty := $ty) (by tab) with
      ⟨e1, e2⟩ | ⟨⟨$s1:ident, $h1:ident⟩, ⟨$s1':ident, $h1':ident⟩, e1, e2, $hs1:ident⟩ <;> rw [e1, e2] <;>
      (try dsimp only at $hs1:ident) <;> (try dsimp only))

/-- case split on `matchIf` of a closing token: third case "the first state is empty" (`hnil`) -/
macro "mif3 " hs:term:max v:term:max ty:term:max " with " s1:ident h1:ident s1':ident h1':ident hs1:ident
    hnil:ident : tactic =>
  `(tactic| rcases matchIf_cases $hs $v $ty with
      ⟨e1, e2⟩ | ⟨⟨$s1:ident, $h1:ident⟩, ⟨$s1':ident, $h1':ident⟩, e1, e2, $hs1:ident⟩ | $hnil:ident <;>
      (try rw [e1, e2]) <;> (try dsimp only at $hs1:ident) <;> (try dsimp only))

macro "mif2 " hs:term:max v:term:max ty:term:max v2:term:max ty2:term:max " with "
    s1:ident h1:ident s1':ident h1':ident hs1:ident : tactic =>
  `(tactic| rcases matchIf2_tab $hs (v1 := $v) (ty1 := $ty) (v2 := $v2) (ty2 := $ty2) (by tab) (by tab) with
      ⟨e1, e2⟩ | ⟨⟨$s1:ident, $h1:ident⟩, ⟨$s1':ident, $h1':ident⟩, e1, e2, $hs1:ident⟩ <;> rw [e1, e2] <;>
      (try dsimp only at $hs1:ident) <;> (try dsimp only))

/-- `matchIf2` whose first token is a closing token and whose second is a continuation token -/
macro "mif23 " hs:term:max v:term:max ty:term:max v2:term:max ty2:term:max " with "
    s1:ident h1:ident s1':ident h1':ident hs1:ident hnil:ident : tactic =>
  `(tactic| rcases matchIf2_cases $hs $v $ty (v2 := $v2) (ty2 := $ty2) (by tab) with
      ⟨e1, e2⟩ | ⟨⟨$s1:ident, $h1:ident⟩, ⟨$s1':ident, $h1':ident⟩, e1, e2, $hs1:ident⟩ | $hnil:ident <;>
      (try rw [e1, e2]) <;> (try dsimp only at $hs1:ident) <;> (try dsimp only))

/-- case split on a table of `matchIf` alternatives (`matchOpTable`, `isPredTable`, …) -/
macro "mtab " t:term:max " with " fn:ident s1:ident h1:ident s1':ident h1':ident hs1:ident : tactic =>
  `(tactic| rcases ($t) with
      ⟨e1, e2⟩ | ⟨$fn:ident, ⟨$s1:ident, $h1:ident⟩, ⟨$s1':ident, $h1':ident⟩, e1, e2, $hs1:ident⟩ <;> rw [e1, e2] <;>
      (try dsimp only at $hs1:ident) <;> (try dsimp only))

macro "mtab3 " t:term:max " with " fn:ident s1:ident h1:ident s1':ident h1':ident hs1:ident hnil:ident : tactic =>
  `(tactic| rcases ($t) with
      ⟨e1, e2⟩ | ⟨$fn:ident, ⟨$s1:ident, $h1:ident⟩, ⟨$s1':ident, $h1':ident⟩, e1, e2, $hs1:ident⟩ | $hnil:ident <;>
      (try rw [e1, e2]) <;> (try dsimp only at $hs1:ident) <;> (try dsimp only))

/-- decide an `if` whose (Boolean) condition is the same in both runs: first goal `true`, second `false` -/
macro "bif " hb:ident " : " c:term : tactic =>
  `(tactic| by_cases $hb:ident : ($c : Bool) = true <;> simp only [$hb:ident, if_true, if_false, Bool.false_eq_true])

/-- `peekn 1` of a closing token: first goal "same answer in both runs" (rewritten), second goal
    "the first state is empty" -/
macro "pk3 " hs:term:max v:term:max ty:term:max " with " hnil:ident : tactic =>
  `(tactic| rcases peekn1_cases $hs $v $ty with hp | $hnil:ident <;> (try simp only [hp]))

/-- one monadic step of a production returning `OutLt` / `OutLe` -/
macro "ebind " t:term:max " with " e:ident s1:ident h1:ident s1':ident h1':ident hs1:ident : tactic =>
  `(tactic| (refine ERel.bind $t ?_
             rintro ⟨$e:ident, $s1:ident, $h1:ident⟩ ⟨e', $s1':ident, $h1':ident⟩ ⟨he, $hs1:ident⟩
             dsimp only at he
             subst he
             (try dsimp only at $hs1:ident)
             (try dsimp only)))

/-- `ebind` for a production with a weak result (`ERelW NELt/NELe`) inside a strong production:
    first goal "the first run left no token (`hnil`), so the rest of the first run fails";
    second goal as for `ebind` -/
macro "ebindw " t:term:max " with " e:ident s1:ident h1:ident s1':ident h1':ident hs1:ident hnil:ident : tactic =>
  `(tactic| (refine ERel.bindW $t ?_ ?_
             rintro ⟨$e:ident, $s1:ident, $h1:ident⟩ hnn
             have $hnil:ident : ($s1:ident).toks = [] := Classical.not_not.mp hnn
             clear hnn
             (try dsimp only)
             rotate_left
             rintro ⟨$e:ident, $s1:ident, $h1:ident⟩ ⟨e', $s1':ident, $h1':ident⟩ hnn ⟨he, $hs1:ident⟩
             dsimp only at he
             subst he
             (try dsimp only at $hs1:ident)
             (try dsimp only)
             rotate_left))

/-- a strong step inside a weak production (`ERelW`) -/
macro "ebindW " t:term:max " with " e:ident s1:ident h1:ident s1':ident h1':ident hs1:ident : tactic =>
  `(tactic| (refine ERelW.bind $t ?_
             rintro ⟨$e:ident, $s1:ident, $h1:ident⟩ ⟨e', $s1':ident, $h1':ident⟩ ⟨he, $hs1:ident⟩
             dsimp only at he
             subst he
             (try dsimp only at $hs1:ident)
             (try dsimp only)))

/-- `ebind` for a production returning a pair -/
macro "ebind2 " t:term:max " with " a:ident b:ident s1:ident h1:ident s1':ident h1':ident hs1:ident : tactic =>
  `(tactic| (refine ERel.bind $t ?_
             rintro ⟨⟨$a:ident, $b:ident⟩, $s1:ident, $h1:ident⟩ ⟨e', $s1':ident, $h1':ident⟩ ⟨he, $hs1:ident⟩
             dsimp only at he
             subst he
             (try dsimp only at $hs1:ident)
             (try dsimp only)))

/-- `ebind` where the relatedness of the first step is left as the first goal -/
macro "ebindr " r:term:max " with " e:ident s1:ident h1:ident s1':ident h1':ident hs1:ident : tactic =>
  `(tactic| (refine ERel.bind (r := $r) ?_ ?_
             rotate_left
             rintro ⟨$e:ident, $s1:ident, $h1:ident⟩ ⟨e', $s1':ident, $h1':ident⟩ ⟨he, $hs1:ident⟩
             dsimp only at he
             subst he
             (try dsimp only at $hs1:ident)
             (try dsimp only)
             rotate_left))

theorem matchIf_guard_tab {x : Ext} (b : Bool) {s s' : St} (h : SRel x s s') {v : List Char}
    {ty : Option TokType} (hm : (v, ty) ∈ contTable) :
    ((if b then s.matchIf v ty else none) = none ∧ (if b then s'.matchIf v ty else none) = none) ∨
    (∃ a a', (if b then s.matchIf v ty else none) = some a ∧ (if b then s'.matchIf v ty else none) = some a' ∧
      SRel x a.1 a'.1) := by
  cases b
  · exact Or.inl ⟨rfl, rfl⟩
  · exact matchIf_tab h hm

theorem matchIf2_guard_tab {x : Ext} (b : Bool) {s s' : St} (h : SRel x s s') {v : List Char}
    {ty : Option TokType} {v2 : List Char} {ty2 : Option TokType} (hm : (v, ty) ∈ contTable)
    (hm2 : (v2, ty2) ∈ contTable) :
    ((if b then s.matchIf2 v ty v2 ty2 else none) = none ∧ (if b then s'.matchIf2 v ty v2 ty2 else none) = none) ∨
    (∃ a a', (if b then s.matchIf2 v ty v2 ty2 else none) = some a ∧
      (if b then s'.matchIf2 v ty v2 ty2 else none) = some a' ∧ SRel x a.1 a'.1) := by
  cases b
  · exact Or.inl ⟨rfl, rfl⟩
  · exact matchIf2_tab h hm hm2

/-- `mif` for `if b then st.matchIf v ty else none` -/
macro "mifg " b:term:max hs:term:max v:term:max ty:term:max " with "
    s1:ident h1:ident s1':ident h1':ident hs1:ident : tactic =>
  `(tactic| rcases matchIf_guard_tab $b $hs (v := $v) (ty := $ty) (by tab) with
      ⟨e1, e2⟩ | ⟨⟨$s1:ident, $h1:ident⟩, ⟨$s1':ident, $h1':ident⟩, e1, e2, $hs1:ident⟩ <;> rw [e1, e2] <;>
      (try dsimp only at $hs1:ident) <;> (try dsimp only))

macro "mifg2 " b:term:max hs:term:max v:term:max ty:term:max v2:term:max ty2:term:max " with "
    s1:ident h1:ident s1':ident h1':ident hs1:ident : tactic =>
  `(tactic| rcases matchIf2_guard_tab $b $hs (v := $v) (ty := $ty) (v2 := $v2) (ty2 := $ty2) (by tab) (by tab) with
      ⟨e1, e2⟩ | ⟨⟨$s1:ident, $h1:ident⟩, ⟨$s1':ident, $h1':ident⟩, e1, e2, $hs1:ident⟩ <;> rw [e1, e2] <;>
      (try dsimp only at $hs1:ident) <;> (try dsimp only))

/-- destructure `matchWhat` in both runs -/
macro "mwhat " hs:term:max " with " w:ident s1:ident h1:ident s1':ident h1':ident hs1:ident : tactic =>
  `(tactic| (obtain ⟨hw, $hs1:ident⟩ := matchWhat_rel $hs
             revert hw $hs1:ident
             generalize matchWhat _ = mw
             generalize matchWhat _ = mw'
             obtain ⟨$w:ident, $s1:ident, $h1:ident⟩ := mw
             obtain ⟨w', $s1':ident, $h1':ident⟩ := mw'
             intro hw $hs1:ident
             dsimp only at hw $hs1:ident
             subst w'
             (try dsimp only)))

/-- destructure `takeComment` in both runs (the first state is not empty: `hne`) -/
macro "mcomment " hs:term:max hne:term:max " with " w:ident s1:ident h1:ident s1':ident h1':ident hs1:ident : tactic =>
  `(tactic| (obtain ⟨hw, $hs1:ident⟩ := takeComment_rel $hs $hne
             revert hw $hs1:ident
             generalize takeComment _ = mw
             generalize takeComment _ = mw'
             obtain ⟨$w:ident, $s1:ident, $h1:ident⟩ := mw
             obtain ⟨w', $s1':ident, $h1':ident⟩ := mw'
             intro hw $hs1:ident
             dsimp only at hw $hs1:ident
             subst w'
             (try dsimp only)))

/-- one monadic step of a helper returning a lexer state in a subtype (`expect`, `sepUnless`) -/
macro "sbind " t:term:max " with " s1:ident h1:ident s1':ident h1':ident hs1:ident : tactic =>
  `(tactic| (refine ERel.bind $t ?_
             rintro ⟨$s1:ident, $h1:ident⟩ ⟨$s1':ident, $h1':ident⟩ $hs1:ident
             (try dsimp only [SSub] at $hs1:ident)
             (try dsimp only)))

structure Hyp (x : Ext) (k : Nat) : Prop where
  pBareBlock : ∀ {c c' : Ctx} {st st' : St} (tl : Bool), CRel c c' → SRel x st st' →
    st.toks.length * 16 + 12 < k → ERelW NELt (OLt x) (pBareBlock c tl st) (pBareBlock c' tl st')
  bareLoop : ∀ {c c' : Ctx} {st st' : St} {acc : List Node}, CRel c c' → SRel x st st' →
    st.toks.length * 16 + 0 < k → ERelW NELe (OLe x) (bareLoop c st acc) (bareLoop c' st' acc)
  pBlock : ∀ {c c' : Ctx} {st st' : St}, CRel c c' → SRel x st st' →
    st.toks.length * 16 + 0 < k → ERel (OLt x) (pBlock c st) (pBlock c' st')
  blockLoop : ∀ {c c' : Ctx} {st st' : St} {acc : List Node}, CRel c c' → SRel x st st' →
    st.toks.length * 16 + 12 < k → ERel (OLe x) (blockLoop c st acc) (blockLoop c' st' acc)
  catchLoop : ∀ {c c' : Ctx} {st st' : St} {e h : List Node}, CRel c c' → SRel x st st' →
    st.toks.length * 16 + 0 < k → ERelW NELe (OLe x) (catchLoop c st e h) (catchLoop c' st' e h)
  finallyLoop : ∀ {c c' : Ctx} {st st' : St} {acc : List Node}, CRel c c' → SRel x st st' →
    st.toks.length * 16 + 12 < k → ERel (OLe x) (finallyLoop c st acc) (finallyLoop c' st' acc)
  pStatement : ∀ {c c' : Ctx} {st st' : St}, CRel c c' → SRel x st st' →
    st.toks.length * 16 + 11 < k → ERel (OLt x) (pStatement c st) (pStatement c' st')
  pDef : ∀ {c c' : Ctx} {st st' : St} (comment : String), CRel c c' → SRel x st st' →
    st.toks.length * 16 + 0 < k → ERel (OLt x) (pDef c comment st) (pDef c' comment st')
  pDefTail : ∀ {c c' : Ctx} {st st' : St} (name : List Char) (comment : String) (pos : Pos),
    CRel c c' → SRel x st st' → st.toks.length * 16 + 1 < k →
    ERel (OLt x) (pDefTail c name comment pos st) (pDefTail c' name comment pos st')
  classLoop : ∀ {c c' : Ctx} {st st' : St} {acc : List Node} (comment : String), CRel c c' → SRel x st st' → st.toks.length * 16 + 0 < k →
    ERel (OLe x) (classLoop c comment st acc) (classLoop c' comment st' acc)
  pExpression : ∀ {c c' : Ctx} {st st' : St}, CRel c c' → SRel x st st' →
    st.toks.length * 16 + 10 < k → ERel (OLt x) (pExpression c st) (pExpression c' st')
  ifClause : ∀ {c c' : Ctx} {st st' : St}, CRel c c' → SRel x st st' →
    st.toks.length * 16 + 10 < k → ERel (OLt x) (ifClause c st) (ifClause c' st')
  ifLoop : ∀ {c c' : Ctx} {st st' : St} {cs es : List Node}, CRel c c' → SRel x st st' →
    st.toks.length * 16 + 0 < k → ERel (OLe x) (ifLoop c st cs es) (ifLoop c' st' cs es)
  pOr : ∀ {c c' : Ctx} {st st' : St}, CRel c c' → SRel x st st' →
    st.toks.length * 16 + 9 < k → ERel (OLt x) (pOr c st) (pOr c' st')
  orLoop : ∀ {c c' : Ctx} {st st' : St} {acc : List Node}, CRel c c' → SRel x st st' →
    st.toks.length * 16 + 0 < k → ERel (OLe x) (orLoop c st acc) (orLoop c' st' acc)
  pAnd : ∀ {c c' : Ctx} {st st' : St}, CRel c c' → SRel x st st' →
    st.toks.length * 16 + 8 < k → ERel (OLt x) (pAnd c st) (pAnd c' st')
  andLoop : ∀ {c c' : Ctx} {st st' : St} {acc : List Node}, CRel c c' → SRel x st st' →
    st.toks.length * 16 + 0 < k → ERel (OLe x) (andLoop c st acc) (andLoop c' st' acc)
  pNot : ∀ {c c' : Ctx} {st st' : St}, CRel c c' → SRel x st st' →
    st.toks.length * 16 + 7 < k → ERel (OLt x) (pNot c st) (pNot c' st')
  pRel : ∀ {c c' : Ctx} {st st' : St}, CRel c c' → SRel x st st' →
    st.toks.length * 16 + 6 < k → ERel (OLt x) (pRel c st) (pRel c' st')
  relLoop : ∀ {c c' : Ctx} {st st' : St} {lhs : Node} {acc : List Node}, CRel c c' → SRel x st st' →
    st.toks.length * 16 + 0 < k → ERel (OLe x) (relLoop c st lhs acc) (relLoop c' st' lhs acc)
  pAdd : ∀ {c c' : Ctx} {st st' : St}, CRel c c' → SRel x st st' →
    st.toks.length * 16 + 5 < k → ERel (OLt x) (pAdd c st) (pAdd c' st')
  addLoop : ∀ {c c' : Ctx} {st st' : St} {e : Node}, CRel c c' → SRel x st st' →
    st.toks.length * 16 + 0 < k → ERel (OLe x) (addLoop c st e) (addLoop c' st' e)
  pMul : ∀ {c c' : Ctx} {st st' : St}, CRel c c' → SRel x st st' →
    st.toks.length * 16 + 4 < k → ERel (OLt x) (pMul c st) (pMul c' st')
  mulLoop : ∀ {c c' : Ctx} {st st' : St} {e : Node}, CRel c c' → SRel x st st' →
    st.toks.length * 16 + 0 < k → ERel (OLe x) (mulLoop c st e) (mulLoop c' st' e)
  pUnary : ∀ {c c' : Ctx} {st st' : St}, CRel c c' → SRel x st st' →
    st.toks.length * 16 + 3 < k → ERel (OLt x) (pUnary c st) (pUnary c' st')
  pPred : ∀ {c c' : Ctx} {st st' : St} (um : Bool), CRel c c' → SRel x st st' →
    st.toks.length * 16 + 2 < k → ERel (OLt x) (pPred c um st) (pPred c' um st')
  applyIsPred : ∀ {c c' : Ctx} {st st' : St} {e : Node} (p : IsPred) (pos : Pos), CRel c c' → SRel x st st' → st.toks.length * 16 + 14 < k →
    ERel (OLe x) (applyIsPred c p e pos st) (applyIsPred c' p e pos st')
  pCollectMinMax : ∀ {c c' : Ctx} {st st' : St} {e : Node} (fn : String) (pos : Pos), CRel c c' →
    SRel x st st' → st.toks.length * 16 + 13 < k →
    ERel (OLe x) (pCollectMinMax c fn e pos st) (pCollectMinMax c' fn e pos st')
  optPrimary : ∀ {c c' : Ctx} {st st' : St} {d : Node} (word : List Char), (word, idt) ∈ contTable →
    CRel c c' → SRel x st st' → st.toks.length * 16 + 12 < k →
    ERel (OLe x) (optPrimary c word d st) (optPrimary c' word d st')
  pPrimary : ∀ {c c' : Ctx} {st st' : St} (um : Bool), CRel c c' → SRel x st st' →
    st.toks.length * 16 + 1 < k → ERel (OLt x) (pPrimary c um st) (pPrimary c' um st')
  pPrimaryKw : ∀ {c c' : Ctx} {st st' : St} (t : Token), CRel c c' → SRel x st st' →
    st.toks.length * 16 + 15 < k → ERel (OLe x) (pPrimaryKw c t st) (pPrimaryKw c' t st')
  pListLiteral : ∀ {c c' : Ctx} {st st' : St} (tpos : Pos), CRel c c' → SRel x st st' →
    st.toks.length * 16 + 11 < k → ERel (OLt x) (pListLiteral c tpos st) (pListLiteral c' tpos st')
  listLoop : ∀ {c c' : Ctx} {st st' : St} {items : List Node} {pending : Option Node}, CRel c c' →
    SRel x st st' → st.toks.length * 16 + 0 < k →
    ERel (OLe x) (listLoop c st items pending) (listLoop c' st' items pending)
  comprClause : ∀ {c c' : Ctx} {st st' : St}, CRel c c' → SRel x st st' →
    st.toks.length * 16 + 0 < k → ERel (OLt x) (comprClause c st) (comprClause c' st')
  pComprRest : ∀ {c c' : Ctx} {st st' : St} {v ke : Node} (kind : ComprKind) (multi : Bool)
    (closer : List Char) (tpos : Pos), CRel c c' → SRel x st st' →
    st.toks.length * 16 + 1 < k →
    ERel (OLt x) (pComprRest c kind multi closer tpos v ke st)
      (pComprRest c' kind multi closer tpos v ke st')
  comprFinish : ∀ {c c' : Ctx} {st st' : St} {mk : Node → Node} (closer : List Char), CRel c c' →
    SRel x st st' → st.toks.length * 16 + 0 < k →
    ERel (OLt x) (comprFinish c mk closer st) (comprFinish c' mk closer st')
  pSetLiteral : ∀ {c c' : Ctx} {st st' : St} (tpos : Pos), CRel c c' → SRel x st st' →
    st.toks.length * 16 + 11 < k → ERel (OLt x) (pSetLiteral c tpos st) (pSetLiteral c' tpos st')
  setLoop : ∀ {c c' : Ctx} {st st' : St} {items : List Node}, CRel c c' → SRel x st st' → st.toks.length * 16 + 11 < k →
    ERel (OLe x) (setLoop c st items) (setLoop c' st' items)
  pMapLiteral : ∀ {c c' : Ctx} {st st' : St} (tpos : Pos), CRel c c' → SRel x st st' →
    st.toks.length * 16 + 11 < k → ERel (OLt x) (pMapLiteral c tpos st) (pMapLiteral c' tpos st')
  mapLoop : ∀ {c c' : Ctx} {st st' : St} {ks vs : List Node}, CRel c c' → SRel x st st' → st.toks.length * 16 + 11 < k →
    ERel (OLe x) (mapLoop c st ks vs) (mapLoop c' st' ks vs)
  pObjectLiteral : ∀ {c c' : Ctx} {st st' : St} (tpos : Pos), CRel c c' → SRel x st st' →
    st.toks.length * 16 + 1 < k →
    ERel (OLt x) (pObjectLiteral c tpos st) (pObjectLiteral c' tpos st')
  objLoop : ∀ {c c' : Ctx} {st st' : St} {vs : List Node} (ks : List String), CRel c c' → SRel x st st' → st.toks.length * 16 + 0 < k →
    ERel (OLe x) (objLoop c st ks vs) (objLoop c' st' ks vs)
  pFn : ∀ {c c' : Ctx} {st st' : St} (pos : Pos), CRel c c' → SRel x st st' →
    st.toks.length * 16 + 0 < k → ERel (OLt x) (pFn c pos st) (pFn c' pos st')
  paramsLoop : ∀ {c c' : Ctx} {st st' : St} {ds : List Node} (ps : List String), CRel c c' → SRel x st st' → st.toks.length * 16 + 0 < k →
    ERel (OLe x) (paramsLoop c st ps ds) (paramsLoop c' st' ps ds)
  invokeBody : ∀ {c c' : Ctx} {st st' : St} {node : Node}, CRel c c' → SRel x st st' →
    st.toks.length * 16 + 0 < k → ERel (OLt x) (invokeBody c node st) (invokeBody c' node st')
  argsLoop : ∀ {c c' : Ctx} {st st' : St} {args : List Node} (names : List (Option String)), CRel c c' →
    SRel x st st' → st.toks.length * 16 + 11 < k →
    ERel (OLt x) (argsLoop c st names args) (argsLoop c' st' names args)
  derefArrow : ∀ {c c' : Ctx} {st st' : St} {node : Node}, CRel c c' → SRel x st st' →
    st.toks.length * 16 + 0 < k → ERel (OLt x) (derefArrow c node st) (derefArrow c' node st')
  derefBracket : ∀ {c c' : Ctx} {st st' : St} {node : Node}, CRel c c' → SRel x st st' →
    st.toks.length * 16 + 11 < k → ERel (OLt x) (derefBracket c node st) (derefBracket c' node st')
  postfixLoop : ∀ {c c' : Ctx} {st st' : St} {node : Node} (ac ad : Bool), CRel c c' → SRel x st st' → st.toks.length * 16 + 0 < k →
    ERel (OLe x) (postfixLoop c ac ad st node) (postfixLoop c' ac ad st' node)


theorem blockOrStmt_rel {x : Ext} {k : Nat} (H : Hyp x k) {c c' : Ctx} {s s' : St} (hc : CRel c c')
    (hs : SRel x s s') (hk : s.toks.length * 16 + 11 < k) :
    ERel (OLt x) (if s.peekn 1 c!"do" kw then pBlock c s else pStatement c s)
      (if s'.peekn 1 c!"do" kw then pBlock c' s' else pStatement c' s') := by
  rcases peekn1_cases hs c!"do" kw with hp | h0
  · rw [hp]
    bif hb : s.peekn 1 c!"do" kw
    · exact H.pBlock hc hs (by omega)
    · exact H.pStatement hc hs (by omega)
  · rw [blockOrStmt_nil h0]; exact ERel.err

theorem blockOrExpr_rel {x : Ext} {k : Nat} (H : Hyp x k) {c c' : Ctx} {s s' : St} (hc : CRel c c')
    (hs : SRel x s s') (hk : s.toks.length * 16 + 10 < k) :
    ERel (OLt x) (if s.peekn 1 c!"do" kw then pBlock c s else pExpression c s)
      (if s'.peekn 1 c!"do" kw then pBlock c' s' else pExpression c' s') := by
  rcases peekn1_cases hs c!"do" kw with hp | h0
  · rw [hp]
    bif hb : s.peekn 1 c!"do" kw
    · exact H.pBlock hc hs (by omega)
    · exact H.pExpression hc hs (by omega)
  · rw [blockOrExpr_nil h0]; exact ERel.err

theorem blockOrOr_rel {x : Ext} {k : Nat} (H : Hyp x k) {c c' : Ctx} {s s' : St} (hc : CRel c c')
    (hs : SRel x s s') (hk : s.toks.length * 16 + 9 < k) :
    ERel (OLt x) (if s.peekn 1 c!"do" kw then pBlock c s else pOr c s)
      (if s'.peekn 1 c!"do" kw then pBlock c' s' else pOr c' s') := by
  rcases peekn1_cases hs c!"do" kw with hp | h0
  · rw [hp]
    bif hb : s.peekn 1 c!"do" kw
    · exact H.pBlock hc hs (by omega)
    · exact H.pOr hc hs (by omega)
  · rw [blockOrOr_nil h0]; exact ERel.err

end Ckl.C14X
