/- Val <-> S-expression codec for the driver protocol. -/
import CklVerif.Model.Coll
import CklVerif.Model.DecRepr
import CklVerif.Driver.Sexp
namespace Ckl
open Sx

def atomNat? : Sx → Option Nat
  | .atom s => s.toNat?
  | _ => none

def atomInt? : Sx → Option Int
  | .atom s => s.toInt?
  | _ => none

mutual
  partial def decodeVal : Sx → Option Val
    | .atom "null" => some .null
    | .list [.atom "b", .atom "0"] => some (.bool false)
    | .list [.atom "b", .atom "1"] => some (.bool true)
    | .list [.atom "i", n] => (atomInt? n).map .int
    | .list [.atom "d", m, e] => do
        let m ← atomInt? m; let e ← atomNat? e; some (.dec m e)
    | .list [.atom "s"] => some (.str [])
    | .list [.atom "s", .atom h] => (decodeStr h).map .str
    | .list [.atom "p"] => some (.pat [])
    | .list [.atom "p", .atom h] => (decodeStr h).map .pat
    | .list [.atom "dt", y, mo, d, h, mi, s, us] => do
        some (.date ⟨← atomNat? y, ← atomNat? mo, ← atomNat? d, ← atomNat? h, ← atomNat? mi, ← atomNat? s, ← atomNat? us⟩)
    | .list (.atom "l" :: xs) => (xs.mapM decodeVal).map .list
    | .list (.atom "S" :: xs) => (xs.mapM decodeVal).map (mkSet decRepr)
    | .list (.atom "m" :: xs) => (xs.mapM decodeKV).map (mkMap decRepr)
    | _ => none
  partial def decodeKV : Sx → Option (Val × Val)
    | .list [k, v] => do some (← decodeVal k, ← decodeVal v)
    | _ => none
end

mutual
  partial def encodeVal : Val → Sx
    | .null => .atom "null"
    | .bool b => .list [.atom "b", .atom (if b then "1" else "0")]
    | .int n => .list [.atom "i", .atom (toString n)]
    | .dec m e => .list [.atom "d", .atom (toString m), .atom (toString e)]
    | .str s => if s.isEmpty then .list [.atom "s"] else .list [.atom "s", .atom (encodeStr s)]
    | .pat s => if s.isEmpty then .list [.atom "p"] else .list [.atom "p", .atom (encodeStr s)]
    | .date d => .list (.atom "dt" :: (DT.toList d).map (fun (n : Nat) => Sx.atom (toString n)))
    | .list xs => .list (.atom "l" :: xs.map encodeVal)
    | .set xs => .list (.atom "S" :: xs.map encodeVal)
    | .map kvs => .list (.atom "m" :: kvs.map (fun kv => .list [encodeVal kv.1, encodeVal kv.2]))
end

def encBool (b : Bool) : Sx := .atom (if b then "1" else "0")
def okSx (x : Sx) : Sx := .list [.atom "ok", x]
def encStr (s : List Char) : Sx := if s.isEmpty then .list [.atom "s"] else .list [.atom "s", .atom (encodeStr s)]

end Ckl
