/-
  DN — the driver's interpretation of the built-ins that the evaluator model leaves open
  (`Driver/NativeSem.lean`, `driverNativeSem`) is PURE, and every hypothesis on `Loader.nativeSem` under which a
  flagship theorem is stated holds for every pure interpretation — in particular for the loaders the driver runs
  (`sessionLoader`, `libLoader` of `Driver/EvalCmd.lean`).

  `StrictPureSem sem` : the literal notion — for all arguments and states the outcome is
        `.ok v s`           the SAME state and a scalar `v` (null, boolean, int, decimal, string, pattern, date), or
        `.err v msg {} [] s` the same state, a scalar error value, the default position, an empty trace, or
        `.fail (.unsupported _) s`.
  `PureSem sem`       : the same, except that a value outcome may also
        * return a container REFERENCE (`if_empty(a, b)` hands back one of its arguments), and
        * have extended the heap by fresh list cells holding scalars / references (`split`, `split2` return new
          lists of strings): `HeapExt s s'` — nothing else of the state changes (`HeapExt.spec`).
  `StrictPureSem.pure` : strict implies pure.
  `driverNativeSem_pure` : `PureSem driverNativeSem`;
  `driverNativeSem_strict` : whenever `driverNativeSem` returns a scalar, the state is untouched — it is strictly pure
        on every call that does not return a list.
  `driverNativeSemScalar` (`driverNativeSem` made to abstain when the result is a reference) is `StrictPureSem`.

  Transfer: for every loader `ld` with `PureSem ld.nativeSem`
        `NativeBalanced ld` (C05), `NativeKeepsModstack ld` (C10), `NativeKeepsModules ld` (C11),
        `NativeClean ld`, `NativeKeepsSecure ld` (C09 evaluator level), `NativeRespects ld N` for every `N ∋ {}` (C20),
        no host failure (the hypothesis of C13 `no_host_escape`-style theorems),
        `NativeGrows ld` (C10 sessions), `NativeKeepsFrames ld` (C11 bindings).
  Two hypotheses do NOT follow from purity (a pure interpretation may read a position stored in an argument, or a
  ghost counter: counterexamples in section 4b); they follow from the stronger, structural
  `DataSem sem` : `sem name args s = finish name (res name (flatArgs args) (contLen s)) s` — the result is computed
        from the position-free view of the arguments and the lengths of the containers on the heap
        (`driverNativeSem_data`, by construction; `DataSem.pure`):
        `NativeSim ld` (C14 evaluator: position erasure), `NativeGhostFree ld` (C10 sessions).
  Instances for `sessionLoader …` and `libLoader …` (`AllNativeHyps`, eleven hypotheses), and C14 end to end
  (`interpret_layout_irrelevant`) for both loaders.
-/
import CklVerif.Driver.NativeSem
import CklVerif.Driver.EvalCmd
import CklVerif.Lemmas.C05Mutual
import CklVerif.Lemmas.C10Modstack
import CklVerif.Lemmas.C11Modules
import CklVerif.Proofs.C09Eval
import CklVerif.Proofs.C20Eval
import CklVerif.Lemmas.C10SessMutual
import CklVerif.Lemmas.C10SessGhostMutual
import CklVerif.Lemmas.C11BindFMain
import CklVerif.Proofs.C14EndToEnd
namespace Ckl.DN
open Ckl

/-! ### 1. the predicates -/

/-- null, boolean, int, decimal, string, pattern, date -/
def Scalar : RVal → Prop
  | .null | .bool _ | .int _ | .dec _ _ | .str _ | .pat _ | .date _ => True
  | _ => False

/-- a scalar or a reference to a container: no function, no node, no control value -/
def Plain : RVal → Prop
  | .null | .bool _ | .int _ | .dec _ _ | .str _ | .pat _ | .date _ | .ref _ => True
  | _ => False

theorem Scalar.plain {v : RVal} (h : Scalar v) : Plain v := by
  cases v <;> first | exact trivial | exact h.elim

/-- a list cell holding plain values -/
def PlainCell : Cell → Prop
  | .list xs => ∀ x ∈ xs, Plain x
  | _ => False

/-- `s'` is `s` after some allocations of plain list cells -/
inductive HeapExt (s : State) : State → Prop
  | refl : HeapExt s s
  | alloc {s1 : State} {c : Cell} : HeapExt s s1 → PlainCell c → HeapExt s (s1.alloc c).1

/-- what `HeapExt` says: only the heap differs, and it differs by plain list cells appended at the end -/
theorem HeapExt.spec {s s' : State} (h : HeapExt s s') :
    ∃ cells : List Cell, (∀ c ∈ cells, PlainCell c) ∧ s' = { s with heap := s.heap ++ cells.toArray } := by
  induction h with
  | refl => exact ⟨[], by simp, by cases s; simp⟩
  | @alloc s1 c _ hc ih =>
    obtain ⟨cells, h1, h2⟩ := ih
    refine ⟨cells ++ [c], fun d hd => ?_, ?_⟩
    · rcases List.mem_append.mp hd with hd | hd
      · exact h1 d hd
      · rw [List.mem_singleton.mp hd]; exact hc
    · subst h2
      simp only [State.alloc]
      congr 1
      rw [← List.push_toArray, Array.append_push]

theorem HeapExt.trans {a b c : State} (h1 : HeapExt a b) (h2 : HeapExt b c) : HeapExt a c := by
  induction h2 with
  | refl => exact h1
  | alloc _ hc ih => exact .alloc ih hc

/-- outcome of a pure call made in state `s` -/
def PureOut (s : State) : Out RVal → Prop
  | .ok v s' => HeapExt s s' ∧ Plain v
  | .err v _ p t s' => s' = s ∧ Scalar v ∧ p = {} ∧ t = []
  | .fail f s' => s' = s ∧ ∃ w, f = .unsupported w

/-- the literal notion: same state, scalar value -/
def StrictOut (s : State) : Out RVal → Prop
  | .ok v s' => s' = s ∧ Scalar v
  | .err v _ p t s' => s' = s ∧ Scalar v ∧ p = {} ∧ t = []
  | .fail f s' => s' = s ∧ ∃ w, f = .unsupported w

def PureSem (sem : String → List (String × RVal) → State → Out RVal) : Prop :=
  ∀ name args s, PureOut s (sem name args s)

def StrictPureSem (sem : String → List (String × RVal) → State → Out RVal) : Prop :=
  ∀ name args s, StrictOut s (sem name args s)

theorem StrictOut.pure {s : State} {o : Out RVal} (h : StrictOut s o) : PureOut s o := by
  cases o with
  | ok v s' => obtain ⟨rfl, hv⟩ := h; exact ⟨.refl, hv.plain⟩
  | err v m p t s' => exact h
  | fail f s' => exact h

theorem StrictPureSem.pure {sem} (h : StrictPureSem sem) : PureSem sem := fun name args s => (h name args s).pure

/-! ### 2. the driver's interpretation is pure -/

theorem plain_of_plainB {v : RVal} (h : plainB v = true) : Plain v := by
  cases v <;> first | exact trivial | (simp [plainB] at h)

theorem plainCell_strs (xs : List (List Char)) : PlainCell (.list (xs.map RVal.str)) := by
  intro x hx
  rcases List.mem_map.mp hx with ⟨t, _, rfl⟩
  exact trivial

/-- the allocation of the inner lists of `split2` -/
theorem allocStrss_spec (xss : List (List (List Char))) (s : State) :
    ∃ rs s', allocStrss xss s = .ok rs s' ∧ HeapExt s s' ∧ ∀ r ∈ rs, Plain r := by
  induction xss generalizing s with
  | nil => exact ⟨[], s, rfl, .refl, fun _ h => nomatch h⟩
  | cons p ps ih =>
    obtain ⟨rs, s', h1, h2, h3⟩ := ih (s.alloc (.list (p.map RVal.str))).1
    refine ⟨.ref (s.alloc (.list (p.map RVal.str))).2 :: rs, s', ?_, ?_, ?_⟩
    · show (newList (p.map RVal.str) >>= fun r => allocStrss ps >>= fun rs => pure (r :: rs)) s = _
      show EvalM.bind' _ _ s = _
      unfold EvalM.bind'
      simp only [newList, allocM]
      show (EvalM.bind' (allocStrss ps) _) _ = _
      unfold EvalM.bind'
      rw [h1]; rfl
    · exact (HeapExt.alloc .refl (plainCell_strs p)).trans h2
    · intro r hr
      rcases List.mem_cons.mp hr with rfl | hr
      · exact trivial
      · exact h3 r hr

theorem finish_pure (name : String) (r : NRes) (s : State) : PureOut s (finish name r s) := by
  cases r with
  | val v =>
    show PureOut s ((if plainB v = true then pure v else unsupported ("native " ++ name)) s)
    by_cases hv : plainB v = true
    · rw [if_pos hv]; exact ⟨.refl, plain_of_plainB hv⟩
    · rw [if_neg hv]; exact ⟨rfl, _, rfl⟩
  | strs xs => exact ⟨.alloc .refl (plainCell_strs xs), trivial⟩
  | strss xss =>
    obtain ⟨rs, s', h1, h2, h3⟩ := allocStrss_spec xss s
    have : finish name (.strss xss) s = .ok (.ref (s'.alloc (.list rs)).2) (s'.alloc (.list rs)).1 := by
      show EvalM.bind' (allocStrss xss) _ s = _
      unfold EvalM.bind'
      rw [h1]; rfl
    rw [this]
    exact ⟨.alloc h2 h3, trivial⟩
  | err msg => exact ⟨rfl, trivial, rfl, rfl⟩
  | abstain => exact ⟨rfl, _, rfl⟩

/-- **driverNativeSem_pure.**  Every call of the driver's interpretation returns a scalar or a container reference
    in a state that differs at most by freshly allocated lists of plain values, or raises the runtime error `'ERROR'`
    (a string) at the default position with an empty trace in the SAME state, or abstains in the same state. -/
theorem driverNativeSem_pure : PureSem driverNativeSem :=
  fun name args s => finish_pure name (nativeRes name args s) s

/-- the error value is always the string `'ERROR'` -/
theorem driverNativeSem_error_value {name args s v m p t s'} (h : driverNativeSem name args s = .err v m p t s') :
    v = .str ['E', 'R', 'R', 'O', 'R'] := by
  unfold driverNativeSem at h
  generalize nativeRes name args s = r at h
  cases r with
  | val v' =>
    change (if plainB v' = true then pure v' else unsupported ("native " ++ name)) s = _ at h
    split at h <;> cases h
  | strs xs => cases h
  | strss xss =>
    obtain ⟨rs, s1, h1, _, _⟩ := allocStrss_spec xss s
    have : finish name (.strss xss) s = .ok (.ref (s1.alloc (.list rs)).2) (s1.alloc (.list rs)).1 := by
      show EvalM.bind' (allocStrss xss) _ s = _
      unfold EvalM.bind'
      rw [h1]; rfl
    rw [this] at h; cases h
  | err msg => cases h; rfl
  | abstain => cases h

/-- **driverNativeSem_strict.**  A call that returns anything but a reference leaves the state untouched and returns
    a scalar: on these calls the interpretation is pure in the literal sense. -/
theorem driverNativeSem_strict {name args s v s'} (h : driverNativeSem name args s = .ok v s')
    (hv : ∀ a, v ≠ .ref a) : s' = s ∧ Scalar v := by
  unfold driverNativeSem at h
  generalize nativeRes name args s = r at h
  cases r with
  | val v' =>
    change (if plainB v' = true then pure v' else unsupported ("native " ++ name)) s = _ at h
    split at h
    · rename_i hp
      cases h
      refine ⟨rfl, ?_⟩
      cases v <;> first | exact trivial | exact (hv _ rfl).elim | (simp [plainB] at hp)
    · cases h
  | strs xs => cases h; exact (hv _ rfl).elim
  | strss xss =>
    obtain ⟨rs, s1, h1, _, _⟩ := allocStrss_spec xss s
    have : finish name (.strss xss) s = .ok (.ref (s1.alloc (.list rs)).2) (s1.alloc (.list rs)).1 := by
      show EvalM.bind' (allocStrss xss) _ s = _
      unfold EvalM.bind'
      rw [h1]; rfl
    rw [this] at h; cases h; exact (hv _ rfl).elim
  | err msg => cases h
  | abstain => cases h

/-- the interpretation restricted to scalar results (it abstains instead of returning a reference) -/
def driverNativeSemScalar (name : String) (args : List (String × RVal)) (s : State) : Out RVal :=
  match driverNativeSem name args s with
  | .ok (.ref _) _ => .fail (.unsupported ("native " ++ name)) s
  | o => o

theorem driverNativeSemScalar_strict : StrictPureSem driverNativeSemScalar := by
  intro name args s
  unfold driverNativeSemScalar
  have hp := driverNativeSem_pure name args s
  split
  · exact ⟨rfl, _, rfl⟩
  · rename_i o hne
    cases ho : driverNativeSem name args s with
    | ok v s' =>
      have hs := driverNativeSem_strict ho (fun a ha => hne a s' (by rw [ho, ha]))
      exact hs
    | err v m p t s' => rw [ho] at hp; exact hp
    | fail f s' => rw [ho] at hp; exact hp

/-- the two agree wherever the restricted one does not abstain -/
theorem driverNativeSemScalar_agrees {name args s} (h : ∀ w, driverNativeSemScalar name args s ≠ .fail (.unsupported w) s) :
    driverNativeSemScalar name args s = driverNativeSem name args s := by
  unfold driverNativeSemScalar at h ⊢
  split
  · rename_i a s' heq
    rw [heq] at h
    exact (h _ rfl).elim
  · rfl

/-! ### 3. what `HeapExt` preserves -/

theorem HeapExt.obs {s s' : State} (h : HeapExt s s') : Gen.obs s' = Gen.obs s := by
  induction h with
  | refl => rfl
  | alloc _ _ ih => exact ih

theorem HeapExt.geq {s s' : State} (h : HeapExt s s') : C05.GEq s s' := by
  induction h with
  | refl => exact C05.GEq.refl s
  | alloc _ _ ih => exact ih.trans (C05.geq_alloc _ _)

theorem HeapExt.secure {s s' : State} (h : HeapExt s s') : s'.secure = s.secure := by
  induction h with
  | refl => rfl
  | alloc _ _ ih => exact ih

theorem Plain.clean (E : List String) {v : RVal} (h : Plain v) : C09E.Clean E v := by
  cases v <;> first | exact trivial | exact h.elim

theorem PlainCell.clean (E : List String) {c : Cell} (h : PlainCell c) : C09E.Cl.cl E c := by
  cases c with
  | list xs => exact (C09E.cl_list_iff xs).mpr fun x hx => (h x hx).clean E
  | set xs => exact h.elim
  | map kvs => exact h.elim
  | obj kvs m => exact h.elim
  | closure e ps ds b n => exact h.elim

theorem HeapExt.inv {E : List String} {b : Bool} {s s' : State} (h : HeapExt s s') (hi : C09E.Inv E b s) :
    C09E.Inv E b s' := by
  induction h with
  | refl => exact hi
  | alloc _ hc ih => exact ih.alloc (hc.clean E)

/-- a plain value carries no position (it is no control value) -/
theorem Plain.valOK (P : Pos → Prop) {v : RVal} (h : Plain v) : ValOK P v := by
  cases v <;> first | exact trivial | exact h.elim

/-- a plain list cell holds no position: neither an AST nor a control value -/
theorem PlainCell.cellOK (P : Pos → Prop) {c : Cell} (h : PlainCell c) : CellOK P c := by
  cases c with
  | list xs => exact fun x hx => (h x hx).valOK P
  | set xs => exact h.elim
  | map kvs => exact h.elim
  | obj kvs m => exact h.elim
  | closure e ps ds b n => exact h.elim

theorem HeapExt.stOK {P : Pos → Prop} {s s' : State} (h : HeapExt s s') (hs : StOK P s) : StOK P s' := by
  induction h with
  | refl => exact hs
  | alloc _ hc ih => exact ih.alloc (hc.cellOK P)

/-! ### 4. transfer: every hypothesis on `nativeSem` follows from purity -/

variable {ld : Loader}

/-- any invariant of the generic family (C10 / C11: a relation that only looks at the load stack, the module cache
    and the ghost counters) is kept -/
theorem gpost_of_pure (I : Gen.Rel) (h : PureSem ld.nativeSem) (name : String) (args : List (String × RVal)) (s : State) :
    Gen.GPost I s (ld.nativeSem name args s) := by
  have hp := h name args s
  cases ho : ld.nativeSem name args s with
  | ok v s' => rw [ho] at hp; exact I.keep (I.refl s) hp.1.obs
  | err v m p t s' => rw [ho] at hp; rw [hp.1]; exact I.refl s
  | fail f s' => rw [ho] at hp; rw [hp.1]; exact fun _ => I.refl s

/-- C05 -/
theorem nativeBalanced_of_pure (h : PureSem ld.nativeSem) : C05.NativeBalanced ld := by
  intro name args s
  have hp := h name args s
  cases ho : ld.nativeSem name args s with
  | ok v s' => rw [ho] at hp; exact hp.1.geq.balanced
  | err v m p t s' => rw [ho] at hp; rw [hp.1]; exact C05.Balanced.refl s
  | fail f s' => rw [ho] at hp; rw [hp.1]; exact fun _ => C05.Balanced.refl s

/-- C10 -/
theorem nativeKeepsModstack_of_pure (h : PureSem ld.nativeSem) : C10.NativeKeepsModstack ld :=
  fun name args s => gpost_of_pure C10.IStack h name args s

/-- C11 -/
theorem nativeKeepsModules_of_pure (h : PureSem ld.nativeSem) : C11.NativeKeepsModules ld :=
  fun name args s => gpost_of_pure C11.IMod h name args s

/-- C09 (evaluator level): secure flag -/
theorem nativeKeepsSecure_of_pure (h : PureSem ld.nativeSem) : C09E.NativeKeepsSecure ld := by
  intro name args s
  have hp := h name args s
  cases ho : ld.nativeSem name args s with
  | ok v s' => rw [ho] at hp; exact hp.1.secure
  | err v m p t s' => rw [ho] at hp; show s'.secure = s.secure; rw [hp.1]
  | fail f s' => rw [ho] at hp; show s'.secure = s.secure; rw [hp.1]

/-- C09 (evaluator level): no effectful native is handed out -/
theorem nativeClean_of_pure (h : PureSem ld.nativeSem) : C09E.NativeClean ld := by
  intro name _ args _ s hs
  have hp := h name args s
  cases ho : ld.nativeSem name args s with
  | ok v s' => rw [ho] at hp; exact ⟨hp.1.inv hs, hp.2.clean _⟩
  | err v m p t s' => rw [ho] at hp; rw [hp.1]; exact ⟨hs, hp.2.1.plain.clean _⟩
  | fail f s' => rw [ho] at hp; rw [hp.1]; exact hs

/-- C20: the only position a pure interpretation introduces is the default position `{}`: a pure result (a scalar, a
    container reference, fresh lists of plain values) carries no control-value position and stores no AST, whatever
    the arguments carry -/
theorem nativeRespects_of_pure (h : PureSem ld.nativeSem) (N : Pos → Prop) (hN : N {}) : C20E.NativeRespects ld N := by
  intro P hP name bound _
  constructor
  intro s hs
  have hp := h name bound s
  cases ho : ld.nativeSem name bound s with
  | ok v s' => rw [ho] at hp; exact ⟨hp.2.valOK P, hp.1.stOK hs⟩
  | err v m p t s' =>
    rw [ho] at hp
    obtain ⟨rfl, _, rfl, rfl⟩ := hp
    exact ⟨EP.nil (hP _ hN), hs⟩
  | fail f s' => rw [ho] at hp; rw [hp.1]; exact hs

/-- C13: a pure interpretation never produces a host failure -/
theorem no_host_of_pure (h : PureSem ld.nativeSem) (name : String) (args : List (String × RVal)) (s : State) (k : String)
    (s' : State) : ld.nativeSem name args s ≠ .fail (.host k) s' := by
  intro ho
  have hp := h name args s
  rw [ho] at hp
  obtain ⟨_, w, hw⟩ := hp
  cases hw

/-- C10 (sessions): nothing is lost from the frames and the heap -/
theorem HeapExt.grow {s s' : State} (h : HeapExt s s') : C10S.Grow s s' := by
  induction h with
  | refl => exact C10S.Grow.of_eq rfl rfl
  | alloc _ _ ih => exact ih.trans (C10S.Grow.alloc _ _)

theorem nativeGrows_of_pure (h : PureSem ld.nativeSem) : C10S.NativeGrows ld := by
  intro name args s
  have hp := h name args s
  cases ho : ld.nativeSem name args s with
  | ok v s' => rw [ho] at hp; exact hp.1.grow
  | err v m p t s' => rw [ho] at hp; show C10S.Grow s s'; rw [hp.1]; exact C10S.Grow.of_eq rfl rfl
  | fail f s' => rw [ho] at hp; show C10S.Grow s s'; rw [hp.1]; exact C10S.Grow.of_eq rfl rfl

/-- C11 (bindings): frames are neither dropped nor re-parented, the heap does not shrink -/
theorem HeapExt.fext {s s' : State} (h : HeapExt s s') : C11B.FExt s s' := by
  induction h with
  | refl => exact C11B.FExt.refl s
  | alloc _ _ ih => exact ih.trans (C11B.fext_alloc _ _)

theorem nativeKeepsFrames_of_pure (h : PureSem ld.nativeSem) : C11B.NativeKeepsFrames ld := by
  intro name args s
  have hp := h name args s
  cases ho : ld.nativeSem name args s with
  | ok v s' => rw [ho] at hp; exact hp.1.fext
  | err v m p t s' => rw [ho] at hp; show C11B.FExt s s'; rw [hp.1]; exact C11B.FExt.refl s
  | fail f s' => rw [ho] at hp; show C11B.FExt s s'; rw [hp.1]; exact C11B.FExt.refl s

/-! ### 4b. hypotheses that purity alone does NOT give: position erasure (C14) and ghost-freeness (C10 sessions)

  A pure interpretation may still LOOK at a position stored in an argument (`break` / `continue` / `return` values,
  nodes) or at the ghost counters of the state and return, say, an int computed from it (the two examples at the end
  of this section).  What the driver's interpretation satisfies is stronger than `PureSem`:

  `DataSem sem` : `sem name args s = finish name (res name (flatArgs args) (contLen s)) s` for some function `res` —
                  the result is computed from the POSITION-FREE view of the arguments (`flat`: control values and
                  nodes reduced to their kind) and from the lengths of the containers on the heap, nothing else. -/

def DataSem (sem : String → List (String × RVal) → State → Out RVal) : Prop :=
  ∃ res : String → List (String × RVal) → (Nat → Option Nat) → NRes,
    ∀ name args s, sem name args s = finish name (res name (flatArgs args) (contLen s)) s

/-- **driverNativeSem_data.**  By construction. -/
theorem driverNativeSem_data : DataSem driverNativeSem := ⟨nativeResL, fun _ _ _ => rfl⟩

theorem DataSem.pure {sem} (h : DataSem sem) : PureSem sem := by
  obtain ⟨res, hres⟩ := h
  intro name args s
  rw [hres]
  exact finish_pure name _ s

open C14E in
/-- similar values have the same position-free view -/
theorem flat_congr {v v' : RVal} (h : ers v = ers v') : flat v = flat v' := by
  have h' : eraseV v = eraseV v' := h
  cases v <;> cases v' <;> simp_all [eraseV, flat]

open C14E in
theorem flatArgs_congr : ∀ {b b' : List (String × RVal)}, ers b = ers b' → flatArgs b = flatArgs b'
  | [], [], _ => rfl
  | [], _ :: _, h => by cases h
  | _ :: _, [], h => by cases h
  | (k, v) :: b, (k', v') :: b', h => by
    have h' : (ers (k, v)) :: ers b = (ers (k', v')) :: ers b' := h
    injection h' with h1 h2
    have hk : k = k' := congrArg Prod.fst h1
    have hv : ers v = ers v' := congrArg Prod.snd h1
    show (k, flat v) :: flatArgs b = (k', flat v') :: flatArgs b'
    rw [hk, flat_congr hv, flatArgs_congr h2]

open C14E in
/-- the lengths of the containers survive erasure -/
theorem contLen_ers (s : State) : contLen (ers s) = contLen s := by
  funext a
  unfold contLen
  rw [← cell_ers]
  cases s.cell a with
  | none => rfl
  | some c => cases c <;> simp [ers, eraseC]

open C14E in
theorem contLen_congr {s s' : State} (h : ers s = ers s') : contLen s = contLen s' := by
  rw [← contLen_ers s, h, contLen_ers]

open C14E in
theorem allocStrss_resp (xss : List (List (List Char))) : Resp (allocStrss xss) (allocStrss xss) := by
  induction xss with
  | nil => exact Resp.pure rfl
  | cons p ps ih =>
    show Resp (newList (p.map RVal.str) >>= fun r => allocStrss ps >>= fun rs => pure (r :: rs))
      (newList (p.map RVal.str) >>= fun r => allocStrss ps >>= fun rs => pure (r :: rs))
    refine Resp.bind (newList_resp rfl) (fun r r' hr => Resp.bind ih (fun rs rs' hrs => Resp.pure ?_))
    show ers r :: ers rs = ers r' :: ers rs'
    rw [hr, hrs]

open C14E in
/-- the step from result to outcome respects similarity of states -/
theorem finish_resp (name : String) (r : NRes) : Resp (finish name r) (finish name r) := by
  cases r with
  | val v =>
    show Resp (if plainB v = true then pure v else unsupported ("native " ++ name)) (if plainB v = true then pure v else unsupported ("native " ++ name))
    split
    · exact Resp.pure rfl
    · exact Resp.unsupported
  | strs xs => exact newList_resp rfl
  | strss xss =>
    show Resp (allocStrss xss >>= fun inner => newList inner) (allocStrss xss >>= fun inner => newList inner)
    exact Resp.bind (allocStrss_resp xss) (fun a a' h => newList_resp h)
  | err msg => exact Resp.throwE rfl
  | abstain => exact Resp.unsupported

/-- C14 (evaluator): similar arguments and similar states give similar outcomes -/
theorem nativeSim_of_data (h : DataSem ld.nativeSem) : C14E.NativeSim ld := by
  obtain ⟨res, hres⟩ := h
  intro name b b' hb
  constructor
  intro s s' hs
  rw [hres name b s, hres name b' s', flatArgs_congr hb, contLen_congr hs]
  exact (finish_resp name _).run s s' hs

theorem allocStrss_r2 (xss : List (List (List Char))) : C10S.GI (allocStrss xss) := by
  induction xss with
  | nil => exact C10S.R2.pure _
  | cons p ps ih =>
    show C10S.R2 (newList (p.map RVal.str) >>= fun r => allocStrss ps >>= fun rs => pure (r :: rs))
      (newList (p.map RVal.str) >>= fun r => allocStrss ps >>= fun rs => pure (r :: rs))
    exact C10S.R2.bind (C10S.R2.newList _) (fun r => C10S.R2.bind ih (fun rs => C10S.R2.pure _))

/-- the step from result to outcome neither reads nor writes the ghost counters -/
theorem finish_r2 (name : String) (r : NRes) : C10S.GI (finish name r) := by
  cases r with
  | val v =>
    show C10S.R2 (if plainB v = true then pure v else unsupported ("native " ++ name)) (if plainB v = true then pure v else unsupported ("native " ++ name))
    split
    · exact C10S.R2.pure _
    · exact C10S.R2.unsupported _
  | strs xs => exact C10S.R2.newList _
  | strss xss =>
    show C10S.R2 (allocStrss xss >>= fun inner => newList inner) (allocStrss xss >>= fun inner => newList inner)
    exact C10S.R2.bind (allocStrss_r2 xss) (fun a => C10S.R2.newList a)
  | err msg => exact C10S.R2.throwE _ _
  | abstain => exact C10S.R2.unsupported _

/-- C10 (sessions): the ghost counters are neither read nor written -/
theorem nativeGhostFree_of_data (h : DataSem ld.nativeSem) : C10S.NativeGhostFree ld := by
  obtain ⟨res, hres⟩ := h
  intro name args
  refine ⟨fun s s' hs => ?_⟩
  rw [hres name args s, hres name args s']
  have hc : contLen s' = contLen s := by rw [C10S.eq_wg_of_er hs]; rfl
  rw [hc]
  exact (finish_r2 name _).run s s' hs

/-- purity is not enough for ghost-freeness: a strictly pure interpretation that reads a ghost counter -/
example : StrictPureSem (fun _ _ s => .ok (.int s.ghost.enter.length) s) ∧
    ¬ C10S.NativeGhostFree { nativeSem := fun _ _ s => .ok (.int s.ghost.enter.length) s } := by
  refine ⟨fun _ _ _ => ⟨rfl, trivial⟩, fun h => ?_⟩
  have := (h "x" []).run {} { ghost := { enter := [({}, 1)] } } rfl
  simp [C10S.erO] at this

/-- purity is not enough for position erasure: a strictly pure interpretation that reads the position of a `break` -/
def posReader : String → List (String × RVal) → State → Out RVal :=
  fun _ args s => match args with
    | [(_, .brk p)] => .ok (.int p.line) s
    | _ => .ok .null s

example : StrictPureSem posReader ∧ ¬ C14E.NativeSim { nativeSem := posReader } := by
  refine ⟨fun _ args s => ?_, fun h => ?_⟩
  · unfold posReader; split <;> exact ⟨rfl, trivial⟩
  · have := (h "x" [("a", .brk { line := 1 })] [("a", .brk { line := 2 })] rfl).run {} {} rfl
    simp [posReader, C14E.ers, C14E.eraseV] at this

/-! ### 5. the driver's loaders -/

theorem sessionLoader_pure (ms eff known realBase) : PureSem (sessionLoader ms eff known realBase).nativeSem :=
  driverNativeSem_pure

theorem libLoader_pure (ms eff known) : PureSem (libLoader ms eff known).nativeSem := driverNativeSem_pure

theorem sessionLoader_data (ms eff known realBase) : DataSem (sessionLoader ms eff known realBase).nativeSem :=
  driverNativeSem_data

theorem libLoader_data (ms eff known) : DataSem (libLoader ms eff known).nativeSem := driverNativeSem_data

/-- every hypothesis at once, for a loader that uses the driver's interpretation -/
structure AllNativeHyps (ld : Loader) : Prop where
  balanced : C05.NativeBalanced ld
  modstack : C10.NativeKeepsModstack ld
  modules : C11.NativeKeepsModules ld
  clean : C09E.NativeClean ld
  secure : C09E.NativeKeepsSecure ld
  respects : ∀ N : Pos → Prop, N {} → C20E.NativeRespects ld N
  noHost : ∀ name args s k s', ld.nativeSem name args s ≠ .fail (.host k) s'
  grows : C10S.NativeGrows ld
  keepsFrames : C11B.NativeKeepsFrames ld
  ghostFree : C10S.NativeGhostFree ld
  sim : C14E.NativeSim ld

/-- the hypotheses that follow from purity alone -/
theorem pureNativeHyps (h : PureSem ld.nativeSem) :
    C05.NativeBalanced ld ∧ C10.NativeKeepsModstack ld ∧ C11.NativeKeepsModules ld ∧ C09E.NativeClean ld ∧
    C09E.NativeKeepsSecure ld ∧ (∀ N : Pos → Prop, N {} → C20E.NativeRespects ld N) ∧
    (∀ name args s k s', ld.nativeSem name args s ≠ .fail (.host k) s') ∧ C10S.NativeGrows ld ∧ C11B.NativeKeepsFrames ld :=
  ⟨nativeBalanced_of_pure h, nativeKeepsModstack_of_pure h, nativeKeepsModules_of_pure h, nativeClean_of_pure h,
   nativeKeepsSecure_of_pure h, nativeRespects_of_pure h, no_host_of_pure h, nativeGrows_of_pure h,
   nativeKeepsFrames_of_pure h⟩

/-- all eleven, for an interpretation of the form `DataSem` -/
theorem allNativeHyps_of_data (h : DataSem ld.nativeSem) : AllNativeHyps ld :=
  ⟨nativeBalanced_of_pure h.pure, nativeKeepsModstack_of_pure h.pure, nativeKeepsModules_of_pure h.pure,
   nativeClean_of_pure h.pure, nativeKeepsSecure_of_pure h.pure, nativeRespects_of_pure h.pure, no_host_of_pure h.pure,
   nativeGrows_of_pure h.pure, nativeKeepsFrames_of_pure h.pure, nativeGhostFree_of_data h, nativeSim_of_data h⟩

/-- **sessionLoader_hyps.**  The loader of the driver's `session` requests meets every hypothesis on `nativeSem` -/
theorem sessionLoader_hyps (ms eff known realBase) : AllNativeHyps (sessionLoader ms eff known realBase) :=
  allNativeHyps_of_data (sessionLoader_data ms eff known realBase)

/-- **libLoader_hyps.**  The loader of the driver's `libsetup` / `libsession` requests (the repository's own library
    source on the real base environment) meets every hypothesis on `nativeSem` -/
theorem libLoader_hyps (ms eff known) : AllNativeHyps (libLoader ms eff known) :=
  allNativeHyps_of_data (libLoader_data ms eff known)

/-- **libLoader_layout_irrelevant.**  C14 end to end for the library sessions the driver runs: with the driver's
    interpretation of the built-ins, inserting white space / line breaks / comments at a token boundary of a program
    text changes nothing but positions -/
theorem libLoader_layout_irrelevant (ms eff known) (fuel : Nat) (senv : EnvId) (file : String) (u w v : List Char)
    {s s' : State} (hu : C14.AtBoundary file u) (hw : Lexer.Filler w) (hs : C14E.StateSim s s') :
    C14X.OutSimX (C14X.interpretSource (libLoader ms eff known) fuel senv (u ++ w ++ v) file s)
      (C14X.interpretSource (libLoader ms eff known) fuel senv (u ++ v) file s') :=
  C14X.interpret_layout_irrelevant _ (libLoader_hyps ms eff known).sim fuel senv file u w v hu hw hs

theorem sessionLoader_layout_irrelevant (ms eff known realBase) (fuel : Nat) (senv : EnvId) (file : String)
    (u w v : List Char) {s s' : State} (hu : C14.AtBoundary file u) (hw : Lexer.Filler w) (hs : C14E.StateSim s s') :
    C14X.OutSimX (C14X.interpretSource (sessionLoader ms eff known realBase) fuel senv (u ++ w ++ v) file s)
      (C14X.interpretSource (sessionLoader ms eff known realBase) fuel senv (u ++ v) file s') :=
  C14X.interpret_layout_irrelevant _ (sessionLoader_hyps ms eff known realBase).sim fuel senv file u w v hu hw hs

/-! ### 6. non-vacuity and concrete behaviour -/

/-- the default interpretation (abstain) is strictly pure -/
example : StrictPureSem ({} : Loader).nativeSem := fun _ _ _ => ⟨rfl, _, rfl⟩

/-- an interpretation that is NOT pure: it returns a native -/
example : ¬ PureSem (fun _ _ s => .ok (.native "file_output" 0) s) := fun h => (h "x" [] {}).2

/-- an interpretation that is NOT pure: it switches secure mode off -/
example : ¬ PureSem (fun _ _ s => .ok .null { s with secure := false }) := by
  intro h
  have := (h "x" [] {}).1.secure
  cases this

def args2 (a b : RVal) : List (String × RVal) := [("a", a), ("b", b)]

-- values
#guard (match driverNativeSem "bit_and" (args2 (.int 5) (.int 6)) {} with | .ok (.int 4) _ => true | _ => false)
#guard (match driverNativeSem "bit_xor" (args2 (.int (-1)) (.int 6)) {} with | .ok (.int (-7)) _ => true | _ => false)
#guard (match driverNativeSem "bit_not" [("a", .int 1)] {} with | .ok (.int 4294967294) _ => true | _ => false)
#guard (match driverNativeSem "bit_rotate_right" [("a", .int 1), ("n", .int 2)] {} with | .ok (.int 1073741824) _ => true | _ => false)
#guard (match driverNativeSem "pow" [("x", .int 2), ("y", .int 10)] {} with | .ok (.int 1024) _ => true | _ => false)
#guard (match driverNativeSem "pow" [("x", .int 2), ("y", .int (-1))] {} with | .ok (.int 0) _ => true | _ => false)
#guard (match driverNativeSem "int" [("obj", .str [' ', '-', '4', '2', '\n'])] {} with | .ok (.int (-42)) _ => true | _ => false)
#guard (match driverNativeSem "int" [("obj", .dec (-7) 1)] {} with | .ok (.int (-3)) _ => true | _ => false)
#guard (match driverNativeSem "decimal" [("obj", .int 3)] {} with | .ok (.dec 3 0) _ => true | _ => false)
#guard (match driverNativeSem "boolean" [("obj", .str ['t', 'R', 'u', 'e'])] {} with | .ok (.bool true) _ => true | _ => false)
#guard (match driverNativeSem "trim" [("str", .str [' ', 'a', ' ', 'b', '\t'])] {} with | .ok (.str ['a', ' ', 'b']) _ => true | _ => false)
#guard (match driverNativeSem "upper" [("str", .str ['a', 'B', '1'])] {} with | .ok (.str ['A', 'B', '1']) _ => true | _ => false)
#guard (match driverNativeSem "escape_pattern" [("s", .str ['a', '.', 'b'])] {} with | .ok (.str ['a', '\\', '.', 'b']) _ => true | _ => false)
#guard (match driverNativeSem "round" [("x", .dec 5 1)] {} with | .ok (.dec 2 0) _ => true | _ => false)        -- round(2.5) = 2.0
#guard (match driverNativeSem "sqrt" [("x", .dec 9 2)] {} with | .ok (.dec 3 1) _ => true | _ => false)         -- sqrt(2.25) = 1.5
#guard (match driverNativeSem "matches" [("str", .str ['a', 'a', 'b']), ("pattern", .pat ['a', '+', 'b'])] {} with
        | .ok (.bool true) _ => true | _ => false)
-- runtime errors
#guard (match driverNativeSem "bit_shift_left" [("a", .int 1), ("n", .int (-1))] {} with | .err (.str ['E', 'R', 'R', 'O', 'R']) _ _ [] _ => true | _ => false)
#guard (match driverNativeSem "bit_and" (args2 (.int 5) .null) {} with | .err (.str ['E', 'R', 'R', 'O', 'R']) _ _ [] _ => true | _ => false)
#guard (match driverNativeSem "int" [("obj", .str ['x'])] {} with | .err _ _ _ _ _ => true | _ => false)
-- a fresh list: `split('a,b', ',')` on the empty heap returns cell 0 = ['a', 'b']
#guard (match driverNativeSem "split" [("str", .str ['a', ',', 'b']), ("delim", .str [','])] {} with
        | .ok (.ref 0) s' => (match s'.cell 0 with | some (.list [.str ['a'], .str ['b']]) => true | _ => false)
        | _ => false)
-- `lines`: split at `\r?\n`
#guard (match driverNativeSem "split" [("str", .str ['a', '\r', '\n', 'b', '\n', 'c']), ("delim", .str ['\\', 'r', '?', '\\', 'n'])] {} with
        | .ok (.ref 0) s' => (match s'.cell 0 with | some (.list [.str ['a'], .str ['b'], .str ['c']]) => true | _ => false)
        | _ => false)
-- abstentions: floats, the evaluator, other names
#guard (match driverNativeSem "pow" [("x", .dec 3 1), ("y", .int 2)] {} with | .fail (.unsupported _) _ => true | _ => false)
#guard (match driverNativeSem "s" [("str", .str ['{', 'x', '}'])] {} with | .fail (.unsupported _) _ => true | _ => false)
#guard (match driverNativeSem "file_input" [("filename", .str ['x'])] {} with | .fail (.unsupported _) _ => true | _ => false)
-- named-argument binding follows the source
#guard driverNativeArgs "bit_rotate_left" == some ["a", "n"]
#guard driverNativeArgs "split2" == some ["str", "sep1", "sep2"]

/-- the flagship theorems, instantiated with a loader of the driver: C05 `eval_balanced`-style statements need
    `NativeBalanced`, … — all available from `sessionLoader_hyps` / `libLoader_hyps`; e.g. C09 `eval_preserves_noEff` -/
example (ms eff known realBase) (fuel : Nat) (env : EnvId) (n : Node) (s : State)
    (hs : C09E.NoEff (sessionLoader ms eff known realBase) s) :
    C09E.NoEffOut (sessionLoader ms eff known realBase) (eval (sessionLoader ms eff known realBase) fuel env n s) :=
  C09E.eval_preserves_noEff (sessionLoader_hyps ms eff known realBase).clean fuel env n s hs

/-- C20 `error_pos_from_ast` for the library sessions of the driver: positions come from the ASTs or are `{}` -/
example (ms eff known) {fuel env n s v m p t s'}
    (h : eval (libLoader ms eff known) fuel env n s = .err v m p t s') :
    (C20E.Origin (libLoader ms eff known) n s (· = {}) p ∨ (p = {} ∧ DefaultMsg m)) ∧
      (∀ e ∈ t, C20E.Origin (libLoader ms eff known) n s (· = {}) e.2) ∧
      ∀ q ∈ s'.positions, C20E.Origin (libLoader ms eff known) n s (· = {}) q :=
  C20E.error_pos_from_ast ((libLoader_hyps ms eff known).respects (· = {}) rfl) h

end Ckl.DN
