/-
  E2E — `Ckl.E2E.interpretSource` / `runSessionSrc` ARE `Ckl.C14X.interpretSource` / `runSessionSrc` of
  `Proofs/C14EndToEnd.lean` (the E2E files restate the definition so that they need not import the C14 proofs).
-/
import CklVerif.Lemmas.E2EBase
import CklVerif.Proofs.C14EndToEnd
namespace Ckl.E2E
open Ckl

theorem interpretSource_eq_C14X : @interpretSource = @C14X.interpretSource := rfl

theorem nextState_eq_C14E : nextState = C14E.nextState := by
  funext o
  cases o with
  | ok a s => rfl
  | err v m p t s => rfl
  | fail f s => cases f <;> rfl

theorem runSessionSrc_eq_C14X (ld : Loader) (fuel : Nat) (senv : EnvId) (file : String) :
    ∀ (texts : List (List Char)) (s : State),
      runSessionSrc ld fuel senv file texts s = C14X.runSessionSrc ld fuel senv file texts s := by
  intro texts
  induction texts with
  | nil => intro s; rfl
  | cons src rest ih =>
    intro s
    simp only [runSessionSrc, C14X.runSessionSrc, nextState_eq_C14E, interpretSource_eq_C14X]
    cases C14E.nextState (C14X.interpretSource ld fuel senv src file s) with
    | none => rfl
    | some s1 => exact ih s1

end Ckl.E2E
