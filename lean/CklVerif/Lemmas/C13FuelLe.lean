import CklVerif.Lemmas.C13FuelEval

/-!
  C13Fuel: from one step to every larger fuel.  `FuelStable ld f f'` spells the flagship out for each
  of the 30 functions of the mutual block, without auxiliary vocabulary other than `Out.isOof`:
  a call that does not run out of fuel at `f` has exactly the same outcome at `f'`.
  GENERATED (one field per function).
-/
namespace Ckl
variable (ld : Loader)

structure FuelStable (f f' : Nat) : Prop where
  eval : ∀ env n (s : State), ¬ (eval ld f env n s).isOof → eval ld f' env n s = eval ld f env n s
  evalAnd : ∀ env es pos (s : State), ¬ (evalAnd ld f env es pos s).isOof → evalAnd ld f' env es pos s = evalAnd ld f env es pos s
  evalOr : ∀ env es pos (s : State), ¬ (evalOr ld f env es pos s).isOof → evalOr ld f' env es pos s = evalOr ld f env es pos s
  evalIf : ∀ env cs xs els pos (s : State), ¬ (evalIf ld f env cs xs els pos s).isOof → evalIf ld f' env cs xs els pos s = evalIf ld f env cs xs els pos s
  evalSeq : ∀ env ns (s : State), ¬ (evalSeq ld f env ns s).isOof → evalSeq ld f' env ns s = evalSeq ld f env ns s
  evalItems : ∀ env ns pos (s : State), ¬ (evalItems ld f env ns pos s).isOof → evalItems ld f' env ns pos s = evalItems ld f env ns pos s
  evalPairs : ∀ env ks vs (s : State), ¬ (evalPairs ld f env ks vs s).isOof → evalPairs ld f' env ks vs s = evalPairs ld f env ks vs s
  evalBody : ∀ env ns last (s : State), ¬ (evalBody ld f env ns last s).isOof → evalBody ld f' env ns last s = evalBody ld f env ns last s
  evalFinally : ∀ env ns (s : State), ¬ (evalFinally ld f env ns s).isOof → evalFinally ld f' env ns s = evalFinally ld f env ns s
  tryHandlers : ∀ env cs hs v msg p t (s : State), ¬ (tryHandlers ld f env cs hs v msg p t s).isOof → tryHandlers ld f' env cs hs v msg p t s = tryHandlers ld f env cs hs v msg p t s
  invoke : ∀ fn pre names args env pos (s : State), ¬ (invoke ld f fn pre names args env pos s).isOof → invoke ld f' fn pre names args env pos s = invoke ld f fn pre names args env pos s
  evalArgs : ∀ env names args pos (s : State), ¬ (evalArgs ld f env names args pos s).isOof → evalArgs ld f' env names args pos s = evalArgs ld f env names args pos s
  callFn : ∀ fn bound env pos (s : State), ¬ (callFn ld f fn bound env pos s).isOof → callFn ld f' fn bound env pos s = callFn ld f fn bound env pos s
  bindParams : ∀ lenv ps ds bound pos (s : State), ¬ (bindParams ld f lenv ps ds bound pos s).isOof → bindParams ld f' lenv ps ds bound pos s = bindParams ld f lenv ps ds bound pos s
  evalFor : ∀ env ids e body what pos (s : State), ¬ (evalFor ld f env ids e body what pos s).isOof → evalFor ld f' env ids e body what pos s = evalFor ld f env ids e body what pos s
  forItems : ∀ env ids xs body result pos (s : State), ¬ (forItems ld f env ids xs body result pos s).isOof → forItems ld f' env ids xs body result pos s = forItems ld f env ids xs body result pos s
  forListLive : ∀ env ids a i body result pos (s : State), ¬ (forListLive ld f env ids a i body result pos s).isOof → forListLive ld f' env ids a i body result pos s = forListLive ld f env ids a i body result pos s
  forString : ∀ env x cs body result (s : State), ¬ (forString ld f env x cs body result s).isOof → forString ld f' env x cs body result s = forString ld f env x cs body result s
  whileLoop : ∀ env c body pos (s : State), ¬ (whileLoop ld f env c body pos s).isOof → whileLoop ld f' env c body pos s = whileLoop ld f env c body pos s
  comprStep : ∀ lenv kind ve ke cond pos (s : State), ¬ (comprStep ld f lenv kind ve ke cond pos s).isOof → comprStep ld f' lenv kind ve ke cond pos s = comprStep ld f lenv kind ve ke cond pos s
  comprLoop : ∀ lenv kind ve ke cond pos l acc (s : State), ¬ (comprLoop ld f lenv kind ve ke cond pos l acc s).isOof → comprLoop ld f' lenv kind ve ke cond pos l acc s = comprLoop ld f lenv kind ve ke cond pos l acc s
  comprProduct : ∀ lenv kind ve ke cond pos x1 vs x2 ws acc (s : State), ¬ (comprProduct ld f lenv kind ve ke cond pos x1 vs x2 ws acc s).isOof → comprProduct ld f' lenv kind ve ke cond pos x1 vs x2 ws acc s = comprProduct ld f lenv kind ve ke cond pos x1 vs x2 ws acc s
  comprParallel : ∀ lenv kind ve ke cond pos x1 vs x2 ws acc (s : State), ¬ (comprParallel ld f lenv kind ve ke cond pos x1 vs x2 ws acc s).isOof → comprParallel ld f' lenv kind ve ke cond pos x1 vs x2 ws acc s = comprParallel ld f lenv kind ve ke cond pos x1 vs x2 ws acc s
  nativeSorted : ∀ bound env pos (s : State), ¬ (nativeSorted ld f bound env pos s).isOof → nativeSorted ld f' bound env pos s = nativeSorted ld f bound env pos s
  sortedOuter : ∀ cmp key senv pos arr i (s : State), ¬ (sortedOuter ld f cmp key senv pos arr i s).isOof → sortedOuter ld f' cmp key senv pos arr i s = sortedOuter ld f cmp key senv pos arr i s
  sortedInner : ∀ cmp key senv pos arr v j (s : State), ¬ (sortedInner ld f cmp key senv pos arr v j s).isOof → sortedInner ld f' cmp key senv pos arr v j s = sortedInner ld f cmp key senv pos arr v j s
  call1 : ∀ g x env pos (s : State), ¬ (call1 ld f g x env pos s).isOof → call1 ld f' g x env pos s = call1 ld f g x env pos s
  call2 : ∀ g x y env pos (s : State), ¬ (call2 ld f g x y env pos s).isOof → call2 ld f' g x y env pos s = call2 ld f g x y env pos s
  evalRequire : ∀ env spec name unq syms pos (s : State), ¬ (evalRequire ld f env spec name unq syms pos s).isOof → evalRequire ld f' env spec name unq syms pos s = evalRequire ld f env spec name unq syms pos s
  loadModule : ∀ env ident modulefile pos (s : State), ¬ (loadModule ld f env ident modulefile pos s).isOof → loadModule ld f' env ident modulefile pos s = loadModule ld f env ident modulefile pos s

variable {ld}

theorem stable_step {α} {a b c : EvalM α} (hab : ∀ s, ¬ (a s).isOof → b s = a s) (hbc : FLe b c) :
    ∀ s, ¬ (a s).isOof → c s = a s := by
  intro s h
  have h1 := hab s h
  rcases hbc.le s with h2 | h2
  · rw [h1] at h2; exact absurd h2 h
  · rw [← h2, h1]

theorem FuelStable.refl (f : Nat) : FuelStable ld f f := by
  constructor <;> intros <;> rfl

theorem FuelStable.step {f f' : Nat} (H : FuelStable ld f f') : FuelStable ld f (f' + 1) where
  eval := fun env n => stable_step (H.eval env n) ((fmAll ld f').eval env n)
  evalAnd := fun env es pos => stable_step (H.evalAnd env es pos) ((fmAll ld f').evalAnd env es pos)
  evalOr := fun env es pos => stable_step (H.evalOr env es pos) ((fmAll ld f').evalOr env es pos)
  evalIf := fun env cs xs els pos => stable_step (H.evalIf env cs xs els pos) ((fmAll ld f').evalIf env cs xs els pos)
  evalSeq := fun env ns => stable_step (H.evalSeq env ns) ((fmAll ld f').evalSeq env ns)
  evalItems := fun env ns pos => stable_step (H.evalItems env ns pos) ((fmAll ld f').evalItems env ns pos)
  evalPairs := fun env ks vs => stable_step (H.evalPairs env ks vs) ((fmAll ld f').evalPairs env ks vs)
  evalBody := fun env ns last => stable_step (H.evalBody env ns last) ((fmAll ld f').evalBody env ns last)
  evalFinally := fun env ns => stable_step (H.evalFinally env ns) ((fmAll ld f').evalFinally env ns)
  tryHandlers := fun env cs hs v msg p t => stable_step (H.tryHandlers env cs hs v msg p t) ((fmAll ld f').tryHandlers env cs hs v msg p t)
  invoke := fun fn pre names args env pos => stable_step (H.invoke fn pre names args env pos) ((fmAll ld f').invoke fn pre names args env pos)
  evalArgs := fun env names args pos => stable_step (H.evalArgs env names args pos) ((fmAll ld f').evalArgs env names args pos)
  callFn := fun fn bound env pos => stable_step (H.callFn fn bound env pos) ((fmAll ld f').callFn fn bound env pos)
  bindParams := fun lenv ps ds bound pos => stable_step (H.bindParams lenv ps ds bound pos) ((fmAll ld f').bindParams lenv ps ds bound pos)
  evalFor := fun env ids e body what pos => stable_step (H.evalFor env ids e body what pos) ((fmAll ld f').evalFor env ids e body what pos)
  forItems := fun env ids xs body result pos => stable_step (H.forItems env ids xs body result pos) ((fmAll ld f').forItems env ids xs body result pos)
  forListLive := fun env ids a i body result pos => stable_step (H.forListLive env ids a i body result pos) ((fmAll ld f').forListLive env ids a i body result pos)
  forString := fun env x cs body result => stable_step (H.forString env x cs body result) ((fmAll ld f').forString env x cs body result)
  whileLoop := fun env c body pos => stable_step (H.whileLoop env c body pos) ((fmAll ld f').whileLoop env c body pos)
  comprStep := fun lenv kind ve ke cond pos => stable_step (H.comprStep lenv kind ve ke cond pos) ((fmAll ld f').comprStep lenv kind ve ke cond pos)
  comprLoop := fun lenv kind ve ke cond pos l acc => stable_step (H.comprLoop lenv kind ve ke cond pos l acc) ((fmAll ld f').comprLoop lenv kind ve ke cond pos l acc)
  comprProduct := fun lenv kind ve ke cond pos x1 vs x2 ws acc => stable_step (H.comprProduct lenv kind ve ke cond pos x1 vs x2 ws acc) ((fmAll ld f').comprProduct lenv kind ve ke cond pos x1 vs x2 ws acc)
  comprParallel := fun lenv kind ve ke cond pos x1 vs x2 ws acc => stable_step (H.comprParallel lenv kind ve ke cond pos x1 vs x2 ws acc) ((fmAll ld f').comprParallel lenv kind ve ke cond pos x1 vs x2 ws acc)
  nativeSorted := fun bound env pos => stable_step (H.nativeSorted bound env pos) ((fmAll ld f').nativeSorted bound env pos)
  sortedOuter := fun cmp key senv pos arr i => stable_step (H.sortedOuter cmp key senv pos arr i) ((fmAll ld f').sortedOuter cmp key senv pos arr i)
  sortedInner := fun cmp key senv pos arr v j => stable_step (H.sortedInner cmp key senv pos arr v j) ((fmAll ld f').sortedInner cmp key senv pos arr v j)
  call1 := fun g x env pos => stable_step (H.call1 g x env pos) ((fmAll ld f').call1 g x env pos)
  call2 := fun g x y env pos => stable_step (H.call2 g x y env pos) ((fmAll ld f').call2 g x y env pos)
  evalRequire := fun env spec name unq syms pos => stable_step (H.evalRequire env spec name unq syms pos) ((fmAll ld f').evalRequire env spec name unq syms pos)
  loadModule := fun env ident modulefile pos => stable_step (H.loadModule env ident modulefile pos) ((fmAll ld f').loadModule env ident modulefile pos)

theorem fuelStable_add (ld : Loader) (f : Nat) : ∀ k, FuelStable ld f (f + k)
  | 0 => FuelStable.refl f
  | k + 1 => (fuelStable_add ld f k).step

theorem fuelStable_of_le (ld : Loader) {f f' : Nat} (h : f ≤ f') : FuelStable ld f f' := by
  obtain ⟨k, rfl⟩ := Nat.exists_eq_add_of_le h
  exact fuelStable_add ld f k

end Ckl

namespace Ckl
variable (ld : Loader)

/-- "out of fuel" is downward closed, for each of the 30 functions.  GENERATED. -/
structure OofDown (f f' : Nat) : Prop where
  eval : ∀ env n (s : State), (eval ld f' env n s).isOof → (eval ld f env n s).isOof
  evalAnd : ∀ env es pos (s : State), (evalAnd ld f' env es pos s).isOof → (evalAnd ld f env es pos s).isOof
  evalOr : ∀ env es pos (s : State), (evalOr ld f' env es pos s).isOof → (evalOr ld f env es pos s).isOof
  evalIf : ∀ env cs xs els pos (s : State), (evalIf ld f' env cs xs els pos s).isOof → (evalIf ld f env cs xs els pos s).isOof
  evalSeq : ∀ env ns (s : State), (evalSeq ld f' env ns s).isOof → (evalSeq ld f env ns s).isOof
  evalItems : ∀ env ns pos (s : State), (evalItems ld f' env ns pos s).isOof → (evalItems ld f env ns pos s).isOof
  evalPairs : ∀ env ks vs (s : State), (evalPairs ld f' env ks vs s).isOof → (evalPairs ld f env ks vs s).isOof
  evalBody : ∀ env ns last (s : State), (evalBody ld f' env ns last s).isOof → (evalBody ld f env ns last s).isOof
  evalFinally : ∀ env ns (s : State), (evalFinally ld f' env ns s).isOof → (evalFinally ld f env ns s).isOof
  tryHandlers : ∀ env cs hs v msg p t (s : State), (tryHandlers ld f' env cs hs v msg p t s).isOof → (tryHandlers ld f env cs hs v msg p t s).isOof
  invoke : ∀ fn pre names args env pos (s : State), (invoke ld f' fn pre names args env pos s).isOof → (invoke ld f fn pre names args env pos s).isOof
  evalArgs : ∀ env names args pos (s : State), (evalArgs ld f' env names args pos s).isOof → (evalArgs ld f env names args pos s).isOof
  callFn : ∀ fn bound env pos (s : State), (callFn ld f' fn bound env pos s).isOof → (callFn ld f fn bound env pos s).isOof
  bindParams : ∀ lenv ps ds bound pos (s : State), (bindParams ld f' lenv ps ds bound pos s).isOof → (bindParams ld f lenv ps ds bound pos s).isOof
  evalFor : ∀ env ids e body what pos (s : State), (evalFor ld f' env ids e body what pos s).isOof → (evalFor ld f env ids e body what pos s).isOof
  forItems : ∀ env ids xs body result pos (s : State), (forItems ld f' env ids xs body result pos s).isOof → (forItems ld f env ids xs body result pos s).isOof
  forListLive : ∀ env ids a i body result pos (s : State), (forListLive ld f' env ids a i body result pos s).isOof → (forListLive ld f env ids a i body result pos s).isOof
  forString : ∀ env x cs body result (s : State), (forString ld f' env x cs body result s).isOof → (forString ld f env x cs body result s).isOof
  whileLoop : ∀ env c body pos (s : State), (whileLoop ld f' env c body pos s).isOof → (whileLoop ld f env c body pos s).isOof
  comprStep : ∀ lenv kind ve ke cond pos (s : State), (comprStep ld f' lenv kind ve ke cond pos s).isOof → (comprStep ld f lenv kind ve ke cond pos s).isOof
  comprLoop : ∀ lenv kind ve ke cond pos l acc (s : State), (comprLoop ld f' lenv kind ve ke cond pos l acc s).isOof → (comprLoop ld f lenv kind ve ke cond pos l acc s).isOof
  comprProduct : ∀ lenv kind ve ke cond pos x1 vs x2 ws acc (s : State), (comprProduct ld f' lenv kind ve ke cond pos x1 vs x2 ws acc s).isOof → (comprProduct ld f lenv kind ve ke cond pos x1 vs x2 ws acc s).isOof
  comprParallel : ∀ lenv kind ve ke cond pos x1 vs x2 ws acc (s : State), (comprParallel ld f' lenv kind ve ke cond pos x1 vs x2 ws acc s).isOof → (comprParallel ld f lenv kind ve ke cond pos x1 vs x2 ws acc s).isOof
  nativeSorted : ∀ bound env pos (s : State), (nativeSorted ld f' bound env pos s).isOof → (nativeSorted ld f bound env pos s).isOof
  sortedOuter : ∀ cmp key senv pos arr i (s : State), (sortedOuter ld f' cmp key senv pos arr i s).isOof → (sortedOuter ld f cmp key senv pos arr i s).isOof
  sortedInner : ∀ cmp key senv pos arr v j (s : State), (sortedInner ld f' cmp key senv pos arr v j s).isOof → (sortedInner ld f cmp key senv pos arr v j s).isOof
  call1 : ∀ g x env pos (s : State), (call1 ld f' g x env pos s).isOof → (call1 ld f g x env pos s).isOof
  call2 : ∀ g x y env pos (s : State), (call2 ld f' g x y env pos s).isOof → (call2 ld f g x y env pos s).isOof
  evalRequire : ∀ env spec name unq syms pos (s : State), (evalRequire ld f' env spec name unq syms pos s).isOof → (evalRequire ld f env spec name unq syms pos s).isOof
  loadModule : ∀ env ident modulefile pos (s : State), (loadModule ld f' env ident modulefile pos s).isOof → (loadModule ld f env ident modulefile pos s).isOof

variable {ld}

theorem oofDown_aux {α} {a b : Out α} (h : ¬ a.isOof → b = a) (hb : b.isOof) : a.isOof :=
  Decidable.by_contra (fun ha => ha (h ha ▸ hb))

theorem FuelStable.oofDown {f f' : Nat} (H : FuelStable ld f f') : OofDown ld f f' where
  eval := fun env n s => oofDown_aux (H.eval env n s)
  evalAnd := fun env es pos s => oofDown_aux (H.evalAnd env es pos s)
  evalOr := fun env es pos s => oofDown_aux (H.evalOr env es pos s)
  evalIf := fun env cs xs els pos s => oofDown_aux (H.evalIf env cs xs els pos s)
  evalSeq := fun env ns s => oofDown_aux (H.evalSeq env ns s)
  evalItems := fun env ns pos s => oofDown_aux (H.evalItems env ns pos s)
  evalPairs := fun env ks vs s => oofDown_aux (H.evalPairs env ks vs s)
  evalBody := fun env ns last s => oofDown_aux (H.evalBody env ns last s)
  evalFinally := fun env ns s => oofDown_aux (H.evalFinally env ns s)
  tryHandlers := fun env cs hs v msg p t s => oofDown_aux (H.tryHandlers env cs hs v msg p t s)
  invoke := fun fn pre names args env pos s => oofDown_aux (H.invoke fn pre names args env pos s)
  evalArgs := fun env names args pos s => oofDown_aux (H.evalArgs env names args pos s)
  callFn := fun fn bound env pos s => oofDown_aux (H.callFn fn bound env pos s)
  bindParams := fun lenv ps ds bound pos s => oofDown_aux (H.bindParams lenv ps ds bound pos s)
  evalFor := fun env ids e body what pos s => oofDown_aux (H.evalFor env ids e body what pos s)
  forItems := fun env ids xs body result pos s => oofDown_aux (H.forItems env ids xs body result pos s)
  forListLive := fun env ids a i body result pos s => oofDown_aux (H.forListLive env ids a i body result pos s)
  forString := fun env x cs body result s => oofDown_aux (H.forString env x cs body result s)
  whileLoop := fun env c body pos s => oofDown_aux (H.whileLoop env c body pos s)
  comprStep := fun lenv kind ve ke cond pos s => oofDown_aux (H.comprStep lenv kind ve ke cond pos s)
  comprLoop := fun lenv kind ve ke cond pos l acc s => oofDown_aux (H.comprLoop lenv kind ve ke cond pos l acc s)
  comprProduct := fun lenv kind ve ke cond pos x1 vs x2 ws acc s => oofDown_aux (H.comprProduct lenv kind ve ke cond pos x1 vs x2 ws acc s)
  comprParallel := fun lenv kind ve ke cond pos x1 vs x2 ws acc s => oofDown_aux (H.comprParallel lenv kind ve ke cond pos x1 vs x2 ws acc s)
  nativeSorted := fun bound env pos s => oofDown_aux (H.nativeSorted bound env pos s)
  sortedOuter := fun cmp key senv pos arr i s => oofDown_aux (H.sortedOuter cmp key senv pos arr i s)
  sortedInner := fun cmp key senv pos arr v j s => oofDown_aux (H.sortedInner cmp key senv pos arr v j s)
  call1 := fun g x env pos s => oofDown_aux (H.call1 g x env pos s)
  call2 := fun g x y env pos s => oofDown_aux (H.call2 g x y env pos s)
  evalRequire := fun env spec name unq syms pos s => oofDown_aux (H.evalRequire env spec name unq syms pos s)
  loadModule := fun env ident modulefile pos s => oofDown_aux (H.loadModule env ident modulefile pos s)

end Ckl
