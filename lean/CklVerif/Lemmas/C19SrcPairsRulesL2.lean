import CklVerif.Lemmas.C19SrcChunksBodyL2

/-!
  C19Src (worker L2) — rules / built-in facts for core.ckl `pairs`:
  the two-element list LITERAL, `range(n)` on one int, indexing a list cell with a natural index, the target list `pairsL_L2`.
-/
namespace Ckl.C19Src
open Ckl Ckl.C03 Ckl.Gen.LibSrc
variable (ld : Loader)

/-- `[a, b]` (two non-spread items): both are evaluated in order, then a fresh list cell is allocated -/
theorem Ev.list2_L2 {k env a b pos s x s1 y s2} (hna : NotSpread a) (hnb : NotSpread b)
    (ha : Ev ld k env a s (.ok x s1)) (hb : Ev ld k env b s1 (.ok y s2)) :
    Ev ld (k + 3) env (.list [a, b] pos) s (.ok (.ref s2.heap.size) (s2.alloc (.list [x, y])).1) := by
  intro f hf
  obtain ⟨g, rfl⟩ : ∃ g, f = g + 4 := ⟨f - 4, by omega⟩
  have hitems : evalItems ld (g + 3) env [a, b] pos s = .ok [x, y] s2 := by
    rw [evalItems]
    · simp only [EvalM.bind_apply, ha (g + 2) (by omega)]
      rw [evalItems]
      · simp only [EvalM.bind_apply, hb (g + 1) (by omega)]
        rw [evalItems]; rfl
      · intro e p h; subst h; exact hnb
    · intro e p h; subst h; exact hna
  rw [eval, EvalM.bind_apply, hitems]; rfl

/-- the list `range(n)` allocates: `0, 1, …, n-1` (empty for `n ≤ 0`) -/
def rangeL_L2 (n : Int) : List RVal := (List.range n.toNat).map (fun (k : Nat) => RVal.int (k : Int))

theorem range_int_L2 (n : Int) (d : Option RVal) (pos : Pos) (s : State) :
    ∃ m, callPure "range" [("a", .int n)] d pos = some m ∧
      m s = .ok (.ref s.heap.size) (s.alloc (.list (rangeL_L2 n))).1 := by
  refine ⟨_, rfl, ?_⟩
  simp [argGet, dictGet, dictHas, newList, allocM, EvalM.bind_apply, EvalM.pure_apply, rangeL_L2]
  rfl

theorem rangeL_getElem_L2 (n : Int) (i : Nat) (v : RVal) (h : (rangeL_L2 n)[i]? = some v) : v = .int (i : Int) ∧ i < n.toNat := by
  unfold rangeL_L2 at h
  rw [List.getElem?_map] at h
  cases hr : (List.range n.toNat)[i]? with
  | none => rw [hr] at h; cases h
  | some j =>
    rw [hr] at h
    have := List.getElem?_eq_some_iff.mp hr
    obtain ⟨hlt, hj⟩ := this
    simp at hlt hj
    subst hj
    simp at h
    exact ⟨h.symm, by omega⟩

theorem derefOut_nat_L2 (xs : List RVal) (i : Nat) (x : RVal) (hx : xs[i]? = some x) (pos : Pos) (s : State) :
    derefOut xs (i : Int) pos s = .ok x s := by
  have hlt : i < xs.length := (List.getElem?_eq_some_iff.mp hx).1
  have h1 : ¬ ((i : Int) < 0) := by omega
  have h2 : ¬ ((i : Int) < 0 ∨ (i : Int) ≥ (xs.length : Int)) := by omega
  have h3 : ¬ (xs.length ≤ i) := by omega
  simp [derefOut, Seq.deref, h1, hx, h3]

/-- the contents of the result of `pairs`: `[xs[i], xs[i+1]]` for `i = 0 … length - 2` -/
def pairsL_L2 (xs : List RVal) : List (List RVal) := (xs.zip xs.tail).map (fun p => [p.1, p.2])

theorem pairsL_length_L2 (xs : List RVal) : (pairsL_L2 xs).length = xs.length - 1 := by
  simp [pairsL_L2]

theorem pairsL_getElem_L2 (xs : List RVal) (i : Nat) (x y : RVal) (hx : xs[i]? = some x) (hy : xs[i + 1]? = some y) :
    (pairsL_L2 xs)[i]? = some [x, y] := by
  unfold pairsL_L2
  rw [List.getElem?_map]
  have : (xs.zip xs.tail)[i]? = some (x, y) := by
    rw [List.getElem?_zip_eq_some]; exact ⟨hx, by rw [List.getElem?_tail]; exact hy⟩
  rw [this]; rfl

end Ckl.C19Src
