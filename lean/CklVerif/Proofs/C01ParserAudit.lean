import CklVerif.Proofs.C01Parser
#print axioms Ckl.C01.parseWith_total
#print axioms Ckl.C01.parse_total
#print axioms Ckl.C01.parseWith_error_eof
#print axioms Ckl.C01.parse_error_eof
#print axioms Ckl.C01.parse_one_plus_error
#print axioms Ckl.C01.parse_empty
#print axioms Ckl.C01.parseWith_empty
#print axioms Ckl.C01.postfixLoop_nil
#print axioms Ckl.C01.parse_single
#print axioms Ckl.C01.parse_int
#print axioms Ckl.C01.parse_decimal
#print axioms Ckl.C01.parse_boolean
#print axioms Ckl.C01.parse_string
#print axioms Ckl.C01.parse_identifier
