/-
  C10 (sessions) — base library.

  * `Grow s s'`      : nothing that exists in `s` is lost in `s'`: the frame array and the heap only
                       grow, every heap cell keeps its kind (a closure keeps definition environment,
                       parameters, defaults and body — only its display name may change), every frame
                       keeps its parent and every binding of every existing frame stays bound.
  * `Mono e X s s'`  : the same, except that in the watched frame `e` the names in `X` (and the empty
                       name, which is no identifier) may have become unbound.  `X` is empty at the
                       boundaries of nodes; inside a `for` loop it holds the loop identifiers, which the
                       loop unbinds at its end and whose hidden bindings the `for` node then puts back
                       (`restoreVars`).
-/
import CklVerif.Lemmas.C03Env
import CklVerif.Lemmas.C05Tr
namespace Ckl.C10S
open Ckl Ckl.C03

/-! ### final state of an outcome -/

/-- the state an outcome carries — whatever the outcome is -/
def stOf {α} : Out α → State
  | .ok _ s => s
  | .err _ _ _ _ s => s
  | .fail _ s => s

@[simp] theorem stOf_ok {α} (a : α) (s : State) : stOf (.ok a s) = s := rfl
@[simp] theorem stOf_err {α} (v m p t) (s : State) : stOf (.err v m p t s : Out α) = s := rfl
@[simp] theorem stOf_fail {α} (f) (s : State) : stOf (.fail f s : Out α) = s := rfl

/-! ### kinds of heap cells -/

/-- what a heap cell is, up to its mutable content: containers may change their elements, a
    closure only its display name (NodeDef renames a lambda) -/
inductive CellKind where
  | list | set | map
  | obj (isModule : Bool)
  | closure (env : EnvId) (params : List String) (defaults : List Node) (body : Node)

def cellKind : Cell → CellKind
  | .list _ => .list
  | .set _ => .set
  | .map _ => .map
  | .obj _ m => .obj m
  | .closure e ps ds b _ => .closure e ps ds b

/-! ### dictionaries -/

theorem dictHas_dictPut_mono {β} (x y : String) (v : β) (d : List (String × β))
    (h : dictHas y d = true) : dictHas y (dictPut x v d) = true := by
  rw [dictHas_dictPut, h, Bool.or_true]

theorem dictHas_dictDel_other {β} {x y : String} (hxy : y ≠ x) (d : List (String × β))
    (h : dictHas y d = true) : dictHas y (dictDel x d) = true := by
  induction d with
  | nil => exact h
  | cons hd tl ih =>
    obtain ⟨k, v⟩ := hd
    simp only [dictDel]
    by_cases hk : x = k
    · subst hk
      simp only [if_true]
      simp only [dictHas, dictGet, hxy, if_false] at h
      exact h
    · simp only [hk, if_false]
      by_cases hyk : y = k
      · simp [dictHas, dictGet, hyk]
      · simp only [dictHas, dictGet, hyk, if_false] at h ⊢
        exact ih h

/-! ### frames under `remove`, `newEnv` -/

theorem frames_size_remove (s : State) (e : Nat) (x : String) :
    (s.remove e x).frames.size = s.frames.size := by
  simp [State.remove]

theorem frame_remove_same (s : State) {e : Nat} (x : String) (h : e < s.frames.size) :
    (s.remove e x).frame e = { s.frame e with vars := dictDel x (s.frame e).vars } := by
  simp [State.remove, State.frame, Array.getD_eq_getD_getElem?, Array.getElem_modify, h]

theorem frame_remove_other (s : State) {e e' : Nat} (x : String) (h : e' ≠ e) :
    (s.remove e x).frame e' = s.frame e' := by
  simp [State.remove, State.frame, Array.getD_eq_getD_getElem?, Array.getElem?_modify, Ne.symm h]

theorem remove_out_of_range (s : State) {e : Nat} (x : String) (h : s.frames.size ≤ e) :
    s.remove e x = s := by
  have : s.frames.modify e (fun f => { f with vars := dictDel x f.vars }) = s.frames := by
    apply Array.ext
    · simp
    · intro i h1 h2
      have : e ≠ i := by simp at h1; omega
      simp [Array.getElem_modify, this]
  simp [State.remove, this]

theorem parent_remove (s : State) (e e' : Nat) (x : String) :
    ((s.remove e x).frame e').parent = (s.frame e').parent := by
  by_cases h : e' = e
  · subst h
    by_cases h2 : e' < s.frames.size
    · rw [frame_remove_same s x h2]
    · rw [remove_out_of_range s x (by omega)]
  · rw [frame_remove_other s x h]

theorem frame_newEnv_old (s : State) (p : EnvId) {f : Nat} (h : f < s.frames.size) :
    ((s.newEnv p).1.frame f) = s.frame f := by
  have h' : f ≠ s.frames.size := Nat.ne_of_lt h
  simp [State.newEnv, State.frame, Array.getD_eq_getD_getElem?, Array.getElem?_push, h']

/-! ### the relations -/

/-- nothing is lost between `s` and `s'` -/
structure Grow (s s' : State) : Prop where
  frames : s.frames.size ≤ s'.frames.size
  kinds : ∀ a, a < s.heap.size → (s'.heap[a]?).map cellKind = (s.heap[a]?).map cellKind
  parent : ∀ f, f < s.frames.size → (s'.frame f).parent = (s.frame f).parent
  bound : ∀ f x, f < s.frames.size → dictHas x (s.frame f).vars = true → dictHas x (s'.frame f).vars = true

/-- nothing is lost between `s` and `s'` except bindings of names in `X` (and of the empty name)
    in frame `e` -/
structure Mono (e : EnvId) (X : String → Prop) (s s' : State) : Prop where
  frames : s.frames.size ≤ s'.frames.size
  kinds : ∀ a, a < s.heap.size → (s'.heap[a]?).map cellKind = (s.heap[a]?).map cellKind
  parent : ∀ f, f < s.frames.size → (s'.frame f).parent = (s.frame f).parent
  bound : ∀ x, x ≠ "" → ¬ X x → dictHas x (s.frame e).vars = true → dictHas x (s'.frame e).vars = true

theorem kinds_size_le {s s' : State}
    (h : ∀ a, a < s.heap.size → (s'.heap[a]?).map cellKind = (s.heap[a]?).map cellKind) :
    s.heap.size ≤ s'.heap.size := by
  rcases Nat.lt_or_ge s'.heap.size s.heap.size with hlt | hge
  · have := h s'.heap.size hlt
    rw [Array.getElem?_eq_none (Nat.le_refl _), Array.getElem?_eq_getElem hlt] at this
    cases this
  · exact hge

namespace Grow

theorem refl (s : State) : Grow s s := ⟨Nat.le_refl _, fun _ _ => rfl, fun _ _ => rfl, fun _ _ _ h => h⟩

theorem heap_le {s s' : State} (h : Grow s s') : s.heap.size ≤ s'.heap.size := kinds_size_le h.kinds

theorem trans {a b c : State} (h1 : Grow a b) (h2 : Grow b c) : Grow a c where
  frames := Nat.le_trans h1.frames h2.frames
  kinds x hx := (h2.kinds x (Nat.lt_of_lt_of_le hx h1.heap_le)).trans (h1.kinds x hx)
  parent f hf := (h2.parent f (Nat.lt_of_lt_of_le hf h1.frames)).trans (h1.parent f hf)
  bound f x hf hx := h2.bound f x (Nat.lt_of_lt_of_le hf h1.frames) (h1.bound f x hf hx)

/-- a step that touches neither frames nor heap -/
theorem of_eq {s s' : State} (hf : s'.frames = s.frames) (hh : s'.heap = s.heap) : Grow s s' := by
  refine ⟨by rw [hf]; exact Nat.le_refl _, fun a _ => by rw [hh], fun f _ => ?_, fun f x _ h => ?_⟩
  · simp only [State.frame, hf]
  · simp only [State.frame, hf]; exact h

theorem put (s : State) (env : EnvId) (x : String) (v : RVal) : Grow s (s.put env x v) := by
  refine ⟨by rw [frames_size_put]; exact Nat.le_refl _, fun a _ => rfl, fun f _ => parent_put s env f x v,
    fun f y hf hy => ?_⟩
  by_cases h : f = env
  · subst h; rw [vars_put_same s x v hf]; exact dictHas_dictPut_mono x y v _ hy
  · rw [frame_put_other s x v h]; exact hy

theorem newEnv (s : State) (p : EnvId) : Grow s (s.newEnv p).1 := by
  refine ⟨by simp [State.newEnv], fun a _ => rfl, fun f hf => ?_, fun f x hf hx => ?_⟩
  · rw [frame_newEnv_old s p hf]
  · rw [frame_newEnv_old s p hf]; exact hx

theorem alloc (s : State) (c : Cell) : Grow s (s.alloc c).1 := by
  refine ⟨Nat.le_refl _, fun a ha => ?_, fun f _ => rfl, fun f x _ h => h⟩
  simp only [State.alloc]
  rw [Array.getElem?_push_lt ha, Array.getElem?_eq_getElem ha]

/-- overwriting a cell with one of the same kind -/
theorem setCell {s : State} {a : Nat} {c c0 : Cell} (h0 : s.cell a = some c0)
    (hk : cellKind c = cellKind c0) : Grow s (s.setCell a c) := by
  refine ⟨Nat.le_refl _, fun b hb => ?_, fun f _ => rfl, fun f x _ h => h⟩
  simp only [State.setCell]
  by_cases hab : a = b
  · subst hab
    simp only [State.cell] at h0
    rw [h0, Array.getElem?_setIfInBounds_self_of_lt hb]
    simp [hk]
  · rw [Array.getElem?_setIfInBounds_ne hab]

/-- `setCell` on an address that holds nothing is a no-op as far as `Grow` is concerned -/
theorem setCell_none {s : State} {a : Nat} {c : Cell} (h0 : s.cell a = none) : Grow s (s.setCell a c) := by
  refine ⟨Nat.le_refl _, fun b hb => ?_, fun f _ => rfl, fun f x _ h => h⟩
  simp only [State.setCell]
  by_cases hab : a = b
  · subst hab
    simp only [State.cell] at h0
    rw [Array.getElem?_eq_getElem hb] at h0
    cases h0
  · rw [Array.getElem?_setIfInBounds_ne hab]

end Grow

namespace Mono
variable {e : EnvId} {X : String → Prop}

theorem heap_le {s s' : State} (h : Mono e X s s') : s.heap.size ≤ s'.heap.size := kinds_size_le h.kinds

theorem refl (s : State) : Mono e X s s :=
  ⟨Nat.le_refl _, fun _ _ => rfl, fun _ _ => rfl, fun _ _ _ h => h⟩

/-- a frame in which something is bound exists -/
theorem live_of_bound {s : State} {x : String} (h : dictHas x (s.frame e).vars = true) : e < s.frames.size := by
  rcases Nat.lt_or_ge e s.frames.size with h1 | h1
  · exact h1
  · rw [frame_of_ge s h1] at h; cases h

theorem trans {a b c : State} (h1 : Mono e X a b) (h2 : Mono e X b c) : Mono e X a c where
  frames := Nat.le_trans h1.frames h2.frames
  kinds x hx := (h2.kinds x (Nat.lt_of_lt_of_le hx h1.heap_le)).trans (h1.kinds x hx)
  parent f hf := (h2.parent f (Nat.lt_of_lt_of_le hf h1.frames)).trans (h1.parent f hf)
  bound x h0 hX hx := h2.bound x h0 hX (h1.bound x h0 hX hx)

/-- a `Grow` step continues a `Mono` history -/
theorem grow {a b c : State} (h1 : Mono e X a b) (h2 : Grow b c) : Mono e X a c where
  frames := Nat.le_trans h1.frames h2.frames
  kinds x hx := (h2.kinds x (Nat.lt_of_lt_of_le hx h1.heap_le)).trans (h1.kinds x hx)
  parent f hf := (h2.parent f (Nat.lt_of_lt_of_le hf h1.frames)).trans (h1.parent f hf)
  bound x h0 hX hx := by
    have hb := h1.bound x h0 hX hx
    exact h2.bound e x (live_of_bound hb) hb

theorem of_grow {s s' : State} (h : Grow s s') : Mono e X s s' := (refl s).grow h

/-- the exception set may be enlarged -/
theorem weaken {Y : String → Prop} {s s' : State} (h : Mono e X s s') (hXY : ∀ x, x ≠ "" → X x → Y x) :
    Mono e Y s s' where
  frames := h.frames
  kinds := h.kinds
  parent := h.parent
  bound x h0 hY hx := h.bound x h0 (fun hX => hY (hXY x h0 hX)) hx

theorem weaken_all {s s' : State} (h : Mono e X s s') : Mono e (fun _ => True) s s' :=
  h.weaken (fun _ _ _ => trivial)

/-- removing a name: allowed in any frame other than the watched one, and in the watched frame for
    the names in `X` (and the empty name) -/
theorem remove {s0 s : State} (h : Mono e X s0 s) (env : EnvId) (x : String) (hc : env = e → x = "" ∨ X x) :
    Mono e X s0 (s.remove env x) where
  frames := by rw [frames_size_remove]; exact h.frames
  kinds := h.kinds
  parent f hf := (parent_remove s env f x).trans (h.parent f hf)
  bound y h0 hY hy := by
    have h1 := h.bound y h0 hY hy
    by_cases he : e = env
    · subst he
      by_cases hl : e < s.frames.size
      · rw [frame_remove_same s x hl]
        have hxy : y ≠ x := fun hh => by
          subst hh
          rcases hc rfl with h2 | h2
          · exact h0 h2
          · exact hY h2
        exact dictHas_dictDel_other hxy _ h1
      · rw [remove_out_of_range s x (Nat.le_of_not_lt hl)]; exact h1
    · rw [frame_remove_other s x he]; exact h1

theorem removeAll {s0 : State} (env : EnvId) (ids : List String) (hc : env = e → ∀ x ∈ ids, x = "" ∨ X x) :
    ∀ s, Mono e X s0 s → Mono e X s0 (ids.foldl (fun s x => s.remove env x) s) := by
  induction ids with
  | nil => exact fun _ h => h
  | cons y ys ih =>
    intro s h
    exact ih (fun he x hx => hc he x (List.mem_cons_of_mem _ hx)) _
      (h.remove env y (fun he => hc he y (List.mem_cons_self ..)))

/-- binding a name re-establishes it: after `put env x v` the exception `x` (in frame `env`) is
    no longer needed -/
theorem put_cover {Y : String → Prop} {s0 s : State} (h : Mono e Y s0 s) (env : EnvId) (x : String) (v : RVal)
    (hY : ∀ y, y ≠ "" → Y y → X y ∨ (env = e ∧ y = x)) : Mono e X s0 (s.put env x v) where
  frames := by rw [frames_size_put]; exact h.frames
  kinds := h.kinds
  parent f hf := (parent_put s env f x v).trans (h.parent f hf)
  bound y h0 hX hy := by
    have hl : e < s.frames.size := Nat.lt_of_lt_of_le (live_of_bound hy) h.frames
    by_cases hYy : Y y
    · rcases hY y h0 hYy with h1 | ⟨rfl, rfl⟩
      · exact absurd h1 hX
      · rw [vars_put_same s y v hl, dictHas_dictPut_same]
    · have h1 := h.bound y h0 hYy hy
      exact (Grow.put s env x v).bound e y hl h1

end Mono

/-! ### hidden bindings of loop identifiers are put back -/

theorem restoreVars_grow (env : EnvId) (hidden : List (String × RVal)) (s : State) :
    Grow s (restoreVars env hidden s) := by
  unfold restoreVars
  induction hidden generalizing s with
  | nil => exact Grow.refl s
  | cons xv rest ih => exact (Grow.put s env xv.1 xv.2).trans (ih _)

theorem mem_hiddenVars {s : State} {env : EnvId} {ids : List String} {x : String} {v : RVal}
    (hx : x ∈ ids) (hv : dictGet x (s.frame env).vars = some v) : (x, v) ∈ hiddenVars s env ids := by
  unfold hiddenVars
  rw [List.mem_filterMap]
  exact ⟨x, hx, by rw [hv]; rfl⟩

theorem of_mem_hiddenVars {s : State} {env : EnvId} {ids : List String} {x : String} {v : RVal}
    (h : (x, v) ∈ hiddenVars s env ids) : dictGet x (s.frame env).vars = some v := by
  unfold hiddenVars at h
  rw [List.mem_filterMap] at h
  obtain ⟨y, _, hy⟩ := h
  cases hg : dictGet y (s.frame env).vars with
  | none => rw [hg] at hy; cases hy
  | some w =>
    rw [hg] at hy
    simp only [Option.map_some, Option.some.injEq, Prod.mk.injEq] at hy
    obtain ⟨rfl, rfl⟩ := hy
    exact hg

/-- after the restore every hidden name is bound in frame `env` (if that frame exists) … -/
theorem restoreVars_bound (env : EnvId) : ∀ (hidden : List (String × RVal)) (s : State) (x : String) (v : RVal),
    env < s.frames.size → (x, v) ∈ hidden → dictHas x ((restoreVars env hidden s).frame env).vars = true := by
  intro hidden
  induction hidden with
  | nil => intro s x v _ h; cases h
  | cons xv rest ih =>
    intro s x v hl h
    have hl' : env < (s.put env xv.1 xv.2).frames.size := by rw [frames_size_put]; exact hl
    rcases List.mem_cons.mp h with h1 | h1
    · subst h1
      have hb : dictHas x ((s.put env x v).frame env).vars = true := by
        rw [vars_put_same s x v hl, dictHas_dictPut_same]
      exact (restoreVars_grow env rest _).bound env x hl' hb
    · exact ih (s.put env xv.1 xv.2) x v hl' h1

/-- … to its hidden value, when every name is hidden with one value only (the case for
    `hiddenVars`: the values are those of one dictionary) -/
theorem restoreVars_get (env : EnvId) : ∀ (hidden : List (String × RVal)) (s : State) (x : String) (v : RVal),
    env < s.frames.size → (x, v) ∈ hidden → (∀ w, (x, w) ∈ hidden → w = v) →
      dictGet x ((restoreVars env hidden s).frame env).vars = some v := by
  intro hidden
  induction hidden with
  | nil => intro s x v _ h; cases h
  | cons xv rest ih =>
    intro s x v hl h huniq
    obtain ⟨y, w⟩ := xv
    have hl' : env < (s.put env y w).frames.size := by rw [frames_size_put]; exact hl
    by_cases hrest : (x, v) ∈ rest
    · exact ih (s.put env y w) x v hl' hrest (fun w' hw' => huniq w' (List.mem_cons_of_mem _ hw'))
    · -- `x` is put here and never again
      rcases List.mem_cons.mp h with h1 | h1
      · simp only [Prod.mk.injEq] at h1
        obtain ⟨rfl, rfl⟩ := h1
        have hnot : ∀ w', (x, w') ∉ rest := fun w' hw' => by
          have := huniq w' (List.mem_cons_of_mem _ hw'); subst this; exact hrest hw'
        have key : ∀ (l : List (String × RVal)) (t : State), (∀ w', (x, w') ∉ l) →
            dictGet x ((restoreVars env l t).frame env).vars = dictGet x (t.frame env).vars := by
          intro l
          induction l with
          | nil => intro t _; rfl
          | cons zv l ihl =>
            intro t hn
            obtain ⟨z, u⟩ := zv
            have hzx : z ≠ x := fun hh => hn u (by rw [hh]; exact List.mem_cons_self ..)
            show dictGet x ((restoreVars env l (t.put env z u)).frame env).vars = _
            rw [ihl (t.put env z u) (fun w' hw' => hn w' (List.mem_cons_of_mem _ hw')),
              dictGet_vars_put_other_name t env env u hzx]
        show dictGet x ((restoreVars env rest (s.put env x v)).frame env).vars = some v
        rw [key rest _ hnot, vars_put_same s x v hl, dictGet_dictPut_same]
      · exact absurd h1 hrest

theorem headD_mem {ids : List String} {y : String} (h : y = ids.headD "") (h0 : y ≠ "") : y ∈ ids := by
  cases ids with
  | nil => exact absurd h h0
  | cons a as => rw [h]; exact List.mem_cons_self ..

/-- the exit of a `for` node: the loop proper may have unbound its identifiers (`Y`); putting the
    hidden bindings back re-establishes `X` relative to the state `s` at the entry of the node -/
theorem Mono.restore {e : EnvId} {X Y : String → Prop} {s s' : State} (env : EnvId) (ids : List String)
    (h : Mono e Y s s') (hY : ∀ y, y ≠ "" → Y y → X y ∨ (env = e ∧ y ∈ ids)) :
    Mono e X s (restoreVars env (hiddenVars s env ids) s') := by
  have hg := restoreVars_grow env (hiddenVars s env ids) s'
  refine ⟨Nat.le_trans h.frames hg.frames, (h.grow hg).kinds, (h.grow hg).parent, fun y h0 hX hy => ?_⟩
  have hl : e < s'.frames.size := Nat.lt_of_lt_of_le (Mono.live_of_bound hy) h.frames
  by_cases hYy : Y y
  · rcases hY y h0 hYy with h1 | ⟨rfl, hmem⟩
    · exact absurd h1 hX
    · unfold dictHas at hy
      cases hgv : dictGet y (s.frame env).vars with
      | none => rw [hgv] at hy; cases hy
      | some v => exact restoreVars_bound env _ s' y v hl (mem_hiddenVars hmem hgv)
  · exact hg.bound e y hl (h.bound y h0 hYy hy)


/-! ### `Grow` for the other primitive state changes -/

theorem grow_remove_other_frames (s : State) (env : EnvId) (x : String) :
    s.frames.size ≤ (s.remove env x).frames.size := by rw [frames_size_remove]; exact Nat.le_refl _

theorem grow_setF (s : State) (fuel : Nat) (env : EnvId) (n : String) (v : RVal) (s' : State)
    (h : s.setF fuel env n v = some s') : Grow s s' := by
  induction fuel generalizing env with
  | zero => simp [State.setF] at h
  | succ k ih =>
    simp only [State.setF] at h
    split at h
    · cases h; exact Grow.put _ _ _ _
    · split at h
      · exact ih _ h
      · cases h

theorem grow_set {s s' : State} {env : EnvId} {n : String} {v : RVal}
    (h : s.set env n v = some s') : Grow s s' := grow_setF _ _ _ _ _ _ h

theorem grow_foldl {γ} (f : State → γ → State) (hf : ∀ s x, Grow s (f s x)) (l : List γ) (s : State) :
    Grow s (l.foldl f s) := by
  induction l generalizing s with
  | nil => exact Grow.refl s
  | cons x xs ih => exact (hf s x).trans (ih (f s x))

end Ckl.C10S
