/-
  C15Eval — non-vacuity of `Proofs/C15Eval.lean` (instances on a concrete state: `example`s) and whole programs
  through `parseScript` + `interpretProg` (`#guard`s).  These are tests on sample inputs, not property theorems.
-/
import CklVerif.Proofs.C15Eval
set_option linter.unusedSimpArgs false
namespace Ckl.C15Eval
open Ckl Ckl.C19Src Ckl.C15

/-! ## 5. Non-vacuity

  5a: every hypothesis of the theorems above is met on a concrete loader (the default one), a concrete state and
  concrete nodes (`example`s: instances, not property theorems).  5b: concrete PROGRAMS through `parseScript` and
  `interpretProg` on the interpreter's initial state (`#guard`: tests). -/

section nonvacuity

theorem ev_litDec (ld : Loader) {k env m e p s} : Ev ld k env (.lit (.dec m e) p) s (.ok (.dec m e) s) := by
  intro f hf; obtain ⟨g, rfl, _⟩ := succ_of_lt hf; rw [eval]; rfl

def ldEx : Loader := {}
def q0 : Pos := {}

/-- frame 0 binds `s = 'abcab'`, `l` = cell 0 = `[10, 20, 30]`, `m` = cell 1 = `<<<'x' => 1>>>`, `i = -2`, `j = 7`,
    `n = 2`, and the built-ins under their own names -/
def sEx : State :=
  { frames := #[{ vars := [("s", .str ['a', 'b', 'c', 'a', 'b']), ("l", .ref 0), ("m", .ref 1), ("i", .int (-2)),
      ("j", .int 7), ("n", .int 2), ("x", .str ['x']), ("t", .str ['a', 'b']),
      ("add", .native "add" 0), ("equals", .native "equals" 1), ("length", .native "length" 2),
      ("substr", .native "substr" 3), ("sublist", .native "sublist" 4), ("find", .native "find" 5),
      ("find_last", .native "find_last" 6), ("insert_at", .native "insert_at" 7),
      ("delete_at", .native "delete_at" 8)] }],
    heap := #[.list [.int 10, .int 20, .int 30], .map [(.str ['x'], .int 1)]] }

theorem lk_s : sEx.lookup 0 "s" = some (.str ['a', 'b', 'c', 'a', 'b']) := by rfl
theorem lk_l : sEx.lookup 0 "l" = some (.ref 0) := by simp [State.lookup, State.lookupF, State.frame, sEx, dictGet]
theorem lk_m : sEx.lookup 0 "m" = some (.ref 1) := by simp [State.lookup, State.lookupF, State.frame, sEx, dictGet]
theorem lk_i : sEx.lookup 0 "i" = some (.int (-2)) := by simp [State.lookup, State.lookupF, State.frame, sEx, dictGet]
theorem lk_j : sEx.lookup 0 "j" = some (.int 7) := by simp [State.lookup, State.lookupF, State.frame, sEx, dictGet]
theorem lk_n : sEx.lookup 0 "n" = some (.int 2) := by simp [State.lookup, State.lookupF, State.frame, sEx, dictGet]
theorem lk_x : sEx.lookup 0 "x" = some (.str ['x']) := by simp [State.lookup, State.lookupF, State.frame, sEx, dictGet]
theorem lk_t : sEx.lookup 0 "t" = some (.str ['a', 'b']) := by simp [State.lookup, State.lookupF, State.frame, sEx, dictGet]
theorem lk_add : sEx.lookup 0 "add" = some (.native "add" 0) := by
  simp [State.lookup, State.lookupF, State.frame, sEx, dictGet]
theorem lk_equals : sEx.lookup 0 "equals" = some (.native "equals" 1) := by
  simp [State.lookup, State.lookupF, State.frame, sEx, dictGet]
theorem lk_length : sEx.lookup 0 "length" = some (.native "length" 2) := by
  simp [State.lookup, State.lookupF, State.frame, sEx, dictGet]
theorem lk_substr : sEx.lookup 0 "substr" = some (.native "substr" 3) := by
  simp [State.lookup, State.lookupF, State.frame, sEx, dictGet]
theorem lk_sublist : sEx.lookup 0 "sublist" = some (.native "sublist" 4) := by
  simp [State.lookup, State.lookupF, State.frame, sEx, dictGet]
theorem lk_find : sEx.lookup 0 "find" = some (.native "find" 5) := by
  simp [State.lookup, State.lookupF, State.frame, sEx, dictGet]
theorem lk_find_last : sEx.lookup 0 "find_last" = some (.native "find_last" 6) := by
  simp [State.lookup, State.lookupF, State.frame, sEx, dictGet]
theorem lk_insert_at : sEx.lookup 0 "insert_at" = some (.native "insert_at" 7) := by
  simp [State.lookup, State.lookupF, State.frame, sEx, dictGet]
theorem lk_delete_at : sEx.lookup 0 "delete_at" = some (.native "delete_at" 8) := by
  simp [State.lookup, State.lookupF, State.frame, sEx, dictGet]
theorem cell_l : sEx.cell 0 = some (.list [.int 10, .int 20, .int 30]) := rfl
theorem cell_m : sEx.cell 1 = some (.map [(.str ['x'], .int 1)]) := rfl

def nS : Node := .ident "s" q0
def nL : Node := .ident "l" q0
def nM : Node := .ident "m" q0
def nI : Node := .ident "i" q0
def nJ : Node := .ident "j" q0
def nN : Node := .ident "n" q0
def nX : Node := .ident "x" q0
def nT : Node := .ident "t" q0

/-! §1 -/
-- `s[i]` with `i = -2`: the character at position 3
example : eval ldEx 2 0 (.deref nS nI .absent q0) sEx = .ok (.str ['a']) sEx :=
  index_str_idents ldEx lk_s lk_i 2 (by omega)
-- `s[j]` with `j = 7`: exactly the runtime error
example : eval ldEx 5 0 (.deref nS nJ .absent q0) sEx = .err ERR "Index out of bounds" q0 [] sEx :=
  index_str_idents ldEx lk_s lk_j 5 (by omega)
example : ∃ c, ['a', 'b', 'c', 'a', 'b'][(adj 5 (-2)).toNat]? = some c ∧
    Ev ldEx 1 0 (.deref nS nI .absent q0) sEx (.ok (.str [c]) sEx) :=
  index_str_in_range ldEx (k := 0) (Ev.ident ldEx lk_i) (Ev.ident ldEx lk_s) (by decide)
example : Ev ldEx 1 0 (.deref nS nJ .absent q0) sEx (.err ERR "Index out of bounds" q0 [] sEx) :=
  index_str_out_of_range ldEx (k := 0) (Ev.ident ldEx lk_j) (Ev.ident ldEx lk_s) (by decide)
-- `l[i]` with `i = -2` is 20; `l[j]` is the error
example : eval ldEx 2 0 (.deref nL nI .absent q0) sEx = .ok (.int 20) sEx :=
  index_list_idents ldEx lk_l cell_l lk_i 2 (by omega)
example : eval ldEx 2 0 (.deref nL nJ .absent q0) sEx = .err ERR "Index out of bounds" q0 [] sEx :=
  index_list_idents ldEx lk_l cell_l lk_j 2 (by omega)
example : ∃ x, [RVal.int 10, .int 20, .int 30][(adj 3 (-2)).toNat]? = some x ∧
    Ev ldEx 1 0 (.deref nL nI .absent q0) sEx (.ok x sEx) :=
  index_list_in_range ldEx (k := 0) (Ev.ident ldEx lk_i) (Ev.ident ldEx lk_l) cell_l (by decide)
example : Ev ldEx 1 0 (.deref nL nJ .absent q0) sEx (.err ERR "Index out of bounds" q0 [] sEx) :=
  index_list_out_of_range ldEx (k := 0) (Ev.ident ldEx lk_j) (Ev.ident ldEx lk_l) cell_l (by decide)
-- boolean / decimal / NULL / string index
example : Ev ldEx 1 0 (.deref nS (.lit (.bool true) q0) .absent q0) sEx (.ok (.str ['b']) sEx) :=
  index_str_bool ldEx (k := 0) (Ev.litBool ldEx) (Ev.ident ldEx lk_s)
example : Ev ldEx 1 0 (.deref nS (.lit (.dec 5 1) q0) .absent q0) sEx (.ok (.str ['c']) sEx) :=
  index_str_dec ldEx (k := 0) (ev_litDec ldEx) (Ev.ident ldEx lk_s)
example : Ev ldEx 1 0 (.deref nS (.null q0) .absent q0) sEx (.err ERR "Invalid index null" q0 [] sEx) :=
  index_str_bad ldEx (k := 0) (idx := .null) (by trivial) (Ev.null ldEx) (Ev.ident ldEx lk_s)
example : Ev ldEx 1 0 (.deref nL (.null q0) .absent q0) sEx (.err ERR "Invalid index null" q0 [] sEx) :=
  index_list_bad ldEx (k := 0) (idx := .null) (by trivial) (Ev.null ldEx) (Ev.ident ldEx lk_l) cell_l
example : Ev ldEx 1 0 (.deref nS nX .absent q0) sEx
    (.fail (.unsupported "index given as string (int(str))") sEx) :=
  index_str_by_string_abstains ldEx (k := 0) (Ev.ident ldEx lk_x) (Ev.ident ldEx lk_s)
-- default form, NULL operand, map, non-indexable
example : Ev ldEx 1 0 (.deref nS nI nJ q0) sEx
    (.err ERR "Default value not allowed in string dereference" q0 [] sEx) :=
  index_str_default ldEx (k := 0) (by intro h; cases h) (Ev.ident ldEx lk_i) (Ev.ident ldEx lk_s)
example : Ev ldEx 1 0 (.deref nL nI nJ q0) sEx
    (.err ERR "Default value not allowed in list dereference" q0 [] sEx) :=
  index_list_default ldEx (k := 0) (by intro h; cases h) (Ev.ident ldEx lk_i) (Ev.ident ldEx lk_l) cell_l
example : Ev ldEx 1 0 (.deref (.null q0) nI .absent q0) sEx (.ok .null sEx) :=
  index_null ldEx (k := 0) (Ev.ident ldEx lk_i) (Ev.null ldEx)
example : Ev ldEx 1 0 (.deref nM nX .absent q0) sEx (.ok (.int 1) sEx) :=
  index_map_hit ldEx (k := 0) (Ev.ident ldEx lk_x) (Ev.ident ldEx lk_m) cell_m (by rfl)
example : Ev ldEx 1 0 (.deref nM nI .absent q0) sEx (.err ERR "Map does not contain key" q0 [] sEx) :=
  index_map_miss ldEx (k := 0) (Ev.ident ldEx lk_i) (Ev.ident ldEx lk_m) cell_m (by rfl)
example : Ev ldEx 1 0 (.deref nM nI nJ q0) sEx (.ok (.int 7) sEx) :=
  index_map_default ldEx (k := 0) (by intro h; cases h) (Ev.ident ldEx lk_i) (Ev.ident ldEx lk_m) cell_m (by rfl)
    (Ev.ident ldEx lk_j)
example : Ev ldEx 1 0 (.deref nJ nI .absent q0) sEx (.err ERR "Cannot dereference value" q0 [] sEx) :=
  index_other ldEx (k := 0) (v := .int 7) (by trivial) (Ev.ident ldEx lk_i) (Ev.ident ldEx lk_j)

/-! §2 -/
-- `s[i to j]` = `s[-2 to 7]` = 'ab'; crossed bounds `s[n to i]`… = `s[2 to 3]` = 'c'; `s[j to n]` is empty
example : Ev ldEx 1 0 (.slice nS nI nJ q0) sEx (.ok (.str (Seq.slice ['a', 'b', 'c', 'a', 'b'] (-2) (some 7))) sEx) :=
  (slice_str_to ldEx (k := 0) (by intro h; cases h) (Ev.ident ldEx lk_s) (Ev.ident ldEx lk_i)
    (Ev.ident ldEx lk_j)).1
example : Seq.slice ['a', 'b', 'c', 'a', 'b'] (-2) (some 7) = ['a', 'b'] := by decide
example : Seq.slice ['a', 'b', 'c', 'a', 'b'] 7 (some 2) = [] := by decide
example : Ev ldEx 1 0 (.slice nS nJ nN q0) sEx (.ok (.str (clampedRun ['a', 'b', 'c', 'a', 'b'] 7 (some 2))) sEx) :=
  (slice_str_to ldEx (k := 0) (by intro h; cases h) (Ev.ident ldEx lk_s) (Ev.ident ldEx lk_j)
    (Ev.ident ldEx lk_n)).2
example : Ev ldEx 1 0 (.slice nS nI .absent q0) sEx (.ok (.str (Seq.slice ['a', 'b', 'c', 'a', 'b'] (-2) none)) sEx) :=
  (slice_str_star ldEx (k := 0) (Ev.ident ldEx lk_s) (Ev.ident ldEx lk_i)).1
example : ∃ s4, Ev ldEx 1 0 (.slice nL nI nJ q0) sEx (.ok (.ref 2) s4) ∧
    s4.cell 2 = some (.list (clampedRun [RVal.int 10, .int 20, .int 30] (-2) (some 7))) ∧ 0 ≠ 2 ∧
    s4.cell 0 = some (.list [.int 10, .int 20, .int 30]) ∧ (∀ a' c', sEx.cell a' = some c' → s4.cell a' = some c') ∧
    s4.frames = sEx.frames :=
  slice_list_to_spec ldEx (k := 0) (by intro h; cases h) (Ev.ident ldEx lk_l) (Ev.ident ldEx lk_i)
    (Ev.ident ldEx lk_j) cell_l
example : ∃ s4, Ev ldEx 1 0 (.slice nL nN .absent q0) sEx (.ok (.ref 2) s4) ∧
    s4.cell 2 = some (.list (clampedRun [RVal.int 10, .int 20, .int 30] 2 none)) ∧ 0 ≠ 2 ∧
    s4.cell 0 = some (.list [.int 10, .int 20, .int 30]) ∧ (∀ a' c', sEx.cell a' = some c' → s4.cell a' = some c') ∧
    s4.frames = sEx.frames :=
  slice_list_star_spec ldEx (k := 0) (Ev.ident ldEx lk_l) (Ev.ident ldEx lk_n) cell_l
example : Ev ldEx 1 0 (.slice (.null q0) nI nJ q0) sEx (.ok .null sEx) :=
  slice_null_to ldEx (k := 0) (by intro h; cases h) (Ev.null ldEx) (Ev.ident ldEx lk_i) (Ev.ident ldEx lk_j)
example : Ev ldEx 1 0 (.slice nM nI nJ q0) sEx (.err ERR "Cannot slice" q0 [] sEx) :=
  slice_other_to ldEx (k := 0) (v := .ref 1) (by intro h; cases h) (Ev.ident ldEx lk_m) (Ev.ident ldEx lk_i)
    (Ev.ident ldEx lk_j) (by simp [NotSliceable, cell_m])
example : Ev ldEx 1 0 (.slice nS (.null q0) .absent q0) sEx (.err ERR "Invalid index null" q0 [] sEx) :=
  slice_str_bad_start ldEx (k := 0) (st := .null) (by trivial) (Ev.ident ldEx lk_s) (Ev.null ldEx)

/-! §3 -/
example : ∃ m, callPure "substr" [("str", .str ['a', 'b', 'c']), ("startidx", .int (-2))] none q0 = some m ∧
    m sEx = .ok (.str (clampedRun ['a', 'b', 'c'] (-2) none)) sEx :=
  ⟨_, rfl, (native_substr (d0 := none) (b := none) rfl rfl rfl rfl).2⟩
example : ∃ m, callPure "sublist" [("lst", .ref 0), ("startidx", .int 1), ("endidx", .int 9)] none q0 = some m ∧
    m sEx = .ok (.ref 2) (sEx.alloc (.list (clampedRun [.int 10, .int 20, .int 30] 1 (some 9)))).1 :=
  ⟨_, rfl, (native_sublist (d0 := none) (b := some 9) rfl rfl cell_l rfl rfl).2⟩
example : ∃ m, callPure "find" [("obj", .str ['a', 'b', 'c', 'a', 'b']), ("part", .str ['a', 'b']), ("start", .int 1)]
      none q0 = some m ∧ m sEx = .ok (.int (Seq.find ['a', 'b', 'c', 'a', 'b'] ['a', 'b'] 1)) sEx :=
  ⟨_, rfl, native_find_str (d0 := none) (st := some 1) rfl rfl rfl rfl rfl⟩
example : Seq.find ['a', 'b', 'c', 'a', 'b'] ['a', 'b'] 1 = 3 := by decide
example : ∃ m, callPure "find" [("obj", .ref 0), ("part", .dec 40 1)] none q0 = some m ∧
    m sEx = .ok (.int (Seq.findList (fun y z => rveq sEx y z) [.int 10, .int 20, .int 30] (.dec 40 1) 0)) sEx :=
  ⟨_, rfl, native_find_list (d0 := none) (st := none) rfl rfl cell_l rfl rfl rfl⟩
example : ∃ m, callPure "find_last" [("obj", .str ['a', 'b', 'c', 'a', 'b']), ("part", .str ['a', 'b'])] none q0
      = some m ∧ m sEx = .ok (.int (Seq.findLast ['a', 'b', 'c', 'a', 'b'] ['a', 'b'] none)) sEx :=
  ⟨_, rfl, (native_find_last_str (d0 := none) (st := none) rfl rfl rfl rfl rfl).1⟩
example : ∃ m, callPure "find_last" [("obj", .ref 0), ("part", .int 20), ("start", .int 5)] none q0 = some m ∧
    m sEx = .ok (.int (Seq.findLastList (fun y z => rveq sEx y z) [.int 10, .int 20, .int 30] (.int 20) (some 5))) sEx :=
  ⟨_, rfl, (native_find_last_list (d0 := none) (st := some 5) rfl rfl cell_l rfl rfl rfl).1⟩
example : ∃ m, callPure "insert_at" [("lst", .ref 0), ("index", .int (-1)), ("value", .int 5)] none q0 = some m ∧
    m sEx = .ok (.ref 0) (sEx.setCell 0 (.list (Seq.insertAt [.int 10, .int 20, .int 30] (-1) (.int 5)))) :=
  ⟨_, rfl, (native_insert_at (d0 := none) rfl rfl rfl rfl cell_l).1⟩
example : ∃ m, callPure "delete_at" [("lst", .ref 0), ("index", .int (-3))] none q0 = some m ∧
    m sEx = .ok ((Seq.deleteAt [RVal.int 10, .int 20, .int 30] (-3)).1.getD .null)
      (sEx.setCell 0 (.list (Seq.deleteAt [RVal.int 10, .int 20, .int 30] (-3)).2)) :=
  ⟨_, rfl, (native_delete_at (d0 := none) rfl rfl rfl cell_l).1⟩
example : ∃ m, callPure "length" [("obj", .ref 0)] none q0 = some m ∧ m sEx = .ok (.int 3) sEx :=
  ⟨_, rfl, native_length_list (d0 := none) rfl rfl cell_l⟩
example : ∃ m, callPure "add" [("a", .ref 0), ("b", .ref 0)] none q0 = some m ∧
    m sEx = .ok (.ref 2) (sEx.alloc (.list ([.int 10, .int 20, .int 30] ++ [.int 10, .int 20, .int 30]))).1 :=
  ⟨_, rfl, native_add_list (d0 := none) rfl rfl rfl cell_l cell_l⟩
-- call nodes
example : Ev ldEx 5 0 (.call (.ident "substr" q0) [none, none, none] [nS, nI, nJ] q0) sEx
    (.ok (.str (clampedRun ['a', 'b', 'c', 'a', 'b'] (-2) (some 7))) sEx) :=
  call_substr3 ldEx (k := 0) lk_substr (by trivial) (by trivial) (by trivial) (Ev.ident ldEx lk_s) (Ev.ident ldEx lk_i)
    (Ev.ident ldEx lk_j)
example : Ev ldEx 4 0 (.call (.ident "find" q0) [none, none] [nS, nT] q0) sEx
    (.ok (.int (Seq.find ['a', 'b', 'c', 'a', 'b'] ['a', 'b'] 0)) sEx) :=
  call_find_str ldEx (k := 0) lk_find (by trivial) (by trivial) (Ev.ident ldEx lk_s) (Ev.ident ldEx lk_t)
example : Ev ldEx 4 0 (.call (.ident "sublist" q0) [none, none] [nL, nI] q0) sEx
    (.ok (.ref 2) (sEx.alloc (.list (clampedRun [.int 10, .int 20, .int 30] (-2) none))).1) :=
  call_sublist2 ldEx (k := 0) lk_sublist (by trivial) (by trivial) (Ev.ident ldEx lk_l) (Ev.ident ldEx lk_i) cell_l

/-! §4 -/
-- `s[0 to i] + s[i to *] == s` with `i = -2`, and with `j = 7` (out of range): TRUE for every fuel ≥ 10
example : eval ldEx 10 0 (Parser.funcCallAB "equals"
    (Parser.funcCallAB "add" (.slice nS (.lit (.int 0) q0) nI q0) (.slice nS nI .absent q0) q0) nS q0) sEx
    = .ok (.bool true) sEx :=
  split_join_str ldEx (k := 0) lk_add lk_equals (Ev.ident ldEx lk_s) (Ev.ident ldEx lk_i) (by trivial) 10 (by omega)
example : eval ldEx 10 0 (Parser.funcCallAB "equals"
    (Parser.funcCallAB "add" (.slice nS (.lit (.int 0) q0) nJ q0) (.slice nS nJ .absent q0) q0) nS q0) sEx
    = .ok (.bool true) sEx :=
  split_join_str ldEx (k := 0) lk_add lk_equals (Ev.ident ldEx lk_s) (Ev.ident ldEx lk_j) (by trivial) 10 (by omega)
example : ∃ s', Ev ldEx 9 0 (Parser.funcCallAB "equals"
    (Parser.funcCallAB "add" (.slice nL (.lit (.int 0) q0) nI q0) (.slice nL nI .absent q0) q0) nL q0) sEx
    (.ok (.bool true) s') ∧ s'.cell 0 = some (.list [.int 10, .int 20, .int 30]) ∧
    s'.cell (sEx.heap.size + 2) = some (.list [.int 10, .int 20, .int 30]) := by
  obtain ⟨s', h, _, _, h2, h0, _, _, _⟩ := split_join_list ldEx (k := 0) (p0 := q0) (p1 := q0) (p2 := q0) (p3 := q0)
    (p4 := q0) (xs := [.int 10, .int 20, .int 30]) lk_add lk_equals
    (FrameConst.ident ldEx (p := q0) lk_l) (FrameConst.ident ldEx (p := q0) lk_i) (by trivial) cell_l
    (by intro x hx; simp at hx; rcases hx with rfl | rfl | rfl <;> trivial)
  exact ⟨s', h, h0, h2⟩
example : Ev ldEx 4 0 (.call (.ident "length" q0) [none] [.slice nS nJ nN q0] q0) sEx
    (.ok (.int (max 0 (sliceHi (['a', 'b', 'c', 'a', 'b'] : List Char).length (some 2)
      - sliceLo (['a', 'b', 'c', 'a', 'b'] : List Char).length 7))) sEx) :=
  length_slice_str ldEx (k := 0) lk_length (Ev.ident ldEx lk_s) (Ev.ident ldEx lk_j) (Ev.ident ldEx lk_n)
example : max 0 (sliceHi 5 (some 2) - sliceLo 5 7) = 0 := by decide
example : Ev ldEx 4 0 (.call (.ident "length" q0) [none] [.slice nL nI nJ q0] q0) sEx
    (.ok (.int (max 0 (sliceHi ([.int 10, .int 20, .int 30] : List RVal).length (some 7)
      - sliceLo ([.int 10, .int 20, .int 30] : List RVal).length (-2))))
      (sEx.alloc (.list (Seq.slice [.int 10, .int 20, .int 30] (-2) (some 7)))).1) :=
  length_slice_list ldEx (k := 0) lk_length (Ev.ident ldEx lk_l) (Ev.ident ldEx lk_i) (Ev.ident ldEx lk_j) cell_l
example : ∃ r : Int, (∃ m, callPure "find" [("obj", .str ['a', 'b']), ("part", .str ['c'])] none q0 = some m ∧
    m sEx = .ok (.int r) sEx) ∧ (r = -1 ↔ ¬ ['c'] <:+: ['a', 'b']) := by
  obtain ⟨r, h1, h2⟩ := find_neg_one_iff_not_infix (s := sEx) (d0 := none) (pos := q0)
    (args := [("obj", .str ['a', 'b']), ("part", .str ['c'])]) rfl rfl rfl rfl rfl
  exact ⟨r, ⟨_, rfl, h1⟩, h2⟩
example : ∃ b : Bool, (∃ m, callPure "contains" [("obj", .str ['a', 'b']), ("part", .str ['c'])] none q0 = some m ∧
    m sEx = .ok (.bool b) sEx) ∧ (b = true ↔ ['c'] <:+: ['a', 'b']) := by
  obtain ⟨b, h1, h2⟩ := contains_iff_infix (s := sEx) (d0 := none) (pos := q0)
    (args := [("obj", .str ['a', 'b']), ("part", .str ['c'])]) rfl rfl rfl
  exact ⟨b, ⟨_, rfl, h1⟩, h2⟩
-- `delete_at(insert_at(l, i, x), i)` with `i = -2` (in range) and `j = 7` (out of range): the state is back
example : Ev ldEx 9 0 (.call (.ident "delete_at" q0) [none, none]
    [.call (.ident "insert_at" q0) [none, none, none] [nL, nI, nX] q0, nI] q0) sEx (.ok (.str ['x']) sEx) :=
  delete_insert_restores ldEx (k := 0) (xs := [.int 10, .int 20, .int 30]) lk_insert_at lk_delete_at
    (Ev.ident ldEx lk_l) (FrameConst.ident ldEx lk_i) (Ev.ident ldEx lk_x) (by trivial) (by trivial) (by trivial) cell_l
example : Ev ldEx 9 0 (.call (.ident "delete_at" q0) [none, none]
    [.call (.ident "insert_at" q0) [none, none, none] [nL, nJ, nX] q0, nJ] q0) sEx (.ok .null sEx) :=
  delete_insert_restores ldEx (k := 0) (xs := [.int 10, .int 20, .int 30]) lk_insert_at lk_delete_at
    (Ev.ident ldEx lk_l) (FrameConst.ident ldEx lk_j) (Ev.ident ldEx lk_x) (by trivial) (by trivial) (by trivial) cell_l
example : rveq sEx (.node (.null q0)) (.node (.null q0)) = false := node_not_selfEq _ _

/-! 5b. whole programs: source text → `parseScript` → `interpretProg` on the initial state -/

def exSt0 : State × EnvId := initialState true modelledNatives

def runSrc (src : String) (fuel : Nat := 200) : String :=
  match parseScript src.toList "-" with
  | .error e => "syntax: " ++ e.msg
  | .ok n =>
    match interpretProg {} fuel exSt0.2 n exSt0.1 with
    | .ok v s => "ok " ++ (match rrender s v with | some t => String.ofList t | none => "?")
    | .err v m p t _ => "err " ++ (match v with | .str e => String.ofList e | _ => "?") ++ ": " ++ m ++ " @" ++
        toString p.line ++ ":" ++ toString p.col ++ " " ++ toString (t.map (·.1))
    | .fail f _ => "fail " ++ (match f with
        | .oof => "oof" | .unsupported w => "unsupported " ++ w | .host k => "host " ++ k | .syn e => "syn " ++ e.msg)


-- indexing: in range, negative, both boundary cases, out of range either way; default form; non-int indices
-- (the string index is the model's abstention `unsupported`, recorded, not claimed); slices with crossed and
-- out-of-range bounds; fresh slice cell (`append` to the slice leaves `l` alone); the natives; the identities
#guard runSrc "def s = 'abcab'; s[1]" == "ok 'b'"
#guard runSrc "def s = 'abcab'; s[-2]" == "ok 'a'"
#guard runSrc "def s = 'abcab'; s[-5]" == "ok 'a'"
#guard runSrc "def s = 'abcab'; s[5]" == "err ERROR: Index out of bounds @1:19 []"
#guard runSrc "def s = 'abcab'; s[-6]" == "err ERROR: Index out of bounds @1:19 []"
#guard runSrc "def l = [10, 20, 30]; l[-1]" == "ok 30"
#guard runSrc "def l = [10, 20, 30]; l[3]" == "err ERROR: Index out of bounds @1:24 []"
#guard runSrc "def l = [10, 20, 30]; l[-4]" == "err ERROR: Index out of bounds @1:24 []"
#guard runSrc "def s = 'abcab'; s[1, 'x']" == "err ERROR: Default value not allowed in string dereference @1:19 []"
#guard runSrc "def s = 'abcab'; s[TRUE]" == "ok 'b'"
#guard runSrc "def s = 'abcab'; s[2.9]" == "ok 'c'"
#guard runSrc "def s = 'abcab'; s[NULL]" == "err ERROR: Invalid index null @1:19 []"
#guard runSrc "def s = 'abcab'; s['1']" == "fail unsupported index given as string (int(str))"
#guard runSrc "NULL[3]" == "ok NULL"
#guard runSrc "def m = <<<'x' => 1>>>; m['x']" == "ok 1"
#guard runSrc "def m = <<<'x' => 1>>>; m['y']" == "err ERROR: Map does not contain key @1:26 []"
#guard runSrc "def m = <<<'x' => 1>>>; m['y', 7]" == "ok 7"
-- a literal cannot be indexed syntactically:
#guard runSrc "5[0]" == "syntax: Expected end of input but got '[ (interpunction)'"
#guard runSrc "def s = 'abcab'; s[1 to 3]" == "ok 'bc'"
#guard runSrc "def s = 'abcab'; s[-2 to 7]" == "ok 'ab'"
#guard runSrc "def s = 'abcab'; s[3 to 1]" == "ok ''"
#guard runSrc "def s = 'abcab'; s[-9 to -7]" == "ok ''"
#guard runSrc "def s = 'abcab'; s[2 to *]" == "ok 'cab'"
#guard runSrc "def s = 'abcab'; s[-1 to 2]" == "ok ''"
#guard runSrc "def l = [10, 20, 30]; l[1 to *]" == "ok [20, 30]"
#guard runSrc "def l = [10, 20, 30]; def m = l[0 to 5]; append(m, 4); [l, m]" == "ok [[10, 20, 30], [10, 20, 30, 4]]"
#guard runSrc "def l = [10, 20, 30]; l[2 to 1]" == "ok []"
#guard runSrc "<<1, 2>>[0 to 1]" == "err ERROR: Cannot slice @1:9 []"
#guard runSrc "substr('abcab', 1, 3)" == "ok 'bc'"
#guard runSrc "substr('abcab', -2)" == "ok 'ab'"
#guard runSrc "substr('abcab', 4, 2)" == "ok ''"
#guard runSrc "substr('abcab', 9)" == "ok ''"
#guard runSrc "sublist([10, 20, 30], -2, 9)" == "ok [20, 30]"
#guard runSrc "sublist([10, 20, 30], 2, 1)" == "ok []"
#guard runSrc "sublist('abc', 1)" == "err ERROR: List required but got string @1:8 [sublist]"
#guard runSrc "find('abcab', 'ab')" == "ok 0"
#guard runSrc "find('abcab', 'ab', start = 1)" == "ok 3"
#guard runSrc "find('abcab', 'ab', start = -9)" == "ok 0"
#guard runSrc "find('abcab', 'x')" == "ok -1"
#guard runSrc "find('abcab', 'ab', 1)" == "fail unsupported find with key"
#guard runSrc "find_last('abcab', 'ab')" == "ok 3"
#guard runSrc "find_last('abcab', 'ab', start = 2)" == "ok 0"
#guard runSrc "find([1, 2, 1, 2], 2.0)" == "ok 1"
#guard runSrc "find_last([1, 2, 1, 2], 1)" == "ok 2"
#guard runSrc "find([1, 2], 3)" == "ok -1"
#guard runSrc "def l = [1, 2, 3]; insert_at(l, 1, 9); l" == "ok [1, 9, 2, 3]"
#guard runSrc "def l = [1, 2, 3]; insert_at(l, -1, 9); l" == "ok [1, 2, 3, 9]"
#guard runSrc "def l = [1, 2, 3]; insert_at(l, 7, 9); l" == "ok [1, 2, 3]"
#guard runSrc "def l = [1, 2, 3]; [delete_at(l, -3), l]" == "ok [1, [2, 3]]"
#guard runSrc "def l = [1, 2, 3]; [delete_at(l, 3), l]" == "ok [NULL, [1, 2, 3]]"
#guard runSrc "length('abcab') + length([1, 2])" == "ok 7"
#guard runSrc "'ab' + 'cd'" == "ok 'abcd'"
#guard runSrc "def a = [1]; def b = [2]; def c = a + b; [a, b, c]" == "ok [[1], [2], [1, 2]]"
#guard runSrc "def s = 'abcab'; s[0 to 2] + s[2 to *] == s" == "ok TRUE"
#guard runSrc "def s = 'abcab'; s[0 to -2] + s[-2 to *] == s" == "ok TRUE"
#guard runSrc "def s = 'abcab'; s[0 to 9] + s[9 to *] == s" == "ok TRUE"
#guard runSrc "def s = 'abcab'; s[0 to -9] + s[-9 to *] == s" == "ok TRUE"
#guard runSrc "def l = [10, 20, 30]; l[0 to -1] + l[-1 to *] == l" == "ok TRUE"
#guard runSrc "def l = [10, 20, 30]; l[0 to 7] + l[7 to *] == l" == "ok TRUE"
#guard runSrc "length('abcab'[3 to 1])" == "ok 0"
#guard runSrc "length('abcab'[-4 to 9])" == "ok 4"
#guard runSrc "length([10, 20, 30][1 to 2])" == "ok 1"
#guard runSrc "[find('abcab', 'ca') == -1, contains('abcab', 'ca'), find('abcab', 'x') == -1, contains('abcab', 'x')]" == "ok [FALSE, TRUE, TRUE, FALSE]"
#guard runSrc "def l = [1, 2, 3]; [delete_at(insert_at(l, -2, 9), -2), l]" == "ok [9, [1, 2, 3]]"
#guard runSrc "def l = [1, 2, 3]; [delete_at(insert_at(l, 8, 9), 8), l]" == "ok [NULL, [1, 2, 3]]"
#guard runSrc "def l = [1, 2, 3]; [delete_at(insert_at(l, 0, 9), 0), l]" == "ok [9, [1, 2, 3]]"

end nonvacuity

end Ckl.C15Eval
