import CklVerif.Lemmas.C13NoHost

/-!
  C04 helper library (structured control flow): evaluation of the trivial nodes used in the
  non-vacuity examples, the "neither break nor continue" predicate, the absorption lemma of
  every loop function (induction on the fuel), the shape of `evalFor`, and the unfolding of a
  closure call.
-/
namespace Ckl.C04
variable (ld : Loader)

/-! ### evaluation of trivial nodes (used for concrete instances) -/

theorem eval_lit_bool (fuel env b p s) :
    eval ld (fuel+1) env (.lit (.bool b) p) s = .ok (.bool b) s := by rw [eval]; rfl
theorem eval_lit_int (fuel env n p s) :
    eval ld (fuel+1) env (.lit (.int n) p) s = .ok (.int n) s := by rw [eval]; rfl
theorem eval_lit_str (fuel env t p s) :
    eval ld (fuel+1) env (.lit (.str t) p) s = .ok (.str t) s := by rw [eval]; rfl
theorem eval_brk (fuel env p s) : eval ld (fuel+1) env (.brk p) s = .ok (.brk p) s := by
  rw [eval]; rfl
theorem eval_cont (fuel env p s) : eval ld (fuel+1) env (.cont p) s = .ok (.cont p) s := by
  rw [eval]; rfl
theorem eval_ret_absent (fuel env p s) :
    eval ld (fuel+1) env (.ret .absent p) s = .ok (.ret .null p) s := by rw [eval]; rfl

theorem cellOf_ref (a : Nat) (s : State) : cellOf (.ref a) s = .ok (s.cell a) s := rfl

/-! ### values that are neither `break` nor `continue` -/

/-- a value that is neither the `break` nor the `continue` signal -/
def NoBC (v : RVal) : Prop := ¬ v.isBreak ∧ ¬ v.isContinue

theorem NoBC_true : NoBC (.bool true) := by simp [NoBC, RVal.isBreak, RVal.isContinue]

theorem NoBC_of_isReturn {r : RVal} (h : r.isReturn = true) : NoBC r := by
  cases r <;> simp_all [NoBC, RVal.isBreak, RVal.isContinue, RVal.isReturn]

/-! ### every loop function absorbs `break` and `continue` -/

theorem forItems_absorbs : ∀ (fuel : Nat) (env : EnvId) (ids : List String) (xs : List RVal)
    (body : Node) (result : RVal) (pos : Pos) (s : State) (v : RVal) (s' : State),
    forItems ld fuel env ids xs body result pos s = .ok v s' → NoBC result → NoBC v := by
  intro fuel
  induction fuel with
  | zero => intro env ids xs body result pos s v s' h; rw [forItems] at h; cases h
  | succ fuel ih =>
    intro env ids xs body result pos s v s' h hres
    cases xs with
    | nil => rw [forItems] at h; cases h; exact hres
    | cons x xs =>
      rw [forItems, EvalM.bind_apply] at h
      cases hb : bindLoopVars env ids x pos s with
      | err => rw [hb] at h; cases h
      | fail => rw [hb] at h; cases h
      | ok u s1 =>
        rw [hb] at h; dsimp only at h
        rw [EvalM.bind_apply] at h
        cases he : eval ld fuel env body s1 with
        | err => rw [he] at h; cases h
        | fail => rw [he] at h; cases h
        | ok r s2 =>
          rw [he] at h; dsimp only at h
          split at h
          · cases h; exact NoBC_true
          · split at h
            · cases h; exact NoBC_of_isReturn ‹_›
            · split at h
              · exact ih _ _ _ _ _ _ _ _ _ h NoBC_true
              · exact ih _ _ _ _ _ _ _ _ _ h ⟨‹_›, ‹_›⟩

theorem forListLive_absorbs : ∀ (fuel : Nat) (env : EnvId) (ids : List String) (a i : Nat)
    (body : Node) (result : RVal) (pos : Pos) (s : State) (v : RVal) (s' : State),
    forListLive ld fuel env ids a i body result pos s = .ok v s' → NoBC result → NoBC v := by
  intro fuel
  induction fuel with
  | zero => intro env ids a i body result pos s v s' h; rw [forListLive] at h; cases h
  | succ fuel ih =>
    intro env ids a i body result pos s v s' h hres
    rw [forListLive, EvalM.bind_apply] at h
    simp only [getS] at h
    have key : ∀ xs, s.cell a = some (.list xs) → NoBC v := by
      intro xs hcell
      simp only [hcell] at h
      cases hx : xs[i]? with
      | none => simp only [hx] at h; cases h; exact hres
      | some x =>
        simp only [hx] at h
        rw [EvalM.bind_apply] at h
        cases hb : bindLoopVars env ids x pos s with
        | err => rw [hb] at h; cases h
        | fail => rw [hb] at h; cases h
        | ok u s1 =>
          rw [hb] at h; dsimp only at h
          rw [EvalM.bind_apply] at h
          cases he : eval ld fuel env body s1 with
          | err => rw [he] at h; cases h
          | fail => rw [he] at h; cases h
          | ok r s2 =>
            rw [he] at h; dsimp only at h
            split at h
            · cases h; exact NoBC_true
            · split at h
              · cases h; exact NoBC_of_isReturn ‹_›
              · split at h
                · exact ih _ _ _ _ _ _ _ _ _ _ h NoBC_true
                · exact ih _ _ _ _ _ _ _ _ _ _ h ⟨‹_›, ‹_›⟩
    cases hcell : s.cell a with
    | none => simp only [hcell] at h; cases h; exact hres
    | some c =>
      cases c with
      | list xs => exact key xs hcell
      | _ => simp only [hcell] at h; cases h; exact hres

theorem forString_absorbs : ∀ (fuel : Nat) (env : EnvId) (x : String) (cs : List Char)
    (body : Node) (result : RVal) (s : State) (v : RVal) (s' : State),
    forString ld fuel env x cs body result s = .ok v s' → NoBC result → NoBC v := by
  intro fuel
  induction fuel with
  | zero => intro env x cs body result s v s' h; rw [forString] at h; cases h
  | succ fuel ih =>
    intro env x cs body result s v s' h hres
    cases cs with
    | nil => rw [forString] at h; cases h; exact hres
    | cons c cs =>
      rw [forString, EvalM.bind_apply] at h
      simp only [modifyS] at h
      rw [EvalM.bind_apply] at h
      cases he : eval ld fuel env body (s.put env x (.str [c])) with
      | err => rw [he] at h; cases h
      | fail => rw [he] at h; cases h
      | ok r s2 =>
        rw [he] at h; dsimp only at h
        split at h
        · cases h; exact NoBC_true
        · split at h
          · cases h; exact NoBC_of_isReturn ‹_›
          · rw [EvalM.bind_apply] at h
            simp only [modifyS] at h
            refine ih _ _ _ _ _ _ _ _ h ?_
            split
            · exact NoBC_true
            · exact ⟨‹_›, ‹_›⟩

theorem whileLoop_absorbs : ∀ (fuel : Nat) (env : EnvId) (c body : Node) (pos : Pos)
    (s : State) (v : RVal) (s' : State),
    whileLoop ld fuel env c body pos s = .ok v s' → NoBC v := by
  intro fuel
  induction fuel with
  | zero => intro env c body pos s v s' h; rw [whileLoop] at h; cases h
  | succ fuel ih =>
    intro env c body pos s v s' h
    rw [whileLoop, EvalM.bind_apply] at h
    cases he : eval ld fuel env body s with
    | err => rw [he] at h; cases h
    | fail => rw [he] at h; cases h
    | ok r s2 =>
      rw [he] at h; dsimp only at h
      split at h
      · cases h; exact NoBC_true
      · split at h
        · cases h; exact NoBC_of_isReturn ‹_›
        · rw [EvalM.bind_apply] at h
          cases hc : eval ld fuel env c s2 with
          | err => rw [hc] at h; cases h
          | fail => rw [hc] at h; cases h
          | ok b s3 =>
            rw [hc] at h; dsimp only at h
            cases b with
            | bool b =>
              cases b with
              | true => exact ih _ _ _ _ _ _ _ h
              | false =>
                dsimp only at h
                cases h
                split
                · exact NoBC_true
                · exact ⟨‹_›, ‹_›⟩
            | _ => cases h

/-! ### `evalFor`: the loop result is handed through unchanged -/

/-- `k` can only hand back the value it was given -/
def Keeps (k : RVal → EvalM RVal) : Prop := ∀ r s1 v s', k r s1 = .ok v s' → v = r

theorem bind_keeps {m : EvalM RVal} {k : RVal → EvalM RVal} {s : State} {v : RVal} {s' : State}
    (hk : Keeps k) (h : (m >>= k) s = .ok v s') : ∃ s1, m s = .ok v s1 := by
  rw [EvalM.bind_apply] at h
  cases hm : m s with
  | err => rw [hm] at h; cases h
  | fail => rw [hm] at h; cases h
  | ok r s1 =>
    rw [hm] at h; dsimp only at h
    cases hk _ _ _ _ h
    exact ⟨s1, rfl⟩

theorem keeps_remove (c : Bool) (env : EnvId) (ids : List String) :
    Keeps (fun r => if c = true then pure r else do removeVars env ids; pure r) := by
  intro r s1 v s' h
  cases c with
  | true => cases h; rfl
  | false => cases h; rfl

theorem keeps_list (a : Nat) (env : EnvId) (ids : List String) :
    Keeps (fun r => do
      let c ← cellOf (RVal.ref a)
      match c with
        | some (Cell.list xs) => if xs.isEmpty = true then pure r else do removeVars env ids; pure r
        | _ => pure r) := by
  intro r s1 v s' h
  dsimp only at h
  rw [EvalM.bind_apply, cellOf_ref] at h
  dsimp only at h
  cases hc : s1.cell a with
  | none => rw [hc] at h; cases h; rfl
  | some c =>
    rw [hc] at h
    cases c with
    | list xs => exact keeps_remove _ env ids _ _ _ _ h
    | _ => cases h; rfl

theorem evalFor_absorbs {fuel env ids e body what pos s v s'}
    (h : evalFor ld fuel env ids e body what pos s = .ok v s') : NoBC v := by
  cases fuel with
  | zero => rw [evalFor] at h; cases h
  | succ fuel =>
    rw [evalFor, EvalM.bind_apply] at h
    cases he : eval ld fuel env e s with
    | err => rw [he] at h; cases h
    | fail => rw [he] at h; cases h
    | ok lst s1 =>
      rw [he] at h; dsimp only at h
      cases lst with
      | str cs => exact forString_absorbs ld _ _ _ _ _ _ _ _ _ h NoBC_true
      | ref a =>
        dsimp only at h
        rw [EvalM.bind_apply, cellOf_ref] at h
        dsimp only at h
        cases hc : s1.cell a with
        | none => rw [hc] at h; cases h
        | some c =>
          rw [hc] at h
          cases c with
          | list xs =>
            obtain ⟨s2, h2⟩ := bind_keeps (keeps_list a env ids) h
            exact forListLive_absorbs ld _ _ _ _ _ _ _ _ _ _ _ h2 NoBC_true
          | set xs =>
            dsimp only at h
            rw [EvalM.bind_apply] at h
            simp only [getS] at h
            cases hs : sortedR s1 xs with
            | none => rw [hs] at h; cases h
            | some ys =>
              rw [hs] at h
              obtain ⟨s2, h2⟩ := bind_keeps (keeps_remove _ env ids) h
              exact forItems_absorbs ld _ _ _ _ _ _ _ _ _ _ h2 NoBC_true
          | map kvs =>
            dsimp only at h
            rw [EvalM.bind_apply] at h
            simp only [getS] at h
            cases hs : sortedEntriesR s1 kvs with
            | none => rw [hs] at h; cases h
            | some es =>
              rw [hs] at h
              dsimp only at h
              rw [EvalM.bind_apply] at h
              split at h
              · obtain ⟨s2, h2⟩ := bind_keeps (keeps_remove _ env ids) h
                exact forItems_absorbs ld _ _ _ _ _ _ _ _ _ _ h2 NoBC_true
              · cases h
              · cases h
          | obj kvs m =>
            dsimp only at h
            rw [EvalM.bind_apply] at h
            split at h
            · obtain ⟨s2, h2⟩ := bind_keeps (keeps_remove _ env ids) h
              exact forItems_absorbs ld _ _ _ _ _ _ _ _ _ _ h2 NoBC_true
            · cases h
            · cases h
          | closure => cases h
      | _ => cases h

/-! ### `mapM` of a pure function -/

theorem mapM_pure {α} (f : α → RVal) (xs : List α) (s : State) :
    (xs.mapM (fun x => (pure (f x) : EvalM RVal))) s = .ok (xs.map f) s := by
  induction xs generalizing s with
  | nil => rfl
  | cons x xs ih =>
    rw [List.mapM_cons, EvalM.bind_apply, EvalM.pure_apply]
    dsimp only
    rw [EvalM.bind_apply, ih]; rfl

/-! ### a closure call, unfolded -/

/-- `FuncLambda.execute`: new frame under the closure's environment, parameters bound, body
    evaluated in the new frame, and the result post-processed (`return v` unwrapped, stray
    `break`/`continue` turned into a runtime error). -/
theorem callFn_closure {fuel a bound env pos s cenv params defaults body name s1}
    (hcell : s.cell a = some (.closure cenv params defaults body name))
    (hbind : bindParams ld fuel (s.frames.size) params defaults bound pos (s.newEnv cenv).1 = .ok () s1) :
    callFn ld (fuel+1) (.closure a) bound env pos s =
      match eval ld fuel (s.frames.size) body s1 with
      | .ok (.ret v _) s' => .ok v s'
      | .ok (.brk p) s' => throwE "Cannot use break without surrounding loop" p s'
      | .ok (.cont p) s' => throwE "Cannot use continue without surrounding loop" p s'
      | .ok v s' => .ok v s'
      | .err v m p t s' => .err v m p t s'
      | .fail f s' => .fail f s' := by
  rw [callFn, EvalM.bind_apply]
  simp only [getS, hcell]
  rw [EvalM.bind_apply]
  show (bindParams ld fuel (s.frames.size) params defaults bound pos >>= _) (s.newEnv cenv).1 = _
  rw [EvalM.bind_apply, hbind]
  dsimp only
  rw [EvalM.bind_apply]
  have : (s.newEnv cenv).snd = s.frames.size := rfl
  rw [this]
  cases eval ld fuel (s.frames.size) body s1 with
  | ok r s' => cases r <;> rfl
  | err v m p t s' => rfl
  | fail f s' => rfl

end Ckl.C04
