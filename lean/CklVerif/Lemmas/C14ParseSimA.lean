/-
  C14 / C20 (parser half) — simulation lemmas, part A: the operator tower
  (`pOr … pPred`, their loops, and the `is …` predicates).
-/
import CklVerif.Lemmas.C14ParseHyp
namespace Ckl.C14P
open Ckl Ckl.Parser

local notation "kw" => (some TokType.keyword)
local notation "ip" => (some TokType.interpunction)
local notation "op" => (some TokType.operator)
local notation "idt" => (some TokType.identifier)

set_option linter.unusedSimpArgs false
set_option linter.unusedVariables false

variable {f : Pos → Pos}

theorem sim_pOr {c c' : Ctx} {st st' : St} (H : Hyp f (st.toks.length * 16 + 9)) (hc : CRel f c c')
    (hs : SRel f st st') : ERel f (OLt f (NR f)) (pOr c st) (pOr c' st') := by
  rw [pOr, pOr]
  ebind (H.pAnd hc hs (by omega)) with e s1 h1 s1' h1' hs1
  simp only [peekn_rel hs1, posNext_rel hs1]
  bif hb : s1.peekn 1 c!"or" kw
  · ebind (H.orLoop hc hs1 (by simp [LR]) (by omega)) with es s2 h2 s2' h2' hs2
    exact ⟨by simp [NR, mapPos], hs2⟩
  · exact ⟨rfl, hs1⟩

theorem sim_orLoop {c c' : Ctx} {st st' : St} {acc acc' : List Node} (H : Hyp f (st.toks.length * 16 + 0))
    (hc : CRel f c c') (hs : SRel f st st') (ha : LR f acc acc') :
    ERel f (OLe f (LR f)) (orLoop c st acc) (orLoop c' st' acc') := by
  rw [orLoop, orLoop]
  mif hs c!"or" kw with s1 h1 s1' h1' hs1
  · exact ⟨ha, hs⟩
  · ebind (H.pAnd hc hs1 (by omega)) with e s2 h2 s2' h2' hs2
    ebind (H.orLoop hc hs2 (by subst ha; simp [LR]) (by omega)) with r s3 h3 s3' h3' hs3
    exact ⟨rfl, hs3⟩

theorem sim_pAnd {c c' : Ctx} {st st' : St} (H : Hyp f (st.toks.length * 16 + 8)) (hc : CRel f c c')
    (hs : SRel f st st') : ERel f (OLt f (NR f)) (pAnd c st) (pAnd c' st') := by
  rw [pAnd, pAnd]
  ebind (H.pNot hc hs (by omega)) with e s1 h1 s1' h1' hs1
  simp only [peekn_rel hs1, posNext_rel hs1]
  bif hb : s1.peekn 1 c!"and" kw
  · ebind (H.andLoop hc hs1 (by simp [LR]) (by omega)) with es s2 h2 s2' h2' hs2
    exact ⟨by simp [NR, mapPos], hs2⟩
  · exact ⟨rfl, hs1⟩

theorem sim_andLoop {c c' : Ctx} {st st' : St} {acc acc' : List Node} (H : Hyp f (st.toks.length * 16 + 0))
    (hc : CRel f c c') (hs : SRel f st st') (ha : LR f acc acc') :
    ERel f (OLe f (LR f)) (andLoop c st acc) (andLoop c' st' acc') := by
  rw [andLoop, andLoop]
  mif hs c!"and" kw with s1 h1 s1' h1' hs1
  · exact ⟨ha, hs⟩
  · ebind (H.pNot hc hs1 (by omega)) with e s2 h2 s2' h2' hs2
    ebind (H.andLoop hc hs2 (by subst ha; simp [LR]) (by omega)) with r s3 h3 s3' h3' hs3
    exact ⟨rfl, hs3⟩

theorem sim_pNot {c c' : Ctx} {st st' : St} (H : Hyp f (st.toks.length * 16 + 7)) (hc : CRel f c c')
    (hs : SRel f st st') : ERel f (OLt f (NR f)) (pNot c st) (pNot c' st') := by
  rw [pNot, pNot]
  mif hs c!"not" kw with s1 h1 s1' h1' hs1
  · exact H.pRel hc hs (by omega)
  · ebind (H.pRel hc hs1 (by omega)) with e s2 h2 s2' h2' hs2
    exact ⟨by simp [NR, mapPos, hs1.prev], hs2⟩

theorem sim_pRel {c c' : Ctx} {st st' : St} (H : Hyp f (st.toks.length * 16 + 6)) (hc : CRel f c c')
    (hs : SRel f st st') : ERel f (OLt f (NR f)) (pRel c st) (pRel c' st') := by
  rw [pRel, pRel]
  ebind (H.pAdd hc hs (by omega)) with e s1 h1 s1' h1' hs1
  simp only [relGuard_rel hs1, posNext_rel hs1]
  bif hb : (!relGuard s1)
  · exact ⟨rfl, hs1⟩
  · ebind (H.relLoop hc hs1 rfl rfl (by omega)) with cmps s2 h2 s2' h2' hs2
    refine ⟨?_, hs2⟩
    rcases cmps with _ | ⟨x, _ | ⟨y, l⟩⟩ <;> simp [NR, mapPos]

theorem sim_relLoop {c c' : Ctx} {st st' : St} {lhs lhs' : Node} {acc acc' : List Node}
    (H : Hyp f (st.toks.length * 16 + 0)) (hc : CRel f c c') (hs : SRel f st st') (hl : NR f lhs lhs')
    (ha : LR f acc acc') : ERel f (OLe f (LR f)) (relLoop c st lhs acc) (relLoop c' st' lhs' acc') := by
  rw [relLoop, relLoop]
  refine ERel.bind (relopNext_rel hc hs) ?_
  rintro (_ | ⟨relop, s1, h1⟩) (_ | ⟨relop', s1', h1'⟩) hr
  · exact ⟨ha, hs⟩
  · exact hr.elim
  · exact hr.elim
  · obtain ⟨rfl, hs1⟩ := hr
    dsimp only at hs1
    ebind (H.pAdd hc hs1 (by omega)) with rhs s2 h2 s2' h2' hs2
    ebind (H.relLoop hc hs2 rfl (by subst ha hl; simp [LR, mapPos_relCmp, hs1.prev]) (by omega)) with r s3 h3 s3' h3' hs3
    exact ⟨rfl, hs3⟩

theorem sim_pAdd {c c' : Ctx} {st st' : St} (H : Hyp f (st.toks.length * 16 + 5)) (hc : CRel f c c')
    (hs : SRel f st st') : ERel f (OLt f (NR f)) (pAdd c st) (pAdd c' st') := by
  rw [pAdd, pAdd]
  ebind (H.pMul hc hs (by omega)) with e s1 h1 s1' h1' hs1
  ebind (H.addLoop hc hs1 rfl (by omega)) with r s2 h2 s2' h2' hs2
  exact ⟨rfl, hs2⟩

theorem sim_addLoop {c c' : Ctx} {st st' : St} {e e' : Node} (H : Hyp f (st.toks.length * 16 + 0))
    (hc : CRel f c c') (hs : SRel f st st') (he : NR f e e') :
    ERel f (OLe f (NR f)) (addLoop c st e) (addLoop c' st' e') := by
  rw [addLoop, addLoop]
  mtab (matchOpTable_cases hs addOps) with fn s1 h1 s1' h1' hs1
  · exact ⟨he, hs⟩
  · ebind (H.pMul hc hs1 (by omega)) with r s2 h2 s2' h2' hs2
    ebind (H.addLoop hc hs2 (by subst he; simp [NR, mapPos_funcCallAB, hs1.prev]) (by omega)) with x s3 h3 s3' h3' hs3
    exact ⟨rfl, hs3⟩

theorem sim_pMul {c c' : Ctx} {st st' : St} (H : Hyp f (st.toks.length * 16 + 4)) (hc : CRel f c c')
    (hs : SRel f st st') : ERel f (OLt f (NR f)) (pMul c st) (pMul c' st') := by
  rw [pMul, pMul]
  ebind (H.pUnary hc hs (by omega)) with e s1 h1 s1' h1' hs1
  ebind (H.mulLoop hc hs1 rfl (by omega)) with r s2 h2 s2' h2' hs2
  exact ⟨rfl, hs2⟩

theorem sim_mulLoop {c c' : Ctx} {st st' : St} {e e' : Node} (H : Hyp f (st.toks.length * 16 + 0))
    (hc : CRel f c c') (hs : SRel f st st') (he : NR f e e') :
    ERel f (OLe f (NR f)) (mulLoop c st e) (mulLoop c' st' e') := by
  rw [mulLoop, mulLoop]
  mtab (matchOpTable_cases hs mulOps) with fn s1 h1 s1' h1' hs1
  · exact ⟨he, hs⟩
  · ebind (H.pUnary hc hs1 (by omega)) with r s2 h2 s2' h2' hs2
    ebind (H.mulLoop hc hs2 (by subst he; simp [NR, mapPos_funcCallAB, hs1.prev]) (by omega)) with x s3 h3 s3' h3' hs3
    exact ⟨rfl, hs3⟩

theorem sim_pUnary {c c' : Ctx} {st st' : St} (H : Hyp f (st.toks.length * 16 + 3)) (hc : CRel f c c')
    (hs : SRel f st st') : ERel f (OLt f (NR f)) (pUnary c st) (pUnary c' st') := by
  rw [pUnary, pUnary]
  mif hs c!"+" op with s1 h1 s1' h1' hs1
  · mif hs c!"-" op with s1 h1 s1' h1' hs1
    · exact H.pPred false hc hs (by omega)
    · refine ERel.bind (peek_rel hc hs1) ?_
      rintro t _ rfl
      simp only [tokMap_type]
      bif hb : (t.type == .int || t.type == .decimal)
      · ebind (H.pPred true hc hs1 (by omega)) with e s2 h2 s2' h2' hs2
        exact ⟨rfl, hs2⟩
      · ebind (H.pPred false hc hs1 (by omega)) with e s2 h2 s2' h2' hs2
        exact ⟨by simp [NR, mapPos, hs1.prev], hs2⟩
  · exact ERel_wkLt (H.pPred false hc hs1 (by omega))

theorem sim_optPrimary {c c' : Ctx} {st st' : St} {d d' : Node} (word : List Char)
    (H : Hyp f (st.toks.length * 16 + 12)) (hc : CRel f c c') (hs : SRel f st st') (hd : NR f d d') :
    ERel f (OLe f (NR f)) (optPrimary c word d st) (optPrimary c' word d' st') := by
  rw [optPrimary, optPrimary]
  mif hs word idt with s1 h1 s1' h1' hs1
  · exact ⟨hd, hs⟩
  · exact ERel_ltLe (H.pPrimary false hc hs1 (by omega))

theorem sim_pCollectMinMax {c c' : Ctx} {st st' : St} {e e' : Node} (fn : String) (pos : Pos)
    (H : Hyp f (st.toks.length * 16 + 13)) (hc : CRel f c c') (hs : SRel f st st') (he : NR f e e') :
    ERel f (OLe f (NR f)) (pCollectMinMax c fn e pos st) (pCollectMinMax c' fn e' (f pos) st') := by
  rw [pCollectMinMax, pCollectMinMax]
  ebind (H.optPrimary _ hc hs (by simp [NR, mapPos]) (by omega)) with mn s1 h1 s1' h1' hs1
  ebind (H.optPrimary _ hc hs1 (by simp [NR, mapPos]) (by omega)) with mx s2 h2 s2' h2' hs2
  mif hs2 c!"exact_len" idt with s3 h3 s3' h3' hs3
  · exact ⟨by subst he; simp [NR, mapPos_funcCall3], hs2⟩
  · ebind (H.pPrimary false hc hs3 (by omega)) with x s4 h4 s4' h4' hs4
    exact ⟨by subst he; simp [NR, mapPos_funcCall3], hs4⟩

theorem sim_applyIsPred {c c' : Ctx} {st st' : St} {e e' : Node} (p : IsPred) (pos : Pos)
    (H : Hyp f (st.toks.length * 16 + 14)) (hc : CRel f c c') (hs : SRel f st st') (he : NR f e e') :
    ERel f (OLe f (NR f)) (applyIsPred c p e pos st) (applyIsPred c' p e' (f pos) st') := by
  rw [applyIsPred.eq_def c, applyIsPred.eq_def c']
  subst he
  cases p with
  | isIn =>
    ebind (H.pPrimary false hc hs (by omega)) with r s1 h1 s1' h1' hs1
    exact ⟨by simp [NR, mapPos], hs1⟩
  | simple fn => exact ⟨by simp [NR, mapPos_funcCallObj], hs⟩
  | minmax fn => exact H.pCollectMinMax fn pos hc hs (by simp [NR, mapPos_funcCallObj]) (by omega)
  | valid fn fmt => exact ⟨by simp [NR, mapPos_funcCallObj, mapPos_funcCall2, mapPos_strLit], hs⟩
  | type name => exact ⟨by simp [NR, mapPos_funcCallObj, mapPos_funcCallAB, mapPos_strLit], hs⟩

theorem sim_pPred {c c' : Ctx} {st st' : St} (um : Bool) (H : Hyp f (st.toks.length * 16 + 2)) (hc : CRel f c c')
    (hs : SRel f st st') : ERel f (OLt f (NR f)) (pPred c um st) (pPred c' um st') := by
  rw [pPred, pPred]
  ebind (H.pPrimary um hc hs (by omega)) with e s1 h1 s1' h1' hs1
  simp only [posNext_rel hs1]
  mif hs1 c!"is" kw with s2 h2 s2' h2' hs2
  · mtab (binPredTable_cases hs1) with p s2 h2 s2' h2' hs2
    · exact ⟨rfl, hs1⟩
    · cases p with
      | isIn neg =>
        ebind (H.pPrimary false hc hs2 (by omega)) with r s3 h3 s3' h3' hs3
        refine ⟨?_, hs3⟩
        cases neg <;> simp [NR, mapPos]
      | call neg fn a b =>
        ebind (H.pPrimary false hc hs2 (by omega)) with r s3 h3 s3' h3' hs3
        refine ⟨?_, hs3⟩
        cases neg <;> simp [NR, mapPos, mapPos_funcCall2]
  · mif hs2 c!"not" kw with s3 h3 s3' h3' hs3
    · mtab (isPredTable_cases hs2 false) with p s4 h4 s4' h4' hs4
      · exact ⟨rfl, hs1⟩
      · ebind (H.applyIsPred p _ hc hs4 rfl (by omega)) with n s5 h5 s5' h5' hs5
        exact ⟨rfl, hs5⟩
    · mtab (isPredTable_cases hs3 true) with p s4 h4 s4' h4' hs4
      · exact ⟨rfl, hs1⟩
      · ebind (H.applyIsPred p _ hc hs4 rfl (by omega)) with n s5 h5 s5' h5' hs5
        exact ⟨by simp [NR, mapPos], hs5⟩

end Ckl.C14P
