import CklVerif.Lemmas.C14EvalStep6

/-! C14 (evaluator part) — induction step for `eval`: lambda, `for`, blocks -/
namespace Ckl.C14E
open Ckl
set_option linter.unusedVariables false

variable {ld : Loader} {fuel : Nat}

theorem eval_lambda_step1 (ih : SAll ld fuel) (env : EnvId) {ps : List String} {ds : List Node} {b : Node} {p : Pos} :
    Resp (eval ld (fuel + 1) env (Node.lambda ps ds b p)) (eval ld (fuel + 1) env (ers (Node.lambda ps ds b p))) := by
  simp only [ers_simp]
  unfold Ckl.eval
  constructor
  intro s s' hs
  have h1 : ers (s.alloc (.closure env ps ds b "lambda")).1 =
      ers (s'.alloc (.closure env ps (ers ds) (ers b) "lambda")).1 := by
    rw [alloc_ers, alloc_ers, hs]
    simp only [ers_simp]
  show ers (Out.ok (RVal.closure (s.alloc (.closure env ps ds b "lambda")).2) (s.alloc (.closure env ps ds b "lambda")).1) =
    ers (Out.ok (RVal.closure (s'.alloc (.closure env ps (ers ds) (ers b) "lambda")).2)
      (s'.alloc (.closure env ps (ers ds) (ers b) "lambda")).1)
  simp only [ers_ok, h1, alloc_snd, heap_size_congr hs, ers_vclosure]

@[ers_simp] theorem hiddenVars_ers (s : State) (env : EnvId) (ids : List String) :
    ers (hiddenVars s env ids) = hiddenVars (ers s) env ids := by
  induction ids with
  | nil => rfl
  | cons x ids ih =>
    simp only [hiddenVars, List.filterMap_cons, frame_ers, ers_frame_vars] at ih ⊢
    rw [← dictGet_ers']
    cases dictGet x (s.frame env).vars with
    | none => exact ih
    | some v => simp only [ers_some, Option.map_some, ers_cons, ers_pair, ers_string, ih]

@[ers_simp] theorem restoreVars_ers (env : EnvId) (h : List (String × RVal)) (s : State) :
    ers (restoreVars env h s) = restoreVars env (ers h) (ers s) := by
  simp only [restoreVars, foldl_put_ers]

theorem eval_for_step1 (ih : SAll ld fuel) (env : EnvId) {ids : List String} {e body : Node} {what : String} {p : Pos} :
    Resp (eval ld (fuel + 1) env (Node.for ids e body what p)) (eval ld (fuel + 1) env (ers (Node.for ids e body what p))) := by
  simp only [ers_simp]
  unfold Ckl.eval
  constructor
  intro s s' hs
  have h := (ih.evalFor env ids what (p := p) (p' := default) (show ers e = ers (ers e) by ers_tac)
    (show ers body = ers (ers body) by ers_tac)).run s s' hs
  dsimp only
  generalize evalFor ld fuel env ids e body what p s = o at h ⊢
  generalize evalFor ld fuel env ids (ers e) (ers body) what default s' = o' at h ⊢
  rcases Out.sim_cases h with ⟨a, a', s2, s2', rfl, rfl, h1, h2⟩ |
    ⟨v, v', m, q, q', t, t', s2, s2', rfl, rfl, h1, h2, h3⟩ | ⟨f, f', s2, s2', rfl, rfl, h1, h2⟩
  · simp only [ers_ok, h1, restoreVars_ers, hiddenVars_ers, hs, h2]
  · simp only [ers_err, h1, restoreVars_ers, hiddenVars_ers, hs, foldl_remove_ers, h3, ers_trace h2]
  · cases f <;> cases f' <;> first
      | exact h
      | (have h1' : (Fail.syn _) = Fail.syn _ := h1
         cases h1'
         simp only [ers_fail, restoreVars_ers, hiddenVars_ers, hs, foldl_remove_ers, h2]
         done)
      | (exfalso; revert h1; show (_ : Fail) = _ → False; intro h1; cases h1; done)


theorem fin_sim {α : Type} [Ers α] {o o' : Out Unit} (ho : ers o = ers o') {k k' : State → Out α}
    (hk : ∀ s s', ers s = ers s' → ers (k s) = ers (k' s')) :
    ers (match o with
      | .ok _ s'' => k s''
      | .err v2 m2 p2 t2 s'' => .err v2 m2 p2 t2 s''
      | .fail f s'' => .fail f s'' : Out α) =
    ers (match o' with
      | .ok _ s'' => k' s''
      | .err v2 m2 p2 t2 s'' => .err v2 m2 p2 t2 s''
      | .fail f s'' => .fail f s'' : Out α) := by
  rcases Out.sim_cases ho with ⟨a, a', s2, s2', rfl, rfl, h1, h2⟩ |
    ⟨v, v', m, q, q', t, t', s2, s2', rfl, rfl, h1, h2, h3⟩ | ⟨f, f', s2, s2', rfl, rfl, h1, h2⟩
  · exact hk _ _ h2
  · simp only [ers_err, h1, h3, ers_trace h2]
  · simp only [ers_fail, h1, h2]

theorem block_fin_sim (o o' : Out RVal) (ho : ers o = ers o') (fin fin' : State → Out Unit) (g g' : State → State)
    (hf : ∀ s s', ers s = ers s' → ers (fin (g s)) = ers (fin' (g' s'))) :
    ers (match (generalizing := false) o with
    | .ok v s' =>
      match fin (g s') with
      | .ok _ s'' => .ok v s''
      | .err v2 m2 p2 t2 s'' => .err v2 m2 p2 t2 s''
      | .fail f s'' => .fail f s''
    | .err v m p t s' =>
      match fin (g s') with
      | .ok _ s'' => .err v m p t s''
      | .err v2 m2 p2 t2 s'' => .err v2 m2 p2 t2 s''
      | .fail f s'' => .fail f s''
    | .fail (.syn e) s' =>
      match fin (g s') with
      | .ok _ s'' => .fail (.syn e) s''
      | .err v2 m2 p2 t2 s'' => .err v2 m2 p2 t2 s''
      | .fail f s'' => .fail f s''
    | .fail (.host k) s' =>
      match fin (g s') with
      | .ok _ s'' => .fail (.host k) s''
      | .err v2 m2 p2 t2 s'' => .err v2 m2 p2 t2 s''
      | .fail f s'' => .fail f s''
    | .fail f s' => .fail f s' : Out RVal) =
    ers (match (generalizing := false) o' with
    | .ok v s' =>
      match fin' (g' s') with
      | .ok _ s'' => .ok v s''
      | .err v2 m2 p2 t2 s'' => .err v2 m2 p2 t2 s''
      | .fail f s'' => .fail f s''
    | .err v m p t s' =>
      match fin' (g' s') with
      | .ok _ s'' => .err v m p t s''
      | .err v2 m2 p2 t2 s'' => .err v2 m2 p2 t2 s''
      | .fail f s'' => .fail f s''
    | .fail (.syn e) s' =>
      match fin' (g' s') with
      | .ok _ s'' => .fail (.syn e) s''
      | .err v2 m2 p2 t2 s'' => .err v2 m2 p2 t2 s''
      | .fail f s'' => .fail f s''
    | .fail (.host k) s' =>
      match fin' (g' s') with
      | .ok _ s'' => .fail (.host k) s''
      | .err v2 m2 p2 t2 s'' => .err v2 m2 p2 t2 s''
      | .fail f s'' => .fail f s''
    | .fail f s' => .fail f s' : Out RVal) := by
  rcases Out.sim_cases ho with ⟨a, a', s2, s2', rfl, rfl, h1, h2⟩ |
    ⟨v, v', m, q, q', t, t', s2, s2', rfl, rfl, h1, h2, h3⟩ | ⟨f, f', s2, s2', rfl, rfl, h1, h2⟩
  · exact fin_sim (hf _ _ h2) (fun t t' ht => by simp only [ers_ok, h1, ht])
  · exact fin_sim (hf _ _ h3) (fun t t' ht => by simp only [ers_err, h1, ht, ers_trace h2])
  · rcases Fail.sim_cases h1 with ⟨rfl, rfl⟩ | ⟨w, w', rfl, rfl⟩ | ⟨k, rfl, rfl⟩ | ⟨e, rfl, rfl⟩
    · exact ho
    · exact ho
    · exact fin_sim (hf _ _ h2) (fun t t' ht => by simp only [ers_fail, ht])
    · exact fin_sim (hf _ _ h2) (fun t t' ht => by simp only [ers_fail, ht])

theorem eval_block_step1 (ih : SAll ld fuel) (env : EnvId) {es ce ch fin : List Node} {tl : Bool} {p : Pos} :
    Resp (eval ld (fuel + 1) env (Node.block es ce ch fin tl p))
      (eval ld (fuel + 1) env (ers (Node.block es ce ch fin tl p))) := by
  simp only [ers_simp]
  unfold Ckl.eval
  constructor
  intro s s' hs
  dsimp only
  have hb := (ih.evalBody env (l := .bool true) (l' := .bool true) (show ers es = ers (ers es) by ers_tac) rfl).run
    (ghostEnter s p) (ghostEnter s' default) (by simp only [ghostEnter_ers, hs])
  have hf : ∀ t t', ers t = ers t' → ers (evalFinally ld fuel env fin (ghostFin t p)) =
      ers (evalFinally ld fuel env (ers fin) (ghostFin t' default)) := fun t t' ht =>
    (ih.evalFinally env (show ers fin = ers (ers fin) by ers_tac)).run _ _ (by simp only [ghostFin_ers, ht])
  refine block_fin_sim _ _ ?_ (evalFinally ld fuel env fin) (evalFinally ld fuel env (ers fin))
    (fun t => ghostFin t p) (fun t => ghostFin t default) hf
  generalize evalBody ld fuel env es (.bool true) (ghostEnter s p) = r at hb ⊢
  generalize evalBody ld fuel env (ers es) (.bool true) (ghostEnter s' default) = r' at hb ⊢
  rcases Out.sim_cases hb with ⟨a, a', s2, s2', rfl, rfl, h1, h2⟩ |
    ⟨v, v', m, q, q', t, t', s2, s2', rfl, rfl, h1, h2, h3⟩ | ⟨f, f', s2, s2', rfl, rfl, h1, h2⟩
  · exact hb
  · exact (ih.tryHandlers env m (show ers ce = ers (ers ce) by ers_tac) (show ers ch = ers (ers ch) by ers_tac) h1 h2).run
      _ _ h3
  · exact hb

end Ckl.C14E
