/-
  C09 (evaluator level): every modelled pure native (`callPure`) preserves the invariant and
  returns a clean value.
-/
import CklVerif.Lemmas.C09EvalNatives2
import CklVerif.Lemmas.C09EvalNatives3
namespace Ckl.C09E
open Ckl

variable {E : List String} {b : Bool}

theorem Pres.callPure (name : String) (args : List (String × RVal)) (d : Option RVal) (pos : Pos)
    (m : EvalM RVal) (h : callPure name args d pos = some m) (ha : Cl.cl E args) (hd : Cl.cl E d) :
    Pres E b m := by
  by_cases hA : name ∈ groupA
  · exact callPure_groupA name args d pos m h hA ha hd
  by_cases hB : name ∈ groupB
  · exact callPure_groupB name args d pos m h hB ha
  by_cases hC : name ∈ groupC
  · exact callPure_groupC name args d pos m h hC ha
  by_cases hD : name ∈ groupD
  · exact callPure_groupD name args d pos m h hD ha
  -- a name in none of the groups: `callPure` hands over to `callDate` (`date`, `int`, `decimal` of a date)
  refine Pres.callDate name args pos m ?_
  unfold Ckl.callPure at h
  split at h
  all_goals first
    | (exact h)
    | (exfalso; simp only [groupA, groupB, groupC, groupD, List.mem_cons, List.mem_nil_iff, String.reduceEq, or_false,
        or_true, not_true_eq_false] at hA hB hC hD)

macro_rules
  | `(tactic| pa_lemma) =>
    `(tactic| ((with_reducible refine Pres.callPure _ _ _ _ _ (by assumption) ?_ ?_) <;> cl_try))

end Ckl.C09E
