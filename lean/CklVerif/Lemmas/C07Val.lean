/-
  Helper lemmas for C07 (value part, continued): lifting the atomic order facts through lists by
  mutual structural recursion.
-/
import CklVerif.Lemmas.C07Ord

namespace Ckl

theorem natListLt_irrefl (a : List Nat) : natListLt a a = false := by
  apply Bool.eq_false_iff.mpr
  rw [Ne, natListLt_iff_lt]
  exact lt_irrefl _

theorem strLt_irrefl (s : List Char) : strLt s s = false := by
  rw [strLt_eq_natListLt]; exact natListLt_irrefl _

mutual
  theorem SameKind_symm : ∀ a b : Val, SameKind a b → SameKind b a
    | .list xs, b, h => by
      cases b <;> simp only [SameKind] at h ⊢
      exact SameKindL_symm xs _ h
    | .null, b, h => by cases b <;> simp [SameKind] at h
    | .bool _, b, h => by cases b <;> simp [SameKind] at h ⊢
    | .int _, b, h => by cases b <;> simp [SameKind] at h ⊢
    | .dec _ _, b, h => by cases b <;> simp [SameKind] at h ⊢
    | .str _, b, h => by cases b <;> simp [SameKind] at h ⊢
    | .pat _, b, h => by cases b <;> simp [SameKind] at h ⊢
    | .date _, b, h => by cases b <;> simp [SameKind] at h ⊢
    | .set _, b, h => by cases b <;> simp [SameKind] at h
    | .map _, b, h => by cases b <;> simp [SameKind] at h
  theorem SameKindL_symm : ∀ xs ys : List Val, SameKindL xs ys → SameKindL ys xs
    | [], ys, _ => by cases ys <;> simp [SameKindL]
    | _ :: _, [], _ => by simp [SameKindL]
    | x :: xs, y :: ys, h => by
      simp only [SameKindL] at h ⊢
      exact ⟨SameKind_symm x y h.1, SameKindL_symm xs ys h.2⟩
end

section
variable (dr : DecRenderer)

/-! ### irreflexivity holds for all values, whatever their kind -/

mutual
  theorem vlt_irrefl_all : ∀ a : Val, vltWith dr a a = false
    | .null => by simp [vltWith, strLt_irrefl]
    | .bool b => by cases b <;> simp [vltWith]
    | .int n => by simp [vltWith]
    | .dec m e => by simp [vltWith, numLt]
    | .str s => by simp [vltWith, strLt_irrefl]
    | .pat s => by simp [vltWith, strLt_irrefl]
    | .date d => by simp [vltWith, DT.lt, natListLt_irrefl]
    | .list xs => by simp only [vltWith]; exact vltL_irrefl_all xs
    | .set xs => by simp [vltWith, strLt_irrefl]
    | .map kvs => by simp [vltWith, strLt_irrefl]
  theorem vltL_irrefl_all : ∀ xs : List Val, vltL dr xs xs = false
    | [] => by simp [vltL]
    | x :: xs => by simp [vltL, veq_refl', vltL_irrefl_all xs]
end

/-! ### atoms, seen from both sides -/

theorem atom_asymm {a b : Val} (hab : SameKind a b) (ha : isListV a = false)
    (h : vltWith dr a b = true) : vltWith dr b a = false := by
  have hb := isListV_of_sameKind hab ha
  rw [vlt_atom_iff dr hab ha] at h
  apply Bool.eq_false_iff.mpr
  rw [Ne, vlt_atom_iff dr (SameKind_symm _ _ hab) hb]
  exact lt_asymm h

theorem atom_total' {a b : Val} (hab : SameKind a b) (ha : isListV a = false)
    (h1 : veq a b = false) (h2 : vltWith dr a b = false) : vltWith dr b a = true := by
  have hb := isListV_of_sameKind hab ha
  rcases atom_total dr hab ha with (h | h) | ⟨-, -, h⟩
  · rw [h2] at h; exact absurd h Bool.false_ne_true
  · rw [h1] at h; exact absurd h Bool.false_ne_true
  · exact (vlt_atom_iff dr (SameKind_symm _ _ hab) hb).mpr h

/-! ### congruence: `veq`-equal values are interchangeable on either side of `<` -/

mutual
  theorem vlt_congr_left : ∀ a b c : Val, SameKind a b → SameKind a c → SameKind b c →
      veq a b = true → vltWith dr a c = vltWith dr b c
    | .list xs, b, c, hab, hac, hbc, h => by
      cases b <;> simp only [SameKind] at hab
      cases c <;> simp only [SameKind] at hac
      simp only [SameKind] at hbc
      simp only [veq] at h
      simp only [vltWith]
      exact vltL_congr_left xs _ _ hab hac hbc h
    | .null, _, _, hab, hac, hbc, h => atom_congr_left dr hab hac hbc rfl h
    | .bool _, _, _, hab, hac, hbc, h => atom_congr_left dr hab hac hbc rfl h
    | .int _, _, _, hab, hac, hbc, h => atom_congr_left dr hab hac hbc rfl h
    | .dec _ _, _, _, hab, hac, hbc, h => atom_congr_left dr hab hac hbc rfl h
    | .str _, _, _, hab, hac, hbc, h => atom_congr_left dr hab hac hbc rfl h
    | .pat _, _, _, hab, hac, hbc, h => atom_congr_left dr hab hac hbc rfl h
    | .date _, _, _, hab, hac, hbc, h => atom_congr_left dr hab hac hbc rfl h
    | .set _, _, _, hab, hac, hbc, h => atom_congr_left dr hab hac hbc rfl h
    | .map _, _, _, hab, hac, hbc, h => atom_congr_left dr hab hac hbc rfl h
  theorem vltL_congr_left : ∀ xs ys zs : List Val, SameKindL xs ys → SameKindL xs zs →
      SameKindL ys zs → veqL xs ys = true → vltL dr xs zs = vltL dr ys zs
    | [], [], _, _, _, _, _ => rfl
    | [], _ :: _, _, _, _, _, h => by simp [veqL] at h
    | _ :: _, [], _, _, _, _, h => by simp [veqL] at h
    | _ :: _, _ :: _, [], _, _, _, _ => by simp [vltL]
    | x :: xs, y :: ys, z :: zs, hab, hac, hbc, h => by
      simp only [SameKindL] at hab hac hbc
      simp only [veqL, Bool.and_eq_true] at h
      simp only [vltL]
      rw [veq_congr_left h.1 z, vlt_congr_left x y z hab.1 hac.1 hbc.1 h.1,
        vltL_congr_left xs ys zs hab.2 hac.2 hbc.2 h.2]
end

mutual
  theorem vlt_congr_right : ∀ a b c : Val, SameKind a b → SameKind a c → SameKind b c →
      veq b c = true → vltWith dr a b = vltWith dr a c
    | .list xs, b, c, hab, hac, hbc, h => by
      cases b <;> simp only [SameKind] at hab
      cases c <;> simp only [SameKind] at hac
      simp only [SameKind] at hbc
      simp only [veq] at h
      simp only [vltWith]
      exact vltL_congr_right xs _ _ hab hac hbc h
    | .null, _, _, hab, hac, hbc, h => atom_congr_right dr hab hac hbc rfl h
    | .bool _, _, _, hab, hac, hbc, h => atom_congr_right dr hab hac hbc rfl h
    | .int _, _, _, hab, hac, hbc, h => atom_congr_right dr hab hac hbc rfl h
    | .dec _ _, _, _, hab, hac, hbc, h => atom_congr_right dr hab hac hbc rfl h
    | .str _, _, _, hab, hac, hbc, h => atom_congr_right dr hab hac hbc rfl h
    | .pat _, _, _, hab, hac, hbc, h => atom_congr_right dr hab hac hbc rfl h
    | .date _, _, _, hab, hac, hbc, h => atom_congr_right dr hab hac hbc rfl h
    | .set _, _, _, hab, hac, hbc, h => atom_congr_right dr hab hac hbc rfl h
    | .map _, _, _, hab, hac, hbc, h => atom_congr_right dr hab hac hbc rfl h
  theorem vltL_congr_right : ∀ xs ys zs : List Val, SameKindL xs ys → SameKindL xs zs →
      SameKindL ys zs → veqL ys zs = true → vltL dr xs ys = vltL dr xs zs
    | _, [], [], _, _, _, _ => rfl
    | _, [], _ :: _, _, _, _, h => by simp [veqL] at h
    | _, _ :: _, [], _, _, _, h => by simp [veqL] at h
    | [], _ :: _, _ :: _, _, _, _, _ => by simp [vltL]
    | x :: xs, y :: ys, z :: zs, hab, hac, hbc, h => by
      simp only [SameKindL] at hab hac hbc
      simp only [veqL, Bool.and_eq_true] at h
      simp only [vltL]
      rw [veq_congr_right h.1 x, vlt_congr_right x y z hab.1 hac.1 hbc.1 h.1,
        vltL_congr_right xs ys zs hab.2 hac.2 hbc.2 h.2]
end

/-! ### equal values are not ordered -/

mutual
  theorem vlt_veq_not_lt : ∀ a b : Val, SameKind a b → veq a b = true → vltWith dr a b = false
    | .list xs, b, hab, h => by
      cases b <;> simp only [SameKind] at hab
      simp only [veq] at h
      simp only [vltWith]
      exact vltL_veq_not_lt xs _ hab h
    | .null, _, hab, h => atom_veq_not_lt dr hab rfl h
    | .bool _, _, hab, h => atom_veq_not_lt dr hab rfl h
    | .int _, _, hab, h => atom_veq_not_lt dr hab rfl h
    | .dec _ _, _, hab, h => atom_veq_not_lt dr hab rfl h
    | .str _, _, hab, h => atom_veq_not_lt dr hab rfl h
    | .pat _, _, hab, h => atom_veq_not_lt dr hab rfl h
    | .date _, _, hab, h => atom_veq_not_lt dr hab rfl h
    | .set _, _, hab, h => atom_veq_not_lt dr hab rfl h
    | .map _, _, hab, h => atom_veq_not_lt dr hab rfl h
  theorem vltL_veq_not_lt : ∀ xs ys : List Val, SameKindL xs ys → veqL xs ys = true →
      vltL dr xs ys = false
    | [], [], _, _ => rfl
    | [], _ :: _, _, h => by simp [veqL] at h
    | _ :: _, [], _, h => by simp [veqL] at h
    | x :: xs, y :: ys, hab, h => by
      simp only [SameKindL] at hab
      simp only [veqL, Bool.and_eq_true] at h
      simp only [vltL, h.1, ↓reduceIte]
      exact vltL_veq_not_lt xs ys hab.2 h.2
end

/-! ### asymmetry -/

mutual
  theorem vlt_asymm' : ∀ a b : Val, SameKind a b → vltWith dr a b = true →
      vltWith dr b a = false
    | .list xs, b, hab, h => by
      cases b <;> simp only [SameKind] at hab
      simp only [vltWith] at h ⊢
      exact vltL_asymm' xs _ hab h
    | .null, _, hab, h => atom_asymm dr hab rfl h
    | .bool _, _, hab, h => atom_asymm dr hab rfl h
    | .int _, _, hab, h => atom_asymm dr hab rfl h
    | .dec _ _, _, hab, h => atom_asymm dr hab rfl h
    | .str _, _, hab, h => atom_asymm dr hab rfl h
    | .pat _, _, hab, h => atom_asymm dr hab rfl h
    | .date _, _, hab, h => atom_asymm dr hab rfl h
    | .set _, _, hab, h => atom_asymm dr hab rfl h
    | .map _, _, hab, h => atom_asymm dr hab rfl h
  theorem vltL_asymm' : ∀ xs ys : List Val, SameKindL xs ys → vltL dr xs ys = true →
      vltL dr ys xs = false
    | [], [], _, _ => rfl
    | [], _ :: _, _, _ => by simp [vltL]
    | _ :: _, [], _, h => by simp [vltL] at h
    | x :: xs, y :: ys, hab, h => by
      simp only [SameKindL] at hab
      simp only [vltL] at h ⊢
      rw [veq_symm' y x]
      cases hxy : veq x y with
      | true =>
        rw [hxy] at h
        simp only [↓reduceIte] at h ⊢
        exact vltL_asymm' xs ys hab.2 h
      | false =>
        rw [hxy] at h
        simp only [Bool.false_eq_true, ↓reduceIte] at h ⊢
        exact vlt_asymm' x y hab.1 h
end

/-! ### transitivity -/

mutual
  theorem vlt_trans' : ∀ a b c : Val, SameKind a b → SameKind a c → SameKind b c →
      vltWith dr a b = true → vltWith dr b c = true → vltWith dr a c = true
    | .list xs, b, c, hab, hac, hbc, h1, h2 => by
      cases b <;> simp only [SameKind] at hab
      cases c <;> simp only [SameKind] at hac
      simp only [SameKind] at hbc
      simp only [vltWith] at h1 h2 ⊢
      exact vltL_trans' xs _ _ hab hac hbc h1 h2
    | .null, _, _, hab, hac, hbc, h1, h2 => atom_trans dr hab hac hbc rfl h1 h2
    | .bool _, _, _, hab, hac, hbc, h1, h2 => atom_trans dr hab hac hbc rfl h1 h2
    | .int _, _, _, hab, hac, hbc, h1, h2 => atom_trans dr hab hac hbc rfl h1 h2
    | .dec _ _, _, _, hab, hac, hbc, h1, h2 => atom_trans dr hab hac hbc rfl h1 h2
    | .str _, _, _, hab, hac, hbc, h1, h2 => atom_trans dr hab hac hbc rfl h1 h2
    | .pat _, _, _, hab, hac, hbc, h1, h2 => atom_trans dr hab hac hbc rfl h1 h2
    | .date _, _, _, hab, hac, hbc, h1, h2 => atom_trans dr hab hac hbc rfl h1 h2
    | .set _, _, _, hab, hac, hbc, h1, h2 => atom_trans dr hab hac hbc rfl h1 h2
    | .map _, _, _, hab, hac, hbc, h1, h2 => atom_trans dr hab hac hbc rfl h1 h2
  theorem vltL_trans' : ∀ xs ys zs : List Val, SameKindL xs ys → SameKindL xs zs →
      SameKindL ys zs → vltL dr xs ys = true → vltL dr ys zs = true → vltL dr xs zs = true
    | [], ys, [], _, _, _, _, h2 => by cases ys <;> simp [vltL] at h2
    | [], _, _ :: _, _, _, _, _, _ => by simp [vltL]
    | _ :: _, [], _, _, _, _, h1, _ => by simp [vltL] at h1
    | _ :: _, _ :: _, [], _, _, _, _, h2 => by simp [vltL] at h2
    | x :: xs, y :: ys, z :: zs, hab, hac, hbc, h1, h2 => by
      simp only [SameKindL] at hab hac hbc
      simp only [vltL] at h1 h2 ⊢
      cases hxy : veq x y <;> cases hyz : veq y z <;> rw [hxy] at h1 <;> rw [hyz] at h2 <;>
        simp only [Bool.false_eq_true, ↓reduceIte] at h1 h2
      · have h3 := vlt_trans' x y z hab.1 hac.1 hbc.1 h1 h2
        have hxz : veq x z = false := by
          cases hxz : veq x z with
          | false => rfl
          | true =>
            rw [vlt_veq_not_lt dr x z hac.1 hxz] at h3
            exact absurd h3 Bool.false_ne_true
        rw [hxz]; simp only [Bool.false_eq_true, ↓reduceIte]; exact h3
      · have hxz : veq x z = false := by rw [← veq_congr_right hyz x]; exact hxy
        rw [hxz]; simp only [Bool.false_eq_true, ↓reduceIte]
        rw [← vlt_congr_right dr x y z hab.1 hac.1 hbc.1 hyz]; exact h1
      · have hxz : veq x z = false := by rw [veq_congr_left hxy z]; exact hyz
        rw [hxz]; simp only [Bool.false_eq_true, ↓reduceIte]
        rw [vlt_congr_left dr x y z hab.1 hac.1 hbc.1 hxy]; exact h2
      · have hxz : veq x z = true := veq_trans' _ _ _ hxy hyz
        rw [hxz]; simp only [↓reduceIte]
        exact vltL_trans' xs ys zs hab.2 hac.2 hbc.2 h1 h2
end

/-! ### totality -/

mutual
  theorem vlt_total' : ∀ a b : Val, SameKind a b → veq a b = false → vltWith dr a b = false →
      vltWith dr b a = true
    | .list xs, b, hab, h1, h2 => by
      cases b <;> simp only [SameKind] at hab
      simp only [veq] at h1
      simp only [vltWith] at h2 ⊢
      exact vltL_total' xs _ hab h1 h2
    | .null, _, hab, h1, h2 => atom_total' dr hab rfl h1 h2
    | .bool _, _, hab, h1, h2 => atom_total' dr hab rfl h1 h2
    | .int _, _, hab, h1, h2 => atom_total' dr hab rfl h1 h2
    | .dec _ _, _, hab, h1, h2 => atom_total' dr hab rfl h1 h2
    | .str _, _, hab, h1, h2 => atom_total' dr hab rfl h1 h2
    | .pat _, _, hab, h1, h2 => atom_total' dr hab rfl h1 h2
    | .date _, _, hab, h1, h2 => atom_total' dr hab rfl h1 h2
    | .set _, _, hab, h1, h2 => atom_total' dr hab rfl h1 h2
    | .map _, _, hab, h1, h2 => atom_total' dr hab rfl h1 h2
  theorem vltL_total' : ∀ xs ys : List Val, SameKindL xs ys → veqL xs ys = false →
      vltL dr xs ys = false → vltL dr ys xs = true
    | [], [], _, h1, _ => by simp [veqL] at h1
    | [], _ :: _, _, _, h2 => by simp [vltL] at h2
    | _ :: _, [], _, _, _ => by simp [vltL]
    | x :: xs, y :: ys, hab, h1, h2 => by
      simp only [SameKindL] at hab
      simp only [vltL] at h2 ⊢
      simp only [veqL] at h1
      rw [veq_symm' y x]
      cases hxy : veq x y with
      | true =>
        rw [hxy] at h1 h2
        simp only [↓reduceIte, Bool.true_and] at h1 h2 ⊢
        exact vltL_total' xs ys hab.2 h1 h2
      | false =>
        rw [hxy] at h2
        simp only [Bool.false_eq_true, ↓reduceIte] at h2 ⊢
        exact vlt_total' x y hab.1 hxy h2
end

end
end Ckl
