/-
  C11 (binding part) — the scope of a module's top-level code (`moduleStart`): a new frame whose
  parent is the base frame; the binding tails as state extensions; reading a two-frame chain.
-/
import CklVerif.Lemmas.C11BindStages
namespace Ckl.C11B
open Ckl Ckl.C05 Ckl.C03

/-! ### the base frame -/

/-- walking up from a frame with fewer than `n` ancestors ends at a frame without parent, which
    is not above the start -/
theorem baseF_spec {s : State} (wf : ParentsSmaller s) :
    ∀ (n : Nat) (e : Nat), e < n → (s.frame (s.baseF n e)).parent = none ∧ s.baseF n e ≤ e := by
  intro n
  induction n with
  | zero => intro e h; omega
  | succ n ih =>
    intro e he
    simp only [State.baseF]
    cases hp : (s.frame e).parent with
    | none => exact ⟨hp, Nat.le_refl _⟩
    | some p =>
      have hlt := wf e p hp
      obtain ⟨h1, h2⟩ := ih p (by omega)
      exact ⟨h1, Nat.le_trans h2 (Nat.le_of_lt hlt)⟩

/-- `getBase()` of an existing frame: a parentless frame, not above it -/
theorem base_spec {s : State} (wf : ParentsSmaller s) {e : Nat} (he : e < s.frames.size) :
    (s.frame (s.base e)).parent = none ∧ s.base e ≤ e :=
  baseF_spec wf _ e (by omega)

/-- a frame that has a parent is not its own base -/
theorem base_ne_of_parent {s : State} (wf : ParentsSmaller s) {e p : Nat}
    (hp : (s.frame e).parent = some p) : s.base e ≠ e := by
  have he : e < s.frames.size := lt_size_of_parent hp
  intro heq
  have := (base_spec wf he).1
  rw [heq, hp] at this; cases this

/-! ### the state in which module code starts -/

theorem moduleStart_size (s : State) (env : EnvId) (ident : String) :
    (moduleStart s env ident).frames.size = s.frames.size + 1 := newEnv_frames_size s _

theorem moduleStart_frame_new (s : State) (env : EnvId) (ident : String) :
    (moduleStart s env ident).frame s.frames.size = { vars := [], parent := some (s.base env) } :=
  newEnv_frame_new s _

theorem moduleStart_frame_old (s : State) (env : EnvId) (ident : String) {e : Nat}
    (h : e < s.frames.size) : (moduleStart s env ident).frame e = s.frame e :=
  newEnv_frame_old s _ h

theorem moduleStart_fext (s : State) (env : EnvId) (ident : String) : FExt s (moduleStart s env ident) :=
  (fext_newEnv s _).trans (fext_of_eq rfl rfl)

theorem moduleStart_modules (s : State) (env : EnvId) (ident : String) :
    (moduleStart s env ident).modules = s.modules := rfl

theorem moduleStart_modstack (s : State) (env : EnvId) (ident : String) :
    (moduleStart s env ident).modstack = s.modstack ++ [ident] := rfl

theorem moduleStart_heap (s : State) (env : EnvId) (ident : String) :
    (moduleStart s env ident).heap = s.heap := rfl

/-! ### reading a chain of exactly two frames -/

theorem lookup_two_frames {t : State} {menv base : Nat} (x : String)
    (h1 : (t.frame menv).parent = some base) (h2 : (t.frame base).parent = none) :
    t.lookup menv x = (dictGet x (t.frame menv).vars).or (dictGet x (t.frame base).vars) := by
  have hsz : 1 ≤ t.frames.size := by
    have := lt_size_of_parent h1; omega
  obtain ⟨k, hk⟩ : ∃ k, t.frames.size + 1 = k + 2 := ⟨t.frames.size - 1, by omega⟩
  unfold State.lookup
  rw [hk]
  simp only [State.lookupF, h1, h2]
  cases dictGet x (t.frame menv).vars with
  | some v => rfl
  | none =>
    cases dictGet x (t.frame base).vars with
    | some w => rfl
    | none => rfl

/-! ### the binding tails extend the state and touch nothing but frame `env` and the heap top -/

theorem bindUnqS_fext (env menv : EnvId) (s : State) : FExt s (bindUnqS env menv s) := by
  rw [bindUnqS_eq]; exact putAll_fext _ _ _

theorem bindImportS_fext (env menv : EnvId) (table : List (String × String)) (s : State) :
    FExt s (bindImportS env menv table s) := by
  rw [bindImportS_eq]; exact putAll_fext _ _ _

theorem bindPlainS_fext (env menv : EnvId) (name : String) (s : State) :
    FExt s (bindPlainS env menv name s) :=
  (fext_alloc s _).trans (fext_put _ _ _ _)

theorem bindS_fext (env menv : EnvId) (name : String) (unq : Bool)
    (syms : Option (List (String × String))) (s : State) : FExt s (bindS env menv name unq syms s) := by
  unfold bindS
  split
  · exact bindUnqS_fext _ _ _
  · split
    · exact bindImportS_fext _ _ _ _
    · exact bindPlainS_fext _ _ _ _

theorem bindS_modules (env menv : EnvId) (name : String) (unq : Bool)
    (syms : Option (List (String × String))) (s : State) :
    (bindS env menv name unq syms s).modules = s.modules := by
  unfold bindS
  split
  · rw [bindUnqS_eq]; exact (putAll_same _ _ _).modules
  · split
    · rw [bindImportS_eq]; exact (putAll_same _ _ _).modules
    · rfl

theorem bindS_modstack (env menv : EnvId) (name : String) (unq : Bool)
    (syms : Option (List (String × String))) (s : State) :
    (bindS env menv name unq syms s).modstack = s.modstack := by
  unfold bindS
  split
  · rw [bindUnqS_eq]; exact (putAll_same _ _ _).modstack
  · split
    · rw [bindImportS_eq]; exact (putAll_same _ _ _).modstack
    · rfl

theorem bindS_ghost (env menv : EnvId) (name : String) (unq : Bool)
    (syms : Option (List (String × String))) (s : State) :
    (bindS env menv name unq syms s).ghost = s.ghost := by
  unfold bindS
  split
  · rw [bindUnqS_eq]; exact (putAll_same _ _ _).ghost
  · split
    · rw [bindImportS_eq]; exact (putAll_same _ _ _).ghost
    · rfl

/-- no binding tail touches a frame other than the importer's -/
theorem bindS_frame_other (env menv : EnvId) (name : String) (unq : Bool)
    (syms : Option (List (String × String))) (s : State) {e : Nat} (h : e ≠ env) :
    (bindS env menv name unq syms s).frame e = s.frame e := by
  unfold bindS
  split
  · rw [bindUnqS_eq]; exact putAll_frame_other _ _ _ h
  · split
    · rw [bindImportS_eq]; exact putAll_frame_other _ _ _ h
    · exact frame_put_other _ _ _ h

end Ckl.C11B
