/-
  Helper lemmas for C06: `veq` is reflexive, symmetric, transitive (mutual structural recursion
  over the nested inductive `Val`).
-/
import CklVerif.Lemmas.C06Num

namespace Ckl

mutual
  theorem veq_refl' : ∀ a : Val, veq a a = true
    | .null => by simp [veq]
    | .bool _ => by simp [veq]
    | .int _ => by simp [veq]
    | .dec m e => by simp [veq, numEq_refl]
    | .str _ => by simp [veq]
    | .pat _ => by simp [veq]
    | .date _ => by simp [veq]
    | .list xs => by simp only [veq]; exact veqL_refl' xs
    | .set xs => by simp only [veq]; exact veqL_refl' xs
    | .map kvs => by simp only [veq]; exact veqM_refl' kvs
  theorem veqL_refl' : ∀ xs : List Val, veqL xs xs = true
    | [] => by simp [veqL]
    | x :: xs => by simp [veqL, veq_refl' x, veqL_refl' xs]
  theorem veqM_refl' : ∀ xs : List (Val × Val), veqM xs xs = true
    | [] => by simp [veqM]
    | (k, v) :: xs => by simp [veqM, veq_refl' k, veq_refl' v, veqM_refl' xs]
end

mutual
  theorem veq_symm' : ∀ a b : Val, veq a b = veq b a
    | .list xs, .list ys => by simp only [veq]; exact veqL_symm' xs ys
    | .set xs, .set ys => by simp only [veq]; exact veqL_symm' xs ys
    | .map xs, .map ys => by simp only [veq]; exact veqM_symm' xs ys
    | .int a, .dec m e => by simp only [veq]; exact numEq_symm _ _ _ _
    | .dec m e, .int a => by simp only [veq]; exact numEq_symm _ _ _ _
    | .dec m e, .dec m' e' => by simp only [veq]; exact numEq_symm _ _ _ _
    | .null, b => by cases b <;> simp [veq]
    | .bool x, b => by cases b <;> simp [veq, Bool.beq_comm]
    | .int x, .null | .int x, .bool _ | .int x, .str _ | .int x, .pat _ | .int x, .date _
    | .int x, .list _ | .int x, .set _ | .int x, .map _ => by simp [veq]
    | .int x, .int y => by simp only [veq, decide_eq_decide]; exact eq_comm
    | .dec _ _, .null | .dec _ _, .bool _ | .dec _ _, .str _ | .dec _ _, .pat _ | .dec _ _, .date _
    | .dec _ _, .list _ | .dec _ _, .set _ | .dec _ _, .map _ => by simp [veq]
    | .str x, b => by cases b <;> simp [veq, eq_comm]
    | .pat x, b => by cases b <;> simp [veq, eq_comm]
    | .date x, b => by cases b <;> simp [veq, eq_comm]
    | .list _, .null | .list _, .bool _ | .list _, .int _ | .list _, .dec _ _ | .list _, .str _
    | .list _, .pat _ | .list _, .date _ | .list _, .set _ | .list _, .map _ => by simp [veq]
    | .set _, .null | .set _, .bool _ | .set _, .int _ | .set _, .dec _ _ | .set _, .str _
    | .set _, .pat _ | .set _, .date _ | .set _, .list _ | .set _, .map _ => by simp [veq]
    | .map _, .null | .map _, .bool _ | .map _, .int _ | .map _, .dec _ _ | .map _, .str _
    | .map _, .pat _ | .map _, .date _ | .map _, .list _ | .map _, .set _ => by simp [veq]
  theorem veqL_symm' : ∀ xs ys : List Val, veqL xs ys = veqL ys xs
    | [], [] => rfl
    | [], _ :: _ => by simp [veqL]
    | _ :: _, [] => by simp [veqL]
    | x :: xs, y :: ys => by simp only [veqL]; rw [veq_symm' x y, veqL_symm' xs ys]
  theorem veqM_symm' : ∀ xs ys : List (Val × Val), veqM xs ys = veqM ys xs
    | [], [] => rfl
    | [], _ :: _ => by simp [veqM]
    | _ :: _, [] => by simp [veqM]
    | (k, v) :: xs, (k', v') :: ys => by
      simp only [veqM]; rw [veq_symm' k k', veq_symm' v v', veqM_symm' xs ys]
end

theorem veq_int_int (a b : Int) : veq (.int a) (.int b) = numEq a 0 b 0 := by
  simp [veq, numEq]

mutual
  theorem veq_trans' : ∀ a b c : Val, veq a b = true → veq b c = true → veq a c = true
    | .null, b, c => by cases b <;> cases c <;> simp [veq]
    | .bool _, b, c => by
      cases b <;> cases c <;> simp [veq]
      intro h1 h2; rw [h1, h2]
    | .int x, b, c => by
      cases b <;> cases c <;> (try simp only [veq_int_int]) <;> (try simp only [veq]) <;>
        first | exact numEq_trans | simp
    | .dec _ _, b, c => by
      cases b <;> cases c <;> (try simp only [veq_int_int]) <;> (try simp only [veq]) <;>
        first | exact numEq_trans | simp
    | .str _, b, c => by
      cases b <;> cases c <;> simp [veq]
      intro h1 h2; rw [h1, h2]
    | .pat _, b, c => by
      cases b <;> cases c <;> simp [veq]
      intro h1 h2; rw [h1, h2]
    | .date _, b, c => by
      cases b <;> cases c <;> simp [veq]
      intro h1 h2; rw [h1, h2]
    | .list xs, b, c => by
      cases b <;> cases c <;> simp [veq]
      exact veqL_trans' xs _ _
    | .set xs, b, c => by
      cases b <;> cases c <;> simp [veq]
      exact veqL_trans' xs _ _
    | .map xs, b, c => by
      cases b <;> cases c <;> simp [veq]
      exact veqM_trans' xs _ _
  theorem veqL_trans' : ∀ xs ys zs : List Val,
      veqL xs ys = true → veqL ys zs = true → veqL xs zs = true
    | [], ys, zs => by cases ys <;> cases zs <;> simp [veqL]
    | x :: xs, ys, zs => by
      cases ys <;> cases zs <;> simp [veqL]
      intro h1 h2 h3 h4
      exact ⟨veq_trans' x _ _ h1 h3, veqL_trans' xs _ _ h2 h4⟩
  theorem veqM_trans' : ∀ xs ys zs : List (Val × Val),
      veqM xs ys = true → veqM ys zs = true → veqM xs zs = true
    | [], ys, zs => by cases ys <;> cases zs <;> simp [veqM]
    | (k, v) :: xs, ys, zs => by
      rcases ys with _ | ⟨⟨k', v'⟩, ys⟩ <;> rcases zs with _ | ⟨⟨k'', v''⟩, zs⟩ <;> simp [veqM]
      intro h1 h2 h3 h4 h5 h6
      exact ⟨⟨veq_trans' k _ _ h1 h4, veq_trans' v _ _ h2 h5⟩, veqM_trans' xs _ _ h3 h6⟩
end

/-- `veq` is a congruence for itself: equal values compare equal to the same things -/
theorem veq_congr_left {a b : Val} (h : veq a b = true) (c : Val) : veq a c = veq b c := by
  apply Bool.eq_iff_iff.mpr
  constructor
  · intro h1; exact veq_trans' _ _ _ (by rw [veq_symm']; exact h) h1
  · intro h1; exact veq_trans' _ _ _ h h1

theorem veq_congr_right {a b : Val} (h : veq a b = true) (c : Val) : veq c a = veq c b := by
  rw [veq_symm' c a, veq_symm' c b]; exact veq_congr_left h c

end Ckl
