/-
  C19 — Python's `& | ^ ~ >>` on unbounded ints are the bitwise operations on the infinite
  two's-complement representation; a rotation by a negative count is the opposite rotation.
-/
import CklVerif.Lemmas.C19Bits
namespace Ckl.C19
open Ckl Ckl.Lib

/-- bit `i` of the infinite two's-complement representation of `a` -/
def intBit (a : Int) (i : Nat) : Bool :=
  match a with
  | .ofNat m => m.testBit i
  | .negSucc m => !m.testBit i

/-- `intBit a i` is the parity of `⌊a / 2^i⌋` -/
theorem intBit_eq_div_mod (a : Int) (i : Nat) : intBit a i = decide (a / 2 ^ i % 2 = 1) := by
  cases a with
  | ofNat m =>
    simp only [intBit, Nat.testBit_eq_decide_div_mod_eq]
    have : (Int.ofNat m / 2 ^ i % 2 : Int) = ((m / 2 ^ i % 2 : Nat) : Int) := by
      simp only [Int.ofNat_eq_natCast]; norm_cast
    rw [this]
    have h2 := Nat.mod_two_eq_zero_or_one (m / 2 ^ i)
    rcases h2 with h | h <;> simp [h]
  | negSucc m =>
    simp only [intBit, Nat.testBit_eq_decide_div_mod_eq]
    have hp : (0 : Int) < 2 ^ i := Int.pow_pos (by decide)
    have hq : (m : Int) / 2 ^ i = ((m / 2 ^ i : Nat) : Int) := by norm_cast
    rw [Int.negSucc_ediv m hp]
    change (!decide (m / 2 ^ i % 2 = 1)) = decide ((-((m : Int) / 2 ^ i + 1)) % 2 = 1)
    rw [hq]
    have h2 := Nat.mod_two_eq_zero_or_one (m / 2 ^ i)
    rcases h2 with h | h
    · have : (-(((m / 2 ^ i : Nat) : Int) + 1)) % 2 = 1 := by omega
      rw [this, h]; rfl
    · have : (-(((m / 2 ^ i : Nat) : Int) + 1)) % 2 = 0 := by omega
      rw [this, h]; rfl

/-- two ints with the same bits are equal -/
theorem intBit_ext {a b : Int} (h : ∀ i, intBit a i = intBit b i) : a = b := by
  cases a with
  | ofNat m =>
    cases b with
    | ofNat n => congr 1; exact Nat.eq_of_testBit_eq h
    | negSucc n =>
      exfalso
      -- above both bit lengths, `m` has bit 0 and `-(n+1)` has bit 1
      have hm : m < 2 ^ (m + n) := Nat.lt_of_lt_of_le Nat.lt_two_pow_self (Nat.pow_le_pow_right (by decide) (by omega))
      have hn : n < 2 ^ (m + n) := Nat.lt_of_lt_of_le Nat.lt_two_pow_self (Nat.pow_le_pow_right (by decide) (by omega))
      have := h (m + n)
      simp only [intBit, Nat.testBit_lt_two_pow hm, Nat.testBit_lt_two_pow hn] at this
      exact absurd this (by decide)
  | negSucc m =>
    cases b with
    | ofNat n =>
      exfalso
      have hm : m < 2 ^ (m + n) := Nat.lt_of_lt_of_le Nat.lt_two_pow_self (Nat.pow_le_pow_right (by decide) (by omega))
      have hn : n < 2 ^ (m + n) := Nat.lt_of_lt_of_le Nat.lt_two_pow_self (Nat.pow_le_pow_right (by decide) (by omega))
      have := h (m + n)
      simp only [intBit, Nat.testBit_lt_two_pow hm, Nat.testBit_lt_two_pow hn] at this
      exact absurd this (by decide)
    | negSucc n =>
      congr 1
      apply Nat.eq_of_testBit_eq
      intro i
      have := h i
      simp only [intBit] at this
      cases h1 : m.testBit i <;> cases h2 : n.testBit i <;> simp_all

theorem intBit_pyAnd (a b : Int) (i : Nat) : intBit (pyAnd a b) i = (intBit a i && intBit b i) := by
  cases a <;> cases b <;>
    simp only [pyAnd, intBit, Nat.testBit_and, Nat.testBit_or, testBit_natAndNot, Bool.not_or] <;>
    first | rfl | (rw [Bool.and_comm])

theorem intBit_pyOr (a b : Int) (i : Nat) : intBit (pyOr a b) i = (intBit a i || intBit b i) := by
  cases a <;> cases b <;>
    simp only [pyOr, intBit, Nat.testBit_and, Nat.testBit_or, testBit_natAndNot, Bool.not_and,
      Bool.not_not] <;>
    first | rfl | (rw [Bool.or_comm])

theorem intBit_pyXor (a b : Int) (i : Nat) : intBit (pyXor a b) i = xor (intBit a i) (intBit b i) := by
  cases a <;> cases b <;> simp only [pyXor, intBit, Nat.testBit_xor] <;>
    (rename_i m n; cases m.testBit i <;> cases n.testBit i <;> rfl)

theorem intBit_not (a : Int) (i : Nat) : intBit (~~~a) i = !intBit a i := by
  cases a with
  | ofNat m => rfl
  | negSucc m => show m.testBit i = !!m.testBit i; simp

theorem intBit_pyShr (a : Int) (n i : Nat) : intBit (pyShr a n) i = intBit a (n + i) := by
  cases a with
  | ofNat m => show (m >>> n).testBit i = _; rw [Nat.testBit_shiftRight]; rfl
  | negSucc m => show (!(m >>> n).testBit i) = _; rw [Nat.testBit_shiftRight]; rfl

/-! ### a negative rotation count -/

theorem rotl_neg_eq_rotr (a n : Int) : rotl a (-n) = rotr a n := by
  have ha := Int.emod_nonneg a (by decide : (2 ^ 32 : Int) ≠ 0)
  rw [rotl_mask, rotr_mask]
  obtain ⟨k, hk⟩ := Int.eq_ofNat_of_zero_le ha
  rw [hk, rotl_eq_nat, rotr_eq_nat]
  have h1 := Int.emod_nonneg n (by decide : (32 : Int) ≠ 0)
  have h2 := Int.emod_lt_of_pos n (by decide : (0 : Int) < 32)
  congr 1
  by_cases h0 : n % 32 = 0
  · have e1 : (-n) % 32 = 0 := by omega
    rw [e1, h0]
    simp only [Int.toNat_zero, Nat.sub_zero, Nat.shiftLeft_zero, Nat.shiftRight_zero]
    have hlt : k % 2 ^ 32 < 2 ^ 32 := Nat.mod_lt _ (by decide)
    have z1 : (k % 2 ^ 32) >>> 32 = 0 := by
      rw [Nat.shiftRight_eq_div_pow]; exact Nat.div_eq_of_lt hlt
    have z2 : ((k % 2 ^ 32) <<< 32) % 2 ^ 32 = 0 := by
      rw [Nat.shiftLeft_eq]; exact Nat.mul_mod_left _ _
    rw [Nat.or_mod_two_pow, Nat.or_mod_two_pow, z1, z2]
  · have e1 : ((-n) % 32).toNat = 32 - (n % 32).toNat := by omega
    have e2 : 32 - ((-n) % 32).toNat = (n % 32).toNat := by omega
    rw [e2, e1, Nat.or_comm]

theorem rotr_neg_eq_rotl (a n : Int) : rotr a (-n) = rotl a n := by
  have := rotl_neg_eq_rotr a (-n)
  rw [Int.neg_neg] at this
  exact this.symm

end Ckl.C19
