/-
  C06Eval — the evaluator's nodes `a in c`, `m[k]`, the set literal and the map literal, reduced
  to the heap operations of the bridge (one unfolding step of `eval` each).
-/
import CklVerif.Lemmas.C06EvalCheck
namespace Ckl.C06E
open Ckl

variable (ld : Loader)

theorem eval_isIn_set {fuel : Nat} {env : EnvId} {e cN : Node} {pos : Pos}
    {s s1 s2 : State} {v : RVal} {c : Nat} {xs : List RVal}
    (he : eval ld fuel env e s = .ok v s1) (hcN : eval ld fuel env cN s1 = .ok (.ref c) s2)
    (hc : s2.cell c = some (.set xs)) :
    eval ld (fuel + 1) env (.isIn e cN pos) s = .ok (.bool (memR s2 v xs)) s2 := by
  simp only [Ckl.eval, bind_apply, he, hcN, getS, cellOf, hc, pure_apply]

theorem eval_isIn_list {fuel : Nat} {env : EnvId} {e cN : Node} {pos : Pos}
    {s s1 s2 : State} {v : RVal} {c : Nat} {xs : List RVal}
    (he : eval ld fuel env e s = .ok v s1) (hcN : eval ld fuel env cN s1 = .ok (.ref c) s2)
    (hc : s2.cell c = some (.list xs)) :
    eval ld (fuel + 1) env (.isIn e cN pos) s = .ok (.bool (memR s2 v xs)) s2 := by
  simp only [Ckl.eval, bind_apply, he, hcN, getS, cellOf, hc, pure_apply]

theorem eval_isIn_map {fuel : Nat} {env : EnvId} {e cN : Node} {pos : Pos}
    {s s1 s2 : State} {v : RVal} {c : Nat} {kvs : List (RVal × RVal)}
    (he : eval ld fuel env e s = .ok v s1) (hcN : eval ld fuel env cN s1 = .ok (.ref c) s2)
    (hc : s2.cell c = some (.map kvs)) :
    eval ld (fuel + 1) env (.isIn e cN pos) s = .ok (.bool (mapGet s2 v kvs).isSome) s2 := by
  simp only [Ckl.eval, bind_apply, he, hcN, getS, cellOf, hc, pure_apply]

/-- `m[k]` on a map cell that holds the key -/
theorem eval_deref_map {fuel : Nat} {env : EnvId} {e idxN dflt : Node} {pos : Pos}
    {s s1 s2 : State} {k x : RVal} {c : Nat} {kvs : List (RVal × RVal)}
    (hk : eval ld fuel env idxN s = .ok k s1) (he : eval ld fuel env e s1 = .ok (.ref c) s2)
    (hc : s2.cell c = some (.map kvs)) (hg : mapGet s2 k kvs = some x) :
    eval ld (fuel + 1) env (.deref e idxN dflt pos) s = .ok x s2 := by
  unfold Ckl.eval
  simp only [bind_apply, hk, he, RVal.isNull, Bool.false_eq_true, if_false, cellOf, hc, getS, hg,
    pure_apply]

/-- the set literal: evaluate the items, then `addSet` -/
theorem eval_set_lit {fuel : Nat} {env : EnvId} {items : List Node} {pos : Pos}
    {s s1 : State} {vs : List RVal} (hi : evalSeq ld fuel env items s = .ok vs s1) :
    eval ld (fuel + 1) env (.set items pos) s = addSet vs s1 := by
  simp only [Ckl.eval, bind_apply, hi]

/-- the map literal: evaluate the pairs, then fold `mapPut` -/
theorem eval_map_lit {fuel : Nat} {env : EnvId} {keys values : List Node} {pos : Pos}
    {s s1 : State} {kvs : List (RVal × RVal)} (hi : evalPairs ld fuel env keys values s = .ok kvs s1) :
    eval ld (fuel + 1) env (.map keys values pos) s =
      .ok (.ref s1.heap.size)
        (s1.alloc (.map (kvs.foldl (fun acc kv => mapPut s1 kv.1 kv.2 acc) []))).1 := by
  simp only [Ckl.eval, bind_apply, hi, getS]
  rfl

end Ckl.C06E
