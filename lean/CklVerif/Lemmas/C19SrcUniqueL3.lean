import CklVerif.Lemmas.C19SrcFlattenL3

/-! C19Src — list.ckl `unique(lst, key = identity)` on int lists with the default key: membership test `val in s` on a SET cell,
    `continue` inside the loop body (a variant of the loop rule), `append` on a set cell. -/
namespace Ckl.C19Src
open Ckl Ckl.C03 Ckl.Gen.LibSrc
variable (ld : Loader)

/-! ### rules: `x in <set cell>`, `continue`, the loop rule with `continue` -/

theorem Ev.isInSet_L3 {k env e cN pos s v s1 a s2 ys}
    (he : Ev ld k env e s (.ok v s1)) (hc : Ev ld k env cN s1 (.ok (.ref a) s2)) (hcell : s2.cell a = some (.set ys)) :
    Ev ld (k + 1) env (.isIn e cN pos) s (.ok (.bool (memR s2 v ys)) s2) := by
  intro f hf; obtain ⟨g, rfl, hg⟩ := succ_of_lt hf
  rw [eval]
  simp only [EvalM.bind_apply, he g (by omega), hc g (by omega), getS, cellOf, hcell]
  rfl

theorem Ev.cont_L3 {k env p s} : Ev ld k env (.cont p) s (.ok (.cont p) s) := by
  intro f hf; obtain ⟨g, rfl, _⟩ := succ_of_lt hf; rw [eval]; rfl

/-- **Invariant rule for the loop over a live list cell whose body may end with `continue`**: an iteration may end normally or
    with a continue signal (the model then goes on with the value TRUE); `break` / `return` are excluded. -/
theorem forListLive_inv_cont_L3 {kb : Nat} {env : EnvId} {x : String} {a : Nat} {body : Node} {pos : Pos} (xs : List RVal)
    (I : Nat → State → Prop)
    (hcell : ∀ i s, I i s → s.cell a = some (.list xs))
    (hstep : ∀ i s v, I i s → xs[i]? = some v →
      ∃ r' s', Ev ld kb env body (s.put env x v) (.ok r' s') ∧ r'.isBreak = false ∧ r'.isReturn = false ∧ I (i + 1) s') :
    ∀ (n i : Nat) (r : RVal) (s : State), isCtl r = false → i + n = xs.length → I i s →
      ∃ r' s', I xs.length s' ∧ isCtl r' = false ∧
        ∀ f, kb + n + 1 < f → forListLive ld f env [x] a i body r pos s = .ok r' s' := by
  intro n
  induction n with
  | zero =>
    intro i r s hr hi hI
    refine ⟨r, s, by rw [← hi]; simpa using hI, hr, fun f hf => ?_⟩
    obtain ⟨g, rfl, _⟩ := succ_of_lt hf
    rw [forListLive, EvalM.bind_apply]
    simp only [getS, hcell i s hI]
    have : xs[i]? = none := by rw [List.getElem?_eq_none_iff]; omega
    simp only [this]; rfl
  | succ n ih =>
    intro i r s hr hi hI
    have hlt : i < xs.length := by omega
    obtain ⟨r1, s1, hb, hbrk, hret, hI1⟩ := hstep i s xs[i] hI (List.getElem?_eq_getElem hlt)
    cases hcont : r1.isContinue with
    | true =>
      obtain ⟨r2, s2, hI2, hr2, hloop⟩ := ih (i + 1) (.bool true) s1 rfl (by omega) hI1
      refine ⟨r2, s2, hI2, hr2, fun f hf => ?_⟩
      obtain ⟨g, rfl, hg⟩ := succ_of_lt hf
      rw [forListLive, EvalM.bind_apply]
      simp only [getS, hcell i s hI, List.getElem?_eq_getElem hlt]
      simp only [EvalM.bind_apply, bindLoopVars, modifyS, hb g (by omega)]
      simp only [hbrk, hret, hcont, Bool.false_eq_true, if_false, if_true]
      exact hloop g (by omega)
    | false =>
      have hr1 : isCtl r1 = false := by unfold isCtl; rw [hret, hbrk, hcont]; rfl
      obtain ⟨r2, s2, hI2, hr2, hloop⟩ := ih (i + 1) r1 s1 hr1 (by omega) hI1
      refine ⟨r2, s2, hI2, hr2, fun f hf => ?_⟩
      obtain ⟨g, rfl, hg⟩ := succ_of_lt hf
      rw [forListLive, EvalM.bind_apply]
      simp only [getS, hcell i s hI, List.getElem?_eq_getElem hlt]
      simp only [EvalM.bind_apply, bindLoopVars, modifyS, hb g (by omega)]
      simp only [hbrk, hret, hcont, Bool.false_eq_true, if_false]
      exact hloop g (by omega)

/-! ### sets of ints -/

theorem rveq_int_L3 (s : State) (a b : Int) : rveq s (.int a) (.int b) = decide (a = b) := by
  simp [rveq, rveqF]

theorem memR_ints_L3 (s : State) (n : Int) (acc : List Int) : memR s (.int n) (acc.map .int) = decide (n ∈ acc) := by
  induction acc with
  | nil => simp [memR]
  | cons y ys ih =>
    unfold memR at ih ⊢
    rw [List.map_cons, List.any_cons, ih, rveq_int_L3]
    simp [List.mem_cons]

/-- `append(lst, element)` on a SET cell: `setAdd` -/
theorem append_set_L3 (a : Nat) (zs : List RVal) (v : RVal) (d : Option RVal) (pos : Pos) (s : State)
    (hc : s.cell a = some (.set zs)) :
    ∃ m, callPure "append" [("lst", .ref a), ("element", v)] d pos = some m ∧
      m s = .ok (.ref a) (s.setCell a (.set (setAdd s v zs))) := by
  refine ⟨_, rfl, ?_⟩
  simp [argGet, dictGet, cellOf, hc, EvalM.bind_apply, EvalM.pure_apply, getS]
  rfl

/-- one step of `unique` on ints with the identity key: keep the element unless it was seen -/
def uniqStep_L3 (acc : List Int) (n : Int) : List Int := if n ∈ acc then acc else acc ++ [n]

/-- the expected result: first occurrences, in order -/
def uniqInts_L3 (ns : List Int) : List Int := ns.foldl uniqStep_L3 []

theorem uniq_take_succ_L3 (ns : List Int) (i : Nat) (n : Int) (hv : ns[i]? = some n) :
    uniqInts_L3 (ns.take (i + 1)) = uniqStep_L3 (uniqInts_L3 (ns.take i)) n := by
  unfold uniqInts_L3
  rw [List.take_add_one, hv]; simp [List.foldl_append]

/-! ### `fn.execute` with the defaulted second parameter -/

def calleeState2_L3 (s : State) (m : EnvId) (q1 q2 : String) (v1 kv : RVal) : State :=
  ((s.newEnv m).1.put s.frames.size q1 v1).put s.frames.size q2 kv

theorem calls_of_body_unique_L3 {k : Nat} {r : State → Out RVal} {Q : State → Prop} (hk : 3 ≤ k)
    {s : State} {M nats srcs fn m} (h : LibEnv s M nats srcs) (hm : M m) (hsrc : IsSrc s fn list_unique m)
    (hid : "identity" ∈ nats) (v1 : RVal)
    (hb : ∀ s0 j, Ctx s0 M nats srcs s.frames.size m [("lst", v1), ("key", .native "identity" j)] →
      Ext s s0 → s0.heap.size = s.heap.size → ∃ s', Ext s s' ∧ Ev ld k s.frames.size (lamBody list_unique) s0 (r s') ∧ Q s') :
    ∃ s', Ext s s' ∧ Q s' ∧ ∀ env pos, Calls ld (k + 1) fn [("lst", v1)] env pos s (postCall (r s')) := by
  obtain ⟨c, nm, rfl, hcell⟩ := hsrc
  obtain ⟨j, hres⟩ := h.nat m hm "identity" hid
  have hmlt := h.lt m hm
  have hfr1 := calleeState_frame1 s hmlt "lst" v1
  have hst1 : calleeState s m ["lst"] [("lst", v1)] = (s.newEnv m).1.put s.frames.size "lst" v1 := by
    simp [calleeState, dictGet]
  rw [hst1] at hfr1
  have e1 : Ext s ((s.newEnv m).1.put s.frames.size "lst" v1) := ((Ext.refl s).newEnv m).put (Nat.le_refl _) _ _
  have hlook : ((s.newEnv m).1.put s.frames.size "lst" v1).lookup s.frames.size "identity"
      = some (.native "identity" j) := lookup_global hfr1 (by rfl) (hres.ext e1)
  have hlt1 : s.frames.size < ((s.newEnv m).1.put s.frames.size "lst" v1).frames.size := by
    rw [frames_size_put, frames_size_newEnv]; exact Nat.lt_succ_self _
  have e2 : Ext s (calleeState2_L3 s m "lst" "key" v1 (.native "identity" j)) := e1.put (Nat.le_refl _) _ _
  have ctx : Ctx (calleeState2_L3 s m "lst" "key" v1 (.native "identity" j)) M nats srcs s.frames.size m
      [("lst", v1), ("key", .native "identity" j)] := by
    refine ⟨h.ext e2, hm, ⟨?_, ?_, hmlt⟩, ?_⟩
    · unfold calleeState2_L3; rw [vars_put_same _ _ _ hlt1, hfr1.vars]; rfl
    · unfold calleeState2_L3; rw [parent_put]; exact hfr1.parent
    · unfold calleeState2_L3; rw [frames_size_put]; exact hlt1
  obtain ⟨s', e', hev, hQ⟩ := hb _ j ctx e2 rfl
  refine ⟨s', e', hQ, fun env pos => ?_⟩
  intro f hf; obtain ⟨g, rfl, hg⟩ := succ_of_lt hf
  obtain ⟨g3, rfl⟩ : ∃ g3, g = g3 + 3 := ⟨g - 3, by omega⟩
  have hbind : bindParams ld (g3 + 3) s.frames.size (lamParams list_unique) (lamDefaults list_unique)
      [("lst", v1)] pos (s.newEnv m).1 = .ok () (calleeState2_L3 s m "lst" "key" v1 (.native "identity" j)) := by
    unfold lamParams lamDefaults list_unique
    simp only []
    rw [bindParams]
    simp only [EvalM.bind_apply, modifyS, dictGet, if_true]
    rw [bindParams]
    · simp only [dictGet, show ("key" = "lst") = False by decide, if_false]
      rw [bindParams]
      · simp only [Bool.false_eq_true, if_false, EvalM.bind_apply, Ev.ident ld hlook (k := 0) (g3 + 1) (by omega), modifyS]
        rfl
      · intro _ _ _ _ h; cases h
    · intro h; cases h
  rw [C04.callFn_closure ld hcell hbind]
  rw [hev (g3 + 3) (by omega)]
  cases r s' with
  | ok v s' => cases v <;> rfl
  | err => rfl
  | fail => rfl

/-! ### the body of `unique` -/

def uniqueNats : List String := ["identity", "append"]

/-- the body of the `for` statement when it is the THIRD statement of the function's block -/
def forBody3_L3 : Node → Node
  | .block (_ :: _ :: .for _ _ b _ _ :: _) _ _ _ _ _ => b
  | _ => .absent

local notation "bp" => blockPos (lamBody list_unique)
local notation "lp" => blockPos (forBody3_L3 (lamBody list_unique))

/-- the loop invariant of `unique` (ints, identity key): the result cell `b` and the set cell `b + 1` both hold the first
    occurrences among the first `i` elements -/
structure UniqInv_L3 (s : State) (c m : EnvId) (a b : Nat) (kv : RVal) (ns : List Int) (i : Nat) (st : State) : Prop where
  ext : Ext s st
  cellb : st.cell b = some (.list ((uniqInts_L3 (ns.take i)).map .int))
  cells : st.cell (b + 1) = some (.set ((uniqInts_L3 (ns.take i)).map .int))
  parent : (st.frame c).parent = some m
  clt : c < st.frames.size
  vars : (st.frame c).vars = [("lst", .ref a), ("key", kv), ("result", .ref b), ("s", .ref (b + 1))] ∨
    ∃ w w', (st.frame c).vars =
      [("lst", .ref a), ("key", kv), ("result", .ref b), ("s", .ref (b + 1)), ("item", w), ("val", w')]

theorem unique_body {s s0 : State} {M nats srcs m} {a : Nat} {ns : List Int} {j : Nat}
    (h : LibEnv s M nats srcs) (hm : M m)
    (ctx : Ctx s0 M nats srcs s.frames.size m [("lst", .ref a), ("key", .native "identity" j)])
    (e0 : Ext s s0) (hh : s0.heap.size = s.heap.size) (hn : ∀ x ∈ uniqueNats, x ∈ nats)
    (hc : s.cell a = some (.list (ns.map .int))) :
    ∃ s', Ext s s' ∧ Ev ld (ns.length + 26) s.frames.size (lamBody list_unique) s0 (.ok (.ref s.heap.size) s') ∧
      s'.cell s.heap.size = some (.list ((uniqInts_L3 ns).map .int)) := by
  unfold lamBody list_unique
  simp only []
  generalize hK : ns.length + 21 = K
  have ha : a < s.heap.size := cell_lt hc
  have hcge : s.frames.size ≤ s.frames.size := Nat.le_refl _
  have ctx0 : Ctx (ghostEnter s0 bp) M nats srcs s.frames.size m [("lst", .ref a), ("key", .native "identity" j)] :=
    ctx.ext ((Ext.refl s0).ghostEnter _)
  have e0' : Ext s (ghostEnter s0 bp) := e0.ghostEnter _
  -- statements 1, 2: `def result = []; def s = <<>>`
  let b := s.heap.size
  have hb0 : (ghostEnter s0 bp).heap.size = b := hh
  let t1 := ((ghostEnter s0 bp).alloc (.list [])).1.put s.frames.size "result" (.ref b)
  have S1 : ∀ p1 info p2, Ev ld K s.frames.size (.defn "result" (.list [] p1) info p2) (ghostEnter s0 bp) (.ok (.ref b) t1) := by
    intro p1 info p2
    have := Ev.defn ld (k := 1) (name := "result") (info := info) (pos := p2) (env := s.frames.size)
      (by intro a h; cases h) (Ev.listNil ld (k := 0) (env := s.frames.size) (pos := p1) (s := ghostEnter s0 bp))
    rw [hb0] at this
    exact Ev.mono ld this (by omega)
  have hb1 : t1.heap.size = b + 1 := by
    show (((ghostEnter s0 bp).alloc (.list [])).1.put _ _ _).heap.size = _
    rw [heap_put, heap_size_alloc, hb0]
  let t2 := (t1.alloc (.set [])).1.put s.frames.size "s" (.ref (b + 1))
  have S2 : ∀ p1 info p2, Ev ld K s.frames.size (.defn "s" (.set [] p1) info p2) t1 (.ok (.ref (b + 1)) t2) := by
    intro p1 info p2
    have := Ev.defn ld (k := 1) (name := "s") (info := info) (pos := p2) (env := s.frames.size)
      (by intro a h; cases h) (Ev.setNil ld (k := 0) (env := s.frames.size) (pos := p1) (s := t1))
    rw [hb1] at this
    exact Ev.mono ld this (by omega)
  have hclt0 : s.frames.size < (ghostEnter s0 bp).frames.size := ctx0.clt
  have hclt1 : s.frames.size < t1.frames.size := by
    show _ < (((ghostEnter s0 bp).alloc (.list [])).1.put _ _ _).frames.size
    rw [frames_size_put]; exact hclt0
  have E1 : Ext s t1 := (e0'.alloc _).put hcge _ _
  have E2 : Ext s t2 := (E1.alloc _).put hcge _ _
  have hbge : s.heap.size ≤ b := Nat.le_refl _
  have hvars1 : (t1.frame s.frames.size).vars = [("lst", .ref a), ("key", .native "identity" j), ("result", .ref b)] := by
    show ((((ghostEnter s0 bp).alloc (.list [])).1.put _ _ _).frame _).vars = _
    rw [vars_put_same ((ghostEnter s0 bp).alloc (.list [])).1 "result" (.ref b) hclt0, frame_alloc, ctx0.fr.vars]; rfl
  have hvars2 : (t2.frame s.frames.size).vars =
      [("lst", .ref a), ("key", .native "identity" j), ("result", .ref b), ("s", .ref (b + 1))] := by
    show (((t1.alloc (.set [])).1.put _ _ _).frame _).vars = _
    rw [vars_put_same (t1.alloc (.set [])).1 "s" (.ref (b + 1)) hclt1, frame_alloc, hvars1]; rfl
  have hpar1 : (t1.frame s.frames.size).parent = some m := by
    show ((((ghostEnter s0 bp).alloc (.list [])).1.put _ _ _).frame _).parent = _
    rw [parent_put, frame_alloc]; exact ctx0.fr.parent
  have hcb1 : t1.cell b = some (.list []) := by
    show (((ghostEnter s0 bp).alloc (.list [])).1.put _ _ _).cell b = _
    rw [cell_put, ← hb0, cell_alloc_new]
  have inv0 : UniqInv_L3 s s.frames.size m a b (.native "identity" j) ns 0 t2 := by
    refine ⟨E2, ?_, ?_, ?_, ?_, Or.inl hvars2⟩
    · show ((t1.alloc (.set [])).1.put _ _ _).cell b = _
      rw [cell_put, cell_alloc_old _ _ (by rw [hb1]; exact Nat.lt_succ_self _), hcb1]; rfl
    · show ((t1.alloc (.set [])).1.put _ _ _).cell (b + 1) = _
      rw [cell_put, ← hb1, cell_alloc_new]; rfl
    · show (((t1.alloc (.set [])).1.put _ _ _).frame _).parent = _
      rw [parent_put, frame_alloc]; exact hpar1
    · show _ < ((t1.alloc (.set [])).1.put _ _ _).frames.size
      rw [frames_size_put]; exact hclt1
  -- one iteration
  have hstep : ∀ p1 p2 p3 info p4 p5 p6 p7 p8 p9 p10 q1 q2 q3 q4 q5 q6 q7 q8 bb, ∀ i' st v,
      UniqInv_L3 s s.frames.size m a b (.native "identity" j) ns i' st → (ns.map RVal.int)[i']? = some v →
      ∃ r' s', Ev ld 12 s.frames.size
        (.block [.defn "val" (.call (.ident "key" p1) [none] [.ident "item" p2] p3) info p4,
          .ite [.isIn (.ident "val" p5) (.ident "s" p6) p7] [.cont p8] (.lit (.bool true) p9) p10,
          .call (.ident "append" q1) [none, none] [.ident "s" q2, .ident "val" q3] q4,
          .call (.ident "append" q5) [none, none] [.ident "result" q6, .ident "item" q7] q8] [] [] [] bb lp)
        (st.put s.frames.size "item" v) (.ok r' s') ∧
        r'.isBreak = false ∧ r'.isReturn = false ∧
        UniqInv_L3 s s.frames.size m a b (.native "identity" j) ns (i' + 1) s' := by
    intro p1 p2 p3 info p4 p5 p6 p7 p8 p9 p10 q1 q2 q3 q4 q5 q6 q7 q8 bb i' st v inv hv
    rw [List.getElem?_map] at hv
    cases hx : ns[i']? with
    | none => rw [hx] at hv; cases hv
    | some n =>
      rw [hx] at hv; simp only [Option.map_some, Option.some.injEq] at hv; subst hv
      generalize hacc : uniqInts_L3 (ns.take i') = acc
      have htake := uniq_take_succ_L3 ns i' n hx
      rw [hacc] at htake
      have icb := inv.cellb
      have ics := inv.cells
      rw [hacc] at icb ics
      let u0 := ghostEnter (st.put s.frames.size "item" (.int n)) lp
      have hclt : s.frames.size < u0.frames.size := by
        show _ < (st.put s.frames.size "item" (.int n)).frames.size
        rw [frames_size_put]; exact inv.clt
      have hpar0 : (u0.frame s.frames.size).parent = some m := by
        show ((st.put s.frames.size "item" (.int n)).frame _).parent = _
        rw [parent_put]; exact inv.parent
      have hv0 : (u0.frame s.frames.size).vars = dictPut "item" (.int n) (st.frame s.frames.size).vars :=
        vars_put_same _ _ _ inv.clt
      have hfr0 := callFrame_self hpar0 (h.lt m hm)
      have hkey0 : u0.lookup s.frames.size "key" = some (.native "identity" j) := by
        refine lookup_local hfr0 ?_
        rw [hv0]; rcases inv.vars with h | ⟨w, w', h⟩ <;> rw [h] <;> rfl
      have hel0 : u0.lookup s.frames.size "item" = some (.int n) := by
        refine lookup_local hfr0 ?_
        rw [hv0]; rcases inv.vars with h | ⟨w, w', h⟩ <;> rw [h] <;> rfl
      -- `def val = key(item)`
      obtain ⟨mm, hm1, hm2⟩ := identity_pure_L3 (.int n) (div0Value u0 s.frames.size) p3 u0
      have A1 := Ev.nat1 ld (k := 0) (p := p1) (pos := p3) hkey0 (by rfl) (by decide) (by trivial)
        (Ev.ident ld (p := p2) hel0) hm1 hm2
      rw [wrapCall_ok] at A1
      let u1 := u0.put s.frames.size "val" (.int n)
      have D1 : Ev ld 4 s.frames.size (.defn "val" (.call (.ident "key" p1) [none] [.ident "item" p2] p3) info p4) u0
          (.ok (.int n) u1) := Ev.defn ld (k := 3) (by intro a h; cases h) A1
      have eu0 : Ext s u0 := (inv.ext.put hcge _ _).ghostEnter _
      have eu1 : Ext s u1 := eu0.put hcge _ _
      have hvars1' : (u1.frame s.frames.size).vars = [("lst", .ref a), ("key", .native "identity" j), ("result", .ref b),
          ("s", .ref (b + 1)), ("item", .int n), ("val", .int n)] := by
        show ((u0.put s.frames.size "val" (.int n)).frame _).vars = _
        rw [vars_put_same _ _ _ hclt, hv0]
        rcases inv.vars with h | ⟨w, w', h⟩ <;> rw [h] <;> rfl
      have hpar1' : (u1.frame s.frames.size).parent = some m := by
        show ((u0.put s.frames.size "val" (.int n)).frame _).parent = _
        rw [parent_put]; exact hpar0
      have hclt1' : s.frames.size < u1.frames.size := by
        show _ < (u0.put s.frames.size "val" (.int n)).frames.size
        rw [frames_size_put]; exact hclt
      have cu : Ctx u1 M nats srcs s.frames.size m [("lst", .ref a), ("key", .native "identity" j), ("result", .ref b),
          ("s", .ref (b + 1)), ("item", .int n), ("val", .int n)] := Ctx.ofExt h hm eu1 hvars1' hpar1' hclt1'
      have hcbu : u1.cell b = some (.list (acc.map .int)) := icb
      have hcsu : u1.cell (b + 1) = some (.set (acc.map .int)) := ics
      -- `val in s`
      have A2 := Ev.isInSet_L3 ld (k := 0) (pos := p7) (Ev.ident ld (p := p5) (cu.var (x := "val") (by rfl)))
        (Ev.ident ld (p := p6) (cu.var (x := "s") (by rfl))) hcsu
      rw [memR_ints_L3] at A2
      by_cases hmem : n ∈ acc
      · -- seen: `continue`
        rw [decide_eq_true hmem] at A2
        have I1 := Ev.ite ld (pos := p10) (EvIf.true ld (cs := []) (xs := []) (els := .lit (.bool true) p9)
          A2 (Ev.cont_L3 ld (k := 0 + 1) (p := p8)))
        have hst : uniqStep_L3 acc n = acc := by simp [uniqStep_L3, hmem]
        rw [hst] at htake
        refine ⟨_, _, Ev.mono ld (Ev.block ld (b := bb) (pos := lp)
          (EvBody.cons ld (Ev.mono ld D1 (show 4 ≤ 4 by decide)) rfl
            (EvBody.stop ld (Ev.mono ld I1 (show 0 + 1 + 1 + 1 ≤ 3 by decide)) rfl))) (by decide), rfl, rfl, ?_⟩
        exact ⟨eu1.ghostFin _, by rw [htake]; exact hcbu, by rw [htake]; exact hcsu, hpar1', hclt1',
          Or.inr ⟨.int n, .int n, hvars1'⟩⟩
      · -- new: both appends
        rw [decide_eq_false hmem] at A2
        have I1 := Ev.ite ld (pos := p10) (EvIf.false ld (x := .cont p8) (xs := [])
          A2 (EvIf.else ld (pos := p10) (Ev.litBool ld (k := 0) (p := p9) (b := true))))
        have hst : uniqStep_L3 acc n = acc ++ [n] := by simp [uniqStep_L3, hmem]
        rw [hst] at htake
        obtain ⟨ja, hlk⟩ := cu.nat (x := "append") (hn _ (by decide)) (by rfl)
        -- `append(s, val)`
        obtain ⟨ma, ha1, ha2⟩ := append_set_L3 (b + 1) _ (.int n) (div0Value u1 s.frames.size) q4 _ hcsu
        have hsa : setAdd u1 (.int n) (acc.map .int) = (acc ++ [n]).map .int := by
          unfold setAdd; rw [memR_ints_L3, decide_eq_false hmem]; simp
        rw [hsa] at ha2
        have A3 := Ev.nat2 ld (k := 0) (p := q1) (pos := q4) hlk (by rfl) (by decide) (by decide) (by trivial) (by trivial)
          (Ev.ident ld (p := q2) (cu.var (x := "s") (by rfl)))
          (Ev.ident ld (p := q3) (cu.var (x := "val") (by rfl))) ha1 ha2
        rw [wrapCall_ok] at A3
        let u2 := u1.setCell (b + 1) (.set ((acc ++ [n]).map .int))
        have eu2 : Ext s u2 := eu1.setCell (Nat.le_succ _) _
        have cu2 : Ctx u2 M nats srcs s.frames.size m [("lst", .ref a), ("key", .native "identity" j), ("result", .ref b),
            ("s", .ref (b + 1)), ("item", .int n), ("val", .int n)] :=
          Ctx.ofExt h hm eu2 hvars1' hpar1' hclt1'
        have hcb2 : u2.cell b = some (.list (acc.map .int)) := by
          show (u1.setCell (b + 1) _).cell b = _
          rw [cell_setCell_other _ _ (Nat.succ_ne_self b)]; exact hcbu
        -- `append(result, item)`
        obtain ⟨jb, hlk2⟩ := cu2.nat (x := "append") (hn _ (by decide)) (by rfl)
        obtain ⟨mb, hb1', hb2'⟩ := append_list b _ (.int n) (div0Value u2 s.frames.size) q8 _ hcb2
        have A4 := Ev.nat2 ld (k := 0) (p := q5) (pos := q8) hlk2 (by rfl) (by decide) (by decide) (by trivial) (by trivial)
          (Ev.ident ld (p := q6) (cu2.var (x := "result") (by rfl)))
          (Ev.ident ld (p := q7) (cu2.var (x := "item") (by rfl))) hb1' hb2'
        rw [wrapCall_ok] at A4
        have hblt : b < u2.heap.size := cell_lt hcb2
        have hslt : b + 1 < u1.heap.size := cell_lt hcsu
        refine ⟨_, _, Ev.mono ld (Ev.block ld (b := bb) (pos := lp)
          (EvBody.cons ld (Ev.mono ld D1 (show 4 ≤ 7 by decide)) rfl
            (EvBody.cons ld (Ev.mono ld I1 (show 0 + 1 + 1 + 1 ≤ 6 by decide)) rfl
              (EvBody.cons ld (Ev.mono ld A3 (show 0 + 4 ≤ 5 by decide)) rfl
                (EvBody.cons ld A4 rfl (EvBody.nil ld)))))) (by decide), rfl, rfl, ?_⟩
        refine ⟨(eu2.setCell hbge _).ghostFin _, ?_, ?_, hpar1', hclt1', Or.inr ⟨.int n, .int n, hvars1'⟩⟩
        · show (u2.setCell b _).cell b = _
          rw [cell_setCell_same _ _ hblt, htake]; simp
        · show (u2.setCell b _).cell (b + 1) = _
          rw [cell_setCell_other _ _ (Ne.symm (Nat.succ_ne_self b)), htake]
          exact cell_setCell_same _ _ hslt
  have hcellI : ∀ i' st, UniqInv_L3 s s.frames.size m a b (.native "identity" j) ns i' st →
      st.cell a = some (.list (ns.map .int)) := by
    intro i' st inv; rw [inv.ext.cell a ha]; exact hc
  -- statement 3: the loop
  have S3 : ∀ p0 p1 p2 p3 info p4 p5 p6 p7 p8 p9 p10 q1 q2 q3 q4 q5 q6 q7 q8 bb what p14, ∃ r t3, Ev ld K s.frames.size
      (.for ["item"] (.ident "lst" p0)
        (.block [.defn "val" (.call (.ident "key" p1) [none] [.ident "item" p2] p3) info p4,
          .ite [.isIn (.ident "val" p5) (.ident "s" p6) p7] [.cont p8] (.lit (.bool true) p9) p10,
          .call (.ident "append" q1) [none, none] [.ident "s" q2, .ident "val" q3] q4,
          .call (.ident "append" q5) [none, none] [.ident "result" q6, .ident "item" q7] q8] [] [] [] bb lp) what p14)
        t2 (.ok r t3) ∧ isCtl r = false ∧
        Ext s t3 ∧ t3.cell b = some (.list ((uniqInts_L3 ns).map .int)) ∧
        ∃ vars, CallFrame t3 s.frames.size m vars ∧ dictGet "result" vars = some (.ref b) := by
    intro p0 p1 p2 p3 info p4 p5 p6 p7 p8 p9 p10 q1 q2 q3 q4 q5 q6 q7 q8 bb what p14
    obtain ⟨r, st, inv, hctl, hloop⟩ := forListLive_inv_cont_L3 ld (kb := 12) (env := s.frames.size) (x := "item") (a := a)
      (pos := p14) (ns.map RVal.int)
      (fun i' st => UniqInv_L3 s s.frames.size m a b (.native "identity" j) ns i' st)
      hcellI
      (fun i' st v hI hv => hstep p1 p2 p3 info p4 p5 p6 p7 p8 p9 p10 q1 q2 q3 q4 q5 q6 q7 q8 bb i' st v hI hv)
      (ns.map RVal.int).length 0 (.bool true) t2 rfl (by omega) inv0
    have hF := Ev.forList ld (k := 0) (kl := 12 + (ns.map RVal.int).length + 1) (what := what) (x := "item") (pos := p14)
      (by rw [hvars2]; rfl)
      (Ev.ident ld (p := p0) (lookup_local (x := "lst") (callFrame_self inv0.parent (h.lt m hm)) (by rw [hvars2]; rfl)))
      (hcellI 0 t2 inv0) hloop (hcellI _ st inv)
    rw [List.length_map] at hF
    refine ⟨r, _, Ev.mono ld hF (show max 0 (12 + ns.length + 1) + 2 ≤ K by omega), hctl, ?_⟩
    have hcb : st.cell b = some (.list ((uniqInts_L3 ns).map .int)) := by
      have := inv.cellb; rwa [List.length_map, List.take_length] at this
    cases hxs : (ns.map RVal.int).isEmpty with
    | true =>
      simp only [if_true]
      refine ⟨inv.ext, hcb, (st.frame s.frames.size).vars, callFrame_self inv.parent (h.lt m hm), ?_⟩
      rcases inv.vars with h | ⟨w, w', h⟩ <;> rw [h] <;> rfl
    | false =>
      simp only [Bool.false_eq_true, if_false]
      refine ⟨inv.ext.remove hcge _, by rw [cell_remove]; exact hcb,
        ((st.remove s.frames.size "item").frame s.frames.size).vars,
        callFrame_self (by rw [frame_remove_same _ _ inv.clt]; exact inv.parent) (h.lt m hm), ?_⟩
      rw [frame_remove_same _ _ inv.clt]
      rcases inv.vars with h | ⟨w, w', h⟩ <;> rw [h] <;> rfl
  -- the block
  obtain ⟨r3, t3, hS3, hctl3, E3, hcb3, vars3, hfr3, hres3⟩ := S3 _ _ _ _ _ _ _ _ _ _ _ _ _ _ _ _ _ _ _ _ _ _ _
  have S4 : ∀ p, Ev ld K s.frames.size (.ident "result" p) t3 (.ok (.ref b) t3) :=
    fun p => Ev.ident ld (lookup_local hfr3 hres3)
  refine ⟨ghostFin t3 bp, E3.ghostFin _, ?_, hcb3⟩
  exact Ev.mono ld (k := K + 3 + 1 + 1) (Ev.block ld (b := false) (pos := bp)
    (EvBody.cons ld (Ev.mono ld (S1 _ _ _) (show K ≤ K + 3 by omega)) rfl
      (EvBody.cons ld (Ev.mono ld (S2 _ _ _) (show K ≤ K + 2 by omega)) rfl
        (EvBody.cons ld (Ev.mono ld hS3 (show K ≤ K + 1 by omega)) hctl3
          (EvBody.cons ld (S4 _) rfl (EvBody.nil ld)))))) (by omega)

/-- `fn.execute(lst = a cell holding an int list)` of the function made from the source of `unique`, `key` NOT passed: a
    reference to the FRESH cell `s.heap.size` holding the first occurrences in order -/
theorem unique_calls_ints {s : State} {M nats srcs fn m} (h : LibEnv s M nats srcs) (hn : ∀ x ∈ uniqueNats, x ∈ nats)
    (hm : M m) (hsrc : IsSrc s fn list_unique m) (a : Nat) (ns : List Int)
    (hc : s.cell a = some (.list (ns.map .int))) :
    ∃ s', Ext s s' ∧ s'.cell s.heap.size = some (.list ((uniqInts_L3 ns).map .int)) ∧
      ∀ env pos, Calls ld (ns.length + 27) fn [("lst", .ref a)] env pos s (.ok (.ref s.heap.size) s') :=
  calls_of_body_unique_L3 ld (r := fun s' => .ok (.ref s.heap.size) s') (by omega) h hm hsrc
    (hn _ (by decide)) (.ref a) (fun _ _ ctx e0 hh => unique_body ld h hm ctx e0 hh hn hc)

end Ckl.C19Src
