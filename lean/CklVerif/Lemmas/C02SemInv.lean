/-
  C02 (semantic half) — inversion of the position eraser (`erase n = toNode e` determines the shape of
  `n` up to positions), and: no `toNode e` is a spread node.
-/
import CklVerif.Lemmas.C02SemCall
namespace Ckl.C02S
open Ckl Ckl.C02P

theorem erase_ident_inv {n : Node} {x : String} (h : erase n = .ident x default) : ∃ p, n = .ident x p := by
  cases n <;> simp [erase] at h
  subst h; exact ⟨_, rfl⟩

theorem erase_lit_inv {n : Node} {v : Val} (h : erase n = .lit v default) : ∃ p, n = .lit v p := by
  cases n <;> simp [erase] at h
  subst h; exact ⟨_, rfl⟩

theorem erase_not_inv {n x : Node} (h : erase n = .not x default) : ∃ x' p, n = .not x' p ∧ erase x' = x := by
  cases n <;> simp [erase] at h
  exact ⟨_, _, rfl, h⟩

theorem erase_and_inv {n : Node} {xs : List Node} (h : erase n = .and xs default) :
    ∃ xs' p, n = .and xs' p ∧ eraseL xs' = xs := by
  cases n <;> simp [erase] at h
  exact ⟨_, _, rfl, h⟩

theorem erase_or_inv {n : Node} {xs : List Node} (h : erase n = .or xs default) :
    ∃ xs' p, n = .or xs' p ∧ eraseL xs' = xs := by
  cases n <;> simp [erase] at h
  exact ⟨_, _, rfl, h⟩

theorem eraseL_nil_inv {xs : List Node} (h : eraseL xs = []) : xs = [] := by
  cases xs with
  | nil => rfl
  | cons x xs => simp [eraseL] at h

theorem eraseL_cons_inv {xs : List Node} {a : Node} {r : List Node} (h : eraseL xs = a :: r) :
    ∃ x xs', xs = x :: xs' ∧ erase x = a ∧ eraseL xs' = r := by
  cases xs with
  | nil => simp [eraseL] at h
  | cons x xs => simp only [eraseL, List.cons.injEq] at h; exact ⟨x, xs, rfl, h.1, h.2⟩

/-- a node that erases to the operator call `fn(a = x, b = y)` is that call, up to positions -/
theorem erase_binNode_inv {n : Node} {fn : String} {x y : Node} (h : erase n = binNode fn x y) :
    ∃ p1 p2 x' y', n = .call (.ident fn p1) [some "a", some "b"] [x', y'] p2 ∧ erase x' = x ∧ erase y' = y := by
  simp only [binNode, Parser.funcCallAB, Parser.funcCall2] at h
  cases n <;> simp [erase] at h
  rename_i f names args p
  obtain ⟨hf, hn, ha⟩ := h
  obtain ⟨p1, rfl⟩ := erase_ident_inv hf
  obtain ⟨x', r, rfl, hx, hr⟩ := eraseL_cons_inv ha
  obtain ⟨y', r', rfl, hy, hr'⟩ := eraseL_cons_inv hr
  have := eraseL_nil_inv hr'
  subst this; subst hn
  exact ⟨p1, p, x', y', rfl, hx, hy⟩

def isSpreadB : Node → Bool
  | .spread _ _ => true
  | _ => false

theorem isSpreadB_erase (n : Node) : isSpreadB (erase n) = isSpreadB n := by
  cases n <;> rfl

theorem isSpreadB_toNode : (e : E) → isSpreadB (toNode e) = false
  | .atom a => by cases a <;> rfl
  | .or _ _ _ => rfl
  | .and _ _ _ => rfl
  | .not _ => rfl
  | .cmp a o b more => by
    simp only [toNode]
    cases toNodeC (toNode b) more <;> rfl
  | .add _ _ _ => rfl
  | .mul _ _ _ => rfl
  | .neg e => by simp only [toNode]; unfold negNode; split <;> rfl
  | .paren e => by simp only [toNode]; exact isSpreadB_toNode e

theorem notSpread_of_erase {n : Node} {e : E} (h : erase n = toNode e) : NotSpread n := by
  intro x p hn
  have := isSpreadB_toNode e
  rw [← h, isSpreadB_erase, hn] at this
  cases this

theorem notSpread_lit (v : Val) (p : Pos) : NotSpread (.lit v p) := by
  intro x q h; cases h

end Ckl.C02S
