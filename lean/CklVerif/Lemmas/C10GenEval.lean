/-
  Generic logic (see C10Gen): the induction step for `eval` itself (one case per node kind).
-/
import CklVerif.Lemmas.C10GenMutual
namespace Ckl.Gen
open Ckl Ckl.C05

variable {I : Rel}

/-- the finally stage of a block -/
theorem gpost_block {α} {s0 s s1 : State} {pos : Pos} {o : Out α}
    (hs : I.R s0 s) (h1 : I.R (ghostEnter s pos) s1) (ho : GPost I (ghostFin s1 pos) o) :
    GPost I s0 o := by
  cases o with
  | ok a s3 => exact I.block hs h1 ho
  | err v m p t s3 => exact I.block hs h1 ho
  | fail f s3 => exact fun hf => I.block hs h1 (ho hf)

section
variable {ld : Loader} {LS : Nat → Prop} {fuel : Nat}

theorem step_eval (ih : AllG I ld LS fuel) : ∀ s0 env n, GTr I s0 (eval ld (fuel+1) env n) := by
  have ihEval := ih.eval; have ihAnd := ih.evalAnd; have ihOr := ih.evalOr; have ihIf := ih.evalIf
  have ihSeq := ih.evalSeq; have ihItems := ih.evalItems; have ihPairs := ih.evalPairs
  have ihBody := ih.evalBody; have ihFin := ih.evalFinally; have ihTry := ih.tryHandlers
  have ihInvoke := ih.invoke; have ihFor := ih.evalFor; have ihWhile := ih.whileLoop
  have ihCL := ih.comprLoop; have ihCP := ih.comprProduct; have ihCPar := ih.comprParallel
  have ihReq := ih.evalRequire
  intro s0 env n
  cases n with
  | lit v pos => cases v <;> simp only [Ckl.eval] <;> gtr_auto
  | block es ce ch fin tl pos =>
    simp only [Ckl.eval]
    refine ⟨fun s hs => ?_⟩
    have hB := (ihBody (ghostEnter s pos) env es (.bool true)).run _ (I.refl _)
    have hT := fun v msg p t s' (h : I.R (ghostEnter s pos) s') =>
      (ihTry (ghostEnter s pos) env ce ch v msg p t).run s' h
    -- the finally stage: started after the matching `ghostFin`, it ends balanced w.r.t. `s0`
    have hF : ∀ s1, I.R (ghostEnter s pos) s1 →
        GPost I s0 (evalFinally ld fuel env fin (ghostFin s1 pos)) := fun s1 h1 =>
      gpost_block hs h1 ((ihFin (ghostFin s1 pos) env fin).run _ (I.refl _))
    revert hB
    cases evalBody ld fuel env es (.bool true) (ghostEnter s pos) with
    | ok v s1 =>
      intro hB
      dsimp only
      have hf := hF s1 hB; revert hf
      cases evalFinally ld fuel env fin (ghostFin s1 pos) <;> exact id
    | err v msg p t s1 =>
      intro hB
      dsimp only
      have ht := hT v msg p t s1 hB; revert ht
      cases tryHandlers ld fuel env ce ch v msg p t s1 with
      | ok hv s2 =>
        intro ht
        dsimp only
        have hf := hF s2 ht; revert hf
        cases evalFinally ld fuel env fin (ghostFin s2 pos) <;> exact id
      | err v' m' p' t' s2 =>
        intro ht
        dsimp only
        have hf := hF s2 ht; revert hf
        cases evalFinally ld fuel env fin (ghostFin s2 pos) <;> exact id
      | fail f s2 =>
        cases f with
        | oof => exact fun _ h => h.elim
        | unsupported w => exact fun _ h => h.elim
        | host k =>
          intro ht
          dsimp only
          have hf := hF s2 (ht trivial); revert hf
          cases evalFinally ld fuel env fin (ghostFin s2 pos) <;> first | exact id | exact fun h _ => h
        | syn e =>
          intro ht
          dsimp only
          have hf := hF s2 (ht trivial); revert hf
          cases evalFinally ld fuel env fin (ghostFin s2 pos) <;> first | exact id | exact fun h _ => h
    | fail f s1 =>
      cases f with
      | oof => exact fun _ h => h.elim
      | unsupported w => exact fun _ h => h.elim
      | host k =>
        intro hB
        dsimp only
        have hf := hF s1 (hB trivial); revert hf
        cases evalFinally ld fuel env fin (ghostFin s1 pos) <;> first | exact id | exact fun h _ => h
      | syn e =>
        intro hB
        dsimp only
        have hf := hF s1 (hB trivial); revert hf
        cases evalFinally ld fuel env fin (ghostFin s1 pos) <;> first | exact id | exact fun h _ => h
  | «for» ids e body what pos =>
    simp only [Ckl.eval]
    exact GTr.wrapForR (ihFor _ _ _ _ _ _ _)
      (fun s1 s => restoreVars env (hiddenVars s1 env ids) s)
      (fun s1 s => restoreVars env (hiddenVars s1 env ids) (ids.foldl (fun s x => s.remove env x) s))
      (fun s1 s => obs_restoreVars env _ s)
      (fun s1 s => (obs_restoreVars env _ _).trans (obs_foldl (fun s x => s.remove env x) (fun _ _ => rfl) ids s))
  | lambda ps ds body pos =>
    simp only [Ckl.eval]
    exact ⟨fun s hs => I.keep hs rfl⟩
  | compr kind shape ve ke id1 l1 w1 id2 l2 w2 cond pos =>
    cases shape <;> simp only [Ckl.eval] <;> gtr_auto
  | slice e a b pos =>
    by_cases hb : b = Node.absent
    · subst hb; simp only [Ckl.eval]; gtr_auto
    · simp only [Ckl.eval]; gtr_auto
  | ret e pos =>
    by_cases hb : e = Node.absent
    · subst hb; simp only [Ckl.eval]; gtr_auto
    · simp only [Ckl.eval]; gtr_auto
  | deref e i d pos =>
    by_cases hb : d = Node.absent
    · subst hb; simp only [Ckl.eval]; gtr_auto
    · simp only [Ckl.eval]; gtr_auto
  | _ => simp only [Ckl.eval] <;> gtr_auto

end
end Ckl.Gen
