/-
  Layer 1 — abstract syntax: one constructor per node class of `src/ckl/nodes.py`
  (the six list/set comprehension classes and the map comprehension collapse into
  `compr`).  Optional sub-nodes are the sentinel `Node.absent`, `catch all` is the
  sentinel `Node.catchAll`, so that `Node` nests only through `List Node`.
  Parallel Python lists (names/args, conditions/expressions, keys/values,
  parameters/defaults) stay parallel lists.
-/
import CklVerif.Model.Value
namespace Ckl

structure Pos where
  file : String := "-"
  line : Nat := 1
  col : Int := 1
deriving DecidableEq, Repr, Inhabited

inductive ComprKind | list | set | map
deriving DecidableEq, Repr, Inhabited

inductive ComprShape | single | product | parallel
deriving DecidableEq, Repr, Inhabited

inductive Node where
  | absent                                   -- Python `None` in an optional slot
  | catchAll                                 -- `catch all`
  | null (pos : Pos)                                                    -- NodeNull
  | lit (v : Val) (pos : Pos)                                           -- NodeLiteral
  | ident (name : String) (pos : Pos)                                   -- NodeIdentifier
  | and (es : List Node) (pos : Pos)                                    -- NodeAnd
  | or (es : List Node) (pos : Pos)                                     -- NodeOr
  | not (e : Node) (pos : Pos)                                          -- NodeNot
  | assign (name : String) (e : Node) (pos : Pos)                       -- NodeAssign
  | assignD (names : List String) (e : Node) (pos : Pos)                -- NodeAssignDestructuring
  | block (es : List Node) (catchErrs : List Node) (catchHandlers : List Node)
      (fin : List Node) (toplevel : Bool) (pos : Pos)                   -- NodeBlock
  | brk (pos : Pos)                                                     -- NodeBreak
  | cont (pos : Pos)                                                    -- NodeContinue
  | cls (name : String) (members : List Node) (pos : Pos)               -- NodeClass (members are defn)
  | defn (name : String) (e : Node) (info : String) (pos : Pos)         -- NodeDef
  | defD (names : List String) (e : Node) (info : String) (pos : Pos)   -- NodeDefDestructuring
  | deref (e : Node) (idx : Node) (dflt : Node) (pos : Pos)             -- NodeDeref
  | derefAssign (e : Node) (idx : Node) (v : Node) (pos : Pos)          -- NodeDerefAssign
  | derefInvoke (obj : Node) (member : String) (names : List (Option String))
      (args : List Node) (pos : Pos)                                    -- NodeDerefInvoke
  | slice (e : Node) (start : Node) (stop : Node) (pos : Pos)           -- NodeDerefSlice
  | error (e : Node) (pos : Pos)                                        -- NodeError
  | for (ids : List String) (e : Node) (body : Node) (what : String) (pos : Pos)   -- NodeFor
  | call (fn : Node) (names : List (Option String)) (args : List Node) (pos : Pos) -- NodeFuncall
  | ite (conds : List Node) (exprs : List Node) (els : Node) (pos : Pos)            -- NodeIf
  | isIn (e : Node) (container : Node) (pos : Pos)                      -- NodeIn
  | lambda (params : List String) (defaults : List Node) (body : Node) (pos : Pos)  -- NodeLambda
  | list (items : List Node) (pos : Pos)                                -- NodeList
  | compr (kind : ComprKind) (shape : ComprShape) (valueExpr : Node) (keyExpr : Node)
      (id1 : String) (list1 : Node) (what1 : Option String)
      (id2 : String) (list2 : Node) (what2 : Option String)
      (cond : Node) (pos : Pos)                                         -- Node{List,Set,Map}Comprehension*
  | map (keys : List Node) (values : List Node) (pos : Pos)             -- NodeMap
  | object (keys : List String) (values : List Node) (pos : Pos)        -- NodeObject
  | require (spec : Node) (name : Option String) (unqualified : Bool)
      (symbols : Option (List (String × String))) (pos : Pos)           -- NodeRequire
  | ret (e : Node) (pos : Pos)                                          -- NodeReturn
  | set (items : List Node) (pos : Pos)                                 -- NodeSet
  | spread (e : Node) (pos : Pos)                                       -- NodeSpread
  | while (c : Node) (body : Node) (pos : Pos)                          -- NodeWhile
deriving Inhabited, Repr

/-- token of the scanner -/
inductive TokType | identifier | keyword | operator | interpunction | string | int | decimal | boolean | pattern
deriving DecidableEq, Repr, Inhabited

structure Token where
  value : List Char
  type : TokType
  pos : Pos
deriving Repr, Inhabited

def TokType.name : TokType → String
  | .identifier => "identifier" | .keyword => "keyword" | .operator => "operator"
  | .interpunction => "interpunction" | .string => "string" | .int => "int"
  | .decimal => "decimal" | .boolean => "boolean" | .pattern => "pattern"

def TokType.ofName? : String → Option TokType
  | "identifier" => some .identifier | "keyword" => some .keyword | "operator" => some .operator
  | "interpunction" => some .interpunction | "string" => some .string | "int" => some .int
  | "decimal" => some .decimal | "boolean" => some .boolean | "pattern" => some .pattern
  | _ => none

/-- outcome of scanning / parsing: a syntax error with message and position -/
structure SynErr where
  msg : String
  pos : Pos
  /-- index of the offending token when known (ghost, for the correspondence) -/
  eof : Bool := false
deriving Repr, Inhabited

end Ckl
