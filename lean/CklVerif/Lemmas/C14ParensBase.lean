/-
  C14 (redundant parentheses, optional semicolons) — the relational framework of the *extension*
  proof.

  We relate two runs of the parser: the second run sees the tokens of the first run followed by
  `x.t :: x.rest`, where `x.t` is a *stopper*: a token that none of the continuation look-aheads
  of the parser accepts (`isCont x.t = false`).  The claim proved production by production (files
  `C14ParensSim*.lean`) is: if the first run succeeds with value `v` leaving the tokens `r`, then the
  second run succeeds with the same value `v` (positions included) leaving `r ++ x.t :: x.rest`.
  Nothing is claimed when the first run fails.
-/
import CklVerif.Model.Parser
namespace Ckl.C14X
open Ckl Ckl.Parser

local notation "kw" => (some TokType.keyword)
local notation "ip" => (some TokType.interpunction)
local notation "op" => (some TokType.operator)
local notation "idt" => (some TokType.identifier)

/-! ### continuation tokens and stoppers -/

/-- the (value, type) tests of the look-aheads of the parser that can *continue* a production that
    could also have stopped (at any of the up to three look-ahead positions).  Not in the table: the
    closing tokens `; ) ] , >> >>> *> do end catch finally` — they are looked at only at places
    where the production fails (or, for `;`/`catch`, has not finished) when the input ends there —
    and `then`, `=>`, which are only ever `match`ed. -/
def contTable : List (List Char × Option TokType) :=
  [ -- keywords
    (c!"if", kw), (c!"elif", kw), (c!"else", kw), (c!"or", kw), (c!"and", kw), (c!"not", kw), (c!"is", kw),
    (c!"in", kw), (c!"in", none), (c!"for", kw), (c!"also", kw), (c!"fn", kw), (c!"def", kw), (c!"require", kw),
    (c!"as", kw), (c!"while", kw),
    -- identifiers with a meaning after an expression
    (c!"unqualified", idt), (c!"import", idt), (c!"all", idt), (c!"keys", idt), (c!"values", idt),
    (c!"entries", idt), (c!"empty", idt), (c!"zero", idt), (c!"negative", idt), (c!"numerical", idt),
    (c!"alphanumerical", idt), (c!"date", idt), (c!"with", idt), (c!"hour", idt), (c!"time", idt),
    (c!"string", idt), (c!"int", idt), (c!"decimal", idt), (c!"boolean", idt), (c!"pattern", idt),
    (c!"None", idt), (c!"func", idt), (c!"input", idt), (c!"output", idt), (c!"list", idt), (c!"set", idt),
    (c!"map", idt), (c!"object", idt), (c!"node", idt),
    (c!"starts", idt), (c!"ends", idt), (c!"contains", idt), (c!"matches", idt),
    (c!"min_len", idt), (c!"max_len", idt), (c!"exact_len", idt), (c!"to", idt),
    -- operators
    (c!"=", op), (c!"+=", op), (c!"-=", op), (c!"*=", op), (c!"/=", op), (c!"%=", op),
    (c!"+", op), (c!"-", op), (c!"*", op), (c!"/", op), (c!"%", op), (c!"->", op), (c!"!>", op),
    -- postfix openers
    (c!"(", ip), (c!"[", ip) ]

/-- `t` can continue an expression / statement that could have ended before it -/
def isCont (t : Token) : Bool := contTable.any (fun p => St.tokIs t p.1 p.2) || isRelop t

/-- the extension: a stopper token followed by arbitrary tokens -/
structure Ext where
  t : Token
  rest : List Token
  stop : isCont t = false

theorem not_tokIs_of_stop {t : Token} (h : isCont t = false) {v : List Char} {ty : Option TokType}
    (hm : (v, ty) ∈ contTable) : St.tokIs t v ty = false := by
  unfold isCont at h
  simp only [Bool.or_eq_false_iff, List.any_eq_false] at h
  have := h.1 (v, ty) hm
  simpa using this

theorem Ext.not_tokIs (x : Ext) {v : List Char} {ty : Option TokType} (hm : (v, ty) ∈ contTable) :
    St.tokIs x.t v ty = false := not_tokIs_of_stop x.stop hm

theorem Ext.not_relop (x : Ext) : isRelop x.t = false := by
  have h := x.stop
  unfold isCont at h
  simp only [Bool.or_eq_false_iff] at h
  exact h.2

/-- the appended tokens -/
def Ext.toks (x : Ext) : List Token := x.t :: x.rest

/-! ### related lexer states and contexts -/

structure SRel (x : Ext) (s s' : St) : Prop where
  prev : s'.prev = s.prev
  toks : s'.toks = s.toks ++ x.t :: x.rest

/-- the two runs may report end-of-input errors at different positions; only the regex oracle is shared -/
structure CRel (c c' : Ctx) : Prop where
  validRe : c'.validRe = c.validRe

/-! ### related outcomes -/

/-- if the first run succeeds, the second succeeds with a related result -/
def ERel {A A' : Type} (r : A → A' → Prop) : Except PErr A → Except PErr A' → Prop
  | .ok a, .ok a' => r a a'
  | .ok _, .error _ => False
  | .error _, _ => True

@[simp] theorem ERel_ok {A A' : Type} {r : A → A' → Prop} {a : A} {a' : A'} :
    ERel r (.ok a) (.ok a') ↔ r a a' := Iff.rfl
@[simp] theorem ERel_error {A A' : Type} {r : A → A' → Prop} {e : PErr} {y : Except PErr A'} :
    ERel r (.error e : Except PErr A) y ↔ True := by cases y <;> exact Iff.rfl
@[simp] theorem ERel_pure {A A' : Type} {r : A → A' → Prop} {a : A} {a' : A'} :
    ERel r (pure a : Except PErr A) (pure a' : Except PErr A') ↔ r a a' := Iff.rfl
@[simp] theorem ERel_throw {A A' : Type} {r : A → A' → Prop} {e : PErr} {y : Except PErr A'} :
    ERel r (throw e : Except PErr A) y ↔ True := by cases y <;> exact Iff.rfl

theorem ERel.err {A A' : Type} {r : A → A' → Prop} {e : PErr} {y : Except PErr A'} :
    ERel r (.error e : Except PErr A) y := by cases y <;> trivial

@[simp] theorem bind_error {A B : Type} (e : PErr) (k : A → Except PErr B) :
    ((Except.error e : Except PErr A) >>= k) = .error e := rfl
@[simp] theorem map_error {A B : Type} (f : A → B) (e : PErr) :
    f <$> (Except.error e : Except PErr A) = .error e := rfl
@[simp] theorem bind_ok {A B : Type} (a : A) (k : A → Except PErr B) :
    ((Except.ok a : Except PErr A) >>= k) = k a := rfl

theorem ERel.bind {A A' B B' : Type} {r : A → A' → Prop} {q : B → B' → Prop}
    {x : Except PErr A} {x' : Except PErr A'} {k : A → Except PErr B} {k' : A' → Except PErr B'}
    (hx : ERel r x x') (hk : ∀ a a', r a a' → ERel q (k a) (k' a')) :
    ERel q (x >>= k) (x' >>= k') := by
  cases x with
  | error e => exact ERel.err
  | ok a => cases x' with
    | error e' => exact hx.elim
    | ok a' => exact hk a a' hx

theorem ERel.mono {A A' : Type} {r q : A → A' → Prop} {x : Except PErr A} {x' : Except PErr A'}
    (hx : ERel r x x') (h : ∀ a a', r a a' → q a a') : ERel q x x' := by
  cases x with
  | error e => exact ERel.err
  | ok a => cases x' with
    | error e' => exact hx.elim
    | ok a' => exact h a a' hx

/-- what `ERel` says about a successful first run -/
theorem ERel.of_ok {A A' : Type} {r : A → A' → Prop} {x : Except PErr A} {x' : Except PErr A'} {a : A}
    (h : ERel r x x') (hx : x = .ok a) : ∃ a', x' = .ok a' ∧ r a a' := by
  subst hx
  cases x' with
  | error e' => exact h.elim
  | ok a' => exact ⟨a', rfl, h⟩

/-- related results of a production: the same value, related remaining lexer states -/
def OLt {α : Type} {n m : Nat} (x : Ext) (o : OutLt α n) (o' : OutLt α m) : Prop :=
  o.val = o'.val ∧ SRel x o.st o'.st

def OLe {α : Type} {n m : Nat} (x : Ext) (o : OutLe α n) (o' : OutLe α m) : Prop :=
  o.val = o'.val ∧ SRel x o.st o'.st

/-- the weak form of `ERel` (for the productions that may stop in front of a `;` / `catch`:
    `pBareBlock`, `bareLoop`, `catchLoop`): the claim is made only for results of the first run
    that satisfy `P` (below: "the first run left at least one token") -/
def ERelW {A A' : Type} (P : A → Prop) (r : A → A' → Prop) : Except PErr A → Except PErr A' → Prop
  | .ok a, .ok a' => P a → r a a'
  | .ok a, .error _ => ¬ P a
  | .error _, _ => True

theorem ERelW.err {A A' : Type} {P : A → Prop} {r : A → A' → Prop} {e : PErr} {y : Except PErr A'} :
    ERelW P r (.error e : Except PErr A) y := by cases y <;> trivial

/-- a first run whose result violates `P` is related to everything -/
theorem ERelW.of_not {A A' : Type} {P : A → Prop} {r : A → A' → Prop} {a : A} {y : Except PErr A'}
    (h : ¬ P a) : ERelW P r (.ok a) y := by
  cases y with
  | error e => exact h
  | ok a' => exact fun hp => (h hp).elim

theorem ERelW.of_ERel {A A' : Type} {P : A → Prop} {r : A → A' → Prop} {y : Except PErr A} {y' : Except PErr A'}
    (h : ERel r y y') : ERelW P r y y' := by
  cases y with
  | error e => exact ERelW.err
  | ok a => cases y' with
    | error e' => exact h.elim
    | ok a' => exact fun _ => h

/-- a strong step followed by a weak continuation -/
theorem ERelW.bind {A A' B B' : Type} {r : A → A' → Prop} {P : B → Prop} {q : B → B' → Prop}
    {y : Except PErr A} {y' : Except PErr A'} {k : A → Except PErr B} {k' : A' → Except PErr B'}
    (hy : ERel r y y') (hk : ∀ a a', r a a' → ERelW P q (k a) (k' a')) :
    ERelW P q (y >>= k) (y' >>= k') := by
  cases y with
  | error e => exact ERelW.err
  | ok a => cases y' with
    | error e' => exact hy.elim
    | ok a' => exact hk a a' hy

/-- a weak step followed by a strong continuation that fails when the weak step gave nothing -/
theorem ERel.bindW {A A' B B' : Type} {P : A → Prop} {r : A → A' → Prop} {q : B → B' → Prop}
    {y : Except PErr A} {y' : Except PErr A'} {k : A → Except PErr B} {k' : A' → Except PErr B'}
    (hy : ERelW P r y y') (hn : ∀ a, ¬ P a → ∃ e, k a = .error e)
    (hk : ∀ a a', P a → r a a' → ERel q (k a) (k' a')) :
    ERel q (y >>= k) (y' >>= k') := by
  cases y with
  | error e => exact ERel.err
  | ok a =>
    by_cases hp : P a
    · cases y' with
      | error e' => exact (hy hp).elim
      | ok a' => exact hk a a' hp (hy hp)
    · obtain ⟨e, he⟩ := hn a hp
      show ERel q (k a) _
      rw [he]; exact ERel.err

/-- a weak step followed by a weak continuation that gives nothing when the weak step gave nothing -/
theorem ERelW.bindW {A A' B B' : Type} {P : A → Prop} {r : A → A' → Prop} {Q : B → Prop} {q : B → B' → Prop}
    {y : Except PErr A} {y' : Except PErr A'} {k : A → Except PErr B} {k' : A' → Except PErr B'}
    (hy : ERelW P r y y') (hn : ∀ a b, ¬ P a → k a = .ok b → ¬ Q b)
    (hk : ∀ a a', P a → r a a' → ERelW Q q (k a) (k' a')) :
    ERelW Q q (y >>= k) (y' >>= k') := by
  cases y with
  | error e => exact ERelW.err
  | ok a =>
    by_cases hp : P a
    · cases y' with
      | error e' => exact (hy hp).elim
      | ok a' => exact hk a a' hp (hy hp)
    · show ERelW Q q (k a) _
      cases hka : k a with
      | error e => exact ERelW.err
      | ok b => exact ERelW.of_not (hn a b hp hka)

/-- "the production left at least one token" -/
abbrev NELt {α : Type} {n : Nat} (o : OutLt α n) : Prop := o.st.toks ≠ []
abbrev NELe {α : Type} {n : Nat} (o : OutLe α n) : Prop := o.st.toks ≠ []

/-- related states in the subtypes returned by `matchIf`, `expect`, … -/
def SSub {P : St → Prop} {Q : St → Prop} (x : Ext) (a : { s : St // P s }) (a' : { s : St // Q s }) : Prop :=
  SRel x a.1 a'.1

theorem ERel_wkLt {α : Type} {x : Ext} {m n m' n' : Nat} {h : m ≤ n} {h' : m' ≤ n'}
    {y : R α m} {y' : R α m'} (hx : ERel (OLt x) y y') : ERel (OLt x) (wkLt h y) (wkLt h' y') := by
  cases y with
  | error e => exact ERel.err
  | ok a => cases y' with
    | error e' => exact hx.elim
    | ok a' => exact hx

theorem ERel_wkLe {α : Type} {x : Ext} {m n m' n' : Nat} {h : m ≤ n} {h' : m' ≤ n'}
    {y : Rle α m} {y' : Rle α m'} (hx : ERel (OLe x) y y') : ERel (OLe x) (wkLe h y) (wkLe h' y') := by
  cases y with
  | error e => exact ERel.err
  | ok a => cases y' with
    | error e' => exact hx.elim
    | ok a' => exact hx

theorem ERel_ltLe {α : Type} {x : Ext} {m n m' n' : Nat} {h : m ≤ n} {h' : m' ≤ n'}
    {y : R α m} {y' : R α m'} (hx : ERel (OLt x) y y') : ERel (OLe x) (ltLe h y) (ltLe h' y') := by
  cases y with
  | error e => exact ERel.err
  | ok a => cases y' with
    | error e' => exact hx.elim
    | ok a' => exact hx

theorem ERel_leLt {α : Type} {x : Ext} {m n m' n' : Nat} {h : m < n} {h' : m' < n'}
    {y : Rle α m} {y' : Rle α m'} (hx : ERel (OLe x) y y') : ERel (OLt x) (leLt h y) (leLt h' y') := by
  cases y with
  | error e => exact ERel.err
  | ok a => cases y' with
    | error e' => exact hx.elim
    | ok a' => exact hx

@[simp] theorem wkLt_error {α : Type} {m n : Nat} (h : m ≤ n) (e : PErr) :
    wkLt h (.error e : R α m) = .error e := rfl
@[simp] theorem wkLe_error {α : Type} {m n : Nat} (h : m ≤ n) (e : PErr) :
    wkLe h (.error e : Rle α m) = .error e := rfl
@[simp] theorem ltLe_error {α : Type} {m n : Nat} (h : m ≤ n) (e : PErr) :
    ltLe h (.error e : R α m) = .error e := rfl
@[simp] theorem leLt_error {α : Type} {m n : Nat} (h : m < n) (e : PErr) :
    leLt h (.error e : Rle α m) = .error e := rfl

end Ckl.C14X
