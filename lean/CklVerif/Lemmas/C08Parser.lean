/-
  C08 helper lemmas (parser part): a program consisting of an optional unary minus and one
  number token; value of the decimal numeral.
-/
import CklVerif.Proofs.C01Parser
namespace Ckl.C08
open Ckl Ckl.Parser

/-- If `parse_unary_expr` turns the whole token list `t :: rest` (first token not a keyword) into
    `e`, consuming everything, the chain `parse → parse_bare_block → parse_statement →
    parse_expression → … → parse_mul_expr` passes `e` through unchanged. -/
theorem parse_of_unary (validRe : List Char → Bool) (file : String) (t : Token) (rest : List Token)
    (e : Node) (q : Pos) (hk : t.type ≠ .keyword) (hstr : t.type ≠ .string)
    (hunary : ∀ c p, c.validRe = validRe → ∃ h, pUnary c ⟨p, t :: rest⟩ = .ok ⟨e, ⟨q, []⟩, h⟩)
    (hret : unwrapReturn e = e) :
    parseWith validRe file (t :: rest) = .ok e := by
  have hkw : ∀ p v, St.matchIf ⟨p, t :: rest⟩ v (some .keyword) = none := by
    intro p v; simp [St.matchIf, St.tokIs, hk]
  have hpk : ∀ p v, St.peekn ⟨p, t :: rest⟩ 1 v (some .keyword) = false := by
    intro p v; simp [St.peekn, St.tokIs, hk]
  have hmul : ∀ c p, c.validRe = validRe → ∃ h, pMul c ⟨p, t :: rest⟩ = .ok ⟨e, ⟨q, []⟩, h⟩ := by
    intro c p hc; obtain ⟨h, hu⟩ := hunary c p hc
    rw [pMul]; simp [hu, bind, Except.bind, pure, Except.pure]; rw [mulLoop]; simp
  have hadd : ∀ c p, c.validRe = validRe → ∃ h, pAdd c ⟨p, t :: rest⟩ = .ok ⟨e, ⟨q, []⟩, h⟩ := by
    intro c p hc; obtain ⟨h, hu⟩ := hmul c p hc
    rw [pAdd]; simp [hu, bind, Except.bind, pure, Except.pure]; rw [addLoop]; simp
  have hrel : ∀ c p, c.validRe = validRe → ∃ h, pRel c ⟨p, t :: rest⟩ = .ok ⟨e, ⟨q, []⟩, h⟩ := by
    intro c p hc; obtain ⟨h, hu⟩ := hadd c p hc
    rw [pRel]; simp [hu, bind, Except.bind, pure, Except.pure]
  have hnot : ∀ c p, c.validRe = validRe → ∃ h, pNot c ⟨p, t :: rest⟩ = .ok ⟨e, ⟨q, []⟩, h⟩ := by
    intro c p hc; obtain ⟨h, hu⟩ := hrel c p hc
    rw [pNot]; simp [hkw, hu]
  have hand : ∀ c p, c.validRe = validRe → ∃ h, pAnd c ⟨p, t :: rest⟩ = .ok ⟨e, ⟨q, []⟩, h⟩ := by
    intro c p hc; obtain ⟨h, hu⟩ := hnot c p hc
    rw [pAnd]; simp [hu, bind, Except.bind, pure, Except.pure]
  have hor : ∀ c p, c.validRe = validRe → ∃ h, pOr c ⟨p, t :: rest⟩ = .ok ⟨e, ⟨q, []⟩, h⟩ := by
    intro c p hc; obtain ⟨h, hu⟩ := hand c p hc
    rw [pOr]; simp [hu, bind, Except.bind, pure, Except.pure]
  have hexpr : ∀ c p, c.validRe = validRe → ∃ h, pExpression c ⟨p, t :: rest⟩ = .ok ⟨e, ⟨q, []⟩, h⟩ := by
    intro c p hc; obtain ⟨h, hu⟩ := hor c p hc
    rw [pExpression]; simp [hkw, hu]
  have htc : ∀ p, takeComment ⟨p, t :: rest⟩ = ([], ⟨⟨p, t :: rest⟩, Nat.le_refl _⟩) := by
    intro p; simp [takeComment, hstr]
  have hstmt : ∀ c p, c.validRe = validRe → ∃ h, pStatement c ⟨p, t :: rest⟩ = .ok ⟨e, ⟨q, []⟩, h⟩ := by
    intro c p hc; obtain ⟨h, hu⟩ := hexpr c p hc
    rw [pStatement]
    have htc := htc p
    generalize takeComment ⟨p, t :: rest⟩ = tc at htc ⊢
    subst htc
    simp [St.hasNext, hkw, hu, wkLt]
  have hbare : ∀ c p, c.validRe = validRe → ∃ h, pBareBlock c true ⟨p, t :: rest⟩ = .ok ⟨e, ⟨q, []⟩, h⟩ := by
    intro c p hc; obtain ⟨h, hu⟩ := hstmt c p hc
    rw [pBareBlock]
    simp [hpk, hu, St.hasNext, bind, Except.bind, pure, Except.pure]
  obtain ⟨h, hb⟩ := hbare ⟨endPosOf file (t :: rest), validRe⟩ t.pos rfl
  simp [parseWith, parseCore, hb, hret]

/-- `-` followed by an `int` token: `parse_unary_expr` folds the sign into the literal -/
theorem parse_neg_int (file : String) (tm t : Token) (n : Nat) (hm : tm.value = ['-'])
    (hmt : tm.type = .operator) (ht : t.type = .int) (hv : parseIntLit t.value = some n) :
    parse file [tm, t] = .ok (.lit (.int (-(n : Int))) t.pos) := by
  apply parse_of_unary _ _ _ _ _ t.pos
  · simp [hmt]
  · simp [hmt]
  · intro c p _
    have hprim : ∀ c p, pPrimary c true ⟨p, [t]⟩ =
        .ok ⟨.lit (.int (-(n : Int))) t.pos, ⟨t.pos, []⟩, by simp⟩ := by
      intro c p; rw [pPrimary]
      simp [St.hasNext, St.next, ht, hv, C01.postfixLoop_nil, leLt, bind, Except.bind]
    have hpred : ∀ c p, pPred c true ⟨p, [t]⟩ =
        .ok ⟨.lit (.int (-(n : Int))) t.pos, ⟨t.pos, []⟩, by simp⟩ := by
      intro c p; rw [pPred]; simp [hprim, bind, Except.bind, pure, Except.pure]
    refine ⟨by simp, ?_⟩
    rw [pUnary]
    simp [St.matchIf, St.tokIs, hm, hmt, St.peek, ht, hpred, bind, Except.bind, pure, Except.pure]
  · rfl

/-- `-` followed by a `decimal` token: the sign is folded into the literal as well -/
theorem parse_neg_dec (file : String) (tm t : Token) (m : Int) (e : Nat) (hm : tm.value = ['-'])
    (hmt : tm.type = .operator) (ht : t.type = .decimal) (hv : parseDecimal t.value = some (m, e)) :
    parse file [tm, t] = .ok (.lit (.dec (-m) e) t.pos) := by
  apply parse_of_unary _ _ _ _ _ t.pos
  · simp [hmt]
  · simp [hmt]
  · intro c p _
    have hprim : ∀ c p, pPrimary c true ⟨p, [t]⟩ =
        .ok ⟨.lit (.dec (-m) e) t.pos, ⟨t.pos, []⟩, by simp⟩ := by
      intro c p; rw [pPrimary]
      simp [St.hasNext, St.next, ht, hv, C01.postfixLoop_nil, leLt, bind, Except.bind]
    have hpred : ∀ c p, pPred c true ⟨p, [t]⟩ =
        .ok ⟨.lit (.dec (-m) e) t.pos, ⟨t.pos, []⟩, by simp⟩ := by
      intro c p; rw [pPred]; simp [hprim, bind, Except.bind, pure, Except.pure]
    refine ⟨by simp, ?_⟩
    rw [pUnary]
    simp [St.matchIf, St.tokIs, hm, hmt, St.peek, ht, hpred, bind, Except.bind, pure, Except.pure]
  · rfl

/-- a `pattern` token `//…//` whose inner text the regex oracle accepts parses to the pattern
    literal of the text between the delimiters -/
theorem parseWith_pattern (validRe : List Char → Bool) (file : String) (t : Token)
    (ht : t.type = .pattern)
    (hre : validRe ((t.value.take (t.value.length - 2)).drop 2) = true) :
    parseWith validRe file [t] =
      .ok (.lit (.pat ((t.value.take (t.value.length - 2)).drop 2)) t.pos) := by
  apply parse_of_unary _ _ _ _ _ t.pos
  · simp [ht]
  · simp [ht]
  · intro c p hc
    have hop : ∀ v, St.matchIf ⟨p, [t]⟩ v (some .operator) = none := by
      intro v; simp [St.matchIf, St.tokIs, ht]
    have hprim : pPrimary c false ⟨p, [t]⟩ =
        .ok ⟨.lit (.pat ((t.value.take (t.value.length - 2)).drop 2)) t.pos, ⟨t.pos, []⟩, by simp⟩ := by
      rw [pPrimary]
      simp [St.hasNext, St.next, ht, hc, hre, C01.postfixLoop_nil, leLt, bind, Except.bind]
    have hpred : pPred c false ⟨p, [t]⟩ =
        .ok ⟨.lit (.pat ((t.value.take (t.value.length - 2)).drop 2)) t.pos, ⟨t.pos, []⟩, by simp⟩ := by
      rw [pPred]; simp [hprim, bind, Except.bind, pure, Except.pure]
    refine ⟨by simp, ?_⟩
    rw [pUnary]; simp [hop, hpred]
  · rfl

/-! ### the value of a decimal numeral -/

theorem digitsVal_eq_ofDigitChars (cs : List Char) : digitsVal cs = Nat.ofDigitChars 10 cs 0 := by
  unfold digitsVal Nat.ofDigitChars
  congr 1
  funext acc c
  rw [Nat.mul_comm]; rfl

theorem digitsVal_toDigits (n : Nat) : digitsVal (Nat.toDigits 10 n) = n := by
  rw [digitsVal_eq_ofDigitChars]; exact Nat.ofDigitChars_ten_toDigits

theorem isDigit_digitChar : ∀ k < 10, isDigit (Nat.digitChar k) = true := by decide

theorem toDigits_all_isDigit (n : Nat) : (Nat.toDigits 10 n).all isDigit = true := by
  induction n using Nat.strongRecOn with
  | ind n ih =>
    rw [Nat.toDigits_eq_if (by decide)]
    split
    · simp [isDigit_digitChar n (by omega)]
    · rw [List.all_append, ih (n / 10) (by omega)]
      simp [isDigit_digitChar _ (Nat.mod_lt n (by decide : 0 < 10))]

/-- `int(str(n)) = n` as long as the numeral stays below CPython's 4300-digit limit -/
theorem parseIntLit_toDigits (n : Nat) (hlim : (Nat.toDigits 10 n).length ≤ 4300) :
    parseIntLit (Nat.toDigits 10 n) = some n := by
  unfold parseIntLit
  have h1 : (Nat.toDigits 10 n).isEmpty = false := by
    cases h : Nat.toDigits 10 n with
    | nil => exact absurd h Nat.toDigits_ne_nil
    | cons _ _ => rfl
  have h3 : ¬ (Nat.toDigits 10 n).length > 4300 := by omega
  simp [h1, toDigits_all_isDigit, h3, digitsVal_toDigits]

end Ckl.C08
