import CklVerif.Proofs.C20EndToEnd

#print axioms Ckl.E2E.mem_positions_bridge
#print axioms Ckl.E2E.tokenPos_of_mem
#print axioms Ckl.E2E.TokenPos.line_le
#print axioms Ckl.E2E.ast_pos_tokenPos
#print axioms Ckl.E2E.posSource_of_origin
#print axioms Ckl.E2E.interpretProg_origin
#print axioms Ckl.E2E.interpretProg_state_origin
#print axioms Ckl.E2E.interpret_error_line
#print axioms Ckl.E2E.interpret_syntax_error_line
#print axioms Ckl.E2E.interpret_error_line_same_file
#print axioms Ckl.E2E.interpret_error_line_fresh
#print axioms Ckl.E2E.module_pos_line
#print axioms Ckl.E2E.interpret_error_line_module
#print axioms Ckl.E2E.error_in_module_code
#print axioms Ckl.E2E.session_state_positions
#print axioms Ckl.E2E.session_error_line
#print axioms Ckl.E2E.Ex20.ldMod_fromTexts
#print axioms Ckl.E2E.Ex20.tx2_scan
