import CklVerif.Lemmas.C19SrcReduce

/-!
  C19Src (worker L2) — rules needed for core.ckl `any` / `all`:
  * `forListLive_ret_L2`: the invariant rule for `for x in <list cell>` that allows the loop to STOP EARLY with a `return` value;
  * `Calls.lambdaDefault2_L2`: `fn.execute` of a two-parameter closure whose second parameter is not bound and has a LAMBDA as default
    (evaluated in the callee frame: a fresh closure cell over the callee frame);
  * `PredOK_L2`: what the loop needs to know about the predicate value, with two instances (the default `fn(x) x`; a unary built-in).
-/
namespace Ckl.C19Src
open Ckl Ckl.C03 Ckl.Gen.LibSrc
variable (ld : Loader)

/-! ### `for` over a live list cell with early exit -/

/-- **Invariant rule for the loop over a live list cell, early exit allowed.**  Like `forListLive_inv`, but an iteration may also end
    with a `return` signal `r'` in a state satisfying `Q r' s'`; the loop then stops with exactly that value.  Conclusion: the loop
    from index `i` ends either normally (invariant at `xs.length`) or with a `return` signal satisfying `Q`. -/
theorem forListLive_ret_L2 {kb : Nat} {env : EnvId} {x : String} {a : Nat} {body : Node} {pos : Pos} (xs : List RVal)
    (I : Nat → RVal → State → Prop) (Q : RVal → State → Prop)
    (hcell : ∀ i r s, I i r s → s.cell a = some (.list xs))
    (hstep : ∀ i r s v, I i r s → xs[i]? = some v →
      ∃ r' s', Ev ld kb env body (s.put env x v) (.ok r' s') ∧
        ((isCtl r' = false ∧ I (i + 1) r' s') ∨ ((∃ w p, r' = .ret w p) ∧ Q r' s'))) :
    ∀ (n i : Nat) (r : RVal) (s : State), i + n = xs.length → I i r s →
      ∃ r' s', (I xs.length r' s' ∨ ((∃ w p, r' = .ret w p) ∧ Q r' s')) ∧
        ∀ f, kb + n + 1 < f → forListLive ld f env [x] a i body r pos s = .ok r' s' := by
  intro n
  induction n with
  | zero =>
    intro i r s hi hI
    refine ⟨r, s, Or.inl (by rw [← hi]; simpa using hI), fun f hf => ?_⟩
    obtain ⟨g, rfl, _⟩ := succ_of_lt hf
    rw [forListLive, EvalM.bind_apply]
    simp only [getS, hcell i r s hI]
    have : xs[i]? = none := by rw [List.getElem?_eq_none_iff]; omega
    simp only [this]; rfl
  | succ n ih =>
    intro i r s hi hI
    have hlt : i < xs.length := by omega
    obtain ⟨r1, s1, hb, hcase⟩ := hstep i r s xs[i] hI (List.getElem?_eq_getElem hlt)
    rcases hcase with ⟨hctl, hI1⟩ | ⟨⟨w, p, rfl⟩, hQ⟩
    · obtain ⟨r2, s2, hI2, hloop⟩ := ih (i + 1) r1 s1 (by omega) hI1
      refine ⟨r2, s2, hI2, fun f hf => ?_⟩
      obtain ⟨g, rfl, hg⟩ := succ_of_lt hf
      rw [forListLive, EvalM.bind_apply]
      simp only [getS, hcell i r s hI, List.getElem?_eq_getElem hlt]
      simp only [EvalM.bind_apply, bindLoopVars, modifyS, hb g (by omega)]
      unfold isCtl at hctl
      simp only [Bool.or_eq_false_iff] at hctl
      simp only [hctl.1.2, hctl.1.1, hctl.2, Bool.false_eq_true, if_false]
      exact hloop g (by omega)
    · refine ⟨.ret w p, s1, Or.inr ⟨⟨w, p, rfl⟩, hQ⟩, fun f hf => ?_⟩
      obtain ⟨g, rfl, hg⟩ := succ_of_lt hf
      rw [forListLive, EvalM.bind_apply]
      simp only [getS, hcell i r s hI, List.getElem?_eq_getElem hlt]
      simp only [EvalM.bind_apply, bindLoopVars, modifyS, hb g (by omega)]
      rfl

/-! ### a parameter whose default is a lambda -/

/-- the callee state of a two-parameter closure called with only the first parameter bound, the default of the second being a
    lambda: the lambda is evaluated in the callee frame (a fresh closure cell at the old heap size, closed over the callee frame) -/
def calleeStateLam_L2 (s : State) (m : EnvId) (q1 q2 : String) (v : RVal) (ps : List String) (ds : List Node) (lbody : Node) :
    State :=
  ((((s.newEnv m).1.put s.frames.size q1 v).alloc (.closure s.frames.size ps ds lbody "lambda")).1.put
    s.frames.size q2 (.closure s.heap.size))

theorem Calls.lambdaDefault2_L2 {k : Nat} {c : Nat} {bound : List (String × RVal)} {env pos} {s : State} {m nm r}
    {q1 q2 : String} {v : RVal} {ps : List String} {ds : List Node} {lbody fbody : Node} {lp : Pos}
    (hcell : s.cell c = some (.closure m [q1, q2] [.absent, .lambda ps ds lbody lp] fbody nm))
    (hk : 3 ≤ k) (h1 : dictGet q1 bound = some v) (h2 : dictGet q2 bound = none)
    (hbody : Ev ld k s.frames.size fbody (calleeStateLam_L2 s m q1 q2 v ps ds lbody) r) :
    Calls ld (k + 1) (.closure c) bound env pos s (postCall r) := by
  intro f hf; obtain ⟨g, rfl, hg⟩ := succ_of_lt hf
  obtain ⟨g3, rfl⟩ : ∃ g3, g = g3 + 3 := ⟨g - 3, by omega⟩
  have hbind : bindParams ld (g3 + 3) s.frames.size [q1, q2] [.absent, .lambda ps ds lbody lp] bound pos
      (s.newEnv m).1 = .ok () (calleeStateLam_L2 s m q1 q2 v ps ds lbody) := by
    rw [bindParams]
    simp only [EvalM.bind_apply, modifyS, h1]
    rw [bindParams]
    · simp only [h2]
      rw [bindParams]
      · simp only [Bool.false_eq_true, if_false, EvalM.bind_apply, Ev.lambda ld (k := 0) (g3 + 1) (by omega), modifyS]
        rfl
      · intro _ _ _ _ h; cases h
    · intro h; cases h
  rw [C04.callFn_closure ld hcell hbind]
  rw [hbody (g3 + 3) (by omega)]
  cases r with
  | ok v s' => cases v <;> rfl
  | err => rfl
  | fail => rfl

end Ckl.C19Src
