"""C01 Parsing is total: every source text yields a program or a syntax error."""
import itertools
import multiprocessing as mp
import re
import warnings

from harness import core, proto, astdump, gensyntax
from harness.props import common

warnings.filterwarnings("ignore", category=FutureWarning)

COL = re.compile(r"(@\d+):-?\d+")      # columns are not part of any property: compare lines only


NOISE_ALPHABET = list("ab_x.e019()[],;+-*/%<>=!\"'\\# \t\r\n#fnrtTRUE") + ["é", " ", "\U0001F600"]


_hang = {"n": 0, "skip": 0}


def impl_outcome(src):
    """parse twice on the implementation; returns (outcome tuple, bad_patterns)"""
    from ckl.lexer import Lexer
    from ckl.parser import parse_script
    from ckl.errors import CklSyntaxError
    outs = []
    bad = []
    # a tree on which parsing hangs would otherwise cost 4 s of CPU per hanging text: once this worker has seen a few time-outs the
    # bound shrinks, and after many the remaining texts are only sampled (the verdict - a concrete hanging text - is already there)
    limit = 2 if _hang["n"] < 4 else 0.5
    if _hang["n"] >= 40:
        _hang["skip"] += 1
        if _hang["skip"] % 50:
            return [('skipped',), ('skipped',)], bad
    for attempt in range(2):
        try:
            with core.time_limit(limit):
                node = parse_script(src, "f")
                outs.append(('ast', COL.sub(r"\1", astdump.dump(node, True))))
        except core.Timeout:
            outs.append(('timeout',))
            outs.append(('timeout',))
            _hang["n"] += 1
            return outs, bad
        except CklSyntaxError as e:
            ok = isinstance(e.msg, str) and e.msg != "" and e.pos is not None and isinstance(getattr(e.pos, "line", None), int) and e.pos.line >= 1
            outs.append(('syn', e.pos.line if e.pos is not None else None, str(e.msg).startswith("Unexpected end of input"), ok, str(e.msg)[:80]))
        except RecursionError:
            outs.append(('deep',))
        except Exception as e:  # noqa
            outs.append(('host', type(e).__name__ + ": " + str(e)[:100]))
    try:
        with core.time_limit(2):
            for t in Lexer(src, "f").scan().tokens:
                if t.type == "pattern":
                    try:
                        re.compile(t.value[2:-2])
                    except Exception:  # noqa
                        bad.append(t.value[2:-2])
    except Exception:  # noqa
        pass
    return outs, bad


def _worker(srcs):
    core.use_repo()
    return [(s,) + impl_outcome(s) for s in srcs]


def tokens_of(src):
    from ckl.lexer import Lexer
    try:
        with core.time_limit(2):
            return [(t.value, t.type) for t in Lexer(src, "f").scan().tokens]
    except Exception:  # noqa
        return None


OPENERS = re.compile(r"<<<|<<|<\*|[(\[]|\b(?:do|if|then|else|elif|for|while|fn|def|not|and|or|in|is)\b|[-+*/%]")


def nesting_measure(src):
    """an upper bound on the syntactic nesting depth of the text: the number of tokens that can open a nested construct"""
    return len(OPENERS.findall(src))


def nest(depth, rng):
    k = rng.randrange(6)
    inner = "1"
    for _ in range(depth):
        if k == 0:
            inner = f"({inner})"
        elif k == 1:
            inner = f"[{inner}]"
        elif k == 2:
            inner = f"f({inner})"
        elif k == 3:
            inner = f"do {inner} end"
        elif k == 4:
            inner = f"if TRUE then {inner} else 0"
        else:
            inner = f"<<{inner}>>"
    return inner


def build_inputs(ctx):
    rng = ctx.rng
    g = gensyntax.Gen(rng, maxdepth=4)
    inputs = {}

    def add(s, kind):
        if s not in inputs:
            inputs[s] = kind
    nprog = 900 if ctx.thorough else 160
    programs = [g.program() for _ in range(nprog)]
    alphabet_tokens = ([(k, "keyword") for k in gensyntax.KEYWORDS] + [(o, "operator") for o in gensyntax.OPERATORS] +
                       [(i, "interpunction") for i in gensyntax.INTERPUNCTION] + [(i, "identifier") for i in gensyntax.IDENTS] +
                       [(None, "lit")] * 10)
    for p in programs:
        add(p, "program")
        toks = tokens_of(p)
        # every character prefix (bounded) and every token prefix
        step = 1 if len(p) < 120 else max(1, len(p) // 120)
        for i in range(0, len(p), step):
            add(p[:i], "char-prefix")
        if toks:
            for i in range(len(toks)):
                add(gensyntax.render_tokens(toks[:i]), "token-prefix")
            # single-token deletion / insertion / substitution
            idxs = range(len(toks)) if len(toks) <= 40 else rng.sample(range(len(toks)), 40)
            for i in idxs:
                add(gensyntax.render_tokens(toks[:i] + toks[i + 1:]), "token-deletion")
                v, t = rng.choice(alphabet_tokens)
                if v is None:
                    new = rng.choice(gensyntax.LITERALS)
                    ins = toks[:i] + [(new, "raw")] + toks[i:]
                    sub = toks[:i] + [(new, "raw")] + toks[i + 1:]
                else:
                    ins = toks[:i] + [(v, t)] + toks[i:]
                    sub = toks[:i] + [(v, t)] + toks[i + 1:]
                add(gensyntax.render_tokens(ins), "token-insertion")
                add(gensyntax.render_tokens(sub), "token-substitution")
    # arbitrary token sequences over the full alphabet
    for _ in range(6000 if ctx.thorough else 1500):
        n = rng.randint(1, 12)
        seq = []
        for _ in range(n):
            v, t = rng.choice(alphabet_tokens)
            seq.append(rng.choice(gensyntax.LITERALS) if v is None else v)
        add(" ".join(seq), "token-noise")
    # raw character noise
    for _ in range(8000 if ctx.thorough else 2000):
        add("".join(rng.choice(NOISE_ALPHABET) for _ in range(rng.randint(1, 14))), "char-noise")
    # exhaustive short strings over the scanner's alphabet (transition cover)
    small = list("a0x_.'\"\\/<>=!+-*# \n(fb1")
    maxk = 3 if ctx.thorough else 2
    for k in range(1, maxk + 1):
        for tup in itertools.product(small, repeat=k):
            add("".join(tup), "transition-cover")
    # number / escape edge forms
    for s in ["0x ", "0b", "0x_", "0b2", "0xg", "1.", "1..2", "1.5.5", "0x1F.5", '"\\xZZ"', "'\\x4", "'abc", "//abc", "//[//", "//a{2,1}//", "1" * 4300, "1" * 4301,
              "0x" + "f" * 3600, "0b" + "1" * 14300, "checkerlang_x = 1", "[checkerlang_y] = [1]", "def class X do 1 end", "def class X do", "x !> ", "...", "... 1",
              "[x for x in y] = 3", "[a] !> f() = 3", "return;", "fn() return;", "do 1; return; end", "1e5", "- -3", "not not x", "a is not foo", "a is foo",
              "m[k, d] = v", "require X import [a, a as b]", "1 + a = 2", "'doc' def f() 1", "if a then b if c then d else e", "//(?a)(?u)x//", "//a{99999999999999999999}//"]:
        add(s, "edge")
    # string literals whose content is the text of an operator / keyword / bracket (the parser must go by token TYPE), after an operand
    for v in gensyntax.OPERATORS + gensyntax.INTERPUNCTION + gensyntax.KEYWORDS[:12]:
        for q in ("'", '"'):
            if q in v:
                continue
            lit_ = q + v + q
            for tmpl in ("1 {} 2", "x {} y", "f({})", "{} 1", "[1 {} 2]", "a {} {} b", "def x = 1 {}", "{}"):
                add(tmpl.format(*([lit_] * tmpl.count("{}"))), "type-confusion")
    # escape forms in both quote styles: \x followed by every pair from a small alphabet
    for q in ("'", '"'):
        for c1 in "-+ 0aAgG_xX\\" + q:
            for c2 in "-1fFgz " + q:
                add(q + "a\\x" + c1 + c2 + "b" + q, "escape-cover")
                add(q + "\\x" + c1 + c2, "escape-cover")
        for c in "nrtx\\0abfuU'\"#{} \n":
            add(q + "\\" + c + q, "escape-cover")
            add(q + "z\\" + c, "escape-cover")
        # escape letters followed by the bodies other languages give them (braced / fixed-width / octal code points, in and out of
        # range, empty, signed, non-hex): whatever the scanner makes of them, it must be a token or a syntax error
        for c in "xuUNo0c":
            for body in ("{0}", "{41}", "{1F600}", "{10FFFF}", "{110000}", "{FFFFFFFF}", "{" + "9" * 30 + "}", "{}", "{zz}", "{-1}", "{+41}", "{4 1}", "{41",
                         "0041", "0001F600", "00110000", "FFFFFFFF", "777", "400", "{LATIN SMALL LETTER A}", "[41]", "(41)"):
                add(q + "a\\" + c + body + "b" + q, "escape-cover")
                add(q + "\\" + c + body, "escape-cover")
    # pattern literals the host's regex compiler refuses at different stages (tokenising, parsing, code generation: look-behind of variable
    # width, bad group references, duplicate / malformed names, bad ranges and repeats, unknown flags, huge repeats), alone and inside programs
    for rx in ["(?<=a+)b", "(?<!x*)y", "(a)(?<=\\1+)", "(?<=a|bc)d", "(?P<n>a)(?P<n>b)", "(?P=undefined)", "(?P<1>a)", "(?P<n", "(?P<n>", "a**", "a*+", "(?i", "(?z)",
               "(?-)", "[z-a]", "[a", "(?#", "a{2,1}", "a{99999999999}", "(", ")", "(?(1)a|b|c)", "(?(9)a)", "(?(x)a)", "*a", "+", "?", "\\8", "\\", "(?<n>a)",
               "(?<=(a))\\1", "(?<=\\b+)", "((((((((((((((((((((a))))))))))))))))))))\\21", "(?i)(?-i)", "(?s-s:a)", "[[:alpha:]]", "[a-\\d]", "\\N{NOPE}", "\\x", "\\u12"]:
        add("//" + rx + "//", "edge")
        add("def p = //" + rx + "//; 1", "edge")
        add("f(//" + rx + "//, 2)", "edge")
        add("x matches //" + rx + "//", "edge")
    # nesting up to depth 40
    for d in (1, 5, 10, 20, 30, 40):
        for _ in range(3):
            add(nest(d, rng), "nesting")
    return inputs


def run(ctx):
    inputs = build_inputs(ctx)
    ctx.rule = ("generated full-syntax programs with every character prefix, every token prefix and single-token deletion/insertion/"
                "substitution, random token sequences over the full token alphabet, string literals spelling operators / keywords / brackets after an operand, "
                "escape forms in both quote styles, raw character noise, exhaustive short strings over "
                "the scanner's alphabet, literal edge forms, nesting to depth 40; every input parsed twice (determinism) under a 2 s bound; "
                "non-trivial = the text has >= 2 tokens or ends inside a token")
    srcs = list(inputs.keys())
    chunks = [srcs[i:i + 400] for i in range(0, len(srcs), 400)]
    results = {}
    with mp.Pool(16) as pool:
        for res in pool.imap_unordered(_worker, chunks):
            for s, outs, bad in res:
                results[s] = (outs, bad)
    reqs = []
    for s in srcs:
        outs, bad = results[s]
        reqs.append("(parsesrc s:" + proto.enc_str(s) + "".join(" s:" + proto.enc_str(b) for b in bad) + ")")
    resp = core.run_driver(reqs) if ctx.build.ok else [None] * len(srcs)
    for s, r in zip(srcs, resp):
        outs, bad = results[s]
        kind = inputs[s]
        ctx.seen(s, nontrivial=len(s.split()) >= 2 or kind in ("char-prefix", "char-noise", "transition-cover", "edge", "type-confusion", "escape-cover"))
        ctx.count("inputs_" + kind)
        a, b = outs
        rp = {"op": "parse", "src": s, "kind": kind}
        ctx.count("outcome_" + a[0])
        if a[0] == 'skipped':
            continue        # only on a tree where many texts already hang (each reported below)
        if a != b:
            ctx.violation("oracle", f"the same text gives two outcomes: {a[:3]} / {b[:3]}: {s!r}", rp)
        if a[0] == 'host':
            ctx.violation("oracle", f"parsing {s[:120]!r} raises a host exception {a[1]}", rp)
        elif a[0] == 'timeout':
            ctx.violation("oracle", f"parsing {s[:120]!r} does not return within 2 s of CPU time", rp)
        elif a[0] == 'deep' and nesting_measure(s) < 25:
            # the host's recursion limit is only an excuse for deeply nested text
            ctx.violation("oracle", f"parsing {s[:120]!r} exhausts the host stack although the text is not deeply nested", rp)
        elif a[0] == 'syn' and not a[3]:
            ctx.violation("oracle", f"syntax error without a message or position for {s[:120]!r}: {a}", rp)
        if r is None or a[0] in ('deep',):
            continue
        x = proto.parse_sx(r)
        if x[0] == "ast":
            model = ('ast', COL.sub(r"\1", r[5:-1]))
        elif x[0] == "syn":
            model = ('syn', int(x[2]), x[3] == "T")
        else:
            raise RuntimeError("driver: " + r[:200])
        if a[0] == 'ast':
            ok = model == a
        elif a[0] == 'syn':
            ok = model[0] == 'syn' and model[1] == a[1] and model[2] == a[2]
        else:
            ok = False
        if not ok:
            ctx.disagreements += 1
            ctx.violation("correspondence", f"{s[:160]!r}: implementation {a[:3] if a[0] != 'ast' else 'ast'}, model {model[:3] if model[0] != 'ast' else 'ast (different)'}",
                          {"op": "parse", "src": s, "correspondence": "Ckl.parseScript (Lexer.scan >=> Parser.parse) vs ckl.parser.parse_script"})
    for s in srcs[:3]:
        ctx.sample({"input": s[:160], "kind": inputs[s], "outcome": results[s][0][0][0]})
    ctx.sample({"input": "def class X do 1 end", "outcome": "syntax error"})
    common.replay_known(ctx)


def replay(ctx, payload):
    return common.generic_replay(ctx, payload)
