/-
  C10 (sessions) — an interpreter keeps what it has; a failed call leaves no other residue.

  One `interpret` call evaluates the program in the session frame of the interpreter's state and
  leaves the state it ended in — whatever the outcome (value, runtime error, syntax error of a
  required module, host exception).  The theorems:

  * `bindings_monotone`, `def_persists`, `session_bindings_persist`: every name bound in the session
    frame stays bound, across statements and across calls, failed ones included — with no exception
    for loop identifiers: a `for` loop hides a variable of the same name only for the duration of the
    loop and puts the hidden binding back, with its old value (`for_restores_value`), when the loop
    ends or is aborted by an error;
  * `frames_never_shrink`: frames and heap cells are never deallocated, every cell keeps its kind,
    a closure keeps its definition environment, parameters, defaults and body;
  * `prefix_effects_survive_failure`, `later_statements_do_not_run`: a statement sequence stops at
    the first failing statement, in exactly the state that statement left, and nothing after it runs;
  * `session_step_deterministic`, `failed_call_same_error_again`, `instances_independent`.

  "Whatever the outcome" excludes, for the bindings, the two outcomes with which the model abstains
  (out of fuel, unsupported construct): they have no counterpart in the implementation and end a
  session of the model (`Session.run` returns `none`).  The empty string — which is no identifier —
  is excluded as a name: the model of a (degenerate, never parsed) `for` without identifiers over a
  string uses it as the loop variable.
-/
import CklVerif.Lemmas.C10SessEval
import CklVerif.Lemmas.C10SessBody
import CklVerif.Driver.EvalCmd
namespace Ckl.C10S
open Ckl Ckl.C05 Ckl.C03

variable {ld : Loader}

/-! ### the unmodelled natives -/

/-- the driver's default interpretation of the unmodelled natives abstains, in the same state -/
theorem default_nativeGrows : NativeGrows {} := fun _ _ s => Grow.refl s

theorem nativeGrows_of_abstains {ld : Loader}
    (h : ∀ name args s, ∃ w, ld.nativeSem name args s = .fail (.unsupported w) s) : NativeGrows ld := by
  intro name args s
  obtain ⟨w, hw⟩ := h name args s
  rw [hw]; exact Grow.refl s

/-! ### 1. bindings of the session frame persist -/

/-- the model abstains: out of fuel, or a construct outside the modelled subset -/
def Abstains {α} : Out α → Prop
  | .fail .oof _ => True
  | .fail (.unsupported _) _ => True
  | _ => False

theorem HPost.mono_of_not_abstains {α} {e : EnvId} {X : String → Prop} {s0 : State} {o : Out α}
    (h : HPost e X X s0 o) (hna : ¬ Abstains o) : Mono e X s0 (stOf o) := by
  cases o with
  | ok a s => exact h
  | err v m p t s => exact h
  | fail f s =>
    cases f with
    | oof => exact absurd trivial hna
    | unsupported w => exact absurd trivial hna
    | host k => exact h.1 trivial
    | syn e => exact h.1 trivial

/-- the general statement, for every frame `env` and every exception set `X` (empty in the
    applications): value / runtime error / hard failure: nothing is lost, and in frame `env` every
    name outside `X` stays bound; any other failure: at least nothing is deallocated -/
theorem eval_post (hN : NativeGrows ld) (fuel : Nat) (env : EnvId) (n : Node) (s : State)
    (X : String → Prop) : HPost env X X s (eval ld fuel env n s) :=
  ((allK hN fuel).eval X s env n).run s (Mono.refl s)

theorem evalBody_post (hN : NativeGrows ld) (fuel : Nat) (env : EnvId) (ns : List Node) (last : RVal)
    (s : State) (X : String → Prop) : HPost env X X s (evalBody ld fuel env ns last s) :=
  ((allK hN fuel).evalBody X s env ns last).run s (Mono.refl s)

/-- `Mono` with the empty exception set, for the outcomes with which the model does not abstain -/
theorem eval_mono (hN : NativeGrows ld) (fuel : Nat) (env : EnvId) (n : Node) (s : State)
    (hna : ¬ Abstains (eval ld fuel env n s)) :
    Mono env (fun _ => False) s (stOf (eval ld fuel env n s)) :=
  (eval_post hN fuel env n s _).mono_of_not_abstains hna

theorem evalBody_mono (hN : NativeGrows ld) (fuel : Nat) (env : EnvId) (ns : List Node) (last : RVal)
    (s : State) (hna : ¬ Abstains (evalBody ld fuel env ns last s)) :
    Mono env (fun _ => False) s (stOf (evalBody ld fuel env ns last s)) :=
  (evalBody_post hN fuel env ns last s _).mono_of_not_abstains hna

/-- **bindings_monotone.**  If `eval ld fuel env n s` ends in state `s'` with a value, a runtime
    error, a syntax error of a required module or a host exception (i.e. unless the model abstains),
    EVERY name bound in frame `env` of `s` is still bound in frame `env` of `s'` — loop identifiers
    of `for` statements of `n` included. -/
theorem bindings_monotone (hN : NativeGrows ld) {fuel : Nat} {env : EnvId} {n : Node} {s : State}
    (hna : ¬ Abstains (eval ld fuel env n s)) {x : String} (hx : x ≠ "")
    (hb : dictHas x (s.frame env).vars = true) :
    dictHas x ((stOf (eval ld fuel env n s)).frame env).vars = true :=
  (eval_mono hN fuel env n s hna).bound x hx (fun h => h) hb

/-- the two outcomes the property speaks about -/
theorem bindings_monotone_ok (hN : NativeGrows ld) {fuel : Nat} {env : EnvId} {n : Node} {s s' : State}
    {v : RVal} (h : eval ld fuel env n s = .ok v s') {x : String} (hx : x ≠ "")
    (hb : dictHas x (s.frame env).vars = true) : dictHas x (s'.frame env).vars = true := by
  have := bindings_monotone hN (fuel := fuel) (env := env) (n := n) (s := s) (by rw [h]; exact id) hx hb
  rw [h] at this; exact this

theorem bindings_monotone_err (hN : NativeGrows ld) {fuel : Nat} {env : EnvId} {n : Node} {s s' : State}
    {v : RVal} {m : String} {p : Pos} {t : List (String × Pos)}
    (h : eval ld fuel env n s = .err v m p t s') {x : String} (hx : x ≠ "")
    (hb : dictHas x (s.frame env).vars = true) : dictHas x (s'.frame env).vars = true := by
  have := bindings_monotone hN (fuel := fuel) (env := env) (n := n) (s := s) (by rw [h]; exact id) hx hb
  rw [h] at this; exact this

theorem frames_size_removeAll (env : EnvId) (ids : List String) (s : State) :
    (ids.foldl (fun s x => s.remove env x) s).frames.size = s.frames.size := by
  induction ids generalizing s with
  | nil => rfl
  | cons y ys ih => rw [List.foldl_cons, ih, frames_size_remove]

/-- **for_restores_value.**  A loop identifier that was bound in frame `env` before a `for`
    statement is bound to exactly its old value after it, whether the loop ended with a value or
    was aborted by a runtime error — whatever the loop body did to the variable in between. -/
theorem for_restores_value (hN : NativeGrows ld) {fuel : Nat} {env : EnvId} {ids : List String}
    {c body : Node} {what : String} {pos : Pos} {s : State} {x : String} {v : RVal}
    (hx : x ∈ ids) (hv : dictGet x (s.frame env).vars = some v) :
    (∀ r s', eval ld fuel env (.for ids c body what pos) s = .ok r s' →
      dictGet x (s'.frame env).vars = some v) ∧
    (∀ w m p t s', eval ld fuel env (.for ids c body what pos) s = .err w m p t s' →
      dictGet x (s'.frame env).vars = some v) := by
  have hl : env < s.frames.size := Mono.live_of_bound (e := env) (x := x) (by simp only [dictHas, hv]; rfl)
  have huniq : ∀ w, (x, w) ∈ hiddenVars s env ids → w = v := fun w hw => by
    have := of_mem_hiddenVars hw; rw [hv] at this; exact (Option.some.inj this).symm
  have hmem := mem_hiddenVars hx hv
  cases fuel with
  | zero => constructor <;> (intros; rename_i h; simp only [eval] at h; cases h)
  | succ f =>
    have hp := (((allK (e := env) hN f).evalFor (fun _ => True) s env ids c body what pos).run s (Mono.refl s)).all
    simp only [eval]
    cases hr : evalFor ld f env ids c body what pos s with
    | ok r0 t =>
      rw [hr] at hp
      refine ⟨fun r s' h => ?_, fun w m p t' s' h => (by cases h)⟩
      simp only [Out.ok.injEq] at h
      obtain ⟨_, rfl⟩ := h
      exact restoreVars_get env _ t x v (Nat.lt_of_lt_of_le hl hp.frames) hmem huniq
    | err w0 m0 p0 t0 t =>
      rw [hr] at hp
      refine ⟨fun r s' h => (by cases h), fun w m p t' s' h => ?_⟩
      simp only [Out.err.injEq] at h
      obtain ⟨_, _, _, _, rfl⟩ := h
      refine restoreVars_get env _ _ x v ?_ hmem huniq
      rw [frames_size_removeAll]; exact Nat.lt_of_lt_of_le hl hp.frames
    | fail k t => cases k <;> exact ⟨fun r s' h => (by cases h), fun w m p t' s' h => (by cases h)⟩

/-- a name bound in the frame itself is what `lookup` finds first -/
theorem lookup_of_dictGet {s : State} {env : EnvId} {x : String} {v : RVal}
    (h : dictGet x (s.frame env).vars = some v) : s.lookup env x = some v := by
  simp only [State.lookup, State.lookupF, h]

theorem isDefined_of_dictHas {s : State} {env : EnvId} {x : String}
    (h : dictHas x (s.frame env).vars = true) : s.isDefined env x = true := by
  unfold dictHas at h
  cases hg : dictGet x (s.frame env).vars with
  | none => rw [hg] at h; cases h
  | some v => simp only [State.isDefined, lookup_of_dictGet hg]; rfl

theorem renameClosure_run (v : RVal) (n : String) (s : State) :
    ∃ s', renameClosure v n s = .ok () s' ∧ s'.frames = s.frames := by
  unfold renameClosure
  cases v with
  | closure a =>
    simp only [bind_def, getS_run]
    cases hcell : s.cell a with
    | none => exact ⟨s, rfl, rfl⟩
    | some c =>
      cases c with
      | closure ce ps ds b nm => exact ⟨_, rfl, rfl⟩
      | _ => exact ⟨s, rfl, rfl⟩
  | _ => exact ⟨s, rfl, rfl⟩

/-- **def_persists.**  After `def x = e` has succeeded in the (existing) frame `env`, `x` is bound
    there to the value, and that is what a lookup from this frame finds. -/
theorem def_persists (hN : NativeGrows ld) {fuel : Nat} {env : EnvId} {x : String} {e : Node}
    {info : String} {pos : Pos} {s s' : State} {v : RVal} (he : env < s.frames.size)
    (h : eval ld fuel env (.defn x e info pos) s = .ok v s') :
    dictGet x (s'.frame env).vars = some v ∧ s'.lookup env x = some v := by
  cases fuel with
  | zero => simp only [eval] at h; cases h
  | succ f =>
    simp only [eval] at h
    rw [bind_def] at h
    have hm := (eval_post hN f env e s (fun _ => True)).all
    cases hr : eval ld f env e s with
    | ok v1 s1 =>
      rw [hr] at h hm
      dsimp only at h
      have he1 : env < s1.frames.size := Nat.lt_of_lt_of_le he hm.frames
      obtain ⟨s2, hrc, hfr⟩ := renameClosure_run v1 x (s1.put env x v1)
      have h2 : (do modifyS (fun s => s.put env x v1); renameClosure v1 x; (pure v1 : EvalM RVal)) s1 = .ok v1 s2 := by
        show (modifyS (fun s => s.put env x v1) >>= fun _ => renameClosure v1 x >>= fun _ => pure v1) s1 = _
        rw [bind_def]
        show (renameClosure v1 x >>= fun _ => (pure v1 : EvalM RVal)) (s1.put env x v1) = _
        rw [bind_def, hrc]; rfl
      rw [h2] at h
      cases h
      have hframe : s'.frame env = (s1.put env x v).frame env := by simp only [State.frame, hfr]
      have hg : dictGet x (s'.frame env).vars = some v := by
        rw [hframe, vars_put_same s1 x v he1, dictGet_dictPut_same]
      exact ⟨hg, lookup_of_dictGet hg⟩
    | err v' m p t s1 => rw [hr] at h; cases h
    | fail k s1 => rw [hr] at h; cases h

/-! ### 2. frames and heap cells are never deallocated -/

theorem closure_kept {s s' : State}
    (hk : ∀ a, a < s.heap.size → (s'.heap[a]?).map cellKind = (s.heap[a]?).map cellKind)
    {a : Nat} {cenv : EnvId} {ps : List String} {ds : List Node} {b : Node} {nm : String}
    (h : s.cell a = some (.closure cenv ps ds b nm)) :
    ∃ nm', s'.cell a = some (.closure cenv ps ds b nm') := by
  simp only [State.cell] at h ⊢
  have ha : a < s.heap.size := by
    rcases Nat.lt_or_ge a s.heap.size with h1 | h1
    · exact h1
    · rw [Array.getElem?_eq_none h1] at h; cases h
  have hka := hk a ha
  rw [h] at hka
  cases hc : s'.heap[a]? with
  | none => rw [hc] at hka; cases hka
  | some c' =>
    rw [hc] at hka
    simp only [Option.map_some, Option.some.injEq] at hka
    cases c' <;> simp only [cellKind, reduceCtorEq] at hka
    simp only [CellKind.closure.injEq] at hka
    obtain ⟨rfl, rfl, rfl, rfl⟩ := hka
    exact ⟨_, rfl⟩

/-- what "nothing is deallocated" means for two states -/
structure NeverShrinks (s s' : State) : Prop where
  frames : s.frames.size ≤ s'.frames.size
  heap : s.heap.size ≤ s'.heap.size
  /-- every existing frame keeps its parent -/
  parent : ∀ f, f < s.frames.size → (s'.frame f).parent = (s.frame f).parent
  /-- every existing heap cell keeps its kind (list, set, map, object / module, closure) -/
  kinds : ∀ a, a < s.heap.size → (s'.heap[a]?).map cellKind = (s.heap[a]?).map cellKind
  /-- an existing closure keeps its definition environment, parameters, defaults and body -/
  closures : ∀ a cenv ps ds b nm, s.cell a = some (.closure cenv ps ds b nm) →
    ∃ nm', s'.cell a = some (.closure cenv ps ds b nm')

theorem NeverShrinks.of_mono {e : EnvId} {X : String → Prop} {s s' : State} (h : Mono e X s s') :
    NeverShrinks s s' :=
  ⟨h.frames, h.heap_le, h.parent, h.kinds, fun _ _ _ _ _ _ hc => closure_kept h.kinds hc⟩

/-- **frames_never_shrink.**  For every node, frame, state and fuel, whatever the outcome (also
    when the model abstains). -/
theorem frames_never_shrink (hN : NativeGrows ld) (fuel : Nat) (env : EnvId) (n : Node) (s : State) :
    NeverShrinks s (stOf (eval ld fuel env n s)) :=
  NeverShrinks.of_mono (eval_post hN fuel env n s (fun _ => True)).all

theorem frames_never_shrink_body (hN : NativeGrows ld) (fuel : Nat) (env : EnvId) (ns : List Node)
    (last : RVal) (s : State) : NeverShrinks s (stOf (evalBody ld fuel env ns last s)) :=
  NeverShrinks.of_mono (evalBody_post hN fuel env ns last s (fun _ => True)).all

/-! ### 3./4. a statement sequence stops at the first failure, without rolling back -/

/-- **prefix_effects_survive_failure** (runtime error).  `pre` ran completely (from `s` to `s1`,
    last value `v`); the next statement `bad`, run from `s1` with the fuel that is left, fails in
    state `s2`: then the whole sequence fails with the same error in exactly the state `s2` — the
    effects of `pre` and what `bad` did before failing, nothing else. -/
theorem prefix_effects_survive_failure {F : Nat} {env : EnvId} {pre : List Node} {bad : Node}
    (post : List Node) {last : RVal} {s s1 s2 : State} {v w : RVal} {m : String} {p : Pos}
    {t : List (String × Pos)}
    (hpre : RanAll ld F env pre last s v s1)
    (hbad : eval ld (F - pre.length - 1) env bad s1 = .err w m p t s2) :
    evalBody ld F env (pre ++ bad :: post) last s = .err w m p t s2 := by
  obtain ⟨hlt, heq⟩ := evalBody_append ld pre F env (bad :: post) last s v s1 hpre
  rw [heq]
  obtain ⟨g, hg⟩ : ∃ g, F - pre.length = g + 1 := ⟨F - pre.length - 1, by omega⟩
  rw [hg, evalBody_cons]
  have : g = F - pre.length - 1 := by omega
  rw [this, hbad]

/-- the same for the other failures (syntax error of a required module, host exception,
    out of fuel, unsupported) -/
theorem prefix_effects_survive_failure' {F : Nat} {env : EnvId} {pre : List Node} {bad : Node}
    (post : List Node) {last : RVal} {s s1 s2 : State} {v : RVal} {k : Fail}
    (hpre : RanAll ld F env pre last s v s1)
    (hbad : eval ld (F - pre.length - 1) env bad s1 = .fail k s2) :
    evalBody ld F env (pre ++ bad :: post) last s = .fail k s2 := by
  obtain ⟨hlt, heq⟩ := evalBody_append ld pre F env (bad :: post) last s v s1 hpre
  rw [heq]
  obtain ⟨g, hg⟩ : ∃ g, F - pre.length = g + 1 := ⟨F - pre.length - 1, by omega⟩
  rw [hg, evalBody_cons]
  have : g = F - pre.length - 1 := by omega
  rw [this, hbad]

/-- the general composition law behind both: after a completed prefix the rest runs from the
    state (and with the fuel) the prefix left -/
theorem evalBody_prefix_then_rest {F : Nat} {env : EnvId} {pre : List Node} (rest : List Node)
    {last : RVal} {s s1 : State} {v : RVal} (hpre : RanAll ld F env pre last s v s1) :
    evalBody ld F env (pre ++ rest) last s = evalBody ld (F - pre.length) env rest v s1 :=
  (evalBody_append ld pre F env rest last s v s1 hpre).2

/-- **later_statements_do_not_run**: in that situation the outcome does not depend on the
    statements after the failing one -/
theorem later_statements_do_not_run {F : Nat} {env : EnvId} {pre : List Node} {bad : Node}
    (post post' : List Node) {last : RVal} {s s1 : State} {v : RVal}
    (hpre : RanAll ld F env pre last s v s1)
    (hbad : ∀ r s2, eval ld (F - pre.length - 1) env bad s1 ≠ .ok r s2) :
    evalBody ld F env (pre ++ bad :: post) last s = evalBody ld F env (pre ++ bad :: post') last s := by
  cases hr : eval ld (F - pre.length - 1) env bad s1 with
  | ok r s2 => exact absurd hr (hbad r s2)
  | err w m p t s2 =>
    rw [prefix_effects_survive_failure post hpre hr, prefix_effects_survive_failure post' hpre hr]
  | fail k s2 =>
    rw [prefix_effects_survive_failure' post hpre hr, prefix_effects_survive_failure' post' hpre hr]

/-- a whole program (a top-level block without handlers): the call fails with the error of the
    failing statement, in the state that statement left (plus the block's ghost counters) -/
theorem toplevel_block_failure {F : Nat} {env : EnvId} {pre : List Node} {bad : Node}
    (post : List Node) (tl : Bool) (pos : Pos) {s s1 s2 : State} {v w : RVal} {m : String} {p : Pos}
    {t : List (String × Pos)}
    (hpre : RanAll ld F env pre (.bool true) (ghostEnter s pos) v s1)
    (hbad : eval ld (F - pre.length - 1) env bad s1 = .err w m p t s2) :
    eval ld (F+1) env (.block (pre ++ bad :: post) [] [] [] tl pos) s = .err w m p t (ghostFin s2 pos) := by
  have hb := prefix_effects_survive_failure post hpre hbad
  obtain ⟨g, rfl⟩ : ∃ g, F = g + 1 := by
    cases F with
    | zero => simp only [evalBody] at hb; cases hb
    | succ g => exact ⟨g, rfl⟩
  simp only [eval]
  rw [hb]
  dsimp only
  rw [tryHandlers_none]
  dsimp only
  rw [evalFinally_nil]

/-! ### sessions -/

/-- one `interpret` call on an interpreter, as the driver runs it: the output buffer is reset and
    the program is evaluated in the session frame `senv` of the interpreter's state.  The loader
    (module sources, interpretation of the unmodelled natives) is the only other input. -/
def Session.step (ld : Loader) (fuel : Nat) (senv : EnvId) (ast : Node) (s : State) : Out RVal :=
  interpretProg ld fuel senv ast { s with out := [] }

/-- the state an outcome leaves behind; `none` when the model abstains (out of fuel, unsupported) -/
def nextState : Out RVal → Option State
  | .ok _ s' => some s'
  | .err _ _ _ _ s' => some s'
  | .fail (.syn _) s' => some s'
  | .fail (.host _) s' => some s'
  | .fail _ _ => none

/-- successive calls on one interpreter: each continues with the state the previous one left,
    whatever its outcome was (`none`: the model abstains — out of fuel, unsupported) -/
def Session.run (ld : Loader) (fuel : Nat) (senv : EnvId) : List Node → State → Option State
  | [], s => some s
  | p :: ps, s =>
    match nextState (Session.step ld fuel senv p s) with
    | some s' => Session.run ld fuel senv ps s'
    | none => none

theorem stOf_interpretProg (ld : Loader) (fuel : Nat) (senv : EnvId) (ast : Node) (s : State) :
    stOf (interpretProg ld fuel senv ast s) = stOf (eval ld fuel senv ast s) := by
  unfold interpretProg
  rw [bind_def]
  cases eval ld fuel senv ast s with
  | ok v s1 => cases v <;> rfl
  | err v m p t s1 => rfl
  | fail k s1 => rfl

theorem abstains_interpretProg {ld : Loader} {fuel : Nat} {senv : EnvId} {ast : Node} {s : State}
    (h : ¬ Abstains (interpretProg ld fuel senv ast s)) : ¬ Abstains (eval ld fuel senv ast s) := by
  unfold interpretProg at h
  rw [bind_def] at h
  cases hr : eval ld fuel senv ast s with
  | ok v s1 => exact id
  | err v m p t s1 => exact id
  | fail k s1 => rw [hr] at h; exact h

theorem nextState_stOf {o : Out RVal} {s' : State} (h : nextState o = some s') :
    s' = stOf o ∧ ¬ Abstains o := by
  cases o with
  | ok a t => cases h; exact ⟨rfl, id⟩
  | err v m p t u => cases h; exact ⟨rfl, id⟩
  | fail f t => cases f <;> cases h <;> exact ⟨rfl, id⟩

/-- one call (with which the model does not abstain) loses nothing -/
theorem Session.step_mono (hN : NativeGrows ld) (fuel : Nat) (senv : EnvId) (ast : Node) (s : State)
    (hna : ¬ Abstains (Session.step ld fuel senv ast s)) :
    Mono senv (fun _ => False) s (stOf (Session.step ld fuel senv ast s)) := by
  unfold Session.step at hna ⊢
  rw [stOf_interpretProg]
  have h1 : Mono senv (fun _ => False) s { s with out := [] } := Mono.of_grow (Grow.of_eq rfl rfl)
  exact h1.trans (eval_mono hN fuel senv ast _ (abstains_interpretProg hna))

theorem Session.run_mono (hN : NativeGrows ld) (fuel : Nat) (senv : EnvId) :
    ∀ (progs : List Node) (s s' : State), Session.run ld fuel senv progs s = some s' →
      Mono senv (fun _ => False) s s' := by
  intro progs
  induction progs with
  | nil => intro s s' h; cases h; exact Mono.refl s
  | cons p ps ih =>
    intro s s' h
    simp only [Session.run] at h
    cases hn : nextState (Session.step ld fuel senv p s) with
    | none => rw [hn] at h; cases h
    | some s1 =>
      rw [hn] at h
      obtain ⟨hs1, hna⟩ := nextState_stOf hn
      have h1 := Session.step_mono hN fuel senv p s hna
      rw [← hs1] at h1
      exact h1.trans (ih s1 s' h)

/-- **session_bindings_persist.**  Across any sequence of `interpret` calls on one interpreter —
    failed calls included — EVERY name bound in the session frame stays bound, and visible to a
    lookup from the session frame. -/
theorem session_bindings_persist (hN : NativeGrows ld) {fuel : Nat} {senv : EnvId} {progs : List Node}
    {s s' : State} (h : Session.run ld fuel senv progs s = some s')
    {x : String} (hx : x ≠ "") (hb : dictHas x (s.frame senv).vars = true) :
    dictHas x (s'.frame senv).vars = true ∧ s'.isDefined senv x = true := by
  have := (Session.run_mono hN fuel senv progs s s' h).bound x hx (fun h => h) hb
  exact ⟨this, isDefined_of_dictHas this⟩

/-- across any sequence of calls nothing is deallocated -/
theorem session_never_shrinks (hN : NativeGrows ld) {fuel : Nat} {senv : EnvId} {progs : List Node}
    {s s' : State} (h : Session.run ld fuel senv progs s = some s') : NeverShrinks s s' :=
  NeverShrinks.of_mono (Session.run_mono hN fuel senv progs s s' h)

/-- a definition made by a call — even by a call that fails later on — is visible to every later
    call: `pre` ran completely, then `def x = e` succeeded (state `s2`); whatever the rest `post` of
    that call (outcome `o`) and the later calls `progs` do, `x` is still defined in the session frame
    afterwards -/
theorem definition_survives_failed_call (hN : NativeGrows ld) {F fuel : Nat} {senv : EnvId}
    {pre post : List Node} {x : String} {e : Node} {info : String} {pos : Pos} {last : RVal}
    {s s1 s2 s' : State} {v v1 : RVal} {progs : List Node} {o : Out RVal}
    (he : senv < s.frames.size) (hx : x ≠ "")
    (hpre : RanAll ld F senv pre last s v s1)
    (hdef : eval ld (F - pre.length - 1) senv (.defn x e info pos) s1 = .ok v1 s2)
    (hrest : evalBody ld (F - pre.length - 1) senv post v1 s2 = o) (hna : ¬ Abstains o)
    (hrun : Session.run ld fuel senv progs (stOf o) = some s') :
    s'.isDefined senv x = true := by
  have hm1 := (evalBody_post hN F senv pre last s (fun _ => True)).all
  rw [hpre.1] at hm1
  have he1 : senv < s1.frames.size := Nat.lt_of_lt_of_le he hm1.frames
  have hd := def_persists hN he1 hdef
  have hb2 : dictHas x (s2.frame senv).vars = true := by simp only [dictHas, hd.1]; rfl
  have hm3 := evalBody_mono hN (F - pre.length - 1) senv post v1 s2 (by rw [hrest]; exact hna)
  rw [hrest] at hm3
  have hb3 := hm3.bound x hx (fun h => h) hb2
  exact (session_bindings_persist hN hrun hx hb3).2

/-! ### 5. determinism; a failed call repeated -/

/-- **session_step_deterministic.**  The outcome of a call (value or error value, message,
    position, trace, final state) is a function of the loader, the program and the state. -/
theorem session_step_deterministic {fuel : Nat} {senv : EnvId} {ast : Node} {s : State} {o₁ o₂ : Out RVal}
    (h₁ : Session.step ld fuel senv ast s = o₁) (h₂ : Session.step ld fuel senv ast s = o₂) : o₁ = o₂ :=
  h₁.symm.trans h₂

/-- **failed_call_same_error_again.**  A call fails from state `s` and leaves `s'`.  If the failing
    program changed nothing before failing — precisely: `s'` and `s` agree on everything but the
    output buffer, which every call resets — then repeating the call fails with the same error
    value, message, position and trace, and leaves the same state again.
    (For programs wrapped in a block, `s'` also differs from `s` in the ghost counters of the
    model; see `Ckl.C10S.failed_call_same_error_again_ghost` in `C10SessGhost` for that form.) -/
theorem failed_call_same_error_again {fuel : Nat} {senv : EnvId} {ast : Node} {s s' : State}
    {v : RVal} {m : String} {p : Pos} {t : List (String × Pos)}
    (h : Session.step ld fuel senv ast s = .err v m p t s')
    (hsame : { s' with out := [] } = { s with out := [] }) :
    Session.step ld fuel senv ast s' = .err v m p t s' := by
  unfold Session.step at h ⊢
  rw [hsame]; exact h

/-- the same for the other failures -/
theorem failed_call_same_failure_again {fuel : Nat} {senv : EnvId} {ast : Node} {s s' : State} {k : Fail}
    (h : Session.step ld fuel senv ast s = .fail k s')
    (hsame : { s' with out := [] } = { s with out := [] }) :
    Session.step ld fuel senv ast s' = .fail k s' := by
  unfold Session.step at h ⊢
  rw [hsame]; exact h

/-! ### 6. two interpreters are two states -/

/-- two interpreters side by side: a pair of states.  A call on the first one is `Session.step` on
    the first component; the loader is the only parameter the two share.
    (In the implementation two `Interpreter` objects could in principle share mutable data through
    Python class attributes or module globals; that no such sharing exists is what the
    correspondence check — interleaved sessions on several interpreters compared against this
    model — establishes, not this theorem.) -/
def Two.stepFirst (ld : Loader) (fuel : Nat) (senv : EnvId) (ast : Node) (p : State × State) :
    Out RVal × State := (Session.step ld fuel senv ast p.1, p.2)

def Two.stepSecond (ld : Loader) (fuel : Nat) (senv : EnvId) (ast : Node) (p : State × State) :
    State × Out RVal := (p.1, Session.step ld fuel senv ast p.2)

/-- **instances_independent.**  A call on one interpreter is a function of that interpreter's
    state only, and leaves the other interpreter's state untouched. -/
theorem instances_independent (fuel : Nat) (senv : EnvId) (ast : Node) (s₁ s₂ s₂' : State) :
    (Two.stepFirst ld fuel senv ast (s₁, s₂)).1 = (Two.stepFirst ld fuel senv ast (s₁, s₂')).1 ∧
    (Two.stepFirst ld fuel senv ast (s₁, s₂)).2 = s₂ := ⟨rfl, rfl⟩

/-- calls on different interpreters commute: the order in which two interpreters are used does
    not matter -/
theorem instances_commute (fuel : Nat) (senv : EnvId) (a b : Node) (s₁ s₂ : State) :
    let r1 := Two.stepFirst ld fuel senv a (s₁, s₂)
    let r2 := Two.stepSecond ld fuel senv b (s₁, s₂)
    (Two.stepSecond ld fuel senv b (stOf r1.1, r1.2)).2 = r2.2 ∧
    (Two.stepFirst ld fuel senv a (r2.1, stOf r2.2)).1 = r1.1 := ⟨rfl, rfl⟩

/-! ### 7. non-vacuity: `def x = 1; error 'boom'; def y = 2`, then `x`, then `y` -/

section Examples
local macro "ev" : tactic => `(tactic| with_unfolding_all rfl)
/-- the model does not abstain on this (closed, evaluated) outcome -/
local macro "na" : tactic => `(tactic| with_unfolding_all exact id)

def exDefX : Node := .defn "x" (.lit (.int 1) {}) "" { line := 1 }
def exBoom : Node := .error (.lit (.str ['b','o','o','m']) {}) { line := 2 }
def exDefY : Node := .defn "y" (.lit (.int 2) {}) "" { line := 3 }
/-- `def x = 1; error 'boom'; def y = 2` as the parser delivers it: a top-level block -/
def exProg : Node := .block [exDefX, exBoom, exDefY] [] [] [] true {}
/-- `for i in [1, 2] do i end` at session level -/
def exFor : Node := .for ["i"] (.list [.lit (.int 1) {}, .lit (.int 2) {}] {}) (.ident "i" {}) "" {}
/-- `for i in [1, 2] do error 'boom' end` -/
def exForErr : Node := .for ["i"] (.list [.lit (.int 1) {}, .lit (.int 2) {}] {}) exBoom "" {}
/-- a fresh interpreter: base frame 0, session frame 1 -/
def exInit : State := (initialState true []).1
/-- … after `def x = 1` inside the block -/
def exAfterX : State := (ghostEnter { exInit with out := [] } {}).put 1 "x" (.int 1)

example : NativeGrows {} := default_nativeGrows
example : (1 : Nat) < exInit.frames.size := by decide

-- the first call fails with 'boom'; afterwards `x` is defined in the session frame, `y` is not
#guard (match Session.step {} 50 1 exProg exInit with
  | .err (.str ['b','o','o','m']) _ _ _ s' => s'.isDefined 1 "x" && !s'.isDefined 1 "y"
  | _ => false)
-- a second call `x` yields 1, a third call `y` fails (symbol not defined); repeating the failed
-- first call gives the same error again
#guard (match Session.run {} 50 1 [exProg] exInit with
  | some s1 =>
    (match Session.step {} 50 1 (.ident "x" {}) s1 with | .ok (.int 1) _ => true | _ => false) &&
    (match Session.step {} 50 1 (.ident "y" {}) s1 with | .err _ _ _ _ _ => true | _ => false) &&
    (match Session.step {} 50 1 exProg s1 with | .err (.str ['b','o','o','m']) _ _ _ _ => true | _ => false)
  | none => false)

/-- the prefix `def x = 1` of the block ran completely … -/
theorem exRanAll : RanAll {} 4 1 [exDefX] (.bool true) (ghostEnter { exInit with out := [] } {}) (.int 1) exAfterX :=
  ⟨by ev, fun _ => rfl⟩
/-- … and the next statement fails, changing nothing -/
theorem exBad : eval {} (4 - [exDefX].length - 1) 1 exBoom exAfterX
    = .err (.str ['b','o','o','m']) "" { line := 2 } [] exAfterX := by ev

-- prefix_effects_survive_failure / later_statements_do_not_run / toplevel_block_failure
example : evalBody {} 4 1 ([exDefX] ++ exBoom :: [exDefY]) (.bool true) (ghostEnter { exInit with out := [] } {})
    = .err (.str ['b','o','o','m']) "" { line := 2 } [] exAfterX :=
  prefix_effects_survive_failure [exDefY] exRanAll exBad
example : evalBody {} 4 1 ([exDefX] ++ exBoom :: [exDefY]) (.bool true) (ghostEnter { exInit with out := [] } {})
    = evalBody {} 4 1 ([exDefX] ++ exBoom :: []) (.bool true) (ghostEnter { exInit with out := [] } {}) :=
  later_statements_do_not_run [exDefY] [] exRanAll (by rw [exBad]; intro r s2 h; cases h)
example : eval {} 5 1 exProg { exInit with out := [] }
    = .err (.str ['b','o','o','m']) "" { line := 2 } [] (ghostFin exAfterX {}) :=
  toplevel_block_failure [exDefY] true {} exRanAll exBad

-- def_persists: `x` is bound to 1 after the definition
example : dictGet "x" (exAfterX.frame 1).vars = some (.int 1) ∧ exAfterX.lookup 1 "x" = some (.int 1) :=
  def_persists (s := ghostEnter { exInit with out := [] } {}) default_nativeGrows (by decide)
    (show eval {} 3 1 exDefX _ = .ok (.int 1) exAfterX by ev)

-- bindings_monotone: the failing program keeps `x` (bound before the call) bound
example : dictHas "x" ((stOf (eval {} 9 1 exProg exAfterX)).frame 1).vars = true :=
  bindings_monotone default_nativeGrows (by na) (by decide) (by ev)

-- `def i = 7; for i in [1,2] do i end; i` gives 7: the loop hides `i` and puts it back
#guard (match eval {} 20 1 exFor (exInit.put 1 "i" (.int 7)) with
  | .ok _ s' => (match s'.lookup 1 "i" with | some (.int 7) => true | _ => false) | _ => false)
#guard (match Session.run {} 50 1 [.defn "i" (.lit (.int 7) {}) "" {}, exFor] exInit with
  | some s1 => (match Session.step {} 50 1 (.ident "i" {}) s1 with | .ok (.int 7) _ => true | _ => false)
  | none => false)
-- also when the loop is aborted by an error
#guard (match eval {} 20 1 exForErr (exInit.put 1 "i" (.int 7)) with
  | .err (.str ['b','o','o','m']) _ _ _ s' => (match s'.lookup 1 "i" with | some (.int 7) => true | _ => false)
  | _ => false)
-- a loop identifier that was not bound before is not bound afterwards
#guard (match eval {} 20 1 exFor exInit with | .ok _ s' => !s'.isDefined 1 "i" | _ => false)
-- for_restores_value / bindings_monotone on the loops
example : ∀ r s', eval {} 20 1 exFor (exInit.put 1 "i" (.int 7)) = .ok r s' →
    dictGet "i" (s'.frame 1).vars = some (.int 7) :=
  (for_restores_value (ids := ["i"]) default_nativeGrows (by decide) (by ev)).1
example : ∀ w m p t s', eval {} 20 1 exForErr (exInit.put 1 "i" (.int 7)) = .err w m p t s' →
    dictGet "i" (s'.frame 1).vars = some (.int 7) :=
  (for_restores_value (ids := ["i"]) default_nativeGrows (by decide) (by ev)).2
example : dictHas "i" ((stOf (eval {} 20 1 exForErr (exInit.put 1 "i" (.int 7)))).frame 1).vars = true :=
  bindings_monotone default_nativeGrows (by na) (by decide) (by ev)
example : dictHas "x" ((stOf (eval {} 20 1 exFor exAfterX)).frame 1).vars = true :=
  bindings_monotone default_nativeGrows (by na) (by decide) (by ev)

-- frames_never_shrink
example : NeverShrinks exInit (stOf (eval {} 9 1 exProg exInit)) :=
  frames_never_shrink default_nativeGrows _ _ _ _

-- sessions: the failed call, then two more calls
#guard (Session.run {} 50 1 [exProg, .ident "x" {}, .ident "y" {}] exAfterX).isSome
example {s'} (h : Session.run {} 50 1 [exProg, .ident "x" {}, .ident "y" {}] exAfterX = some s') :
    dictHas "x" (s'.frame 1).vars = true ∧ s'.isDefined 1 "x" = true :=
  session_bindings_persist default_nativeGrows h (by decide) (by ev)
example {s'} (h : Session.run {} 50 1 [exProg, .ident "x" {}, .ident "y" {}] exInit = some s') :
    NeverShrinks exInit s' := session_never_shrinks default_nativeGrows h

-- the definition made by the failed call is visible to the later calls
#guard (Session.run {} 50 1 [.ident "x" {}, .ident "y" {}]
  (stOf (evalBody {} (4 - ([] : List Node).length - 1) 1 [exBoom, exDefY] (.int 1) exAfterX))).isSome
example {s'} (h : Session.run {} 50 1 [.ident "x" {}, .ident "y" {}]
      (stOf (evalBody {} (4 - ([] : List Node).length - 1) 1 [exBoom, exDefY] (.int 1) exAfterX)) = some s') :
    s'.isDefined 1 "x" = true :=
  definition_survives_failed_call (pre := []) (last := .bool true)
    (s := ghostEnter { exInit with out := [] } {}) (s1 := ghostEnter { exInit with out := [] } {})
    default_nativeGrows (by decide) (by decide) ⟨by ev, fun h => absurd rfl h⟩
    (show eval {} (4 - ([] : List Node).length - 1) 1 exDefX _ = .ok (.int 1) exAfterX by ev) rfl
    (by na) h

-- failed_call_same_error_again: `error 'boom'` on its own changes nothing
example : Session.step {} 5 1 exBoom { exInit with out := [] }
    = .err (.str ['b','o','o','m']) "" { line := 2 } [] { exInit with out := [] } := by ev
example : Session.step {} 5 1 exBoom { exInit with out := [] }
    = .err (.str ['b','o','o','m']) "" { line := 2 } [] { exInit with out := [] } :=
  failed_call_same_error_again (s := { exInit with out := [] }) (by ev) rfl

end Examples

end Ckl.C10S
