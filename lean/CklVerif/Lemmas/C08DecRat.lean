/-
  C08Dec — the rational pairs of `Model/DecRepr.lean` read as rational numbers: `rv (n, d) = n / d`,
  `pow2Rat n x = n · 2^x`, `pow10Rat c x = c · 10^x`, `ratLe` / `ratLt` are `≤` / `<`, `mid` is the
  arithmetic mean; `inside` as a statement about rationals (`inside_iff`).
-/
import CklVerif.Lemmas.C08DecDefs
import Mathlib.Algebra.Order.Field.Basic
import Mathlib.Algebra.Order.Ring.Rat
import Mathlib.Algebra.Order.Field.Power
import Mathlib.Tactic.Linarith
import Mathlib.Tactic.Positivity
import Mathlib.Tactic.NormNum
import Mathlib.Tactic.Ring
import Mathlib.Tactic.FieldSimp
namespace Ckl.C08D
open Ckl Ckl.Parser

/-- the rational number denoted by a pair (numerator, denominator) -/
def rv (p : Nat × Nat) : ℚ := (p.1 : ℚ) / (p.2 : ℚ)

theorem two_pow_toNat (x : ℤ) (h : 0 ≤ x) : ((2 : ℚ) ^ x.toNat) = (2 : ℚ) ^ x := by
  rw [← zpow_natCast, Int.toNat_of_nonneg h]

theorem ten_pow_toNat (x : ℤ) (h : 0 ≤ x) : ((10 : ℚ) ^ x.toNat) = (10 : ℚ) ^ x := by
  rw [← zpow_natCast, Int.toNat_of_nonneg h]

theorem pow2Rat_pos (n : Nat) (x : Int) : 0 < (pow2Rat n x).2 := by
  unfold pow2Rat; split
  · exact Nat.one_pos
  · exact Nat.pow_pos (by decide)

theorem pow10Rat_pos (n : Nat) (x : Int) : 0 < (pow10Rat n x).2 := by
  unfold pow10Rat; split
  · exact Nat.one_pos
  · exact Nat.pow_pos (by decide)

theorem rv_pow2Rat (n : Nat) (x : Int) : rv (pow2Rat n x) = (n : ℚ) * (2 : ℚ) ^ x := by
  unfold pow2Rat rv; split
  · rename_i h
    simp only [Nat.cast_mul, Nat.cast_pow, Nat.cast_ofNat, Nat.cast_one, div_one]
    rw [two_pow_toNat x h]
  · rename_i h
    simp only [Nat.cast_pow, Nat.cast_ofNat]
    rw [two_pow_toNat (-x) (by omega), zpow_neg, div_inv_eq_mul]

theorem rv_pow10Rat (n : Nat) (x : Int) : rv (pow10Rat n x) = (n : ℚ) * (10 : ℚ) ^ x := by
  unfold pow10Rat rv; split
  · rename_i h
    simp only [Nat.cast_mul, Nat.cast_pow, Nat.cast_ofNat, Nat.cast_one, div_one]
    rw [ten_pow_toNat x h]
  · rename_i h
    simp only [Nat.cast_pow, Nat.cast_ofNat]
    rw [ten_pow_toNat (-x) (by omega), zpow_neg, div_inv_eq_mul]

theorem ratLe_iff (a b : Nat × Nat) (ha : 0 < a.2) (hb : 0 < b.2) : ratLe a b = true ↔ rv a ≤ rv b := by
  unfold ratLe rv
  have ha' : (0 : ℚ) < a.2 := by exact_mod_cast ha
  have hb' : (0 : ℚ) < b.2 := by exact_mod_cast hb
  rw [decide_eq_true_iff, div_le_div_iff₀ ha' hb']
  exact_mod_cast Iff.rfl

theorem ratLt_iff (a b : Nat × Nat) (ha : 0 < a.2) (hb : 0 < b.2) : ratLt a b = true ↔ rv a < rv b := by
  unfold ratLt rv
  have ha' : (0 : ℚ) < a.2 := by exact_mod_cast ha
  have hb' : (0 : ℚ) < b.2 := by exact_mod_cast hb
  rw [decide_eq_true_iff, div_lt_div_iff₀ ha' hb']
  exact_mod_cast Iff.rfl

theorem mid_pos (v x : Nat × Nat) (hv : 0 < v.2) (hx : 0 < x.2) : 0 < (mid v x).2 := by
  unfold mid; simp only; positivity

theorem rv_mid (v x : Nat × Nat) (hv : 0 < v.2) (hx : 0 < x.2) : rv (mid v x) = (rv x + rv v) / 2 := by
  unfold mid rv
  have hv' : (v.2 : ℚ) ≠ 0 := by exact_mod_cast hv.ne'
  have hx' : (x.2 : ℚ) ≠ 0 := by exact_mod_cast hx.ne'
  simp only [Nat.cast_add, Nat.cast_mul, Nat.cast_ofNat]
  field_simp

/-! ## `toBin64` on a double -/

theorem bitLen_bounds (a : Nat) (ha : 0 < a) : 2 ^ (bitLen a - 1) ≤ a ∧ a < 2 ^ bitLen a ∧ 0 < bitLen a := by
  unfold bitLen
  rw [if_neg (by omega)]
  exact ⟨by simpa using Nat.log2_self_le (by omega), Nat.lt_log2_self, by omega⟩

theorem bitLen_le_of_lt (a k : Nat) (h : a < 2 ^ k) : bitLen a ≤ k := by
  unfold bitLen
  split
  · omega
  · rename_i h0
    have := (Nat.log2_lt h0).2 h
    omega

/-- **toBin64_spec**: on a positive double the decomposition is exact (`a / 2^e = M · 2^E`), with
    `2^52 ≤ M < 2^53`, or `M < 2^53` and `E = -1074` -/
theorem toBin64_spec (a e : Nat) (ha : 0 < a) (hd : IsDoubleN a e) :
    (a : ℚ) / 2 ^ e = ((toBin64 a e).1 : ℚ) * (2 : ℚ) ^ (toBin64 a e).2 ∧ -1074 ≤ (toBin64 a e).2 ∧
      0 < (toBin64 a e).1 ∧ (toBin64 a e).1 < 2 ^ 53 ∧ (2 ^ 52 ≤ (toBin64 a e).1 ∨ (toBin64 a e).2 = -1074) := by
  obtain ⟨hL1, hL2, hL0⟩ := bitLen_bounds a ha
  have h2 : (2 : ℚ) ≠ 0 := by norm_num
  have hval : (a : ℚ) / 2 ^ e = (a : ℚ) * (2 : ℚ) ^ (-(e : ℤ)) := by
    rw [zpow_neg, zpow_natCast, div_eq_mul_inv]
  unfold toBin64
  simp only
  generalize hL : bitLen a = L at *
  by_cases hE : (L : ℤ) - 53 - (e : ℤ) ≥ -1074
  · rw [if_pos hE]
    by_cases hL53 : L ≤ 53
    · rw [if_pos hL53]
      simp only
      have e1 : 2 ^ (L - 1) * 2 ^ (53 - L) = 2 ^ 52 := by rw [← Nat.pow_add]; congr 1; omega
      have e2 : 2 ^ L * 2 ^ (53 - L) = 2 ^ 53 := by rw [← Nat.pow_add]; congr 1; omega
      have hp : 0 < 2 ^ (53 - L) := Nat.pow_pos (by decide)
      refine ⟨?_, hE, Nat.mul_pos ha hp, ?_, Or.inl ?_⟩
      · rw [hval, Nat.cast_mul, Nat.cast_pow, Nat.cast_ofNat, ← zpow_natCast, mul_assoc, ← zpow_add₀ h2]
        congr 2; omega
      · rw [← e2]; exact Nat.mul_lt_mul_of_lt_of_le hL2 (Nat.le_refl _) hp
      · rw [← e1]; exact Nat.mul_le_mul_right _ hL1
    · rw [if_neg hL53]
      simp only
      have he0 : e = 0 ∧ 2 ^ (L - 53) ∣ a := by
        rcases hd with ⟨h1, _, h3⟩ | ⟨_, _, _, h4⟩
        · exact ⟨h1, hL ▸ h3⟩
        · have := bitLen_le_of_lt a 53 h4; omega
      obtain ⟨he0, hdiv⟩ := he0
      have hM : a / 2 ^ (L - 53) * 2 ^ (L - 53) = a := Nat.div_mul_cancel hdiv
      have hp : 0 < 2 ^ (L - 53) := Nat.pow_pos (by decide)
      have e1 : 2 ^ 52 * 2 ^ (L - 53) = 2 ^ (L - 1) := by rw [← Nat.pow_add]; congr 1; omega
      have e2 : 2 ^ 53 * 2 ^ (L - 53) = 2 ^ L := by rw [← Nat.pow_add]; congr 1; omega
      have hlt : a / 2 ^ (L - 53) < 2 ^ 53 := by
        apply Nat.lt_of_mul_lt_mul_right (a := 2 ^ (L - 53)); rw [hM, e2]; exact hL2
      have hge : 2 ^ 52 ≤ a / 2 ^ (L - 53) := by
        apply Nat.le_of_mul_le_mul_right (c := 2 ^ (L - 53)) _ hp; rw [hM, e1]; exact hL1
      refine ⟨?_, hE, by omega, hlt, Or.inl hge⟩
      subst he0
      have : ((a / 2 ^ (L - 53) : ℕ) : ℚ) * 2 ^ (L - 53) = a := by exact_mod_cast hM
      rw [pow_zero, div_one]
      conv_lhs => rw [← this]
      rw [← zpow_natCast]
      congr 2; omega
  · rw [if_neg hE]
    simp only
    have hepos : 0 < e ∧ e ≤ 1074 ∧ a < 2 ^ 53 := by
      rcases hd with ⟨h1, _, _⟩ | ⟨h1, h2, _, h4⟩
      · omega
      · exact ⟨h1, h2, h4⟩
    obtain ⟨he1, he2, ha53⟩ := hepos
    have hsh : -(e : ℤ) + 1074 ≥ 0 := by omega
    rw [if_pos hsh]
    have hp : 0 < 2 ^ (-(e : ℤ) + 1074).toNat := Nat.pow_pos (by decide)
    refine ⟨?_, by omega, Nat.mul_pos ha hp, ?_, Or.inr trivial⟩
    · rw [hval, Nat.cast_mul, Nat.cast_pow, Nat.cast_ofNat, ← zpow_natCast, mul_assoc, ← zpow_add₀ h2]
      congr 2; omega
    · have hle : L + (-(e : ℤ) + 1074).toNat ≤ 53 := by omega
      calc a * 2 ^ (-(e : ℤ) + 1074).toNat < 2 ^ L * 2 ^ (-(e : ℤ) + 1074).toNat :=
            Nat.mul_lt_mul_of_lt_of_le hL2 (Nat.le_refl _) hp
        _ = 2 ^ (L + (-(e : ℤ) + 1074).toNat) := (Nat.pow_add _ _ _).symm
        _ ≤ 2 ^ 53 := Nat.pow_le_pow_right (by decide) hle

/-! ## the rounding interval -/

/-- upper end of the rounding interval of `M · 2^E` -/
def dHi (M : Nat) (E : Int) : ℚ := ((M : ℚ) + 1 / 2) * (2 : ℚ) ^ E
/-- lower end: the gap below a power of two (`M = 2^52`, not the smallest normal) is half as wide -/
def dLo (M : Nat) (E : Int) : ℚ :=
  if M = 2 ^ 52 ∧ E > -1074 then ((2 : ℚ) ^ 52 - 1 / 4) * (2 : ℚ) ^ E else ((M : ℚ) - 1 / 2) * (2 : ℚ) ^ E

theorem rv_v (a e : Nat) : rv (a, 2 ^ e) = (a : ℚ) / 2 ^ e := by
  unfold rv; simp

theorem rv_hi (a e M : Nat) (E : Int) (hv : (a : ℚ) / 2 ^ e = (M : ℚ) * (2 : ℚ) ^ E) :
    rv (mid (a, 2 ^ e) (highNbr M E)) = dHi M E := by
  unfold highNbr dHi
  rw [rv_mid _ _ (Nat.pow_pos (by decide)) (pow2Rat_pos _ _), rv_v, hv, rv_pow2Rat]
  push_cast; ring

theorem rv_lo (a e M : Nat) (E : Int) (hM : 0 < M) (hv : (a : ℚ) / 2 ^ e = (M : ℚ) * (2 : ℚ) ^ E) :
    rv (mid (a, 2 ^ e) (lowNbr M E)) = dLo M E := by
  have hp : 0 < (lowNbr M E).2 := by
    unfold lowNbr; split <;> exact pow2Rat_pos _ _
  rw [rv_mid _ _ (Nat.pow_pos (by decide)) hp, rv_v, hv]
  unfold lowNbr dLo
  split
  · rename_i h
    rw [rv_pow2Rat, zpow_sub₀ (by norm_num : (2 : ℚ) ≠ 0), h.1]
    have : ((2 ^ 53 - 1 : ℕ) : ℚ) = (2 : ℚ) ^ 53 - 1 := by norm_num
    rw [this]; push_cast; ring
  · rw [rv_pow2Rat]
    have : ((M - 1 : ℕ) : ℚ) = (M : ℚ) - 1 := by
      rw [Nat.cast_sub (by omega)]; simp
    rw [this]; ring

/-- **inside_iff**: `inside a e c` says that the rational `c` lies in the closed rounding interval
    of the double `a / 2^e = M · 2^E`, and in the open one when `M` is odd -/
theorem inside_iff (a e : Nat) (ha : 0 < a) (hd : IsDoubleN a e) (c : Nat × Nat) (hc : 0 < c.2) :
    inside a e c = true ↔
      (dLo (toBin64 a e).1 (toBin64 a e).2 ≤ rv c ∧ rv c ≤ dHi (toBin64 a e).1 (toBin64 a e).2) ∧
      ((toBin64 a e).1 % 2 = 1 →
        dLo (toBin64 a e).1 (toBin64 a e).2 < rv c ∧ rv c < dHi (toBin64 a e).1 (toBin64 a e).2) := by
  obtain ⟨hv, _, hM, _, _⟩ := toBin64_spec a e ha hd
  have hlo := rv_lo a e _ _ hM hv
  have hhi := rv_hi a e _ _ hv
  have plo : 0 < (mid (a, 2 ^ e) (lowNbr (toBin64 a e).1 (toBin64 a e).2)).2 := by
    apply mid_pos _ _ (Nat.pow_pos (by decide)); unfold lowNbr; split <;> exact pow2Rat_pos _ _
  have phi : 0 < (mid (a, 2 ^ e) (highNbr (toBin64 a e).1 (toBin64 a e).2)).2 :=
    mid_pos _ _ (Nat.pow_pos (by decide)) (pow2Rat_pos _ _)
  unfold inside
  simp only
  split
  · rename_i hev
    rw [Bool.and_eq_true, ratLe_iff _ _ plo hc, ratLe_iff _ _ hc phi, hlo, hhi]
    constructor
    · intro h; exact ⟨h, fun ho => by omega⟩
    · intro h; exact h.1
  · rename_i hodd
    rw [Bool.and_eq_true, ratLt_iff _ _ plo hc, ratLt_iff _ _ hc phi, hlo, hhi]
    constructor
    · intro h; exact ⟨⟨le_of_lt h.1, le_of_lt h.2⟩, fun _ => h⟩
    · intro h; exact h.2 (by omega)

end Ckl.C08D
