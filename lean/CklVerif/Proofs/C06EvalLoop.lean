/-
  C06EvalLoop — the enumeration order threaded through the loop constructs.

  `Proofs/C06Eval.lean` §5 shows that `collectionValues` / `spreadValues` on a set cell (on a map
  cell with selector `keys`) return the strictly `<`-ascending element list (key list) of the
  reified value.  Here the same is stated about the *consumers*: the `items` list handed to
  `forItems` by `evalFor` (and by the `for` statement node), the list handed to `comprLoop` by a
  single-variable comprehension, and the list spliced by a spread `...e` into a list literal
  (`evalItems`) and into call arguments (`evalArgs`).  Every statement is for all fuel, all
  states, all loaders; the only evaluator hypothesis is that the collection expression evaluates
  (with the fuel the construct gives it) to a reference to the cell.

  Assumptions as in `Proofs/C06Eval.lean`: `HeapOK s1` and "`.ref c` reifies in `s1`", where `s1`
  is the state after evaluating the collection expression (the state the snapshot is taken in).
-/
import CklVerif.Proofs.C06Eval
import CklVerif.Lemmas.C04Loops
namespace Ckl.C06Eval
open Ckl Ckl.C06E

variable (ld : Loader)

/-! ## 0. one-step unfoldings (no well-formedness needed) -/

/-- `mapM` of a pure function in `EvalM` is `map` and leaves the state alone -/
theorem mapM_pure_evalM {α β} (f : α → β) (xs : List α) (s : State) :
    (xs.mapM (fun x => (pure (f x) : EvalM β))) s = .ok (xs.map f) s := by
  induction xs generalizing s with
  | nil => rfl
  | cons x xs ih =>
    rw [List.mapM_cons, bind_apply, pure_apply]
    dsimp only
    rw [bind_apply, ih]; rfl

theorem evalFor_set_unfold {fuel env ids e body what pos s c s1 xs ys}
    (he : eval ld fuel env e s = .ok (.ref c) s1)
    (hc : s1.cell c = some (.set xs)) (hs : sortedR s1 xs = some ys) :
    evalFor ld (fuel + 1) env ids e body what pos s =
      (do let r ← forItems ld fuel env ids ys body (.bool true) pos
          if ys.isEmpty then pure () else removeVars env ids
          pure r) s1 := by
  rw [evalFor, bind_apply, he]
  dsimp only
  rw [bind_apply, C04.cellOf_ref, hc]; dsimp only
  rw [bind_apply]
  simp only [getS, hs]

theorem evalFor_map_keys_unfold {fuel env ids e body pos s c s1 kvs} {es : List (RVal × RVal)}
    (he : eval ld fuel env e s = .ok (.ref c) s1)
    (hc : s1.cell c = some (.map kvs)) (hs : sortedEntriesR s1 kvs = some es) :
    evalFor ld (fuel + 1) env ids e body "keys" pos s =
      (do let r ← forItems ld fuel env ids (es.map Prod.fst) body (.bool true) pos
          if es.isEmpty then pure () else removeVars env ids
          pure r) s1 := by
  rw [evalFor, bind_apply, he]
  dsimp only
  rw [bind_apply, C04.cellOf_ref, hc]; dsimp only
  rw [bind_apply]
  simp only [getS, hs, if_true]
  rw [bind_apply, mapM_pure_evalM]

/-- the `for` statement node: `evalFor` wrapped by hiding / restoring the shadowed variables -/
theorem eval_for_unfold {fuel env ids e body what pos} (s : State) :
    eval ld (fuel + 1) env (.for ids e body what pos) s =
      match evalFor ld fuel env ids e body what pos s with
      | .ok v s' => .ok v (restoreVars env (hiddenVars s env ids) s')
      | .err v m p t s' =>
          .err v m p t (restoreVars env (hiddenVars s env ids) (ids.foldl (fun s x => s.remove env x) s'))
      | .fail (.syn e) s' =>
          .fail (.syn e) (restoreVars env (hiddenVars s env ids) (ids.foldl (fun s x => s.remove env x) s'))
      | other => other := by
  rw [eval]; rfl

theorem compr_single_unfold {fuel env kind ve ke id1 l1 w1 id2 l2 w2 cond pos s c1 s1 vals s2}
    (h1 : eval ld fuel env l1 (s.newEnv env).1 = .ok c1 s1)
    (hv : collectionValues c1 w1 pos s1 = .ok vals s2) :
    eval ld (fuel + 1) env (.compr kind .single ve ke id1 l1 w1 id2 l2 w2 cond pos) s =
      (do let out ← comprLoop ld fuel (s.newEnv env).2 kind ve ke cond pos [(id1, vals)] []
          comprResult kind out) s2 := by
  rw [eval, bind_apply]
  simp only [getS]
  rw [bind_apply]
  simp only [setS]
  rw [bind_apply, h1]
  dsimp only
  rw [bind_apply, hv]

theorem evalItems_spread_unfold {fuel env e p ns pos s v s1 ys s2}
    (he : eval ld fuel env e s = .ok v s1) (hv : spreadValues v pos s1 = .ok ys s2) :
    evalItems ld (fuel + 1) env (.spread e p :: ns) pos s =
      (do let rest ← evalItems ld fuel env ns pos
          pure (ys ++ rest)) s2 := by
  rw [evalItems, bind_apply, he]
  dsimp only
  rw [bind_apply, hv]

theorem evalArgs_spread_set_unfold {fuel env e p n ns as pos s c s1 xs ys}
    (he : eval ld fuel env e s = .ok (.ref c) s1)
    (hc : s1.cell c = some (.set xs)) (hs : sortedR s1 xs = some ys) :
    evalArgs ld (fuel + 1) env (n :: ns) (.spread e p :: as) pos s =
      (do let (rn, rv) ← evalArgs ld fuel env ns as pos
          pure (ys.map (fun _ => none) ++ rn, ys ++ rv)) s1 := by
  rw [evalArgs]
  dsimp only
  rw [bind_apply, he]
  dsimp only
  rw [bind_apply]
  simp only [getS]
  rw [bind_apply, C04.cellOf_ref, hc]; dsimp only
  rw [bind_apply, spreadValues_set hc hs]

/-! ## 1. `for` over a set -/

/-- **`for x in set`**: `forItems` receives a permutation `ys` of the cell's elements that reifies
    to the element list of the reified set value; that list is strictly ascending for `<` -/
theorem for_set_order {fuel env ids e body what pos s c s1 xs v}
    (he : eval ld fuel env e s = .ok (.ref c) s1)
    (hc : s1.cell c = some (.set xs)) (wf : HeapOK s1) (hv : reify s1 (.ref c) = some v) :
    ∃ ys vs, ys.Perm xs ∧ v = .set vs ∧ ys.mapM (reify s1) = some vs ∧
      vs.Pairwise (fun a b => vlt a b = true) ∧
      evalFor ld (fuel + 1) env ids e body what pos s =
        (do let r ← forItems ld fuel env ids ys body (.bool true) pos
            if ys.isEmpty then pure () else removeVars env ids
            pure r) s1 := by
  obtain ⟨A, hA, rfl⟩ := reify_set_cell hc hv
  have ok : KeysOK A := wf c _ hc A hA
  obtain ⟨ys, h1, h2, h3⟩ := sortedR_bridge hA
  exact ⟨ys, sortBy vlt A, h2, mkSet_of_keysOK ok, h3, strict_of_sorted ok,
    evalFor_set_unfold ld he hc h1⟩

/-- the `for` statement node over a set -/
theorem for_stmt_set_order {fuel env ids e body what pos s c s1 xs v}
    (he : eval ld fuel env e s = .ok (.ref c) s1)
    (hc : s1.cell c = some (.set xs)) (wf : HeapOK s1) (hv : reify s1 (.ref c) = some v) :
    ∃ ys vs, ys.Perm xs ∧ v = .set vs ∧ ys.mapM (reify s1) = some vs ∧
      vs.Pairwise (fun a b => vlt a b = true) ∧
      eval ld (fuel + 2) env (.for ids e body what pos) s =
        match (do let r ← forItems ld fuel env ids ys body (.bool true) pos
                  if ys.isEmpty then pure () else removeVars env ids
                  pure r : EvalM RVal) s1 with
        | .ok v s' => .ok v (restoreVars env (hiddenVars s env ids) s')
        | .err v m p t s' =>
            .err v m p t (restoreVars env (hiddenVars s env ids) (ids.foldl (fun s x => s.remove env x) s'))
        | .fail (.syn e) s' =>
            .fail (.syn e) (restoreVars env (hiddenVars s env ids) (ids.foldl (fun s x => s.remove env x) s'))
        | other => other := by
  obtain ⟨ys, vs, h1, h2, h3, h4, h5⟩ := for_set_order ld (ids := ids) (body := body) (what := what)
    (pos := pos) he hc wf hv
  refine ⟨ys, vs, h1, h2, h3, h4, ?_⟩
  rw [eval_for_unfold, h5]

/-! ## 2. `for` over the keys of a map -/

/-- **`for k in keys map`**: `forItems` receives the keys of a permutation `es` of the cell's
    entries; they reify to the keys of the entries of the reified map value, strictly ascending -/
theorem for_map_keys_order {fuel env ids e body pos s c s1 kvs v}
    (he : eval ld fuel env e s = .ok (.ref c) s1)
    (hc : s1.cell c = some (.map kvs)) (wf : HeapOK s1) (hv : reify s1 (.ref c) = some v) :
    ∃ (es : List (RVal × RVal)) (ves : List (Val × Val)), es.Perm kvs ∧ v = .map ves ∧
      (es.map Prod.fst).mapM (reify s1) = some (ves.map Prod.fst) ∧
      (ves.map Prod.fst).Pairwise (fun a b => vlt a b = true) ∧
      evalFor ld (fuel + 1) env ids e body "keys" pos s =
        (do let r ← forItems ld fuel env ids (es.map Prod.fst) body (.bool true) pos
            if es.isEmpty then pure () else removeVars env ids
            pure r) s1 := by
  obtain ⟨P, hP, rfl⟩ := reify_map_cell hc hv
  have ok : KeysOK (P.map (·.1)) := wf c _ hc _ (keys_of_reifM hP)
  obtain ⟨es, h1, h2, h3⟩ := sortedEntriesR_bridge hP
  refine ⟨es, sortedEntries decRepr P, h2, mkMap_of_keysOK ok, keys_of_reifM h3, ?_,
    evalFor_map_keys_unfold ld he hc h1⟩
  rw [sortedEntries_keys]
  exact strict_of_sorted ok

/-- the `for` statement node over the keys of a map -/
theorem for_stmt_map_keys_order {fuel env ids e body pos s c s1 kvs v}
    (he : eval ld fuel env e s = .ok (.ref c) s1)
    (hc : s1.cell c = some (.map kvs)) (wf : HeapOK s1) (hv : reify s1 (.ref c) = some v) :
    ∃ (es : List (RVal × RVal)) (ves : List (Val × Val)), es.Perm kvs ∧ v = .map ves ∧
      (es.map Prod.fst).mapM (reify s1) = some (ves.map Prod.fst) ∧
      (ves.map Prod.fst).Pairwise (fun a b => vlt a b = true) ∧
      eval ld (fuel + 2) env (.for ids e body "keys" pos) s =
        match (do let r ← forItems ld fuel env ids (es.map Prod.fst) body (.bool true) pos
                  if es.isEmpty then pure () else removeVars env ids
                  pure r : EvalM RVal) s1 with
        | .ok v s' => .ok v (restoreVars env (hiddenVars s env ids) s')
        | .err v m p t s' =>
            .err v m p t (restoreVars env (hiddenVars s env ids) (ids.foldl (fun s x => s.remove env x) s'))
        | .fail (.syn e) s' =>
            .fail (.syn e) (restoreVars env (hiddenVars s env ids) (ids.foldl (fun s x => s.remove env x) s'))
        | other => other := by
  obtain ⟨es, ves, h1, h2, h3, h4, h5⟩ := for_map_keys_order ld (ids := ids) (body := body)
    (pos := pos) he hc wf hv
  refine ⟨es, ves, h1, h2, h3, h4, ?_⟩
  rw [eval_for_unfold, h5]

/-! ## 3. comprehensions -/

/-- **`[ve for id1 in set]`** (list / set / map comprehension, one variable, any selector):
    `comprLoop` receives the ascending list -/
theorem compr_set_order {fuel env kind ve ke id1 l1 w1 id2 l2 w2 cond pos s c s1 xs v}
    (he : eval ld fuel env l1 (s.newEnv env).1 = .ok (.ref c) s1)
    (hc : s1.cell c = some (.set xs)) (wf : HeapOK s1) (hv : reify s1 (.ref c) = some v) :
    ∃ ys vs, ys.Perm xs ∧ v = .set vs ∧ ys.mapM (reify s1) = some vs ∧
      vs.Pairwise (fun a b => vlt a b = true) ∧
      eval ld (fuel + 1) env (.compr kind .single ve ke id1 l1 w1 id2 l2 w2 cond pos) s =
        (do let out ← comprLoop ld fuel (s.newEnv env).2 kind ve ke cond pos [(id1, ys)] []
            comprResult kind out) s1 := by
  obtain ⟨ys, vs, h0, h1, h2, h3, h4⟩ := enum_set wf hc hv w1 pos
  exact ⟨ys, vs, h1, h2, h3, h4, compr_single_unfold ld he h0⟩

/-- **`[ve for id1 in keys map]`** -/
theorem compr_map_keys_order {fuel env kind ve ke id1 l1 id2 l2 w2 cond pos s c s1 kvs v}
    (he : eval ld fuel env l1 (s.newEnv env).1 = .ok (.ref c) s1)
    (hc : s1.cell c = some (.map kvs)) (wf : HeapOK s1) (hv : reify s1 (.ref c) = some v) :
    ∃ (ys : List RVal) (ves : List (Val × Val)), ys.Perm (kvs.map (·.1)) ∧ v = .map ves ∧
      ys.mapM (reify s1) = some (ves.map Prod.fst) ∧
      (ves.map Prod.fst).Pairwise (fun a b => vlt a b = true) ∧
      eval ld (fuel + 1) env (.compr kind .single ve ke id1 l1 (some "keys") id2 l2 w2 cond pos) s =
        (do let out ← comprLoop ld fuel (s.newEnv env).2 kind ve ke cond pos [(id1, ys)] []
            comprResult kind out) s1 := by
  obtain ⟨ys, ves, h0, h1, h2, h3, h4⟩ := enum_map_keys wf hc hv pos
  exact ⟨ys, ves, h1, h2, h3, h4, compr_single_unfold ld he h0⟩

/-! ## 4. spread -/

/-- **`[...set, rest]`**: the list literal splices the ascending list in place -/
theorem spread_item_set_order {fuel env e p ns pos s c s1 xs v}
    (he : eval ld fuel env e s = .ok (.ref c) s1)
    (hc : s1.cell c = some (.set xs)) (wf : HeapOK s1) (hv : reify s1 (.ref c) = some v) :
    ∃ ys vs, ys.Perm xs ∧ v = .set vs ∧ ys.mapM (reify s1) = some vs ∧
      vs.Pairwise (fun a b => vlt a b = true) ∧
      evalItems ld (fuel + 1) env (.spread e p :: ns) pos s =
        (do let rest ← evalItems ld fuel env ns pos
            pure (ys ++ rest)) s1 := by
  obtain ⟨ys, vs, h0, h1, h2, h3, h4⟩ := spread_set wf hc hv pos
  exact ⟨ys, vs, h1, h2, h3, h4, evalItems_spread_unfold ld he h0⟩

/-- **`f(...set, rest)`**: the call passes the ascending list as positional arguments -/
theorem spread_arg_set_order {fuel env e p n ns as pos s c s1 xs v}
    (he : eval ld fuel env e s = .ok (.ref c) s1)
    (hc : s1.cell c = some (.set xs)) (wf : HeapOK s1) (hv : reify s1 (.ref c) = some v) :
    ∃ (ys : List RVal) (vs : List Val), ys.Perm xs ∧ v = .set vs ∧ ys.mapM (reify s1) = some vs ∧
      vs.Pairwise (fun a b => vlt a b = true) ∧
      evalArgs ld (fuel + 1) env (n :: ns) (.spread e p :: as) pos s =
        (do let (rn, rv) ← evalArgs ld fuel env ns as pos
            pure (ys.map (fun _ => none) ++ rn, ys ++ rv)) s1 := by
  obtain ⟨A, hA, rfl⟩ := reify_set_cell hc hv
  have ok : KeysOK A := wf c _ hc A hA
  obtain ⟨ys, h1, h2, h3⟩ := sortedR_bridge hA
  exact ⟨ys, sortBy vlt A, h2, mkSet_of_keysOK ok, h3, strict_of_sorted ok,
    evalArgs_spread_set_unfold ld he hc h1⟩

/-! ## 4b. further consumers: the values of a map, a map spread into a list literal -/

theorem evalFor_map_values_unfold {fuel env ids e body what pos s c s1 kvs} {es : List (RVal × RVal)}
    (hw1 : what ≠ "keys") (hw2 : what ≠ "entries")
    (he : eval ld fuel env e s = .ok (.ref c) s1)
    (hc : s1.cell c = some (.map kvs)) (hs : sortedEntriesR s1 kvs = some es) :
    evalFor ld (fuel + 1) env ids e body what pos s =
      (do let r ← forItems ld fuel env ids (es.map Prod.snd) body (.bool true) pos
          if es.isEmpty then pure () else removeVars env ids
          pure r) s1 := by
  rw [evalFor, bind_apply, he]
  dsimp only
  rw [bind_apply, C04.cellOf_ref, hc]; dsimp only
  rw [bind_apply]
  simp only [getS, hs, if_neg hw1, if_neg hw2]
  rw [bind_apply, mapM_pure_evalM]

/-- **`for x in map`** (selector `values`, and every selector other than `keys` / `entries`):
    `forItems` receives the values of a permutation `es` of the cell's entries that reifies to
    the entry list of the reified map value, whose keys are strictly ascending -/
theorem for_map_values_order {fuel env ids e body what pos s c s1 kvs v}
    (hw1 : what ≠ "keys") (hw2 : what ≠ "entries")
    (he : eval ld fuel env e s = .ok (.ref c) s1)
    (hc : s1.cell c = some (.map kvs)) (wf : HeapOK s1) (hv : reify s1 (.ref c) = some v) :
    ∃ (es : List (RVal × RVal)) (ves : List (Val × Val)), es.Perm kvs ∧ v = .map ves ∧
      es.mapM (pairF (reify s1)) = some ves ∧
      (ves.map Prod.fst).Pairwise (fun a b => vlt a b = true) ∧
      evalFor ld (fuel + 1) env ids e body what pos s =
        (do let r ← forItems ld fuel env ids (es.map Prod.snd) body (.bool true) pos
            if es.isEmpty then pure () else removeVars env ids
            pure r) s1 := by
  obtain ⟨P, hP, rfl⟩ := reify_map_cell hc hv
  have ok : KeysOK (P.map (·.1)) := wf c _ hc _ (keys_of_reifM hP)
  obtain ⟨es, h1, h2, h3⟩ := sortedEntriesR_bridge hP
  refine ⟨es, sortedEntries decRepr P, h2, mkMap_of_keysOK ok, h3, ?_,
    evalFor_map_values_unfold ld hw1 hw2 he hc h1⟩
  rw [sortedEntries_keys]
  exact strict_of_sorted ok

/-- **`[...map, rest]`**: the list literal splices the keys of the map, ascending -/
theorem spread_item_map_keys_order {fuel env e p ns pos s c s1 kvs v}
    (he : eval ld fuel env e s = .ok (.ref c) s1)
    (hc : s1.cell c = some (.map kvs)) (wf : HeapOK s1) (hv : reify s1 (.ref c) = some v) :
    ∃ (ys : List RVal) (ves : List (Val × Val)), ys.Perm (kvs.map Prod.fst) ∧ v = .map ves ∧
      ys.mapM (reify s1) = some (ves.map Prod.fst) ∧
      (ves.map Prod.fst).Pairwise (fun a b => vlt a b = true) ∧
      evalItems ld (fuel + 1) env (.spread e p :: ns) pos s =
        (do let rest ← evalItems ld fuel env ns pos
            pure (ys ++ rest)) s1 := by
  obtain ⟨P, hP, rfl⟩ := reify_map_cell hc hv
  have ok : KeysOK (P.map (·.1)) := wf c _ hc _ (keys_of_reifM hP)
  obtain ⟨ys, h1, h2, h3⟩ := sortedR_bridge (keys_of_reifM hP)
  have hk : (sortedEntries decRepr P).map Prod.fst = sortBy vlt (P.map (·.1)) := sortedEntries_keys P
  refine ⟨ys, sortedEntries decRepr P, h2, mkMap_of_keysOK ok, ?_, ?_,
    evalItems_spread_unfold ld he (spreadValues_map hc h1 pos)⟩
  · rw [hk]; exact h3
  · rw [hk]; exact strict_of_sorted ok

/-! ## 5. non-vacuity: `sEx` with one frame binding `x` to the set cell 2 and `m` to the map cell 6 -/

def sExF : State := { sEx with frames := #[{ vars := [("x", .ref 2), ("m", .ref 6)] }] }

theorem sExF_ok : HeapOK sExF := sEx_ok

def ldE : Loader := {}

theorem sExF_x : eval ldE 1 0 (.ident "x" {}) sExF = .ok (.ref 2) sExF := by rw [eval]; rfl
theorem sExF_m : eval ldE 1 0 (.ident "m" {}) sExF = .ok (.ref 6) sExF := by rw [eval]; rfl

example := for_set_order ldE (ids := ["y"]) (body := .absent) (what := "") (pos := {}) sExF_x rfl sExF_ok rfl
example := for_stmt_set_order ldE (ids := ["y"]) (body := .absent) (what := "") (pos := {}) sExF_x rfl sExF_ok rfl
example := for_map_keys_order ldE (ids := ["y"]) (body := .absent) (pos := {}) sExF_m rfl sExF_ok rfl
example := for_stmt_map_keys_order ldE (ids := ["y"]) (body := .absent) (pos := {}) sExF_m rfl sExF_ok rfl
example := spread_item_set_order ldE (p := {}) (ns := []) (pos := {}) sExF_x rfl sExF_ok rfl
example := spread_arg_set_order ldE (p := {}) (n := none) (ns := []) (as := []) (pos := {}) sExF_x rfl sExF_ok rfl
example := for_map_values_order ldE (ids := ["y"]) (body := .absent) (what := "values") (pos := {})
  (by decide) (by decide) sExF_m rfl sExF_ok rfl
example := spread_item_map_keys_order ldE (p := {}) (ns := []) (pos := {}) sExF_m rfl sExF_ok rfl

-- the concrete order: cell 2 stores `<<1.5, 1.0>>`, the loop sees `1.0, 1.5`
example : evalFor ldE 2 0 ["y"] (.ident "x" {}) .absent "" {} sExF =
    (do let r ← forItems ldE 1 0 ["y"] [.dec 2 1, .dec 3 1] .absent (.bool true) {}
        if [RVal.dec 2 1, RVal.dec 3 1].isEmpty then pure () else removeVars 0 ["y"]
        pure r) sExF :=
  evalFor_set_unfold ldE sExF_x rfl rfl

example : evalFor ldE 2 0 ["y"] (.ident "m" {}) .absent "keys" {} sExF =
    (do let r ← forItems ldE 1 0 ["y"] [.dec 2 1, .dec 5 1] .absent (.bool true) {}
        if [(RVal.dec 2 1, RVal.str ['a']), (.dec 5 1, .ref 2)].isEmpty then pure () else removeVars 0 ["y"]
        pure r) sExF :=
  evalFor_map_keys_unfold ldE sExF_m rfl rfl

-- comprehension: the collection is evaluated in the state with the fresh frame
theorem sExF_x' : eval ldE 1 0 (.ident "x" {}) (sExF.newEnv 0).1 = .ok (.ref 2) (sExF.newEnv 0).1 := by
  rw [eval]; rfl
theorem sExF_m' : eval ldE 1 0 (.ident "m" {}) (sExF.newEnv 0).1 = .ok (.ref 6) (sExF.newEnv 0).1 := by
  rw [eval]; rfl
theorem sExF_new_ok : HeapOK (sExF.newEnv 0).1 := sEx_ok

example := compr_set_order ldE (kind := .list) (ve := .ident "y" {}) (ke := .absent) (id1 := "y")
  (w1 := none) (id2 := "") (l2 := .absent) (w2 := none) (cond := .absent) (pos := {})
  sExF_x' rfl sExF_new_ok rfl
example := compr_map_keys_order ldE (kind := .list) (ve := .ident "y" {}) (ke := .absent) (id1 := "y")
  (id2 := "") (l2 := .absent) (w2 := none) (cond := .absent) (pos := {})
  sExF_m' rfl sExF_new_ok rfl

/-! ## 6. a loop that really runs: `for y in x do y` on `sExF` visits `1.0` then `1.5`
      (the cell stores `1.5, 1.0`) and returns the last body value -/

/-- one iteration of `forItems` with a single loop variable and a body value that is not a
    control signal -/
theorem forItems_step_plain {fuel env x xs body res pos s s2 r} {id : String}
    (hb : eval ld fuel env body (s.put env id x) = .ok r s2)
    (h1 : r.isBreak = false) (h2 : r.isReturn = false) (h3 : r.isContinue = false) :
    forItems ld (fuel + 1) env [id] (x :: xs) body res pos s =
      forItems ld fuel env [id] xs body r pos s2 := by
  rw [forItems, bind_apply]
  have : bindLoopVars env [id] x pos s = .ok () (s.put env id x) := rfl
  rw [this]
  dsimp only
  rw [bind_apply, hb]
  simp [h1, h2, h3]

def okVal : Out RVal → Option RVal | .ok v _ => some v | _ => none

example : okVal (evalFor ldE 5 0 ["y"] (.ident "x" {}) (.ident "y" {}) "" {} sExF) = some (.dec 3 1) := by
  rw [evalFor_set_unfold ldE (fuel := 4) (s1 := sExF) (c := 2) (ys := [.dec 2 1, .dec 3 1])
      (by rw [eval]; rfl) rfl rfl,
    bind_apply,
    forItems_step_plain ldE (r := .dec 2 1) (by rw [eval]; rfl) rfl rfl rfl,
    forItems_step_plain ldE (r := .dec 3 1) (by rw [eval]; rfl) rfl rfl rfl, forItems]
  rfl

end Ckl.C06Eval
