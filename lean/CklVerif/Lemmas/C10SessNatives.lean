/-
  C10 (sessions): the modelled built-in functions (`callPure`) lose nothing.  The mutators
  (`append`, `insert_at`, `delete_at`, `remove`, `put`) overwrite a heap cell only after having
  found a container of the same kind in it; this needs the pointwise form `KAt` of the logic.
-/
import CklVerif.Lemmas.C10SessHelpers
namespace Ckl.C10S
open Ckl Ckl.C05 Ckl.C03

variable {e : EnvId} {X : String → Prop} {s0 : State}


theorem KTr.dateResM (r : DateRes) (pos : Pos) : KTr e X s0 (dateResM r pos) := by
  unfold Ckl.dateResM; k_auto
macro_rules | `(tactic| k_lemma) => `(tactic| exact KTr.dateResM _ _)

theorem KTr.callDate (name : String) (args : List (String × RVal)) (pos : Pos) (m : EvalM RVal)
    (h : callDate name args pos = some m) : KTr e X s0 m := by
  unfold Ckl.callDate at h
  split at h <;> first | (injection h with h; subst h; exact KTr.dateResM _ _) | (cases h)

theorem KTr.nativeAdd (a b : RVal) (pos : Pos) : KTr e X s0 (nativeAdd a b pos) := by
  unfold Ckl.nativeAdd; k_auto
macro_rules | `(tactic| k_lemma) => `(tactic| exact KTr.nativeAdd _ _ _)

theorem KTr.nativeSub (a b : RVal) (pos : Pos) : KTr e X s0 (nativeSub a b pos) := by
  unfold Ckl.nativeSub; k_auto
macro_rules | `(tactic| k_lemma) => `(tactic| exact KTr.nativeSub _ _ _)

theorem KTr.nativeMul (a b : RVal) (pos : Pos) : KTr e X s0 (nativeMul a b pos) := by
  unfold Ckl.nativeMul; k_auto
macro_rules | `(tactic| k_lemma) => `(tactic| exact KTr.nativeMul _ _ _)

theorem KTr.nativeDiv (a b : RVal) (d : Option RVal) (pos : Pos) : KTr e X s0 (nativeDiv a b d pos) := by
  unfold Ckl.nativeDiv; k_auto
macro_rules | `(tactic| k_lemma) => `(tactic| exact KTr.nativeDiv _ _ _ _)

theorem KTr.nativeMod (a b : RVal) (pos : Pos) : KTr e X s0 (nativeMod a b pos) := by
  unfold Ckl.nativeMod; k_auto
macro_rules | `(tactic| k_lemma) => `(tactic| exact KTr.nativeMod _ _ _)



/-! ### pointwise logic: the program is run in a known state -/

/-- `m`, run in the state `s`, satisfies the (uniform) postcondition relative to `s0` -/
structure KAt {α} (e : EnvId) (X : String → Prop) (s0 s : State) (m : EvalM α) : Prop where
  run : HPost e X X s0 (m s)

/-- programs that never change the state -/
structure Quiet {α} (m : EvalM α) : Prop where
  run : ∀ s, stOf (m s) = s

/-- what `cellOf v` returns in state `s` -/
def cellVal (s : State) : RVal → Option Cell
  | .ref a => s.cell a
  | _ => none

theorem cellOf_run (v : RVal) (s : State) : Ckl.cellOf v s = .ok (cellVal s v) s := by
  cases v <;> rfl

theorem KTr.of_at {α} {m : EvalM α} (h : ∀ s, Mono e X s0 s → KAt e X s0 s m) : KTr e X s0 m :=
  ⟨fun s hs => (h s hs).run⟩

namespace KAt
variable {α β : Type} {s : State}

theorem of_ktr {m : EvalM α} (h : KTr e X s0 m) (hs : Mono e X s0 s) : KAt e X s0 s m := ⟨h.run s hs⟩

theorem bind_quiet {m : EvalM α} {f : α → EvalM β} (hq : Quiet m) (hs : Mono e X s0 s)
    (hf : ∀ a, KAt e X s0 s (f a)) : KAt e X s0 s (m >>= f) := by
  constructor
  rw [bind_def]
  have := hq.run s
  cases hr : m s with
  | ok a s' => rw [hr] at this; cases this; exact (hf a).run
  | err v msg p t s' => rw [hr] at this; cases this; exact hs
  | fail k s' => rw [hr] at this; cases this; exact ⟨fun _ => hs, hs.weaken_all⟩

theorem cellOf_bind {v : RVal} {f : Option Cell → EvalM β} (hf : KAt e X s0 s (f (cellVal s v))) :
    KAt e X s0 s (Ckl.cellOf v >>= f) := by
  constructor; rw [bind_def, cellOf_run]; exact hf.run

theorem getS_bind {f : State → EvalM β} (hf : KAt e X s0 s (f s)) : KAt e X s0 s (Ckl.getS >>= f) :=
  ⟨hf.run⟩

/-- a state change justified in the known state, followed by a program for which the
    state-independent logic suffices -/
theorem modifyS_bind {g : State → State} {f : Unit → EvalM β} (hg : Mono e X s0 (g s))
    (hf : KTr e X s0 (f ())) : KAt e X s0 s (Ckl.modifyS g >>= f) := ⟨hf.run _ hg⟩

theorem modifyS {g : State → State} (hg : Mono e X s0 (g s)) : KAt e X s0 s (Ckl.modifyS g) := ⟨hg⟩

end KAt

namespace Quiet
variable {α β : Type}
theorem pure (a : α) : Quiet (Pure.pure a : EvalM α) := ⟨fun _ => rfl⟩
theorem throwE (msg : String) (pos : Pos) : Quiet (Ckl.throwE msg pos : EvalM α) := ⟨fun _ => rfl⟩
theorem unsupported (w : String) : Quiet (Ckl.unsupported w : EvalM α) := ⟨fun _ => rfl⟩
theorem getS : Quiet Ckl.getS := ⟨fun _ => rfl⟩
theorem typeOf (v : RVal) : Quiet (Ckl.typeOf v) := ⟨fun _ => rfl⟩
theorem bind {m : EvalM α} {f : α → EvalM β} (hm : Quiet m) (hf : ∀ a, Quiet (f a)) : Quiet (m >>= f) := by
  constructor
  intro s
  rw [bind_def]
  have := hm.run s
  cases hr : m s with
  | ok a s' => rw [hr] at this; cases this; exact (hf a).run _
  | err v msg p t s' => rw [hr] at this; cases this; rfl
  | fail k s' => rw [hr] at this; cases this; rfl
end Quiet

macro "quiet_step" : tactic => `(tactic| first
  | exact Quiet.pure _
  | exact Quiet.throwE _ _
  | exact Quiet.unsupported _
  | exact Quiet.getS
  | exact Quiet.typeOf _
  | apply Quiet.bind
  | intro _
  | split)
macro "quiet" : tactic => `(tactic| repeat' quiet_step)

theorem Quiet.argGet (args : List (String × RVal)) (n : String) (pos : Pos) : Quiet (argGet args n pos) := by
  unfold Ckl.argGet; quiet
theorem Quiet.getIndex (v : RVal) (pos : Pos) : Quiet (getIndex v pos) := by
  unfold Ckl.getIndex; quiet
theorem Quiet.asStringM (v : RVal) (pos : Pos) : Quiet (asStringM v pos) := by
  unfold Ckl.asStringM; quiet

/-- overwriting the cell that `cellOf` has just shown to hold a container of the same kind -/
theorem mono_setCell {s : State} {a : Nat} {c c0 : Cell} (hs : Mono e X s0 s)
    (h0 : cellVal s (.ref a) = some c0) (hk : cellKind c = cellKind c0) :
    Mono e X s0 (s.setCell a c) := hs.grow (Grow.setCell h0 hk)

macro "k_at_step" : tactic => `(tactic| first
  | exact KAt.modifyS (mono_setCell (by assumption) (by assumption) (by rfl))
  | (refine KAt.modifyS_bind (mono_setCell (by assumption) (by assumption) (by rfl)) ?_; exact KTr.pure _)
  | with_reducible apply KAt.cellOf_bind
  | with_reducible apply KAt.getS_bind
  | (with_reducible refine KAt.bind_quiet (Quiet.argGet _ _ _) (by assumption) ?_; intro _)
  | (with_reducible refine KAt.bind_quiet (Quiet.getIndex _ _) (by assumption) ?_; intro _)
  | (with_reducible refine KAt.bind_quiet (Quiet.asStringM _ _) (by assumption) ?_; intro _)
  | (with_reducible refine KAt.bind_quiet (Quiet.typeOf _) (by assumption) ?_; intro _)
  | (refine KAt.of_ktr ?_ (by assumption); with_reducible k_lemma)
  | ((with_reducible refine KAt.bind_quiet ?_ (by assumption) ?_); (focus (quiet; done)); intro _)
  | tr_beta
  | intro _
  | split)

macro "k_at_auto" : tactic => `(tactic| repeat' k_at_step)

set_option maxHeartbeats 250000 in
/-- every modelled pure native loses nothing -/
theorem KTr.callPure (name : String) (args : List (String × RVal)) (d : Option RVal) (pos : Pos)
    (m : EvalM RVal) (h : callPure name args d pos = some m) : KTr e X s0 m := by
  unfold Ckl.callPure at h
  split at h
  all_goals first | (cases h) | (exact KTr.callDate _ _ _ _ h)
  all_goals first
    | (k_auto; done)
    | (refine KTr.of_at (fun s hs => ?_); k_at_auto)

end Ckl.C10S
