"""Generated programs (harness/refinterp.py) checked three ways: reference interpreter (the language rules),
implementation, model evaluator."""
import json

from harness import core, session, refinterp


def _gen(job):
    import random
    prof, seed, size = job
    rng = random.Random(seed)
    ir = refinterp.gen_program(rng, prof, size)
    return prof, ir, refinterp.to_source(ir), refinterp.ref_run(ir)


def run_profiles(ctx, profiles, n_per_profile, sizes=(4, 8, 14, 22)):
    import multiprocessing as mp
    rng = ctx.rng
    jobs = [(prof, rng.getrandbits(48), rng.choice(sizes)) for prof in profiles for _ in range(n_per_profile)]
    with mp.Pool(16) as pool:
        gen = pool.map(_gen, jobs, chunksize=8)
    progs = [(prof, ir, src) for prof, ir, src, _ in gen]
    refs = [r for _, _, _, r in gen]
    reqs = [session.model_request([src], fuel=60000) for _, _, src in progs] if ctx.build.ok else []
    resp = core.run_driver(reqs) if reqs else []
    impl = session.ImplSession()
    try:
        for k, (prof, ir, src) in enumerate(progs):
            ctx.seen(src, nontrivial=refinterp.nontrivial(ir, prof))
            ctx.count("programs_" + prof)
            ref = refs[k]
            impl.it.environment.map.clear()
            out, printed, _ = impl.run(src)
            rp = {"op": "program", "profile": prof, "src": src, "ir": json.loads(json.dumps(ir))}
            if ref["outcome"] in ("value", "error"):
                if out[0] == 'val':
                    got = ("value", str_of_impl(impl, out), printed)
                elif out[0] == 'rt':
                    got = ("error", str_of_impl(impl, out), printed)
                else:
                    got = (out[0], str(out[1:])[:100], printed)
                want = (ref["outcome"], ref["value"], ref["output"])
                ctx.count("reference_checked")
                if got != want:
                    def still(ir2):
                        r2 = refinterp.ref_run(ir2)
                        if r2["outcome"] not in ("value", "error"):
                            return False
                        impl.it.environment.map.clear()
                        o2, p2, _ = impl.run(refinterp.to_source(ir2))
                        g2 = ("value" if o2[0] == 'val' else "error" if o2[0] == 'rt' else o2[0], str_of_impl(impl, o2) if o2[0] in ('val', 'rt') else "", p2)
                        return g2 != (r2["outcome"], r2["value"], r2["output"])
                    small = src
                    try:
                        if len(ctx.violations) >= 2:
                            raise RuntimeError("shrink only the first failures")
                        with core.time_limit(20):
                            ir_small = refinterp.shrink(ir, still)
                            small = refinterp.to_source(ir_small)
                    except (Exception, core.Timeout):  # noqa
                        pass
                    ctx.violation("oracle", f"the language rules give {want[:2]} with output {want[2][:80]!r}; the implementation gives {got[:2]} with output {got[2][:80]!r}: {small[:300]}",
                                  dict(rp, shrunk=small))
            else:
                ctx.count("reference_abstains")
            if resp:
                model, ghost = session.parse_model_session(resp[k])
                m = model[0]
                ctx.count("model_programs")
                if m[0][0] == 'fail':
                    ctx.count("model_abstains")
                    continue
                d = session.compare((out, printed, ()), (m[0], m[1], ()))
                if d:
                    ctx.disagreements += 1
                    ctx.violation("correspondence", f"{d}: {src[:300]}", dict(rp, correspondence="Ckl.eval vs Interpreter.interpret"))
                # every block entered had its finally part run exactly once (the ghost counters of the model)
                if m[0][0] in ('val', 'rt') and sorted(ghost.get("enter", [])) != sorted(ghost.get("fin", [])):
                    ctx.violation("correspondence", f"model ghost counters unbalanced: {ghost}", dict(rp, correspondence="Ckl.C05.finally_exactly_once (runtime cross-check)"))
    finally:
        impl.close()
    if progs:
        ctx.sample({"profile": progs[0][0], "program": progs[0][2][:400]})
        ctx.sample({"profile": progs[-1][0], "program": progs[-1][2][:400]})


def str_of_impl(impl, out):
    """rendering text of the implementation's value / error value (re-rendered from the dump is not needed: use the
    session's last value through str())"""
    return impl.last_text


# session.ImplSession keeps only dumps; patch in the text of the last value / error value
_orig_run = session.ImplSession.run


_timeouts = [0]


def _run_with_text(self, src, name="f", limit=5):
    from ckl.errors import CklRuntimeError, CklSyntaxError
    self.out.output = ""
    self.last_text = ""
    if _timeouts[0] > 3:
        limit = min(limit, 1)          # a tree on which programs hang: keep the run bounded
    try:
        with core.time_limit(limit):
            v = self.it.interpret(src, name)
            self.last_text = str(v)
            outcome = ('val', session.dump_rval(v))
    except core.Timeout:
        _timeouts[0] += 1
        outcome = ('timeout',)
    except CklRuntimeError as e:
        try:
            self.last_text = str(e.value)
        except Exception:  # noqa
            self.last_text = "<unrenderable>"
        outcome = ('rt', session.dump_rval(e.value), e.pos.line if e.pos else None)
    except CklSyntaxError:
        outcome = ('syn',)
    except RecursionError:
        outcome = ('host', 'RecursionError')
    except Exception as e:  # noqa
        outcome = ('host', type(e).__name__ + ": " + str(e)[:120])
    syms = tuple(self.it.environment.map.keys())
    return outcome, self.out.output, syms


session.ImplSession.run = _run_with_text


def run_templates(ctx, cases, label):
    """cases: (src, ('text', expected rendering) | ('error', expected error value rendering) | ('same', equivalent source)).
    Each source runs on a cleared environment of the implementation; the value (rendered) and the printed output are compared with the
    expectation; the source also goes to the model evaluator (correspondence)."""
    reqs = [session.model_request([src], fuel=60000) for src, _ in cases] if ctx.build.ok else []
    resp = core.run_driver(reqs) if reqs else []
    impl = session.ImplSession()
    try:
        for k, (src, exp) in enumerate(cases):
            ctx.seen((label, src), nontrivial=True)
            ctx.count("templates_" + label)
            impl.it.environment.map.clear()
            out, printed, _ = impl.run(src)
            got = (out[0], impl.last_text, printed)
            rp = {"op": "program", "profile": label, "src": src}
            if exp[0] == 'same':
                impl.it.environment.map.clear()
                o2, p2, _ = impl.run(exp[1])
                want = (o2[0], impl.last_text, p2)
                if o2[0] not in ('val', 'rt'):
                    ctx.violation("oracle", f"`{exp[1]}` ends with {o2[:2]}", dict(rp, src=exp[1]))
                elif got != want:
                    ctx.violation("oracle", f"`{src}` gives {got[:2]} (output {got[2][:60]!r}) but the equivalent `{exp[1]}` gives {want[:2]} (output {want[2][:60]!r})",
                                  dict(rp, equivalent=exp[1]))
            else:
                want = ('val' if exp[0] == 'text' else 'rt', exp[1])
                if got[:2] != want:
                    ctx.violation("oracle", f"`{src}` gives {got[:2]}, the language rules give {want}", dict(rp, expected=list(want)))
            if resp:
                model, ghost = session.parse_model_session(resp[k])
                m = model[0]
                ctx.count("model_programs")
                if m[0][0] == 'fail':
                    ctx.count("model_abstains")
                    continue
                d = session.compare((out, printed, ()), (m[0], m[1], ()))
                if d:
                    ctx.disagreements += 1
                    ctx.violation("correspondence", f"{d}: {src[:300]}", dict(rp, correspondence="Ckl.eval vs Interpreter.interpret"))
    finally:
        impl.close()
