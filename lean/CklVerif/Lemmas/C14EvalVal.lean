import CklVerif.Lemmas.C14EvalState

/-! C14 (evaluator part) — type names, reification, equality, order, rendering do not see positions -/
namespace Ckl.C14E
open Ckl

theorem typeName_ers (s : State) (v : RVal) : typeName (ers s) (ers v) = typeName s v := by
  cases v <;> simp only [typeName, ers_vnull, ers_vbool, ers_vint, ers_vdec, ers_vstr, ers_vpat, ers_vdate, ers_vref,
    ers_vclosure, ers_vnative, ers_vnode, ers_vbrk, ers_vcont, ers_vret]
  rw [← cell_ers]
  rcases s.cell _ with _ | c
  · rfl
  · cases c <;> rfl

@[obs_simp] theorem typeName_obs (s : State) (v : RVal) : typeName s v = V2 typeName (ers s) (ers v) :=
  (typeName_ers s v).symm

theorem getElem?_heap_ers (h : Array Cell) (a : Nat) : (h.map ers)[a]? = h[a]?.map ers := by simp

theorem reifyF_ers (dr : DecRenderer) (h : Array Cell) : ∀ (fuel : Nat) (v : RVal),
    reifyF dr (h.map ers) fuel (ers v) = reifyF dr h fuel v
  | 0, v => by cases v <;> rfl
  | fuel + 1, v => by
    have ih : (reifyF dr (h.map ers) fuel) ∘ ers = reifyF dr h fuel := funext (fun v => reifyF_ers dr h fuel v)
    cases v <;> try rfl
    rename_i a
    simp only [ers_vref, reifyF, getElem?_heap_ers]
    rcases h[a]? with _ | c
    · rfl
    · cases c <;> simp only [Option.map_some, ers_clist, ers_cset, ers_cmap, ers_cobj, ers_cclosure, ers_list,
        List.mapM_map]
      · rw [← ih]
      · rw [← ih]
      · congr 2
        funext kv
        show (do let k ← reifyF dr (h.map ers) fuel (ers kv.1); let v ← reifyF dr (h.map ers) fuel (ers kv.2); pure (k, v)) = _
        rw [reifyF_ers dr h fuel, reifyF_ers dr h fuel]

theorem reify_ers (s : State) (v : RVal) : reify (ers s) (ers v) = reify s v := by
  simp only [reify, ers_state_heap, ers_array, Array.size_map, reifyF_ers]

@[obs_simp] theorem reify_obs (s : State) (v : RVal) : reify s v = V2 reify (ers s) (ers v) := (reify_ers s v).symm


theorem rveqF_ers (h : Array Cell) : ∀ (fuel : Nat) (a b : RVal),
    rveqF (h.map ers) fuel (ers a) (ers b) = rveqF h fuel a b
  | 0, a, b => by cases a <;> cases b <;> rfl
  | fuel + 1, a, b => by
    have ih := rveqF_ers h fuel
    cases a <;> cases b <;> try rfl
    rename_i a b
    simp only [ers_vref, rveqF, getElem?_heap_ers]
    split
    · rfl
    · rcases h[a]? with _ | c <;> rcases h[b]? with _ | d
      · rfl
      · cases d <;> rfl
      · cases c <;> rfl
      · cases c <;> cases d <;> try rfl
        all_goals simp [List.zip_map, List.all_map, List.any_map, Function.comp_def, ih]

theorem rveq_ers (s : State) (a b : RVal) : rveq (ers s) (ers a) (ers b) = rveq s a b := by
  simp only [rveq, ers_state_heap, ers_array, Array.size_map, rveqF_ers]

theorem rveq_ers' (s : State) (a b : RVal) : rveq (ers s) (ers a) (ers b) = rveq s a b := rveq_ers s a b

@[obs_simp] theorem rveq_obs (s : State) (a b : RVal) : rveq s a b = V3 rveq (ers s) (ers a) (ers b) :=
  (rveq_ers s a b).symm


theorem memR_ers (s : State) (x : RVal) (xs : List RVal) : memR (ers s) (ers x) (xs.map ers) = memR s x xs := by
  simp [memR, List.any_map, Function.comp_def, rveq_ers]

@[obs_simp] theorem memR_obs (s : State) (x : RVal) (xs : List RVal) :
    memR s x xs = V3 memR (ers s) (ers x) (ers xs) := (memR_ers s x xs).symm

@[simp] theorem mapGet_ers (s : State) (k : RVal) (l : List (RVal × RVal)) :
    Option.map ers (mapGet s k l) = mapGet (ers s) (ers k) (l.map ers) := by
  induction l with
  | nil => rfl
  | cons p l ih =>
    obtain ⟨k', v⟩ := p
    simp only [mapGet, List.map_cons, ers_pair, rveq_ers]
    split <;> simp [ih]

@[simp] theorem mapPut_ers (s : State) (k v : RVal) (l : List (RVal × RVal)) :
    List.map ers (mapPut s k v l) = mapPut (ers s) (ers k) (ers v) (l.map ers) := by
  induction l with
  | nil => rfl
  | cons p l ih =>
    obtain ⟨k', v'⟩ := p
    simp only [mapPut, List.map_cons, ers_pair, rveq_ers]
    split <;> simp [ih]

@[simp] theorem mapDel_ers (s : State) (k : RVal) (l : List (RVal × RVal)) :
    List.map ers (mapDel s k l) = mapDel (ers s) (ers k) (l.map ers) := by
  induction l with
  | nil => rfl
  | cons p l ih =>
    obtain ⟨k', v'⟩ := p
    simp only [mapDel, List.map_cons, ers_pair, rveq_ers]
    split <;> simp [ih]

@[simp] theorem setAdd_ers (s : State) (x : RVal) (l : List RVal) :
    List.map ers (setAdd s x l) = setAdd (ers s) (ers x) (l.map ers) := by
  simp only [setAdd, memR_ers]
  split <;> simp

@[ers_simp] theorem mapGet_ers' (s : State) (k : RVal) (l : List (RVal × RVal)) :
    ers (mapGet s k l) = mapGet (ers s) (ers k) (ers l) := mapGet_ers s k l
@[ers_simp] theorem mapPut_ers' (s : State) (k v : RVal) (l : List (RVal × RVal)) :
    ers (mapPut s k v l) = mapPut (ers s) (ers k) (ers v) (ers l) := mapPut_ers s k v l
@[ers_simp] theorem mapDel_ers' (s : State) (k : RVal) (l : List (RVal × RVal)) :
    ers (mapDel s k l) = mapDel (ers s) (ers k) (ers l) := mapDel_ers s k l
@[ers_simp] theorem setAdd_ers' (s : State) (x : RVal) (l : List RVal) :
    ers (setAdd s x l) = setAdd (ers s) (ers x) (ers l) := setAdd_ers s x l

theorem rvlt_ers (s : State) (a b : RVal) : rvlt (ers s) (ers a) (ers b) = rvlt s a b := by
  simp only [rvlt, reify_ers]

@[obs_simp] theorem rvlt_obs (s : State) (a b : RVal) : rvlt s a b = V3 rvlt (ers s) (ers a) (ers b) :=
  (rvlt_ers s a b).symm

/-! sorting by a key that the erasure keeps -/

theorem insertBy_map {α β} (f : α → β) (lt : α → α → Bool) (lt' : β → β → Bool)
    (h : ∀ a b, lt' (f a) (f b) = lt a b) (x : α) (l : List α) :
    insertBy lt' (f x) (l.map f) = (insertBy lt x l).map f := by
  induction l with
  | nil => rfl
  | cons y l ih =>
    simp only [insertBy, List.map_cons, h]
    split <;> simp [ih]

theorem sortBy_map {α β} (f : α → β) (lt : α → α → Bool) (lt' : β → β → Bool)
    (h : ∀ a b, lt' (f a) (f b) = lt a b) (l : List α) :
    sortBy lt' (l.map f) = (sortBy lt l).map f := by
  induction l with
  | nil => rfl
  | cons y l ih => simp only [sortBy, List.map_cons, ih, insertBy_map f lt lt' h]

theorem mapM_keyed_ers {α} [Ers α] (g : α → Option Val) (g' : α → Option Val) (hg : ∀ x, g' (ers x) = g x)
    (xs : List α) :
    (xs.map ers).mapM (fun x => do let v ← g' x; pure (v, x)) =
      (xs.mapM (fun x => do let v ← g x; pure (v, x))).map (List.map (fun p : Val × α => (p.1, ers p.2))) := by
  induction xs with
  | nil => rfl
  | cons x xs ih =>
    simp only [List.map_cons, List.mapM_cons, ih, hg]
    cases g x <;> simp
    cases (List.mapM (fun x => do let v ← g x; pure (v, x)) xs) <;> simp

@[simp] theorem sortedR_ers (s : State) (xs : List RVal) :
    Option.map (List.map ers) (sortedR s xs) = sortedR (ers s) (xs.map ers) := by
  simp only [sortedR]
  rw [mapM_keyed_ers (reify s) (reify (ers s)) (reify_ers s)]
  cases (List.mapM (fun x => do let v ← reify s x; pure (v, x)) xs) with
  | none => rfl
  | some l =>
    simp only [Option.map_some, Option.bind_eq_bind, Option.bind_some, Option.pure_def, Option.some.injEq]
    rw [sortBy_map (fun p : Val × RVal => (p.1, ers p.2)) (fun a b => vlt a.1 b.1) (fun a b => vlt a.1 b.1)
      (fun _ _ => rfl)]
    simp [List.map_map, Function.comp_def]

@[simp] theorem sortedEntriesR_ers (s : State) (xs : List (RVal × RVal)) :
    Option.map (List.map ers) (sortedEntriesR s xs) = sortedEntriesR (ers s) (xs.map ers) := by
  simp only [sortedEntriesR]
  rw [mapM_keyed_ers (fun kv : RVal × RVal => reify s kv.1) (fun kv : RVal × RVal => reify (ers s) kv.1) (fun kv => reify_ers s kv.1)]
  cases (List.mapM (fun kv => do let v ← reify s kv.1; pure (v, kv)) xs) with
  | none => rfl
  | some l =>
    simp only [Option.map_some, Option.bind_eq_bind, Option.bind_some, Option.pure_def, Option.some.injEq]
    rw [sortBy_map (fun p : Val × (RVal × RVal) => (p.1, ers p.2)) (fun a b => vlt a.1 b.1) (fun a b => vlt a.1 b.1)
      (fun _ _ => rfl)]
    simp [List.map_map, Function.comp_def]


@[ers_simp] theorem sortedR_ers' (s : State) (xs : List RVal) : ers (sortedR s xs) = sortedR (ers s) (ers xs) :=
  sortedR_ers s xs
@[ers_simp] theorem sortedEntriesR_ers' (s : State) (xs : List (RVal × RVal)) :
    ers (sortedEntriesR s xs) = sortedEntriesR (ers s) (ers xs) := sortedEntriesR_ers s xs

theorem rrenderF_ers (s : State) : ∀ (fuel : Nat) (v : RVal), rrenderF (ers s) fuel (ers v) = rrenderF s fuel v
  | 0, v => by
    cases v <;> simp only [ers_vnull, ers_vbool, ers_vint, ers_vdec, ers_vstr, ers_vpat, ers_vdate, ers_vref,
      ers_vclosure, ers_vnative, ers_vnode, ers_vbrk, ers_vcont, ers_vret, rrenderF]
    rw [← cell_ers]
    rcases s.cell _ with _ | c
    · rfl
    · cases c <;> rfl
  | fuel + 1, v => by
    have ih : (rrenderF (ers s) fuel) ∘ ers = rrenderF s fuel := funext (fun v => rrenderF_ers s fuel v)
    cases v <;> simp only [ers_vnull, ers_vbool, ers_vint, ers_vdec, ers_vstr, ers_vpat, ers_vdate, ers_vref,
      ers_vclosure, ers_vnative, ers_vnode, ers_vbrk, ers_vcont, ers_vret, rrenderF]
    case closure a =>
      rw [← cell_ers]
      rcases s.cell _ with _ | c
      · rfl
      · cases c <;> rfl
    case ret v p => rw [rrenderF_ers s fuel v]
    case ref a =>
      rw [← cell_ers]
      rcases s.cell a with _ | c
      · simp only [Option.map_none]; rw [show reify (ers s) (.ref a) = reify s (.ref a) from reify_ers s (.ref a)]
      · cases c <;> simp only [Option.map_some, ers_clist, ers_cset, ers_cmap, ers_cobj, ers_cclosure, ers_list,
          dictHas_ers, List.mapM_map]
        · rw [← ih]
        · rw [show reify (ers s) (.ref a) = reify s (.ref a) from reify_ers s (.ref a)]
        · rw [show reify (ers s) (.ref a) = reify s (.ref a) from reify_ers s (.ref a)]
        · split
          · rfl
          · simp only [List.filter_map, List.mapM_map, Function.comp_def, ers_fst, ers_snd, ers_string,
              rrenderF_ers s fuel]
        · rw [show reify (ers s) (.ref a) = reify s (.ref a) from reify_ers s (.ref a)]
    all_goals first | rfl | (rw [← reify_ers]; rfl)

theorem rrender_ers (s : State) (v : RVal) : rrender (ers s) (ers v) = rrender s v := by
  simp only [rrender, heap_size_ers, rrenderF_ers]

@[obs_simp] theorem rrender_obs (s : State) (v : RVal) : rrender s v = V2 rrender (ers s) (ers v) :=
  (rrender_ers s v).symm

end Ckl.C14E
