import CklVerif.Lemmas.C19SrcL1Reverse

/-! C19Src (L1) — list.ckl `first` / `last` on a value that is neither NULL nor a list: the branch
    `if not is_list(lst) then error("argument is not a list (" + type(lst) + ")")`. -/
namespace Ckl.C19Src
open Ckl Ckl.C03 Ckl.Gen.LibSrc
variable (ld : Loader)

/-- the text of the error value -/
def notListMsg_L1 (tn : String) : List Char := ("argument is not a list (".toList ++ tn.toList) ++ [')']

/-- `error("argument is not a list (" + type(lst) + ")")` in the call frame -/
theorem notList_error_branch_L1 {s : State} {M nats srcs c m} (v : RVal) (ctx : Ctx s M nats srcs c m [("lst", v)])
    (hn : ∀ x ∈ firstNats, x ∈ nats) (p : Pos) (q1 q2 q3 q4 q5 q6 q7 q8 q9 : Pos) :
    Ev ld 12 c (.error (.call (.ident "add" q1) [some "a", some "b"]
        [.call (.ident "add" q2) [some "a", some "b"]
          [.lit (.str "argument is not a list (".toList) q3, .call (.ident "type" q4) [none] [.ident "lst" q5] q6] q7,
         .lit (.str [')']) q8] q9) p) s
      (.err (.str (notListMsg_L1 (typeName s v))) "" p [] s) := by
  obtain ⟨i, hadd⟩ := ctx.nat (x := "add") (hn _ (by decide)) (by rfl)
  obtain ⟨j, hty⟩ := ctx.nat (x := "type") (hn _ (by decide)) (by rfl)
  have T : Ev ld 3 c (.call (.ident "type" q4) [none] [.ident "lst" q5] q6) s (.ok (.str (typeName s v).toList) s) :=
    Ev.nat1 ld (k := 0) hty (by rfl) (by decide) (by trivial) (Ev.ident ld (ctx.var (x := "lst") (by rfl)))
      (pure_type _ _ _) rfl
  have A1 := Ev.natAB ld (k := 3) (p := q2) (pos := q7) hadd (by rfl) (by trivial) (by trivial)
    (Ev.litStr ld (p := q3) (t := "argument is not a list (".toList)) T (pure_add _ _ _ _) (nativeAdd_str _ _ _ _)
  rw [wrapCall_ok] at A1
  have A2 := Ev.natAB ld (k := 7) (p := q1) (pos := q9) hadd (by rfl) (by trivial) (by trivial)
    A1 (Ev.litStr ld (p := q8) (t := [')'])) (pure_add _ _ _ _) (nativeAdd_str _ _ _ _)
  rw [wrapCall_ok] at A2
  exact Ev.error ld A2

/-- the common shape of `first` and `last` on a value that is neither NULL nor a list: the error of the second branch; the heap is
    not touched -/
theorem index_body_err_L1 {s : State} {M nats srcs c m} {v : RVal} {x1 els : Node}
    {p1 p2 p3 p4 p5 p6 p7 p11 pe q1 q2 q3 q4 q5 q6 q7 q8 q9 : Pos}
    (ctx : Ctx s M nats srcs c m [("lst", v)]) (hn : ∀ x ∈ firstNats, x ∈ nats) (hs : ∀ p ∈ firstSrcs, p ∈ srcs)
    (h0 : v.isNull = false) (h1 : isListR s v = false) :
    ∃ s', Ext s s' ∧ s'.heap = s.heap ∧ Ev ld 15 c (.ite [.call (.ident "is_null" p1) [none] [.ident "lst" p2] p3,
        .not (.call (.ident "is_list" p4) [none] [.ident "lst" p5] p6) p7]
        [x1, .error (.call (.ident "add" q1) [some "a", some "b"]
          [.call (.ident "add" q2) [some "a", some "b"]
            [.lit (.str "argument is not a list (".toList) q3, .call (.ident "type" q4) [none] [.ident "lst" q5] q6] q7,
           .lit (.str [')']) q8] q9) pe] els p11) s
      (.err (.str (notListMsg_L1 (typeName s v))) "" pe [] s') := by
  obtain ⟨j, hl⟩ := ctx.nat (x := "is_null") (hn _ (by decide)) (by rfl)
  have g1 : Ev ld 13 c (.call (.ident "is_null" p1) [none] [.ident "lst" p2] p3) s (.ok (.bool false) s) := by
    have := Ev.nat1 ld (k := 10) (p := p1) (pos := p3) hl (by rfl) (by decide) (by trivial)
      (Ev.ident ld (p := p2) (ctx.var (x := "lst") (by rfl))) (pure_is_null _ _ _) rfl
    rwa [wrapCall_ok, h0] at this
  obtain ⟨f1, m1, hl1, hm1, hsrc1⟩ := ctx.src (x := "is_list") (src := type_is_list) (hs _ (by simp [firstSrcs])) (by rfl)
  obtain ⟨s1, e1, hh1, c1⟩ := typeTest_calls_heap_L1 ld (src := type_is_list) rfl rfl rfl ctx.env (firstNats_type hn)
    hm1 hsrc1 v
  rw [typeName_list, h1] at c1
  have E1 := Ev.callSrc1 ld (k := 6) (p := p4) hl1 hsrc1 rfl (by decide) (by trivial)
    (Ev.ident ld (p := p5) (ctx.var (x := "lst") (by rfl))) (c1 c p6)
  rw [wrapCall_ok] at E1
  have g2 := Ev.not ld (p := p7) E1
  have ctx1 := ctx.ext e1
  refine ⟨s1, e1, hh1, ?_⟩
  have hE := notList_error_branch_L1 ld v ctx1 hn pe q1 q2 q3 q4 q5 q6 q7 q8 q9
  rw [typeName_heap hh1] at hE
  exact Ev.ite ld (EvIf.false ld g1 (EvIf.true ld (Ev.mono ld g2 (by decide)) (Ev.mono ld hE (by decide))))

theorem index_calls_err_L1 {src : Node} {body : Node} {r : State → Out RVal}
    (hps : lamParams src = ["lst"]) (hds : lamDefaults src = [.absent]) (hbody : lamBody src = body)
    {s : State} {M nats srcs fn m} (h : LibEnv s M nats srcs) (hm : M m) (hsrc : IsSrc s fn src m) (v : RVal)
    (hb : ∀ s0, Ctx s0 M nats srcs s.frames.size m [("lst", v)] → s0.heap = s.heap →
      ∃ s', Ext s0 s' ∧ s'.heap = s0.heap ∧ Ev ld 15 s.frames.size body s0 (r s')) :
    ∃ s', Ext s s' ∧ s'.heap = s.heap ∧ ∀ env pos, Calls ld 16 fn [("lst", v)] env pos s (postCall (r s')) := by
  obtain ⟨a, nm, rfl, hcell⟩ := hsrc
  rw [hps, hds, hbody] at hcell
  have hh0 := calleeState_heap s m [("lst", v)] ["lst"]
  obtain ⟨s', e', hh, hev⟩ := hb _ (Ctx.callee1 h hm "lst" v) hh0
  refine ⟨s', (calleeState_ext s m [("lst", v)] ["lst"]).trans e', by rw [hh, hh0], fun env pos => ?_⟩
  exact Calls.closure ld hcell rfl (by decide) (by intro p hp; simp at hp; subst hp; simp [dictGet]) hev

/-- `first(v)` for `v` neither NULL nor a list: the runtime error `argument is not a list (<type>)` -/
theorem first_calls_err {s : State} {M nats srcs fn m} (h : LibEnv s M nats srcs) (hn : ∀ x ∈ firstNats, x ∈ nats)
    (hs : ∀ p ∈ firstSrcs, p ∈ srcs) (hm : M m) (hsrc : IsSrc s fn list_first m)
    (v : RVal) (h0 : v.isNull = false) (h1 : isListR s v = false) :
    ∃ s', Ext s s' ∧ s'.heap = s.heap ∧ ∀ env pos, Calls ld 16 fn [("lst", v)] env pos s
      (.err (.str (notListMsg_L1 (typeName s v))) "" (errPos (lamBody list_first)) [] s') :=
  index_calls_err_L1 ld (src := list_first)
    (r := fun s' => .err (.str (notListMsg_L1 (typeName s v))) "" (errPos (lamBody list_first)) [] s') rfl rfl rfl
    h hm hsrc v (fun s0 ctx hh => by
      obtain ⟨s', e', hh', hev⟩ := index_body_err_L1 ld ctx hn hs h0 (by rw [isListR_heap_L1 hh]; exact h1)
      rw [typeName_heap hh] at hev
      exact ⟨s', e', hh', hev⟩)

/-- `last(v)` for `v` neither NULL nor a list -/
theorem last_calls_err {s : State} {M nats srcs fn m} (h : LibEnv s M nats srcs) (hn : ∀ x ∈ firstNats, x ∈ nats)
    (hs : ∀ p ∈ firstSrcs, p ∈ srcs) (hm : M m) (hsrc : IsSrc s fn list_last m)
    (v : RVal) (h0 : v.isNull = false) (h1 : isListR s v = false) :
    ∃ s', Ext s s' ∧ s'.heap = s.heap ∧ ∀ env pos, Calls ld 16 fn [("lst", v)] env pos s
      (.err (.str (notListMsg_L1 (typeName s v))) "" (errPos (lamBody list_last)) [] s') :=
  index_calls_err_L1 ld (src := list_last)
    (r := fun s' => .err (.str (notListMsg_L1 (typeName s v))) "" (errPos (lamBody list_last)) [] s') rfl rfl rfl
    h hm hsrc v (fun s0 ctx hh => by
      obtain ⟨s', e', hh', hev⟩ := index_body_err_L1 ld ctx hn hs h0 (by rw [isListR_heap_L1 hh]; exact h1)
      rw [typeName_heap hh] at hev
      exact ⟨s', e', hh', hev⟩)

end Ckl.C19Src
