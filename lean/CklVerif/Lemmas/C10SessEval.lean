/-
  C10 (sessions): the induction step for `eval` itself (one case per node kind), and the
  assembled induction.
-/
import CklVerif.Lemmas.C10SessMutual
namespace Ckl.C10S
open Ckl Ckl.C05 Ckl.C03

section
variable {e : EnvId} {ld : Loader} {fuel : Nat}

theorem step_eval (ih : AllK e ld fuel) : ∀ X s0 env n, KTr e X s0 (eval ld (fuel+1) env n) := by
  have ihEval := ih.eval; have ihAnd := ih.evalAnd; have ihOr := ih.evalOr; have ihIf := ih.evalIf
  have ihSeq := ih.evalSeq; have ihItems := ih.evalItems; have ihPairs := ih.evalPairs
  have ihBody := ih.evalBody; have ihFin := ih.evalFinally; have ihTry := ih.tryHandlers
  have ihInvoke := ih.invoke; have ihFor := ih.evalFor; have ihWhile := ih.whileLoop
  have ihCL := ih.comprLoop; have ihCP := ih.comprProduct; have ihCPar := ih.comprParallel
  have ihReq := ih.evalRequire
  intro X s0 env n
  cases n with
  | lit v pos => cases v <;> simp only [Ckl.eval] <;> k_auto
  | block es ce ch fin tl pos =>
    simp only [Ckl.eval]
    refine ⟨fun s hs => ?_⟩
    have hB := (ihBody X s0 env es (.bool true)).run (ghostEnter s pos) (hs.grow (Grow.of_eq rfl rfl))
    have hT := fun v msg p t s' (h : Mono e X s0 s') => (ihTry X s0 env ce ch v msg p t).run s' h
    have hF : ∀ s1, Mono e X s0 s1 →
        HPost e X X s0 (evalFinally ld fuel env fin (ghostFin s1 pos)) := fun s1 h1 =>
      (ihFin X s0 env fin).run _ (h1.grow (Grow.of_eq rfl rfl))
    revert hB
    cases evalBody ld fuel env es (.bool true) (ghostEnter s pos) with
    | ok v s1 =>
      intro hB
      dsimp only
      have hf := hF s1 hB; revert hf
      cases evalFinally ld fuel env fin (ghostFin s1 pos) <;> exact id
    | err v msg p t s1 =>
      intro hB
      dsimp only
      have ht := hT v msg p t s1 hB; revert ht
      cases tryHandlers ld fuel env ce ch v msg p t s1 with
      | ok hv s2 =>
        intro ht
        dsimp only
        have hf := hF s2 ht; revert hf
        cases evalFinally ld fuel env fin (ghostFin s2 pos) <;> exact id
      | err v' m' p' t' s2 =>
        intro ht
        dsimp only
        have hf := hF s2 ht; revert hf
        cases evalFinally ld fuel env fin (ghostFin s2 pos) <;> exact id
      | fail f s2 =>
        cases f with
        | oof => exact id
        | unsupported w => exact id
        | host k =>
          intro ht
          dsimp only
          have hf := hF s2 (ht.1 trivial); revert hf
          cases evalFinally ld fuel env fin (ghostFin s2 pos) <;> first | exact id | exact fun h => ⟨fun _ => h, h.weaken_all⟩
        | syn e =>
          intro ht
          dsimp only
          have hf := hF s2 (ht.1 trivial); revert hf
          cases evalFinally ld fuel env fin (ghostFin s2 pos) <;> first | exact id | exact fun h => ⟨fun _ => h, h.weaken_all⟩
    | fail f s1 =>
      cases f with
      | oof => exact id
      | unsupported w => exact id
      | host k =>
        intro hB
        dsimp only
        have hf := hF s1 (hB.1 trivial); revert hf
        cases evalFinally ld fuel env fin (ghostFin s1 pos) <;> first | exact id | exact fun h => ⟨fun _ => h, h.weaken_all⟩
      | syn e =>
        intro hB
        dsimp only
        have hf := hF s1 (hB.1 trivial); revert hf
        cases evalFinally ld fuel env fin (ghostFin s1 pos) <;> first | exact id | exact fun h => ⟨fun _ => h, h.weaken_all⟩
  | «for» ids c body what pos =>
    -- the loop proper may unbind the identifiers; the node puts the hidden bindings back
    simp only [Ckl.eval]
    exact KTr.forNode env ids (fun s1 => ihFor X s1 env ids c body what pos)
      (fun _ _ h => h) (fun he x hx => Or.inr (Or.inr ⟨he, hx⟩))
  | lambda ps ds body pos =>
    simp only [Ckl.eval]
    exact ⟨fun s hs => hs.grow (Grow.alloc s _)⟩
  | compr kind shape ve ke id1 l1 w1 id2 l2 w2 cond pos =>
    cases shape <;> simp only [Ckl.eval] <;> k_auto
  | slice c a b pos =>
    by_cases hb : b = Node.absent
    · subst hb; simp only [Ckl.eval]; k_auto
    · simp only [Ckl.eval]; k_auto
  | ret c pos =>
    by_cases hb : c = Node.absent
    · subst hb; simp only [Ckl.eval]; k_auto
    · simp only [Ckl.eval]; k_auto
  | deref c i d pos =>
    by_cases hb : d = Node.absent
    · subst hb; simp only [Ckl.eval]; k_auto
    · simp only [Ckl.eval]; k_auto
  | derefAssign c i v pos =>
    -- in-place element assignment: the cell that `cellOf` has shown to hold a container is
    -- overwritten by a container of the same kind
    simp only [Ckl.eval]
    with_reducible apply KTr.bind
    · k_auto
    · intro idx
      with_reducible apply KTr.bind
      · k_auto
      · intro cv
        with_reducible apply KTr.bind
        · k_auto
        · intro vv
          refine KTr.of_at (fun s hs => ?_)
          k_at_auto
  | _ => simp only [Ckl.eval] <;> k_auto

end

/-- every function of the evaluator loses nothing (relation `Mono e X`), for every fuel -/
theorem allK {e : EnvId} {ld : Loader} (hN : NativeGrows ld) :
    ∀ fuel, AllK e ld fuel := by
  intro fuel
  induction fuel with
  | zero => exact allK_zero e ld
  | succ k ih =>
    exact {
      eval := step_eval ih
      evalAnd := step_evalAnd ih
      evalOr := step_evalOr ih
      evalIf := step_evalIf ih
      evalSeq := step_evalSeq ih
      evalItems := step_evalItems ih
      evalPairs := step_evalPairs ih
      evalBody := step_evalBody ih
      evalFinally := step_evalFinally ih
      tryHandlers := step_tryHandlers ih
      invoke := step_invoke ih
      evalArgs := step_evalArgs ih
      callFn := step_callFn hN ih
      bindParams := step_bindParams ih
      evalFor := step_evalFor ih
      forItems := step_forItems ih
      forListLive := step_forListLive ih
      forString := step_forString ih
      whileLoop := step_whileLoop ih
      comprStep := step_comprStep ih
      comprLoop := step_comprLoop ih
      comprProduct := step_comprProduct ih
      comprParallel := step_comprParallel ih
      nativeSorted := step_nativeSorted ih
      sortedOuter := step_sortedOuter ih
      sortedInner := step_sortedInner ih
      call1 := step_call1 ih
      call2 := step_call2 ih
      evalRequire := step_evalRequire ih
      loadModule := step_loadModule ih }

end Ckl.C10S
