/-
  C10 (sessions): statement sequences (`evalBody`) run left to right, stop at the first failure and
  never roll back — the equations.
-/
import CklVerif.Lemmas.C05Basic
namespace Ckl.C10S
open Ckl Ckl.C05

/-- a control value (`return`, `break`, `continue`) ends a statement sequence -/
def isCtl (v : RVal) : Bool := v.isReturn || v.isBreak || v.isContinue

variable (ld : Loader)

theorem evalBody_nil (f : Nat) (env : EnvId) (last : RVal) (s : State) :
    evalBody ld (f+1) env [] last s = .ok last s := by
  simp only [evalBody]; rfl

/-- one step of a statement sequence -/
theorem evalBody_cons (f : Nat) (env : EnvId) (n : Node) (ns : List Node) (last : RVal) (s : State) :
    evalBody ld (f+1) env (n :: ns) last s =
      match eval ld f env n s with
      | .ok v s' => if isCtl v then .ok v s' else evalBody ld f env ns v s'
      | .err v m p t s' => .err v m p t s'
      | .fail k s' => .fail k s' := by
  simp only [evalBody]
  rw [bind_def]
  cases eval ld f env n s with
  | ok v s' =>
    dsimp only
    unfold isCtl
    split <;> rfl
  | err v m p t s' => rfl
  | fail k s' => rfl

/-- the statements `pre` all ran, ended with the value `v` in state `s1`, and none of them ended
    the sequence early with a control value -/
def RanAll (F : Nat) (env : EnvId) (pre : List Node) (last : RVal) (s : State) (v : RVal) (s1 : State) : Prop :=
  evalBody ld F env pre last s = .ok v s1 ∧ (pre ≠ [] → isCtl v = false)

/-- after a completed prefix the rest of the sequence runs from the state the prefix left, with
    the fuel the prefix left: nothing is rolled back, nothing is skipped -/
theorem evalBody_append : ∀ (pre : List Node) (F : Nat) (env : EnvId) (rest : List Node) (last : RVal)
    (s : State) (v : RVal) (s1 : State), RanAll ld F env pre last s v s1 →
      pre.length < F ∧
      evalBody ld F env (pre ++ rest) last s = evalBody ld (F - pre.length) env rest v s1 := by
  intro pre
  induction pre with
  | nil =>
    intro F env rest last s v s1 h
    cases F with
    | zero => have := h.1; simp only [evalBody] at this; cases this
    | succ f =>
      have h1 := h.1
      rw [evalBody_nil] at h1
      cases h1
      exact ⟨Nat.succ_pos f, rfl⟩
  | cons n ns ih =>
    intro F env rest last s v s1 h
    cases F with
    | zero => have := h.1; simp only [evalBody] at this; cases this
    | succ f =>
      have h1 := h.1
      have hv := h.2 (List.cons_ne_nil _ _)
      rw [evalBody_cons] at h1
      rw [List.cons_append, evalBody_cons]
      cases hr : eval ld f env n s with
      | ok v0 s0 =>
        rw [hr] at h1
        dsimp only at h1 ⊢
        by_cases hc : isCtl v0 = true
        · rw [if_pos hc] at h1
          cases h1
          rw [hv] at hc; cases hc
        · rw [if_neg hc] at h1 ⊢
          have := ih f env rest v0 s0 v s1 ⟨h1, fun _ => hv⟩
          refine ⟨by simp only [List.length_cons]; omega, ?_⟩
          rw [this.2]
          simp only [List.length_cons, Nat.add_sub_add_right]
      | err v' m p t s' => rw [hr] at h1; cases h1
      | fail k s' => rw [hr] at h1; cases h1

/-- an empty top-level block part: no handlers -/
theorem tryHandlers_none (f : Nat) (env : EnvId) (v : RVal) (msg : String) (p : Pos) (t : List (String × Pos))
    (s : State) : tryHandlers ld (f+1) env [] [] v msg p t s = .err v msg p t s := by
  simp only [tryHandlers]

theorem evalFinally_nil (f : Nat) (env : EnvId) (s : State) : evalFinally ld (f+1) env [] s = .ok () s := by
  simp only [evalFinally]; rfl

end Ckl.C10S
