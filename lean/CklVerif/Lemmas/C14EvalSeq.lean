import CklVerif.Lemmas.C14EvalNatives3

/-! C14 (evaluator part) — sequence operations commute with the erasure -/
namespace Ckl.C14E
open Ckl
set_option linter.unusedSimpArgs false

section
variable {α : Type} [Ers α]

theorem ers_ite {c : Prop} [Decidable c] (a b : α) : ers (if c then a else b) = if c then ers a else ers b := by
  split <;> rfl

@[ers_simp] theorem ers_seq_deref (l : List α) (i : Int) : ers (Seq.deref l i) = Seq.deref (ers l) i := by
  simp only [Seq.deref, length_ers, ers_ite, ers_none, ers_getElem?]

theorem ers_pySlice (l : List α) (a b : Int) : ers (Seq.pySlice l a b) = Seq.pySlice (ers l) a b := by
  simp [Seq.pySlice, List.map_take, List.map_drop]

@[ers_simp] theorem ers_seq_slice (l : List α) (a : Int) (b : Option Int) :
    ers (Seq.slice l a b) = Seq.slice (ers l) a b := by
  simp only [Seq.slice, ers_pySlice, length_ers]

@[ers_simp] theorem ers_seq_substr (l : List α) (a : Int) (b : Option Int) :
    ers (Seq.substr l a b) = Seq.substr (ers l) a b := by
  simp only [Seq.substr, length_ers, ers_ite, ers_pySlice, ers_nil]

@[ers_simp] theorem ers_seq_insertAt (l : List α) (i : Int) (v : α) :
    ers (Seq.insertAt l i v) = Seq.insertAt (ers l) i (ers v) := by
  simp only [Seq.insertAt, length_ers, ers_ite, ers_append, ers_cons, ers_take, ers_drop]

@[ers_simp] theorem ers_seq_deleteAt_fst (l : List α) (i : Int) :
    ers (Seq.deleteAt l i).1 = (Seq.deleteAt (ers l) i).1 := by
  simp only [Seq.deleteAt, length_ers, apply_ite Prod.fst, ers_ite, ers_none, ers_getElem?]

@[ers_simp] theorem ers_seq_deleteAt_snd (l : List α) (i : Int) :
    ers (Seq.deleteAt l i).2 = (Seq.deleteAt (ers l) i).2 := by
  simp only [Seq.deleteAt, length_ers, apply_ite Prod.snd, ers_ite, ers_eraseIdx]

theorem findIdx_ers (eq eq' : α → α → Bool) (h : ∀ a b, eq' (ers a) (ers b) = eq a b) (x : α) (l : List α) (pos start : Nat) :
    Seq.findIdx eq' (ers x) (ers l) pos start = Seq.findIdx eq x l pos start := by
  induction l generalizing pos with
  | nil => rfl
  | cons y l ih =>
    simp only [ers_cons, Seq.findIdx, h]
    split
    · rfl
    · exact ih _

theorem findList_ers (eq eq' : α → α → Bool) (h : ∀ a b, eq' (ers a) (ers b) = eq a b) (l : List α) (x : α) (st : Int) :
    Seq.findList eq' (ers l) (ers x) st = Seq.findList eq l x st := by
  simp only [Seq.findList, findIdx_ers eq eq' h]

theorem findLastList_ers (eq eq' : α → α → Bool) (h : ∀ a b, eq' (ers a) (ers b) = eq a b) (l : List α) (x : α)
    (st : Option Int) : Seq.findLastList eq' (ers l) (ers x) st = Seq.findLastList eq l x st := by
  simp only [Seq.findLastList, length_ers]
  refine ite_congr rfl (fun _ => rfl) (fun _ => ?_)
  congr 1
  funext best i
  simp only [ers_list, List.getElem?_map]
  cases l[i]? with
  | none => rfl
  | some y => simp only [Option.map_some, h]
end

@[obs_simp] theorem findList_obs (s : State) (l : List RVal) (x : RVal) (st : Int) :
    Seq.findList (fun y z => rveq s y z) l x st =
      V4 Seq.findList (fun y z => rveq (ers s) y z) (ers l) (ers x) st :=
  (findList_ers _ _ (fun a b => rveq_ers s a b) l x st).symm

@[obs_simp] theorem findLastList_obs (s : State) (l : List RVal) (x : RVal) (st : Option Int) :
    Seq.findLastList (fun y z => rveq s y z) l x st =
      V4 Seq.findLastList (fun y z => rveq (ers s) y z) (ers l) (ers x) st :=
  (findLastList_ers _ _ (fun a b => rveq_ers s a b) l x st).symm

@[obs_simp] theorem findList_obs' (S : State) (l : List RVal) (x : RVal) (st : Int) :
    Seq.findList (fun y z => V3 rveq S (ers y) (ers z)) l x st =
      V4 Seq.findList (fun y z => V3 rveq S y z) (ers l) (ers x) st :=
  (findList_ers (fun y z => V3 rveq S (ers y) (ers z)) (fun y z => V3 rveq S y z) (fun _ _ => rfl) l x st).symm

@[obs_simp] theorem findLastList_obs' (S : State) (l : List RVal) (x : RVal) (st : Option Int) :
    Seq.findLastList (fun y z => V3 rveq S (ers y) (ers z)) l x st =
      V4 Seq.findLastList (fun y z => V3 rveq S y z) (ers l) (ers x) st :=
  (findLastList_ers (fun y z => V3 rveq S (ers y) (ers z)) (fun y z => V3 rveq S y z) (fun _ _ => rfl) l x st).symm

theorem eq_of_all_isInt {xs xs' : List RVal} (h : ers xs = ers xs') (hi : xs.all RVal.isInt = true) : xs = xs' := by
  induction xs generalizing xs' with
  | nil => cases xs' <;> simp_all
  | cons x xs ih =>
    cases xs' with
    | nil => simp at h
    | cons x' xs' =>
      simp only [ers_cons, List.cons.injEq] at h
      simp only [List.all_cons, Bool.and_eq_true] at hi
      rw [ih h.2 hi.2]
      have : x = x' := by
        have h1 := h.1
        cases x <;> simp [RVal.isInt] at hi <;> cases x' <;> simp at h1
        exact congrArg _ h1
      rw [this]

def allInt (l : List RVal) : Bool := l.all RVal.isInt
def allNumerical (l : List RVal) : Bool := l.all RVal.isNumerical

@[obs_simp] theorem allInt_obs (l : List RVal) : l.all RVal.isInt = V1 allInt (ers l) := by
  simp only [V1, allInt, ers_list, List.all_map]
  congr 1; funext x; cases x <;> rfl

@[obs_simp] theorem allNumerical_obs (l : List RVal) : l.all RVal.isNumerical = V1 allNumerical (ers l) := by
  simp only [V1, allNumerical, ers_list, List.all_map]
  congr 1; funext x; cases x <;> rfl

theorem ers_find? {α} [Ers α] (p p' : α → Bool) (h : ∀ x, p' (ers x) = p x) (l : List α) :
    ers (l.find? p) = (ers l).find? p' := by
  induction l with
  | nil => rfl
  | cons x l ih =>
    simp only [List.find?_cons, ers_cons, h]
    split <;> simp only [ers_some, ih]

@[ers_simp] theorem ers_find_notNum (l : List RVal) :
    ers (l.find? (fun x => !x.isNumerical)) = (ers l).find? (fun x => !x.isNumerical) :=
  ers_find? _ _ (fun x => by cases x <;> rfl) l

@[ers_simp] theorem ers_find_notNum' (l : List RVal) :
    ers (l.find? (fun x => !V1 RVal.isNumerical (ers x))) = (ers l).find? (fun x => !V1 RVal.isNumerical x) :=
  ers_find? (fun x => !V1 RVal.isNumerical (ers x)) (fun x => !V1 RVal.isNumerical x) (fun _ => rfl) l

/-- the local function of `remove` -/
@[ers_simp] theorem ers_rm (el : RVal) (s : State) (l : List RVal) :
    ers (callPure.rm el s l) = callPure.rm (ers el) (ers s) (ers l) := by
  induction l with
  | nil => rfl
  | cons y l ih =>
    simp only [callPure.rm, ers_cons, rveq_ers' ]
    split
    · rfl
    · simp only [ers_cons, ih]

end Ckl.C14E
