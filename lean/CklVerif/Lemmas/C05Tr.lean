/-
  C05 — the invariant "entries and finally runs stay balanced" as a program logic
  over the evaluation monad.

  `Balanced s s'`  : every block position was entered as often as its finally part ran,
                     between `s` and `s'`.
  `Tr s0 m`        : started in any state balanced w.r.t. the reference state `s0`, the
                     program `m` ends in a state balanced w.r.t. `s0` — for the outcomes
                     value, runtime error, and the "hard" failures (syntax error of a
                     required module, host exception); nothing is claimed for
                     out-of-fuel / unsupported.
-/
import CklVerif.Lemmas.C05Basic
import Lean.Elab.Tactic
namespace Ckl.C05
open Ckl

/-- counter of position `p` (0 when absent) -/
def cnt : List (Pos × Nat) → Pos → Nat
  | [], _ => 0
  | (q, n) :: rest, p => if p = q then n else cnt rest p

theorem cnt_bump (l : List (Pos × Nat)) (p q : Pos) :
    cnt (bump p l) q = cnt l q + (if q = p then 1 else 0) := by
  induction l with
  | nil => simp [bump, cnt]
  | cons hd tl ih =>
    obtain ⟨r, n⟩ := hd
    simp only [bump]
    by_cases hpr : p = r
    · subst hpr
      simp only [if_true, cnt]
      by_cases hq : q = p <;> simp [hq]
    · simp only [hpr, if_false, cnt]
      by_cases hq : q = r
      · have : q ≠ p := fun h => hpr (h ▸ hq)
        simp [hq]; intro h; exact absurd h.symm hpr
      · simp [hq, ih]

/-- Δenter p = Δfin p for every position, written without subtraction -/
def Balanced (s s' : State) : Prop :=
  ∀ p, cnt s'.ghost.enter p + cnt s.ghost.fin p = cnt s'.ghost.fin p + cnt s.ghost.enter p

/-- the two block counters are untouched -/
def GEq (s s' : State) : Prop :=
  s'.ghost.enter = s.ghost.enter ∧ s'.ghost.fin = s.ghost.fin

theorem Balanced.refl (s : State) : Balanced s s := fun _ => Nat.add_comm _ _

theorem Balanced.trans {a b c : State} (h1 : Balanced a b) (h2 : Balanced b c) : Balanced a c := by
  intro p; have := h1 p; have := h2 p; omega

theorem GEq.refl (s : State) : GEq s s := ⟨rfl, rfl⟩
theorem GEq.trans {a b c : State} (h1 : GEq a b) (h2 : GEq b c) : GEq a c :=
  ⟨h2.1.trans h1.1, h2.2.trans h1.2⟩

theorem GEq.balanced {s s' : State} (h : GEq s s') : Balanced s s' := by
  intro p; rw [h.1, h.2]; exact Nat.add_comm _ _

theorem Balanced.geq {a b c : State} (h1 : Balanced a b) (h2 : GEq b c) : Balanced a c :=
  h1.trans h2.balanced

/-- one entry and one finally run at the same position cancel -/
theorem Balanced.block {s0 s s1 s2 : State} {pos : Pos}
    (h0 : Balanced s0 s) (h1 : Balanced (ghostEnter s pos) s1) (h2 : Balanced (ghostFin s1 pos) s2) :
    Balanced s0 s2 := by
  intro p
  have a := h0 p; have b := h1 p; have c := h2 p
  simp only [ghostEnter, ghostFin, cnt_bump] at b c
  omega

/-- the failures a program can observe as errors further out: they are converted into runtime
    errors by `invoke` -/
def Hard : Fail → Prop
  | .syn _ => True
  | .host _ => True
  | _ => False

/-- postcondition on outcomes -/
def Post {α} (s0 : State) : Out α → Prop
  | .ok _ s' => Balanced s0 s'
  | .err _ _ _ _ s' => Balanced s0 s'
  | .fail f s' => Hard f → Balanced s0 s'

structure Tr {α} (s0 : State) (m : EvalM α) : Prop where
  run : ∀ s, Balanced s0 s → Post s0 (m s)

namespace Tr
variable {α β : Type} {s0 : State}

theorem pure (a : α) : Tr s0 (pure a : EvalM α) := ⟨fun _ h => h⟩

theorem bind {m : EvalM α} {f : α → EvalM β} (hm : Tr s0 m) (hf : ∀ a, Tr s0 (f a)) :
    Tr s0 (m >>= f) := by
  refine ⟨fun s hs => ?_⟩
  have h := hm.run s hs
  rw [bind_def]
  cases hr : m s with
  | ok a s' => rw [hr] at h; exact (hf a).run s' h
  | err v msg p t s' => rw [hr] at h; exact h
  | fail k s' => rw [hr] at h; exact h

/-- `let s ← getS`: the bound state is balanced w.r.t. the reference state -/
theorem getS_bind {f : State → EvalM β} (hf : ∀ s, Balanced s0 s → Tr s0 (f s)) :
    Tr s0 (getS >>= f) := ⟨fun s hs => (hf s hs).run s hs⟩

theorem getS : Tr s0 getS := ⟨fun _ h => h⟩

theorem setS {s' : State} (h : Balanced s0 s') : Tr s0 (setS s') := ⟨fun _ _ => h⟩

theorem modifyS {f : State → State} (hf : ∀ s, GEq s (f s)) : Tr s0 (modifyS f) :=
  ⟨fun s hs => hs.geq (hf s)⟩

theorem throwV (v : RVal) (msg : String) (pos : Pos) : Tr s0 (throwV v msg pos : EvalM α) :=
  ⟨fun _ h => h⟩

theorem throwE (msg : String) (pos : Pos) : Tr s0 (throwE msg pos : EvalM α) := ⟨fun _ h => h⟩

theorem unsupported (w : String) : Tr s0 (unsupported w : EvalM α) := ⟨fun _ _ h => h.elim⟩

theorem oof : Tr s0 (failM .oof : EvalM α) := ⟨fun _ _ h => h.elim⟩

theorem allocM (c : Cell) : Tr s0 (allocM c) := ⟨fun _ h => h.geq ⟨rfl, rfl⟩⟩

theorem newList (xs : List RVal) : Tr s0 (newList xs) := allocM _

theorem cellOf (v : RVal) : Tr s0 (cellOf v) := by
  refine ⟨fun s hs => ?_⟩; unfold Ckl.cellOf; split <;> exact hs

theorem typeOf (v : RVal) : Tr s0 (typeOf v) := ⟨fun _ h => h⟩

theorem ite {c : Prop} [Decidable c] {a b : EvalM α} (ha : Tr s0 a) (hb : Tr s0 b) :
    Tr s0 (if c then a else b) := by
  split <;> assumption

theorem mapM_loop {γ} (f : γ → EvalM α) (hf : ∀ x, Tr s0 (f x)) (as : List γ) (bs : List α) :
    Tr s0 (List.mapM.loop f as bs) := by
  induction as generalizing bs with
  | nil => exact pure _
  | cons a as ih => exact bind (hf a) (fun b => ih (b :: bs))

theorem mapM {γ} (f : γ → EvalM α) (hf : ∀ x, Tr s0 (f x)) (as : List γ) : Tr s0 (as.mapM f) :=
  mapM_loop f hf as []

/-- change of reference state -/
theorem rebase {m : EvalM α} (h : ∀ s1, Tr s1 m) : ∀ s, Post s (m s) :=
  fun s => (h s).run s (Balanced.refl s)

end Tr

/-! ### ghost preservation of the primitive state changes -/

theorem geq_put (s : State) (e : EnvId) (n : String) (v : RVal) : GEq s (s.put e n v) := ⟨rfl, rfl⟩
theorem geq_remove (s : State) (e : EnvId) (n : String) : GEq s (s.remove e n) := ⟨rfl, rfl⟩
theorem geq_setCell (s : State) (a : Nat) (c : Cell) : GEq s (s.setCell a c) := ⟨rfl, rfl⟩
theorem geq_write (s : State) (t : List Char) : GEq s (s.write t) := ⟨rfl, rfl⟩
theorem geq_alloc (s : State) (c : Cell) : GEq s (s.alloc c).1 := ⟨rfl, rfl⟩
theorem geq_newEnv (s : State) (e : EnvId) : GEq s (s.newEnv e).1 := ⟨rfl, rfl⟩

theorem geq_newEnv' {s s' : State} {e l : EnvId} (h : s.newEnv e = (s', l)) : GEq s s' := by
  have := geq_newEnv s e; rw [h] at this; exact this

theorem geq_setF (s : State) (fuel : Nat) (e : EnvId) (n : String) (v : RVal) (s' : State)
    (h : s.setF fuel e n v = some s') : GEq s s' := by
  induction fuel generalizing e with
  | zero => simp [State.setF] at h
  | succ k ih =>
    simp only [State.setF] at h
    split at h
    · cases h; exact geq_put _ _ _ _
    · split at h
      · exact ih _ h
      · cases h

theorem geq_set {s s' : State} {e : EnvId} {n : String} {v : RVal}
    (h : s.set e n v = some s') : GEq s s' := geq_setF _ _ _ _ _ _ h

theorem geq_foldl {γ} (f : State → γ → State) (hf : ∀ s x, GEq s (f s x)) (l : List γ) (s : State) :
    GEq s (l.foldl f s) := by
  induction l generalizing s with
  | nil => exact GEq.refl s
  | cons x xs ih => exact (hf s x).trans (ih (f s x))

theorem Tr.setS_newEnv {s0 s s' : State} {e l : EnvId} (hs : Balanced s0 s)
    (h : s.newEnv e = (s', l)) : Tr s0 (Ckl.setS s') := Tr.setS (hs.geq (geq_newEnv' h))

theorem Tr.setS_set {s0 s s' : State} {e : EnvId} {n : String} {v : RVal} (hs : Balanced s0 s)
    (h : s.set e n v = some s') : Tr s0 (Ckl.setS s') := Tr.setS (hs.geq (geq_set h))



/-! ### the proof automation: decompose a `do` program along `bind` / `match` / `if` -/

/-- extensible: lemmas about helper programs (`Tr s0 (helper args)`) -/
syntax "tr_lemma" : tactic
macro_rules | `(tactic| tr_lemma) => `(tactic| exact Tr.pure _)
macro_rules | `(tactic| tr_lemma) => `(tactic| exact Tr.throwE _ _)
macro_rules | `(tactic| tr_lemma) => `(tactic| exact Tr.throwV _ _ _)
macro_rules | `(tactic| tr_lemma) => `(tactic| exact Tr.unsupported _)
macro_rules | `(tactic| tr_lemma) => `(tactic| exact Tr.oof)
macro_rules | `(tactic| tr_lemma) => `(tactic| exact Tr.getS)
macro_rules | `(tactic| tr_lemma) => `(tactic| exact Tr.allocM _)
macro_rules | `(tactic| tr_lemma) => `(tactic| exact Tr.newList _)
macro_rules | `(tactic| tr_lemma) => `(tactic| exact Tr.cellOf _)
macro_rules | `(tactic| tr_lemma) => `(tactic| exact Tr.typeOf _)
macro_rules | `(tactic| tr_lemma) => `(tactic| exact Tr.setS_newEnv (by assumption) (by assumption))
macro_rules | `(tactic| tr_lemma) => `(tactic| exact Tr.setS_set (by assumption) (by assumption))

/-- side goals `GEq s (f s)` of `modifyS` -/
macro "tr_side" : tactic => `(tactic| first
  | exact ⟨rfl, rfl⟩
  | (apply geq_foldl; intro _ _; first | exact ⟨rfl, rfl⟩ | (split <;> exact ⟨rfl, rfl⟩)))

open Lean Elab Tactic Meta in
/-- apply a hypothesis whose conclusion is a `Tr` statement (induction hypotheses) -/
elab "tr_hyp" : tactic => withMainContext do
  let g ← getMainGoal
  let lctx ← getLCtx
  for d in lctx do
    if d.isImplementationDetail then continue
    let ty ← instantiateMVars d.type
    if ty.getForallBody.getAppFn.isConstOf ``Ckl.C05.Tr then
      if let some gs ← observing? (withReducible (g.apply d.toExpr)) then
        replaceMainGoal gs
        return
  throwError "tr_hyp: no applicable hypothesis"

open Lean Elab Tactic Meta in
/-- inline the join points of `do` blocks (`have __do_jp := …`) and beta-reduce -/
elab "tr_beta" : tactic => withMainContext do
  let g ← getMainGoal
  let t ← instantiateMVars (← g.getType)
  let t' ← Core.betaReduce (← zetaReduce t)
  if t' == t then throwError "tr_beta: no progress"
  let g' ← g.replaceTargetDefEq t'
  replaceMainGoal [g']

macro "tr_step" : tactic => `(tactic| first
  | with_reducible tr_lemma
  | ((with_reducible apply Tr.modifyS); intro _; tr_side)
  | tr_hyp
  | ((with_reducible apply Tr.getS_bind); intro _ _)
  | with_reducible apply Tr.bind
  | ((with_reducible apply Tr.mapM); intro _)
  | tr_beta
  | intro _
  | split)

macro "tr_auto" : tactic => `(tactic| repeat' tr_step)

end Ckl.C05
