import CklVerif.Lemmas.C14EvalPureAll

/-! C14 (evaluator part) — the simulation statement for the 30 functions of the evaluator -/
namespace Ckl.C14E
open Ckl

/-- the interpretation of the unmodelled built-ins respects similarity -/
def NativeSim (ld : Loader) : Prop :=
  ∀ (name : String) (b b' : List (String × RVal)), ers b = ers b' → Resp (ld.nativeSem name b) (ld.nativeSem name b')

/-- every function of the mutual block, run on similar arguments, yields similar outcomes -/
structure SAll (ld : Loader) (fuel : Nat) : Prop where
  eval : ∀ (env : EnvId) {n n' : Node}, ers n = ers n' → Resp (eval ld fuel env n) (eval ld fuel env n')
  evalAnd : ∀ (env : EnvId) {es es' : List Node} {p p' : Pos}, ers es = ers es' →
    Resp (evalAnd ld fuel env es p) (evalAnd ld fuel env es' p')
  evalOr : ∀ (env : EnvId) {es es' : List Node} {p p' : Pos}, ers es = ers es' →
    Resp (evalOr ld fuel env es p) (evalOr ld fuel env es' p')
  evalIf : ∀ (env : EnvId) {cs cs' xs xs' : List Node} {el el' : Node} {p p' : Pos},
    ers cs = ers cs' → ers xs = ers xs' → ers el = ers el' →
    Resp (evalIf ld fuel env cs xs el p) (evalIf ld fuel env cs' xs' el' p')
  evalSeq : ∀ (env : EnvId) {ns ns' : List Node}, ers ns = ers ns' →
    Resp (evalSeq ld fuel env ns) (evalSeq ld fuel env ns')
  evalItems : ∀ (env : EnvId) {ns ns' : List Node} {p p' : Pos}, ers ns = ers ns' →
    Resp (evalItems ld fuel env ns p) (evalItems ld fuel env ns' p')
  evalPairs : ∀ (env : EnvId) {ks ks' vs vs' : List Node}, ers ks = ers ks' → ers vs = ers vs' →
    Resp (evalPairs ld fuel env ks vs) (evalPairs ld fuel env ks' vs')
  evalBody : ∀ (env : EnvId) {ns ns' : List Node} {l l' : RVal}, ers ns = ers ns' → ers l = ers l' →
    Resp (evalBody ld fuel env ns l) (evalBody ld fuel env ns' l')
  evalFinally : ∀ (env : EnvId) {ns ns' : List Node}, ers ns = ers ns' →
    Resp (evalFinally ld fuel env ns) (evalFinally ld fuel env ns')
  tryHandlers : ∀ (env : EnvId) {cs cs' hs hs' : List Node} {v v' : RVal} (msg : String) {p p' : Pos}
    {t t' : List (String × Pos)}, ers cs = ers cs' → ers hs = ers hs' → ers v = ers v' →
    t.map (·.1) = t'.map (·.1) →
    Resp (tryHandlers ld fuel env cs hs v msg p t) (tryHandlers ld fuel env cs' hs' v' msg p' t')
  invoke : ∀ {fn fn' : RVal} {pre pre' : List RVal} (names : List (Option String)) {args args' : List Node}
    (env : EnvId) {p p' : Pos}, ers fn = ers fn' → ers pre = ers pre' → ers args = ers args' →
    Resp (invoke ld fuel fn pre names args env p) (invoke ld fuel fn' pre' names args' env p')
  evalArgs : ∀ (env : EnvId) (names : List (Option String)) {args args' : List Node} {p p' : Pos},
    ers args = ers args' → Resp (evalArgs ld fuel env names args p) (evalArgs ld fuel env names args' p')
  callFn : ∀ {fn fn' : RVal} {b b' : List (String × RVal)} (env : EnvId) {p p' : Pos},
    ers fn = ers fn' → ers b = ers b' → Resp (callFn ld fuel fn b env p) (callFn ld fuel fn' b' env p')
  bindParams : ∀ (lenv : EnvId) (ps : List String) {ds ds' : List Node} {b b' : List (String × RVal)} {p p' : Pos},
    ers ds = ers ds' → ers b = ers b' →
    Resp (bindParams ld fuel lenv ps ds b p) (bindParams ld fuel lenv ps ds' b' p')
  evalFor : ∀ (env : EnvId) (ids : List String) {e e' body body' : Node} (what : String) {p p' : Pos},
    ers e = ers e' → ers body = ers body' →
    Resp (evalFor ld fuel env ids e body what p) (evalFor ld fuel env ids e' body' what p')
  forItems : ∀ (env : EnvId) (ids : List String) {xs xs' : List RVal} {body body' : Node} {r r' : RVal} {p p' : Pos},
    ers xs = ers xs' → ers body = ers body' → ers r = ers r' →
    Resp (forItems ld fuel env ids xs body r p) (forItems ld fuel env ids xs' body' r' p')
  forListLive : ∀ (env : EnvId) (ids : List String) (a i : Nat) {body body' : Node} {r r' : RVal} {p p' : Pos},
    ers body = ers body' → ers r = ers r' →
    Resp (forListLive ld fuel env ids a i body r p) (forListLive ld fuel env ids a i body' r' p')
  forString : ∀ (env : EnvId) (x : String) (cs : List Char) {body body' : Node} {r r' : RVal},
    ers body = ers body' → ers r = ers r' →
    Resp (forString ld fuel env x cs body r) (forString ld fuel env x cs body' r')
  whileLoop : ∀ (env : EnvId) {c c' body body' : Node} {p p' : Pos}, ers c = ers c' → ers body = ers body' →
    Resp (whileLoop ld fuel env c body p) (whileLoop ld fuel env c' body' p')
  comprStep : ∀ (lenv : EnvId) (kind : ComprKind) {ve ve' ke ke' cond cond' : Node} {p p' : Pos},
    ers ve = ers ve' → ers ke = ers ke' → ers cond = ers cond' →
    Resp (comprStep ld fuel lenv kind ve ke cond p) (comprStep ld fuel lenv kind ve' ke' cond' p')
  comprLoop : ∀ (lenv : EnvId) (kind : ComprKind) {ve ve' ke ke' cond cond' : Node} {p p' : Pos}
    {l l' : List (String × List RVal)} {acc acc' : List (RVal × RVal)},
    ers ve = ers ve' → ers ke = ers ke' → ers cond = ers cond' → ers l = ers l' → ers acc = ers acc' →
    Resp (comprLoop ld fuel lenv kind ve ke cond p l acc) (comprLoop ld fuel lenv kind ve' ke' cond' p' l' acc')
  comprProduct : ∀ (lenv : EnvId) (kind : ComprKind) {ve ve' ke ke' cond cond' : Node} {p p' : Pos}
    (x1 : String) {vs vs' : List RVal} (x2 : String) {ws ws' : List RVal} {acc acc' : List (RVal × RVal)},
    ers ve = ers ve' → ers ke = ers ke' → ers cond = ers cond' → ers vs = ers vs' → ers ws = ers ws' →
    ers acc = ers acc' →
    Resp (comprProduct ld fuel lenv kind ve ke cond p x1 vs x2 ws acc)
      (comprProduct ld fuel lenv kind ve' ke' cond' p' x1 vs' x2 ws' acc')
  comprParallel : ∀ (lenv : EnvId) (kind : ComprKind) {ve ve' ke ke' cond cond' : Node} {p p' : Pos}
    (x1 : String) {vs vs' : List RVal} (x2 : String) {ws ws' : List RVal} {acc acc' : List (RVal × RVal)},
    ers ve = ers ve' → ers ke = ers ke' → ers cond = ers cond' → ers vs = ers vs' → ers ws = ers ws' →
    ers acc = ers acc' →
    Resp (comprParallel ld fuel lenv kind ve ke cond p x1 vs x2 ws acc)
      (comprParallel ld fuel lenv kind ve' ke' cond' p' x1 vs' x2 ws' acc')
  nativeSorted : ∀ {b b' : List (String × RVal)} (env : EnvId) {p p' : Pos}, ers b = ers b' →
    Resp (nativeSorted ld fuel b env p) (nativeSorted ld fuel b' env p')
  sortedOuter : ∀ {cmp cmp' key key' : RVal} (senv : EnvId) {p p' : Pos} {arr arr' : Array RVal} (i : Nat),
    ers cmp = ers cmp' → ers key = ers key' → ers arr = ers arr' →
    Resp (sortedOuter ld fuel cmp key senv p arr i) (sortedOuter ld fuel cmp' key' senv p' arr' i)
  sortedInner : ∀ {cmp cmp' key key' : RVal} (senv : EnvId) {p p' : Pos} {arr arr' : Array RVal} {v v' : RVal}
    (j : Nat), ers cmp = ers cmp' → ers key = ers key' → ers arr = ers arr' → ers v = ers v' →
    Resp (sortedInner ld fuel cmp key senv p arr v j) (sortedInner ld fuel cmp' key' senv p' arr' v' j)
  call1 : ∀ {f f' x x' : RVal} (env : EnvId) {p p' : Pos}, ers f = ers f' → ers x = ers x' →
    Resp (call1 ld fuel f x env p) (call1 ld fuel f' x' env p')
  call2 : ∀ {f f' x x' y y' : RVal} (env : EnvId) {p p' : Pos}, ers f = ers f' → ers x = ers x' → ers y = ers y' →
    Resp (call2 ld fuel f x y env p) (call2 ld fuel f' x' y' env p')
  evalRequire : ∀ (env : EnvId) {spec spec' : Node} (name : Option String) (unq : Bool)
    (syms : Option (List (String × String))) {p p' : Pos}, ers spec = ers spec' →
    Resp (evalRequire ld fuel env spec name unq syms p) (evalRequire ld fuel env spec' name unq syms p')
  loadModule : ∀ (env : EnvId) (ident modulefile : String) {p p' : Pos},
    Resp (loadModule ld fuel env ident modulefile p) (loadModule ld fuel env ident modulefile p')

theorem sAll_zero (ld : Loader) : SAll ld 0 := by
  constructor <;> intros <;> first
    | (unfold Ckl.eval; resp)
    | (unfold Ckl.evalAnd; resp)
    | (unfold Ckl.evalOr; resp)
    | (unfold Ckl.evalIf; resp)
    | (unfold Ckl.evalSeq; resp)
    | (unfold Ckl.evalItems; resp)
    | (unfold Ckl.evalPairs; resp)
    | (unfold Ckl.evalBody; resp)
    | (unfold Ckl.evalFinally; resp)
    | (unfold Ckl.tryHandlers; resp)
    | (unfold Ckl.invoke; resp)
    | (unfold Ckl.evalArgs; resp)
    | (unfold Ckl.callFn; resp)
    | (unfold Ckl.bindParams; resp)
    | (unfold Ckl.evalFor; resp)
    | (unfold Ckl.forItems; resp)
    | (unfold Ckl.forListLive; resp)
    | (unfold Ckl.forString; resp)
    | (unfold Ckl.whileLoop; resp)
    | (unfold Ckl.comprStep; resp)
    | (unfold Ckl.comprLoop; resp)
    | (unfold Ckl.comprProduct; resp)
    | (unfold Ckl.comprParallel; resp)
    | (unfold Ckl.nativeSorted; resp)
    | (unfold Ckl.sortedOuter; resp)
    | (unfold Ckl.sortedInner; resp)
    | (unfold Ckl.call1; resp)
    | (unfold Ckl.call2; resp)
    | (unfold Ckl.evalRequire; resp)
    | (unfold Ckl.loadModule; resp)

end Ckl.C14E
