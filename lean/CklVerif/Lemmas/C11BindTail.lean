/-
  C11 (binding part) — the binding tails of `require` as pure functions on states
  (`bindPlainS`, `bindImportS`, `bindUnqS` of C11BindDefs): what they write, and that they write
  nothing else.
-/
import CklVerif.Lemmas.C11BindDefs
import CklVerif.Lemmas.C11BindFExt
namespace Ckl.C11B
open Ckl Ckl.C05 Ckl.C03

/-! ### dicts -/

theorem mem_keys_iff_dictGet {β} (k : String) (d : List (String × β)) :
    k ∈ d.map (·.1) ↔ ∃ v, dictGet k d = some v := by
  induction d with
  | nil => simp [dictGet]
  | cons kv rest ih =>
    obtain ⟨k', v'⟩ := kv
    by_cases h : k = k'
    · subst h; simp [dictGet]
    · simp only [List.map_cons, List.mem_cons, h, false_or, dictGet, if_false]; exact ih

theorem mem_keys_iff_dictHas {β} (k : String) (d : List (String × β)) :
    k ∈ d.map (·.1) ↔ dictHas k d = true := by
  rw [mem_keys_iff_dictGet, dictHas_true_iff]

theorem dictGet_of_mem_nodup {β} {k : String} {v : β} {d : List (String × β)}
    (hn : (d.map (·.1)).Nodup) (h : (k, v) ∈ d) : dictGet k d = some v := by
  induction d with
  | nil => cases h
  | cons kv rest ih =>
    obtain ⟨k', v'⟩ := kv
    simp only [List.map_cons, List.nodup_cons] at hn
    rcases List.mem_cons.1 h with h1 | h1
    · cases h1; simp [dictGet]
    · have hne : k ≠ k' := by
        intro e; subst e
        exact hn.1 (List.mem_map.2 ⟨(k, v), h1, rfl⟩)
      simp only [dictGet, hne, if_false]; exact ih hn.2 h1

theorem mem_of_dictGet {β} {k : String} {v : β} {d : List (String × β)}
    (h : dictGet k d = some v) : (k, v) ∈ d := by
  induction d with
  | nil => cases h
  | cons kv rest ih =>
    obtain ⟨k', v'⟩ := kv
    by_cases h1 : k = k'
    · subst h1; simp [dictGet] at h; subst h; exact List.mem_cons_self
    · simp only [dictGet, h1, if_false] at h; exact List.mem_cons_of_mem _ (ih h)

/-- the value written last under key `y` by a sequence of `put`s -/
def lastPut {β} (y : String) : List (String × β) → Option β
  | [] => none
  | p :: ps => match lastPut y ps with
    | some v => some v
    | none => if y = p.1 then some p.2 else none

/-- a sequence of `dictPut`s: the last write under a key wins, other keys are kept -/
theorem dictGet_foldl_dictPut {β} (y : String) (puts : List (String × β)) (d0 : List (String × β)) :
    dictGet y (puts.foldl (fun d p => dictPut p.1 p.2 d) d0) = (lastPut y puts).or (dictGet y d0) := by
  induction puts generalizing d0 with
  | nil => rfl
  | cons p ps ih =>
    rw [List.foldl_cons, ih, lastPut]
    cases lastPut y ps with
    | some v => rfl
    | none =>
      dsimp only
      rw [dictGet_dictPut]
      by_cases h : y = p.1 <;> simp [h]

theorem lastPut_eq_none {β} {y : String} {puts : List (String × β)} :
    lastPut y puts = none ↔ ∀ p ∈ puts, p.1 ≠ y := by
  induction puts with
  | nil => simp [lastPut]
  | cons p ps ih =>
    rw [lastPut]
    cases h : lastPut y ps with
    | some v =>
      simp only [reduceCtorEq, false_iff]
      intro hall
      have := ih.2 (fun q hq => hall q (List.mem_cons_of_mem _ hq))
      rw [h] at this; cases this
    | none =>
      dsimp only
      have h' := ih.1 h
      by_cases hy : y = p.1
      · simp only [hy, if_true, reduceCtorEq, false_iff]
        intro hall; exact hall p List.mem_cons_self rfl
      · simp only [hy, if_false, true_iff]
        intro q hq
        rcases List.mem_cons.1 hq with rfl | hq
        · exact fun e => hy e.symm
        · exact h' q hq

theorem lastPut_mem {β} {y : String} {v : β} {puts : List (String × β)} (h : lastPut y puts = some v) :
    (y, v) ∈ puts := by
  induction puts with
  | nil => cases h
  | cons p ps ih =>
    rw [lastPut] at h
    cases h1 : lastPut y ps with
    | some w => rw [h1] at h; cases h; exact List.mem_cons_of_mem _ (ih h1)
    | none =>
      rw [h1] at h; dsimp only at h
      by_cases hy : y = p.1
      · simp only [hy, if_true] at h; cases h
        have : (p.1, p.2) = p := rfl
        rw [hy, this]; exact List.mem_cons_self
      · simp only [hy, if_false] at h; cases h

/-- when all writes under `y` carry the same value and there is one, that value is read -/
theorem lastPut_of_unique {β} {y : String} {v : β} {puts : List (String × β)}
    (hex : ∃ p ∈ puts, p.1 = y) (hall : ∀ p ∈ puts, p.1 = y → p.2 = v) : lastPut y puts = some v := by
  cases h : lastPut y puts with
  | none =>
    obtain ⟨p, hp, hy⟩ := hex
    exact absurd hy (lastPut_eq_none.1 h p hp)
  | some w =>
    have := hall _ (lastPut_mem h) rfl
    simp only at this; rw [this]

/-- writes whose value is a function of the key -/
theorem lastPut_map {β} (y : String) (g : String → β) (l : List String) :
    lastPut y (l.map (fun n => (n, g n))) = if y ∈ l then some (g y) else none := by
  by_cases h : y ∈ l
  · rw [if_pos h]
    refine lastPut_of_unique ⟨(y, g y), List.mem_map.2 ⟨y, h, rfl⟩, rfl⟩ ?_
    intro p hp hy
    obtain ⟨n, _, rfl⟩ := List.mem_map.1 hp
    simp only at hy; subst hy; rfl
  · rw [if_neg h]
    refine lastPut_eq_none.2 ?_
    intro p hp hy
    obtain ⟨n, hn, rfl⟩ := List.mem_map.1 hp
    simp only at hy; subst hy; exact h hn

/-- new keys are appended in order (Python dict insertion order) -/
theorem foldl_dictPut_fresh {β} (l : List (String × β)) (acc : List (String × β))
    (hn : (l.map (·.1)).Nodup) (hd : ∀ k ∈ l.map (·.1), dictHas k acc = false) :
    l.foldl (fun acc kv => dictPut kv.1 kv.2 acc) acc = acc ++ l := by
  induction l generalizing acc with
  | nil => simp
  | cons kv rest ih =>
    simp only [List.map_cons, List.nodup_cons] at hn
    rw [List.foldl_cons, dictPut_of_not_has _ _ _ (hd kv.1 (by simp))]
    rw [ih _ hn.2]
    · simp
    · intro k hk
      have hne : k ≠ kv.1 := fun e => hn.1 (e ▸ hk)
      rw [dictHas_eq_isSome]
      have : dictGet k (acc ++ [(kv.1, kv.2)]) = dictGet k acc := by
        have h0 := hd k (by simp [List.mem_map] at hk ⊢; exact Or.inr hk)
        rw [← dictPut_of_not_has _ _ _ (hd kv.1 (by simp))]
        exact dictGet_dictPut_other (Ne.symm hne) _ _
      rw [this, ← dictHas_eq_isSome]
      exact hd k (by simp [List.mem_map] at hk ⊢; exact Or.inr hk)

/-! ### a run of `put`s into one frame -/

/-- the parts of the state outside the frame array -/
structure SameButFrames (a b : State) : Prop where
  heap : b.heap = a.heap
  modules : b.modules = a.modules
  modstack : b.modstack = a.modstack
  out : b.out = a.out
  nextInst : b.nextInst = a.nextInst
  secure : b.secure = a.secure
  ghost : b.ghost = a.ghost
  size : b.frames.size = a.frames.size

theorem SameButFrames.refl (s : State) : SameButFrames s s := ⟨rfl, rfl, rfl, rfl, rfl, rfl, rfl, rfl⟩

theorem SameButFrames.trans {a b c : State} (h1 : SameButFrames a b) (h2 : SameButFrames b c) :
    SameButFrames a c :=
  ⟨h2.heap.trans h1.heap, h2.modules.trans h1.modules, h2.modstack.trans h1.modstack,
   h2.out.trans h1.out, h2.nextInst.trans h1.nextInst, h2.secure.trans h1.secure,
   h2.ghost.trans h1.ghost, h2.size.trans h1.size⟩

theorem sameButFrames_put (s : State) (e : Nat) (x : String) (v : RVal) :
    SameButFrames s (s.put e x v) := ⟨rfl, rfl, rfl, rfl, rfl, rfl, rfl, frames_size_put s e x v⟩

/-- `puts` written one after the other into frame `env` -/
def putAll (env : EnvId) (puts : List (String × RVal)) (s : State) : State :=
  puts.foldl (fun t p => t.put env p.1 p.2) s

theorem putAll_same (env : Nat) (puts : List (String × RVal)) (s : State) :
    SameButFrames s (putAll env puts s) := by
  induction puts generalizing s with
  | nil => exact SameButFrames.refl s
  | cons p ps ih => exact (sameButFrames_put s env p.1 p.2).trans (ih _)

theorem putAll_frame_other (env : Nat) (puts : List (String × RVal)) (s : State) {e : Nat} (h : e ≠ env) :
    (putAll env puts s).frame e = s.frame e := by
  induction puts generalizing s with
  | nil => rfl
  | cons p ps ih =>
    show (putAll env ps (s.put env p.1 p.2)).frame e = _
    rw [ih, frame_put_other s p.1 p.2 h]

theorem putAll_parent (env : Nat) (puts : List (String × RVal)) (s : State) (e : Nat) :
    ((putAll env puts s).frame e).parent = (s.frame e).parent := by
  induction puts generalizing s with
  | nil => rfl
  | cons p ps ih =>
    show ((putAll env ps (s.put env p.1 p.2)).frame e).parent = _
    rw [ih, parent_put]

theorem putAll_vars (env : Nat) (puts : List (String × RVal)) (s : State) (h : env < s.frames.size) :
    ((putAll env puts s).frame env).vars =
      puts.foldl (fun d p => dictPut p.1 p.2 d) (s.frame env).vars := by
  induction puts generalizing s with
  | nil => rfl
  | cons p ps ih =>
    show ((putAll env ps (s.put env p.1 p.2)).frame env).vars = _
    rw [ih _ (by rw [frames_size_put]; exact h), vars_put_same s p.1 p.2 h]; rfl

theorem putAll_out_of_range (env : Nat) (puts : List (String × RVal)) (s : State)
    (h : s.frames.size ≤ env) : putAll env puts s = s := by
  induction puts generalizing s with
  | nil => rfl
  | cons p ps ih =>
    show putAll env ps (s.put env p.1 p.2) = s
    rw [put_out_of_range s p.1 p.2 h]; exact ih s h

/-- reading frame `env` after the run: the last write under the name, else the old binding -/
theorem putAll_dictGet (env : Nat) (puts : List (String × RVal)) (s : State) (h : env < s.frames.size)
    (y : String) :
    dictGet y ((putAll env puts s).frame env).vars =
      (lastPut y puts).or (dictGet y (s.frame env).vars) := by
  rw [putAll_vars env puts s h, dictGet_foldl_dictPut]

theorem putAll_fext (env : Nat) (puts : List (String × RVal)) (s : State) : FExt s (putAll env puts s) :=
  fext_foldl _ (fun _ _ => fext_put _ _ _ _) puts s

/-! ### the module frame as seen by the binding tail -/

theorem lookup_of_local {s : State} {e : EnvId} {n : String} {v : RVal}
    (h : dictGet n (s.frame e).vars = some v) : s.lookup e n = some v := by
  simp [State.lookup, State.lookupF, h]

/-- `moduleEnv.get(name)` of a name the module frame defines is the frame's own binding -/
theorem valueOf_local {s : State} {menv : EnvId} {n : String} {v : RVal}
    (h : dictGet n (s.frame menv).vars = some v) : valueOf s menv n = v := by
  simp [valueOf, lookup_of_local h]

/-- the public symbols: defined by the module frame itself and not starting with `_` -/
theorem mem_publicSymbols {s : State} {menv : EnvId} {n : String} :
    n ∈ publicSymbols s menv ↔
      (∃ v, dictGet n (s.frame menv).vars = some v) ∧ n.startsWith "_" = false := by
  simp only [publicSymbols, State.localSymbols, List.mem_filter, mem_keys_iff_dictGet]
  simp

/-- the exported symbols: public, and the value is not a module object (no re-export) -/
theorem mem_exportedSymbols {s : State} {menv : EnvId} {n : String} :
    n ∈ exportedSymbols s menv ↔
      ∃ v, dictGet n (s.frame menv).vars = some v ∧ n.startsWith "_" = false ∧ isModuleObj s v = false := by
  simp only [exportedSymbols, List.mem_filter, mem_publicSymbols]
  constructor
  · rintro ⟨⟨⟨v, hv⟩, hp⟩, hm⟩
    rw [valueOf_local hv] at hm
    exact ⟨v, hv, hp, by simpa using hm⟩
  · rintro ⟨v, hv, hp, hm⟩
    refine ⟨⟨⟨v, hv⟩, hp⟩, ?_⟩
    rw [valueOf_local hv]; simp [hm]

theorem exported_sub_public {s : State} {menv : EnvId} {n : String} (h : n ∈ exportedSymbols s menv) :
    n ∈ publicSymbols s menv := (List.mem_filter.1 h).1

/-- what the module frame exports under `n` -/
def exportOf (s : State) (menv : EnvId) (n : String) : Option RVal :=
  (dictGet n (s.frame menv).vars).bind (fun v =>
    if n.startsWith "_" || isModuleObj s v then none else some v)

theorem exportOf_eq (s : State) (menv : EnvId) (n : String) :
    exportOf s menv n = if n ∈ exportedSymbols s menv then some (valueOf s menv n) else none := by
  unfold exportOf
  cases hv : dictGet n (s.frame menv).vars with
  | none =>
    have : n ∉ exportedSymbols s menv := by
      rw [mem_exportedSymbols]; rintro ⟨v, h, _⟩; rw [hv] at h; cases h
    simp [this]
  | some v =>
    simp only [Option.bind_some]
    by_cases hx : n ∈ exportedSymbols s menv
    · obtain ⟨w, hw, hp, hm⟩ := mem_exportedSymbols.1 hx
      rw [hv] at hw; cases hw
      simp [hx, hp, hm, valueOf_local hv]
    · have : (n.startsWith "_" || isModuleObj s v) = true := by
        cases h1 : n.startsWith "_" with
        | true => rfl
        | false =>
          cases h2 : isModuleObj s v with
          | true => rfl
          | false => exact absurd (mem_exportedSymbols.2 ⟨v, hv, h1, h2⟩) hx
      simp [hx, this]

theorem exportOf_some {s : State} {menv : EnvId} {n : String} {v : RVal} :
    exportOf s menv n = some v ↔
      dictGet n (s.frame menv).vars = some v ∧ n.startsWith "_" = false ∧ isModuleObj s v = false := by
  unfold exportOf
  cases hv : dictGet n (s.frame menv).vars with
  | none => simp
  | some w =>
    simp only [Option.bind_some, Option.some.injEq]
    cases h1 : n.startsWith "_" <;> cases h2 : isModuleObj s w <;> simp
    · intro e; subst e; exact h2
    · intro e; subst e; rw [h2]

/-! ### the module object (`require M`, `require M as X`) -/

/-- **members of the module object**, as a dict: under every name exactly the module frame's
    export — the frame's own binding unless the name is private or the value a module object -/
theorem dictGet_moduleMembers (s : State) (menv : EnvId) (n : String) :
    dictGet n (moduleMembers s menv) = exportOf s menv n := by
  unfold moduleMembers
  rw [dictGet_foldl_dictPut, lastPut_map, exportOf_eq]
  by_cases h : n ∈ exportedSymbols s menv <;> simp [h, dictGet]

theorem keys_foldl_dictPut_nodup {β} (l : List (String × β)) (acc : List (String × β))
    (h : (acc.map (·.1)).Nodup) : ((l.foldl (fun acc kv => dictPut kv.1 kv.2 acc) acc).map (·.1)).Nodup := by
  induction l generalizing acc with
  | nil => exact h
  | cons kv rest ih => exact ih _ (nodup_dictPut _ _ _ h)

/-- the member dict has no key twice -/
theorem moduleMembers_nodup (s : State) (menv : EnvId) : ((moduleMembers s menv).map (·.1)).Nodup :=
  keys_foldl_dictPut_nodup _ _ (by simp)

theorem map_filter_keys {β} (g : String → β) (p : String → Bool) (l : List (String × β))
    (hg : ∀ kv ∈ l, g kv.1 = kv.2) :
    ((l.map (·.1)).filter p).map (fun n => (n, g n)) = l.filter (fun kv => p kv.1) := by
  induction l with
  | nil => rfl
  | cons kv rest ih =>
    have ih' := ih (fun q hq => hg q (List.mem_cons_of_mem _ hq))
    have h0 : g kv.1 = kv.2 := hg kv List.mem_cons_self
    simp only [List.map_cons, List.filter_cons]
    by_cases hp : p kv.1 = true
    · simp only [hp, if_true, List.map_cons, ih', h0]
    · have hp' : p kv.1 = false := by simpa using hp
      simp only [hp']; exact ih'

/-- … and when the module frame is a proper dict (no key twice — an invariant of the evaluator,
    `FExt.nodup`) the member dict is literally the module frame's bindings, in definition
    order, minus the private names and the module objects -/
theorem moduleMembers_eq_filter (s : State) (menv : EnvId) (hn : KeysNodup (s.frame menv)) :
    moduleMembers s menv =
      (s.frame menv).vars.filter (fun kv => !kv.1.startsWith "_" && !isModuleObj s kv.2) := by
  have hg : ∀ kv ∈ (s.frame menv).vars, valueOf s menv kv.1 = kv.2 := fun kv hkv =>
    valueOf_local (dictGet_of_mem_nodup hn hkv)
  have hlist : (exportedSymbols s menv).map (fun n => (n, valueOf s menv n)) =
      (s.frame menv).vars.filter (fun kv => !kv.1.startsWith "_" && !isModuleObj s kv.2) := by
    unfold exportedSymbols publicSymbols State.localSymbols
    rw [List.filter_filter, map_filter_keys (valueOf s menv) _ _ hg]
    apply List.filter_congr
    intro kv hkv
    rw [hg kv hkv, Bool.and_comm]
  unfold moduleMembers
  rw [hlist, foldl_dictPut_fresh _ [] ?_ (fun _ _ => rfl)]
  · simp
  · exact (List.Sublist.map _ List.filter_sublist).nodup hn

theorem bindPlainS_eq (env menv : EnvId) (name : String) (s : State) :
    bindPlainS env menv name s =
      { s.put env name (.ref s.heap.size) with heap := s.heap.push (.obj (moduleMembers s menv) true) } := rfl

/-! ### `require M unqualified` -/

theorem bindUnqS_eq (env menv : EnvId) (s : State) :
    bindUnqS env menv s =
      putAll env ((exportedSymbols s menv).map (fun n => (n, valueOf s menv n))) s := by
  unfold bindUnqS putAll
  rw [List.foldl_map]

/-! ### `require M import [...]` -/

/-- the writes of the import form: for every public symbol of the module that the table
    mentions, its alias and the module's value -/
def importPuts (s : State) (menv : EnvId) (table : List (String × String)) : List (String × RVal) :=
  (publicSymbols s menv).filterMap (fun n => (table.lookup n).map (fun al => (al, valueOf s menv n)))

theorem bindImportS_eq (env menv : EnvId) (table : List (String × String)) (s : State) :
    bindImportS env menv table s = putAll env (importPuts s menv table) s := by
  unfold bindImportS putAll importPuts
  generalize publicSymbols s menv = l
  generalize hg : valueOf s menv = g
  -- the fold starts anywhere
  suffices h : ∀ t : State, l.foldl (fun t n =>
      match table.lookup n with
      | some al => t.put env al (g n)
      | none => t) t =
      (l.filterMap (fun n => (table.lookup n).map (fun al => (al, g n)))).foldl
        (fun t p => t.put env p.1 p.2) t from h s
  induction l with
  | nil => intro t; rfl
  | cons n ns ih =>
    intro t
    rw [List.foldl_cons, List.filterMap_cons]
    cases hl : List.lookup n table with
    | none => simp only [Option.map_none]; exact ih t
    | some al => simp only [Option.map_some, List.foldl_cons]; exact ih _

theorem mem_importPuts {s : State} {menv : EnvId} {table : List (String × String)} {p : String × RVal} :
    p ∈ importPuts s menv table ↔
      ∃ n ∈ publicSymbols s menv, table.lookup n = some p.1 ∧ p.2 = valueOf s menv n := by
  unfold importPuts
  rw [List.mem_filterMap]
  constructor
  · rintro ⟨n, hn, h⟩
    cases hl : List.lookup n table with
    | none => rw [hl] at h; cases h
    | some al => rw [hl] at h; simp only [Option.map_some, Option.some.injEq] at h; subst h; exact ⟨n, hn, hl, rfl⟩
  · rintro ⟨n, hn, hl, hv⟩
    refine ⟨n, hn, ?_⟩
    rw [hl]; simp only [Option.map_some, Option.some.injEq]
    rw [← hv]

end Ckl.C11B
