import Lean
/-! simp sets of the C14 evaluator proofs -/
/-- push `ers` towards the leaves -/
register_simp_attr ers_simp
/-- express observations of a state / value as functions of the erased state / value -/
register_simp_attr obs_simp
/-- `ers` is the identity on position-free types -/
register_simp_attr ers_id
