/-
  C02 (syntactic half) — one lemma per construct of the expression trees: if the operands parse
  correctly at the level at which `render` prints them, the construct parses correctly at its own
  level.  `parse_all` puts them together by recursion over the tree.
-/
import CklVerif.Lemmas.C02ParseLevels
namespace Ckl.C02P
open Ckl Ckl.Parser

/-! ### atoms -/

theorem atom_closed (a : Atom) : ClosedRaw 7 [a.sp] a.toNode := by
  intro c p ts rest hts hf
  obtain ⟨t, ts', rfl, ht, hts'⟩ := map_sp_cons hts
  have := map_sp_nil hts'; subst this
  simp only [pLevel, List.cons_append, List.nil_append]
  cases a with
  | ident name =>
    simp only [sp, Atom.sp, Prod.mk.injEq] at ht
    refine ⟨_, _, ?_, pPred_of_primary c false _ _ _ rest (pPrimary_ident c false p t rest ht.2 hf) hf⟩
    simp [erase, Atom.toNode, str, ht.1]
  | int digits n h =>
    simp only [sp, Atom.sp, Prod.mk.injEq] at ht
    refine ⟨_, _, ?_, pPred_of_primary c false _ _ _ rest
      (pPrimary_int c false p t rest n ht.2 (by rw [ht.1]; exact h) hf) hf⟩
    simp [erase, Atom.toNode]
  | bool b =>
    cases b <;> simp only [sp, Atom.sp, Prod.mk.injEq] at ht <;>
    · refine ⟨_, _, ?_, pPred_of_primary c false _ _ _ rest (pPrimary_bool c false p t rest ht.2 hf) hf⟩
      simp [erase, Atom.toNode, ht.1]

/-! ### unary minus -/

def subZero (x : Node) : Node :=
  .call (.ident "sub" default) [some "a", some "b"] [.lit (.int 0) default, x] default

theorem neg_closed {S : List Sp} {N : Node} (h : ClosedRaw 7 S N)
    (hd : Head (fun s => s.2 ≠ .int ∧ s.2 ≠ .decimal) S) : ClosedRaw 6 (minusSp :: S) (subZero N) := by
  intro c p ts rest hts hf
  obtain ⟨s, tl, rfl, hs⟩ := hd
  obtain ⟨t, ts1, rfl, ht, hts1⟩ := map_sp_cons hts
  obtain ⟨n, q, hn, hp⟩ := h c t.pos ts1 rest hts1 (hf.mono (by omega))
  obtain ⟨t2, ts2, rfl, ht2, _⟩ := map_sp_cons hts1
  simp only [sp, minusSp, Prod.mk.injEq] at ht
  have h2 : t2.type ≠ .int ∧ t2.type ≠ .decimal := by rw [← ht2] at hs; exact hs
  simp only [pLevel, List.cons_append] at hp ⊢
  rw [pUnary_minus c p t t2 _ ht.1 ht.2 h2.1 h2.2, hp]
  refine ⟨_, q, ?_, rfl⟩
  simp [erase, eraseL, subZero, hn]

theorem neg_int_closed (digits : List Char) (n : Nat) (h : parseIntLit digits = some n) :
    ClosedRaw 6 [minusSp, (digits, .int)] (.lit (.int (-(n : Int))) default) := by
  intro c p ts rest hts hf
  obtain ⟨t, ts1, rfl, ht, hts1⟩ := map_sp_cons hts
  obtain ⟨t2, ts2, rfl, ht2, hts2⟩ := map_sp_cons hts1
  have := map_sp_nil hts2; subst this
  simp only [sp, minusSp, Prod.mk.injEq] at ht ht2
  simp only [pLevel, List.cons_append, List.nil_append]
  rw [pUnary_minus_int c p t t2 rest ht.1 ht.2 ht2.2]
  have hf7 : Follow 7 rest := hf.mono (by omega)
  refine ⟨_, _, ?_, pPred_of_primary c true _ _ _ rest
    (pPrimary_int c true t.pos t2 rest n ht2.2 (by rw [ht2.1]; exact h) hf7) hf7⟩
  simp [erase]

/-! ### `* / %` and `+ -` -/

theorem mul_cont (o : MulOp) {Sl Sr : List Sp} {Nl Nr : Node} (hl : ContMulRaw Sl Nl) (hr : ClosedRaw 6 Sr Nr) :
    ContMulRaw (Sl ++ o.sp :: Sr) (binNode o.fn Nl Nr) := by
  intro c p ts rest hts hf
  obtain ⟨tl, ts1, rfl, htl, hts1⟩ := map_sp_append hts
  obtain ⟨t, tr, rfl, ht, htr⟩ := map_sp_cons hts1
  obtain ⟨nl, q, hnl, hpl⟩ := hl c p tl (t :: tr ++ rest) htl (follow_cons ht (stops_mulOp o))
  obtain ⟨nr, q', hnr, hpr⟩ := hr c t.pos tr rest htr hf
  simp only [pLevel] at hpr
  refine ⟨funcCallAB o.fn nl nr t.pos, q', ?_, ?_⟩
  · rw [erase_funcCallAB, hnl, hnr]
  · rw [List.append_assoc, hpl, List.cons_append, mulLoop_step c q t _ nl o ht, hpr]; rfl

theorem add_cont (o : AddOp) {Sl Sr : List Sp} {Nl Nr : Node} (hl : ContAddRaw Sl Nl) (hr : ClosedRaw 5 Sr Nr) :
    ContAddRaw (Sl ++ o.sp :: Sr) (binNode o.fn Nl Nr) := by
  intro c p ts rest hts hf
  obtain ⟨tl, ts1, rfl, htl, hts1⟩ := map_sp_append hts
  obtain ⟨t, tr, rfl, ht, htr⟩ := map_sp_cons hts1
  obtain ⟨nl, q, hnl, hpl⟩ := hl c p tl (t :: tr ++ rest) htl (follow_cons ht (stops_addOp o))
  obtain ⟨nr, q', hnr, hpr⟩ := hr c t.pos tr rest htr hf
  simp only [pLevel] at hpr
  refine ⟨funcCallAB o.fn nl nr t.pos, q', ?_, ?_⟩
  · rw [erase_funcCallAB, hnl, hnr]
  · rw [List.append_assoc, hpl, List.cons_append, addLoop_step c q t _ nl o ht, hpr]; rfl

/-! ### `not` -/

theorem not_closed {S : List Sp} {N : Node} (h : ClosedRaw 3 S N) : ClosedRaw 2 (notSp :: S) (.not N default) := by
  intro c p ts rest hts hf
  obtain ⟨t, ts1, rfl, ht, hts1⟩ := map_sp_cons hts
  obtain ⟨n, q, hn, hp⟩ := h c t.pos ts1 rest hts1 (hf.mono (by omega))
  simp only [pLevel, List.cons_append] at hp ⊢
  rw [pNot_step c p t _ ht, hp]
  refine ⟨_, q, ?_, rfl⟩
  simp [erase, hn]

/-! ### comparison chains -/

theorem follow_renderC {cs : List (RelOp × E)} {ts rest : List Token} (hts : ts.map sp = renderC cs)
    (hf : Follow 3 rest) : Follow 4 (ts ++ rest) := by
  cases cs with
  | nil => simp only [renderC] at hts; rw [map_sp_nil hts]; exact hf.mono (by omega)
  | cons x cs =>
    obtain ⟨o, e⟩ := x
    simp only [renderC] at hts
    obtain ⟨t, tl, rfl, ht, _⟩ := map_sp_cons hts
    exact follow_cons ht (stops_relOp o)

theorem relLoop_chain (cs : List (RelOp × E))
    (hcs : ∀ x ∈ cs, ClosedRaw 4 (wrap 4 x.2 (render x.2)) (toNode x.2)) :
    ∀ (c : Ctx) (q : Pos) (ts rest : List Token) (lhs : Node) (acc : List Node),
      ts.map sp = renderC cs → Follow 3 rest →
      ∃ ns q', eraseL ns = toNodeC (erase lhs) cs ∧
        plainLe (relLoop c ⟨q, ts ++ rest⟩ lhs acc) = .ok (acc ++ ns, ⟨q', rest⟩) := by
  induction cs with
  | nil =>
    intro c q ts rest lhs acc hts hf
    simp only [renderC] at hts
    rw [map_sp_nil hts]
    exact ⟨[], q, by simp [eraseL, toNodeC], by simp [relLoop_stop c q rest lhs acc hf]⟩
  | cons x cs ih =>
    intro c q ts rest lhs acc hts hf
    obtain ⟨o, e⟩ := x
    simp only [renderC] at hts
    obtain ⟨t, ts1, rfl, ht, hts1⟩ := map_sp_cons hts
    obtain ⟨te, tcs, rfl, hte, htcs⟩ := map_sp_append hts1
    obtain ⟨ne, q1, hne, hpe⟩ := hcs (o, e) (by simp) c t.pos te (tcs ++ rest) hte (follow_renderC htcs hf)
    simp only [pLevel] at hpe
    obtain ⟨ns, q', hns, hloop⟩ := ih (fun x hx => hcs x (by simp [hx])) c q1 tcs rest ne
      (acc ++ [funcCallAB o.fn lhs ne t.pos]) htcs hf
    refine ⟨funcCallAB o.fn lhs ne t.pos :: ns, q', ?_, ?_⟩
    · simp [eraseL, toNodeC, erase_funcCallAB, hns, hne]
    · rw [List.cons_append, relLoop_step c q t _ lhs acc o ht, List.append_assoc, hpe]
      simp only [Except.bind]
      rw [hloop]; simp

theorem erase_simplifyCmps (ns : List Node) (pos : Pos) :
    erase (simplifyCmps ns pos) = simplifyAnd (eraseL ns) := by
  rcases ns with _ | ⟨x, _ | ⟨y, l⟩⟩ <;> simp [simplifyCmps, simplifyAnd, erase, eraseL]

theorem cmp_closed (a : E) (o : RelOp) (b : E) (more : List (RelOp × E))
    (ha : ClosedRaw 4 (wrap 4 a (render a)) (toNode a))
    (hcs : ∀ x ∈ (o, b) :: more, ClosedRaw 4 (wrap 4 x.2 (render x.2)) (toNode x.2)) :
    ClosedRaw 3 (render (.cmp a o b more)) (toNode (.cmp a o b more)) := by
  intro c p ts rest hts hf
  have hr : render (.cmp a o b more) = wrap 4 a (render a) ++ renderC ((o, b) :: more) := by
    simp [render, renderC]
  rw [hr] at hts
  obtain ⟨ta, tcs, rfl, hta, htcs⟩ := map_sp_append hts
  obtain ⟨na, q, hna, hpa⟩ := ha c p ta (tcs ++ rest) hta (follow_renderC htcs hf)
  obtain ⟨ns, q', hns, hloop⟩ := relLoop_chain _ hcs c q tcs rest na [] htcs hf
  simp only [pLevel] at hpa ⊢
  have hg : relGuard ⟨q, tcs ++ rest⟩ = true := by
    simp only [renderC] at htcs
    obtain ⟨t, tl, rfl, ht, _⟩ := map_sp_cons htcs
    simp [relGuard, (isRelop_of_sp ht).1]
  refine ⟨simplifyCmps ns (St.posNext ⟨q, tcs ++ rest⟩), q', ?_, ?_⟩
  · rw [erase_simplifyCmps, hns, hna]; simp [toNode, toNodeC]
  · rw [List.append_assoc, pRel_plain, hpa]
    simp only [Except.bind, hg, if_true]
    rw [hloop]; simp [Except.map]

/-! ### `and` / `or` lists -/

theorem follow_renderL {sep : Sp} {k j i : Nat} {es : List E} {ts rest : List Token}
    (hts : ts.map sp = renderL sep k es) (hsep : stops j ⟨sep.1, sep.2, default⟩ = true)
    (hf : Follow i rest) (hij : i ≤ j) : Follow j (ts ++ rest) := by
  cases es with
  | nil => simp only [renderL] at hts; rw [map_sp_nil hts]; exact hf.mono hij
  | cons e es =>
    simp only [renderL] at hts
    obtain ⟨t, tl, rfl, ht, _⟩ := map_sp_cons hts
    exact follow_cons ht hsep

theorem andLoop_list (es : List E) (hes : ∀ x ∈ es, ClosedRaw 2 (wrap 2 x (render x)) (toNode x)) :
    ∀ (c : Ctx) (q : Pos) (ts rest : List Token) (acc : List Node),
      ts.map sp = renderL andSp 2 es → Follow 1 rest →
      ∃ ns q', eraseL ns = toNodeL es ∧
        plainLe (andLoop c ⟨q, ts ++ rest⟩ acc) = .ok (acc ++ ns, ⟨q', rest⟩) := by
  induction es with
  | nil =>
    intro c q ts rest acc hts hf
    simp only [renderL] at hts
    rw [map_sp_nil hts]
    exact ⟨[], q, by simp [eraseL, toNodeL], by simp [andLoop_stop c q rest acc hf]⟩
  | cons e es ih =>
    intro c q ts rest acc hts hf
    simp only [renderL] at hts
    obtain ⟨t, ts1, rfl, ht, hts1⟩ := map_sp_cons hts
    obtain ⟨te, tes, rfl, hte, htes⟩ := map_sp_append hts1
    obtain ⟨ne, q1, hne, hpe⟩ := hes e (by simp) c t.pos te (tes ++ rest) hte
      (follow_renderL htes stops_and hf (by omega))
    simp only [pLevel] at hpe
    obtain ⟨ns, q', hns, hloop⟩ := ih (fun x hx => hes x (by simp [hx])) c q1 tes rest (acc ++ [ne]) htes hf
    refine ⟨ne :: ns, q', ?_, ?_⟩
    · simp [eraseL, toNodeL, hns, hne]
    · rw [List.cons_append, andLoop_step c q t _ acc ht, List.append_assoc, hpe]
      simp only [Except.bind]
      rw [hloop]; simp

theorem orLoop_list (es : List E) (hes : ∀ x ∈ es, ClosedRaw 1 (wrap 1 x (render x)) (toNode x)) :
    ∀ (c : Ctx) (q : Pos) (ts rest : List Token) (acc : List Node),
      ts.map sp = renderL orSp 1 es → Follow 0 rest →
      ∃ ns q', eraseL ns = toNodeL es ∧
        plainLe (orLoop c ⟨q, ts ++ rest⟩ acc) = .ok (acc ++ ns, ⟨q', rest⟩) := by
  induction es with
  | nil =>
    intro c q ts rest acc hts hf
    simp only [renderL] at hts
    rw [map_sp_nil hts]
    exact ⟨[], q, by simp [eraseL, toNodeL], by simp [orLoop_stop c q rest acc hf]⟩
  | cons e es ih =>
    intro c q ts rest acc hts hf
    simp only [renderL] at hts
    obtain ⟨t, ts1, rfl, ht, hts1⟩ := map_sp_cons hts
    obtain ⟨te, tes, rfl, hte, htes⟩ := map_sp_append hts1
    obtain ⟨ne, q1, hne, hpe⟩ := hes e (by simp) c t.pos te (tes ++ rest) hte
      (follow_renderL htes stops_or hf (by omega))
    simp only [pLevel] at hpe
    obtain ⟨ns, q', hns, hloop⟩ := ih (fun x hx => hes x (by simp [hx])) c q1 tes rest (acc ++ [ne]) htes hf
    refine ⟨ne :: ns, q', ?_, ?_⟩
    · simp [eraseL, toNodeL, hns, hne]
    · rw [List.cons_append, orLoop_step c q t _ acc ht, List.append_assoc, hpe]
      simp only [Except.bind]
      rw [hloop]; simp

theorem and_closed (a b : E) (more : List E)
    (ha : ClosedRaw 2 (wrap 2 a (render a)) (toNode a))
    (hes : ∀ x ∈ b :: more, ClosedRaw 2 (wrap 2 x (render x)) (toNode x)) :
    ClosedRaw 1 (render (.and a b more)) (toNode (.and a b more)) := by
  intro c p ts rest hts hf
  have hr : render (.and a b more) = wrap 2 a (render a) ++ renderL andSp 2 (b :: more) := by
    simp [render, renderL]
  rw [hr] at hts
  obtain ⟨ta, tes, rfl, hta, htes⟩ := map_sp_append hts
  obtain ⟨na, q, hna, hpa⟩ := ha c p ta (tes ++ rest) hta (follow_renderL htes stops_and hf (by omega))
  obtain ⟨ns, q', hns, hloop⟩ := andLoop_list _ hes c q tes rest [na] htes hf
  simp only [pLevel] at hpa ⊢
  have hg : St.peekn ⟨q, tes ++ rest⟩ 1 ['a', 'n', 'd'] (some .keyword) = true := by
    simp only [renderL] at htes
    obtain ⟨t, tl, rfl, ht, _⟩ := map_sp_cons htes
    simp only [sp, andSp, Prod.mk.injEq] at ht
    simp [St.peekn, St.tokIs, ht.1, ht.2]
  refine ⟨Node.and ([na] ++ ns) (St.posNext ⟨q, tes ++ rest⟩), q', ?_, ?_⟩
  · simp [erase, eraseL, hns, hna, toNode, toNodeL]
  · rw [List.append_assoc, pAnd_plain, hpa]
    simp only [Except.bind, hg, if_true]
    rw [hloop]; simp [Except.map]

theorem or_closed (a b : E) (more : List E)
    (ha : ClosedRaw 1 (wrap 1 a (render a)) (toNode a))
    (hes : ∀ x ∈ b :: more, ClosedRaw 1 (wrap 1 x (render x)) (toNode x)) :
    ClosedRaw 0 (render (.or a b more)) (toNode (.or a b more)) := by
  intro c p ts rest hts hf
  have hr : render (.or a b more) = wrap 1 a (render a) ++ renderL orSp 1 (b :: more) := by
    simp [render, renderL]
  rw [hr] at hts
  obtain ⟨ta, tes, rfl, hta, htes⟩ := map_sp_append hts
  obtain ⟨na, q, hna, hpa⟩ := ha c p ta (tes ++ rest) hta (follow_renderL htes stops_or hf (by omega))
  obtain ⟨ns, q', hns, hloop⟩ := orLoop_list _ hes c q tes rest [na] htes hf
  simp only [pLevel] at hpa ⊢
  have hg : St.peekn ⟨q, tes ++ rest⟩ 1 ['o', 'r'] (some .keyword) = true := by
    simp only [renderL] at htes
    obtain ⟨t, tl, rfl, ht, _⟩ := map_sp_cons htes
    simp only [sp, orSp, Prod.mk.injEq] at ht
    simp [St.peekn, St.tokIs, ht.1, ht.2]
  refine ⟨Node.or ([na] ++ ns) (St.posNext ⟨q, tes ++ rest⟩), q', ?_, ?_⟩
  · simp [erase, eraseL, hns, hna, toNode, toNodeL]
  · rw [List.append_assoc, pOr_plain, hpa]
    simp only [Except.bind, hg, if_true]
    rw [hloop]; simp [Except.map]

end Ckl.C02P
