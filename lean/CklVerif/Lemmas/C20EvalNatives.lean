import CklVerif.Lemmas.C20EvalLib

/-!
  C20 (evaluator part) — the modelled built-ins: every error they raise carries the position
  they were called with, with an empty stack trace; they never write an AST into the state.
-/
namespace Ckl
set_option linter.unusedSectionVars false

section
variable {E : String → Pos → List (String × Pos) → Prop} {S : State → Prop} [StInv S]

namespace PosOK
theorem floatResult (x : Float) (pos : Pos) (w : String) : PosOK E S (floatResult x pos w) := by
  unfold Ckl.floatResult; posok
theorem listItems (v : RVal) : PosOK E S (listItems v) := by unfold Ckl.listItems; posok
theorem collAsList (c : Cell) : PosOK E S (collAsList c) := by unfold Ckl.collAsList; posok
theorem cmpLt (a b : RVal) : PosOK E S (cmpLt a b) := by unfold Ckl.cmpLt; posok
end PosOK
end

macro_rules | `(tactic| posok_lib) => `(tactic| exact PosOK.floatResult _ _ _)
macro_rules | `(tactic| posok_lib) => `(tactic| exact PosOK.listItems _)
macro_rules | `(tactic| posok_lib) => `(tactic| exact PosOK.collAsList _)
macro_rules | `(tactic| posok_lib) => `(tactic| exact PosOK.cmpLt _ _)

section
variable {E : String → Pos → List (String × Pos) → Prop} {S : State → Prop} [StInv S]
namespace PosOK
theorem cmpGt (a b : RVal) : PosOK E S (cmpGt a b) := by unfold Ckl.cmpGt; posok
theorem asListArg (v : RVal) {pos : Pos} (h : ∀ msg, E msg pos []) : PosOK E S (asListArg v pos) := by
  unfold Ckl.asListArg; posok
theorem asSetArg (v : RVal) {pos : Pos} (h : ∀ msg, E msg pos []) : PosOK E S (asSetArg v pos) := by
  unfold Ckl.asSetArg; posok
theorem nativeAdd (a b : RVal) {pos : Pos} (h : ∀ msg, E msg pos []) : PosOK E S (nativeAdd a b pos) := by
  unfold Ckl.nativeAdd; posok
theorem nativeSub (a b : RVal) {pos : Pos} (h : ∀ msg, E msg pos []) : PosOK E S (nativeSub a b pos) := by
  unfold Ckl.nativeSub; posok
theorem nativeMul (a b : RVal) {pos : Pos} (h : ∀ msg, E msg pos []) : PosOK E S (nativeMul a b pos) := by
  unfold Ckl.nativeMul; posok
theorem nativeDiv (a b : RVal) (d) {pos : Pos} (h : ∀ msg, E msg pos []) : PosOK E S (nativeDiv a b d pos) := by
  unfold Ckl.nativeDiv; posok
theorem nativeMod (a b : RVal) {pos : Pos} (h : ∀ msg, E msg pos []) : PosOK E S (nativeMod a b pos) := by
  unfold Ckl.nativeMod; posok
end PosOK
end

macro_rules | `(tactic| posok_lib) => `(tactic| exact PosOK.cmpGt _ _)
macro_rules | `(tactic| posok_lib) => `(tactic| exact PosOK.asListArg _ (by eok))
macro_rules | `(tactic| posok_lib) => `(tactic| exact PosOK.asSetArg _ (by eok))
macro_rules | `(tactic| posok_lib) => `(tactic| exact PosOK.nativeAdd _ _ (by eok))
macro_rules | `(tactic| posok_lib) => `(tactic| exact PosOK.nativeSub _ _ (by eok))
macro_rules | `(tactic| posok_lib) => `(tactic| exact PosOK.nativeMul _ _ (by eok))
macro_rules | `(tactic| posok_lib) => `(tactic| exact PosOK.nativeDiv _ _ _ (by eok))
macro_rules | `(tactic| posok_lib) => `(tactic| exact PosOK.nativeMod _ _ (by eok))

set_option maxHeartbeats 400000 in
/-- every modelled built-in: an error carries the call position `pos` (as `E _ pos []` allows), and
    the state invariant is kept -/
theorem PosOK.callPure {E : String → Pos → List (String × Pos) → Prop} {S : State → Prop} [StInv S]
    (name : String) (args : List (String × RVal)) (div0 : Option RVal) {pos : Pos} (h : ∀ msg, E msg pos [])
    (m : EvalM RVal) (hm : callPure name args div0 pos = some m) : PosOK E S m := by
  unfold Ckl.callPure at hm
  dsimp only at hm
  split at hm <;> first | (injection hm with hm; subst hm; posok) | (cases hm)

end Ckl
