import CklVerif.Lemmas.C19SrcChunksL2

/-! C19Src (worker L2) — core.ckl `chunks`: the whole body, `fn.execute` -/
namespace Ckl.C19Src
open Ckl Ckl.C03 Ckl.Gen.LibSrc
variable (ld : Loader)

/-- what `chunks` returns on a list: the result cell `b` is FRESH and holds references to FRESH, pairwise different cells `cs`
    (none of them `b`) whose contents are the chunks -/
structure ChResult_L2 (s s' : State) (b : Nat) (cs : List Nat) (chunks : List (List RVal)) : Prop where
  bfresh : s.heap.size ≤ b
  cellb : s'.cell b = some (.list (cs.map .ref))
  cells : cs.map s'.cell = chunks.map (fun ch => some (.list ch))
  fresh : ∀ ci ∈ cs, s.heap.size ≤ ci ∧ ci ≠ b
  nodup : cs.Nodup

/-- the body of `chunks` on a list cell, `chunk_size > 0` (positions generic; the string branch and the final `else` are arbitrary) -/
theorem chunks_block_L2 {s s0 : State} {M nats srcs m} {a : Nat} {k : Int} {xs : List RVal}
    (h : LibEnv s M nats srcs) (hm : M m)
    (ctx : Ctx s0 M nats srcs s.frames.size m [("obj", .ref a), ("chunk_size", .int k)]) (e0 : Ext s s0)
    (hn : ∀ x ∈ chunksNats, x ∈ nats) (hs : ∀ p ∈ firstSrcs, p ∈ srcs) (hk : 0 < k) (hc : s.cell a = some (.list xs))
    {d1 d2 l1 l2 l3 l4 g1 g2 i1 i2 i3 g3 r1 bp : Pos} {info : String} {errn els : Node} {crest xrest : List Node}
    {c1 c2 c3 c4 c5 c6 p1 p2 p3 p4 p5 p6 p7 p8 q1 q2 q3 q4 q5 wp lp f1 f2 f3 f4 f5 f6 f7 bp2 : Pos} {bb bb2 bb3 : Bool} :
    ∃ s' cs, Ext s s' ∧ Ev ld (2 * xs.length + 23) s.frames.size
      (.block [.defn "result" (.list [] d1) info d2,
        .ite [.call (.ident "less_equals" l1) [some "a", some "b"] [.ident "chunk_size" l2, .lit (.int 0) l3] l4] [errn]
          (.lit (.bool true) g1) g2,
        .ite (.call (.ident "is_list" i1) [none] [.ident "obj" i2] i3 :: crest)
          (.block [.while (.call (.ident "greater" c1) [some "a", some "b"]
              [.call (.ident "length" c2) [none] [.ident "obj" c3] c4, .ident "chunk_size" c5] c6)
            (.block [.call (.ident "append" p1) [none, none] [.ident "result" p2,
                .call (.ident "sublist" p3) [none, none, none] [.ident "obj" p4, .lit (.int 0) p5, .ident "chunk_size" p6] p7] p8,
              .assign "obj" (.call (.ident "sublist" q1) [none, none] [.ident "obj" q2, .ident "chunk_size" q3] q4) q5]
              [] [] [] bb wp) lp,
            .call (.ident "append" f1) [none, none] [.ident "result" f2,
              .call (.ident "sublist" f3) [none, none] [.ident "obj" f4, .lit (.int 0) f5] f6] f7] [] [] [] bb2 bp2 :: xrest)
          els g3,
        .ident "result" r1] [] [] [] bb3 bp) s0 (.ok (.ref s0.heap.size) s') ∧
      ChResult_L2 s s' s0.heap.size cs (Lib.chunksGo k.toNat xs) := by
  have hcge : s.frames.size ≤ s.frames.size := Nat.le_refl _
  have ha : a < s.heap.size := cell_lt hc
  have ctx0 : Ctx (ghostEnter s0 bp) M nats srcs s.frames.size m [("obj", .ref a), ("chunk_size", .int k)] :=
    ctx.ext ((Ext.refl s0).ghostEnter _)
  have e0' : Ext s (ghostEnter s0 bp) := e0.ghostEnter _
  -- statement 1: `def result = []`
  generalize hb : s0.heap.size = b
  have hbg : (ghostEnter s0 bp).heap.size = b := hb
  generalize ht1 : ((ghostEnter s0 bp).alloc (.list [])).1.put s.frames.size "result" (.ref b) = t1
  have S1 : Ev ld 2 s.frames.size (.defn "result" (.list [] d1) info d2) (ghostEnter s0 bp) (.ok (.ref b) t1) := by
    have := Ev.defn ld (k := 1) (name := "result") (info := info) (pos := d2) (by intro a h; cases h)
      (Ev.listNil ld (k := 0) (env := s.frames.size) (pos := d1) (s := ghostEnter s0 bp))
    rw [hbg, ht1] at this; exact this
  have hclt0 : s.frames.size < (ghostEnter s0 bp).frames.size := ctx0.clt
  have E1 : Ext s t1 := by rw [← ht1]; exact (e0'.alloc _).put hcge _ _
  have hvars1 : (t1.frame s.frames.size).vars = [("obj", .ref a), ("chunk_size", .int k), ("result", .ref b)] := by
    rw [← ht1, vars_put_same ((ghostEnter s0 bp).alloc (.list [])).1 "result" (.ref b) hclt0, frame_alloc, ctx0.fr.vars]; rfl
  have hpar1 : (t1.frame s.frames.size).parent = some m := by
    rw [← ht1, parent_put, frame_alloc]; exact ctx0.fr.parent
  have hclt1 : s.frames.size < t1.frames.size := by
    rw [← ht1, frames_size_put]; exact hclt0
  have hcb1 : t1.cell b = some (.list []) := by
    rw [← ht1, cell_put, ← hbg]; exact cell_alloc_new _ _
  have ctx1 : Ctx t1 M nats srcs s.frames.size m [("obj", .ref a), ("chunk_size", .int k), ("result", .ref b)] :=
    Ctx.ofExt h hm E1 hvars1 hpar1 hclt1
  have hbge : s.heap.size ≤ b := by rw [← hbg]; exact e0'.hsize
  -- statement 2: the guard `if chunk_size <= 0 then error(…)`
  obtain ⟨j1, hle⟩ := ctx1.nat (x := "less_equals") (hn _ (by decide)) (by rfl)
  obtain ⟨mm, hm1, hm2⟩ := less_equals_int_L2 k 0 (div0Value t1 s.frames.size) l4 t1
  have hkf : decide (k ≤ 0) = false := by simp; omega
  rw [hkf] at hm2
  have G := Ev.natAB ld (k := 0) (p := l1) (pos := l4) hle (by rfl) (by trivial) (by trivial)
    (Ev.ident ld (p := l2) (ctx1.var (x := "chunk_size") (by rfl))) (Ev.litInt ld (p := l3) (n := 0)) hm1 hm2
  rw [wrapCall_ok] at G
  have S2 : Ev ld 7 s.frames.size (.ite [.call (.ident "less_equals" l1) [some "a", some "b"]
      [.ident "chunk_size" l2, .lit (.int 0) l3] l4] [errn] (.lit (.bool true) g1) g2) t1 (.ok (.bool true) t1) :=
    Ev.ite ld (EvIf.false ld (Ev.mono ld G (by decide)) (EvIf.else ld (Ev.litBool ld (k := 4))))
  -- statement 3: `is_list(obj)` is TRUE, the list branch
  obtain ⟨fl, m1, hl1, hm1', hsrc1⟩ := ctx1.src (x := "is_list") (src := type_is_list) (hs _ (by simp [firstSrcs])) (by rfl)
  obtain ⟨t2, e1, cl⟩ := is_list_calls ld ctx1.env (chunksNats_type hn) hm1' hsrc1 (.ref a)
  have hil : isListR t1 (.ref a) = true := by
    have : t1.cell a = some (.list xs) := by rw [E1.cell a ha]; exact hc
    simp [isListR, this]
  rw [hil] at cl
  have C := Ev.callSrc1 ld (k := 6) (p := i1) hl1 hsrc1 rfl (by decide) (by trivial)
    (Ev.ident ld (p := i2) (ctx1.var (x := "obj") (by rfl))) (cl s.frames.size i3)
  rw [wrapCall_ok] at C
  have hblt1 : b < t1.heap.size := cell_lt hcb1
  have inv : ChInv_L2 s s.frames.size m b k xs t2 a xs [] [] := by
    refine ⟨E1.trans e1, ?_, Nat.lt_of_lt_of_le hclt1 e1.fsize, ?_, ?_, ?_, rfl, ?_, List.nodup_nil, by omega, hbge, by simp⟩
    · rw [e1.frame _ hclt1]; exact hpar1
    · rw [e1.frame _ hclt1]; exact hvars1
    · rw [(E1.trans e1).cell a ha]; exact hc
    · rw [e1.cell b hblt1]; exact hcb1
    · intro ci hci; simp at hci
  obtain ⟨r3, t3, cs, hB, hctl3, fin⟩ := chunks_listBlock_L2 ld h hm hn hk inv
    c1 c2 c3 c4 c5 c6 p1 p2 p3 p4 p5 p6 p7 p8 q1 q2 q3 q4 q5 wp lp f1 f2 f3 f4 f5 f6 f7 bp2 bb bb2
  have S3 := Ev.ite ld (pos := g3) (EvIf.true ld (cs := crest) (xs := xrest) (els := els) (pos := g3)
    (Ev.mono ld C (show 6 + 3 ≤ 2 * xs.length + 17 by omega)) hB)
  -- statement 4
  have S4 : Ev ld (2 * xs.length + 18) s.frames.size (.ident "result" r1) t3 (.ok (.ref b) t3) :=
    Ev.ident ld (lookup_local (callFrame_self fin.parent (h.lt m hm)) fin.res)
  refine ⟨ghostFin t3 bp, cs, fin.ext.ghostFin _, ?_, ⟨hbge, fin.cellb, fin.chunks, fin.fresh, fin.nodup⟩⟩
  exact Ev.block ld (b := bb3) (pos := bp)
    (EvBody.cons ld (Ev.mono ld S1 (by omega)) rfl
      (EvBody.cons ld (Ev.mono ld S2 (by omega)) rfl
        (EvBody.cons ld S3 hctl3
          (EvBody.cons ld S4 rfl (EvBody.nil ld)))))

/-- the error raised by the guard: position and message are taken from the generated term -/
def chunksErrPos_L2 : Node → Pos
  | .block (_ :: .ite _ (.error _ p :: _) _ _ :: _) _ _ _ _ _ => p
  | _ => default

def chunksErrMsg_L2 : Node → List Char
  | .block (_ :: .ite _ (.error (.lit (.str t) _) _ :: _) _ _ :: _) _ _ _ _ _ => t
  | _ => []

example : chunksErrMsg_L2 (lamBody core_chunks) = "chunk_size must be positive".toList := by decide

/-- `chunk_size <= 0`: the guard raises -/
theorem chunks_block_err_L2 {s s0 : State} {M nats srcs m} {v : RVal} {k : Int} {msg : List Char}
    (h : LibEnv s M nats srcs) (hm : M m)
    (ctx : Ctx s0 M nats srcs s.frames.size m [("obj", v), ("chunk_size", .int k)]) (e0 : Ext s s0)
    (hn : ∀ x ∈ chunksNats, x ∈ nats) (hk : k ≤ 0)
    {d1 d2 l1 l2 l3 l4 e1 e2 g1 g2 bp : Pos} {info : String} {rest : List Node} {bb3 : Bool} :
    ∃ s', Ext s s' ∧ Ev ld 9 s.frames.size
      (.block (.defn "result" (.list [] d1) info d2 ::
        .ite [.call (.ident "less_equals" l1) [some "a", some "b"] [.ident "chunk_size" l2, .lit (.int 0) l3] l4]
          [.error (.lit (.str msg) e1) e2] (.lit (.bool true) g1) g2 :: rest) [] [] [] bb3 bp) s0
      (.err (.str msg) "" e2 [] s') := by
  have hcge : s.frames.size ≤ s.frames.size := Nat.le_refl _
  have ctx0 : Ctx (ghostEnter s0 bp) M nats srcs s.frames.size m [("obj", v), ("chunk_size", .int k)] :=
    ctx.ext ((Ext.refl s0).ghostEnter _)
  have e0' : Ext s (ghostEnter s0 bp) := e0.ghostEnter _
  generalize hb : (ghostEnter s0 bp).heap.size = b
  generalize ht1 : ((ghostEnter s0 bp).alloc (.list [])).1.put s.frames.size "result" (.ref b) = t1
  have S1 : Ev ld 2 s.frames.size (.defn "result" (.list [] d1) info d2) (ghostEnter s0 bp) (.ok (.ref b) t1) := by
    have := Ev.defn ld (k := 1) (name := "result") (info := info) (pos := d2) (by intro a h; cases h)
      (Ev.listNil ld (k := 0) (env := s.frames.size) (pos := d1) (s := ghostEnter s0 bp))
    rw [hb, ht1] at this; exact this
  have hclt0 : s.frames.size < (ghostEnter s0 bp).frames.size := ctx0.clt
  have E1 : Ext s t1 := by rw [← ht1]; exact (e0'.alloc _).put hcge _ _
  have hvars1 : (t1.frame s.frames.size).vars = [("obj", v), ("chunk_size", .int k), ("result", .ref b)] := by
    rw [← ht1, vars_put_same ((ghostEnter s0 bp).alloc (.list [])).1 "result" (.ref b) hclt0, frame_alloc, ctx0.fr.vars]; rfl
  have hpar1 : (t1.frame s.frames.size).parent = some m := by
    rw [← ht1, parent_put, frame_alloc]; exact ctx0.fr.parent
  have hclt1 : s.frames.size < t1.frames.size := by
    rw [← ht1, frames_size_put]; exact hclt0
  have ctx1 : Ctx t1 M nats srcs s.frames.size m [("obj", v), ("chunk_size", .int k), ("result", .ref b)] :=
    Ctx.ofExt h hm E1 hvars1 hpar1 hclt1
  obtain ⟨j1, hle⟩ := ctx1.nat (x := "less_equals") (hn _ (by decide)) (by rfl)
  obtain ⟨mm, hm1, hm2⟩ := less_equals_int_L2 k 0 (div0Value t1 s.frames.size) l4 t1
  have hkt : decide (k ≤ 0) = true := by simpa using hk
  rw [hkt] at hm2
  have G := Ev.natAB ld (k := 0) (p := l1) (pos := l4) hle (by rfl) (by trivial) (by trivial)
    (Ev.ident ld (p := l2) (ctx1.var (x := "chunk_size") (by rfl))) (Ev.litInt ld (p := l3) (n := 0)) hm1 hm2
  rw [wrapCall_ok] at G
  have S2 : Ev ld 6 s.frames.size (.ite [.call (.ident "less_equals" l1) [some "a", some "b"]
      [.ident "chunk_size" l2, .lit (.int 0) l3] l4] [.error (.lit (.str msg) e1) e2] (.lit (.bool true) g1) g2) t1
      (.err (.str msg) "" e2 [] t1) :=
    Ev.ite ld (EvIf.true ld G (Ev.mono ld (Ev.error ld (k := 0) (Ev.litStr ld)) (by decide)))
  exact ⟨ghostFin t1 bp, E1.ghostFin _, Ev.block_err ld (b := bb3) (pos := bp)
    (EvBody.cons ld (Ev.mono ld S1 (by decide)) rfl (EvBody.err ld S2))⟩

/-! ### `fn.execute` of `chunks` -/

/-- **`chunks(obj, chunk_size)` on a list cell, `chunk_size > 0`**: the value is a reference to the cell at the OLD heap size (so it
    is fresh), which holds references to fresh, pairwise different cells whose contents are the chunks `chunksGo k xs` -/
theorem chunks_calls_list {s : State} {M nats srcs fn m} (h : LibEnv s M nats srcs) (hn : ∀ x ∈ chunksNats, x ∈ nats)
    (hs : ∀ p ∈ firstSrcs, p ∈ srcs) (hm : M m) (hsrc : IsSrc s fn core_chunks m) (a : Nat) (xs : List RVal) (k : Int)
    (hk : 0 < k) (hc : s.cell a = some (.list xs)) :
    ∃ s' cs, Ext s s' ∧ ChResult_L2 s s' s.heap.size cs (Lib.chunksGo k.toNat xs) ∧
      ∀ env pos, Calls ld (2 * xs.length + 24) fn [("obj", .ref a), ("chunk_size", .int k)] env pos s
        (.ok (.ref s.heap.size) s') := by
  obtain ⟨c0, nm, rfl, hcell⟩ := hsrc
  have hb : ∃ s' cs, Ext s s' ∧ Ev ld (2 * xs.length + 23) s.frames.size (lamBody core_chunks)
      (calleeState s m ["obj", "chunk_size"] [("obj", .ref a), ("chunk_size", .int k)])
      (.ok (.ref (calleeState s m ["obj", "chunk_size"] [("obj", .ref a), ("chunk_size", .int k)]).heap.size) s') ∧
      ChResult_L2 s s' (calleeState s m ["obj", "chunk_size"] [("obj", .ref a), ("chunk_size", .int k)]).heap.size cs
        (Lib.chunksGo k.toNat xs) := by
    unfold lamBody core_chunks
    exact chunks_block_L2 ld h hm (Ctx.callee2 h hm "obj" "chunk_size" (.ref a) (.int k) (by decide))
      (calleeState_ext ..) hn hs hk hc
  obtain ⟨s', cs, e', hev, hres⟩ := hb
  rw [calleeState_heap] at hev hres
  refine ⟨s', cs, e', hres, fun env pos => ?_⟩
  have hcell' : s.cell c0 = some (.closure m ["obj", "chunk_size"] [.absent, .absent] (lamBody core_chunks) nm) := hcell
  exact Calls.closure ld (env := env) (pos := pos) hcell' rfl (by simp)
    (by intro p hp; simp at hp; rcases hp with rfl | rfl <;> simp [dictGet]) hev

/-- **`chunk_size <= 0`** (any `obj`): the runtime error `chunk_size must be positive`, raised at the `error` node of the guard -/
theorem chunks_calls_err {s : State} {M nats srcs fn m} (h : LibEnv s M nats srcs) (hn : ∀ x ∈ chunksNats, x ∈ nats)
    (hm : M m) (hsrc : IsSrc s fn core_chunks m) (v : RVal) (k : Int) (hk : k ≤ 0) :
    ∃ s', Ext s s' ∧ ∀ env pos, Calls ld 10 fn [("obj", v), ("chunk_size", .int k)] env pos s
      (.err (.str "chunk_size must be positive".toList) "" (chunksErrPos_L2 (lamBody core_chunks)) [] s') := by
  obtain ⟨s', e, _, c⟩ := calls_of_body2X ld (src := core_chunks) (Q := fun _ => True) (k := 9)
    (r := fun s' => .err (.str (chunksErrMsg_L2 (lamBody core_chunks))) "" (chunksErrPos_L2 (lamBody core_chunks)) [] s')
    rfl rfl rfl (by decide) (by decide) h hm hsrc v (.int k) (fun s0 ctx e0 => by
      obtain ⟨s', e', hev⟩ : ∃ s', Ext s s' ∧ Ev ld 9 s.frames.size (lamBody core_chunks) s0
          (.err (.str (chunksErrMsg_L2 (lamBody core_chunks))) "" (chunksErrPos_L2 (lamBody core_chunks)) [] s') := by
        unfold lamBody core_chunks
        exact chunks_block_err_L2 ld h hm ctx e0 hn hk
      exact ⟨s', e', hev, trivial⟩)
  rw [show chunksErrMsg_L2 (lamBody core_chunks) = "chunk_size must be positive".toList from by decide] at c
  exact ⟨s', e, c⟩

end Ckl.C19Src
