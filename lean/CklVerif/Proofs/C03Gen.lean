/-
  C03 — calls bind arguments as DECLARED: the parameter names the evaluator model gives the modelled built-ins
  (`nativeArgNames`, used for named-argument binding, positional fill and defaults) are the names the source declares.
  `Gen.nativeArgs` is REGENERATED from the `getArgNames` methods of /repo/src/ckl/functions.py on every run.
-/
import CklVerif.Gen.NativeTable
import CklVerif.Model.Natives
namespace Ckl.C03G
open Ckl.Gen

/-- every built-in the model knows parameter names for has exactly the parameter names its class declares -/
theorem argnames_agree : ∀ row ∈ nativeArgs, nativeArgNames row.1 = none ∨ nativeArgNames row.1 = some row.2 := by
  decide +kernel

/-- the names the model binds by: each of them is declared by the source (no modelled built-in is missing from the table) -/
theorem modelled_are_declared :
    ∀ n ∈ ["add", "sub", "mul", "div", "mod", "equals", "not_equals", "less", "less_equals", "greater", "greater_equals",
      "compare", "zip", "if_null", "if_empty", "type", "string", "int", "decimal", "boolean", "length", "identity", "is_empty",
      "is_not_empty", "is_null", "is_not_null", "list", "set", "append", "remove", "insert_at", "delete_at", "put", "range", "sum",
      "find", "find_last", "sublist", "substr", "contains", "starts_with", "ends_with", "chr", "ord", "println", "print", "sorted",
      "bind_native", "ls"],
      (nativeArgNames n).isSome = true ∧ (nativeArgs.lookup n = nativeArgNames n) := by
  decide +kernel

end Ckl.C03G
