/-
  Helper lemmas for C07 (value part): `vltWith dr` is a strict total order (modulo `veq`) inside one
  ordered kind.

  Method: every *atomic* ordered value gets a key in the linear order `List ℚ` (lexicographic)
  such that `<` is `<` of keys and `==` is `=` of keys; the list case is lifted by mutual structural
  recursion.
-/
import Mathlib.Data.List.Lex
import CklVerif.Lemmas.C06Eq

namespace Ckl

/-! ### lexicographic orders on lists of naturals / characters -/

theorem natListLt_iff_lt (a b : List Nat) : natListLt a b = true ↔ a < b := by
  induction a generalizing b with
  | nil => cases b <;> simp [natListLt]
  | cons x xs ih =>
    cases b with
    | nil => simp [natListLt]
    | cons y ys =>
      rw [List.cons_lt_cons_iff]
      simp only [natListLt]
      split
      · rename_i h; simp [h]
      · split
        · rename_i h1 h2
          constructor
          · intro h; exact absurd h Bool.false_ne_true
          · rintro (h | ⟨h, -⟩) <;> omega
        · rename_i h1 h2
          have : x = y := by omega
          subst this
          rw [ih]; simp

theorem strLt_eq_natListLt (a b : List Char) :
    strLt a b = natListLt (a.map Char.toNat) (b.map Char.toNat) := by
  induction a generalizing b with
  | nil => cases b <;> rfl
  | cons x xs ih =>
    cases b with
    | nil => rfl
    | cons y ys => simp only [strLt, List.map_cons, natListLt, ih]

theorem map_toNat_injective : Function.Injective (List.map Char.toNat) :=
  List.map_injective_iff.mpr (fun _ _ h => Char.toNat_inj.mp h)

theorem natListLt_iff_keyLt (a b : List Nat) :
    natListLt a b = true ↔ a.map (Nat.cast : Nat → ℚ) < b.map (Nat.cast : Nat → ℚ) := by
  induction a generalizing b with
  | nil => cases b <;> simp [natListLt]
  | cons x xs ih =>
    cases b with
    | nil => simp [natListLt]
    | cons y ys =>
      rw [List.map_cons, List.map_cons, List.cons_lt_cons_iff]
      simp only [natListLt, Nat.cast_lt, Nat.cast_inj]
      split
      · rename_i h; simp [h]
      · split
        · rename_i h1 h2
          constructor
          · intro h; exact absurd h Bool.false_ne_true
          · rintro (h | ⟨h, -⟩) <;> omega
        · rename_i h1 h2
          have : x = y := by omega
          subst this
          rw [ih]; simp

theorem map_cast_injective : Function.Injective (List.map (Nat.cast : Nat → ℚ)) :=
  List.map_injective_iff.mpr Nat.cast_injective

theorem DT.toList_injective : Function.Injective DT.toList := by
  intro a b h
  cases a; cases b
  simp only [DT.toList, List.cons.injEq, and_true] at h
  obtain ⟨h1, h2, h3, h4, h5, h6, h7⟩ := h
  subst h1 h2 h3 h4 h5 h6 h7
  rfl

theorem single_lt_iff (x y : ℚ) : ([x] : List ℚ) < [y] ↔ x < y := by
  rw [List.cons_lt_cons_iff]; simp

/-! ### keys of atomic values -/

def isListV : Val → Bool
  | .list _ => true
  | _ => false

/-- key of an atomic ordered value in the linear order `List ℚ` -/
def akey : Val → List ℚ
  | .bool b => [if b then 1 else 0]
  | .int n => [(n : ℚ)]
  | .dec m e => [qOf m e]
  | .str s => (s.map Char.toNat).map (Nat.cast : Nat → ℚ)
  | .pat s => (s.map Char.toNat).map (Nat.cast : Nat → ℚ)
  | .date d => d.toList.map (Nat.cast : Nat → ℚ)
  | _ => []

mutual
  /-- `a` and `b` are of one ordered kind: both booleans, both numbers (int / decimal mixed),
      both strings, both patterns, both dates, or both lists whose elements at corresponding
      positions are of one ordered kind (the lists may have different lengths). -/
  def SameKind : Val → Val → Prop
    | .bool _, .bool _ => True
    | .int _, .int _ => True
    | .int _, .dec _ _ => True
    | .dec _ _, .int _ => True
    | .dec _ _, .dec _ _ => True
    | .str _, .str _ => True
    | .pat _, .pat _ => True
    | .date _, .date _ => True
    | .list a, .list b => SameKindL a b
    | _, _ => False
  def SameKindL : List Val → List Val → Prop
    | x :: xs, y :: ys => SameKind x y ∧ SameKindL xs ys
    | _, _ => True
end

section
variable (dr : DecRenderer)

theorem isListV_of_sameKind {a b : Val} (h : SameKind a b) (ha : isListV a = false) :
    isListV b = false := by
  cases a <;> cases b <;> simp [SameKind, isListV] at h ha ⊢

theorem vlt_atom_iff {a b : Val} (h : SameKind a b) (ha : isListV a = false) :
    vltWith dr a b = true ↔ akey a < akey b := by
  cases a <;> cases b <;> simp only [SameKind] at h <;> simp only [isListV] at ha
  case bool.bool x y => cases x <;> cases y <;> simp [vltWith, akey, single_lt_iff]
  case int.int x y => simp [vltWith, akey, single_lt_iff]
  case int.dec x m e =>
    simp only [vltWith, akey, single_lt_iff, numLt_iff, qOf_zero_exp]
  case dec.int m e x =>
    simp only [vltWith, akey, single_lt_iff, numLt_iff, qOf_zero_exp]
  case dec.dec m e m' e' =>
    simp only [vltWith, akey, single_lt_iff, numLt_iff]
  case str.str x y =>
    simp only [vltWith, akey, strLt_eq_natListLt, natListLt_iff_keyLt]
  case pat.pat x y =>
    simp only [vltWith, akey, strLt_eq_natListLt, natListLt_iff_keyLt]
  case date.date x y =>
    simp only [vltWith, akey, DT.lt, natListLt_iff_keyLt]
  case list.list => exact absurd ha (by decide)

theorem veq_atom_iff {a b : Val} (h : SameKind a b) (ha : isListV a = false) :
    veq a b = true ↔ akey a = akey b := by
  cases a <;> cases b <;> simp only [SameKind] at h <;> simp only [isListV] at ha
  case bool.bool x y => cases x <;> cases y <;> simp [veq, akey]
  case int.int x y => simp [veq, akey]
  case int.dec x m e => simp only [veq, akey, numEq_iff, qOf_zero_exp]; simp
  case dec.int m e x => simp only [veq, akey, numEq_iff, qOf_zero_exp]; simp
  case dec.dec m e m' e' => simp only [veq, akey, numEq_iff]; simp
  case str.str x y =>
    simp only [veq, akey, beq_iff_eq]
    exact ⟨fun h => by rw [h], fun h => map_toNat_injective (map_cast_injective h)⟩
  case pat.pat x y =>
    simp only [veq, akey, beq_iff_eq]
    exact ⟨fun h => by rw [h], fun h => map_toNat_injective (map_cast_injective h)⟩
  case date.date x y =>
    simp only [veq, akey, beq_iff_eq]
    exact ⟨fun h => by rw [h], fun h => DT.toList_injective (map_cast_injective h)⟩
  case list.list => exact absurd ha (by decide)

/-! ### atomic versions of the order properties -/

theorem atom_congr_left {a b c : Val} (hab : SameKind a b) (hac : SameKind a c)
    (hbc : SameKind b c) (ha : isListV a = false) (h : veq a b = true) :
    vltWith dr a c = vltWith dr b c := by
  have hb := isListV_of_sameKind hab ha
  rw [veq_atom_iff hab ha] at h
  apply Bool.eq_iff_iff.mpr
  rw [vlt_atom_iff dr hac ha, vlt_atom_iff dr hbc hb, h]

theorem atom_congr_right {a b c : Val} (hab : SameKind a b) (hac : SameKind a c)
    (hbc : SameKind b c) (ha : isListV a = false) (h : veq b c = true) :
    vltWith dr a b = vltWith dr a c := by
  have hb := isListV_of_sameKind hab ha
  rw [veq_atom_iff hbc hb] at h
  apply Bool.eq_iff_iff.mpr
  rw [vlt_atom_iff dr hac ha, vlt_atom_iff dr hab ha, h]

theorem atom_veq_not_lt {a b : Val} (hab : SameKind a b) (ha : isListV a = false)
    (h : veq a b = true) : vltWith dr a b = false := by
  rw [veq_atom_iff hab ha] at h
  apply Bool.eq_false_iff.mpr
  rw [Ne, vlt_atom_iff dr hab ha, h]
  exact lt_irrefl _

theorem atom_trans {a b c : Val} (hab : SameKind a b) (hac : SameKind a c)
    (hbc : SameKind b c) (ha : isListV a = false)
    (h1 : vltWith dr a b = true) (h2 : vltWith dr b c = true) : vltWith dr a c = true := by
  have hb := isListV_of_sameKind hab ha
  rw [vlt_atom_iff dr hab ha] at h1
  rw [vlt_atom_iff dr hbc hb] at h2
  rw [vlt_atom_iff dr hac ha]
  exact lt_trans h1 h2

/-- the three-way split, atomic case: from `a`'s side -/
theorem atom_total {a b : Val} (hab : SameKind a b) (ha : isListV a = false) :
    (vltWith dr a b = true ∨ veq a b = true) ∨
      (veq a b = false ∧ vltWith dr a b = false ∧ akey b < akey a) := by
  rcases lt_trichotomy (akey a) (akey b) with h | h | h
  · left; left; exact (vlt_atom_iff dr hab ha).mpr h
  · left; right; exact (veq_atom_iff hab ha).mpr h
  · right
    refine ⟨?_, ?_, h⟩
    · apply Bool.eq_false_iff.mpr
      rw [Ne, veq_atom_iff hab ha]
      exact fun h' => absurd h (h' ▸ lt_irrefl _)
    · apply Bool.eq_false_iff.mpr
      rw [Ne, vlt_atom_iff dr hab ha]
      exact lt_asymm h

end
end Ckl
