/-
  Helper lemmas for C06/C07: the dyadic comparisons `numEq` / `numLt` are equality / order of the
  rationals `m / 2^e`; `normNum` is a canonical form.
-/
import Mathlib.Algebra.Order.Field.Basic
import Mathlib.Algebra.Order.Ring.Rat
import Mathlib.Tactic.Positivity
import Mathlib.Tactic.NormNum
import Mathlib.Tactic.Linarith
import Mathlib.Tactic.Ring
import CklVerif.Model.Coll

namespace Ckl

/-- the rational number denoted by numerator `m` and binary exponent `e` -/
def qOf (m : Int) (e : Nat) : ℚ := (m : ℚ) / 2 ^ e

theorem qOf_zero_exp (m : Int) : qOf m 0 = m := by simp [qOf]

theorem numEq_iff (a : Int) (p : Nat) (b : Int) (q : Nat) :
    numEq a p b q = true ↔ qOf a p = qOf b q := by
  unfold numEq qOf
  rw [decide_eq_true_iff, div_eq_div_iff (by positivity) (by positivity)]
  constructor <;> intro h <;> exact_mod_cast h

theorem numLt_iff (a : Int) (p : Nat) (b : Int) (q : Nat) :
    numLt a p b q = true ↔ qOf a p < qOf b q := by
  unfold numLt qOf
  rw [decide_eq_true_iff, div_lt_div_iff₀ (by positivity) (by positivity)]
  constructor <;> intro h <;> exact_mod_cast h

theorem numEq_refl (a : Int) (p : Nat) : numEq a p a p = true := by
  simp [numEq]

theorem numEq_symm (a : Int) (p : Nat) (b : Int) (q : Nat) : numEq a p b q = numEq b q a p := by
  unfold numEq
  rw [decide_eq_decide]
  exact eq_comm

/-- cancellation proof, in `Int` only (no rationals): transitivity of cross-multiplied equality -/
theorem numEq_trans {a : Int} {p : Nat} {b : Int} {q : Nat} {c : Int} {r : Nat}
    (h1 : numEq a p b q = true) (h2 : numEq b q c r = true) : numEq a p c r = true := by
  unfold numEq at *
  rw [decide_eq_true_iff] at *
  have hq : (0 : Int) < 2 ^ q := by positivity
  apply Int.eq_of_mul_eq_mul_right (Int.ne_of_gt hq)
  calc a * 2 ^ r * 2 ^ q = (a * 2 ^ q) * 2 ^ r := by ring
    _ = (b * 2 ^ p) * 2 ^ r := by rw [h1]
    _ = (b * 2 ^ r) * 2 ^ p := by ring
    _ = (c * 2 ^ q) * 2 ^ p := by rw [h2]
    _ = c * 2 ^ p * 2 ^ q := by ring

/-! ### `normNum` -/

/-- normal: exponent 0 or odd numerator -/
def IsNorm (p : Int × Nat) : Prop := p.2 = 0 ∨ p.1 % 2 = 1

theorem normNum_isNorm (m : Int) (e : Nat) : IsNorm (normNum m e) := by
  induction e generalizing m with
  | zero => left; simp [normNum]
  | succ e ih =>
    unfold normNum
    split
    · exact ih _
    · right; show m % 2 = 1; omega

theorem normNum_numEq (m : Int) (e : Nat) :
    numEq m e (normNum m e).1 (normNum m e).2 = true := by
  induction e generalizing m with
  | zero => simp [normNum, numEq]
  | succ e ih =>
    unfold normNum
    split
    · rename_i h
      have h1 := ih (m / 2)
      refine numEq_trans ?_ h1
      unfold numEq
      rw [decide_eq_true_iff]
      have : m = 2 * (m / 2) := by omega
      calc m * 2 ^ e = (2 * (m / 2)) * 2 ^ e := by rw [← this]
        _ = m / 2 * 2 ^ (e + 1) := by ring
    · exact numEq_refl _ _

theorem isNorm_unique_aux {m : Int} {e : Nat} {m' : Int} {e' : Nat}
    (h : m * 2 ^ e' = m' * 2 ^ e) (hle : e ≤ e') (hn' : IsNorm (m', e')) : e = e' := by
  rcases Nat.eq_or_lt_of_le hle with h0 | hlt
  · exact h0
  · exfalso
    obtain ⟨k, rfl⟩ : ∃ k, e' = e + (k + 1) := ⟨e' - e - 1, by omega⟩
    have he : (0 : Int) < 2 ^ e := by positivity
    have h2 : m * 2 ^ (k + 1) * 2 ^ e = m' * 2 ^ e := by
      rw [← h]; ring
    have h3 := Int.eq_of_mul_eq_mul_right (Int.ne_of_gt he) h2
    rcases hn' with h4 | h4
    · simp at h4
    · simp only at h4
      have : m' = 2 * (m * 2 ^ k) := by rw [← h3]; ring
      omega

theorem isNorm_unique {m : Int} {e : Nat} {m' : Int} {e' : Nat}
    (h : numEq m e m' e' = true) (hn : IsNorm (m, e)) (hn' : IsNorm (m', e')) :
    (m, e) = (m', e') := by
  unfold numEq at h
  rw [decide_eq_true_iff] at h
  have hee : e = e' := by
    rcases Nat.le_total e e' with hle | hle
    · exact isNorm_unique_aux h hle hn'
    · exact (isNorm_unique_aux h.symm hle hn).symm
  subst hee
  have he : (0 : Int) < 2 ^ e := by positivity
  have := Int.eq_of_mul_eq_mul_right (Int.ne_of_gt he) h
  rw [this]

/-- equal numbers have the same normal form (hence the same hash payload) -/
theorem normNum_congr' {m : Int} {e : Nat} {m' : Int} {e' : Nat}
    (h : numEq m e m' e' = true) : normNum m e = normNum m' e' := by
  have h1 := normNum_numEq m e
  have h2 := normNum_numEq m' e'
  rw [numEq_symm] at h1
  have h3 := numEq_trans (numEq_trans h1 h) h2
  exact isNorm_unique h3 (normNum_isNorm m e) (normNum_isNorm m' e')

end Ckl
