import CklVerif.Model.Env

/-!
  C03 helper library: the algebra of environments (`Env.lean`) — Python-dict-like
  association lists, frames, `put`, `lookup`, `set`, `newEnv`.  Pure functions only.
-/
namespace Ckl.C03

/-! ### association lists as dicts -/

theorem dictGet_dictPut_same {β} (k : String) (v : β) (d : List (String × β)) :
    dictGet k (dictPut k v d) = some v := by
  induction d with
  | nil => simp [dictPut, dictGet]
  | cons kv rest ih =>
    obtain ⟨k', v'⟩ := kv
    by_cases h : k = k'
    · simp [dictPut, dictGet, h]
    · simp [dictPut, dictGet, h, ih]

theorem dictGet_dictPut_other {β} {k k' : String} (h : k ≠ k') (v : β) (d : List (String × β)) :
    dictGet k' (dictPut k v d) = dictGet k' d := by
  induction d with
  | nil => simp [dictPut, dictGet, Ne.symm h]
  | cons kv rest ih =>
    obtain ⟨k2, v2⟩ := kv
    by_cases h1 : k = k2
    · subst h1
      simp [dictPut, dictGet, Ne.symm h]
    · by_cases h2 : k' = k2
      · simp [dictPut, dictGet, h1, h2]
      · simp [dictPut, dictGet, h1, h2, ih]

theorem dictGet_dictPut {β} (k k' : String) (v : β) (d : List (String × β)) :
    dictGet k' (dictPut k v d) = if k' = k then some v else dictGet k' d := by
  by_cases h : k' = k
  · subst h; simp [dictGet_dictPut_same]
  · simp [h, dictGet_dictPut_other (Ne.symm h)]

theorem dictHas_dictPut_same {β} (k : String) (v : β) (d : List (String × β)) :
    dictHas k (dictPut k v d) = true := by
  simp [dictHas, dictGet_dictPut_same]

theorem dictHas_dictPut_other {β} {k k' : String} (h : k ≠ k') (v : β) (d : List (String × β)) :
    dictHas k' (dictPut k v d) = dictHas k' d := by
  simp [dictHas, dictGet_dictPut_other h]

theorem dictHas_dictPut {β} (k k' : String) (v : β) (d : List (String × β)) :
    dictHas k' (dictPut k v d) = (decide (k' = k) || dictHas k' d) := by
  by_cases h : k' = k
  · subst h; simp [dictHas_dictPut_same]
  · simp [h, dictHas_dictPut_other (Ne.symm h)]

theorem dictGet_nil {β} (k : String) : dictGet k ([] : List (String × β)) = none := rfl
theorem dictHas_nil {β} (k : String) : dictHas k ([] : List (String × β)) = false := rfl

theorem dictHas_eq_isSome {β} (k : String) (d : List (String × β)) :
    dictHas k d = (dictGet k d).isSome := rfl

theorem dictHas_false_iff {β} (k : String) (d : List (String × β)) :
    dictHas k d = false ↔ dictGet k d = none := by
  simp [dictHas]

theorem dictHas_true_iff {β} (k : String) (d : List (String × β)) :
    dictHas k d = true ↔ ∃ v, dictGet k d = some v := by
  simp [dictHas, Option.isSome_iff_exists]

/-- the keys of a dict: `dictPut` of an existing key keeps the key list (assignment keeps the slot) -/
theorem keys_dictPut_of_has {β} (k : String) (v : β) (d : List (String × β)) (h : dictHas k d = true) :
    (dictPut k v d).map (·.1) = d.map (·.1) := by
  induction d with
  | nil => simp [dictHas, dictGet] at h
  | cons kv rest ih =>
    obtain ⟨k', v'⟩ := kv
    by_cases h1 : k = k'
    · simp [dictPut, h1]
    · have : dictHas k rest = true := by simpa [dictHas, dictGet, h1] using h
      simp [dictPut, h1, ih this]

/-- a new key is appended at the end (Python dict insertion order) -/
theorem dictPut_of_not_has {β} (k : String) (v : β) (d : List (String × β)) (h : dictHas k d = false) :
    dictPut k v d = d ++ [(k, v)] := by
  induction d with
  | nil => rfl
  | cons kv rest ih =>
    obtain ⟨k', v'⟩ := kv
    by_cases h1 : k = k'
    · simp [dictHas, dictGet, h1] at h
    · have : dictHas k rest = false := by simpa [dictHas, dictGet, h1] using h
      simp [dictPut, h1, ih this]

/-! ### frames under `put` -/

theorem frame_of_lt (s : State) {e : Nat} (h : e < s.frames.size) : s.frame e = s.frames[e] := by
  simp [State.frame, Array.getD_eq_getD_getElem?, h]

/-- an id outside the frame array denotes the empty parentless frame -/
theorem frame_of_ge (s : State) {e : Nat} (h : s.frames.size ≤ e) : s.frame e = {} := by
  simp [State.frame, Array.getD_eq_getD_getElem?, h]

theorem frames_size_put (s : State) (e : Nat) (x : String) (v : RVal) :
    (s.put e x v).frames.size = s.frames.size := by
  simp [State.put]

theorem heap_put (s : State) (e : Nat) (x : String) (v : RVal) : (s.put e x v).heap = s.heap := rfl

/-- `put` in an existing frame rewrites exactly that frame's dict. -/
theorem frame_put_same (s : State) {e : Nat} (x : String) (v : RVal) (h : e < s.frames.size) :
    (s.put e x v).frame e = { s.frame e with vars := dictPut x v (s.frame e).vars } := by
  simp [State.put, State.frame, Array.getD_eq_getD_getElem?, Array.getElem_modify, h]

/-- `put` leaves every other frame alone. -/
theorem frame_put_other (s : State) {e e' : Nat} (x : String) (v : RVal) (h : e' ≠ e) :
    (s.put e x v).frame e' = s.frame e' := by
  simp [State.put, State.frame, Array.getD_eq_getD_getElem?, Array.getElem?_modify, Ne.symm h]

/-- `put` into a frame id that does not exist is a no-op (`Array.modify` out of range). -/
theorem put_out_of_range (s : State) {e : Nat} (x : String) (v : RVal) (h : s.frames.size ≤ e) :
    s.put e x v = s := by
  have : s.frames.modify e (fun f => { f with vars := dictPut x v f.vars }) = s.frames := by
    apply Array.ext
    · simp
    · intro i h1 h2
      have : e ≠ i := by simp at h1; omega
      simp [Array.getElem_modify, this]
  simp [State.put, this]

theorem parent_put (s : State) (e e' : Nat) (x : String) (v : RVal) :
    ((s.put e x v).frame e').parent = (s.frame e').parent := by
  by_cases h : e' = e
  · subst h
    by_cases h2 : e' < s.frames.size
    · rw [frame_put_same s x v h2]
    · rw [put_out_of_range s x v (by omega)]
  · rw [frame_put_other s x v h]

theorem vars_put_same (s : State) {e : Nat} (x : String) (v : RVal) (h : e < s.frames.size) :
    ((s.put e x v).frame e).vars = dictPut x v (s.frame e).vars := by
  rw [frame_put_same s x v h]

/-- a `put` of name `x` never changes what any frame says about another name `y` -/
theorem dictGet_vars_put_other_name (s : State) (e e' : Nat) {x y : String} (v : RVal) (h : x ≠ y) :
    dictGet y ((s.put e x v).frame e').vars = dictGet y (s.frame e').vars := by
  by_cases h1 : e' = e
  · subst h1
    by_cases h2 : e' < s.frames.size
    · rw [vars_put_same s x v h2, dictGet_dictPut_other h]
    · rw [put_out_of_range s x v (by omega)]
  · rw [frame_put_other s x v h1]

/-! ### `lookup` after `put` -/

theorem lookupF_put_other_name (s : State) (e : Nat) {x y : String} (v : RVal) (h : x ≠ y) :
    ∀ (n : Nat) (e' : Nat), (s.put e x v).lookupF n e' y = s.lookupF n e' y := by
  intro n
  induction n with
  | zero => intro e'; rfl
  | succ n ih =>
    intro e'
    simp only [State.lookupF, dictGet_vars_put_other_name s e e' v h, parent_put]
    split
    · rfl
    · split
      · exact ih _
      · rfl

theorem lookupF_put_same (s : State) {e : Nat} (x : String) (v : RVal) (h : e < s.frames.size) (n : Nat) :
    (s.put e x v).lookupF (n + 1) e x = some v := by
  simp [State.lookupF, vars_put_same s x v h, dictGet_dictPut_same]

/-! ### `set`: nearest definition on the parent chain -/

/-- `NearestDefF s fuel e name e'`: walking at most `fuel` frames along the parent chain from
    `e`, the first frame that defines `name` is `e'`. -/
inductive NearestDefF (s : State) (name : String) : Nat → Nat → Nat → Prop where
  | here {fuel e} : dictHas name (s.frame e).vars = true → NearestDefF s name (fuel + 1) e e
  | up {fuel e p e'} : dictHas name (s.frame e).vars = false → (s.frame e).parent = some p →
      NearestDefF s name fuel p e' → NearestDefF s name (fuel + 1) e e'

/-- fuel-free version of the chain relation -/
inductive NearestDef (s : State) (name : String) : Nat → Nat → Prop where
  | here {e} : dictHas name (s.frame e).vars = true → NearestDef s name e e
  | up {e p e'} : dictHas name (s.frame e).vars = false → (s.frame e).parent = some p →
      NearestDef s name p e' → NearestDef s name e e'

/-- the invariant of every state the evaluator builds: parents have smaller ids
    (`newEnv` appends, parents are existing frames) -/
def ParentsSmaller (s : State) : Prop :=
  ∀ e p : Nat, (s.frame e).parent = some p → p < e

theorem NearestDefF.toNearestDef {s : State} {name : String} {n e e'} (h : NearestDefF s name n e e') :
    NearestDef s name e e' := by
  induction h with
  | here h => exact .here h
  | up h1 h2 _ ih => exact .up h1 h2 ih

theorem NearestDef.toF {s : State} {name : String} (wf : ParentsSmaller s) {e e'}
    (h : NearestDef s name e e') : ∀ n, e < n → NearestDefF s name n e e' := by
  induction h with
  | here h =>
    intro n hn
    cases n with
    | zero => omega
    | succ n => exact .here h
  | @up e p e' h1 h2 _ ih =>
    intro n hn
    cases n with
    | zero => omega
    | succ n =>
      have := wf e p h2
      exact .up h1 h2 (ih n (by omega))

/-- a frame that defines something exists -/
theorem lt_size_of_dictHas {s : State} {name : String} {e : Nat}
    (h : dictHas name (s.frame e).vars = true) : e < s.frames.size := by
  by_cases h1 : e < s.frames.size
  · exact h1
  · rw [frame_of_ge s (by omega)] at h
    simp [dictHas, dictGet] at h

theorem lt_size_of_parent {s : State} {e p : Nat} (h : (s.frame e).parent = some p) :
    e < s.frames.size := by
  by_cases h1 : e < s.frames.size
  · exact h1
  · rw [frame_of_ge s (by omega)] at h
    cases h

theorem NearestDef.src_lt {s : State} {name : String} {e e'} (h : NearestDef s name e e') :
    e < s.frames.size := by
  cases h with
  | here h => exact lt_size_of_dictHas h
  | up _ h2 _ => exact lt_size_of_parent h2

theorem NearestDef.tgt_defines {s : State} {name : String} {e e'} (h : NearestDef s name e e') :
    dictHas name (s.frame e').vars = true := by
  induction h with
  | here h => exact h
  | up _ _ _ ih => exact ih

theorem setF_of_nearest {s : State} {name : String} {n e e'} (h : NearestDefF s name n e e') (v : RVal) :
    s.setF n e name v = some (s.put e' name v) := by
  induction h with
  | here h => simp [State.setF, h]
  | up h1 h2 _ ih => simp [State.setF, h1, h2, ih]

theorem nearest_of_setF {s : State} {name : String} {v : RVal} :
    ∀ {n e s'}, s.setF n e name v = some s' → ∃ e', NearestDefF s name n e e' ∧ s' = s.put e' name v := by
  intro n
  induction n with
  | zero => intro e s' h; simp [State.setF] at h
  | succ n ih =>
    intro e s' h
    simp only [State.setF] at h
    split at h
    · rename_i hh
      exact ⟨e, .here hh, by simpa using h.symm⟩
    · rename_i hh
      split at h
      · rename_i p hp
        obtain ⟨e', h1, h2⟩ := ih h
        exact ⟨e', .up (by simpa using hh) hp h1, h2⟩
      · cases h

theorem setF_isSome_eq_lookupF_isSome (s : State) (name : String) (v : RVal) :
    ∀ (n : Nat) (e : Nat), (s.setF n e name v).isSome = (s.lookupF n e name).isSome := by
  intro n
  induction n with
  | zero => intro e; rfl
  | succ n ih =>
    intro e
    by_cases h : dictHas name (s.frame e).vars = true
    · obtain ⟨w, hw⟩ := (dictHas_true_iff _ _).1 h
      simp [State.setF, State.lookupF, h, hw]
    · have h' := Bool.eq_false_iff.2 h
      have hn := (dictHas_false_iff _ _).1 h'
      cases h2 : (s.frame e).parent <;> simp [State.setF, State.lookupF, h', hn, h2, ih]

theorem setF_none_of_lookupF_none (s : State) (name : String) (v : RVal) (n : Nat) (e : Nat)
    (h : s.lookupF n e name = none) : s.setF n e name v = none := by
  have := setF_isSome_eq_lookupF_isSome s name v n e
  rw [h] at this
  simpa using this

/-- looking a name up along a chain whose nearest definition is `e'` reads frame `e'` -/
theorem lookupF_of_nearest {s : State} {name : String} {n e e'} (h : NearestDefF s name n e e') :
    s.lookupF n e name = dictGet name (s.frame e').vars := by
  induction h with
  | @here fuel e h =>
    obtain ⟨w, hw⟩ := (dictHas_true_iff _ _).1 h
    simp [State.lookupF, hw]
  | up h1 h2 _ ih =>
    have := (dictHas_false_iff _ _).1 h1
    simp [State.lookupF, this, h2, ih]

/-- the chain relation is untouched by a `put` of the same name into the frame it ends in -/
theorem NearestDefF.put_target {s : State} {name : String} {n e e'} (h : NearestDefF s name n e e')
    (v : RVal) : NearestDefF (s.put e' name v) name n e e' := by
  have hdef : dictHas name (s.frame e').vars = true := h.toNearestDef.tgt_defines
  have hlt := lt_size_of_dictHas hdef
  induction h with
  | here h =>
    refine .here ?_
    rw [vars_put_same s name v hlt, dictHas_dictPut_same]
  | @up fuel e p e' h1 h2 h3 ih =>
    have hne : e ≠ e' := by
      intro heq; subst heq; rw [hdef] at h1; cases h1
    refine .up ?_ ?_ (ih hdef hlt)
    · rw [frame_put_other s name v hne]; exact h1
    · rw [parent_put]; exact h2

/-! ### `newEnv` -/

theorem newEnv_id (s : State) (p : Nat) : (s.newEnv p).2 = s.frames.size := rfl

theorem newEnv_frames_size (s : State) (p : Nat) : (s.newEnv p).1.frames.size = s.frames.size + 1 := by
  simp [State.newEnv]

theorem newEnv_frame_new (s : State) (p : Nat) :
    (s.newEnv p).1.frame s.frames.size = { vars := [], parent := some p } := by
  simp [State.newEnv, State.frame, Array.getD_eq_getD_getElem?]

theorem newEnv_frame_old (s : State) (p : Nat) {e : Nat} (h : e < s.frames.size) :
    (s.newEnv p).1.frame e = s.frame e := by
  have hne : e ≠ s.frames.size := by omega
  simp [State.newEnv, State.frame, Array.getD_eq_getD_getElem?, Array.getElem?_push, h, hne]

theorem newEnv_heap (s : State) (p : Nat) : (s.newEnv p).1.heap = s.heap := rfl

theorem parentsSmaller_empty : ParentsSmaller {} := by
  intro e p h
  simp [State.frame] at h

theorem parentsSmaller_put {s : State} (wf : ParentsSmaller s) (e : Nat) (x : String) (v : RVal) :
    ParentsSmaller (s.put e x v) := by
  intro e' p h
  rw [parent_put] at h
  exact wf e' p h

theorem parentsSmaller_newEnv {s : State} (wf : ParentsSmaller s) {p : Nat} (hp : p < s.frames.size) :
    ParentsSmaller (s.newEnv p).1 := by
  intro e q h
  by_cases h1 : e < s.frames.size
  · rw [newEnv_frame_old s p h1] at h
    exact wf e q h
  · by_cases h2 : e = s.frames.size
    · subst h2
      rw [newEnv_frame_new] at h
      simp at h
      subst h
      exact hp
    · rw [frame_of_ge _ (by rw [newEnv_frames_size]; omega)] at h
      cases h

end Ckl.C03
