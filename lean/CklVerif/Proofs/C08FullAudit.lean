/-
  Axiom audit for C08 (full data literals): every theorem may depend only on `propext`,
  `Classical.choice`, `Quot.sound`.
-/
import CklVerif.Proofs.C08Full
open Ckl.C08F

#print axioms ex1_data
#print axioms ex2_data
#print axioms ex3_data
#print axioms ex4_data
#print axioms s0_null
#print axioms data_tokens'_ctx
#print axioms data_tokens'
#print axioms roundtrip_parse
#print axioms roundtrip_parse_nodeOf
#print axioms roundtrip_eval
#print axioms roundtrip_eval_nodeOf
#print axioms roundtrip_text
#print axioms roundtrip_value
#print axioms render_injective
#print axioms renderInj
#print axioms lt_strictTotal
#print axioms mkSet_isData'
#print axioms mkMap_isData'
#print axioms mkSet_fix
#print axioms mkMap_fix
#print axioms scans_val
#print axioms lit_val
#print axioms Lit.expr
#print axioms Lit.parse
#print axioms rveq_rep
#print axioms eval_val
#print axioms rep_reify
#print axioms rep_rrender
#print axioms vlt_strictTotalOn
#print axioms vlt_asymm_all
#print axioms veq_eq_of_data
#print axioms mkSet_isData
#print axioms mkMap_isData
