/-
  C11 (binding part), frame logic (see C11BindFExt): the simultaneous induction on the fuel over
  all functions of the evaluator — every one of them only extends the state (`FExt`).
-/
import CklVerif.Lemmas.C11BindFHelpers
namespace Ckl.C11B
open Ckl Ckl.C05

macro_rules | `(tactic| ftr_lemma) => `(tactic| exact FTr.callPure _ _ _ _ _ (by assumption))

/-- the containment boundary of `invoke`: hard failures of the callee become runtime errors in
    the same state -/
theorem FTr.invokeTail {s0 : State} {m : EvalM RVal} (hm : FTr s0 m) (g : State → String) (pos : Pos) :
    FTr s0 (fun s1 =>
      match m s1 with
      | .err v msg p t s2 => .err v msg p (t ++ [(g s2, pos)]) s2
      | .fail (.syn e) s2 => .err (.str "ERROR".toList) e.msg pos [] s2
      | .fail (.host k) s2 => .err (.str "ERROR".toList) (g s2 ++ " failed: " ++ k) pos [] s2
      | other => other) := by
  refine ⟨fun s1 hs1 => ?_⟩
  have h := hm.run s1 hs1
  revert h
  cases m s1 with
  | ok a s2 => exact id
  | err v msg p t s2 => exact id
  | fail f s2 => cases f <;> exact id

/-- `for`: on an error the loop variables are removed -/
theorem FTr.wrapErrR {s0 : State} {m : EvalM RVal} (hm : FTr s0 m) (g : State → State)
    (hg : ∀ s, FExt s (g s)) :
    FTr s0 (fun s1 =>
      match m s1 with
      | .err v msg p t s2 => .err v msg p t (g s2)
      | other => other) := by
  refine ⟨fun s1 hs1 => ?_⟩
  have h := hm.run s1 hs1
  revert h
  cases m s1 with
  | ok a s2 => exact id
  | err v msg p t s2 => exact fun h => h.trans (hg s2)
  | fail f s2 => exact id

theorem fext_restoreVars (env : EnvId) (hidden : List (String × RVal)) (s : State) : FExt s (restoreVars env hidden s) := by
  unfold restoreVars
  exact fext_foldl (fun s (xv : String × RVal) => s.put env xv.1 xv.2) (fun _ _ => fext_put _ _ _ _) hidden s

/-- `for`: the hidden bindings are restored on a value and on an error (after the loop variables are removed) -/
theorem FTr.wrapForR {s0 : State} {m : EvalM RVal} (hm : FTr s0 m) (h g : State → State → State)
    (hh : ∀ s1 s, FExt s (h s1 s)) (hg : ∀ s1 s, FExt s (g s1 s)) :
    FTr s0 (fun s1 =>
      match m s1 with
      | .ok v s2 => .ok v (h s1 s2)
      | .err v msg p t s2 => .err v msg p t (g s1 s2)
      | .fail (.syn e) s2 => .fail (.syn e) (g s1 s2)
      | other => other) := by
  refine ⟨fun s1 hs1 => ?_⟩
  have h' := hm.run s1 hs1
  revert h'
  cases m s1 with
  | ok a s2 => exact fun h' => h'.trans (hh s1 s2)
  | err v msg p t s2 => exact fun h' => h'.trans (hg s1 s2)
  | fail f s2 =>
    cases f with
    | syn e => exact fun h' => h'.trans (hg s1 s2)
    | oof => exact id
    | unsupported w => exact id
    | host k => exact id

/-- `loadModule` wrapped by the pop of `evalRequire` -/
theorem FTr.popTail {s0 : State} {m : EvalM EnvId} (hm : FTr s0 m) :
    FTr s0 (fun s1 =>
      match m s1 with
      | .ok e s2 => .ok e { s2 with modstack := s2.modstack.dropLast }
      | .err v msg p t s2 => .err v msg p t { s2 with modstack := s2.modstack.dropLast }
      | .fail f s2 => .fail f { s2 with modstack := s2.modstack.dropLast }) := by
  refine ⟨fun s1 hs1 => ?_⟩
  have h := hm.run s1 hs1
  revert h
  cases m s1 with
  | ok a s2 => exact fun h => h.trans (fext_of_eq rfl rfl)
  | err v msg p t s2 => exact fun h => h.trans (fext_of_eq rfl rfl)
  | fail f s2 => exact fun h => h.trans (fext_of_eq rfl rfl)

section
variable (ld : Loader)

/-- the statement proved by induction on `fuel`, one field per function of the mutual block -/
structure AllF (fuel : Nat) : Prop where
  eval : ∀ s0 env n, FTr s0 (eval ld fuel env n)
  evalAnd : ∀ s0 env es pos, FTr s0 (evalAnd ld fuel env es pos)
  evalOr : ∀ s0 env es pos, FTr s0 (evalOr ld fuel env es pos)
  evalIf : ∀ s0 env cs xs els pos, FTr s0 (evalIf ld fuel env cs xs els pos)
  evalSeq : ∀ s0 env ns, FTr s0 (evalSeq ld fuel env ns)
  evalItems : ∀ s0 env ns pos, FTr s0 (evalItems ld fuel env ns pos)
  evalPairs : ∀ s0 env ks vs, FTr s0 (evalPairs ld fuel env ks vs)
  evalBody : ∀ s0 env ns last, FTr s0 (evalBody ld fuel env ns last)
  evalFinally : ∀ s0 env ns, FTr s0 (evalFinally ld fuel env ns)
  tryHandlers : ∀ s0 env cs hs v msg p t, FTr s0 (tryHandlers ld fuel env cs hs v msg p t)
  invoke : ∀ s0 fn pre names args env pos, FTr s0 (invoke ld fuel fn pre names args env pos)
  evalArgs : ∀ s0 env names args pos, FTr s0 (evalArgs ld fuel env names args pos)
  callFn : ∀ s0 fn bound env pos, FTr s0 (callFn ld fuel fn bound env pos)
  bindParams : ∀ s0 lenv ps ds bound pos, FTr s0 (bindParams ld fuel lenv ps ds bound pos)
  evalFor : ∀ s0 env ids e body what pos, FTr s0 (evalFor ld fuel env ids e body what pos)
  forItems : ∀ s0 env ids xs body r pos, FTr s0 (forItems ld fuel env ids xs body r pos)
  forListLive : ∀ s0 env ids a i body r pos, FTr s0 (forListLive ld fuel env ids a i body r pos)
  forString : ∀ s0 env x cs body r, FTr s0 (forString ld fuel env x cs body r)
  whileLoop : ∀ s0 env c body pos, FTr s0 (whileLoop ld fuel env c body pos)
  comprStep : ∀ s0 lenv kind ve ke cond pos, FTr s0 (comprStep ld fuel lenv kind ve ke cond pos)
  comprLoop : ∀ s0 lenv kind ve ke cond pos l acc, FTr s0 (comprLoop ld fuel lenv kind ve ke cond pos l acc)
  comprProduct : ∀ s0 lenv kind ve ke cond pos x1 vs x2 ws acc,
    FTr s0 (comprProduct ld fuel lenv kind ve ke cond pos x1 vs x2 ws acc)
  comprParallel : ∀ s0 lenv kind ve ke cond pos x1 vs x2 ws acc,
    FTr s0 (comprParallel ld fuel lenv kind ve ke cond pos x1 vs x2 ws acc)
  nativeSorted : ∀ s0 bound env pos, FTr s0 (nativeSorted ld fuel bound env pos)
  sortedOuter : ∀ s0 cmp key senv pos arr i, FTr s0 (sortedOuter ld fuel cmp key senv pos arr i)
  sortedInner : ∀ s0 cmp key senv pos arr v j, FTr s0 (sortedInner ld fuel cmp key senv pos arr v j)
  call1 : ∀ s0 f x env pos, FTr s0 (call1 ld fuel f x env pos)
  call2 : ∀ s0 f x y env pos, FTr s0 (call2 ld fuel f x y env pos)
  evalRequire : ∀ s0 env spec name unq syms pos, FTr s0 (evalRequire ld fuel env spec name unq syms pos)
  loadModule : ∀ s0 env ident file pos, FTr s0 (loadModule ld fuel env ident file pos)


theorem allF_zero : AllF ld 0 := by
  constructor
  all_goals (intros; simp only [eval, evalAnd, evalOr, evalIf, evalSeq, evalItems, evalPairs, evalBody, evalFinally,
        tryHandlers, invoke, evalArgs, callFn, bindParams, evalFor, forItems, forListLive, forString,
        whileLoop, comprStep, comprLoop, comprProduct, comprParallel, nativeSorted, sortedOuter,
        sortedInner, call1, call2, evalRequire, loadModule]; exact FTr.failM _)

variable {ld} {fuel : Nat}

theorem step_evalAnd (ih : AllF ld fuel) : ∀ s0 env es pos, FTr s0 (evalAnd ld (fuel+1) env es pos) := by
  have ihEval := ih.eval; have ihAnd := ih.evalAnd
  intro s0 env es pos
  cases es <;> simp only [Ckl.evalAnd] <;> ftr_auto

theorem step_evalOr (ih : AllF ld fuel) : ∀ s0 env es pos, FTr s0 (evalOr ld (fuel+1) env es pos) := by
  have ihEval := ih.eval; have ihOr := ih.evalOr
  intro s0 env es pos
  cases es <;> simp only [Ckl.evalOr] <;> ftr_auto

theorem step_evalIf (ih : AllF ld fuel) :
    ∀ s0 env cs xs els pos, FTr s0 (evalIf ld (fuel+1) env cs xs els pos) := by
  have ihEval := ih.eval; have ihIf := ih.evalIf
  intro s0 env cs xs els pos
  cases cs <;> cases xs <;> simp only [Ckl.evalIf] <;> ftr_auto

theorem step_evalSeq (ih : AllF ld fuel) : ∀ s0 env ns, FTr s0 (evalSeq ld (fuel+1) env ns) := by
  have ihEval := ih.eval; have ihSeq := ih.evalSeq
  intro s0 env ns
  cases ns <;> simp only [Ckl.evalSeq] <;> ftr_auto

theorem step_evalItems (ih : AllF ld fuel) : ∀ s0 env ns pos, FTr s0 (evalItems ld (fuel+1) env ns pos) := by
  have ihEval := ih.eval; have ihItems := ih.evalItems
  intro s0 env ns pos
  cases ns with
  | nil => simp only [Ckl.evalItems]; ftr_auto
  | cons n ns => cases n <;> simp only [Ckl.evalItems] <;> ftr_auto

theorem step_evalPairs (ih : AllF ld fuel) : ∀ s0 env ks vs, FTr s0 (evalPairs ld (fuel+1) env ks vs) := by
  have ihEval := ih.eval; have ihPairs := ih.evalPairs
  intro s0 env ks vs
  cases ks <;> cases vs <;> simp only [Ckl.evalPairs] <;> ftr_auto

theorem step_evalBody (ih : AllF ld fuel) : ∀ s0 env ns last, FTr s0 (evalBody ld (fuel+1) env ns last) := by
  have ihEval := ih.eval; have ihBody := ih.evalBody
  intro s0 env ns last
  cases ns <;> simp only [Ckl.evalBody] <;> ftr_auto

theorem step_evalFinally (ih : AllF ld fuel) : ∀ s0 env ns, FTr s0 (evalFinally ld (fuel+1) env ns) := by
  have ihEval := ih.eval; have ihFin := ih.evalFinally
  intro s0 env ns
  cases ns <;> simp only [Ckl.evalFinally] <;> ftr_auto

theorem step_tryHandlers (ih : AllF ld fuel) :
    ∀ s0 env cs hs v msg p t, FTr s0 (tryHandlers ld (fuel+1) env cs hs v msg p t) := by
  have ihEval := ih.eval; have ihTry := ih.tryHandlers
  intro s0 env cs hs v msg p t
  cases cs with
  | nil => simp only [Ckl.tryHandlers]; exact ⟨fun _ h => h⟩
  | cons c cs =>
    cases hs with
    | nil => simp only [Ckl.tryHandlers]; exact ⟨fun _ h => h⟩
    | cons h hs => cases c <;> simp only [Ckl.tryHandlers] <;> ftr_auto

theorem step_evalArgs (ih : AllF ld fuel) :
    ∀ s0 env names args pos, FTr s0 (evalArgs ld (fuel+1) env names args pos) := by
  have ihEval := ih.eval; have ihArgs := ih.evalArgs
  intro s0 env names args pos
  cases names with
  | nil => simp only [Ckl.evalArgs]; ftr_auto
  | cons n ns =>
    cases args with
    | nil => simp only [Ckl.evalArgs]; ftr_auto
    | cons a as => cases a <;> simp only [Ckl.evalArgs] <;> ftr_auto

theorem step_bindParams (ih : AllF ld fuel) :
    ∀ s0 lenv ps ds bound pos, FTr s0 (bindParams ld (fuel+1) lenv ps ds bound pos) := by
  have ihEval := ih.eval; have ihBP := ih.bindParams
  intro s0 lenv ps ds bound pos
  cases ps with
  | nil => simp only [Ckl.bindParams]; ftr_auto
  | cons p ps =>
    cases ds with
    | nil => simp only [Ckl.bindParams]; ftr_auto
    | cons d ds =>
      by_cases hd : d = Node.absent
      · subst hd; simp only [Ckl.bindParams]; ftr_auto
      · simp only [Ckl.bindParams]; ftr_auto

theorem step_evalFor (ih : AllF ld fuel) :
    ∀ s0 env ids e body what pos, FTr s0 (evalFor ld (fuel+1) env ids e body what pos) := by
  have ihEval := ih.eval; have ih1 := ih.forItems; have ih2 := ih.forListLive; have ih3 := ih.forString
  intro s0 env ids e body what pos
  simp only [Ckl.evalFor]; ftr_auto

theorem step_forItems (ih : AllF ld fuel) :
    ∀ s0 env ids xs body r pos, FTr s0 (forItems ld (fuel+1) env ids xs body r pos) := by
  have ihEval := ih.eval; have ih1 := ih.forItems
  intro s0 env ids xs body r pos
  cases xs <;> simp only [Ckl.forItems] <;> ftr_auto

theorem step_forListLive (ih : AllF ld fuel) :
    ∀ s0 env ids a i body r pos, FTr s0 (forListLive ld (fuel+1) env ids a i body r pos) := by
  have ihEval := ih.eval; have ih1 := ih.forListLive
  intro s0 env ids a i body r pos
  simp only [Ckl.forListLive]; ftr_auto

theorem step_forString (ih : AllF ld fuel) :
    ∀ s0 env x cs body r, FTr s0 (forString ld (fuel+1) env x cs body r) := by
  have ihEval := ih.eval; have ih1 := ih.forString
  intro s0 env x cs body r
  cases cs <;> simp only [Ckl.forString] <;> ftr_auto

theorem step_whileLoop (ih : AllF ld fuel) :
    ∀ s0 env c body pos, FTr s0 (whileLoop ld (fuel+1) env c body pos) := by
  have ihEval := ih.eval; have ih1 := ih.whileLoop
  intro s0 env c body pos
  simp only [Ckl.whileLoop]; ftr_auto

theorem step_comprStep (ih : AllF ld fuel) :
    ∀ s0 lenv kind ve ke cond pos, FTr s0 (comprStep ld (fuel+1) lenv kind ve ke cond pos) := by
  have ihEval := ih.eval
  intro s0 lenv kind ve ke cond pos
  by_cases hd : cond = Node.absent
  · subst hd; cases kind <;> simp only [Ckl.comprStep] <;> ftr_auto
  · cases kind <;> simp only [Ckl.comprStep] <;> ftr_auto

theorem step_comprLoop (ih : AllF ld fuel) :
    ∀ s0 lenv kind ve ke cond pos l acc, FTr s0 (comprLoop ld (fuel+1) lenv kind ve ke cond pos l acc) := by
  have ih1 := ih.comprStep; have ih2 := ih.comprLoop
  intro s0 lenv kind ve ke cond pos l acc
  match l with
  | [] => simp only [Ckl.comprLoop]; ftr_auto
  | [(x, [])] => simp only [Ckl.comprLoop]; ftr_auto
  | [(x, v :: vs)] => simp only [Ckl.comprLoop]; ftr_auto
  | _ :: _ :: _ => simp only [Ckl.comprLoop]; ftr_auto

theorem step_comprProduct (ih : AllF ld fuel) :
    ∀ s0 lenv kind ve ke cond pos x1 vs x2 ws acc,
      FTr s0 (comprProduct ld (fuel+1) lenv kind ve ke cond pos x1 vs x2 ws acc) := by
  have ih1 := ih.comprLoop; have ih2 := ih.comprProduct
  intro s0 lenv kind ve ke cond pos x1 vs x2 ws acc
  cases vs <;> simp only [Ckl.comprProduct] <;> ftr_auto

theorem step_comprParallel (ih : AllF ld fuel) :
    ∀ s0 lenv kind ve ke cond pos x1 vs x2 ws acc,
      FTr s0 (comprParallel ld (fuel+1) lenv kind ve ke cond pos x1 vs x2 ws acc) := by
  have ih1 := ih.comprStep; have ih2 := ih.comprParallel
  intro s0 lenv kind ve ke cond pos x1 vs x2 ws acc
  cases vs <;> cases ws <;> simp only [Ckl.comprParallel] <;> ftr_auto

theorem step_nativeSorted (ih : AllF ld fuel) :
    ∀ s0 bound env pos, FTr s0 (nativeSorted ld (fuel+1) bound env pos) := by
  have ih1 := ih.sortedOuter
  intro s0 bound env pos
  simp only [Ckl.nativeSorted]; ftr_auto

theorem step_sortedOuter (ih : AllF ld fuel) :
    ∀ s0 cmp key senv pos arr i, FTr s0 (sortedOuter ld (fuel+1) cmp key senv pos arr i) := by
  have ih1 := ih.sortedOuter; have ih2 := ih.sortedInner; have ih3 := ih.call1
  intro s0 cmp key senv pos arr i
  simp only [Ckl.sortedOuter]; ftr_auto

theorem step_sortedInner (ih : AllF ld fuel) :
    ∀ s0 cmp key senv pos arr v j, FTr s0 (sortedInner ld (fuel+1) cmp key senv pos arr v j) := by
  have ih2 := ih.sortedInner; have ih3 := ih.call1; have ih4 := ih.call2
  intro s0 cmp key senv pos arr v j
  cases j <;> simp only [Ckl.sortedInner] <;> ftr_auto

theorem step_call1 (ih : AllF ld fuel) : ∀ s0 f x env pos, FTr s0 (call1 ld (fuel+1) f x env pos) := by
  have ih1 := ih.callFn
  intro s0 f x env pos
  simp only [Ckl.call1]; ftr_auto

theorem step_call2 (ih : AllF ld fuel) : ∀ s0 f x y env pos, FTr s0 (call2 ld (fuel+1) f x y env pos) := by
  have ih1 := ih.callFn
  intro s0 f x y env pos
  simp only [Ckl.call2]; ftr_auto

theorem step_invoke (ih : AllF ld fuel) :
    ∀ s0 fn pre names args env pos, FTr s0 (invoke ld (fuel+1) fn pre names args env pos) := by
  have ih1 := ih.evalArgs; have ih2 := ih.callFn
  intro s0 fn pre names args env pos
  simp only [Ckl.invoke]
  ftr_auto
  all_goals exact FTr.invokeTail (ih2 _ _ _ _ _) _ _

theorem step_callFn (hN : ∀ s0 name args, FTr s0 (ld.nativeSem name args)) (ih : AllF ld fuel) :
    ∀ s0 fn bound env pos, FTr s0 (callFn ld (fuel+1) fn bound env pos) := by
  have ih1 := ih.eval; have ih2 := ih.bindParams; have ih3 := ih.nativeSorted
  intro s0 fn bound env pos
  cases fn <;> simp only [Ckl.callFn] <;> ftr_auto


theorem step_evalRequire (ih : AllF ld fuel) :
    ∀ s0 env spec name unq syms pos, FTr s0 (evalRequire ld (fuel+1) env spec name unq syms pos) := by
  have ih1 := ih.eval; have ih2 := ih.loadModule
  intro s0 env spec name unq syms pos
  by_cases h : ∃ n p, spec = Node.ident n p
  · obtain ⟨n, p, rfl⟩ := h
    simp only [Ckl.evalRequire]
    ftr_auto
    all_goals exact FTr.popTail (ih2 _ _ _ _ _)
  · have h' : ∀ n p, spec = Node.ident n p → False := fun n p e => h ⟨n, p, e⟩
    simp only [Ckl.evalRequire]
    ftr_auto
    all_goals exact FTr.popTail (ih2 _ _ _ _ _)

theorem step_loadModule (ih : AllF ld fuel) :
    ∀ s0 env ident file pos, FTr s0 (loadModule ld (fuel+1) env ident file pos) := by
  have ih1 := ih.eval
  intro s0 env ident file pos
  simp only [Ckl.loadModule]
  ftr_auto

end
end Ckl.C11B
