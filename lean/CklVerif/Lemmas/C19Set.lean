/-
  C19 — set algebra of modules/set.ckl with respect to `veq`-membership.
-/
import CklVerif.Model.Lib
import CklVerif.Proofs.C06
import CklVerif.Proofs.C07
namespace Ckl.C19
open Ckl Ckl.Lib

/-- no two elements are `veq`-equal -/
abbrev NoDupV (s : List Val) : Prop := s.Pairwise (fun a b => veq a b = false)

theorem memV_append (x : Val) (a b : List Val) : memV x (a ++ b) = (memV x a || memV x b) := by
  simp [memV, List.any_append]

theorem memV_perm {a b : List Val} (h : a.Perm b) (x : Val) : memV x a = memV x b := by
  rw [Bool.eq_iff_iff, memV_eq_true_iff, memV_eq_true_iff]
  constructor
  · rintro ⟨y, hy, e⟩; exact ⟨y, h.mem_iff.mp hy, e⟩
  · rintro ⟨y, hy, e⟩; exact ⟨y, h.mem_iff.mpr hy, e⟩

theorem memV_setAdd (x : Val) (s : List Val) (y : Val) :
    memV x (setAdd s y) = (memV x s || veq x y) := by
  unfold setAdd
  split
  · rename_i h
    cases hxy : veq x y with
    | false => simp
    | true => rw [memV_congr' hxy s, h]; rfl
  · rw [memV_append, memV_cons, memV_nil, Bool.or_false]

theorem noDupV_setAdd {s : List Val} (hs : NoDupV s) (y : Val) : NoDupV (setAdd s y) := by
  unfold setAdd
  split
  · exact hs
  · rename_i h
    have h' : memV y s = false := by simpa using h
    rw [memV_eq_false_iff] at h'
    refine List.pairwise_append.mpr ⟨hs, List.pairwise_singleton _ _, ?_⟩
    intro a ha b hb
    rw [List.mem_singleton] at hb
    subst hb
    rw [veq_symm']; exact h' a ha

theorem setAdd_sublist (s : List Val) (y : Val) : (setAdd s y).Sublist (s ++ [y]) := by
  unfold setAdd
  split
  · exact List.sublist_append_left s [y]
  · exact List.Sublist.refl _

/-- a predicate that does not distinguish `veq`-equal values -/
def RespectsV (p : Val → Bool) : Prop := ∀ x y, veq x y = true → p x = p y

theorem memV_filter_respects {p : Val → Bool} (hp : RespectsV p) (z : Val) (a : List Val) :
    memV z (a.filter p) = (memV z a && p z) := by
  induction a with
  | nil => simp [memV_nil]
  | cons x a ih =>
    rw [List.filter_cons]
    split
    · rename_i hx
      rw [memV_cons, memV_cons, ih]
      cases hzx : veq z x with
      | true => rw [hp z x hzx, hx]; simp
      | false => simp
    · rename_i hx
      rw [ih, memV_cons]
      cases hzx : veq z x with
      | true =>
        have : p z = false := by rw [hp z x hzx]; simpa using hx
        simp [this]
      | false => simp

/-- the generic loop `for x in a do if p(x) then result !> append(x)` on a set `acc` -/
theorem memV_foldl_setAdd_if (p : Val → Bool) (z : Val) (a acc : List Val) :
    memV z (a.foldl (fun acc x => if p x then setAdd acc x else acc) acc) =
      (memV z acc || memV z (a.filter p)) := by
  induction a generalizing acc with
  | nil => simp [memV_nil]
  | cons x a ih =>
    rw [List.foldl_cons, ih, List.filter_cons]
    split
    · rw [memV_setAdd, memV_cons, Bool.or_assoc]
    · rfl

theorem noDupV_foldl_setAdd_if (p : Val → Bool) (a : List Val) {acc : List Val} (h : NoDupV acc) :
    NoDupV (a.foldl (fun acc x => if p x then setAdd acc x else acc) acc) := by
  induction a generalizing acc with
  | nil => exact h
  | cons x a ih =>
    rw [List.foldl_cons]
    split
    · exact ih (noDupV_setAdd h x)
    · exact ih h

theorem foldl_setAdd_if_sublist (p : Val → Bool) (a acc : List Val) :
    (a.foldl (fun acc x => if p x then setAdd acc x else acc) acc).Sublist (acc ++ a) := by
  induction a generalizing acc with
  | nil => simp
  | cons x a ih =>
    rw [List.foldl_cons]
    split
    · refine (ih _).trans ?_
      have := (setAdd_sublist acc x).append_right a
      simpa using this
    · refine (ih acc).trans ?_
      exact List.Sublist.append_left (List.sublist_cons_self x a) acc

theorem appendAllSet_eq (s items : List Val) :
    appendAllSet s items = items.foldl (fun acc x => if (fun _ => true) x then setAdd acc x else acc) s := by
  unfold appendAllSet
  simp

theorem memV_appendAllSet (z : Val) (s items : List Val) :
    memV z (appendAllSet s items) = (memV z s || memV z items) := by
  rw [appendAllSet_eq, memV_foldl_setAdd_if]; simp

theorem noDupV_appendAllSet {s : List Val} (h : NoDupV s) (items : List Val) :
    NoDupV (appendAllSet s items) := by
  rw [appendAllSet_eq]; exact noDupV_foldl_setAdd_if _ _ h

theorem respects_memV (b : List Val) : RespectsV (fun x => memV x b) :=
  fun _ _ h => memV_congr' h b

theorem respects_not_memV (b : List Val) : RespectsV (fun x => !memV x b) :=
  fun _ _ h => by simp only [memV_congr' h b]

end Ckl.C19
