import CklVerif.Lemmas.C19SrcAppend

/-! C19Src — list.ckl `filter(lst, predicate, key = identity)` with the DEFAULT key and a built-in predicate with a pure boolean
    meaning on the elements.  New here: a parameter default that is an identifier (`identity`, resolved through the environment
    while the callee frame is being filled), a loop body that is a block with a local `def`. -/
namespace Ckl.C19Src
open Ckl Ckl.C03 Ckl.Gen.LibSrc
variable (ld : Loader)

/-- `nm` is a unary built-in (parameter `q`) that on every value satisfying `P` returns the boolean `g x` without touching the
    state -/
structure BoolOp_L3 (nm q : String) (P : RVal → Prop) (g : RVal → Bool) : Prop where
  args : nativeArgNames nm = some [q]
  nsp : ¬ ("...".toList <:+ q.toList)
  sem : ∀ (x : RVal) d pos (s : State), P x → ∃ mm, callPure nm [(q, x)] d pos = some mm ∧ mm s = .ok (.bool (g x)) s

theorem boolOp_is_null_L3 : BoolOp_L3 "is_null" "obj" (fun _ => True) RVal.isNull :=
  ⟨by rfl, by decide, fun x d pos s _ => ⟨_, pure_is_null x d pos, rfl⟩⟩

theorem boolOp_is_not_null_L3 : BoolOp_L3 "is_not_null" "obj" (fun _ => True) (fun x => !x.isNull) :=
  ⟨by rfl, by decide, fun x d pos s _ => ⟨_, rfl, rfl⟩⟩

/-- the built-in `identity(obj)` -/
theorem identity_pure_L3 (v : RVal) (d : Option RVal) (pos : Pos) (s : State) :
    ∃ m, callPure "identity" [("obj", v)] d pos = some m ∧ m s = .ok v s :=
  ⟨_, rfl, rfl⟩

/-- a value that may be stored by `def x = v` without side effect and without ending a block: not a function value made by a
    lambda (a `def` RENAMES such a value) and not a control signal -/
def Plain_L3 (v : RVal) : Prop := isCtl v = false ∧ ∀ a, v ≠ .closure a

/-! ### `fn.execute` with the defaulted third parameter -/

/-- the callee state of a three-parameter function whose third parameter is defaulted to the value `kv` -/
def calleeState3_L3 (s : State) (m : EnvId) (q1 q2 q3 : String) (v1 v2 kv : RVal) : State :=
  (((s.newEnv m).1.put s.frames.size q1 v1).put s.frames.size q2 v2).put s.frames.size q3 kv

theorem calleeState3_ext_L3 (s : State) (m : EnvId) (q1 q2 q3 : String) (v1 v2 kv : RVal) :
    Ext s (calleeState3_L3 s m q1 q2 q3 v1 v2 kv) :=
  ((((Ext.refl s).newEnv m).put (Nat.le_refl _) _ _).put (Nat.le_refl _) _ _).put (Nat.le_refl _) _ _

/-- from the body to `fn.execute` for `filter` called WITHOUT `key`: the default `identity` is looked up from the callee frame
    (through the module frame) while the parameters are bound -/
theorem calls_of_body_filter_L3 {k : Nat} {r : State → Out RVal} {Q : State → Prop} (hk : 4 ≤ k)
    {s : State} {M nats srcs fn m} (h : LibEnv s M nats srcs) (hm : M m) (hsrc : IsSrc s fn list_filter m)
    (hid : "identity" ∈ nats) (v1 v2 : RVal)
    (hb : ∀ s0 j, Ctx s0 M nats srcs s.frames.size m [("lst", v1), ("predicate", v2), ("key", .native "identity" j)] →
      Ext s s0 → s0.heap.size = s.heap.size → ∃ s', Ext s s' ∧ Ev ld k s.frames.size (lamBody list_filter) s0 (r s') ∧ Q s') :
    ∃ s', Ext s s' ∧ Q s' ∧
      ∀ env pos, Calls ld (k + 1) fn [("lst", v1), ("predicate", v2)] env pos s (postCall (r s')) := by
  obtain ⟨c, nm, rfl, hcell⟩ := hsrc
  obtain ⟨j, hres⟩ := h.nat m hm "identity" hid
  have hmlt := h.lt m hm
  -- the state after binding the two given parameters
  have hfr2 := calleeState_frame2 s hmlt "lst" "predicate" v1 v2 (by decide)
  have hst2 : calleeState s m ["lst", "predicate"] [("lst", v1), ("predicate", v2)]
      = ((s.newEnv m).1.put s.frames.size "lst" v1).put s.frames.size "predicate" v2 := by
    simp [calleeState, dictGet]
  rw [hst2] at hfr2
  have e2 : Ext s (((s.newEnv m).1.put s.frames.size "lst" v1).put s.frames.size "predicate" v2) :=
    (((Ext.refl s).newEnv m).put (Nat.le_refl _) _ _).put (Nat.le_refl _) _ _
  have hlook : (((s.newEnv m).1.put s.frames.size "lst" v1).put s.frames.size "predicate" v2).lookup s.frames.size "identity"
      = some (.native "identity" j) := lookup_global hfr2 (by rfl) (hres.ext e2)
  have hlt2 : s.frames.size < (((s.newEnv m).1.put s.frames.size "lst" v1).put s.frames.size "predicate" v2).frames.size := by
    rw [frames_size_put, frames_size_put, frames_size_newEnv]; exact Nat.lt_succ_self _
  have e3 := calleeState3_ext_L3 s m "lst" "predicate" "key" v1 v2 (.native "identity" j)
  have ctx : Ctx (calleeState3_L3 s m "lst" "predicate" "key" v1 v2 (.native "identity" j)) M nats srcs s.frames.size m
      [("lst", v1), ("predicate", v2), ("key", .native "identity" j)] := by
    refine ⟨h.ext e3, hm, ⟨?_, ?_, hmlt⟩, ?_⟩
    · unfold calleeState3_L3; rw [vars_put_same _ _ _ hlt2, hfr2.vars]; rfl
    · unfold calleeState3_L3; rw [parent_put]; exact hfr2.parent
    · unfold calleeState3_L3; rw [frames_size_put]; exact hlt2
  obtain ⟨s', e', hev, hQ⟩ := hb _ j ctx e3 rfl
  refine ⟨s', e', hQ, fun env pos => ?_⟩
  intro f hf; obtain ⟨g, rfl, hg⟩ := succ_of_lt hf
  obtain ⟨g4, rfl⟩ : ∃ g4, g = g4 + 4 := ⟨g - 4, by omega⟩
  have hbind : bindParams ld (g4 + 4) s.frames.size (lamParams list_filter) (lamDefaults list_filter)
      [("lst", v1), ("predicate", v2)] pos (s.newEnv m).1
      = .ok () (calleeState3_L3 s m "lst" "predicate" "key" v1 v2 (.native "identity" j)) := by
    unfold lamParams lamDefaults list_filter
    simp only []
    rw [bindParams]
    simp only [EvalM.bind_apply, modifyS, dictGet, if_true]
    rw [bindParams]
    simp only [EvalM.bind_apply, modifyS, dictGet, if_true, show ("predicate" = "lst") = False by decide, if_false]
    rw [bindParams]
    · simp only [dictGet, show ("key" = "lst") = False by decide,
        show ("key" = "predicate") = False by decide, if_false]
      rw [bindParams]
      · simp only [Bool.false_eq_true, if_false, EvalM.bind_apply, Ev.ident ld hlook (k := 0) (g4 + 1) (by omega), modifyS]
        rfl
      · intro _ _ _ _ h; cases h
    · intro h; cases h
  rw [C04.callFn_closure ld hcell hbind]
  rw [hev (g4 + 4) (by omega)]
  cases r s' with
  | ok v s' => cases v <;> rfl
  | err => rfl
  | fail => rfl

/-! ### the body of `filter` -/

def filterNats : List String := ["identity", "append"]

/-- the body of the `for` statement (second statement of the function's block) -/
def forBody_L3 : Node → Node
  | .block (_ :: .for _ _ b _ _ :: _) _ _ _ _ _ => b
  | _ => .absent

local notation "bp" => blockPos (lamBody list_filter)
local notation "lp" => blockPos (forBody_L3 (lamBody list_filter))

/-- the loop invariant of `filter`: before the iteration with index `i` the result cell `b` holds the filtered prefix; the frame
    holds the parameters and `result`, and after the first iteration also `element` and the local `val` -/
structure FilInv_L3 (s : State) (c m : EnvId) (a b : Nat) (pv kv : RVal) (g : RVal → Bool) (xs : List RVal) (i : Nat)
    (st : State) : Prop where
  ext : Ext s st
  cellb : st.cell b = some (.list ((xs.take i).filter g))
  hsize : st.heap.size = b + 1
  parent : (st.frame c).parent = some m
  clt : c < st.frames.size
  vars : (st.frame c).vars = [("lst", .ref a), ("predicate", pv), ("key", kv), ("result", .ref b)] ∨
    ∃ w w', (st.frame c).vars =
      [("lst", .ref a), ("predicate", pv), ("key", kv), ("result", .ref b), ("element", w), ("val", w')]

theorem filter_take_succ_L3 {α} (g : α → Bool) (xs : List α) (i : Nat) (v : α) (hv : xs[i]? = some v) :
    (xs.take (i + 1)).filter g = (xs.take i).filter g ++ (if g v then [v] else []) := by
  rw [List.take_add_one, hv]
  cases hg : g v <;> simp [List.filter_append, hg]

/-- the body of `filter` on a list cell, default key, built-in predicate -/
theorem filter_body {s s0 : State} {M nats srcs m} {a : Nat} {xs : List RVal} {nm q : String} {P : RVal → Prop}
    {g : RVal → Bool} {i j : Nat} (h : LibEnv s M nats srcs) (hm : M m) (hop : BoolOp_L3 nm q P g)
    (ctx : Ctx s0 M nats srcs s.frames.size m [("lst", .ref a), ("predicate", .native nm i), ("key", .native "identity" j)])
    (e0 : Ext s s0) (hn : ∀ x ∈ filterNats, x ∈ nats) (hc : s.cell a = some (.list xs))
    (hP : ∀ x ∈ xs, P x) (hpl : ∀ x ∈ xs, Plain_L3 x) :
    ∃ s', Ext s s' ∧ Ev ld (xs.length + 24) s.frames.size (lamBody list_filter) s0 (.ok (.ref (s'.heap.size - 1)) s') ∧
      (s.heap.size ≤ s'.heap.size - 1 ∧ s'.cell (s'.heap.size - 1) = some (.list (xs.filter g))) := by
  unfold lamBody list_filter
  simp only []
  generalize hK : xs.length + 20 = K
  have ha : a < s.heap.size := cell_lt hc
  have hcge : s.frames.size ≤ s.frames.size := Nat.le_refl _
  have ctx0 : Ctx (ghostEnter s0 bp) M nats srcs s.frames.size m
      [("lst", .ref a), ("predicate", .native nm i), ("key", .native "identity" j)] :=
    ctx.ext ((Ext.refl s0).ghostEnter _)
  have e0' : Ext s (ghostEnter s0 bp) := e0.ghostEnter _
  -- statement 1: `def result = []`
  let b := (ghostEnter s0 bp).heap.size
  let t2 := ((ghostEnter s0 bp).alloc (.list [])).1.put s.frames.size "result" (.ref b)
  have S1 : ∀ p1 info p2, Ev ld K s.frames.size (.defn "result" (.list [] p1) info p2) (ghostEnter s0 bp) (.ok (.ref b) t2) := by
    intro p1 info p2
    exact Ev.mono ld (Ev.defn ld (k := 1) (by intro a h; cases h) (Ev.listNil ld (k := 0))) (by omega)
  have hclt0 : s.frames.size < (ghostEnter s0 bp).frames.size := ctx0.clt
  have E2 : Ext s t2 := (e0'.alloc _).put hcge _ _
  have hbge : s.heap.size ≤ b := e0'.hsize
  have hvars2 : (t2.frame s.frames.size).vars =
      [("lst", .ref a), ("predicate", .native nm i), ("key", .native "identity" j), ("result", .ref b)] := by
    show ((((ghostEnter s0 bp).alloc (.list [])).1.put _ _ _).frame _).vars = _
    rw [vars_put_same ((ghostEnter s0 bp).alloc (.list [])).1 "result" (.ref b) hclt0, frame_alloc, ctx0.fr.vars]; rfl
  have inv0 : FilInv_L3 s s.frames.size m a b (.native nm i) (.native "identity" j) g xs 0 t2 := by
    refine ⟨E2, ?_, ?_, ?_, ?_, Or.inl hvars2⟩
    · show (((ghostEnter s0 bp).alloc (.list [])).1.put _ _ _).cell b = _
      rw [cell_put, cell_alloc_new]; rfl
    · show (((ghostEnter s0 bp).alloc (.list [])).1.put _ _ _).heap.size = _
      rw [heap_put, heap_size_alloc]
    · show ((((ghostEnter s0 bp).alloc (.list [])).1.put _ _ _).frame _).parent = _
      rw [parent_put, frame_alloc]; exact ctx0.fr.parent
    · show _ < (((ghostEnter s0 bp).alloc (.list [])).1.put _ _ _).frames.size
      rw [frames_size_put]; exact hclt0
  -- one iteration: the block `def val = key(element); if predicate(val) then append(result, element)`
  have hstep : ∀ p1 p2 p3 info p4 p5 p6 p7 p8 p9 p10 p11 p12 p13 bb, ∀ i' (r : RVal) st v,
      FilInv_L3 s s.frames.size m a b (.native nm i) (.native "identity" j) g xs i' st → xs[i']? = some v →
      ∃ r' s', Ev ld 12 s.frames.size
        (.block [.defn "val" (.call (.ident "key" p1) [none] [.ident "element" p2] p3) info p4,
          .ite [.call (.ident "predicate" p5) [none] [.ident "val" p6] p7]
            [.call (.ident "append" p8) [none, none] [.ident "result" p9, .ident "element" p10] p11]
            (.lit (.bool true) p12) p13] [] [] [] bb lp)
        (st.put s.frames.size "element" v) (.ok r' s') ∧
        isCtl r' = false ∧ FilInv_L3 s s.frames.size m a b (.native nm i) (.native "identity" j) g xs (i' + 1) s' := by
    intro p1 p2 p3 info p4 p5 p6 p7 p8 p9 p10 p11 p12 p13 bb i' r st v inv hv
    have hvmem : v ∈ xs := List.mem_of_getElem? hv
    obtain ⟨hvctl, hvcl⟩ := hpl v hvmem
    -- the state at the start of the block
    let u0 := ghostEnter (st.put s.frames.size "element" v) lp
    have hclt : s.frames.size < u0.frames.size := by
      show _ < (st.put s.frames.size "element" v).frames.size
      rw [frames_size_put]; exact inv.clt
    have hpar0 : (u0.frame s.frames.size).parent = some m := by
      show ((st.put s.frames.size "element" v).frame _).parent = _
      rw [parent_put]; exact inv.parent
    have hv0 : (u0.frame s.frames.size).vars = dictPut "element" v (st.frame s.frames.size).vars :=
      vars_put_same _ _ _ inv.clt
    have hfr0 := callFrame_self hpar0 (h.lt m hm)
    have hkey0 : u0.lookup s.frames.size "key" = some (.native "identity" j) := by
      refine lookup_local hfr0 ?_
      rw [hv0]; rcases inv.vars with h | ⟨w, w', h⟩ <;> rw [h] <;> rfl
    have hel0 : u0.lookup s.frames.size "element" = some v := by
      refine lookup_local hfr0 ?_
      rw [hv0]; rcases inv.vars with h | ⟨w, w', h⟩ <;> rw [h] <;> rfl
    -- `def val = key(element)`
    obtain ⟨mm, hm1, hm2⟩ := identity_pure_L3 v (div0Value u0 s.frames.size) p3 u0
    have A1 := Ev.nat1 ld (k := 0) (p := p1) (pos := p3) hkey0 (by rfl) (by decide) (by trivial)
      (Ev.ident ld (p := p2) hel0) hm1 hm2
    rw [wrapCall_ok] at A1
    let u1 := u0.put s.frames.size "val" v
    have D1 : Ev ld 4 s.frames.size (.defn "val" (.call (.ident "key" p1) [none] [.ident "element" p2] p3) info p4) u0
        (.ok v u1) := Ev.defn ld (k := 3) hvcl A1
    have eu0 : Ext s u0 := (inv.ext.put hcge _ _).ghostEnter _
    have eu1 : Ext s u1 := eu0.put hcge _ _
    have hvars1 : (u1.frame s.frames.size).vars = [("lst", .ref a), ("predicate", .native nm i),
        ("key", .native "identity" j), ("result", .ref b), ("element", v), ("val", v)] := by
      show ((u0.put s.frames.size "val" v).frame _).vars = _
      rw [vars_put_same _ _ _ hclt, hv0]
      rcases inv.vars with h | ⟨w, w', h⟩ <;> rw [h] <;> rfl
    have hpar1 : (u1.frame s.frames.size).parent = some m := by
      show ((u0.put s.frames.size "val" v).frame _).parent = _
      rw [parent_put]; exact hpar0
    have hclt1 : s.frames.size < u1.frames.size := by
      show _ < (u0.put s.frames.size "val" v).frames.size
      rw [frames_size_put]; exact hclt
    have cu : Ctx u1 M nats srcs s.frames.size m [("lst", .ref a), ("predicate", .native nm i),
        ("key", .native "identity" j), ("result", .ref b), ("element", v), ("val", v)] :=
      Ctx.ofExt h hm eu1 hvars1 hpar1 hclt1
    have hcb1 : u1.cell b = some (.list ((xs.take i').filter g)) := inv.cellb
    have hsz1 : u1.heap.size = b + 1 := inv.hsize
    -- `predicate(val)`
    obtain ⟨mp, hp1, hp2⟩ := hop.sem v (div0Value u1 s.frames.size) p7 u1 (hP v hvmem)
    have A2 := Ev.nat1 ld (k := 0) (p := p5) (pos := p7) (cu.var (x := "predicate") (by rfl)) hop.args
      (by intro p hp; simp at hp; subst hp; exact hop.nsp) (by trivial)
      (Ev.ident ld (p := p6) (cu.var (x := "val") (by rfl))) hp1 hp2
    rw [wrapCall_ok] at A2
    have htake := filter_take_succ_L3 g xs i' v hv
    cases hg : g v with
    | true =>
      rw [hg] at A2 htake
      -- `append(result, element)`
      obtain ⟨ja, hlk⟩ := cu.nat (x := "append") (hn _ (by decide)) (by rfl)
      obtain ⟨ma, ha1, ha2⟩ := append_list b _ v (div0Value u1 s.frames.size) p11 _ hcb1
      have A3 := Ev.nat2 ld (k := 0) (p := p8) (pos := p11) hlk (by rfl) (by decide) (by decide) (by trivial) (by trivial)
        (Ev.ident ld (p := p9) (cu.var (x := "result") (by rfl)))
        (Ev.ident ld (p := p10) (cu.var (x := "element") (by rfl))) ha1 ha2
      rw [wrapCall_ok] at A3
      have I1 := Ev.ite ld (pos := p13) (EvIf.true ld (cs := []) (xs := []) (els := .lit (.bool true) p12)
        (Ev.mono ld A2 (show 3 ≤ 4 by decide)) A3)
      have hblt : b < u1.heap.size := by rw [hsz1]; exact Nat.lt_succ_self _
      refine ⟨_, _, Ev.mono ld (Ev.block ld (b := bb) (pos := lp)
        (EvBody.cons ld (Ev.mono ld D1 (show 4 ≤ 7 by decide)) hvctl
          (EvBody.cons ld I1 rfl (EvBody.nil ld)))) (by decide), rfl, ?_⟩
      refine ⟨(eu1.setCell hbge _).ghostFin _, ?_, ?_, ?_, ?_, Or.inr ⟨v, v, ?_⟩⟩
      · show (u1.setCell b _).cell b = _
        rw [cell_setCell_same _ _ hblt, htake]; simp
      · show (u1.setCell b _).heap.size = _
        rw [heap_size_setCell]; exact hsz1
      · exact hpar1
      · exact hclt1
      · exact hvars1
    | false =>
      rw [hg] at A2 htake
      have I1 := Ev.ite ld (pos := p13) (EvIf.false ld (x := .call (.ident "append" p8) [none, none]
          [.ident "result" p9, .ident "element" p10] p11) (xs := [])
        A2 (EvIf.else ld (pos := p13) (Ev.mono ld (Ev.litBool ld (k := 0) (p := p12) (b := true)) (show 0 ≤ 2 by decide))))
      refine ⟨_, _, Ev.mono ld (Ev.block ld (b := bb) (pos := lp)
        (EvBody.cons ld (Ev.mono ld D1 (show 4 ≤ 6 by decide)) hvctl
          (EvBody.cons ld (Ev.mono ld I1 (show 5 ≤ 5 by decide)) rfl (EvBody.nil ld)))) (by decide), rfl, ?_⟩
      refine ⟨eu1.ghostFin _, ?_, hsz1, hpar1, hclt1, Or.inr ⟨v, v, hvars1⟩⟩
      show u1.cell b = _
      rw [hcb1, htake]; simp
  have hcellI : ∀ i' (r : RVal) st, FilInv_L3 s s.frames.size m a b (.native nm i) (.native "identity" j) g xs i' st →
      st.cell a = some (.list xs) := by
    intro i' r st inv; rw [inv.ext.cell a ha]; exact hc
  -- statement 2: the loop
  have S2 : ∀ p0 p1 p2 p3 info p4 p5 p6 p7 p8 p9 p10 p11 p12 p13 bb what p14, ∃ r t3, Ev ld K s.frames.size
      (.for ["element"] (.ident "lst" p0)
        (.block [.defn "val" (.call (.ident "key" p1) [none] [.ident "element" p2] p3) info p4,
          .ite [.call (.ident "predicate" p5) [none] [.ident "val" p6] p7]
            [.call (.ident "append" p8) [none, none] [.ident "result" p9, .ident "element" p10] p11]
            (.lit (.bool true) p12) p13] [] [] [] bb lp) what p14) t2 (.ok r t3) ∧ isCtl r = false ∧
        Ext s t3 ∧ t3.cell b = some (.list (xs.filter g)) ∧ t3.heap.size = b + 1 ∧
        ∃ vars, CallFrame t3 s.frames.size m vars ∧ dictGet "result" vars = some (.ref b) := by
    intro p0 p1 p2 p3 info p4 p5 p6 p7 p8 p9 p10 p11 p12 p13 bb what p14
    obtain ⟨r, st, ⟨hctl, inv⟩, hloop⟩ := forListLive_inv ld (kb := 12) (env := s.frames.size) (x := "element") (a := a)
      (pos := p14) xs
      (fun i' r st => isCtl r = false ∧ FilInv_L3 s s.frames.size m a b (.native nm i) (.native "identity" j) g xs i' st)
      (fun i' r st hI => hcellI i' r st hI.2)
      (fun i' r st v hI hv => by
        obtain ⟨r', s', h1, h2, h3⟩ := hstep p1 p2 p3 info p4 p5 p6 p7 p8 p9 p10 p11 p12 p13 bb i' r st v hI.2 hv
        exact ⟨r', s', h1, h2, h2, h3⟩)
      xs.length 0 (.bool true) t2 (by omega) ⟨rfl, inv0⟩
    have hF := Ev.forList ld (k := 0) (kl := 12 + xs.length + 1) (what := what) (x := "element") (pos := p14)
      (by rw [hvars2]; rfl)
      (Ev.ident ld (p := p0) (lookup_local (x := "lst") (callFrame_self inv0.parent (h.lt m hm)) (by rw [hvars2]; rfl)))
      (hcellI 0 (.bool true) t2 inv0) hloop (hcellI _ r st inv)
    refine ⟨r, _, Ev.mono ld hF (show max 0 (12 + xs.length + 1) + 2 ≤ K by omega), hctl, ?_⟩
    have hcb : st.cell b = some (.list (xs.filter g)) := by
      have := inv.cellb; rwa [List.take_length] at this
    cases hxs : xs.isEmpty with
    | true =>
      simp only [if_true]
      refine ⟨inv.ext, hcb, inv.hsize, (st.frame s.frames.size).vars, callFrame_self inv.parent (h.lt m hm), ?_⟩
      rcases inv.vars with h | ⟨w, w', h⟩ <;> rw [h] <;> rfl
    | false =>
      simp only [Bool.false_eq_true, if_false]
      refine ⟨inv.ext.remove hcge _, by rw [cell_remove]; exact hcb, inv.hsize,
        ((st.remove s.frames.size "element").frame s.frames.size).vars,
        callFrame_self (by rw [frame_remove_same _ _ inv.clt]; exact inv.parent) (h.lt m hm), ?_⟩
      rw [frame_remove_same _ _ inv.clt]
      rcases inv.vars with h | ⟨w, w', h⟩ <;> rw [h] <;> rfl
  -- the block
  obtain ⟨r3, t3, hS2, hctl3, E3, hcb3, hsz3, vars3, hfr3, hres3⟩ := S2 _ _ _ _ _ _ _ _ _ _ _ _ _ _ _ _ _ _
  have S3 : ∀ p, Ev ld K s.frames.size (.ident "result" p) t3 (.ok (.ref b) t3) :=
    fun p => Ev.ident ld (lookup_local hfr3 hres3)
  have hb1 : b = (ghostFin t3 bp).heap.size - 1 := by
    show b = t3.heap.size - 1; rw [hsz3]; rfl
  refine ⟨ghostFin t3 bp, E3.ghostFin _, ?_, ?_, ?_⟩
  · rw [← hb1]
    exact Ev.mono ld (k := K + 2 + 1 + 1) (Ev.block ld (b := false) (pos := bp)
      (EvBody.cons ld (Ev.mono ld (S1 _ _ _) (show K ≤ K + 2 by omega)) rfl
        (EvBody.cons ld (Ev.mono ld hS2 (show K ≤ K + 1 by omega)) hctl3
          (EvBody.cons ld (S3 _) rfl (EvBody.nil ld))))) (by omega)
  · rw [← hb1]; exact hbge
  · rw [← hb1]; exact hcb3

/-- `fn.execute(lst = a list cell, predicate = a built-in with boolean meaning `g`)` of the function made from the source of
    `filter`, `key` NOT passed: a reference to a FRESH cell holding `xs.filter g` -/
theorem filter_calls_default {s : State} {M nats srcs fn m} (h : LibEnv s M nats srcs) (hn : ∀ x ∈ filterNats, x ∈ nats)
    (hm : M m) (hsrc : IsSrc s fn list_filter m) {nm q : String} {P : RVal → Prop} {g : RVal → Bool}
    (hop : BoolOp_L3 nm q P g) (i : Nat) (a : Nat) (xs : List RVal)
    (hc : s.cell a = some (.list xs)) (hP : ∀ x ∈ xs, P x) (hpl : ∀ x ∈ xs, Plain_L3 x) :
    ∃ s', Ext s s' ∧ (s.heap.size ≤ s'.heap.size - 1 ∧ s'.cell (s'.heap.size - 1) = some (.list (xs.filter g))) ∧
      ∀ env pos, Calls ld (xs.length + 25) fn [("lst", .ref a), ("predicate", .native nm i)] env pos s
        (.ok (.ref (s'.heap.size - 1)) s') :=
  calls_of_body_filter_L3 ld (r := fun s' => .ok (.ref (s'.heap.size - 1)) s') (by omega) h hm hsrc
    (hn _ (by decide)) (.ref a) (.native nm i)
    (fun _ _ ctx e0 _ => filter_body ld h hm hop ctx e0 hn hc hP hpl)

theorem filterM_eq_L3 {α} (g : α → Bool) (xs : List α) : Lib.filterM g id xs = xs.filter g := by
  unfold Lib.filterM
  suffices ∀ acc, xs.foldl (fun acc x => if g (id x) then acc ++ [x] else acc) acc = acc ++ xs.filter g by
    simpa using this []
  induction xs with
  | nil => intro acc; simp
  | cons x xs ih =>
    intro acc
    rw [List.foldl_cons, ih]
    cases hg : g x <;> simp [hg]

end Ckl.C19Src
