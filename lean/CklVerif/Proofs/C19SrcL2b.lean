import CklVerif.Proofs.C19SrcL2
import CklVerif.Lemmas.C19SrcPairsL2
import CklVerif.Lemmas.C19SrcChunksStrL2

/-!
  C19Src (worker L2, continuation) — property theorems about the SOURCE of core.ckl `pairs` (`Gen/LibSrc.lean`: `core_pairs`).
-/
namespace Ckl.C19Src
open Ckl Ckl.Lib Ckl.Gen.LibSrc
variable (ld : Loader)

/-! ## L2.4  core.ckl `pairs` — a `for` over the fresh cell of `range(…)`, a two-element list literal per iteration -/

/-- **The source of `pairs` on a list cell** (ANY length; for length 0 and 1 `range` of a non-positive number is empty and the result
    is a fresh empty list).  `lst` a cell `a` holding `xs`: the value is a reference to a FRESH cell `b` (`s.heap.size ≤ b`) holding
    references to cells `cs` that are all FRESH, pairwise different, different from `b` and from the argument cell `a`, and whose
    contents are, in order, `[xs[i], xs[i+1]]` for `i = 0 … length - 2` (`pairsL_L2 xs = (xs.zip xs.tail).map fun p => [p.1, p.2]`);
    the argument cell still holds `xs`, nothing that existed is changed (`Ext`).  No hypothesis on the elements (control signals
    stored in the list are just copied).  Fuel bound `xs.length + 20`.  Needs the built-ins `pairsNats`, no library function. -/
theorem pairs_src_list {s : State} {M nats srcs fn m} (h : LibEnv s M nats srcs) (hn : ∀ x ∈ pairsNats, x ∈ nats)
    (hm : M m) (hsrc : IsSrc s fn core_pairs m) (a : Nat) (xs : List RVal) (hc : s.cell a = some (.list xs)) :
    ∃ (s' : State) (b : Nat) (cs : List Nat), Ext s s' ∧ s.heap.size ≤ b ∧ b ≠ a ∧ s'.cell b = some (.list (cs.map .ref)) ∧
      (∀ ci ∈ cs, s.heap.size ≤ ci ∧ ci ≠ b ∧ ci ≠ a) ∧ cs.Nodup ∧
      cs.map s'.cell = (pairsL_L2 xs).map (fun ch => some (.list ch)) ∧
      s'.cell a = some (.list xs) ∧
      ∀ fuel env pos, xs.length + 20 < fuel → callFn ld fuel fn [("lst", .ref a)] env pos s = .ok (.ref b) s' := by
  obtain ⟨s', cs, e, res, c⟩ := pairs_calls_list ld h hn hm hsrc a xs hc
  have ha : a < s.heap.size := cell_lt hc
  refine ⟨s', s.heap.size, cs, e, Nat.le_refl _, by omega, res.cellb, ?_, res.nodup, res.cells,
    by rw [e.cell a ha]; exact hc, fun fuel env pos hf => c env pos fuel hf⟩
  intro ci hci
  obtain ⟨h1, h2⟩ := res.fresh ci hci
  exact ⟨h1, h2, by omega⟩

/-- the number of pairs, and each pair -/
theorem pairs_src_contents (xs : List RVal) :
    (pairsL_L2 xs).length = xs.length - 1 ∧
    ∀ i x y, xs[i]? = some x → xs[i + 1]? = some y → (pairsL_L2 xs)[i]? = some [x, y] :=
  ⟨pairsL_length_L2 xs, fun i x y => pairsL_getElem_L2 xs i x y⟩

/-- the hand-written mirror `Lib.pairsM` (on data values `Val`) has the same shape: `zip` with the tail -/
theorem pairsM_eq_zip_L2 (vs : List Val) : pairsM vs = (vs.zip vs.tail).map (fun p => Val.list [p.1, p.2]) := by
  induction vs with
  | nil => rfl
  | cons x t ih =>
    cases t with
    | nil => rfl
    | cons y r => simp only [pairsM, List.tail_cons, List.zip_cons_cons, List.map_cons] at ih ⊢; rw [ih]

/-! ## L2.5  the hypotheses are satisfiable -/

def defsB_L2 : List Node := [core_pairs]

example (secure : Bool) : ∃ (s : State) (f : RVal) (a : Nat),
    LibEnv s (· = 1) pairsNats (defsB_L2.map (fun d => (defName d, d))) ∧
    IsSrc s f core_pairs 1 ∧ s.cell a = some (.list [.int 1, .int 2, .int 3]) := by
  obtain ⟨v, s1, _, hlib, _⟩ := load_defs_establishes_libEnv default defsB_L2
    (by intro d hd; simp only [defsB_L2, List.mem_cons, List.not_mem_nil, or_false] at hd
        subst hd; exact ⟨_, _, _, _, _, _, _, rfl⟩)
    (by show ["pairs"].Nodup; decide) pairsNats (by show ∀ x ∈ "NULL" :: pairsNats, x ∉ ["pairs"]; decide)
    (initialState secure pairsNats).1 1 (by rw [initialState_frames_size]; exact Nat.lt_succ_self 1)
    (initialState_null secure pairsNats (by decide)) (fun x hx => initialState_nat secure pairsNats hx) .null
  obtain ⟨f, m', _, h2, h3⟩ := hlib.src 1 rfl (defName core_pairs, core_pairs) (by simp [defsB_L2])
  subst h2
  have e : Ext s1 (s1.alloc (.list [.int 1, .int 2, .int 3])).1 := (Ext.refl s1).alloc _
  exact ⟨_, f, s1.heap.size, hlib.ext e, h3.ext e, cell_alloc_new _ _⟩

example : pairsL_L2 [.int 1, .int 2, .int 3] = [[.int 1, .int 2], [.int 2, .int 3]] := rfl
example : pairsL_L2 [.int 1] = [] ∧ pairsL_L2 [] = [] := ⟨rfl, rfl⟩

/-! ## L2.6  core.ckl `chunks` on a STRING (the `is_string` branch) -/

/-- **The source of `chunks` on a string, `chunk_size > 0`**: `obj = .str cs`: the value is a reference to a FRESH cell `b`
    (`s.heap.size ≤ b`) holding the list of strings `chunksGo k cs` (`cs.take k`, then the chunks of `cs.drop k`, …, the last one the
    rest, also when it is empty); nothing that existed is changed (`Ext`).  Fuel bound `2 * cs.length + 25`.
    Needs the built-ins `chunksStrNats` and the library functions `is_list`, `is_string`. -/
theorem chunks_src_string {s : State} {M nats srcs fn m} (h : LibEnv s M nats srcs) (hn : ∀ x ∈ chunksStrNats, x ∈ nats)
    (hs : ∀ p ∈ chunksStrSrcs, p ∈ srcs) (hm : M m) (hsrc : IsSrc s fn core_chunks m) (cs : List Char) (k : Int)
    (hk : 0 < k) :
    ∃ (s' : State) (b : Nat), Ext s s' ∧ s.heap.size ≤ b ∧
      s'.cell b = some (.list ((chunksGo k.toNat cs).map .str)) ∧
      ∀ fuel env pos, 2 * cs.length + 25 < fuel →
        callFn ld fuel fn [("obj", .str cs), ("chunk_size", .int k)] env pos s = .ok (.ref b) s' := by
  obtain ⟨s', e, hc, c⟩ := chunks_calls_string ld h hn hs hm hsrc cs k hk
  exact ⟨s', s.heap.size, e, Nat.le_refl _, hc, fun fuel env pos hf => c env pos fuel hf⟩

/-- … stated with the hand-written mirror `Lib.chunksM` (on the characters) -/
theorem chunks_src_string_eq_mirror {s : State} {M nats srcs fn m} (h : LibEnv s M nats srcs)
    (hn : ∀ x ∈ chunksStrNats, x ∈ nats) (hs : ∀ p ∈ chunksStrSrcs, p ∈ srcs) (hm : M m) (hsrc : IsSrc s fn core_chunks m)
    (cs : List Char) (k : Int) (chs : List (List Char)) (hchs : chunksM cs k = some chs) :
    ∃ (s' : State) (b : Nat), Ext s s' ∧ s.heap.size ≤ b ∧ s'.cell b = some (.list (chs.map .str)) ∧
      ∀ fuel env pos, 2 * cs.length + 25 < fuel →
        callFn ld fuel fn [("obj", .str cs), ("chunk_size", .int k)] env pos s = .ok (.ref b) s' := by
  unfold chunksM at hchs
  by_cases hk : k ≤ 0
  · rw [if_pos hk] at hchs; cases hchs
  · rw [if_neg hk] at hchs; cases hchs
    exact chunks_src_string ld h hn hs hm hsrc cs k (by omega)

/-- a state satisfying the hypotheses of `chunks_src_string` -/
def defsC_L2 : List Node := [type_is_list, type_is_string, core_chunks]

example (secure : Bool) : ∃ (s : State) (f : RVal),
    LibEnv s (· = 1) chunksStrNats (defsC_L2.map (fun d => (defName d, d))) ∧ IsSrc s f core_chunks 1 := by
  obtain ⟨v, s1, _, hlib, _⟩ := load_defs_establishes_libEnv default defsC_L2
    (by intro d hd; simp only [defsC_L2, List.mem_cons, List.not_mem_nil, or_false] at hd
        rcases hd with rfl | rfl | rfl <;> exact ⟨_, _, _, _, _, _, _, rfl⟩)
    (by show ["is_list", "is_string", "chunks"].Nodup; decide) chunksStrNats
    (by show ∀ x ∈ "NULL" :: chunksStrNats, x ∉ ["is_list", "is_string", "chunks"]; decide)
    (initialState secure chunksStrNats).1 1 (by rw [initialState_frames_size]; exact Nat.lt_succ_self 1)
    (initialState_null secure chunksStrNats (by decide)) (fun x hx => initialState_nat secure chunksStrNats hx) .null
  obtain ⟨f, m', _, h2, h3⟩ := hlib.src 1 rfl (defName core_chunks, core_chunks) (by simp [defsC_L2])
  subst h2
  exact ⟨s1, f, hlib, h3⟩

example : ∀ p ∈ chunksStrSrcs, p ∈ defsC_L2.map (fun d => (defName d, d)) := by
  intro p hp
  simp only [chunksStrSrcs, List.mem_cons, List.not_mem_nil, or_false] at hp
  rcases hp with rfl | rfl
  · exact List.mem_map.2 ⟨type_is_list, by simp [defsC_L2], rfl⟩
  · exact List.mem_map.2 ⟨type_is_string, by simp [defsC_L2], rfl⟩

example : chunksGo 3 "abcdefgh".toList = ["abc".toList, "def".toList, "gh".toList] := by
  simp [chunksGo]

end Ckl.C19Src
