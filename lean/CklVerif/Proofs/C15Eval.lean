/-
  C15Eval — property C15 at the level of the EVALUATOR: how programs reach the sequence model `Ckl.Seq`
  (`Proofs/C15.lean` proves the textbook meaning of the `Seq.*` functions; this file proves that the program
  constructs compute exactly these functions).

  Vocabulary
  * `Ev ld k env n s r` (Lemmas/C19SrcBase): `eval ld f env n s = r` for EVERY fuel `f > k` — the fuel bound is
    explicit, and `r` is an exact outcome (`.ok v s'` / `.err 'ERROR' msg pos trace s'`), never out-of-fuel.
  * `ERR` = the string value 'ERROR' carried by the interpreter's own runtime errors.
  * `derefOut wrap xs pos i s` = the element `xs[i]` of the model (`Seq.deref`) as an outcome in state `s`, or the
    runtime error 'ERROR' "Index out of bounds" at `pos`.
  * `C15.adj n i = if i < 0 then i + n else i`, `C15.sliceLo n a = max 0 (adj n a)`,
    `C15.sliceHi n b = min n (max 0 (adj n (b.getD n)))` — the clamped bounds of C15.
  * `FrameConst ld k env n v s`: node `n` evaluates to `v` without touching the state in every state that has the
    frames of `s` (identifiers, literals).
  Sub-nodes are threaded in the evaluator's own order: `s[i]` evaluates the INDEX first, then the operand;
  `s[a to b]` evaluates operand, start, stop.
-/
import CklVerif.Lemmas.C15EvalCall
import CklVerif.Model.Front
import CklVerif.Driver.EvalCmd
set_option linter.unusedSimpArgs false
namespace Ckl.C15Eval
open Ckl Ckl.C19Src Ckl.C15

variable (ld : Loader)

/-! ## 1. The indexing node `s[i]` -/

section index
variable {k : Nat} {env : EnvId} {e idxN : Node} {pos : Pos} {s s1 s2 : State}

/-- `derefOut` in range: the element at `adj len i` (negative `i` counts from the end), and it exists -/
theorem derefOut_in_range {α} (wrap : α → RVal) (xs : List α) (pos : Pos) (i : Int) (s : State)
    (h : -(xs.length : Int) ≤ i ∧ i < xs.length) :
    ∃ c, xs[(adj xs.length i).toNat]? = some c ∧ derefOut wrap xs pos i s = .ok (wrap c) s := by
  have hs := (deref_isSome_iff xs i).mpr h
  obtain ⟨c, hc⟩ := Option.isSome_iff_exists.mp hs
  refine ⟨c, ?_, by simp only [derefOut, hc]⟩
  rw [← hc]
  unfold adj
  by_cases hi : i < 0
  · rw [if_pos hi]; exact ((deref_neg xs i h.1 hi).1).symm
  · rw [if_neg hi]; exact ((deref_nonneg xs i (by omega) h.2).1).symm

/-- `derefOut` out of range: EXACTLY the runtime error 'ERROR' "Index out of bounds" at the node's position -/
theorem derefOut_out_of_range {α} (wrap : α → RVal) (xs : List α) (pos : Pos) (i : Int) (s : State)
    (h : i < -(xs.length : Int) ∨ (xs.length : Int) ≤ i) :
    derefOut wrap xs pos i s = .err ERR "Index out of bounds" pos [] s := by
  simp only [derefOut, deref_out_of_range xs i (by omega)]

/-- **string indexing, any index value**: the index goes through `getIndex`, then `Seq.deref` -/
theorem index_str_gen {idx : RVal} {cs : List Char}
    (hi : Ev ld k env idxN s (.ok idx s1)) (he : Ev ld k env e s1 (.ok (.str cs) s2)) :
    Ev ld (k + 1) env (.deref e idxN .absent pos) s
      (Out.andThen (getIndex idx pos s2) (derefOut (fun c => .str [c]) cs pos)) := by
  intro f hf; obtain ⟨g, rfl, hg⟩ := succ_of_lt hf
  exact eval_deref_str ld (hi g (by omega)) (he g (by omega))

/-- **list indexing, any index value** -/
theorem index_list_gen {idx : RVal} {a : Nat} {xs : List RVal}
    (hi : Ev ld k env idxN s (.ok idx s1)) (he : Ev ld k env e s1 (.ok (.ref a) s2))
    (hc : s2.cell a = some (.list xs)) :
    Ev ld (k + 1) env (.deref e idxN .absent pos) s
      (Out.andThen (getIndex idx pos s2) (derefOut id xs pos)) := by
  intro f hf; obtain ⟨g, rfl, hg⟩ := succ_of_lt hf
  exact eval_deref_list ld (hi g (by omega)) (he g (by omega)) hc

/-- **`s[i]` on a string, int index**: the outcome is `Seq.deref` of the model -/
theorem index_str {i : Int} {cs : List Char}
    (hi : Ev ld k env idxN s (.ok (.int i) s1)) (he : Ev ld k env e s1 (.ok (.str cs) s2)) :
    Ev ld (k + 1) env (.deref e idxN .absent pos) s (derefOut (fun c => .str [c]) cs pos i s2) :=
  index_str_gen ld hi he

/-- in range (`-len ≤ i < len`): the one-character string at `i`, negative `i` counting from the end; the state is
    the one the sub-nodes left -/
theorem index_str_in_range {i : Int} {cs : List Char}
    (hi : Ev ld k env idxN s (.ok (.int i) s1)) (he : Ev ld k env e s1 (.ok (.str cs) s2))
    (hr : -(cs.length : Int) ≤ i ∧ i < cs.length) :
    ∃ c, cs[(adj cs.length i).toNat]? = some c ∧
      Ev ld (k + 1) env (.deref e idxN .absent pos) s (.ok (.str [c]) s2) := by
  obtain ⟨c, h1, h2⟩ := derefOut_in_range (fun c => RVal.str [c]) cs pos i s2 hr
  exact ⟨c, h1, h2 ▸ index_str ld hi he⟩

/-- out of range: exactly the runtime error 'ERROR', message "Index out of bounds", position of the node, empty trace -/
theorem index_str_out_of_range {i : Int} {cs : List Char}
    (hi : Ev ld k env idxN s (.ok (.int i) s1)) (he : Ev ld k env e s1 (.ok (.str cs) s2))
    (hr : i < -(cs.length : Int) ∨ (cs.length : Int) ≤ i) :
    Ev ld (k + 1) env (.deref e idxN .absent pos) s (.err ERR "Index out of bounds" pos [] s2) :=
  derefOut_out_of_range (fun c => RVal.str [c]) cs pos i s2 hr ▸ index_str ld hi he

/-- **`l[i]` on a list cell, int index** -/
theorem index_list {i : Int} {a : Nat} {xs : List RVal}
    (hi : Ev ld k env idxN s (.ok (.int i) s1)) (he : Ev ld k env e s1 (.ok (.ref a) s2))
    (hc : s2.cell a = some (.list xs)) :
    Ev ld (k + 1) env (.deref e idxN .absent pos) s (derefOut id xs pos i s2) :=
  index_list_gen ld hi he hc

theorem index_list_in_range {i : Int} {a : Nat} {xs : List RVal}
    (hi : Ev ld k env idxN s (.ok (.int i) s1)) (he : Ev ld k env e s1 (.ok (.ref a) s2))
    (hc : s2.cell a = some (.list xs)) (hr : -(xs.length : Int) ≤ i ∧ i < xs.length) :
    ∃ x, xs[(adj xs.length i).toNat]? = some x ∧
      Ev ld (k + 1) env (.deref e idxN .absent pos) s (.ok x s2) := by
  obtain ⟨c, h1, h2⟩ := derefOut_in_range (id : RVal → RVal) xs pos i s2 hr
  exact ⟨c, h1, h2 ▸ index_list ld hi he hc⟩

theorem index_list_out_of_range {i : Int} {a : Nat} {xs : List RVal}
    (hi : Ev ld k env idxN s (.ok (.int i) s1)) (he : Ev ld k env e s1 (.ok (.ref a) s2))
    (hc : s2.cell a = some (.list xs)) (hr : i < -(xs.length : Int) ∨ (xs.length : Int) ≤ i) :
    Ev ld (k + 1) env (.deref e idxN .absent pos) s (.err ERR "Index out of bounds" pos [] s2) :=
  derefOut_out_of_range (id : RVal → RVal) xs pos i s2 hr ▸ index_list ld hi he hc

/-- the form asked for: operand and index are identifiers bound to the values; every fuel `≥ 2` -/
theorem index_str_idents {x y : String} {p1 p2 : Pos} {i : Int} {cs : List Char}
    (hx : s.lookup env x = some (.str cs)) (hy : s.lookup env y = some (.int i)) :
    ∀ f, 2 ≤ f → eval ld f env (.deref (.ident x p1) (.ident y p2) .absent pos) s =
      derefOut (fun c => .str [c]) cs pos i s :=
  fun f hf => index_str ld (k := 0) (Ev.ident ld hy) (Ev.ident ld hx) f (by omega)

theorem index_list_idents {x y : String} {p1 p2 : Pos} {i : Int} {a : Nat} {xs : List RVal}
    (hx : s.lookup env x = some (.ref a)) (hc : s.cell a = some (.list xs))
    (hy : s.lookup env y = some (.int i)) :
    ∀ f, 2 ≤ f → eval ld f env (.deref (.ident x p1) (.ident y p2) .absent pos) s = derefOut id xs pos i s :=
  fun f hf => index_list ld (k := 0) (Ev.ident ld hy) (Ev.ident ld hx) hc f (by omega)

/-! non-int index values: what `getIndex` does -/

/-- a boolean index counts as 0 / 1 (`int(True) = 1`) -/
theorem index_str_bool {b : Bool} {cs : List Char}
    (hi : Ev ld k env idxN s (.ok (.bool b) s1)) (he : Ev ld k env e s1 (.ok (.str cs) s2)) :
    Ev ld (k + 1) env (.deref e idxN .absent pos) s
      (derefOut (fun c => .str [c]) cs pos (if b then 1 else 0) s2) :=
  index_str_gen ld hi he

/-- a decimal index `m / 2^e` is truncated towards zero (`int(float)`) -/
theorem index_str_dec {m : Int} {ex : Nat} {cs : List Char}
    (hi : Ev ld k env idxN s (.ok (.dec m ex) s1)) (he : Ev ld k env e s1 (.ok (.str cs) s2)) :
    Ev ld (k + 1) env (.deref e idxN .absent pos) s
      (derefOut (fun c => .str [c]) cs pos (Int.tdiv m ((2 : Int) ^ ex)) s2) :=
  index_str_gen ld hi he

theorem index_list_bool {b : Bool} {a : Nat} {xs : List RVal}
    (hi : Ev ld k env idxN s (.ok (.bool b) s1)) (he : Ev ld k env e s1 (.ok (.ref a) s2))
    (hc : s2.cell a = some (.list xs)) :
    Ev ld (k + 1) env (.deref e idxN .absent pos) s (derefOut id xs pos (if b then 1 else 0) s2) :=
  index_list_gen ld hi he hc

theorem index_list_dec {m : Int} {ex : Nat} {a : Nat} {xs : List RVal}
    (hi : Ev ld k env idxN s (.ok (.dec m ex) s1)) (he : Ev ld k env e s1 (.ok (.ref a) s2))
    (hc : s2.cell a = some (.list xs)) :
    Ev ld (k + 1) env (.deref e idxN .absent pos) s (derefOut id xs pos (Int.tdiv m ((2 : Int) ^ ex)) s2) :=
  index_list_gen ld hi he hc

/-- NULL, date, list, set, map, object, function … as an index (`BadIndex`): the runtime error
    "Invalid index <type>" at the node's position -/
theorem index_str_bad {idx : RVal} {cs : List Char} (hb : BadIndex idx)
    (hi : Ev ld k env idxN s (.ok idx s1)) (he : Ev ld k env e s1 (.ok (.str cs) s2)) :
    Ev ld (k + 1) env (.deref e idxN .absent pos) s
      (.err ERR ("Invalid index " ++ typeName s2 idx) pos [] s2) := by
  have := index_str_gen ld (pos := pos) hi he
  rwa [getIndex_bad hb] at this

theorem index_list_bad {idx : RVal} {a : Nat} {xs : List RVal} (hb : BadIndex idx)
    (hi : Ev ld k env idxN s (.ok idx s1)) (he : Ev ld k env e s1 (.ok (.ref a) s2))
    (hc : s2.cell a = some (.list xs)) :
    Ev ld (k + 1) env (.deref e idxN .absent pos) s
      (.err ERR ("Invalid index " ++ typeName s2 idx) pos [] s2) := by
  have := index_list_gen ld (pos := pos) hi he hc
  rwa [getIndex_bad hb] at this

/-- MODEL LIMIT, stated so that no theorem above is read as covering it: for a STRING (or pattern) used as an
    index the code calls `int(str)`; the model abstains (`unsupported`), it does not claim an outcome -/
theorem index_str_by_string_abstains {t cs : List Char}
    (hi : Ev ld k env idxN s (.ok (.str t) s1)) (he : Ev ld k env e s1 (.ok (.str cs) s2)) :
    Ev ld (k + 1) env (.deref e idxN .absent pos) s
      (.fail (.unsupported "index given as string (int(str))") s2) :=
  index_str_gen ld hi he

/-! the default form `s[i, d]`, NULL, maps, everything else -/

/-- `s[i, d]` on a string: the model has the form, and it is the runtime error (before the index is looked at) -/
theorem index_str_default {dflt : Node} {idx : RVal} {cs : List Char} (hd : dflt ≠ .absent)
    (hi : Ev ld k env idxN s (.ok idx s1)) (he : Ev ld k env e s1 (.ok (.str cs) s2)) :
    Ev ld (k + 1) env (.deref e idxN dflt pos) s
      (.err ERR "Default value not allowed in string dereference" pos [] s2) := by
  intro f hf; obtain ⟨g, rfl, hg⟩ := succ_of_lt hf
  exact eval_deref_str_dflt ld hd (hi g (by omega)) (he g (by omega))

theorem index_list_default {dflt : Node} {idx : RVal} {a : Nat} {xs : List RVal} (hd : dflt ≠ .absent)
    (hi : Ev ld k env idxN s (.ok idx s1)) (he : Ev ld k env e s1 (.ok (.ref a) s2))
    (hc : s2.cell a = some (.list xs)) :
    Ev ld (k + 1) env (.deref e idxN dflt pos) s
      (.err ERR "Default value not allowed in list dereference" pos [] s2) := by
  intro f hf; obtain ⟨g, rfl, hg⟩ := succ_of_lt hf
  exact eval_deref_list_dflt ld hd (hi g (by omega)) (he g (by omega)) hc

/-- `NULL[i]` is NULL for every index value and every default -/
theorem index_null {dflt : Node} {idx : RVal}
    (hi : Ev ld k env idxN s (.ok idx s1)) (he : Ev ld k env e s1 (.ok .null s2)) :
    Ev ld (k + 1) env (.deref e idxN dflt pos) s (.ok .null s2) := by
  intro f hf; obtain ⟨g, rfl, hg⟩ := succ_of_lt hf
  exact eval_deref_null ld (hi g (by omega)) (he g (by omega))

/-- a map cell: lookup by key with the language's `equals` (`mapGet` = first key `rveq` to the index) -/
theorem index_map_hit {dflt : Node} {key x : RVal} {a : Nat} {kvs : List (RVal × RVal)}
    (hi : Ev ld k env idxN s (.ok key s1)) (he : Ev ld k env e s1 (.ok (.ref a) s2))
    (hc : s2.cell a = some (.map kvs)) (hg : mapGet s2 key kvs = some x) :
    Ev ld (k + 1) env (.deref e idxN dflt pos) s (.ok x s2) := by
  intro f hf; obtain ⟨g, rfl, hg'⟩ := succ_of_lt hf
  exact eval_deref_map_hit ld (hi g (by omega)) (he g (by omega)) hc hg

theorem index_map_miss {key : RVal} {a : Nat} {kvs : List (RVal × RVal)}
    (hi : Ev ld k env idxN s (.ok key s1)) (he : Ev ld k env e s1 (.ok (.ref a) s2))
    (hc : s2.cell a = some (.map kvs)) (hg : mapGet s2 key kvs = none) :
    Ev ld (k + 1) env (.deref e idxN .absent pos) s (.err ERR "Map does not contain key" pos [] s2) := by
  intro f hf; obtain ⟨g, rfl, hg'⟩ := succ_of_lt hf
  exact eval_deref_map_miss ld (hi g (by omega)) (he g (by omega)) hc hg

/-- `m[key, d]` with a missing key: the default expression is evaluated (in the state after the operand) -/
theorem index_map_default {dflt : Node} {key : RVal} {a : Nat} {kvs : List (RVal × RVal)} {r : Out RVal}
    (hd : dflt ≠ .absent)
    (hi : Ev ld k env idxN s (.ok key s1)) (he : Ev ld k env e s1 (.ok (.ref a) s2))
    (hc : s2.cell a = some (.map kvs)) (hg : mapGet s2 key kvs = none) (hdf : Ev ld k env dflt s2 r) :
    Ev ld (k + 1) env (.deref e idxN dflt pos) s r := by
  intro f hf; obtain ⟨g, rfl, hg'⟩ := succ_of_lt hf
  rw [eval_deref_map_dflt ld hd (hi g (by omega)) (he g (by omega)) hc hg]
  exact hdf g (by omega)

/-- ints, decimals, booleans, dates, sets, functions … cannot be indexed -/
theorem index_other {dflt : Node} {idx v : RVal} (hv : NotIndexable s2 v)
    (hi : Ev ld k env idxN s (.ok idx s1)) (he : Ev ld k env e s1 (.ok v s2)) :
    Ev ld (k + 1) env (.deref e idxN dflt pos) s (.err ERR "Cannot dereference value" pos [] s2) := by
  intro f hf; obtain ⟨g, rfl, hg'⟩ := succ_of_lt hf
  exact eval_deref_other ld hv (hi g (by omega)) (he g (by omega))

end index

/-! ## 2. The slice node `s[a to b]` / `s[a to *]` -/

section slice
variable {k : Nat} {env : EnvId} {e startN stopN : Node} {pos : Pos} {s s1 s2 s3 : State}

/-- the clamped contiguous run of C15, spelled with `List.drop` / `List.take` -/
def clampedRun {α : Type} (xs : List α) (a : Int) (b : Option Int) : List α :=
  (xs.drop (sliceLo xs.length a).toNat).take ((sliceHi xs.length b).toNat - (sliceLo xs.length a).toNat)

theorem slice_eq_clampedRun {α : Type} (xs : List α) (a : Int) (b : Option Int) :
    Seq.slice xs a b = clampedRun xs a b := slice_spec' xs a b

theorem substr_eq_clampedRun {α : Type} (xs : List α) (a : Int) (b : Option Int) :
    Seq.substr xs a b = clampedRun xs a b := substr_spec xs a b

/-- never wraps around, empty when the clamped bounds cross, a contiguous part of the operand -/
theorem clampedRun_facts {α : Type} (xs : List α) (a : Int) (b : Option Int) :
    ((clampedRun xs a b).length : Int) = (sliceHi xs.length b - sliceLo xs.length a).toNat ∧
    (sliceHi xs.length b ≤ sliceLo xs.length a → clampedRun xs a b = []) ∧
    clampedRun xs a b <:+: xs := by
  rw [← slice_eq_clampedRun]
  exact ⟨slice_length xs a b, slice_eq_nil xs a b, slice_isInfix xs a b⟩

/-- **`s[a to b]` on a string** = `Seq.slice` = the clamped run; the state is the one the three sub-nodes left -/
theorem slice_str_to {cs : List Char} {a b : Int} (hne : stopN ≠ .absent)
    (he : Ev ld k env e s (.ok (.str cs) s1)) (hs : Ev ld k env startN s1 (.ok (.int a) s2))
    (hp : Ev ld k env stopN s2 (.ok (.int b) s3)) :
    Ev ld (k + 1) env (.slice e startN stopN pos) s (.ok (.str (Seq.slice cs a (some b))) s3) ∧
    Ev ld (k + 1) env (.slice e startN stopN pos) s (.ok (.str (clampedRun cs a (some b))) s3) := by
  rw [← slice_eq_clampedRun]
  refine ⟨?_, ?_⟩ <;>
  · intro f hf; obtain ⟨g, rfl, hg⟩ := succ_of_lt hf
    rw [eval_slice_str_to ld hne (he g (by omega)) (hs g (by omega)) (hp g (by omega))]
    rfl

/-- **`s[a to *]` on a string** -/
theorem slice_str_star {cs : List Char} {a : Int}
    (he : Ev ld k env e s (.ok (.str cs) s1)) (hs : Ev ld k env startN s1 (.ok (.int a) s2)) :
    Ev ld (k + 1) env (.slice e startN .absent pos) s (.ok (.str (Seq.slice cs a none)) s2) ∧
    Ev ld (k + 1) env (.slice e startN .absent pos) s (.ok (.str (clampedRun cs a none)) s2) := by
  rw [← slice_eq_clampedRun]
  refine ⟨?_, ?_⟩ <;>
  · intro f hf; obtain ⟨g, rfl, hg⟩ := succ_of_lt hf
    rw [eval_slice_str_star ld (he g (by omega)) (hs g (by omega))]
    rfl

/-- **`l[a to b]` on a list cell**: the result is the NEXT heap address, a new cell holding the slice -/
theorem slice_list_to {c : Nat} {xs : List RVal} {a b : Int} (hne : stopN ≠ .absent)
    (he : Ev ld k env e s (.ok (.ref c) s1)) (hs : Ev ld k env startN s1 (.ok (.int a) s2))
    (hp : Ev ld k env stopN s2 (.ok (.int b) s3)) (hc : s3.cell c = some (.list xs)) :
    Ev ld (k + 1) env (.slice e startN stopN pos) s
      (.ok (.ref s3.heap.size) (s3.alloc (.list (Seq.slice xs a (some b)))).1) := by
  intro f hf; obtain ⟨g, rfl, hg⟩ := succ_of_lt hf
  rw [eval_slice_list_to ld hne (he g (by omega)) (hs g (by omega)) (hp g (by omega)) hc]
  rfl

theorem slice_list_star {c : Nat} {xs : List RVal} {a : Int}
    (he : Ev ld k env e s (.ok (.ref c) s1)) (hs : Ev ld k env startN s1 (.ok (.int a) s2))
    (hc : s2.cell c = some (.list xs)) :
    Ev ld (k + 1) env (.slice e startN .absent pos) s
      (.ok (.ref s2.heap.size) (s2.alloc (.list (Seq.slice xs a none))).1) := by
  intro f hf; obtain ⟨g, rfl, hg⟩ := succ_of_lt hf
  rw [eval_slice_list_star ld (he g (by omega)) (hs g (by omega)) hc]
  rfl

/-- what "a FRESH cell, operand unchanged" means for the result state `s.alloc (.list ys)` of a list slice
    (also of `sublist` and of `l1 + l2`): the returned address was not an address of `s`; it holds exactly `ys`;
    every cell of `s` — the operand cell in particular — has its old content; frames, output, modules untouched -/
theorem fresh_cell_facts (s : State) (ys : List RVal) :
    (∀ a c, s.cell a = some c → a ≠ s.heap.size) ∧
    (s.alloc (.list ys)).1.cell s.heap.size = some (.list ys) ∧
    (∀ a c, s.cell a = some c → (s.alloc (.list ys)).1.cell a = some c) ∧
    (s.alloc (.list ys)).1.frames = s.frames ∧ (s.alloc (.list ys)).1.out = s.out ∧
    (s.alloc (.list ys)).1.modules = s.modules ∧
    (s.alloc (.list ys)).1.heap.size = s.heap.size + 1 :=
  ⟨fun _ _ h => Nat.ne_of_lt (cell_lt h), cell_alloc_new s _, fun _ _ h => cell_alloc_old _ h, rfl, rfl, rfl,
    alloc_heap_size s _⟩

/-- the list slice with the textbook content: the new cell holds the clamped run of the operand's content, and the
    operand cell still holds `xs` -/
theorem slice_list_to_spec {c : Nat} {xs : List RVal} {a b : Int} (hne : stopN ≠ .absent)
    (he : Ev ld k env e s (.ok (.ref c) s1)) (hs : Ev ld k env startN s1 (.ok (.int a) s2))
    (hp : Ev ld k env stopN s2 (.ok (.int b) s3)) (hc : s3.cell c = some (.list xs)) :
    ∃ s4, Ev ld (k + 1) env (.slice e startN stopN pos) s (.ok (.ref s3.heap.size) s4) ∧
      s4.cell s3.heap.size = some (.list (clampedRun xs a (some b))) ∧ c ≠ s3.heap.size ∧
      s4.cell c = some (.list xs) ∧ (∀ a' c', s3.cell a' = some c' → s4.cell a' = some c') ∧
      s4.frames = s3.frames := by
  refine ⟨_, slice_list_to ld hne he hs hp hc, ?_, Nat.ne_of_lt (cell_lt hc), cell_alloc_old _ hc,
    fun _ _ h => cell_alloc_old _ h, rfl⟩
  rw [← slice_eq_clampedRun]; exact cell_alloc_new s3 _

theorem slice_list_star_spec {c : Nat} {xs : List RVal} {a : Int}
    (he : Ev ld k env e s (.ok (.ref c) s1)) (hs : Ev ld k env startN s1 (.ok (.int a) s2))
    (hc : s2.cell c = some (.list xs)) :
    ∃ s4, Ev ld (k + 1) env (.slice e startN .absent pos) s (.ok (.ref s2.heap.size) s4) ∧
      s4.cell s2.heap.size = some (.list (clampedRun xs a none)) ∧ c ≠ s2.heap.size ∧
      s4.cell c = some (.list xs) ∧ (∀ a' c', s2.cell a' = some c' → s4.cell a' = some c') ∧
      s4.frames = s2.frames := by
  refine ⟨_, slice_list_star ld he hs hc, ?_, Nat.ne_of_lt (cell_lt hc), cell_alloc_old _ hc,
    fun _ _ h => cell_alloc_old _ h, rfl⟩
  rw [← slice_eq_clampedRun]; exact cell_alloc_new s2 _

/-- NULL slices to NULL (after all sub-nodes were evaluated) -/
theorem slice_null_to {st en : RVal} (hne : stopN ≠ .absent)
    (he : Ev ld k env e s (.ok .null s1)) (hs : Ev ld k env startN s1 (.ok st s2))
    (hp : Ev ld k env stopN s2 (.ok en s3)) :
    Ev ld (k + 1) env (.slice e startN stopN pos) s (.ok .null s3) := by
  intro f hf; obtain ⟨g, rfl, hg⟩ := succ_of_lt hf
  exact eval_slice_null_to ld hne (he g (by omega)) (hs g (by omega)) (hp g (by omega))

/-- sets, maps, objects, numbers … cannot be sliced: the runtime error "Cannot slice" -/
theorem slice_other_to {v st en : RVal} (hne : stopN ≠ .absent)
    (he : Ev ld k env e s (.ok v s1)) (hs : Ev ld k env startN s1 (.ok st s2))
    (hp : Ev ld k env stopN s2 (.ok en s3)) (hv : NotSliceable s3 v) :
    Ev ld (k + 1) env (.slice e startN stopN pos) s (.err ERR "Cannot slice" pos [] s3) := by
  intro f hf; obtain ⟨g, rfl, hg⟩ := succ_of_lt hf
  exact eval_slice_other_to ld hne (he g (by omega)) (hs g (by omega)) (hp g (by omega)) hv

/-- a start bound that `getIndex` rejects: the runtime error "Invalid index <type>" (string operand) -/
theorem slice_str_bad_start {cs : List Char} {st : RVal} (hb : BadIndex st)
    (he : Ev ld k env e s (.ok (.str cs) s1)) (hs : Ev ld k env startN s1 (.ok st s2)) :
    Ev ld (k + 1) env (.slice e startN .absent pos) s
      (.err ERR ("Invalid index " ++ typeName s2 st) pos [] s2) := by
  intro f hf; obtain ⟨g, rfl, hg⟩ := succ_of_lt hf
  rw [eval_slice_str_star ld (he g (by omega)) (hs g (by omega)), sliceBounds_none, getIndex_bad hb]
  rfl

/-- general bounds (booleans, decimals …) go through `getIndex` exactly as for `s[i]` -/
theorem slice_str_to_gen {cs : List Char} {st en : RVal} (hne : stopN ≠ .absent)
    (he : Ev ld k env e s (.ok (.str cs) s1)) (hs : Ev ld k env startN s1 (.ok st s2))
    (hp : Ev ld k env stopN s2 (.ok en s3)) :
    Ev ld (k + 1) env (.slice e startN stopN pos) s
      (Out.andThen (getIndex st pos s3) (fun a s' => Out.andThen (getIndex en pos s')
        (fun b s'' => .ok (.str (Seq.slice cs a (some b))) s''))) := by
  intro f hf; obtain ⟨g, rfl, hg⟩ := succ_of_lt hf
  rw [eval_slice_str_to ld hne (he g (by omega)) (hs g (by omega)) (hp g (by omega)), sliceBounds_some]
  cases getIndex st pos s3 with
  | ok a s4 => simp only [Out.andThen_ok]; cases getIndex en pos s4 <;> rfl
  | err => rfl
  | fail => rfl

end slice

/-! ## 3. The natives, through `callPure`

  For ANY argument table `args` that binds the named parameters as stated (any order, anything else bound as well),
  any `DIV_0_VALUE`, any call position, any state.  `b : Option Int` is the optional end index: the hypothesis
  `dictGet "endidx" args = b.map .int` says "absent" for `none` and "bound to the int" for `some`. -/

section natives
variable {args : List (String × RVal)} {d0 : Option RVal} {pos : Pos} {m : EvalM RVal} {s : State}

/-- **`substr(str, startidx[, endidx])`** = `Seq.substr` = the clamped run; the state is unchanged -/
theorem native_substr {cs : List Char} {a : Int} {b : Option Int}
    (h : callPure "substr" args d0 pos = some m)
    (h1 : dictGet "str" args = some (.str cs)) (h2 : dictGet "startidx" args = some (.int a))
    (h3 : dictGet "endidx" args = b.map .int) :
    m s = .ok (.str (Seq.substr cs a b)) s ∧ m s = .ok (.str (clampedRun cs a b)) s := by
  rw [← substr_eq_clampedRun]
  cases b with
  | none => exact ⟨substr_str_star h h1 h2 h3, substr_str_star h h1 h2 h3⟩
  | some b => exact ⟨substr_str_to h h1 h2 h3, substr_str_to h h1 h2 h3⟩

/-- **`sublist(lst, startidx[, endidx])`**: a FRESH cell (see `fresh_cell_facts`) holding the clamped run -/
theorem native_sublist {c : Nat} {xs : List RVal} {a : Int} {b : Option Int}
    (h : callPure "sublist" args d0 pos = some m)
    (h1 : dictGet "lst" args = some (.ref c)) (hc : s.cell c = some (.list xs))
    (h2 : dictGet "startidx" args = some (.int a)) (h3 : dictGet "endidx" args = b.map .int) :
    m s = .ok (.ref s.heap.size) (s.alloc (.list (Seq.substr xs a b))).1 ∧
    m s = .ok (.ref s.heap.size) (s.alloc (.list (clampedRun xs a b))).1 := by
  rw [← substr_eq_clampedRun]
  cases b with
  | none => exact ⟨sublist_star h h1 hc h2 h3, sublist_star h h1 hc h2 h3⟩
  | some b => exact ⟨sublist_to h h1 hc h2 h3, sublist_to h h1 hc h2 h3⟩

/-- **`find(str, part[, start = st])`** (no `key`) = `Seq.find` from `st` (default 0) -/
theorem native_find_str {cs t : List Char} {st : Option Int}
    (h : callPure "find" args d0 pos = some m)
    (h1 : dictGet "obj" args = some (.str cs)) (h2 : dictGet "part" args = some (.str t))
    (hk : dictGet "key" args = none) (h3 : dictGet "start" args = st.map .int) :
    m s = .ok (.int (Seq.find cs t (st.getD 0))) s := by
  cases st with
  | none => exact find_str h h1 h2 hk h3
  | some st => exact find_str_start h h1 h2 hk h3

/-- … which is `-1` when `part` occurs nowhere from `max 0 st` on, and otherwise the FIRST such position -/
theorem native_find_str_spec {cs t : List Char} {st : Option Int}
    (h : callPure "find" args d0 pos = some m)
    (h1 : dictGet "obj" args = some (.str cs)) (h2 : dictGet "part" args = some (.str t))
    (hk : dictGet "key" args = none) (h3 : dictGet "start" args = st.map .int) :
    (m s = .ok (.int (-1)) s ∧ ∀ q : Nat, max 0 (st.getD 0) ≤ (q : Int) → ¬ OccursAt cs t q) ∨
    (∃ p : Nat, m s = .ok (.int p) s ∧ max 0 (st.getD 0) ≤ (p : Int) ∧ OccursAt cs t p ∧
      ∀ q : Nat, max 0 (st.getD 0) ≤ (q : Int) → q < p → ¬ OccursAt cs t q) := by
  rw [native_find_str h h1 h2 hk h3]
  rcases find_cases cs t (st.getD 0) with ⟨e1, e2⟩ | ⟨p, e1, e2, e3, e4⟩
  · left; rw [e1]; exact ⟨rfl, e2⟩
  · right; rw [e1]; exact ⟨p, rfl, e2, e3, e4⟩

/-- **`find(lst, item[, start])`** on a list cell: the element test is `rveq s element item` — the language's
    `equals` (deep, `1 == 1.0`), evaluated in the state of the call, element on the left -/
theorem native_find_list {c : Nat} {xs : List RVal} {x : RVal} {st : Option Int}
    (h : callPure "find" args d0 pos = some m)
    (h1 : dictGet "obj" args = some (.ref c)) (hc : s.cell c = some (.list xs))
    (h2 : dictGet "part" args = some x)
    (hk : dictGet "key" args = none) (h3 : dictGet "start" args = st.map .int) :
    m s = .ok (.int (Seq.findList (fun y z => rveq s y z) xs x (st.getD 0))) s := by
  cases st with
  | none => exact find_list h h1 hc h2 hk h3
  | some st => exact find_list_start h h1 hc h2 hk h3

theorem native_find_list_spec {c : Nat} {xs : List RVal} {x : RVal} {st : Option Int}
    (h : callPure "find" args d0 pos = some m)
    (h1 : dictGet "obj" args = some (.ref c)) (hc : s.cell c = some (.list xs))
    (h2 : dictGet "part" args = some x)
    (hk : dictGet "key" args = none) (h3 : dictGet "start" args = st.map .int) :
    (m s = .ok (.int (-1)) s ∧
      ∀ q : Nat, max 0 (st.getD 0) ≤ (q : Int) → ¬ HitAt (fun y z => rveq s y z) x xs q) ∨
    (∃ p : Nat, m s = .ok (.int p) s ∧ max 0 (st.getD 0) ≤ (p : Int) ∧
      HitAt (fun y z => rveq s y z) x xs p ∧
      ∀ q : Nat, max 0 (st.getD 0) ≤ (q : Int) → q < p → ¬ HitAt (fun y z => rveq s y z) x xs q) := by
  rw [native_find_list h h1 hc h2 hk h3]
  rcases findList_cases (fun y z => rveq s y z) xs x (st.getD 0) with ⟨e1, e2⟩ | ⟨p, e1, e2, e3, e4⟩
  · left; rw [e1]; exact ⟨rfl, e2⟩
  · right; rw [e1]; exact ⟨p, rfl, e2, e3, e4⟩

/-- **`find_last(str, part[, start])`** = `Seq.findLast`: `-1` or the LAST position `≤ start` (default: `len`) -/
theorem native_find_last_str {cs t : List Char} {st : Option Int}
    (h : callPure "find_last" args d0 pos = some m)
    (h1 : dictGet "obj" args = some (.str cs)) (h2 : dictGet "part" args = some (.str t))
    (hk : dictGet "key" args = none) (h3 : dictGet "start" args = st.map .int) :
    m s = .ok (.int (Seq.findLast cs t st)) s ∧
    ((Seq.findLast cs t st = -1 ∧
        ∀ q : Nat, (q : Int) ≤ st.getD (cs.length : Int) → ¬ OccursAt cs t q) ∨
     (∃ p : Nat, Seq.findLast cs t st = (p : Int) ∧ (p : Int) ≤ st.getD (cs.length : Int) ∧ OccursAt cs t p ∧
        ∀ q : Nat, p < q → (q : Int) ≤ st.getD (cs.length : Int) → ¬ OccursAt cs t q)) := by
  refine ⟨?_, findLast_cases cs t st⟩
  cases st with
  | none => exact find_last_str h h1 h2 hk h3
  | some st => exact find_last_str_start h h1 h2 hk h3

/-- **`find_last(lst, item[, start])`**: `rveq` again; `-1` or the LAST index `≤ min(start, len-1)` that hits -/
theorem native_find_last_list {c : Nat} {xs : List RVal} {x : RVal} {st : Option Int}
    (h : callPure "find_last" args d0 pos = some m)
    (h1 : dictGet "obj" args = some (.ref c)) (hc : s.cell c = some (.list xs))
    (h2 : dictGet "part" args = some x)
    (hk : dictGet "key" args = none) (h3 : dictGet "start" args = st.map .int) :
    m s = .ok (.int (Seq.findLastList (fun y z => rveq s y z) xs x st)) s ∧
    (∀ p : Nat, Seq.findLastList (fun y z => rveq s y z) xs x st = (p : Int) ↔
      HitAt (fun y z => rveq s y z) x xs p ∧ (p : Int) ≤ findLastListLim xs st ∧
      ∀ q : Nat, p < q → (q : Int) ≤ findLastListLim xs st → ¬ HitAt (fun y z => rveq s y z) x xs q) ∧
    (Seq.findLastList (fun y z => rveq s y z) xs x st = -1 ↔
      ∀ q : Nat, (q : Int) ≤ findLastListLim xs st → ¬ HitAt (fun y z => rveq s y z) x xs q) := by
  refine ⟨?_, fun p => findLastList_spec' _ xs x st p, findLastList_eq_neg_one_iff' _ xs x st⟩
  cases st with
  | none => exact find_last_list h h1 hc h2 hk h3
  | some st => exact find_last_list_start h h1 hc h2 hk h3

/-- what "mutates exactly the cell" means for the result state `s.setCell a c` of `insert_at` / `delete_at`:
    cell `a` holds `c`, every other cell is untouched, nothing is allocated, frames / output / modules untouched -/
theorem setCell_facts {a : Nat} {c0 : Cell} (c : Cell) (h : s.cell a = some c0) :
    (s.setCell a c).cell a = some c ∧ (∀ b, b ≠ a → (s.setCell a c).cell b = s.cell b) ∧
    (s.setCell a c).heap.size = s.heap.size ∧ (s.setCell a c).frames = s.frames ∧
    (s.setCell a c).out = s.out ∧ (s.setCell a c).modules = s.modules := by
  refine ⟨cell_setCell_self c h, ?_, by simp [State.setCell], rfl, rfl, rfl⟩
  intro b hb
  simp only [State.setCell, State.cell]
  rw [Array.getElem?_setIfInBounds_ne (Ne.symm hb)]

/-- **`insert_at(lst, index, value)`** (via `C16.insert_at_list`): returns the list itself; the cell now holds
    `Seq.insertAt` — the one-position insert of C15 (`insertAt_in_range`, `insertAt_out_of_range`) -/
theorem native_insert_at {a : Nat} {v : RVal} {i : Int} {xs : List RVal}
    (h : callPure "insert_at" args d0 pos = some m)
    (h1 : dictGet "lst" args = some (.ref a)) (h2 : dictGet "index" args = some (.int i))
    (h3 : dictGet "value" args = some v) (hc : s.cell a = some (.list xs)) :
    m s = .ok (.ref a) (s.setCell a (.list (Seq.insertAt xs i v))) ∧
    (0 ≤ insertPos xs.length i ∧ insertPos xs.length i ≤ xs.length →
      Seq.insertAt xs i v = xs.insertIdx (insertPos xs.length i).toNat v) ∧
    ((xs.length : Int) < i ∨ i < -((xs.length : Int) + 1) → Seq.insertAt xs i v = xs) :=
  ⟨C16.insert_at_list h h1 h2 h3 hc, fun hr => insertAt_eq_insertIdx xs i v hr.1 hr.2,
    insertAt_out_of_range xs i v⟩

/-- **`delete_at(lst, index)`** (via `C16.delete_at_list`): returns the removed element (NULL out of range); the
    cell now holds the list without that one position -/
theorem native_delete_at {a : Nat} {i : Int} {xs : List RVal}
    (h : callPure "delete_at" args d0 pos = some m)
    (h1 : dictGet "lst" args = some (.ref a)) (h2 : dictGet "index" args = some (.int i))
    (hc : s.cell a = some (.list xs)) :
    m s = .ok ((Seq.deleteAt xs i).1.getD .null) (s.setCell a (.list (Seq.deleteAt xs i).2)) ∧
    (0 ≤ adj xs.length i ∧ adj xs.length i < xs.length →
      Seq.deleteAt xs i = (xs[(adj xs.length i).toNat]?, xs.eraseIdx (adj xs.length i).toNat)) ∧
    ((xs.length : Int) ≤ i ∨ i < -(xs.length : Int) → Seq.deleteAt xs i = (none, xs)) :=
  ⟨C16.delete_at_list h h1 h2 hc, fun hr => deleteAt_in_range xs i hr.1 hr.2, deleteAt_out_of_range xs i⟩

theorem native_length_str {cs : List Char}
    (h : callPure "length" args d0 pos = some m) (h1 : dictGet "obj" args = some (.str cs)) :
    m s = .ok (.int cs.length) s := length_str h h1

theorem native_length_list {c : Nat} {xs : List RVal}
    (h : callPure "length" args d0 pos = some m) (h1 : dictGet "obj" args = some (.ref c))
    (hc : s.cell c = some (.list xs)) : m s = .ok (.int xs.length) s := length_list h h1 hc

/-- `'…' + '…'` is concatenation -/
theorem native_add_str {x y : List Char}
    (h : callPure "add" args d0 pos = some m)
    (h1 : dictGet "a" args = some (.str x)) (h2 : dictGet "b" args = some (.str y)) :
    m s = .ok (.str (x ++ y)) s := add_str_str h h1 h2

/-- `l1 + l2` on two list cells (also the same cell twice): a fresh cell holding the concatenation -/
theorem native_add_list {a b : Nat} {xs ys : List RVal}
    (h : callPure "add" args d0 pos = some m)
    (h1 : dictGet "a" args = some (.ref a)) (h2 : dictGet "b" args = some (.ref b))
    (ha : s.cell a = some (.list xs)) (hb : s.cell b = some (.list ys)) :
    m s = .ok (.ref s.heap.size) (s.alloc (.list (xs ++ ys))).1 := add_list_list h h1 h2 ha hb

end natives

/-! ## 3b. The natives through `eval` of a call node

  `fname(e1, …)` where the identifier `fname` is bound to the built-in (as `initialState` binds every built-in under
  its own name) and the arguments are positional, non-spread nodes; every fuel above the stated bound.
  (`find(s, part, 1)` binds the THIRD parameter `key`, not `start` — `start` has to be passed by name.) -/

section calls
variable {k : Nat} {env : EnvId} {fname : String} {p pos : Pos} {s s1 s2 s3 : State} {inst : Nat}
  {e1 e2 e3 : Node}

theorem call_substr3 {cs : List Char} {a b : Int}
    (hfn : s.lookup env fname = some (.native "substr" inst))
    (hn1 : NotSpread e1) (hn2 : NotSpread e2) (hn3 : NotSpread e3)
    (h1 : Ev ld k env e1 s (.ok (.str cs) s1)) (h2 : Ev ld k env e2 s1 (.ok (.int a) s2))
    (h3 : Ev ld k env e3 s2 (.ok (.int b) s3)) :
    Ev ld (k + 5) env (.call (.ident fname p) [none, none, none] [e1, e2, e3] pos) s
      (.ok (.str (clampedRun cs a (some b))) s3) := by
  obtain ⟨m, hp⟩ : ∃ m, callPure "substr" [("str", .str cs), ("startidx", .int a), ("endidx", .int b)]
      (div0Value s3 env) pos = some m := ⟨_, rfl⟩
  have := Ev.callPos3 ld (p := p) hfn hn1 hn2 hn3 h1 h2 h3 (by rfl) (by decide) (by decide) (by decide)
    (addArgs_plain' _ (by decide)) hp
  rwa [(native_substr (b := some b) hp rfl rfl rfl).2, wrapCall_ok] at this

theorem call_substr2 {cs : List Char} {a : Int}
    (hfn : s.lookup env fname = some (.native "substr" inst)) (hn1 : NotSpread e1) (hn2 : NotSpread e2)
    (h1 : Ev ld k env e1 s (.ok (.str cs) s1)) (h2 : Ev ld k env e2 s1 (.ok (.int a) s2)) :
    Ev ld (k + 4) env (.call (.ident fname p) [none, none] [e1, e2] pos) s
      (.ok (.str (clampedRun cs a none)) s2) := by
  obtain ⟨m, hp⟩ : ∃ m, callPure "substr" [("str", .str cs), ("startidx", .int a)]
      (div0Value s2 env) pos = some m := ⟨_, rfl⟩
  have := Ev.callPos2 ld (p := p) hfn hn1 hn2 h1 h2 (by rfl) (by decide) (addArgs_plain' _ (by decide)) hp
  rwa [(native_substr (b := none) hp rfl rfl rfl).2, wrapCall_ok] at this

theorem call_sublist3 {c : Nat} {xs : List RVal} {a b : Int}
    (hfn : s.lookup env fname = some (.native "sublist" inst))
    (hn1 : NotSpread e1) (hn2 : NotSpread e2) (hn3 : NotSpread e3)
    (h1 : Ev ld k env e1 s (.ok (.ref c) s1)) (h2 : Ev ld k env e2 s1 (.ok (.int a) s2))
    (h3 : Ev ld k env e3 s2 (.ok (.int b) s3)) (hc : s3.cell c = some (.list xs)) :
    Ev ld (k + 5) env (.call (.ident fname p) [none, none, none] [e1, e2, e3] pos) s
      (.ok (.ref s3.heap.size) (s3.alloc (.list (clampedRun xs a (some b)))).1) := by
  obtain ⟨m, hp⟩ : ∃ m, callPure "sublist" [("lst", .ref c), ("startidx", .int a), ("endidx", .int b)]
      (div0Value s3 env) pos = some m := ⟨_, rfl⟩
  have := Ev.callPos3 ld (p := p) hfn hn1 hn2 hn3 h1 h2 h3 (by rfl) (by decide) (by decide) (by decide)
    (addArgs_plain' _ (by decide)) hp
  rwa [(native_sublist (b := some b) hp rfl hc rfl rfl).2, wrapCall_ok] at this

theorem call_sublist2 {c : Nat} {xs : List RVal} {a : Int}
    (hfn : s.lookup env fname = some (.native "sublist" inst)) (hn1 : NotSpread e1) (hn2 : NotSpread e2)
    (h1 : Ev ld k env e1 s (.ok (.ref c) s1)) (h2 : Ev ld k env e2 s1 (.ok (.int a) s2))
    (hc : s2.cell c = some (.list xs)) :
    Ev ld (k + 4) env (.call (.ident fname p) [none, none] [e1, e2] pos) s
      (.ok (.ref s2.heap.size) (s2.alloc (.list (clampedRun xs a none))).1) := by
  obtain ⟨m, hp⟩ : ∃ m, callPure "sublist" [("lst", .ref c), ("startidx", .int a)]
      (div0Value s2 env) pos = some m := ⟨_, rfl⟩
  have := Ev.callPos2 ld (p := p) hfn hn1 hn2 h1 h2 (by rfl) (by decide) (addArgs_plain' _ (by decide)) hp
  rwa [(native_sublist (b := none) hp rfl hc rfl rfl).2, wrapCall_ok] at this

theorem call_find_str {cs t : List Char}
    (hfn : s.lookup env fname = some (.native "find" inst)) (hn1 : NotSpread e1) (hn2 : NotSpread e2)
    (h1 : Ev ld k env e1 s (.ok (.str cs) s1)) (h2 : Ev ld k env e2 s1 (.ok (.str t) s2)) :
    Ev ld (k + 4) env (.call (.ident fname p) [none, none] [e1, e2] pos) s (.ok (.int (Seq.find cs t 0)) s2) := by
  obtain ⟨m, hp⟩ : ∃ m, callPure "find" [("obj", .str cs), ("part", .str t)]
      (div0Value s2 env) pos = some m := ⟨_, rfl⟩
  have := Ev.callPos2 ld (p := p) hfn hn1 hn2 h1 h2 (by rfl) (by decide) (addArgs_plain' _ (by decide)) hp
  rwa [native_find_str (st := none) hp rfl rfl rfl rfl, wrapCall_ok] at this

theorem call_find_list {c : Nat} {xs : List RVal} {x : RVal}
    (hfn : s.lookup env fname = some (.native "find" inst)) (hn1 : NotSpread e1) (hn2 : NotSpread e2)
    (h1 : Ev ld k env e1 s (.ok (.ref c) s1)) (h2 : Ev ld k env e2 s1 (.ok x s2))
    (hc : s2.cell c = some (.list xs)) :
    Ev ld (k + 4) env (.call (.ident fname p) [none, none] [e1, e2] pos) s
      (.ok (.int (Seq.findList (fun y z => rveq s2 y z) xs x 0)) s2) := by
  obtain ⟨m, hp⟩ : ∃ m, callPure "find" [("obj", .ref c), ("part", x)]
      (div0Value s2 env) pos = some m := ⟨_, rfl⟩
  have := Ev.callPos2 ld (p := p) hfn hn1 hn2 h1 h2 (by rfl) (by decide) (addArgs_plain' _ (by decide)) hp
  rwa [native_find_list (st := none) hp rfl hc rfl rfl rfl, wrapCall_ok] at this

theorem call_find_last_str {cs t : List Char}
    (hfn : s.lookup env fname = some (.native "find_last" inst)) (hn1 : NotSpread e1) (hn2 : NotSpread e2)
    (h1 : Ev ld k env e1 s (.ok (.str cs) s1)) (h2 : Ev ld k env e2 s1 (.ok (.str t) s2)) :
    Ev ld (k + 4) env (.call (.ident fname p) [none, none] [e1, e2] pos) s
      (.ok (.int (Seq.findLast cs t none)) s2) := by
  obtain ⟨m, hp⟩ : ∃ m, callPure "find_last" [("obj", .str cs), ("part", .str t)]
      (div0Value s2 env) pos = some m := ⟨_, rfl⟩
  have := Ev.callPos2 ld (p := p) hfn hn1 hn2 h1 h2 (by rfl) (by decide) (addArgs_plain' _ (by decide)) hp
  rwa [(native_find_last_str (st := none) hp rfl rfl rfl rfl).1, wrapCall_ok] at this

theorem call_length_str {cs : List Char}
    (hfn : s.lookup env fname = some (.native "length" inst)) (hn1 : NotSpread e1)
    (h1 : Ev ld k env e1 s (.ok (.str cs) s1)) :
    Ev ld (k + 3) env (.call (.ident fname p) [none] [e1] pos) s (.ok (.int cs.length) s1) := by
  obtain ⟨m, hp⟩ : ∃ m, callPure "length" [("obj", .str cs)] (div0Value s1 env) pos = some m := ⟨_, rfl⟩
  have := Ev.callPos1 ld (p := p) hfn hn1 h1 (by rfl) (addArgs_plain' _ (by decide)) hp
  rwa [native_length_str hp rfl, wrapCall_ok] at this

theorem call_length_list {c : Nat} {xs : List RVal}
    (hfn : s.lookup env fname = some (.native "length" inst)) (hn1 : NotSpread e1)
    (h1 : Ev ld k env e1 s (.ok (.ref c) s1)) (hc : s1.cell c = some (.list xs)) :
    Ev ld (k + 3) env (.call (.ident fname p) [none] [e1] pos) s (.ok (.int xs.length) s1) := by
  obtain ⟨m, hp⟩ : ∃ m, callPure "length" [("obj", .ref c)] (div0Value s1 env) pos = some m := ⟨_, rfl⟩
  have := Ev.callPos1 ld (p := p) hfn hn1 h1 (by rfl) (addArgs_plain' _ (by decide)) hp
  rwa [native_length_list hp rfl hc, wrapCall_ok] at this

theorem call_insert_at {a : Nat} {xs : List RVal} {i : Int} {v : RVal}
    (hfn : s.lookup env fname = some (.native "insert_at" inst))
    (hn1 : NotSpread e1) (hn2 : NotSpread e2) (hn3 : NotSpread e3)
    (h1 : Ev ld k env e1 s (.ok (.ref a) s1)) (h2 : Ev ld k env e2 s1 (.ok (.int i) s2))
    (h3 : Ev ld k env e3 s2 (.ok v s3)) (hc : s3.cell a = some (.list xs)) :
    Ev ld (k + 5) env (.call (.ident fname p) [none, none, none] [e1, e2, e3] pos) s
      (.ok (.ref a) (s3.setCell a (.list (Seq.insertAt xs i v)))) := by
  obtain ⟨m, hp⟩ : ∃ m, callPure "insert_at" [("lst", .ref a), ("index", .int i), ("value", v)]
      (div0Value s3 env) pos = some m := ⟨_, rfl⟩
  have := Ev.callPos3 ld (p := p) hfn hn1 hn2 hn3 h1 h2 h3 (by rfl) (by decide) (by decide) (by decide)
    (addArgs_plain' _ (by decide)) hp
  rwa [(native_insert_at hp rfl rfl rfl hc).1, wrapCall_ok] at this

theorem call_delete_at {a : Nat} {xs : List RVal} {i : Int}
    (hfn : s.lookup env fname = some (.native "delete_at" inst)) (hn1 : NotSpread e1) (hn2 : NotSpread e2)
    (h1 : Ev ld k env e1 s (.ok (.ref a) s1)) (h2 : Ev ld k env e2 s1 (.ok (.int i) s2))
    (hc : s2.cell a = some (.list xs)) :
    Ev ld (k + 4) env (.call (.ident fname p) [none, none] [e1, e2] pos) s
      (.ok ((Seq.deleteAt xs i).1.getD .null) (s2.setCell a (.list (Seq.deleteAt xs i).2))) := by
  obtain ⟨m, hp⟩ : ∃ m, callPure "delete_at" [("lst", .ref a), ("index", .int i)]
      (div0Value s2 env) pos = some m := ⟨_, rfl⟩
  have := Ev.callPos2 ld (p := p) hfn hn1 hn2 h1 h2 (by rfl) (by decide) (addArgs_plain' _ (by decide)) hp
  rwa [(native_delete_at hp rfl rfl hc).1, wrapCall_ok] at this

/-- `x + y` on two strings (the parser writes `add(a = x, b = y)`) -/
theorem op_add_str {x y : List Char}
    (hfn : s.lookup env "add" = some (.native "add" inst)) (hn1 : NotSpread e1) (hn2 : NotSpread e2)
    (h1 : Ev ld k env e1 s (.ok (.str x) s1)) (h2 : Ev ld k env e2 s1 (.ok (.str y) s2)) :
    Ev ld (k + 4) env (Ckl.Parser.funcCallAB "add" e1 e2 pos) s (.ok (.str (x ++ y)) s2) := by
  obtain ⟨m, hp⟩ : ∃ m, callPure "add" [("a", .str x), ("b", .str y)] (div0Value s2 env) pos = some m := ⟨_, rfl⟩
  have := Ev.callAB ld (p := pos) (pos := pos) hfn hn1 hn2 h1 h2 (by rfl) hp
  rwa [native_add_str hp rfl rfl, wrapCall_ok] at this

/-- `l1 + l2` on two list cells -/
theorem op_add_list {a b : Nat} {xs ys : List RVal}
    (hfn : s.lookup env "add" = some (.native "add" inst)) (hn1 : NotSpread e1) (hn2 : NotSpread e2)
    (h1 : Ev ld k env e1 s (.ok (.ref a) s1)) (h2 : Ev ld k env e2 s1 (.ok (.ref b) s2))
    (ha : s2.cell a = some (.list xs)) (hb : s2.cell b = some (.list ys)) :
    Ev ld (k + 4) env (Ckl.Parser.funcCallAB "add" e1 e2 pos) s
      (.ok (.ref s2.heap.size) (s2.alloc (.list (xs ++ ys))).1) := by
  obtain ⟨m, hp⟩ : ∃ m, callPure "add" [("a", .ref a), ("b", .ref b)] (div0Value s2 env) pos = some m := ⟨_, rfl⟩
  have := Ev.callAB ld (p := pos) (pos := pos) hfn hn1 hn2 h1 h2 (by rfl) hp
  rwa [native_add_list hp rfl rfl ha hb, wrapCall_ok] at this

/-- `x == y`: the boolean `rveq` in the state after both operands -/
theorem op_equals {x y : RVal}
    (hfn : s.lookup env "equals" = some (.native "equals" inst)) (hn1 : NotSpread e1) (hn2 : NotSpread e2)
    (h1 : Ev ld k env e1 s (.ok x s1)) (h2 : Ev ld k env e2 s1 (.ok y s2)) :
    Ev ld (k + 4) env (Ckl.Parser.funcCallAB "equals" e1 e2 pos) s (.ok (.bool (rveq s2 x y)) s2) := by
  obtain ⟨m, hp⟩ : ∃ m, callPure "equals" [("a", x), ("b", y)] (div0Value s2 env) pos = some m := ⟨_, rfl⟩
  have := Ev.callAB ld (p := pos) (pos := pos) hfn hn1 hn2 h1 h2 (by rfl) hp
  rwa [equals_eq hp rfl rfl, wrapCall_ok] at this

end calls

/-! ## 4. The identities of the property, THROUGH the evaluator -/

section identities
variable {k : Nat} {env : EnvId} {s : State}

theorem ne_absent_of_ev {n : Node} {v : RVal} {s' : State} (h : Ev ld k env n s (.ok v s')) : n ≠ .absent := by
  rintro rfl
  have := h (k + 1) (by omega)
  rw [eval] at this
  cases this

/-- **`s[0 to k] + s[k to *] == s` evaluates to TRUE** for every string `cs` and every int `n` (negative, out of
    range either way included); the state is unchanged.  `S`, `K` are any nodes that evaluate to the string / the int
    without changing the state (identifiers, literals, …); `add`, `equals` are bound to the built-ins. -/
theorem split_join_str {S K : Node} {cs : List Char} {n : Int} {ia ie : Nat} {p0 p1 p2 p3 p4 : Pos}
    (hadd : s.lookup env "add" = some (.native "add" ia))
    (hequ : s.lookup env "equals" = some (.native "equals" ie))
    (hS : Ev ld k env S s (.ok (.str cs) s)) (hK : Ev ld k env K s (.ok (.int n) s)) (hSn : NotSpread S) :
    Ev ld (k + 9) env
      (Parser.funcCallAB "equals"
        (Parser.funcCallAB "add" (.slice S (.lit (.int 0) p0) K p1) (.slice S K .absent p2) p3) S p4) s
      (.ok (.bool true) s) := by
  have hKne := ne_absent_of_ev ld hK
  have h1 := (slice_str_to ld (pos := p1) hKne hS (Ev.litInt ld (n := 0) (p := p0)) hK).1
  have h2 := (slice_str_star ld (pos := p2) hS hK).1
  have h3 := op_add_str ld (pos := p3) hadd (by trivial) (by trivial) h1 h2
  rw [slice_split] at h3
  have h4 := op_equals ld (pos := p4) hequ (by trivial) hSn h3 (hS.mono ld (by omega))
  have : rveq s (.str cs) (.str cs) = true := by rw [rveq_str]; exact beq_self_eq_true cs
  rw [this] at h4
  exact h4

/-- **the same on a list cell**: `S` evaluates (in every state with the frames of `s`) to the cell `a` holding `xs`.
    The two slices and their concatenation are three NEW cells `h`, `h+1`, `h+2` (`h = s.heap.size`); the
    concatenation holds exactly `xs` again, the operand cell is untouched, and `==` answers TRUE — provided every
    element equals itself (`SelfEq`: no node value / control signal stored in the list, see `node_not_selfEq`). -/
theorem split_join_list {S K : Node} {a : Nat} {xs : List RVal} {n : Int} {ia ie : Nat} {p0 p1 p2 p3 p4 : Pos}
    (hadd : s.lookup env "add" = some (.native "add" ia))
    (hequ : s.lookup env "equals" = some (.native "equals" ie))
    (hS : FrameConst ld k env S (.ref a) s) (hK : FrameConst ld k env K (.int n) s) (hSn : NotSpread S)
    (hc : s.cell a = some (.list xs)) (hx : ∀ x ∈ xs, SelfEq x) :
    ∃ s', Ev ld (k + 9) env
      (Parser.funcCallAB "equals"
        (Parser.funcCallAB "add" (.slice S (.lit (.int 0) p0) K p1) (.slice S K .absent p2) p3) S p4) s
      (.ok (.bool true) s') ∧
      s'.cell s.heap.size = some (.list (Seq.slice xs 0 (some n))) ∧
      s'.cell (s.heap.size + 1) = some (.list (Seq.slice xs n none)) ∧
      s'.cell (s.heap.size + 2) = some (.list xs) ∧ s'.cell a = some (.list xs) ∧
      (∀ b c, s.cell b = some c → s'.cell b = some c) ∧ s'.frames = s.frames ∧
      s'.heap.size = s.heap.size + 3 := by
  have hKne := ne_absent_of_ev ld hK.self
  -- first slice
  have h1 := slice_list_to ld (pos := p1) hKne hS.self (Ev.litInt ld (n := 0) (p := p0)) hK.self hc
  generalize hs1 : (s.alloc (.list (Seq.slice xs 0 (some n)))).1 = s1 at h1
  have f1 : s1.frames = s.frames := by rw [← hs1]; rfl
  have c1 : s1.cell a = some (.list xs) := by rw [← hs1]; exact cell_alloc_old _ hc
  have n1 : s1.cell s.heap.size = some (.list (Seq.slice xs 0 (some n))) := by
    rw [← hs1]; exact cell_alloc_new s _
  have z1 : s1.heap.size = s.heap.size + 1 := by rw [← hs1]; exact alloc_heap_size s _
  -- second slice
  have h2 := slice_list_star ld (pos := p2) (hS s1 f1) (hK s1 f1) c1
  generalize hs2 : (s1.alloc (.list (Seq.slice xs n none))).1 = s2 at h2
  have f2 : s2.frames = s.frames := by rw [← hs2]; exact f1
  have c2 : s2.cell a = some (.list xs) := by rw [← hs2]; exact cell_alloc_old _ c1
  have n2 : s2.cell s.heap.size = some (.list (Seq.slice xs 0 (some n))) := by
    rw [← hs2]; exact cell_alloc_old _ n1
  have m2 : s2.cell s1.heap.size = some (.list (Seq.slice xs n none)) := by
    rw [← hs2]; exact cell_alloc_new s1 _
  have z2 : s2.heap.size = s.heap.size + 2 := by rw [← hs2, alloc_heap_size, z1]
  -- concatenation
  have h3 := op_add_list ld (pos := p3) hadd (by trivial) (by trivial) h1 h2 n2 m2
  rw [slice_split] at h3
  generalize hs3 : (s2.alloc (.list xs)).1 = s3 at h3
  have f3 : s3.frames = s.frames := by rw [← hs3]; exact f2
  have c3 : s3.cell a = some (.list xs) := by rw [← hs3]; exact cell_alloc_old _ c2
  have n3 : s3.cell s2.heap.size = some (.list xs) := by rw [← hs3]; exact cell_alloc_new s2 _
  -- comparison
  have h4 := op_equals ld (pos := p4) hequ (by trivial) hSn h3 ((hS s3 f3).mono ld (by omega))
  rw [rveq_list_same n3 c3 hx] at h4
  refine ⟨s3, h4, ?_, ?_, ?_, c3, ?_, f3, ?_⟩
  · rw [← hs3]; exact cell_alloc_old _ n2
  · rw [← hs3, ← z1]; exact cell_alloc_old _ m2
  · rw [← z2]; exact n3
  · intro b c hb
    rw [← hs3, ← hs2, ← hs1]
    exact cell_alloc_old _ (cell_alloc_old _ (cell_alloc_old _ hb))
  · rw [← hs3, alloc_heap_size, z2]

/-- MODEL FINDING (witness for the `SelfEq` hypothesis): a node value is not `equals` to itself, so a list that
    stores one is not `==` to its own copy -/
theorem node_not_selfEq (st : State) (n : Node) : rveq st (.node n) (.node n) = false := by
  unfold rveq; generalize st.heap.size = m; cases m <;> rfl

/-- **`length(s[a to b])` = `max 0 (clamp b − clamp a)`** on strings, through `length` and the slice node -/
theorem length_slice_str {S A B : Node} {cs : List Char} {a b : Int} {il : Nat} {fname : String} {p p1 pos : Pos}
    {s1 s2 s3 : State}
    (hlen : s.lookup env fname = some (.native "length" il))
    (hS : Ev ld k env S s (.ok (.str cs) s1)) (hA : Ev ld k env A s1 (.ok (.int a) s2))
    (hB : Ev ld k env B s2 (.ok (.int b) s3)) :
    Ev ld (k + 4) env (.call (.ident fname p) [none] [.slice S A B p1] pos) s
      (.ok (.int (max 0 (sliceHi cs.length (some b) - sliceLo cs.length a))) s3) := by
  have h1 := (slice_str_to ld (pos := p1) (ne_absent_of_ev ld hB) hS hA hB).1
  have h2 := call_length_str ld (p := p) (pos := pos) hlen (by trivial) h1
  rw [slice_length] at h2
  have e : ((sliceHi (cs.length : Int) (some b) - sliceLo (cs.length : Int) a).toNat : Int)
      = max 0 (sliceHi cs.length (some b) - sliceLo cs.length a) := by omega
  rw [e] at h2
  exact h2

/-- … and on list cells (the slice is a new cell; `length` reads it) -/
theorem length_slice_list {S A B : Node} {c : Nat} {xs : List RVal} {a b : Int} {il : Nat} {fname : String}
    {p p1 pos : Pos} {s1 s2 s3 : State}
    (hlen : s.lookup env fname = some (.native "length" il))
    (hS : Ev ld k env S s (.ok (.ref c) s1)) (hA : Ev ld k env A s1 (.ok (.int a) s2))
    (hB : Ev ld k env B s2 (.ok (.int b) s3)) (hc : s3.cell c = some (.list xs)) :
    Ev ld (k + 4) env (.call (.ident fname p) [none] [.slice S A B p1] pos) s
      (.ok (.int (max 0 (sliceHi xs.length (some b) - sliceLo xs.length a)))
        (s3.alloc (.list (Seq.slice xs a (some b)))).1) := by
  have h1 := slice_list_to ld (pos := p1) (ne_absent_of_ev ld hB) hS hA hB hc
  have h2 := call_length_list ld (p := p) (pos := pos) hlen (by trivial) h1 (cell_alloc_new s3 _)
  rw [slice_length] at h2
  have e : ((sliceHi (xs.length : Int) (some b) - sliceLo (xs.length : Int) a).toNat : Int)
      = max 0 (sliceHi xs.length (some b) - sliceLo xs.length a) := by omega
  rw [e] at h2
  exact h2

/-- **`find(s, part) = -1 ↔ not contains`**: the int `find` returns is `-1` exactly when `part` is not a
    contiguous part of `s` … -/
theorem find_neg_one_iff_not_infix {args : List (String × RVal)} {d0 : Option RVal} {pos : Pos} {m : EvalM RVal}
    {cs t : List Char}
    (h : callPure "find" args d0 pos = some m)
    (h1 : dictGet "obj" args = some (.str cs)) (h2 : dictGet "part" args = some (.str t))
    (hk : dictGet "key" args = none) (h3 : dictGet "start" args = none) :
    ∃ r : Int, m s = .ok (.int r) s ∧ (r = -1 ↔ ¬ t <:+: cs) := by
  refine ⟨_, find_str h h1 h2 hk h3, ?_⟩
  have hi := find_nonneg_iff_infix cs t
  rcases find_range cs t 0 with e | ⟨e, _⟩
  · rw [e] at hi ⊢; constructor
    · intro _ hin; have := hi.mpr hin; omega
    · intro _; rfl
  · constructor
    · intro e'; omega
    · intro hn; exact absurd (hi.mp (by omega)) hn

/-- … and the built-in `contains(s, part)` answers TRUE exactly when it is one -/
theorem contains_iff_infix {args : List (String × RVal)} {d0 : Option RVal} {pos : Pos} {m : EvalM RVal}
    {cs t : List Char}
    (h : callPure "contains" args d0 pos = some m)
    (h1 : dictGet "obj" args = some (.str cs)) (h2 : dictGet "part" args = some (.str t)) :
    ∃ b : Bool, m s = .ok (.bool b) s ∧ (b = true ↔ t <:+: cs) := by
  refine ⟨decide (0 ≤ Seq.find cs t 0), ?_, ?_⟩
  · unfold callPure at h
    injection h with h; subst h
    simp only [argGet_of_dictGet pos h1, argGet_of_dictGet pos h2, pure_bind, dictHas_some h1]
    simp only [RVal.isNull, Bool.and_false, Bool.false_eq_true, if_false, EvalM.bind_apply, getS, cellOf,
      EvalM.pure_apply]
    rfl
  · rw [decide_eq_true_iff]; exact find_nonneg_iff_infix cs t

/-- **`delete_at(insert_at(l, i, x), i)` restores `l`**, for EVERY int `i`: the cell holds `xs` again — indeed the
    whole state is `s` again — and the call returns the inserted value (NULL when `i` is out of range for the
    insertion, where neither call changes anything) -/
theorem delete_insert_restores {L I X : Node} {a : Nat} {xs : List RVal} {i : Int} {v : RVal} {ii id : Nat}
    {fi fd : String} {p1 p2 q1 q2 : Pos}
    (hins : s.lookup env fi = some (.native "insert_at" ii))
    (hdel : s.lookup env fd = some (.native "delete_at" id))
    (hL : Ev ld k env L s (.ok (.ref a) s)) (hI : FrameConst ld k env I (.int i) s)
    (hX : Ev ld k env X s (.ok v s)) (hLn : NotSpread L) (hIn : NotSpread I) (hXn : NotSpread X)
    (hc : s.cell a = some (.list xs)) :
    Ev ld (k + 9) env
      (.call (.ident fd p2) [none, none] [.call (.ident fi p1) [none, none, none] [L, I, X] q1, I] q2) s
      (.ok (if -((xs.length : Int) + 1) ≤ i ∧ i ≤ xs.length then v else .null) s) := by
  have h1 := call_insert_at ld (p := p1) (pos := q1) hins hLn hIn hXn hL hI.self hX hc
  have hI' := hI (s.setCell a (.list (Seq.insertAt xs i v))) (setCell_frames _ _ _)
  have h2 := call_delete_at ld (p := p2) (pos := q2) hdel (by trivial) hIn h1 (hI'.mono ld (by omega))
    (cell_setCell_self _ hc)
  rw [deleteAt_insertAt_all, setCell_setCell, setCell_same hc] at h2
  by_cases hr : -((xs.length : Int) + 1) ≤ i ∧ i ≤ xs.length
  · rw [if_pos hr] at h2 ⊢; exact h2
  · rw [if_neg hr] at h2 ⊢; exact h2

end identities

end Ckl.C15Eval
