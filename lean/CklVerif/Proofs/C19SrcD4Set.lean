import CklVerif.Proofs.C19SrcD4
import CklVerif.Proofs.C19SrcSet
import CklVerif.Lemmas.C19SrcD4Reg
import CklVerif.Lemmas.C19SrcD4Keys

/-! # C19Src (D4) — the multi-frame library state with the module cache satisfies `ListMod`; set.ckl `union` / `symmetric_diff`
    end to end

  The state: the driver's `initialState`, then `loadModsReg_D4` (Lemmas/C19SrcD4Reg.lean) on the seven modules of `Gen/LibSrc.lean`
  with the identifiers `modKey "Core"`, …, `modKey "Type"`: frames core 2, list 3, math 4, predicate 5, set 6, string 7, type 8, all with
  parent 0, every function re-exported into frame 0, module cache `[(modKey "Core", 2), (modKey "List", 3), …]`, empty load stack.

  The `…_aux_D4` theorems take `hkey : modKey "Core" ≠ modKey "List"` as a hypothesis (the cache is searched from the front and `Core`
  is registered before `List`, so `lookup (modKey "List")` finds frame 3 only if the key of `Core` is a different string); the
  hypothesis is PROVED in Lemmas/C19SrcD4Keys.lean (`modKey_Core_ne_List_D4`: `String.splitOn` unrolled character by character), and the
  theorems without the suffix `aux` (§ "no hypothesis left", at the end) have NO hypothesis. -/
namespace Ckl.C19Src
open Ckl Ckl.C03 Ckl.Gen.LibSrc Ckl.Lib Ckl.C19
variable (ld : Loader)

/-- the seven modules with the identifiers under which `loadModule` caches them -/
def libModsReg_D4 : List (String × List Node) :=
  [(modKey "Core", coreDefs_D4), (modKey "List", listDefs_D4), (modKey "Math", mathDefs_D4),
   (modKey "Predicate", predicateDefs_D4), (modKey "Set", setDefs_D4), (modKey "String", stringDefs_D4),
   (modKey "Type", typeDefs_D4)]

theorem libModsReg_defs_D4 : libModsReg_D4.map (·.2) = libMods_D4 := rfl

/- TEST (not a theorem): the keys are the module names, in particular the hypothesis `hkey` holds -/
#guard libModsReg_D4.map (·.1) == ["Core", "List", "Math", "Predicate", "Set", "String", "Type"]
#guard modKey "Core" != modKey "List"

/-- no module frame defines the name `List` -/
theorem libFrames_noList_D4 : ∀ q ∈ libFrames_D4, "List" ∉ q.2.map defName := by
  intro q hq
  have : ((q.1 : Nat), q.2.map defName) ∈ libFrameNames_D4 := by
    rw [← libFrameNames_eq_D4]; exact List.mem_map.mpr ⟨q, hq, rfl⟩
  have h : ∀ r ∈ libFrameNames_D4, "List" ∉ r.2 := by decide
  exact h _ this

/-- **The registered multi-frame library state satisfies `ListMod` and `LibEnv`** (for `M` = session frame 1 and the module frames
    2 … 8): the cache maps `modKey "List"` to the list frame 3, which binds `append_all` to a function made from the generated
    `list_append_all` and closed over frame 3; the identifier `List` is unbound from every frame of `M` (not in the frame, parent 0,
    not in frame 0, frame 0 has no parent); the load stack is empty.  For any built-ins `natives` that contain neither `NULL`,
    `List` nor a name a module defines; fuel > 52.
    (`hkey` is discharged in the final section.) -/
theorem libState_listMod_aux_D4 (hkey : modKey "Core" ≠ modKey "List")
    (secure : Bool) (natives : List String) (hnull : "NULL" ∉ natives) (hList : "List" ∉ natives)
    (hdisj : ∀ x ∈ "NULL" :: natives, x ∉ libNames_D4) :
    ∃ s1, (∀ fuel, 52 < fuel → loadModsReg_D4 ld fuel libModsReg_D4 (initialState secure natives).1 = some s1) ∧
      LibEnv s1 (fun m => 1 ≤ m ∧ m ≤ 8) natives libSrcs_D4 ∧ ListMod s1 (fun m => 1 ≤ m ∧ m ≤ 8) ∧
      ModInv_D4 s1 natives libFrames_D4 ∧ s1.frames.size = 9 ∧ s1.frame 1 = { vars := [], parent := some 0 } ∧
      s1.modules = regsFrom_D4 2 libModsReg_D4 ∧ s1.modstack = [] ∧
      s1.out = (initialState secure natives).1.out := by
  obtain ⟨b1, b2, b3, b4⟩ := initialState_base_D4 secure natives
  obtain ⟨s1, h1, inv, hmods, hstack, hpar, hsz, hfr, _, _, hout, hz⟩ :=
    loadModsReg_inv_D4 ld libModsReg_D4 (fun m hm => libMods_ok_D4 hdisj m.2 (by
      rw [← libModsReg_defs_D4]; exact List.mem_map.mpr ⟨m, hm, rfl⟩))
      (initialState secure natives).1 [(1, [])] (initialState_modInv_D4 secure natives hnull)
  rw [initialState_frames_size] at inv hmods hsz hfr
  rw [b1] at hmods; rw [b2] at hstack; rw [b3] at hpar
  have inv' : ModInv_D4 s1 natives libFrames_D4 := inv
  have hM : modFrames_D4 libFrames_D4 = (fun m => 1 ≤ m ∧ m ≤ 8) := funext (fun m => propext (libFrames_mem_D4 m))
  have hlib : LibEnv s1 (fun m => 1 ≤ m ∧ m ≤ 8) natives libSrcs_D4 := by
    have := inv'.libEnv
    rw [libSrcs_eq_D4, hM] at this; exact this
  have hfr1 : s1.frame 1 = { vars := [], parent := some 0 } := by
    rw [hfr 1 (by decide) (by decide), initialState_frame1]
  -- `List` is unbound in frame 0
  have hL0 : dictGet "List" (s1.frame 0).vars = none := by
    rw [hz "List" (fun m hm => by
      have hm' : m.2 ∈ libMods_D4 := by rw [← libModsReg_defs_D4]; exact List.mem_map.mpr ⟨m, hm, rfl⟩
      have hall : ∀ defs ∈ libMods_D4, "List" ∉ defs.map defName := by
        intro defs hd hx
        have : "List" ∈ libNames_D4 := List.mem_flatMap.mpr ⟨defs, hd, hx⟩
        rw [libNames_eq_D4] at this; revert this; decide
      exact hall _ hm')]
    exact b4 "List" (by decide) hList
  have hlist : ((3 : EnvId), listDefs_D4) ∈ libFrames_D4 := by rw [libFrames_eq_D4]; simp
  obtain ⟨a, nm, ha1, ha2⟩ := inv'.src _ hlist list_append_all (by simp [listDefs_D4])
  refine ⟨s1, h1, hlib, ?_, inv', hsz, hfr1, by simpa using hmods, hstack, hout⟩
  refine ⟨3, .closure a, 3, ?_, by rw [hstack]; rfl, ha1, ⟨a, nm, rfl, ha2⟩, ⟨by decide, by decide⟩, ?_⟩
  · rw [hmods]
    have hne : (modKey "List" == modKey "Core") = false := beq_eq_false_iff_ne.mpr (Ne.symm hkey)
    show List.lookup (modKey "List") ((modKey "Core", 2) :: (modKey "List", 3) :: _) = some 3
    rw [List.lookup_cons, hne]
    simp only []
    rw [List.lookup_cons, beq_self_eq_true]
  · intro m hm
    obtain ⟨p, hp, rfl⟩ := (libFrames_mem_D4 m).mpr hm
    exact ⟨inv'.own p hp "List" (libFrames_noList_D4 p hp), Or.inr ⟨inv'.parent p hp, hL0, hpar⟩⟩

theorem loadNats_union_D4 : ∀ x ∈ unionNats, x ∈ loadNats := by decide

theorem libSrcs_symDiff_D4 : ∀ p ∈ symDiffSrcs, p ∈ libSrcs_D4 := by
  intro p hp
  simp only [symDiffSrcs, List.mem_cons, List.not_mem_nil, or_false] at hp
  rcases hp with rfl | rfl <;> simp [libSrcs_D4]

/-- **`union` end to end on the multi-frame state** (under `hkey`, see the header): build the registered library state `s1`
    with the 15 built-ins `loadNats`.  Then `union` resolves from the session frame 1 (through frame 0) to a function `fn` closed over
    the SET frame 6, and in `s1` — or in ANY extension `s` of it that keeps the module cache (`Ext s1 s`, `SameMods s1 s`: programs
    that allocated their data) — for ALL list-cell / set-cell arguments of scalars `Coll s va enA`, `Coll s vb enB`: the call returns a
    FRESH set cell `r` holding `Lib.unionM enA enB`, changes nothing that existed (`Ext s s'`, both arguments are the same collections
    afterwards); fuel > `enA.length + enB.length + 25`.  Inside, `require List import [append_all]` finds `List` unbound on the chain
    call frame → set frame 6 → frame 0, takes frame 3 from the module cache and imports the `append_all` closed over the LIST frame 3.
    (`hkey` is discharged in the final section.) -/
theorem libState_union_aux_D4 (hkey : modKey "Core" ≠ modKey "List") (secure : Bool) :
    ∃ s1, (∀ fuel, 52 < fuel → loadModsReg_D4 ld fuel libModsReg_D4 (initialState secure loadNats).1 = some s1) ∧
      ∃ fn, dictGet "union" (s1.frame 0).vars = some fn ∧ s1.lookup 1 "union" = some fn ∧ IsSrc s1 fn set_union 6 ∧
        ∀ (s : State), Ext s1 s → SameMods s1 s → ∀ (va vb : RVal) (enA enB : List Val), Coll s va enA → Coll s vb enB →
          ∃ r s', Ext s s' ∧ s.heap.size ≤ r ∧ s'.cell r = some (.set ((unionM enA enB).map liftV)) ∧
            Coll s' va enA ∧ Coll s' vb enB ∧
            ∀ fuel env pos, enA.length + enB.length + 25 < fuel →
              callFn ld fuel fn [("seta", va), ("setb", vb)] env pos s = .ok (.ref r) s' := by
  obtain ⟨s1, h1, hlib, hLM, inv, hsz, hfr1, _⟩ :=
    libState_listMod_aux_D4 ld hkey secure loadNats (by decide) (by decide) loadNats_disj_D4
  have hset : ((6 : EnvId), setDefs_D4) ∈ libFrames_D4 := by rw [libFrames_eq_D4]; simp
  obtain ⟨fn, hb, hl, hsrc⟩ := libState_resolves_D4 inv hfr1 hsz hset (d := set_union) (by simp [setDefs_D4])
    (libFrames_uniq_D4 (x := "union") (k := 6) (by decide))
  refine ⟨s1, h1, fn, hb, hl, hsrc, ?_⟩
  intro s e hm va vb enA enB CA CB
  obtain ⟨r, s', e', hr, hc, CA', CB', _, c⟩ := union_src ld (hlib.ext e) loadNats_union_D4 (hLM.ext hlib.lt e hm)
    (m := 6) ⟨by decide, by decide⟩ (hsrc.ext e) va vb enA enB CA CB
  exact ⟨r, s', e', hr, hc, CA', CB', c⟩

/-- the instance asked for: allocate a list cell `[1, 2, 3]` and a set cell `<<4, 2, 7>>` in the library state; `union` of them is a
    fresh set cell holding `<<1, 2, 3, 4, 7>>`; the two argument cells are unchanged; fuel > 31 -/
theorem libState_union_example_aux_D4 (hkey : modKey "Core" ≠ modKey "List") (secure : Bool) :
    ∃ s1, (∀ fuel, 52 < fuel → loadModsReg_D4 ld fuel libModsReg_D4 (initialState secure loadNats).1 = some s1) ∧
      ∃ fn, s1.lookup 1 "union" = some fn ∧ IsSrc s1 fn set_union 6 ∧
        ∃ r s', Ext ((s1.alloc (.list (([.int 1, .int 2, .int 3] : List Val).map liftV))).1.alloc
              (.set (([.int 4, .int 2, .int 7] : List Val).map liftV))).1 s' ∧ s1.heap.size + 2 ≤ r ∧
          s'.cell r = some (.set (([.int 1, .int 2, .int 3, .int 4, .int 7] : List Val).map liftV)) ∧
          s'.cell s1.heap.size = some (.list (([.int 1, .int 2, .int 3] : List Val).map liftV)) ∧
          s'.cell (s1.heap.size + 1) = some (.set (([.int 4, .int 2, .int 7] : List Val).map liftV)) ∧
          ∀ fuel env pos, 31 < fuel →
            callFn ld fuel fn [("seta", .ref s1.heap.size), ("setb", .ref (s1.heap.size + 1))] env pos
              ((s1.alloc (.list (([.int 1, .int 2, .int 3] : List Val).map liftV))).1.alloc
                (.set (([.int 4, .int 2, .int 7] : List Val).map liftV))).1 = .ok (.ref r) s' := by
  obtain ⟨s1, h1, fn, _, hl, hsrc, hall⟩ := libState_union_aux_D4 ld hkey secure
  refine ⟨s1, h1, fn, hl, hsrc, ?_⟩
  have hsA : ScalarL [.int 1, .int 2, .int 3] := fun v hv => by
    simp at hv; rcases hv with rfl | rfl | rfl <;> exact trivial
  have hsB : ScalarL [.int 4, .int 2, .int 7] := fun v hv => by
    simp at hv; rcases hv with rfl | rfl | rfl <;> exact trivial
  have hcA : ((s1.alloc (.list (([.int 1, .int 2, .int 3] : List Val).map liftV))).1.alloc
      (.set (([.int 4, .int 2, .int 7] : List Val).map liftV))).1.cell s1.heap.size
      = some (.list (([.int 1, .int 2, .int 3] : List Val).map liftV)) := by
    rw [cell_alloc_old _ _ (by rw [heap_size_alloc]; exact Nat.lt_succ_self _)]; exact cell_alloc_new _ _
  have hcB : ((s1.alloc (.list (([.int 1, .int 2, .int 3] : List Val).map liftV))).1.alloc
      (.set (([.int 4, .int 2, .int 7] : List Val).map liftV))).1.cell (s1.heap.size + 1)
      = some (.set (([.int 4, .int 2, .int 7] : List Val).map liftV)) := by
    have := cell_alloc_new (s1.alloc (.list (([.int 1, .int 2, .int 3] : List Val).map liftV))).1
      (.set (([.int 4, .int 2, .int 7] : List Val).map liftV))
    rwa [heap_size_alloc] at this
  obtain ⟨r, s', e', hr, hc, _, _, c⟩ := hall _ (((Ext.refl s1).alloc _).alloc _) ((SameMods.refl s1).alloc _ |>.alloc _)
    (.ref s1.heap.size) (.ref (s1.heap.size + 1)) _ _ (Coll.ofList hsA hcA) (Coll.ofSet hsB hcB)
  refine ⟨r, s', e', ?_, ?_, ?_, ?_, fun fuel env pos hf => c fuel env pos ?_⟩
  · have : ((s1.alloc (.list (([.int 1, .int 2, .int 3] : List Val).map liftV))).1.alloc
        (.set (([.int 4, .int 2, .int 7] : List Val).map liftV))).1.heap.size = s1.heap.size + 2 := by
      rw [heap_size_alloc, heap_size_alloc]
    rw [this] at hr; exact hr
  · rw [hc]; rfl
  · rw [e'.cell _ (cell_lt hcA)]; exact hcA
  · rw [e'.cell _ (cell_lt hcB)]; exact hcB
  · rw [length_sortedItems]; exact hf

/-- **`symmetric_diff` end to end**: resolves from the session frame to a function closed over the set frame 6, which calls `union`
    and `diff` (both resolved through the environment: frame 6 itself) — the result is `Lib.symmetricDiffM decRepr` of the
    enumerations, a FRESH set cell, `Ext`; fuel > `enA.length + enB.length + 32`. -/
theorem libState_symmetric_diff_aux_D4 (hkey : modKey "Core" ≠ modKey "List") (secure : Bool) :
    ∃ s1, (∀ fuel, 52 < fuel → loadModsReg_D4 ld fuel libModsReg_D4 (initialState secure loadNats).1 = some s1) ∧
      ∃ fn, s1.lookup 1 "symmetric_diff" = some fn ∧ IsSrc s1 fn set_symmetric_diff 6 ∧
        ∀ (s : State), Ext s1 s → SameMods s1 s → ∀ (va vb : RVal) (enA enB : List Val), Coll s va enA → Coll s vb enB →
          ∃ r s', Ext s s' ∧ s.heap.size ≤ r ∧ s'.cell r = some (.set ((symmetricDiffM decRepr enA enB).map liftV)) ∧
            Coll s' va enA ∧ Coll s' vb enB ∧
            ∀ fuel env pos, enA.length + enB.length + 32 < fuel →
              callFn ld fuel fn [("seta", va), ("setb", vb)] env pos s = .ok (.ref r) s' := by
  obtain ⟨s1, h1, hlib, hLM, inv, hsz, hfr1, _⟩ :=
    libState_listMod_aux_D4 ld hkey secure loadNats (by decide) (by decide) loadNats_disj_D4
  have hset : ((6 : EnvId), setDefs_D4) ∈ libFrames_D4 := by rw [libFrames_eq_D4]; simp
  obtain ⟨fn, _, hl, hsrc⟩ := libState_resolves_D4 inv hfr1 hsz hset (d := set_symmetric_diff) (by simp [setDefs_D4])
    (libFrames_uniq_D4 (x := "symmetric_diff") (k := 6) (by decide))
  refine ⟨s1, h1, fn, hl, hsrc, ?_⟩
  intro s e hm va vb enA enB CA CB
  exact symmetric_diff_src ld (hlib.ext e) loadNats_union_D4 libSrcs_symDiff_D4 (hLM.ext hlib.lt e hm)
    (m := 6) ⟨by decide, by decide⟩ (hsrc.ext e) va vb enA enB CA CB

/-! ## no hypothesis left -/

/-- **The registered multi-frame library state satisfies `ListMod` and `LibEnv`** — `libState_listMod_aux_D4` with the key fact proved -/
theorem libState_listMod_D4 (secure : Bool) (natives : List String) (hnull : "NULL" ∉ natives) (hList : "List" ∉ natives)
    (hdisj : ∀ x ∈ "NULL" :: natives, x ∉ libNames_D4) :
    ∃ s1, (∀ fuel, 52 < fuel → loadModsReg_D4 ld fuel libModsReg_D4 (initialState secure natives).1 = some s1) ∧
      LibEnv s1 (fun m => 1 ≤ m ∧ m ≤ 8) natives libSrcs_D4 ∧ ListMod s1 (fun m => 1 ≤ m ∧ m ≤ 8) ∧
      ModInv_D4 s1 natives libFrames_D4 ∧ s1.frames.size = 9 ∧ s1.frame 1 = { vars := [], parent := some 0 } ∧
      s1.modules = regsFrom_D4 2 libModsReg_D4 ∧ s1.modstack = [] ∧
      s1.out = (initialState secure natives).1.out :=
  libState_listMod_aux_D4 ld modKey_Core_ne_List_D4 secure natives hnull hList hdisj

/-- **`union` end to end, no hypothesis left**: in the registered library state (15 built-ins `loadNats`, seven module frames, module
    cache), `union` resolves from the session frame 1 to a function closed over the SET frame 6; in any extension of the state that keeps
    the module cache, for ALL list-cell / set-cell arguments of scalars, the call returns a FRESH set cell holding `Lib.unionM` of the
    enumerations and changes nothing that existed; fuel > `enA.length + enB.length + 25`. -/
theorem libState_union_D4 (secure : Bool) :
    ∃ s1, (∀ fuel, 52 < fuel → loadModsReg_D4 ld fuel libModsReg_D4 (initialState secure loadNats).1 = some s1) ∧
      ∃ fn, dictGet "union" (s1.frame 0).vars = some fn ∧ s1.lookup 1 "union" = some fn ∧ IsSrc s1 fn set_union 6 ∧
        ∀ (s : State), Ext s1 s → SameMods s1 s → ∀ (va vb : RVal) (enA enB : List Val), Coll s va enA → Coll s vb enB →
          ∃ r s', Ext s s' ∧ s.heap.size ≤ r ∧ s'.cell r = some (.set ((unionM enA enB).map liftV)) ∧
            Coll s' va enA ∧ Coll s' vb enB ∧
            ∀ fuel env pos, enA.length + enB.length + 25 < fuel →
              callFn ld fuel fn [("seta", va), ("setb", vb)] env pos s = .ok (.ref r) s' :=
  libState_union_aux_D4 ld modKey_Core_ne_List_D4 secure

/-- `union([1, 2, 3], <<4, 2, 7>>) = <<1, 2, 3, 4, 7>>` on freshly allocated cells of the library state, no hypothesis left -/
theorem libState_union_example_D4 (secure : Bool) :
    ∃ s1, (∀ fuel, 52 < fuel → loadModsReg_D4 ld fuel libModsReg_D4 (initialState secure loadNats).1 = some s1) ∧
      ∃ fn, s1.lookup 1 "union" = some fn ∧ IsSrc s1 fn set_union 6 ∧
        ∃ r s', Ext ((s1.alloc (.list (([.int 1, .int 2, .int 3] : List Val).map liftV))).1.alloc
              (.set (([.int 4, .int 2, .int 7] : List Val).map liftV))).1 s' ∧ s1.heap.size + 2 ≤ r ∧
          s'.cell r = some (.set (([.int 1, .int 2, .int 3, .int 4, .int 7] : List Val).map liftV)) ∧
          s'.cell s1.heap.size = some (.list (([.int 1, .int 2, .int 3] : List Val).map liftV)) ∧
          s'.cell (s1.heap.size + 1) = some (.set (([.int 4, .int 2, .int 7] : List Val).map liftV)) ∧
          ∀ fuel env pos, 31 < fuel →
            callFn ld fuel fn [("seta", .ref s1.heap.size), ("setb", .ref (s1.heap.size + 1))] env pos
              ((s1.alloc (.list (([.int 1, .int 2, .int 3] : List Val).map liftV))).1.alloc
                (.set (([.int 4, .int 2, .int 7] : List Val).map liftV))).1 = .ok (.ref r) s' :=
  libState_union_example_aux_D4 ld modKey_Core_ne_List_D4 secure

/-- **`symmetric_diff` end to end, no hypothesis left** -/
theorem libState_symmetric_diff_D4 (secure : Bool) :
    ∃ s1, (∀ fuel, 52 < fuel → loadModsReg_D4 ld fuel libModsReg_D4 (initialState secure loadNats).1 = some s1) ∧
      ∃ fn, s1.lookup 1 "symmetric_diff" = some fn ∧ IsSrc s1 fn set_symmetric_diff 6 ∧
        ∀ (s : State), Ext s1 s → SameMods s1 s → ∀ (va vb : RVal) (enA enB : List Val), Coll s va enA → Coll s vb enB →
          ∃ r s', Ext s s' ∧ s.heap.size ≤ r ∧ s'.cell r = some (.set ((symmetricDiffM decRepr enA enB).map liftV)) ∧
            Coll s' va enA ∧ Coll s' vb enB ∧
            ∀ fuel env pos, enA.length + enB.length + 32 < fuel →
              callFn ld fuel fn [("seta", va), ("setb", vb)] env pos s = .ok (.ref r) s' :=
  libState_symmetric_diff_aux_D4 ld modKey_Core_ne_List_D4 secure

/- TESTS (executed, not theorems): the registered state built with the driver's `sessionLoader` and fuel 53 has the cache entry
   `"List" ↦ 3`, an empty load stack, `List` unbound in frame 0; and the call node `union([1, 2, 3], <<4, 2, 7>>)` evaluated in the
   session frame 1 of that state returns a set cell holding `<<1, 2, 3, 4, 7>>` -/
#guard (match loadModsReg_D4 (sessionLoader [] [] [] []) 53 libModsReg_D4 (initialState false loadNats).1 with
  | some s => s.modules.lookup (modKey "List") == some 3 && s.modstack.isEmpty &&
      (dictGet "List" (s.frame 0).vars).isNone && s.frames.size == 9
  | none => false)

#guard (match loadModsReg_D4 (sessionLoader [] [] [] []) 53 libModsReg_D4 (initialState false loadNats).1 with
  | some s =>
    (match eval (sessionLoader [] [] [] []) 200 1
        (.call (.ident "union" default) [none, none]
          [.list [.lit (.int 1) default, .lit (.int 2) default, .lit (.int 3) default] default,
           .set [.lit (.int 4) default, .lit (.int 2) default, .lit (.int 7) default] default] default) s with
      | .ok (.ref r) s' =>
        (match s'.cell r with
         | some (.set [.int 1, .int 2, .int 3, .int 4, .int 7]) => true
         | _ => false)
      | _ => false)
  | none => false)

end Ckl.C19Src
