/- C09 (evaluator level): axiom audit -/
import CklVerif.Proofs.C09Eval
open Ckl.C09E

#print axioms noEff_iff
#print axioms clean_iff
#print axioms allP
#print axioms eval_preserves_noEff
#print axioms eval_ok_noEff
#print axioms eval_err_noEff
#print axioms eval_fail_noEff
#print axioms callFn_preserves_noEff
#print axioms invoke_preserves_noEff
#print axioms evalRequire_preserves_noEff
#print axioms interpretProg_preserves_noEff
#print axioms session_preserves_noEff
#print axioms secure_flag_constant
#print axioms secure_flag_constant_interpret
#print axioms secure_flag_constant_callFn
#print axioms secure_flag_constant_require
#print axioms secure_flag_constant_session
#print axioms eval_indep_effectful
#print axioms interpretProg_indep_effectful
#print axioms callFn_indep_effectful
#print axioms evalRequire_indep_effectful
#print axioms session_indep_effectful
#print axioms bind_native_refuses
#print axioms bind_native_refuses_state
#print axioms initialState_inv
#print axioms initialState_noEff
#print axioms modelled_not_effectful
#print axioms default_nativeClean
#print axioms default_keepsSecure
#print axioms evil_diff
