import CklVerif.Proofs.C01Lexer
#print axioms Ckl.C01.scan_total
#print axioms Ckl.C01.scan_deterministic
#print axioms Ckl.C01.scan_int_tokens
#print axioms Ckl.C01.hex_literal
#print axioms Ckl.C01.bin_literal
#print axioms Ckl.C01.int_underscores
#print axioms Ckl.C01.scan_hex_literal
#print axioms Ckl.C01.scan_bin_literal
#print axioms Ckl.C01.scan_int_underscores
