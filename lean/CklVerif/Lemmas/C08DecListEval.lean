/-
  C08 (decimals inside lists) — evaluator part: the literal AST (`NodeIsD`) of a data value built
  from NULL, booleans, ints, strings, decimals and nested lists (`IsDataD`) evaluates to a heap
  value that represents exactly that value (`RepD`); such a representation reifies to the value,
  has its type name and prints (`str(…)`) as its text.  With `roundtrip_dataD` this gives
  print ∘ eval ∘ parse ∘ scan ∘ print = print on these values (`roundtrip_textD`).

  `decRepr m e` / `render (.dec m e)` is never unfolded on variables: the decimal cases only use
  the equation lemmas of `eval`, `reifyF`, `rrenderF`.
-/
import CklVerif.Lemmas.C08DecList
import CklVerif.Proofs.C08Full
namespace Ckl.C08DL
open Ckl Ckl.C08 Ckl.C08F

/-! ### heap representations -/

mutual
  /-- `RepD h v n r`: the runtime value `r` represents the data value `v` in the heap `h`, using
      only cells below `n`, every cell referring only to cells below itself -/
  def RepD (h : Array Cell) : Val → Nat → RVal → Prop
    | .null, _, r => r = .null
    | .bool b, _, r => r = .bool b
    | .int n, _, r => r = .int n
    | .str s, _, r => r = .str s
    | .dec m e, _, r => r = .dec m e
    | .list vs, n, r => ∃ a rs, r = .ref a ∧ a < n ∧ h[a]? = some (.list rs) ∧ RepDL h vs a rs
    | _, _, _ => False
  def RepDL (h : Array Cell) : List Val → Nat → List RVal → Prop
    | [], _, rs => rs = []
    | v :: vs, n, rs => ∃ r rs', rs = r :: rs' ∧ RepD h v n r ∧ RepDL h vs n rs'
end

mutual
  /-- fuel that suffices to evaluate the literal AST of a value -/
  def needD : Val → Nat
    | .list xs => needDL xs + 1
    | _ => 1
  def needDL : List Val → Nat
    | [] => 1
    | x :: xs => max (needD x) (needDL xs) + 1
end

mutual
  /-- representations survive heap growth and a larger bound -/
  theorem repD_mono {h h' : Array Cell} : ∀ (v : Val) {n n' : Nat} {r : RVal}, RepD h v n r → n ≤ n' →
      (∀ a, a < n → h'[a]? = h[a]?) → RepD h' v n' r
    | .null, _, _, _, hr, _, _ => hr
    | .bool _, _, _, _, hr, _, _ => hr
    | .int _, _, _, _, hr, _, _ => hr
    | .str _, _, _, _, hr, _, _ => hr
    | .dec _ _, _, _, _, hr, _, _ => hr
    | .list vs, n, n', r, hr, hn, hh => by
      obtain ⟨a, rs, rfl, ha, hc, hl⟩ := hr
      exact ⟨a, rs, rfl, by omega, by rw [hh a ha]; exact hc,
        repDL_mono vs hl (Nat.le_refl _) (fun b hb => hh b (by omega))⟩
    | .set _, _, _, _, hr, _, _ => by simp [RepD] at hr
    | .map _, _, _, _, hr, _, _ => by simp [RepD] at hr
    | .pat _, _, _, _, hr, _, _ => by simp [RepD] at hr
    | .date _, _, _, _, hr, _, _ => by simp [RepD] at hr
  theorem repDL_mono {h h' : Array Cell} : ∀ (vs : List Val) {n n' : Nat} {rs : List RVal},
      RepDL h vs n rs → n ≤ n' → (∀ a, a < n → h'[a]? = h[a]?) → RepDL h' vs n' rs
    | [], _, _, _, hr, _, _ => hr
    | v :: vs, n, n', rs, hr, hn, hh => by
      obtain ⟨r, rs', rfl, h1, h2⟩ := hr
      exact ⟨r, rs', rfl, repD_mono v h1 hn hh, repDL_mono vs h2 hn hh⟩
end

theorem HeapExt.repD {s s' : State} (h : HeapExt s s') {v : Val} {r : RVal}
    (hr : RepD s.heap v s.heap.size r) : RepD s'.heap v s'.heap.size r :=
  repD_mono v hr h.size (fun a ha => h.get a ha)

theorem HeapExt.repDL {s s' : State} (h : HeapExt s s') {vs : List Val} {rs : List RVal}
    (hr : RepDL s.heap vs s.heap.size rs) : RepDL s'.heap vs s'.heap.size rs :=
  repDL_mono vs hr h.size (fun a ha => h.get a ha)

theorem repD_alloc_list {s : State} {vs : List Val} {rs : List RVal}
    (hr : RepDL s.heap vs s.heap.size rs) :
    RepD (s.heap.push (.list rs)) (.list vs) (s.heap.push (.list rs)).size (.ref s.heap.size) :=
  ⟨s.heap.size, rs, rfl, by simp, by simp,
    repDL_mono vs hr (Nat.le_refl _) (fun a ha => (HeapExt.push s (.list rs)).get a ha)⟩

/-! ### inversion of `NodeIsD` -/

theorem nodeIsD_null {n : Node} (h : NodeIsD .null n) : ∃ p, n = .ident "NULL" p := by
  cases n with
  | ident name p => simp only [NodeIsD] at h; subst h; exact ⟨p, rfl⟩
  | lit l p => cases l <;> simp only [NodeIsD] at h
  | _ => simp only [NodeIsD] at h

theorem nodeIsD_bool {b : Bool} {n : Node} (h : NodeIsD (.bool b) n) : ∃ p, n = .lit (.bool b) p := by
  cases n with
  | lit l p =>
    cases l <;> simp only [NodeIsD] at h
    subst h; exact ⟨p, rfl⟩
  | _ => simp only [NodeIsD] at h

theorem nodeIsD_int {k : Int} {n : Node} (h : NodeIsD (.int k) n) : ∃ p, n = .lit (.int k) p := by
  cases n with
  | lit l p =>
    cases l <;> simp only [NodeIsD] at h
    subst h; exact ⟨p, rfl⟩
  | _ => simp only [NodeIsD] at h

theorem nodeIsD_str {x : List Char} {n : Node} (h : NodeIsD (.str x) n) : ∃ p, n = .lit (.str x) p := by
  cases n with
  | lit l p =>
    cases l <;> simp only [NodeIsD] at h
    subst h; exact ⟨p, rfl⟩
  | _ => simp only [NodeIsD] at h

theorem nodeIsD_dec {m : Int} {e : Nat} {n : Node} (h : NodeIsD (.dec m e) n) :
    ∃ p, n = .lit (.dec m e) p := by
  cases n with
  | lit l p =>
    cases l <;> simp only [NodeIsD] at h
    obtain ⟨rfl, rfl⟩ := h; exact ⟨p, rfl⟩
  | _ => simp only [NodeIsD] at h

theorem nodeIsD_list {xs : List Val} {n : Node} (h : NodeIsD (.list xs) n) :
    ∃ ns p, n = .list ns p ∧ NodeIsDL xs ns := by
  cases n with
  | list ns p => simp only [NodeIsD] at h; exact ⟨ns, p, rfl, h⟩
  | lit l p => cases l <;> simp only [NodeIsD] at h
  | _ => simp only [NodeIsD] at h

theorem nodeIsDL_nil {ns : List Node} (h : NodeIsDL [] ns) : ns = [] := by
  cases ns with
  | nil => rfl
  | cons _ _ => simp only [NodeIsDL] at h

theorem nodeIsDL_cons {x : Val} {xs : List Val} {ns : List Node} (h : NodeIsDL (x :: xs) ns) :
    ∃ n ns', ns = n :: ns' ∧ NodeIsD x n ∧ NodeIsDL xs ns' := by
  cases ns with
  | nil => simp only [NodeIsDL] at h
  | cons n ns' => simp only [NodeIsDL] at h; exact ⟨n, ns', rfl, h.1, h.2⟩

theorem nodeIsD_not_spread {v : Val} {n : Node} (h : NodeIsD v n) : ∀ e p, n ≠ .spread e p := by
  intro e p hn; subst hn
  cases v <;> simp only [NodeIsD] at h

/-! ### evaluation -/

mutual
  /-- **eval_valD**: with enough fuel, in any environment where `NULL` denotes null, the literal
      AST of a data value (decimals included) evaluates without error; the heap only grows, and
      the result represents exactly that value -/
  theorem eval_valD (ld : Loader) : ∀ (v : Val), IsDataD v → ∀ (n : Node), NodeIsD v n →
      ∀ (fuel : Nat), needD v ≤ fuel → ∀ (env : EnvId) (s : State),
      s.lookup env "NULL" = some .null →
      ∃ r s', eval ld fuel env n s = .ok r s' ∧ HeapExt s s' ∧ RepD s'.heap v s'.heap.size r
    | .null, _, n, hn, fuel, hf, env, s, hnull => by
      obtain ⟨p, rfl⟩ := nodeIsD_null hn
      obtain ⟨f, rfl⟩ : ∃ f, fuel = f + 1 := ⟨fuel - 1, by simp only [needD] at hf; omega⟩
      refine ⟨.null, s, ?_, HeapExt.refl s, rfl⟩
      simp only [eval, bind, EvalM.bind', getS, hnull, pure, EvalM.pure']
    | .bool b, _, n, hn, fuel, hf, env, s, _ => by
      obtain ⟨p, rfl⟩ := nodeIsD_bool hn
      obtain ⟨f, rfl⟩ : ∃ f, fuel = f + 1 := ⟨fuel - 1, by simp only [needD] at hf; omega⟩
      exact ⟨.bool b, s, by simp only [eval, pure, EvalM.pure'], HeapExt.refl s, rfl⟩
    | .int k, _, n, hn, fuel, hf, env, s, _ => by
      obtain ⟨p, rfl⟩ := nodeIsD_int hn
      obtain ⟨f, rfl⟩ : ∃ f, fuel = f + 1 := ⟨fuel - 1, by simp only [needD] at hf; omega⟩
      exact ⟨.int k, s, by simp only [eval, pure, EvalM.pure'], HeapExt.refl s, rfl⟩
    | .str x, _, n, hn, fuel, hf, env, s, _ => by
      obtain ⟨p, rfl⟩ := nodeIsD_str hn
      obtain ⟨f, rfl⟩ : ∃ f, fuel = f + 1 := ⟨fuel - 1, by simp only [needD] at hf; omega⟩
      exact ⟨.str x, s, by simp only [eval, pure, EvalM.pure'], HeapExt.refl s, rfl⟩
    | .dec m e, _, n, hn, fuel, hf, env, s, _ => by
      obtain ⟨p, rfl⟩ := nodeIsD_dec hn
      obtain ⟨f, rfl⟩ : ∃ f, fuel = f + 1 := ⟨fuel - 1, by simp only [needD] at hf; omega⟩
      exact ⟨.dec m e, s, by simp only [eval, pure, EvalM.pure'], HeapExt.refl s, rfl⟩
    | .list vs, hd, n, hn, fuel, hf, env, s, hnull => by
      obtain ⟨ns, p, rfl, hns⟩ := nodeIsD_list hn
      obtain ⟨f, rfl⟩ : ∃ f, fuel = f + 1 := ⟨fuel - 1, by simp only [needD] at hf; omega⟩
      simp only [IsDataD] at hd
      obtain ⟨rs, s1, he, hx, hr⟩ := eval_itemsD ld vs hd ns hns f (by simp only [needD] at hf; omega)
        env p s hnull
      refine ⟨.ref s1.heap.size, { s1 with heap := s1.heap.push (.list rs) }, ?_,
        hx.trans (HeapExt.push s1 _), repD_alloc_list hr⟩
      simp only [eval, bind, EvalM.bind', he, newList, allocM, State.alloc]
    | .set _, hd, _, _, _, _, _, _, _ => by simp [IsDataD] at hd
    | .map _, hd, _, _, _, _, _, _, _ => by simp [IsDataD] at hd
    | .pat _, hd, _, _, _, _, _, _, _ => by simp [IsDataD] at hd
    | .date _, hd, _, _, _, _, _, _, _ => by simp [IsDataD] at hd
  theorem eval_itemsD (ld : Loader) : ∀ (vs : List Val), IsDataDL vs → ∀ (ns : List Node),
      NodeIsDL vs ns → ∀ (fuel : Nat), needDL vs ≤ fuel → ∀ (env : EnvId) (pos : Pos) (s : State),
      s.lookup env "NULL" = some .null →
      ∃ rs s', evalItems ld fuel env ns pos s = .ok rs s' ∧ HeapExt s s' ∧
        RepDL s'.heap vs s'.heap.size rs
    | [], _, ns, hns, fuel, hf, env, pos, s, _ => by
      have := nodeIsDL_nil hns; subst this
      obtain ⟨f, rfl⟩ : ∃ f, fuel = f + 1 := ⟨fuel - 1, by simp only [needDL] at hf; omega⟩
      exact ⟨[], s, by simp only [evalItems, pure, EvalM.pure'], HeapExt.refl s, rfl⟩
    | v :: vs, hd, ns, hns, fuel, hf, env, pos, s, hnull => by
      obtain ⟨n, ns', rfl, hn, hns'⟩ := nodeIsDL_cons hns
      obtain ⟨f, rfl⟩ : ∃ f, fuel = f + 1 := ⟨fuel - 1, by simp only [needDL] at hf; omega⟩
      simp only [IsDataDL] at hd
      simp only [needDL] at hf
      obtain ⟨r, s1, he, hx1, hr1⟩ := eval_valD ld v hd.1 n hn f (by omega) env s hnull
      obtain ⟨rs, s2, hes, hx2, hr2⟩ := eval_itemsD ld vs hd.2 ns' hns' f (by omega) env pos s1
        (by rw [hx1.lookup]; exact hnull)
      refine ⟨r :: rs, s2, ?_, hx1.trans hx2, ⟨r, rs, rfl, HeapExt.repD hx2 hr1, hr2⟩⟩
      rw [evalItems_cons ld f env n ns' pos (nodeIsD_not_spread hn)]
      simp only [bind, EvalM.bind', he, hes, pure, EvalM.pure']
end

/-! ### reification, type name, printing -/

mutual
  /-- a representation reifies to the value it represents -/
  theorem repD_reify {h : Array Cell} : ∀ (v : Val), IsDataD v → ∀ {n : Nat} {r : RVal},
      RepD h v n r → ∀ fuel, n ≤ fuel → reifyF decRepr h fuel r = some v
    | .null, _, _, _, hr, fuel, _ => by subst hr; cases fuel <;> rfl
    | .bool _, _, _, _, hr, fuel, _ => by subst hr; cases fuel <;> rfl
    | .int _, _, _, _, hr, fuel, _ => by subst hr; cases fuel <;> rfl
    | .str _, _, _, _, hr, fuel, _ => by subst hr; cases fuel <;> rfl
    | .dec _ _, _, _, _, hr, fuel, _ => by subst hr; cases fuel <;> simp only [reifyF]
    | .list vs, hd, n, r, hr, fuel, hf => by
      obtain ⟨a, rs, rfl, ha, hc, hl⟩ := hr
      obtain ⟨f, rfl⟩ : ∃ f, fuel = f + 1 := ⟨fuel - 1, by omega⟩
      simp only [IsDataD] at hd
      simp only [reifyF, hc, repDL_reify vs hd hl f (by omega), Option.map_some]
    | .set _, hd, _, _, _, _, _ => by simp [IsDataD] at hd
    | .map _, hd, _, _, _, _, _ => by simp [IsDataD] at hd
    | .pat _, hd, _, _, _, _, _ => by simp [IsDataD] at hd
    | .date _, hd, _, _, _, _, _ => by simp [IsDataD] at hd
  theorem repDL_reify {h : Array Cell} : ∀ (vs : List Val), IsDataDL vs → ∀ {n : Nat}
      {rs : List RVal}, RepDL h vs n rs → ∀ fuel, n ≤ fuel →
      rs.mapM (reifyF decRepr h fuel) = some vs
    | [], _, _, _, hr, _, _ => by subst hr; rfl
    | v :: vs, hd, n, rs, hr, fuel, hf => by
      obtain ⟨r, rs', rfl, h1, h2⟩ := hr
      simp only [IsDataDL] at hd
      simp only [List.mapM_cons, repD_reify v hd.1 h1 fuel hf, repDL_reify vs hd.2 h2 fuel hf,
        bind, Option.bind, pure]
end

/-- `type(value)` of a representation is the type name of the value -/
theorem repD_typeName {s : State} {v : Val} {n : Nat} {r : RVal} (hd : IsDataD v)
    (hr : RepD s.heap v n r) : typeName s r = v.typeName := by
  cases v with
  | null => subst hr; rfl
  | bool b => subst hr; rfl
  | int k => subst hr; rfl
  | str x => subst hr; rfl
  | dec m e => subst hr; rfl
  | list vs => obtain ⟨a, rs, rfl, ha, hc, hl⟩ := hr; simp [typeName, State.cell, hc, Val.typeName]
  | set vs => simp [IsDataD] at hd
  | map vs => simp [IsDataD] at hd
  | pat _ => simp [IsDataD] at hd
  | date _ => simp [IsDataD] at hd

mutual
  /-- `str(value)` of a representation is the text of the value -/
  theorem repD_rrender {s : State} : ∀ (v : Val), IsDataD v → ∀ {n : Nat} {r : RVal},
      RepD s.heap v n r → n ≤ s.heap.size → ∀ fuel, n < fuel → rrenderF s fuel r = some (render v)
    | .null, _, _, _, hr, _, fuel, hf => by
      subst hr; obtain ⟨f, rfl⟩ : ∃ f, fuel = f + 1 := ⟨fuel - 1, by omega⟩
      simp only [rrenderF, reify, reifyF, Option.map_some]
    | .bool _, _, _, _, hr, _, fuel, hf => by
      subst hr; obtain ⟨f, rfl⟩ : ∃ f, fuel = f + 1 := ⟨fuel - 1, by omega⟩
      simp only [rrenderF, reify, reifyF, Option.map_some]
    | .int _, _, _, _, hr, _, fuel, hf => by
      subst hr; obtain ⟨f, rfl⟩ : ∃ f, fuel = f + 1 := ⟨fuel - 1, by omega⟩
      simp only [rrenderF, reify, reifyF, Option.map_some]
    | .str _, _, _, _, hr, _, fuel, hf => by
      subst hr; obtain ⟨f, rfl⟩ : ∃ f, fuel = f + 1 := ⟨fuel - 1, by omega⟩
      simp only [rrenderF, reify, reifyF, Option.map_some]
    | .dec _ _, _, _, _, hr, _, fuel, hf => by
      subst hr; obtain ⟨f, rfl⟩ : ∃ f, fuel = f + 1 := ⟨fuel - 1, by omega⟩
      simp only [rrenderF, reify, reifyF, Option.map_some]
    | .list vs, hd, n, r, hr, hn, fuel, hf => by
      obtain ⟨a, rs, rfl, ha, hc, hl⟩ := hr
      obtain ⟨f, rfl⟩ : ∃ f, fuel = f + 1 := ⟨fuel - 1, by omega⟩
      simp only [IsDataD] at hd
      have hp := repDL_rrender vs hd hl (by omega) f (by omega)
      simp only [rrenderF, State.cell, hc, hp, bind, Option.bind, pure, render, renderWith,
        renderL_eq_map]
    | .set _, hd, _, _, _, _, _, _ => by simp [IsDataD] at hd
    | .map _, hd, _, _, _, _, _, _ => by simp [IsDataD] at hd
    | .pat _, hd, _, _, _, _, _, _ => by simp [IsDataD] at hd
    | .date _, hd, _, _, _, _, _, _ => by simp [IsDataD] at hd
  theorem repDL_rrender {s : State} : ∀ (vs : List Val), IsDataDL vs → ∀ {n : Nat}
      {rs : List RVal}, RepDL s.heap vs n rs → n ≤ s.heap.size → ∀ fuel, n < fuel →
      rs.mapM (rrenderF s fuel) = some (vs.map render)
    | [], _, _, _, hr, _, _, _ => by simp only [RepDL] at hr; subst hr; rfl
    | v :: vs, hd, n, rs, hr, hn, fuel, hf => by
      obtain ⟨r, rs', rfl, h1, h2⟩ := hr
      simp only [IsDataDL] at hd
      simp only [List.mapM_cons, repD_rrender v hd.1 h1 hn fuel hf, repDL_rrender vs hd.2 h2 hn fuel hf,
        bind, Option.bind, pure, List.map_cons]
end

/-! ### the round trip through the evaluator -/

/-- **roundtrip_evalD**: for every data value `v` built from NULL, booleans, ints, strings, decimals
    and nested lists, and every literal AST `n` of `v`, in any state and environment where the name
    `NULL` denotes null and with at least `needD v` units of fuel, the evaluation of `n` succeeds;
    it only appends cells to the heap; the result reifies to EXACTLY `v`, has the type name of `v`
    and prints (`str(…)`) as the text of `v`. -/
theorem roundtrip_evalD (ld : Loader) (v : Val) (hv : IsDataD v) (n : Node) (hn : NodeIsD v n)
    (fuel : Nat) (hf : needD v ≤ fuel) (env : EnvId) (s : State)
    (hnull : s.lookup env "NULL" = some .null) :
    ∃ r s', eval ld fuel env n s = .ok r s' ∧ HeapExt s s' ∧ reify s' r = some v ∧
      typeName s' r = v.typeName ∧ rrender s' r = some (render v) := by
  obtain ⟨r, s', he, hx, hr⟩ := eval_valD ld v hv n hn fuel hf env s hnull
  exact ⟨r, s', he, hx, repD_reify v hv hr _ (Nat.le_succ _), repD_typeName hv hr,
    repD_rrender v hv hr (Nat.le_refl _) _ (Nat.lt_succ_self _)⟩

/-- **roundtrip_textD**: printing such a data value (decimals included), then scanning, parsing and
    evaluating the text (alone or followed by whitespace) and printing the result gives the same
    text. -/
theorem roundtrip_textD (ld : Loader) (v : Val) (hv : IsDataD v) (hd : DigitsOKD v) (w : List Char)
    (hw : ∀ c ∈ w, c ∈ [' ', '\t', '\r', '\n']) (fuel : Nat) (hf : needD v ≤ fuel) (env : EnvId)
    (s : State) (hnull : s.lookup env "NULL" = some .null) :
    C08F.pipeline ld fuel env s (render v ++ w) = some (render v) := by
  obtain ⟨n, hp, hn⟩ := roundtrip_dataD "-" v hv hd w hw
  obtain ⟨r, s', he, _, _, _, hrr⟩ := roundtrip_evalD ld v hv n hn fuel hf env s hnull
  unfold C08F.pipeline
  rw [hp]
  simp only [he]
  exact hrr

/-- … and the value obtained is the original one, of the same type -/
theorem roundtrip_valueD (ld : Loader) (v : Val) (hv : IsDataD v) (hd : DigitsOKD v) (w : List Char)
    (hw : ∀ c ∈ w, c ∈ [' ', '\t', '\r', '\n']) (fuel : Nat) (hf : needD v ≤ fuel) (env : EnvId)
    (s : State) (hnull : s.lookup env "NULL" = some .null) :
    ∃ n r s', parseScript (render v ++ w) "-" = .ok n ∧ eval ld fuel env n s = .ok r s' ∧
      reify s' r = some v ∧ typeName s' r = v.typeName ∧ rrender s' r = some (render v) := by
  obtain ⟨n, hp, hn⟩ := roundtrip_dataD "-" v hv hd w hw
  obtain ⟨r, s', he, _, h1, h2, h3⟩ := roundtrip_evalD ld v hv n hn fuel hf env s hnull
  exact ⟨n, r, s', hp, he, h1, h2, h3⟩

/-! ### non-vacuity -/

/-- `[0.1, -0.25, [1, 'a', 1.5], NULL]`
    (0.1 = 3602879701896397 / 2^55, -0.25 = -1 / 2^2, 1.5 = 3 / 2^1) -/
def exD : Val :=
  .list [.dec 3602879701896397 55, .dec (-1) 2, .list [.int 1, .str ['a'], .dec 3 1], .null]

theorem exD_data : IsDataD exD := by
  simp only [exD, IsDataD, IsDataDL, and_true, true_and]
  refine ⟨?_, ?_, ?_⟩ <;> decide +kernel

theorem exD_digits : DigitsOKD exD := by
  simp only [exD, DigitsOKD, DigitsOKDL, and_true, true_and]
  decide

theorem exD_need : needD exD = 9 := by
  simp only [exD, needD, needDL]; decide

example : C08F.pipeline {} 100 0 C08F.s0 (render exD ++ ['\n']) = some (render exD) :=
  roundtrip_textD {} exD exD_data exD_digits ['\n'] (by decide) 100 (by rw [exD_need]; decide) 0 C08F.s0 C08F.s0_null

example : ∃ n r s', parseScript (render exD ++ []) "-" = .ok n ∧ eval {} 100 0 n C08F.s0 = .ok r s' ∧
    reify s' r = some exD ∧ typeName s' r = exD.typeName ∧ rrender s' r = some (render exD) :=
  roundtrip_valueD {} exD exD_data exD_digits [] (by simp) 100 (by rw [exD_need]; decide) 0 C08F.s0 C08F.s0_null

example (p : Pos) : ∃ r s', eval {} 9 0
      (.list [.lit (.dec (-1) 2) p, .list [.lit (.dec 3 1) p, .ident "NULL" p] p] p) C08F.s0 = .ok r s' ∧
    HeapExt C08F.s0 s' ∧ reify s' r = some (.list [.dec (-1) 2, .list [.dec 3 1, .null]]) ∧
    typeName s' r = "list" ∧ rrender s' r = some (render (.list [.dec (-1) 2, .list [.dec 3 1, .null]])) :=
  roundtrip_evalD {} (.list [.dec (-1) 2, .list [.dec 3 1, .null]])
    (by simp only [IsDataD, IsDataDL, and_true]; refine ⟨?_, ?_⟩ <;> decide +kernel) _
    (by simp [NodeIsD, NodeIsDL]) 9 (by simp only [needD, needDL]; decide) 0 C08F.s0 C08F.s0_null

-- tests of the executable model (not theorems): the compiled pipeline on the example text
#guard render exD = "[0.1, -0.25, [1, 'a', 1.5], NULL]".toList
#guard C08F.pipeline {} 100 0 C08F.s0 "[0.1, -0.25, [1, 'a', 1.5], NULL]".toList
  == some "[0.1, -0.25, [1, 'a', 1.5], NULL]".toList
#guard C08F.pipeline {} 100 0 C08F.s0 (render exD ++ ['\n']) == some (render exD)
#guard needD exD == 9
-- the fuel bound `needD` is exact on the example: 9 units suffice, 8 do not
#guard C08F.pipeline {} 9 0 C08F.s0 (render exD) == some (render exD)
#guard C08F.pipeline {} 8 0 C08F.s0 (render exD) == none

end Ckl.C08DL
