/-
  C14 (redundant parentheses) — extension lemmas, part D: block loops, statements, `def`, `if`.
-/
import CklVerif.Lemmas.C14ParensHyp
namespace Ckl.C14X
open Ckl Ckl.Parser

local notation "kw" => (some TokType.keyword)
local notation "ip" => (some TokType.interpunction)
local notation "op" => (some TokType.operator)
local notation "idt" => (some TokType.identifier)

set_option linter.unusedSimpArgs false
set_option linter.unusedVariables false

variable {x : Ext}

/-- the same check (`checkRedefineKeyword t`, `checkExpectedIdentifier t`) in both runs -/
theorem ERel_self {A : Type} (y : Except PErr A) : ERel (fun _ _ => True) y y := by
  cases y <;> trivial

theorem sim_blockLoop {c c' : Ctx} {st st' : St} {acc : List Node} (H : Hyp x (st.toks.length * 16 + 12))
    (hc : CRel c c') (hs : SRel x st st') :
    ERel (OLe x) (blockLoop c st acc) (blockLoop c' st' acc) := by
  rcases isEndCatchFinally_cases hs with hp | h0
  rotate_left
  · rw [blockLoop_nil h0]; exact ERel.err
  rw [blockLoop, blockLoop, hp]
  bif hb : isEndCatchFinally st
  · exact ⟨rfl, hs⟩
  · ebind (blockOrStmt_rel H hc hs (by omega)) with e s1 h1 s1' h1' hs1
    rcases isEndCatchFinally_cases hs1 with hp1 | h1nil
    · rw [hp1]
      bif hb2 : isEndCatchFinally s1
      · exact ⟨rfl, hs1⟩
      · sbind (expect_rel hs1 _ _) with s2 h2 s2' h2' hs2
        ebind (H.blockLoop hc hs2 (by omega)) with r s3 h3 s3' h3' hs3
        exact ⟨rfl, hs3⟩
    · simp [isEndCatchFinally_nil h1nil, expect_nil h1nil]

theorem sim_finallyLoop {c c' : Ctx} {st st' : St} {acc : List Node} (H : Hyp x (st.toks.length * 16 + 12))
    (hc : CRel c c') (hs : SRel x st st') :
    ERel (OLe x) (finallyLoop c st acc) (finallyLoop c' st' acc) := by
  rcases peekn1_cases hs c!"end" kw with hp | h0
  rotate_left
  · rw [finallyLoop_nil h0]; exact ERel.err
  rw [finallyLoop, finallyLoop, hp]
  bif hb : st.peekn 1 c!"end" kw
  · exact ⟨rfl, hs⟩
  · ebind (blockOrStmt_rel H hc hs (by omega)) with e s1 h1 s1' h1' hs1
    rcases peekn1_cases hs1 c!"end" kw with hp1 | h1nil
    · rw [hp1]
      bif hb2 : s1.peekn 1 c!"end" kw
      · exact ⟨rfl, hs1⟩
      · sbind (expect_rel hs1 _ _) with s2 h2 s2' h2' hs2
        ebind (H.finallyLoop hc hs2 (by omega)) with r s3 h3 s3' h3' hs3
        exact ⟨rfl, hs3⟩
    · simp [peekn_nil h1nil, expect_nil h1nil]

theorem sim_pStatement {c c' : Ctx} {st st' : St} (H : Hyp x (st.toks.length * 16 + 11))
    (hc : CRel c c') (hs : SRel x st st') : ERel (OLt x) (pStatement c st) (pStatement c' st') := by
  by_cases hn0 : st.toks = []
  · rw [pStatement_nil hn0]; exact ERel.err
  rw [pStatement, pStatement]
  simp only [hasNext_rel hs hn0]
  bif hb : (!st.hasNext)
  · exact ERel.err
  mcomment hs hn0 with comment s0 h0 s0' h0' hs0
  mif hs0 c!"require" kw with s1 h1 s1' h1' hs1
  · mif hs0 c!"def" kw with s1 h1 s1' h1' hs1
    · mif hs0 c!"for" kw with s1 h1 s1' h1' hs1
      · mif hs0 c!"while" kw with s1 h1 s1' h1' hs1
        · exact ERel_wkLt (H.pExpression hc hs0 (by omega))
        · rw [hs1.prev]
          ebind (H.pOr hc hs1 (by omega)) with e s2 h2 s2' h2' hs2
          ebind (H.pBlock hc hs2 (by omega)) with b s3 h3 s3' h3' hs3
          exact ⟨rfl, hs3⟩
      · rw [hs1.prev]
        ebind (forIdents_rel hs1) with ids s2 h2 s2' h2' hs2
        sbind (expect_rel hs2 _ _) with s3 h3 s3' h3' hs3
        mwhat hs3 with what s4 h4 s4' h4' hs4
        ebind (H.pExpression hc hs4 (by omega)) with e s5 h5 s5' h5' hs5
        pk3 hs5 c!"do" kw with hnil
        · bif hd : s5.peekn 1 c!"do" kw
          · ebind (H.pBlock hc hs5 (by omega)) with b s6 h6 s6' h6' hs6
            exact ⟨rfl, hs6⟩
          · ebind (H.pExpression hc hs5 (by omega)) with b s6 h6 s6' h6' hs6
            exact ⟨rfl, hs6⟩
        · simp [peekn_nil hnil, pExpression_nil hnil]
    · exact ERel_wkLt (H.pDef _ hc hs1 (by omega))
  · rw [hs1.prev]
    ebind (H.pExpression hc hs1 (by omega)) with spec s2 h2 s2' h2' hs2
    mif hs2 c!"unqualified" idt with s3 h3 s3' h3' hs3
    · mif2 hs2 c!"import" idt c!"[" ip with s3 h3 s3' h3' hs3
      · mif hs2 c!"as" kw with s3 h3 s3' h3' hs3
        · exact ⟨rfl, hs2⟩
        · ebind (matchIdentifier_rel hs3) with name s4 h4 s4' h4' hs4
          exact ⟨rfl, hs4⟩
      · ebind (requireSymLoop_rel _ s3 s3' [] rfl hs3) with syms s4 h4 s4' h4' hs4
        sbind (expect_rel hs4 _ _) with s5 h5 s5' h5' hs5
        exact ⟨rfl, hs5⟩
    · exact ⟨rfl, hs3⟩

theorem sim_pDefTail {c c' : Ctx} {st st' : St} (name : List Char) (comment : String) (pos : Pos)
    (H : Hyp x (st.toks.length * 16 + 1)) (hc : CRel c c') (hs : SRel x st st') :
    ERel (OLt x) (pDefTail c name comment pos st) (pDefTail c' name comment pos st') := by
  rw [pDefTail, pDefTail]
  simp only [peekn1_tab hs (v := c!"(") (ty := ip) (by tab)]
  bif hb : st.peekn 1 c!"(" ip
  · ebind (H.pFn pos hc hs (by omega)) with fn0 s1 h1 s1' h1' hs1
    exact ⟨rfl, hs1⟩
  · sbind (expect_rel hs _ _) with s1 h1 s1' h1' hs1
    ebind (H.pExpression hc hs1 (by omega)) with e s2 h2 s2' h2' hs2
    exact ⟨rfl, hs2⟩

theorem sim_pDef {c c' : Ctx} {st st' : St} (comment : String) (H : Hyp x (st.toks.length * 16 + 0))
    (hc : CRel c c') (hs : SRel x st st') :
    ERel (OLt x) (pDef c comment st) (pDef c' comment st') := by
  rw [pDef, pDef]
  simp only [hs.prev]
  mif hs c!"[" ip with s1 h1 s1' h1' hs1
  · ebind (next_rel hs) with t s1 h1 s1' h1' hs1
    refine ERel.bind (r := fun b b' => b = b') ?_ ?_
    · bif hcl : (t.type == .identifier && t.value == c!"class")
      · refine ERel.bind (peek_rel hs1) ?_
        rintro t2 _ rfl
        exact rfl
      · exact rfl
    rintro isClass _ rfl
    bif hcl : isClass
    · ebind (next_rel hs1) with t2 s2 h2 s2' h2' hs2
      refine ERel.bind (ERel_self (checkRedefineKeyword t2)) ?_
      intro _ _ _
      refine ERel.bind (ERel_self (checkExpectedIdentifier t2)) ?_
      intro _ _ _
      sbind (expect_rel hs2 _ _) with s3 h3 s3' h3' hs3
      ebind (H.classLoop comment hc hs3 (by omega)) with members s4 h4 s4' h4' hs4
      sbind (expect_rel hs4 _ _) with s5 h5 s5' h5' hs5
      exact ⟨rfl, hs5⟩
    · refine ERel.bind (ERel_self (checkRedefineKeyword t)) ?_
      intro _ _ _
      refine ERel.bind (ERel_self (checkExpectedIdentifier t)) ?_
      intro _ _ _
      ebind (H.pDefTail t.value comment st.prev hc hs1 (by omega)) with d s2 h2 s2' h2' hs2
      exact ⟨rfl, hs2⟩
  · ebind (identListLoop_rel true _ s1 s1' [] rfl hs1) with ids s2 h2 s2' h2' hs2
    sbind (expect_rel hs2 _ _) with s3 h3 s3' h3' hs3
    sbind (expect_rel hs3 _ _) with s4 h4 s4' h4' hs4
    ebind (H.pExpression hc hs4 (by omega)) with e s5 h5 s5' h5' hs5
    exact ⟨rfl, hs5⟩

theorem sim_classLoop {c c' : Ctx} {st st' : St} {acc : List Node} (comment : String)
    (H : Hyp x (st.toks.length * 16 + 0)) (hc : CRel c c') (hs : SRel x st st') :
    ERel (OLe x) (classLoop c comment st acc) (classLoop c' comment st' acc) := by
  rcases peekn1_cases hs c!"end" kw with hp | h0
  rotate_left
  · rw [classLoop_nil h0]; exact ERel.err
  rw [classLoop, classLoop, hp]
  bif hb : st.peekn 1 c!"end" kw
  · exact ⟨rfl, hs⟩
  · mif hs c!"def" kw with s1 h1 s1' h1' hs1
    · ebind (next_rel hs) with t s1 h1 s1' h1' hs1
      exact ERel.err
    · rw [hs1.prev]
      ebind (next_rel hs1) with t s2 h2 s2' h2' hs2
      refine ERel.bind (ERel_self (checkRedefineKeyword t)) ?_
      intro _ _ _
      refine ERel.bind (ERel_self (checkExpectedIdentifier t)) ?_
      intro _ _ _
      ebind (H.pDefTail t.value comment s1.prev hc hs2 (by omega)) with d s3 h3 s3' h3' hs3
      rcases skipIf_cases hs3 c!";" ip with hs4 | hn3
      · revert hs4
        generalize St.skipIf s3 _ _ = mw
        generalize St.skipIf s3' _ _ = mw'
        obtain ⟨s4, h4⟩ := mw
        obtain ⟨s4', h4'⟩ := mw'
        intro hs4
        dsimp only at hs4 ⊢
        ebind (H.classLoop comment hc hs4 (by omega)) with r s5 h5 s5' h5' hs5
        exact ⟨rfl, hs5⟩
      · -- nothing is left after the member: the first run fails in the next round
        generalize hmw : St.skipIf s3 c!";" ip = mw
        obtain ⟨s4, h4⟩ := mw
        have h40 : s4.toks = [] := toks_nil_of_le hn3 h4
        dsimp only
        rw [classLoop_nil h40]
        exact ERel.err

theorem sim_ifClause {c c' : Ctx} {st st' : St} (H : Hyp x (st.toks.length * 16 + 10))
    (hc : CRel c c') (hs : SRel x st st') : ERel (OLt x) (ifClause c st) (ifClause c' st') := by
  rw [ifClause, ifClause]
  ebind (H.pOr hc hs (by omega)) with cond s1 h1 s1' h1' hs1
  sbind (expect_rel hs1 _ _) with s2 h2 s2' h2' hs2
  pk3 hs2 c!"do" kw with hnil
  · bif hb : s2.peekn 1 c!"do" kw
    · ebind (H.pBlock hc hs2 (by omega)) with e s3 h3 s3' h3' hs3
      exact ⟨rfl, hs3⟩
    · ebind (H.pOr hc hs2 (by omega)) with e s3 h3 s3' h3' hs3
      exact ⟨rfl, hs3⟩
  · simp [peekn_nil hnil, pOr_nil hnil]

theorem ifElif_cases {s s' : St} (h : SRel x s s') :
    ((s.matchIf c!"if" kw).orElse (fun _ => s.matchIf c!"elif" kw) = none ∧
      (s'.matchIf c!"if" kw).orElse (fun _ => s'.matchIf c!"elif" kw) = none) ∨
    (∃ a a', (s.matchIf c!"if" kw).orElse (fun _ => s.matchIf c!"elif" kw) = some a ∧
      (s'.matchIf c!"if" kw).orElse (fun _ => s'.matchIf c!"elif" kw) = some a' ∧ SRel x a.1 a'.1) := by
  rcases matchIf_tab h (v := c!"if") (ty := kw) (by tab) with ⟨e1, e2⟩ | ⟨a, a', e1, e2, hr⟩ <;> rw [e1, e2]
  · exact matchIf_tab h (v := c!"elif") (ty := kw) (by tab)
  · exact Or.inr ⟨a, a', rfl, rfl, hr⟩

theorem sim_ifLoop {c c' : Ctx} {st st' : St} {cs es : List Node} (H : Hyp x (st.toks.length * 16 + 0))
    (hc : CRel c c') (hs : SRel x st st') :
    ERel (OLe x) (ifLoop c st cs es) (ifLoop c' st' cs es) := by
  rw [ifLoop, ifLoop]
  rcases ifElif_cases hs with ⟨e1, e2⟩ | ⟨⟨s1, h1⟩, ⟨s1', h1'⟩, e1, e2, hs1⟩ <;> rw [e1, e2]
  · exact ⟨rfl, hs⟩
  · dsimp only at hs1 ⊢
    ebind2 (H.ifClause hc hs1 (by omega)) with cond e s2 h2 s2' h2' hs2
    ebind (H.ifLoop hc hs2 (by omega)) with r s3 h3 s3' h3' hs3
    exact ⟨rfl, hs3⟩

theorem sim_pExpression {c c' : Ctx} {st st' : St} (H : Hyp x (st.toks.length * 16 + 10))
    (hc : CRel c c') (hs : SRel x st st') :
    ERel (OLt x) (pExpression c st) (pExpression c' st') := by
  rw [pExpression, pExpression]
  mif hs c!"if" kw with s1 h1 s1' h1' hs1
  · exact H.pOr hc hs (by omega)
  · rw [posNext_rel hs (by intro h0; rw [h0] at h1; simp at h1)]
    ebind2 (H.ifClause hc hs1 (by omega)) with cond e s2 h2 s2' h2' hs2
    ebind2 (H.ifLoop hc hs2 (by omega)) with conds es s3 h3 s3' h3' hs3
    mif hs3 c!"else" kw with s4 h4 s4' h4' hs4
    · exact ⟨rfl, hs3⟩
    · pk3 hs4 c!"do" kw with hnil
      · bif hb : s4.peekn 1 c!"do" kw
        · ebind (H.pBlock hc hs4 (by omega)) with el s5 h5 s5' h5' hs5
          exact ⟨rfl, hs5⟩
        · ebind (H.pOr hc hs4 (by omega)) with el s5 h5 s5' h5' hs5
          exact ⟨rfl, hs5⟩
      · simp [peekn_nil hnil, pOr_nil hnil]

end Ckl.C14X
