/-
  C03Sugar — evaluator level, part 4: every call gets fresh parameter bindings.
  Uses the evaluator-wide invariant of C10 (`Mono`: frames are never deallocated, parents never change).
-/
import CklVerif.Proofs.C10Sess
import CklVerif.Lemmas.C03SugarCall
namespace Ckl.C03S
open Ckl Ckl.C03 Ckl.C10S

/-! ### environment facts -/

/-- a `put` into frame `g` is invisible from every frame below `g` (parents have smaller ids) -/
theorem lookupF_put_above {t : State} (wf : ParentsSmaller t) (g : Nat) (x : String) (v : RVal) (y : String) :
    ∀ (n e : Nat), e < g → (t.put g x v).lookupF n e y = t.lookupF n e y := by
  intro n
  induction n with
  | zero => intro e _; rfl
  | succ n ih =>
    intro e he
    simp only [State.lookupF]
    rw [frame_put_other t x v (Nat.ne_of_lt he)]
    cases dictGet y (t.frame e).vars with
    | some w => rfl
    | none =>
      cases hp : (t.frame e).parent with
      | none => rfl
      | some p => exact ih p (Nat.lt_trans (wf e p hp) he)

/-- **callee_lookup_skips_other_frame**: whatever is bound in another call's parameter frame `g`,
    a lookup from frame `e` — not `g`, its parent chain starting below `g` — does not see it. -/
theorem lookup_put_unrelated_frame {t : State} (wf : ParentsSmaller t) {e g cenv : Nat} (x : String) (v : RVal)
    (y : String) (hne : e ≠ g) (hpar : (t.frame e).parent = some cenv) (hlt : cenv < g) :
    (t.put g x v).lookup e y = t.lookup e y := by
  unfold State.lookup
  rw [frames_size_put]
  simp only [State.lookupF]
  rw [frame_put_other t x v hne, hpar]
  cases dictGet y (t.frame e).vars with
  | some w => rfl
  | none => exact lookupF_put_above wf g x v y _ cenv hlt

section
variable {ld : Loader}

/-! ### the body of a closure call -/

/-- what a closure call does once its parameter frame `lenv` exists -/
def callBody (ld : Loader) (F : Nat) (lenv : EnvId) (params : List String) (defaults : List Node) (body : Node)
    (bound : List (String × RVal)) (pos : Pos) : EvalM RVal := do
  bindParams ld F lenv params defaults bound pos
  let r ← eval ld F lenv body
  match r with
  | .ret v _ => pure v
  | .brk p => throwE "Cannot use break without surrounding loop" p
  | .cont p => throwE "Cannot use continue without surrounding loop" p
  | v => pure v

theorem callFn_closure (F : Nat) (a : Nat) (bound : List (String × RVal)) (env : EnvId) (pos : Pos) (s : State)
    {cenv params defaults body name} (h : s.cell a = some (.closure cenv params defaults body name)) :
    callFn ld (F + 1) (.closure a) bound env pos s =
      callBody ld F s.frames.size params defaults body bound pos (s.newEnv cenv).1 :=
  (call_fresh_frame ld F a bound env pos s h).1

theorem callBody_ktr (hN : NativeGrows ld) (e : EnvId) (X : String → Prop) (s0 : State) (F : Nat) (lenv : EnvId)
    (params : List String) (defaults : List Node) (body : Node) (bound : List (String × RVal)) (pos : Pos) :
    KTr e X s0 (callBody ld F lenv params defaults body bound pos) := by
  unfold callBody
  refine KTr.bind ((allK hN F).bindParams X s0 lenv params defaults bound pos) (fun _ => ?_)
  refine KTr.bind ((allK hN F).eval X s0 lenv body) (fun r => ?_)
  cases r <;> first | exact KTr.pure _ | exact KTr.throwE _ _

/-- **call_frame_persists**: the parameter frame of a closure call (id `s.frames.size`) is a new
    frame; whatever the outcome of the call, afterwards it still exists, its parent is still the
    captured frame, and no older frame has changed its parent. -/
theorem call_frame_persists (hN : NativeGrows ld) (F : Nat) (a : Nat) (bound : List (String × RVal)) (env : EnvId)
    (pos : Pos) (s : State) {cenv params defaults body name}
    (h : s.cell a = some (.closure cenv params defaults body name)) :
    s.frames.size + 1 ≤ (stOf (callFn ld (F + 1) (.closure a) bound env pos s)).frames.size ∧
    ((stOf (callFn ld (F + 1) (.closure a) bound env pos s)).frame s.frames.size).parent = some cenv ∧
    ∀ f, f < s.frames.size →
      ((stOf (callFn ld (F + 1) (.closure a) bound env pos s)).frame f).parent = (s.frame f).parent := by
  rw [callFn_closure F a bound env pos s h]
  have hm : Mono 0 (fun _ => True) (s.newEnv cenv).1
      (stOf (callBody ld F s.frames.size params defaults body bound pos (s.newEnv cenv).1)) :=
    ((callBody_ktr hN 0 (fun _ => True) (s.newEnv cenv).1 F s.frames.size params defaults body bound pos).run
      _ (Mono.refl _)).all
  have hsz := newEnv_frames_size s cenv
  refine ⟨by have := hm.frames; omega, ?_, ?_⟩
  · rw [hm.parent _ (by omega), newEnv_frame_new]
  · intro f hf
    rw [hm.parent f (by omega), newEnv_frame_old s cenv hf]

/-- **successive_calls_fresh_frames**: two calls of closures (the same one or not), the second made
    in any state `s2` that the evaluator reaches after the first (`Mono`: e.g. after evaluating
    further nodes, see `eval_post`): the second call runs in a NEW, EMPTY frame whose id is larger
    than that of the first call's frame — which still exists, with its parent unchanged. -/
theorem successive_calls_fresh_frames (hN : NativeGrows ld) (F1 F2 : Nat) (a1 a2 : Nat)
    (b1 b2 : List (String × RVal)) (env1 env2 : EnvId) (pos1 pos2 : Pos) (s s2 : State)
    {cenv1 ps1 ds1 body1 nm1} (h1 : s.cell a1 = some (.closure cenv1 ps1 ds1 body1 nm1))
    {e : EnvId} {X : String → Prop}
    (hbetween : Mono e X (stOf (callFn ld (F1 + 1) (.closure a1) b1 env1 pos1 s)) s2)
    {cenv2 ps2 ds2 body2 nm2} (h2 : s2.cell a2 = some (.closure cenv2 ps2 ds2 body2 nm2)) :
    -- the first call ran in frame `s.frames.size`, the second runs in frame `s2.frames.size`
    s.frames.size < s2.frames.size ∧
    callFn ld (F2 + 1) (.closure a2) b2 env2 pos2 s2 =
      callBody ld F2 s2.frames.size ps2 ds2 body2 b2 pos2 (s2.newEnv cenv2).1 ∧
    ((s2.newEnv cenv2).1.frame s2.frames.size).vars = [] ∧
    ((s2.newEnv cenv2).1.frame s2.frames.size).parent = some cenv2 ∧
    ((s2.newEnv cenv2).1.frame s.frames.size).parent = some cenv1 := by
  obtain ⟨p1, p2, _⟩ := call_frame_persists hN F1 a1 b1 env1 pos1 s h1
  have hlt : s.frames.size < s2.frames.size := by have := hbetween.frames; omega
  refine ⟨hlt, callFn_closure F2 a2 b2 env2 pos2 s2 h2, ?_, ?_, ?_⟩
  · rw [newEnv_frame_new]
  · rw [newEnv_frame_new]
  · rw [newEnv_frame_old s2 cenv2 hlt, hbetween.parent _ (by omega), p2]

/-! ### binding the parameters touches only the new frame -/

/-- bind every parameter to its argument, in declaration order -/
def putParams (lenv : EnvId) (bound : List (String × RVal)) (ps : List String) (s : State) : State :=
  ps.foldl (fun s p => s.put lenv p ((dictGet p bound).getD .null)) s

theorem putParams_other_frame (lenv : EnvId) (bound : List (String × RVal)) (ps : List String) (s : State)
    {f : Nat} (hf : f ≠ lenv) : (putParams lenv bound ps s).frame f = s.frame f := by
  unfold putParams
  induction ps generalizing s with
  | nil => rfl
  | cons p ps ih => rw [List.foldl_cons, ih, frame_put_other s p _ hf]

theorem putParams_heap (lenv : EnvId) (bound : List (String × RVal)) (ps : List String) (s : State) :
    (putParams lenv bound ps s).heap = s.heap := by
  unfold putParams
  induction ps generalizing s with
  | nil => rfl
  | cons p ps ih => rw [List.foldl_cons, ih]; rfl

/-- **bindParams_all_bound**: when every parameter received an argument, binding the parameters
    is exactly the sequence of `put`s into the callee frame (no default is evaluated). -/
theorem bindParams_all_bound (F : Nat) (lenv : EnvId) (ps : List String) (ds : List Node)
    (bound : List (String × RVal)) (pos : Pos) (s : State) (hlen : ps.length ≤ ds.length)
    (hF : ps.length < F) (hall : ∀ p ∈ ps, (dictGet p bound).isSome = true) :
    bindParams ld F lenv ps ds bound pos s = .ok () (putParams lenv bound ps s) := by
  induction ps generalizing F ds s with
  | nil =>
    obtain ⟨F', rfl⟩ : ∃ F', F = F' + 1 := ⟨F - 1, by simp at hF; omega⟩
    rw [bindParams_nil]; rfl
  | cons p ps ih =>
    obtain ⟨F', rfl⟩ : ∃ F', F = F' + 1 := ⟨F - 1, by simp at hF; omega⟩
    cases ds with
    | nil => simp at hlen
    | cons d ds =>
      obtain ⟨v, hv⟩ := Option.isSome_iff_exists.1 (hall p (List.mem_cons_self ..))
      rw [bindParams_bound ld hv, ih F' ds _ (by simpa using hlen) (by simp at hF; omega)
        (fun q hq => hall q (List.mem_cons_of_mem _ hq))]
      simp [putParams, hv]

/-- **inner_call_keeps_caller_frames**: a call whose parameters all received arguments creates the
    frame `s.frames.size` and binds the parameters THERE: when the body starts, every frame that
    existed before the call — in particular the frame of a caller that is the same function
    (recursion) — has exactly the variables and values it had. -/
theorem inner_call_keeps_caller_frames (F : Nat) (a : Nat) (bound : List (String × RVal)) (env : EnvId)
    (pos : Pos) (s : State) {cenv ps ds body name} (h : s.cell a = some (.closure cenv ps ds body name))
    (hlen : ps.length ≤ ds.length) (hF : ps.length < F) (hall : ∀ p ∈ ps, (dictGet p bound).isSome = true) :
    callFn ld (F + 1) (.closure a) bound env pos s =
      (do let r ← eval ld F s.frames.size body
          match r with
          | .ret v _ => pure v
          | .brk p => throwE "Cannot use break without surrounding loop" p
          | .cont p => throwE "Cannot use continue without surrounding loop" p
          | v => pure v : EvalM RVal) (putParams s.frames.size bound ps (s.newEnv cenv).1) ∧
    ∀ f, f < s.frames.size → (putParams s.frames.size bound ps (s.newEnv cenv).1).frame f = s.frame f := by
  refine ⟨?_, fun f hf => ?_⟩
  · rw [callFn_closure F a bound env pos s h]
    unfold callBody
    simp only [EvalM.bind_apply, bindParams_all_bound F _ ps ds bound pos _ hlen hF hall]
  · rw [putParams_other_frame _ _ _ _ (Nat.ne_of_lt hf), newEnv_frame_old s cenv hf]

end
end Ckl.C03S
