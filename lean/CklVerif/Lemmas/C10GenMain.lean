/-
  Generic logic (see C10Gen): assembling the induction.
-/
import CklVerif.Lemmas.C10GenEval
namespace Ckl.Gen
open Ckl Ckl.C05

/-- every function of the evaluator satisfies the invariant `I`, for every fuel, provided the
    instance supplies: the interpretation of the unmodelled natives (`hN`), the specification of
    `loadModule` (`LS`) with its base case and step, and the push/load/pop fragment -/
theorem allG {I : Rel} {ld : Loader} {LS : Nat → Prop}
    (hN : ∀ s0 name args, GTr I s0 (ld.nativeSem name args))
    (h0 : LS 0)
    (hFrag : ∀ fuel, LS fuel → Frag I ld fuel)
    (hLoad : ∀ fuel, AllG I ld LS fuel → LS (fuel + 1)) :
    ∀ fuel, AllG I ld LS fuel := by
  intro fuel
  induction fuel with
  | zero => exact allG_zero I ld LS h0
  | succ k ih =>
    exact {
      eval := step_eval ih
      evalAnd := step_evalAnd ih
      evalOr := step_evalOr ih
      evalIf := step_evalIf ih
      evalSeq := step_evalSeq ih
      evalItems := step_evalItems ih
      evalPairs := step_evalPairs ih
      evalBody := step_evalBody ih
      evalFinally := step_evalFinally ih
      tryHandlers := step_tryHandlers ih
      invoke := step_invoke ih
      evalArgs := step_evalArgs ih
      callFn := step_callFn hN ih
      bindParams := step_bindParams ih
      evalFor := step_evalFor ih
      forItems := step_forItems ih
      forListLive := step_forListLive ih
      forString := step_forString ih
      whileLoop := step_whileLoop ih
      comprStep := step_comprStep ih
      comprLoop := step_comprLoop ih
      comprProduct := step_comprProduct ih
      comprParallel := step_comprParallel ih
      nativeSorted := step_nativeSorted ih
      sortedOuter := step_sortedOuter ih
      sortedInner := step_sortedInner ih
      call1 := step_call1 ih
      call2 := step_call2 ih
      evalRequire := step_evalRequire (hFrag k ih.loadModule) ih
      loadModule := hLoad k ih }

end Ckl.Gen
