/-
  C08 (full data literals) — `<` is a strict total order on ALL data values (across kinds: a
  string is smaller than an int, an int smaller than a set or map, then FALSE, NULL, TRUE, and
  lists are the largest; sets and maps compare by their texts), hence `mkSet` / `mkMap` of data
  values produce the canonical form of `IsData'`.

  The injectivity of the text on data values (needed for trichotomy between sets / maps) is a
  hypothesis here (`RenderInj`); `Proofs/C08Full.lean` discharges it with the round trip.
-/
import CklVerif.Lemmas.C08FullCanon
import CklVerif.Lemmas.C07Sort
namespace Ckl.C08F
open Ckl Ckl.C08

variable (dr : DecRenderer)

/-- different data values have different texts -/
def RenderInj : Prop :=
  ∀ a b : Val, IsData' dr a → IsData' dr b → renderWith dr a = renderWith dr b → a = b

/-! ### strings -/

theorem strLt_iff (a b : List Char) : strLt a b = true ↔ a.map Char.toNat < b.map Char.toNat := by
  rw [strLt_eq_natListLt, natListLt_iff_lt]

theorem strLt_trans {a b c : List Char} (h1 : strLt a b = true) (h2 : strLt b c = true) :
    strLt a c = true := by
  rw [strLt_iff] at *; exact lt_trans h1 h2

theorem strLt_total (a b : List Char) : strLt a b = true ∨ a = b ∨ strLt b a = true := by
  rcases lt_trichotomy (a.map Char.toNat) (b.map Char.toNat) with h | h | h
  · exact Or.inl ((strLt_iff a b).mpr h)
  · exact Or.inr (Or.inl (map_toNat_injective h))
  · exact Or.inr (Or.inr ((strLt_iff b a).mpr h))

theorem strLt_of_head {c d : Char} (cs ds : List Char) (h : c.toNat < d.toNat) :
    strLt (c :: cs) (d :: ds) = true := by
  simp [strLt, h]

/-! ### the rank of a kind: the class of the first character of the text -/

/-- the order of the kinds -/
def rank : Val → Nat
  | .str _ => 0
  | .int _ => 1
  | .set _ => 2
  | .map _ => 2
  | .bool false => 3
  | .null => 4
  | .bool true => 5
  | .list _ => 6
  | _ => 7

/-- class of a first character: `'` | `-` digits | `<` | `F` | `N` | `T` | `[` -/
def clsOf (c : Char) : Nat :=
  if c.toNat ≤ 39 then 0 else if c.toNat ≤ 57 then 1 else if c.toNat ≤ 60 then 2
  else if c.toNat ≤ 70 then 3 else if c.toNat ≤ 78 then 4 else if c.toNat ≤ 84 then 5 else 6

theorem clsOf_lt {c d : Char} (h : clsOf c < clsOf d) : c.toNat < d.toNat := by
  unfold clsOf at h
  repeat' split at h
  all_goals omega

theorem clsOf_digit : ∀ c ∈ Lexer.digits, clsOf c = 1 := by decide

theorem delimited_head (o content c : List Char) (x : Char) (o' : List Char) (ho : o = x :: o') :
    ∃ rest, delimited o content c = x :: rest := by
  subst ho
  unfold delimited
  split <;> exact ⟨_, rfl⟩

theorem render_head {v : Val} (hv : IsData' dr v) :
    ∃ c rest, renderWith dr v = c :: rest ∧ clsOf c = rank v := by
  cases v with
  | null => exact ⟨'N', _, rfl, by decide⟩
  | bool b => cases b <;> [exact ⟨'F', _, rfl, by decide⟩; exact ⟨'T', _, rfl, by decide⟩]
  | int n =>
    simp only [renderWith, renderInt, natDigits]
    split
    · exact ⟨'-', _, rfl, by show clsOf '-' = 1; decide⟩
    · have hall := Lexer.toDigits_mem_digits n.natAbs
      cases hds : Nat.toDigits 10 n.natAbs with
      | nil => exact absurd hds Nat.toDigits_ne_nil
      | cons d ds => exact ⟨d, ds, rfl, clsOf_digit d (hall d (by rw [hds]; simp))⟩
  | str s => exact ⟨'\'', _, rfl, by show clsOf '\'' = 0; decide⟩
  | list xs => exact ⟨'[', _, rfl, by show clsOf '[' = 6; decide⟩
  | set xs =>
    obtain ⟨rest, h⟩ := delimited_head ['<', '<'] (joinSep [',', ' '] (renderL dr xs)) ['>', '>'] '<' ['<'] rfl
    exact ⟨'<', rest, by simp only [renderWith, h], by show clsOf '<' = 2; decide⟩
  | map xs =>
    obtain ⟨rest, h⟩ := delimited_head ['<', '<', '<'] (joinSep [',', ' '] (renderM dr xs))
      ['>', '>', '>'] '<' ['<', '<'] rfl
    exact ⟨'<', rest, by simp only [renderWith, h], by show clsOf '<' = 2; decide⟩
  | dec _ _ => simp [IsData'] at hv
  | pat _ => simp [IsData'] at hv
  | date _ => simp [IsData'] at hv

theorem strLt_render_of_rank {a b : Val} (ha : IsData' dr a) (hb : IsData' dr b) (h : rank a < rank b) :
    strLt (renderWith dr a) (renderWith dr b) = true := by
  obtain ⟨c, cs, hc, hcc⟩ := render_head dr ha
  obtain ⟨d, ds, hd, hdd⟩ := render_head dr hb
  rw [hc, hd]
  exact strLt_of_head cs ds (clsOf_lt (by rw [hcc, hdd]; exact h))

/-- across kinds the rank decides -/
theorem vlt_of_rank_lt {a b : Val} (ha : IsData' dr a) (hb : IsData' dr b) (h : rank a < rank b) :
    vltWith dr a b = true := by
  have hs := strLt_render_of_rank dr ha hb h
  rcases a with _ | (_ | _) | _ | ⟨_, _⟩ | _ | _ | _ | _ | _ | _ <;>
  rcases b with _ | (_ | _) | _ | ⟨_, _⟩ | _ | _ | _ | _ | _ | _ <;>
    simp only [IsData'] at ha hb <;> simp only [vltWith] <;>
    first
    | exact hs
    | (simp only [rank] at h; omega)

theorem rank_le_of_vlt {a b : Val} (ha : IsData' dr a) (hb : IsData' dr b)
    (h : vltWith dr a b = true) : rank a ≤ rank b := by
  rcases Nat.lt_or_ge (rank b) (rank a) with hlt | hge
  · have := vlt_asymm_all dr b a (vlt_of_rank_lt dr hb ha hlt)
    rw [h] at this; cases this
  · exact hge

/-- what two data values of the same rank look like -/
theorem same_rank_cases {a b : Val} (ha : IsData' dr a) (hb : IsData' dr b) (h : rank a = rank b) :
    (∃ s t, a = .str s ∧ b = .str t) ∨ (∃ m n, a = .int m ∧ b = .int n) ∨
    (rank a = 2 ∧ vltWith dr a b = strLt (renderWith dr a) (renderWith dr b) ∧
      vltWith dr b a = strLt (renderWith dr b) (renderWith dr a)) ∨
    (a = b ∧ (rank a = 3 ∨ rank a = 4 ∨ rank a = 5)) ∨ (∃ xs ys, a = .list xs ∧ b = .list ys) := by
  rcases a with _ | (_ | _) | _ | ⟨_, _⟩ | _ | _ | _ | _ | _ | _ <;>
  rcases b with _ | (_ | _) | _ | ⟨_, _⟩ | _ | _ | _ | _ | _ | _ <;>
    simp only [IsData'] at ha hb <;> simp only [rank] at h <;>
    first
    | exact Or.inl ⟨_, _, rfl, rfl⟩
    | exact Or.inr (Or.inl ⟨_, _, rfl, rfl⟩)
    | exact Or.inr (Or.inr (Or.inl ⟨rfl, by simp only [vltWith], by simp only [vltWith]⟩))
    | exact Or.inr (Or.inr (Or.inr (Or.inl ⟨rfl, by simp [rank]⟩)))
    | exact Or.inr (Or.inr (Or.inr (Or.inr ⟨_, _, rfl, rfl⟩)))
    | (exfalso; omega)

/-! ### inversion of the rank -/

theorem rank_le_six {v : Val} (hv : IsData' dr v) : rank v ≤ 6 := by
  rcases v with _ | (_ | _) | _ | ⟨_, _⟩ | _ | _ | _ | _ | _ | _ <;> simp only [IsData'] at hv <;>
    simp [rank]

theorem rank0 {v : Val} (hv : IsData' dr v) (h : rank v = 0) : ∃ s, v = .str s := by
  rcases v with _ | (_ | _) | _ | ⟨_, _⟩ | _ | _ | _ | _ | _ | _ <;> simp only [IsData'] at hv <;>
    simp [rank] at h ⊢

theorem rank1 {v : Val} (hv : IsData' dr v) (h : rank v = 1) : ∃ n, v = .int n := by
  rcases v with _ | (_ | _) | _ | ⟨_, _⟩ | _ | _ | _ | _ | _ | _ <;> simp only [IsData'] at hv <;>
    simp [rank] at h ⊢

theorem rank345 {a b : Val} (ha : IsData' dr a) (hb : IsData' dr b) (h : rank a = rank b)
    (h' : rank a = 3 ∨ rank a = 4 ∨ rank a = 5) : a = b := by
  rcases a with _ | (_ | _) | _ | ⟨_, _⟩ | _ | _ | _ | _ | _ | _ <;>
  rcases b with _ | (_ | _) | _ | ⟨_, _⟩ | _ | _ | _ | _ | _ | _ <;>
    simp only [IsData'] at ha hb <;> simp [rank] at h h' ⊢

theorem rank6 {v : Val} (hv : IsData' dr v) (h : rank v = 6) : ∃ xs, v = .list xs := by
  rcases v with _ | (_ | _) | _ | ⟨_, _⟩ | _ | _ | _ | _ | _ | _ <;> simp only [IsData'] at hv <;>
    simp [rank] at h ⊢

theorem vlt_rank2 {a b : Val} (ha : rank a = 2) (hb : rank b = 2) :
    vltWith dr a b = strLt (renderWith dr a) (renderWith dr b) := by
  rcases a with _ | (_ | _) | _ | ⟨_, _⟩ | _ | _ | _ | _ | _ | _ <;> simp [rank] at ha <;>
  rcases b with _ | (_ | _) | _ | ⟨_, _⟩ | _ | _ | _ | _ | _ | _ <;> simp [rank] at hb <;>
  simp only [vltWith]

/-! ### transitivity and trichotomy -/

theorem vlt_trans_nonlist {a b c : Val} (ha : IsData' dr a) (hb : IsData' dr b) (hc : IsData' dr c)
    (hr : rank a ≠ 6) (h1 : vltWith dr a b = true) (h2 : vltWith dr b c = true) :
    vltWith dr a c = true := by
  have r1 := rank_le_of_vlt dr ha hb h1
  have r2 := rank_le_of_vlt dr hb hc h2
  by_cases hlt : rank a < rank c
  · exact vlt_of_rank_lt dr ha hc hlt
  have e1 : rank a = rank b := by omega
  have e2 : rank b = rank c := by omega
  have h6 := rank_le_six dr ha
  have hcases : rank a = 0 ∨ rank a = 1 ∨ rank a = 2 ∨ (rank a = 3 ∨ rank a = 4 ∨ rank a = 5) := by omega
  rcases hcases with h | h | h | h
  · obtain ⟨x, rfl⟩ := rank0 dr ha h
    obtain ⟨y, rfl⟩ := rank0 dr hb (by omega)
    obtain ⟨z, rfl⟩ := rank0 dr hc (by omega)
    simp only [vltWith] at h1 h2 ⊢
    exact strLt_trans h1 h2
  · obtain ⟨x, rfl⟩ := rank1 dr ha h
    obtain ⟨y, rfl⟩ := rank1 dr hb (by omega)
    obtain ⟨z, rfl⟩ := rank1 dr hc (by omega)
    simp only [vltWith, decide_eq_true_eq] at h1 h2 ⊢
    omega
  · rw [vlt_rank2 dr h (by omega)] at h1
    rw [vlt_rank2 dr (by omega) (by omega)] at h2
    rw [vlt_rank2 dr h (by omega)]
    exact strLt_trans h1 h2
  · have := rank345 dr ha hb e1 h
    subst this
    rw [vlt_irrefl_all] at h1; cases h1

theorem vlt_tri_nonlist (hinj : RenderInj dr) {a b : Val} (ha : IsData' dr a) (hb : IsData' dr b)
    (hr : rank a ≠ 6) : vltWith dr a b = true ∨ a = b ∨ vltWith dr b a = true := by
  rcases Nat.lt_trichotomy (rank a) (rank b) with hlt | heq | hgt
  · exact Or.inl (vlt_of_rank_lt dr ha hb hlt)
  · have h6 := rank_le_six dr ha
    have hcases : rank a = 0 ∨ rank a = 1 ∨ rank a = 2 ∨ (rank a = 3 ∨ rank a = 4 ∨ rank a = 5) := by omega
    rcases hcases with h | h | h | h
    · obtain ⟨x, rfl⟩ := rank0 dr ha h
      obtain ⟨y, rfl⟩ := rank0 dr hb (by omega)
      simp only [vltWith]
      rcases strLt_total x y with h | h | h
      · exact Or.inl h
      · exact Or.inr (Or.inl (by rw [h]))
      · exact Or.inr (Or.inr h)
    · obtain ⟨x, rfl⟩ := rank1 dr ha h
      obtain ⟨y, rfl⟩ := rank1 dr hb (by omega)
      simp only [vltWith, decide_eq_true_eq]
      rcases Int.lt_trichotomy x y with h | h | h
      · exact Or.inl h
      · exact Or.inr (Or.inl (by rw [h]))
      · exact Or.inr (Or.inr h)
    · rw [vlt_rank2 dr h (by omega), vlt_rank2 dr (by omega) h]
      rcases strLt_total (renderWith dr a) (renderWith dr b) with h | h | h
      · exact Or.inl h
      · exact Or.inr (Or.inl (hinj a b ha hb h))
      · exact Or.inr (Or.inr h)
    · exact Or.inr (Or.inl (rank345 dr ha hb heq h))
  · exact Or.inr (Or.inr (vlt_of_rank_lt dr hb ha hgt))

theorem veq_iff_eq {a b : Val} (ha : IsData' dr a) (hb : IsData' dr b) : veq a b = true ↔ a = b :=
  ⟨veq_eq_of_data dr a b ha hb, fun h => by rw [h]; exact veq_refl' b⟩

mutual
  /-- `<` is transitive on data values of all kinds -/
  theorem vlt_trans_data : ∀ a b c : Val, IsData' dr a → IsData' dr b → IsData' dr c →
      vltWith dr a b = true → vltWith dr b c = true → vltWith dr a c = true
    | .list xs, b, c, ha, hb, hc, h1, h2 => by
      have r1 := rank_le_of_vlt dr ha hb h1
      have r2 := rank_le_of_vlt dr hb hc h2
      have r3 := rank_le_six dr hb
      have r4 := rank_le_six dr hc
      have ra : rank (.list xs) = 6 := rfl
      obtain ⟨ys, rfl⟩ := rank6 dr hb (by omega)
      obtain ⟨zs, rfl⟩ := rank6 dr hc (by omega)
      simp only [IsData'] at ha hb hc
      simp only [vltWith] at h1 h2 ⊢
      exact vltL_trans_data xs ys zs ha hb hc h1 h2
    | .null, b, c, ha, hb, hc, h1, h2 => vlt_trans_nonlist dr ha hb hc (by simp [rank]) h1 h2
    | .bool x, b, c, ha, hb, hc, h1, h2 =>
      vlt_trans_nonlist dr ha hb hc (by cases x <;> simp [rank]) h1 h2
    | .int _, b, c, ha, hb, hc, h1, h2 => vlt_trans_nonlist dr ha hb hc (by simp [rank]) h1 h2
    | .str _, b, c, ha, hb, hc, h1, h2 => vlt_trans_nonlist dr ha hb hc (by simp [rank]) h1 h2
    | .set _, b, c, ha, hb, hc, h1, h2 => vlt_trans_nonlist dr ha hb hc (by simp [rank]) h1 h2
    | .map _, b, c, ha, hb, hc, h1, h2 => vlt_trans_nonlist dr ha hb hc (by simp [rank]) h1 h2
    | .dec _ _, _, _, ha, _, _, _, _ => by simp [IsData'] at ha
    | .pat _, _, _, ha, _, _, _, _ => by simp [IsData'] at ha
    | .date _, _, _, ha, _, _, _, _ => by simp [IsData'] at ha
  theorem vltL_trans_data : ∀ xs ys zs : List Val, IsDataL' dr xs → IsDataL' dr ys →
      IsDataL' dr zs → vltL dr xs ys = true → vltL dr ys zs = true → vltL dr xs zs = true
    | [], [], _, _, _, _, h1, _ => by simp [vltL] at h1
    | [], _ :: _, [], _, _, _, _, h2 => by simp [vltL] at h2
    | [], _ :: _, _ :: _, _, _, _, _, _ => by simp [vltL]
    | _ :: _, [], _, _, _, _, h1, _ => by simp [vltL] at h1
    | _ :: _, _ :: _, [], _, _, _, _, h2 => by simp [vltL] at h2
    | x :: xs, y :: ys, z :: zs, ha, hb, hc, h1, h2 => by
      simp only [IsDataL'] at ha hb hc
      simp only [vltL] at h1 h2 ⊢
      by_cases exy : x = y
      · subst exy
        rw [veq_refl' x] at h1; simp only [if_true] at h1
        by_cases exz : x = z
        · subst exz
          rw [veq_refl' x] at h2 ⊢; simp only [if_true] at h2 ⊢
          exact vltL_trans_data xs ys zs ha.2 hb.2 hc.2 h1 h2
        · have : veq x z = false := veq_false_of_ne dr ha.1 hc.1 exz
          rw [this] at h2 ⊢
          simpa using h2
      · have hxy : veq x y = false := veq_false_of_ne dr ha.1 hb.1 exy
        rw [hxy] at h1
        simp only [Bool.false_eq_true, if_false] at h1
        by_cases eyz : y = z
        · subst eyz
          rw [hxy]; simpa using h1
        · have hyz : veq y z = false := veq_false_of_ne dr hb.1 hc.1 eyz
          rw [hyz] at h2
          simp only [Bool.false_eq_true, if_false] at h2
          have hxz := vlt_trans_data x y z ha.1 hb.1 hc.1 h1 h2
          have : veq x z = false := veq_false_of_ne dr ha.1 hc.1 (ne_of_vlt dr hxz)
          rw [this]; simpa using hxz
end

mutual
  /-- `<` is trichotomous on data values of all kinds -/
  theorem vlt_tri_data (hinj : RenderInj dr) : ∀ a b : Val, IsData' dr a → IsData' dr b →
      vltWith dr a b = true ∨ a = b ∨ vltWith dr b a = true
    | .list xs, b, ha, hb => by
      by_cases hr : rank b = 6
      · obtain ⟨ys, rfl⟩ := rank6 dr hb hr
        simp only [IsData'] at ha hb
        simp only [vltWith]
        rcases vltL_tri_data hinj xs ys ha hb with h | h | h
        · exact Or.inl h
        · exact Or.inr (Or.inl (by rw [h]))
        · exact Or.inr (Or.inr h)
      · have := rank_le_six dr hb
        exact Or.inr (Or.inr (vlt_of_rank_lt dr hb ha (by show rank b < 6; omega)))
    | .null, b, ha, hb => vlt_tri_nonlist dr hinj ha hb (by simp [rank])
    | .bool x, b, ha, hb => vlt_tri_nonlist dr hinj ha hb (by cases x <;> simp [rank])
    | .int _, b, ha, hb => vlt_tri_nonlist dr hinj ha hb (by simp [rank])
    | .str _, b, ha, hb => vlt_tri_nonlist dr hinj ha hb (by simp [rank])
    | .set _, b, ha, hb => vlt_tri_nonlist dr hinj ha hb (by simp [rank])
    | .map _, b, ha, hb => vlt_tri_nonlist dr hinj ha hb (by simp [rank])
    | .dec _ _, _, ha, _ => by simp [IsData'] at ha
    | .pat _, _, ha, _ => by simp [IsData'] at ha
    | .date _, _, ha, _ => by simp [IsData'] at ha
  theorem vltL_tri_data (hinj : RenderInj dr) : ∀ xs ys : List Val, IsDataL' dr xs → IsDataL' dr ys →
      vltL dr xs ys = true ∨ xs = ys ∨ vltL dr ys xs = true
    | [], [], _, _ => Or.inr (Or.inl rfl)
    | [], _ :: _, _, _ => Or.inl (by simp [vltL])
    | _ :: _, [], _, _ => Or.inr (Or.inr (by simp [vltL]))
    | x :: xs, y :: ys, ha, hb => by
      simp only [IsDataL'] at ha hb
      simp only [vltL]
      by_cases exy : x = y
      · subst exy
        rw [veq_refl' x]; simp only [if_true]
        rcases vltL_tri_data hinj xs ys ha.2 hb.2 with h | h | h
        · exact Or.inl h
        · exact Or.inr (Or.inl (by rw [h]))
        · exact Or.inr (Or.inr h)
      · have hxy : veq x y = false := veq_false_of_ne dr ha.1 hb.1 exy
        have hyx : veq y x = false := veq_false_of_ne dr hb.1 ha.1 (Ne.symm exy)
        rw [hxy, hyx]
        simp only [Bool.false_eq_true, if_false]
        rcases vlt_tri_data hinj x y ha.1 hb.1 with h | h | h
        · exact Or.inl h
        · exact absurd h exy
        · exact Or.inr (Or.inr h)
end

/-- **`<` is a strict total order on the data values** -/
theorem vlt_strictTotalOn (hinj : RenderInj dr) : StrictTotalOn (IsData' dr) (vltWith dr) where
  irrefl a _ := vlt_irrefl_all dr a
  trans a b c ha hb hc := vlt_trans_data dr a b c ha hb hc
  tri a b ha hb := vlt_tri_data dr hinj a b ha hb

/-! ### `mkSet` / `mkMap` of data values are data values (in canonical form) -/

theorem isDataL_of_mem : ∀ {xs : List Val}, (∀ x ∈ xs, IsData' dr x) → IsDataL' dr xs
  | [], _ => by simp [IsDataL']
  | x :: xs, h => by
    rw [IsDataL']
    exact ⟨h x (by simp), isDataL_of_mem (fun y hy => h y (List.mem_cons_of_mem _ hy))⟩

theorem isDataM_of_mem : ∀ {kvs : List (Val × Val)},
    (∀ e ∈ kvs, e.1 ≠ .null ∧ IsData' dr e.1 ∧ IsData' dr e.2) → IsDataM' dr kvs
  | [], _ => by simp [IsDataM']
  | (k, v) :: rest, h => by
    rw [IsDataM']
    have := h (k, v) (by simp)
    exact ⟨this.1, this.2.1, this.2.2, isDataM_of_mem (fun y hy => h y (List.mem_cons_of_mem _ hy))⟩

theorem mem_dedup {y : Val} : ∀ {xs : List Val}, y ∈ dedupKeepFirst xs → y ∈ xs
  | [], h => by simp [dedupKeepFirst] at h
  | x :: xs, h => by
    simp only [dedupKeepFirst, List.mem_cons, List.mem_filter] at h
    rcases h with h | h
    · exact h ▸ List.mem_cons_self ..
    · exact List.mem_cons_of_mem _ (mem_dedup h.1)

/-- **mkSet_isData**: the set built from data values in any (hash) order, duplicates included, is
    a data value: its elements are in the canonical, strictly ascending order -/
theorem mkSet_isData (hinj : RenderInj dr) {xs : List Val} (hx : IsDataL' dr xs) :
    IsData' dr (mkSet dr xs) := by
  have hmem := isDataL_mem dr hx
  have ht := vlt_strictTotalOn dr hinj
  let ys := dedupKeepFirst xs
  have hys : ∀ y ∈ ys, IsData' dr y := fun y hy => hmem y (mem_dedup hy)
  have hperm := sortBy_perm' (vltWith dr) ys
  have hzs : ∀ z ∈ sortBy (vltWith dr) ys, IsData' dr z := fun z hz => hys z (hperm.mem_iff.mp hz)
  have hsorted := sortBy_sorted' ht.toWeak hys
  have hnd : ys.Pairwise (fun a b => a ≠ b) :=
    (dedup_pairwise' xs).imp (fun {a b} h e => by subst e; rw [veq_refl'] at h; cases h)
  have hnd' : (sortBy (vltWith dr) ys).Pairwise (fun a b => a ≠ b) :=
    (hperm.pairwise_iff (fun {a b} (h : a ≠ b) => h.symm)).mpr hnd
  rw [mkSet, IsData']
  refine ⟨isDataL_of_mem dr hzs, ?_⟩
  refine List.Pairwise.imp_of_mem ?_ (hnd'.and hsorted)
  intro a b ha hb ⟨hne, hba⟩
  rcases ht.tri a b (hzs a ha) (hzs b hb) with h | h | h
  · exact h
  · exact absurd h hne
  · rw [hba] at h; cases h

theorem assocPut_inv {P : Val × Val → Prop} (hP : ∀ k v v', P (k, v) → P (k, v') → P (k, v'))
    {k v : Val} (hkv : P (k, v)) (hcomb : ∀ k' v', P (k', v') → P (k', v)) :
    ∀ {m : List (Val × Val)}, (∀ e ∈ m, P e) → ∀ e ∈ assocPut k v m, P e
  | [], _, e, he => by simp only [assocPut, List.mem_singleton] at he; rw [he]; exact hkv
  | (k', v') :: rest, hm, e, he => by
    simp only [assocPut] at he
    split at he
    · rcases List.mem_cons.mp he with rfl | he'
      · exact hcomb k' v' (hm (k', v') (by simp))
      · exact hm e (List.mem_cons_of_mem _ he')
    · rcases List.mem_cons.mp he with rfl | he'
      · exact hm (k', v') (by simp)
      · exact assocPut_inv hP hkv hcomb (fun x hx => hm x (List.mem_cons_of_mem _ hx)) e he'

theorem assocOfList_inv {kvs : List (Val × Val)}
    (h : ∀ e ∈ kvs, e.1 ≠ .null ∧ IsData' dr e.1 ∧ IsData' dr e.2) :
    ∀ e ∈ assocOfList kvs, e.1 ≠ .null ∧ IsData' dr e.1 ∧ IsData' dr e.2 := by
  unfold assocOfList
  suffices H : ∀ (l acc : List (Val × Val)), (∀ e ∈ l, e.1 ≠ .null ∧ IsData' dr e.1 ∧ IsData' dr e.2) →
      (∀ e ∈ acc, e.1 ≠ .null ∧ IsData' dr e.1 ∧ IsData' dr e.2) →
      ∀ e ∈ l.foldl (fun acc kv => assocPut kv.1 kv.2 acc) acc,
        e.1 ≠ .null ∧ IsData' dr e.1 ∧ IsData' dr e.2 from H kvs [] h (by simp)
  intro l
  induction l with
  | nil => intro acc _ hacc; simpa using hacc
  | cons x l ih =>
    intro acc hl hacc
    rw [List.foldl_cons]
    apply ih _ (fun e he => hl e (List.mem_cons_of_mem _ he))
    have hx := hl x (by simp)
    exact assocPut_inv (P := fun e => e.1 ≠ .null ∧ IsData' dr e.1 ∧ IsData' dr e.2)
      (fun k v v' _ h => h) hx (fun k' v' h' => ⟨h'.1, h'.2.1, hx.2.2⟩) hacc

/-- **mkMap_isData**: the map built from entries with data keys (none NULL) and data values in any
    insertion order, repeated keys included, is a data value: its entries are in the canonical
    order, strictly ascending keys -/
theorem mkMap_isData (hinj : RenderInj dr) {kvs : List (Val × Val)}
    (hx : ∀ e ∈ kvs, e.1 ≠ .null ∧ IsData' dr e.1 ∧ IsData' dr e.2) :
    IsData' dr (mkMap dr kvs) := by
  have ht := vlt_strictTotalOn dr hinj
  let ys := assocOfList kvs
  have hys := assocOfList_inv dr hx
  let lt : Val × Val → Val × Val → Bool := fun a b => vltWith dr a.1 b.1
  have hperm := sortBy_perm' lt ys
  have hzs : ∀ z ∈ sortBy lt ys, z.1 ≠ .null ∧ IsData' dr z.1 ∧ IsData' dr z.2 :=
    fun z hz => hys z (hperm.mem_iff.mp hz)
  have hw : StrictWeakOn (fun e : Val × Val => IsData' dr e.1) lt := ht.toWeak.comap Prod.fst
  have hsorted := sortBy_sorted' hw (fun y hy => (hys y hy).2.1)
  have hk : (keysOf ys).Pairwise (fun x y => veq x y = false) := by
    have := foldl_assocPut_keys_pairwise kvs [] (by simp [keysOf])
    exact this
  have hnd : ys.Pairwise (fun a b => a.1 ≠ b.1) := by
    have := (List.pairwise_map.mp hk)
    exact this.imp (fun {a b} h e => by rw [e, veq_refl'] at h; cases h)
  have hnd' : (sortBy lt ys).Pairwise (fun a b => a.1 ≠ b.1) :=
    (hperm.pairwise_iff (fun {a b} (h : a.1 ≠ b.1) => h.symm)).mpr hnd
  rw [mkMap, IsData']
  refine ⟨isDataM_of_mem dr hzs, ?_⟩
  refine List.Pairwise.imp_of_mem ?_ (hnd'.and hsorted)
  intro a b ha hb ⟨hne, hba⟩
  rcases ht.tri a.1 b.1 (hzs a ha).2.1 (hzs b hb).2.1 with h | h | h
  · exact h
  · exact absurd h hne
  · rw [show vltWith dr b.1 a.1 = lt b a from rfl, hba] at h; cases h

end Ckl.C08F
