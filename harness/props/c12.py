"""C12 Results do not depend on hash seeds, process or construction order."""
import json
import os
import subprocess
import sys
import tempfile

from harness import core, session
from harness.props import common

WORDS = ["apple", "pear", "fig", "kiwi", "plum", "lime", "date", "nut", "yam", "pea", "bean", "corn", "rice", "oat", "rye", "a", "b", "ab", "B", "", " x", "é"]

TEMPLATES = [
    "string(S)", "[x for x in S]", "def r = []; for x in S do append(r, x) end; r", "list(S)", "[...S]", "def f(args...) args...; f(...S)",
    "def [p, q, r] = S; [p, q, r]", "def p = 0; def q = 0; [p, q] = S; [p, q]", "string(S + T)", "string(S - T)", "sorted(S)", "'fig' in S",
    "require Set; string(Set->union(S, T))", "require Set; string(Set->intersection(S, T))", "require Set; string(Set->diff(S, T))",
    "require Set; string(Set->symmetric_diff(S, T))", "<<x + '!' for x in S>>", "<<<k => length(k) for k in S>>>", "[[x, y] for x in S for y in T]",
    "[[x, y] for x in S also for y in T]", "string(M)", "def r = []; for k in keys M do append(r, k) end; r", "def r = []; for v in values M do append(r, v) end; r",
    "def r = []; for [k, v] in entries M do append(r, k + string(v)) end; r", "[k for k in keys M]", "[v for v in values M]", "[e for e in entries M]",
    "list(M)", "set(M)", "string(set(M))", "def g(fig = 0, kiwi = 0, rest...) [fig, kiwi]; g(...M2)", "enumerate(M)", "[...M]",
    "require List; List->unique(list(S) + list(T))", "min(list(S))", "max(list(S))", "join(list(S), ',')", "length(S + T)", "zip(list(S), list(T))",
    "s('{S}')", "println(S); println(M); 0", "def o = object(M2); string(o)", "for x in S do println(x) end", "string(<<S, T>>)", "string(<<<S => 1, T => 2>>>)",
    "string([S, M])", "set_seed(7); [random(100), random(100), random(100)]", "require Random; Random->set_seed(3); Random->choice(list(S))",
    "def acc = ''; for x in S do acc = acc + x end; acc", "sum(N)", "string(N)", "[x for x in N]", "string(MIX)", "[x for x in MIX]", "list(MIX)",
    "string(<<x for x in S if x > 'f'>>)", "require List; List->first(list(S))", "require List; List->last(list(S))", "compare(S, T)", "S == T", "S < T",
    "string(sorted(list(S) + list(T)))", "def c = 0; for x in S do c += length(x) end; c", "while_result(S)",
    "sorted(S, key = fn(x) length(x))", "sorted(S, cmp = fn(a, b) compare(length(a), length(b)))", "sorted(S + T, key = fn(x) 0)", "sorted(M, key = fn(x) 0)",
    "[0] + S", "def l = [0]; l += S; l", "add([0], S)", "[0] + M", "list(S) + T", "[] + N", "[0] - S", "append_all([0], S)", "def l = [0]; append_all(l, M); l",
    "S + list(T)", "string(S * 1)", "reverse(S)", "sublist(S, 1)", "S[0]", "first(S)", "last(S)", "[S[i] for i in range(length(S))]", "map_list(S, fn(x) x + '!')" ,
    "filter(S, fn(x) length(x) > 2)", "reduce(S, fn(a, b) a + b)", "reduce(list(S), fn(a, b) a + b)", "find(S, 'fig')", "zip(S, T)", "enumerate(S)", "pairs(S)", "chunks(S, 2)",
    "unique(S + T)", "flatten([S, T])", "join(S, '-')", "count(S, 'fig')", "any(S, fn(x) x > 'm')", "grouped(S, key = fn(x) length(x))", "max(S, key = fn(x) length(x))",
    # a map with non-string keys spread into a call: the values become positional arguments in ascending key order
    "def h(r...) r...; h(...M3)", "def h3(a, b, c) [a, b, c]; h3(...M3)", "def h4(a) a; do h4(...M3) catch all 'too many' end", "def h5(a, r...) [a, r...]; h5(...M3)",
    "[...M3]", "def h6(a, b = 'dflt', r...) [a, b]; h6(...M3, b = 'named')",
    "min(S, key = fn(x) length(x))", "max(S)", "min(M)", "sum(N)", "interval(1, 3) + N", "insert_at([0], 0, S)", "def l = list(S); delete_at(l, 0)", "remove(S, first(list(S))); string(S)",
]


def sweep_programs():
    """every function of the (legacy) base environment applied to sets / maps of strings in several argument shapes"""
    import re as _re
    from ckl.interpreter import Interpreter
    it = Interpreter(True, True)
    skip = _re.compile(r"random|timestamp|^now$|^date$|sleep|exit|readln|^read|input|execute|^run$|^eval$|bind_native|set_seed|^info$|^ls$|^body$|^permutations$")
    names = sorted(n for n in it.base_environment.getSymbols() if it.base_environment.get(n).isFunc() and not skip.search(n))
    header = ("def S = <<'pear', 'fig', 'apple', 'kiwi', 'plum', 'a', 'B', 'lime', 'nut'>>; def T = <<'yam', 'fig', 'pea', 'oat', 'rye'>>; "
              "def M = <<<'pear' => 1, 'fig' => 2, 'apple' => 3, 'kiwi' => 4, 'plum' => 5, 'a' => 6>>>; def K = fn(x) length(x); ")
    shapes = ["{f}(S)", "{f}(S, T)", "{f}(M)", "{f}([0], S)", "{f}(S, K)", "{f}(K, S)", "{f}(S, 2)", "{f}(S, key = K)", "{f}(S, 'fig')", "{f}(M, 'fig')", "{f}(S, T, M)"]
    return [header + "string(" + sh.format(f=n) + ")" for n in names for sh in shapes]

RUNNER = r'''
import json, sys, signal
sys.path.insert(0, sys.argv[1])
from ckl.interpreter import Interpreter
from ckl.values import StringInput, StringOutput
from ckl.errors import CklRuntimeError, CklSyntaxError
progs = json.load(open(sys.argv[2]))
class TimeoutError(BaseException): pass
def handler(signum, frame): raise TimeoutError()
signal.signal(signal.SIGALRM, handler)
out = []
it = Interpreter(True, True)
for src in progs:
    it.environment.map.clear()
    o = StringOutput(); it.setStandardOutput(o); it.setStandardInput(StringInput(""))
    signal.setitimer(signal.ITIMER_REAL, 5, 0.5)
    try:
        v = it.interpret(src, "p")
        r = ["val", str(v), o.output]
    except CklRuntimeError as e:
        r = ["rt", str(e.value), o.output]
    except CklSyntaxError as e:
        r = ["syn", str(e.msg), o.output]
    except TimeoutError:
        r = ["timeout", "", ""]
    except Exception as e:
        r = ["host", type(e).__name__ + ": " + str(e)[:100], o.output]
    signal.setitimer(signal.ITIMER_REAL, 0)
    out.append(r)
json.dump(out, sys.stdout)
'''


def lit_set(items):
    return "<<" + ", ".join(lit(x) for x in items) + ">>"


def lit(x):
    return "'" + x + "'" if isinstance(x, str) else str(x)


def gen_programs(ctx, n):
    rng = ctx.rng
    progs = []
    for _ in range(n):
        s_items = rng.sample(WORDS, rng.randint(3, 9))
        t_items = rng.sample(WORDS, rng.randint(2, 6))
        m_items = rng.sample(WORDS, rng.randint(3, 7))
        n_items = rng.sample(range(-20, 40), rng.randint(3, 8))
        mix = rng.sample(WORDS, 3) + rng.sample(range(0, 30), 3) + ["TRUEX"] + rng.sample(["NULLX", "FALSEX", "LISTX", "DECX"], 2)
        rng.shuffle(mix)
        def mk_header(order):
            si, ti, mi, ni, mx, m2 = order
            m3 = [(3, "'c'"), (1, "'a'"), (2, "'b'")] if si is s_items else [(2, "'b'"), (3, "'c'"), (1, "'a'")]
            return (f"def S = {lit_set(si)}; def T = {lit_set(ti)}; "
                    f"def M = <<<{', '.join(lit(k) + ' => ' + str(v) for k, v in mi)}>>>; "
                    f"def M2 = <<<{', '.join(lit(k) + ' => ' + str(v) for k, v in m2)}>>>; "
                    f"def M3 = <<<{', '.join(str(k) + ' => ' + v for k, v in m3)}>>>; "
                    f"def N = {lit_set(ni)}; def MIX = <<{', '.join(SPECIAL.get(x, None) or lit(x) for x in mx)}>>; "
                    "def while_result(q) do def l = list(q); def i = 0; def out = []; while i < length(l) do append(out, l[i]); i += 1 end; out end; ")
        m_pairs = [(k, i) for i, k in enumerate(m_items)]
        m2 = [('fig', 1), ('kiwi', 2), ('zz', 3), ('aa', 4)]
        header = mk_header((s_items, t_items, m_pairs, n_items, mix, m2))
        # the same collections built in another order (construction-order twin)
        sh = lambda xs: rng.sample(list(xs), len(xs))   # noqa
        twin = mk_header((sh(s_items), sh(t_items), sh(m_pairs), sh(n_items), sh(mix), sh(m2)))
        for t in (TEMPLATES if ctx.thorough else rng.sample(TEMPLATES, 40)):
            progs.append(header + t)
            TWINS[header + t] = twin + t
    return progs


TWINS = {}
SPECIAL = {"TRUEX": "TRUE", "NULLX": "NULL", "FALSEX": "FALSE", "LISTX": "['in', 'list']", "DECX": "2.5"}


def canon_dump(d):
    """value dumps list map entries in storage order (needed against the model's heap); as VALUES maps are unordered"""
    if isinstance(d, tuple):
        if d and d[0] == 'm' and len(d) == 2 and isinstance(d[1], tuple):
            return ('m', tuple(sorted((canon_dump(e) for e in d[1]), key=repr)))
        return tuple(canon_dump(x) for x in d)
    return d


def run(ctx):
    nseeds = 32 if ctx.thorough else 8
    progs = gen_programs(ctx, 40 if ctx.thorough else 16)
    core.use_repo()
    progs += sweep_programs()
    ctx.rule = ("generated programs that build sets and maps of strings and mixed scalars (3..9 elements) and send them through every "
                "iteration, conversion, spread, destructuring, rendering and comprehension path, the set/list/stat library functions and the "
                f"seeded random functions, plus every function of the base environment applied to sets and maps of strings in 11 argument shapes; each program executed in {nseeds} fresh processes with different PYTHONHASHSEED values; value, "
                "printed output and error must be identical across all of them, identical to the run of a twin program that builds the same collections from differently ordered literals, and equal to the model evaluator's (seed-free) answer; "
                "non-trivial = a collection of >= 3 string elements (their hash order differs between seeds)")
    tmp = tempfile.mkdtemp(prefix="c12")
    try:
        pj = os.path.join(tmp, "progs.json")
        json.dump(progs, open(pj, "w"))
        rp = os.path.join(tmp, "runner.py")
        open(rp, "w").write(RUNNER)
        seeds = [0, 1] + [ctx.rng.randrange(2, 4294967295) for _ in range(nseeds - 2)]
        procs = []
        for sd in seeds:
            env = dict(os.environ)
            env["PYTHONHASHSEED"] = str(sd)
            env["HOME"] = tmp
            procs.append((sd, subprocess.Popen([sys.executable, rp, os.path.join(core.REPO, "src"), pj], stdout=subprocess.PIPE,
                                               stderr=subprocess.PIPE, env=env, cwd=tmp, text=True)))
        results = {}
        for sd, p in procs:
            out, err = p.communicate(timeout=1500)
            if p.returncode != 0:
                raise RuntimeError(f"runner failed under seed {sd}: {err[-800:]}")
            results[sd] = json.loads(out)
    finally:
        import shutil
        shutil.rmtree(tmp, ignore_errors=True)
    base = results[seeds[0]]
    differing_orders = 0
    for i, src in enumerate(progs):
        ctx.seen(src, nontrivial=True)
        outs = {sd: tuple(results[sd][i]) for sd in seeds}
        distinct = set(outs.values())
        if len(distinct) > 1:
            a, b = list(distinct)[:2]
            sa = [sd for sd in seeds if outs[sd] == a][0]
            sb = [sd for sd in seeds if outs[sd] == b][0]
            ctx.violation("oracle", f"the program gives {a[:2]} under PYTHONHASHSEED={sa} and {b[:2]} under {sb}: {src[-120:]}",
                          {"op": "hashseed", "src": src, "seeds": [sa, sb], "results": [list(a), list(b)]})
        if base[i][0] == "host":
            ctx.count("host_outcomes")
    # ---------------- construction order: the same collections built from differently ordered literals give the same answer
    s2 = session.ImplSession(legacy=True)
    try:
        for src in progs:
            twin = TWINS.get(src)
            if twin is None or "random" in src.lower() or "set_seed" in src:
                continue
            s2.it.environment.map.clear()
            a = s2.run(src)
            s2.it.environment.map.clear()
            b = s2.run(twin)
            ctx.count("construction_order_twins")
            if (canon_dump(a[0][:2]), a[1]) != (canon_dump(b[0][:2]), b[1]):
                ctx.violation("oracle", f"the same collections built in another order give {b[0][:2]} instead of {a[0][:2]}: {src[-100:]}",
                              {"op": "construction-order", "src": src, "twin": twin})
    finally:
        s2.close()
    ctx.count("seeds", len(seeds))
    ctx.count("program_runs", len(seeds) * len(progs))
    # ---------------- the model evaluator has no hash order at all: its answer must be the implementation's
    if ctx.build.ok:
        idx = list(range(len(progs)))
        # the model evaluator on the REAL base environment: legacy.ckl and every bundled module source evaluated by the model itself
        outs, why = session.run_lib_sessions([[progs[i]] for i in idx], legacy=True, fuel=60000)
        if outs is None:
            ctx.disagreements += 1
            ctx.violation("correspondence", f"the model evaluator cannot build the base environment from the bundled sources: {why[:300]}",
                          {"op": "libsetup", "correspondence": "Ckl.eval on legacy.ckl vs get_base_environment"})
            outs = []
        s = session.ImplSession(legacy=True)
        try:
            for i, model in zip(idx, outs):
                m = model[0]
                if session.uses_constant_native(progs[i].rsplit("; ", 1)[-1]):
                    ctx.count("model_skipped_constant_native")
                    continue
                ctx.count("model_programs")
                if m[0][0] == 'fail':
                    ctx.count("model_abstains")
                    continue
                s.it.environment.map.clear()
                out = s.run(progs[i])
                d = session.compare((out[0], out[1], ()), (m[0], m[1], ()))
                if d:
                    ctx.disagreements += 1
                    ctx.violation("correspondence", f"{progs[i][-100:]}: {d}", {"op": "program", "src": progs[i], "correspondence": "Ckl.eval vs Interpreter.interpret"})
        finally:
            s.close()
    ctx.sample({"program": progs[0][-80:], "seeds": seeds[:4], "result": base[0][:2]})
    ctx.sample({"program": progs[1][-80:], "result": base[1][:2]})
    common.replay_known(ctx)


def replay(ctx, payload):
    return common.generic_replay(ctx, payload)
