import CklVerif.Proofs.C06Eval
import CklVerif.Proofs.C06EvalSorted
import CklVerif.Proofs.C06EvalLoop

#print axioms Ckl.C06Eval.rvlt_bridge
#print axioms Ckl.C06Eval.sortedR_bridge
#print axioms Ckl.C06Eval.sortedEntriesR_bridge
#print axioms Ckl.C06Eval.native_less_eq
#print axioms Ckl.C06Eval.native_greater_eq
#print axioms Ckl.C06Eval.native_less_equals_eq
#print axioms Ckl.C06Eval.native_greater_equals_eq
#print axioms Ckl.C06Eval.native_compare_eq
#print axioms Ckl.C06Eval.less_irrefl
#print axioms Ckl.C06Eval.less_asymm
#print axioms Ckl.C06Eval.less_trans
#print axioms Ckl.C06Eval.less_trichotomy
#print axioms Ckl.C06Eval.less_congr_left
#print axioms Ckl.C06Eval.compare_consistent
#print axioms Ckl.C06Eval.derived_consistent
#print axioms Ckl.C06Eval.strict_of_sorted
#print axioms Ckl.C06Eval.enum_set
#print axioms Ckl.C06Eval.spread_set
#print axioms Ckl.C06Eval.enum_map_keys
#print axioms Ckl.C06Eval.sortedM_sortedStable
#print axioms Ckl.C06Eval.sorted_list_spec
#print axioms Ckl.C06Eval.sorted_list_sorted_stable
#print axioms Ckl.C06Eval.sorted_set_spec
#print axioms Ckl.C06Eval.sorted_list_by_length
#print axioms Ckl.C06Eval.for_set_order
#print axioms Ckl.C06Eval.for_stmt_set_order
#print axioms Ckl.C06Eval.for_map_keys_order
#print axioms Ckl.C06Eval.for_stmt_map_keys_order
#print axioms Ckl.C06Eval.for_map_values_order
#print axioms Ckl.C06Eval.compr_set_order
#print axioms Ckl.C06Eval.compr_map_keys_order
#print axioms Ckl.C06Eval.spread_item_set_order
#print axioms Ckl.C06Eval.spread_item_map_keys_order
#print axioms Ckl.C06Eval.spread_arg_set_order
