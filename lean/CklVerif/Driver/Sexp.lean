/-
  Line protocol of the model driver: S-expressions.
  Not part of any theorem; only used by `Main.lean` to talk to the harness.
-/
import CklVerif.Model.Value
namespace Ckl

inductive Sx where
  | atom (s : String)
  | list (xs : List Sx)
deriving Inhabited, Repr

namespace Sx

/-- tokens: "(", ")", atoms -/
def tokenize (s : String) : List String := Id.run do
  let mut out : Array String := #[]
  let mut cur : String := ""
  for c in s.toList do
    if c = '(' || c = ')' then
      if cur ≠ "" then out := out.push cur; cur := ""
      out := out.push (String.singleton c)
    else if c = ' ' || c = '\n' || c = '\r' || c = '\t' then
      if cur ≠ "" then out := out.push cur; cur := ""
    else cur := cur.push c
  if cur ≠ "" then out := out.push cur
  return out.toList

/-- parse one expression from a token list (fuel = number of tokens) -/
def parseOne : Nat → List String → Option (Sx × List String)
  | 0, _ => none
  | _, [] => none
  | fuel + 1, "(" :: rest => parseList fuel rest []
  | _, ")" :: _ => none
  | _ + 1, a :: rest => some (.atom a, rest)
where
  parseList : Nat → List String → List Sx → Option (Sx × List String)
    | 0, _, _ => none
    | _, [], _ => none
    | _ + 1, ")" :: rest, acc => some (.list acc.reverse, rest)
    | fuel + 1, toks, acc =>
      match parseOne fuel toks with
      | some (x, rest) => parseList fuel rest (x :: acc)
      | none => none

def parse (s : String) : Option Sx :=
  let toks := tokenize s
  match parseOne (toks.length + 1) toks with
  | some (x, []) => some x
  | _ => none

partial def toString : Sx → String
  | .atom s => s
  | .list xs => "(" ++ " ".intercalate (xs.map toString) ++ ")"

instance : ToString Sx := ⟨Sx.toString⟩

end Sx

/-! hex coding of strings: six hex digits per code point -/

def hexDigit (n : Nat) : Char :=
  if n < 10 then Char.ofNat (48 + n) else Char.ofNat (87 + n)

def hex6 (n : Nat) : String :=
  String.ofList [hexDigit (n / 1048576 % 16), hexDigit (n / 65536 % 16), hexDigit (n / 4096 % 16),
             hexDigit (n / 256 % 16), hexDigit (n / 16 % 16), hexDigit (n % 16)]

def encodeStr (s : List Char) : String :=
  String.join (s.map fun c => hex6 c.toNat)

def hexVal (c : Char) : Option Nat :=
  if '0' ≤ c ∧ c ≤ '9' then some (c.toNat - 48)
  else if 'a' ≤ c ∧ c ≤ 'f' then some (c.toNat - 87)
  else if 'A' ≤ c ∧ c ≤ 'F' then some (c.toNat - 55)
  else none

def decodeChunks : List Char → Option (List Char)
  | [] => some []
  | a :: b :: c :: d :: e :: f :: rest => do
    let a ← hexVal a; let b ← hexVal b; let c ← hexVal c
    let d ← hexVal d; let e ← hexVal e; let f ← hexVal f
    let n := ((((a * 16 + b) * 16 + c) * 16 + d) * 16 + e) * 16 + f
    let tl ← decodeChunks rest
    some (Char.ofNat n :: tl)
  | _ => none

def decodeStr (s : String) : Option (List Char) := decodeChunks s.toList

end Ckl
