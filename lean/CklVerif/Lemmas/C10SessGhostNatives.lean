/-
  C10 (sessions): the modelled built-in functions (`callPure`) do not read the ghost counters.
-/
import CklVerif.Lemmas.C10SessGhostHelpers
namespace Ckl.C10S
open Ckl Ckl.C05


theorem R2.dateResM (r : DateRes) (pos : Pos) : GI (dateResM r pos) := by
  unfold Ckl.dateResM; r2_auto
macro_rules | `(tactic| r2_lemma) => `(tactic| exact R2.dateResM _ _)

theorem R2.callDate (name : String) (args : List (String × RVal)) (pos : Pos) (m : EvalM RVal)
    (h : callDate name args pos = some m) : GI m := by
  unfold Ckl.callDate at h
  split at h <;> first | (injection h with h; subst h; exact R2.dateResM _ _) | (cases h)

theorem R2.nativeAdd (a b : RVal) (pos : Pos) : GI (nativeAdd a b pos) := by
  unfold Ckl.nativeAdd; r2_auto
macro_rules | `(tactic| r2_lemma) => `(tactic| exact R2.nativeAdd _ _ _)

theorem R2.nativeSub (a b : RVal) (pos : Pos) : GI (nativeSub a b pos) := by
  unfold Ckl.nativeSub; r2_auto
macro_rules | `(tactic| r2_lemma) => `(tactic| exact R2.nativeSub _ _ _)

theorem R2.nativeMul (a b : RVal) (pos : Pos) : GI (nativeMul a b pos) := by
  unfold Ckl.nativeMul; r2_auto
macro_rules | `(tactic| r2_lemma) => `(tactic| exact R2.nativeMul _ _ _)

theorem R2.nativeDiv (a b : RVal) (d : Option RVal) (pos : Pos) : GI (nativeDiv a b d pos) := by
  unfold Ckl.nativeDiv; r2_auto
macro_rules | `(tactic| r2_lemma) => `(tactic| exact R2.nativeDiv _ _ _ _)

theorem R2.nativeMod (a b : RVal) (pos : Pos) : GI (nativeMod a b pos) := by
  unfold Ckl.nativeMod; r2_auto
macro_rules | `(tactic| r2_lemma) => `(tactic| exact R2.nativeMod _ _ _)


theorem rm_wg (el : RVal) (s : State) (γ : Ghost) (xs : List RVal) :
    callPure.rm el (wg s γ) xs = callPure.rm el s xs := by
  induction xs with
  | nil => rfl
  | cons y ys ih => simp only [callPure.rm, rveq_wg, ih]

/-- every modelled pure native does not read the ghost counters -/
theorem R2.callPure (name : String) (args : List (String × RVal)) (d : Option RVal) (pos : Pos)
    (m : EvalM RVal) (h : callPure name args d pos = some m) : GI m := by
  unfold Ckl.callPure at h
  split at h
  all_goals first | (cases h) | (exact R2.callDate _ _ _ _ h)
  all_goals r2_auto
  all_goals (simp only [rm_wg]; r2_auto)

end Ckl.C10S
