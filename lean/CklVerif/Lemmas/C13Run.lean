import CklVerif.Lemmas.C13NoHost

/-! small rewriting kit for running the evaluator on concrete inputs inside proofs -/
namespace Ckl

theorem getS_apply (s : State) : getS s = .ok s s := rfl
theorem setS_apply (s s0 : State) : setS s s0 = .ok () s := rfl
theorem modifyS_apply (f : State → State) (s : State) : modifyS f s = .ok () (f s) := rfl
theorem throwE_apply {α} (msg : String) (pos : Pos) (s : State) :
    (throwE msg pos : EvalM α) s = .err (.str ['E', 'R', 'R', 'O', 'R']) msg pos [] s := rfl
theorem throwV_apply {α} (v : RVal) (msg : String) (pos : Pos) (s : State) :
    (throwV v msg pos : EvalM α) s = .err v msg pos [] s := rfl
theorem cellOf_ref (a : Nat) (s : State) : cellOf (.ref a) s = .ok (s.cell a) s := rfl
theorem typeOf_apply (v : RVal) (s : State) : typeOf v s = .ok (typeName s v) s := rfl

end Ckl
