/-
  C14 (redundant parentheses) — "every production leaves a SUFFIX of its input tokens":
  the framework (a one-run property, proved by the same well-founded induction as the extension
  proof of `C14ParensMain.lean`).

  `SufP P y` : whenever the computation `y` succeeds, its result satisfies `P`.
  `SufLt y ts`, `SufLe y ts` : whenever the production `y` succeeds, the tokens it leaves are a
  suffix of `ts`.

  This file: the monadic rules for `SufP`, and the suffix lemmas of all token-stream helpers of
  `ParserBase.lean` (`matchIf`, `expect`, `next`, …, the tables, the token-only loops).
-/
import CklVerif.Model.Parser
namespace Ckl.C14X
open Ckl Ckl.Parser

local notation "kw" => (some TokType.keyword)
local notation "ip" => (some TokType.interpunction)
local notation "op" => (some TokType.operator)
local notation "idt" => (some TokType.identifier)

set_option linter.unusedSimpArgs false
set_option linter.unusedVariables false

/-! ### the predicates -/

/-- whenever `y` succeeds, its result satisfies `P` -/
def SufP {A : Type} (P : A → Prop) (y : Except PErr A) : Prop := ∀ a, y = .ok a → P a

/-- whenever the production succeeds, the remaining tokens are a suffix of the input tokens -/
def SufLt {α : Type} {n : Nat} (y : R α n) (ts : List Token) : Prop := ∀ o, y = .ok o → o.st.toks <:+ ts

/-- whenever the production succeeds, the remaining tokens are a suffix of the input tokens -/
def SufLe {α : Type} {n : Nat} (y : Rle α n) (ts : List Token) : Prop := ∀ o, y = .ok o → o.st.toks <:+ ts

theorem SufP.ok {A : Type} {P : A → Prop} {a : A} (h : P a) : SufP P (Except.ok a : Except PErr A) := by
  intro b hb; cases hb; exact h

theorem SufP.pure {A : Type} {P : A → Prop} {a : A} (h : P a) : SufP P (Pure.pure a : Except PErr A) :=
  SufP.ok h

theorem SufP.err {A : Type} {P : A → Prop} {e : PErr} : SufP P (Except.error e : Except PErr A) := by
  intro b hb; cases hb

theorem SufP.throw {A : Type} {P : A → Prop} {e : PErr} : SufP P (throw e : Except PErr A) :=
  SufP.err

theorem SufP.bind {A B : Type} {Q : A → Prop} {P : B → Prop} {x : Except PErr A} {k : A → Except PErr B}
    (hx : SufP Q x) (hk : ∀ a, Q a → SufP P (k a)) : SufP P (x >>= k) := by
  cases x with
  | error e => exact SufP.err
  | ok a => exact hk a (hx a rfl)

/-- a step that does not touch the lexer state (`peek`, `checkRedefineKeyword`, `mkAssign`, …) -/
theorem SufP.bind_any {A B : Type} {P : B → Prop} {x : Except PErr A} {k : A → Except PErr B}
    (hk : ∀ a, SufP P (k a)) : SufP P (x >>= k) :=
  SufP.bind (Q := fun _ => True) (fun _ _ => trivial) (fun a _ => hk a)

theorem SufP.mono {A : Type} {P Q : A → Prop} {x : Except PErr A} (hx : SufP P x) (h : ∀ a, P a → Q a) :
    SufP Q x := fun a ha => h a (hx a ha)

/-- `SufP.bind` for a first step that is a production returning `OutLt` -/
theorem SufP.bindLt {α B : Type} {n : Nat} (ts : List Token) {P : B → Prop} {x : R α n}
    {k : OutLt α n → Except PErr B} (hx : SufP (fun o => o.st.toks <:+ ts) x)
    (hk : ∀ a : OutLt α n, a.st.toks <:+ ts → SufP P (k a)) : SufP P (x >>= k) := SufP.bind hx hk

/-- `SufP.bind` for a first step that is a production returning `OutLe` -/
theorem SufP.bindLe {α B : Type} {n : Nat} (ts : List Token) {P : B → Prop} {x : Rle α n}
    {k : OutLe α n → Except PErr B} (hx : SufP (fun o => o.st.toks <:+ ts) x)
    (hk : ∀ a : OutLe α n, a.st.toks <:+ ts → SufP P (k a)) : SufP P (x >>= k) := SufP.bind hx hk

theorem SufLt.to {α : Type} {n : Nat} {y : R α n} {ts1 ts : List Token} (h : SufLt y ts1) (hs : ts1 <:+ ts) :
    SufP (fun o => o.st.toks <:+ ts) y := fun o ho => (h o ho).trans hs

theorem SufLe.to {α : Type} {n : Nat} {y : Rle α n} {ts1 ts : List Token} (h : SufLe y ts1) (hs : ts1 <:+ ts) :
    SufP (fun o => o.st.toks <:+ ts) y := fun o ho => (h o ho).trans hs

theorem SufLt.of {α : Type} {n : Nat} {y : R α n} {ts : List Token}
    (h : SufP (fun o => o.st.toks <:+ ts) y) : SufLt y ts := h

theorem SufLe.of {α : Type} {n : Nat} {y : Rle α n} {ts : List Token}
    (h : SufP (fun o => o.st.toks <:+ ts) y) : SufLe y ts := h

theorem suf_wkLt {α : Type} {m n : Nat} {h : m ≤ n} {y : R α m} {ts : List Token}
    (hy : SufP (fun o => o.st.toks <:+ ts) y) : SufP (fun o => o.st.toks <:+ ts) (wkLt h y) := by
  cases y with
  | error e => exact SufP.err
  | ok a => exact SufP.ok (hy a rfl)

theorem suf_wkLe {α : Type} {m n : Nat} {h : m ≤ n} {y : Rle α m} {ts : List Token}
    (hy : SufP (fun o => o.st.toks <:+ ts) y) : SufP (fun o => o.st.toks <:+ ts) (wkLe h y) := by
  cases y with
  | error e => exact SufP.err
  | ok a => exact SufP.ok (hy a rfl)

theorem suf_ltLe {α : Type} {m n : Nat} {h : m ≤ n} {y : R α m} {ts : List Token}
    (hy : SufP (fun o => o.st.toks <:+ ts) y) : SufP (fun o => o.st.toks <:+ ts) (ltLe h y) := by
  cases y with
  | error e => exact SufP.err
  | ok a => exact SufP.ok (hy a rfl)

theorem suf_leLt {α : Type} {m n : Nat} {h : m < n} {y : Rle α m} {ts : List Token}
    (hy : SufP (fun o => o.st.toks <:+ ts) y) : SufP (fun o => o.st.toks <:+ ts) (leLt h y) := by
  cases y with
  | error e => exact SufP.err
  | ok a => exact SufP.ok (hy a rfl)

/-! ### tactic abbreviations -/

/-- decide a Boolean `if`: first goal `true`, second goal `false` -/
macro "sif " hb:ident " : " c:term : tactic =>
  `(tactic| by_cases $hb:ident : ($c : Bool) = true <;> simp only [$hb:ident, if_true, if_false, Bool.false_eq_true])

/-- one monadic step whose result is a record `⟨value, state, bound⟩` -/
macro "sb " t:term:max " with " e:ident s1:ident h1:ident hs1:ident : tactic =>
  `(tactic| (refine SufP.bind $t ?_
             rintro ⟨$e:ident, $s1:ident, $h1:ident⟩ $hs1:ident
             (try dsimp only at $hs1:ident)
             (try dsimp only)))

/-- `sb` for a production returning a pair -/
macro "sb2 " t:term:max " with " a:ident b:ident s1:ident h1:ident hs1:ident : tactic =>
  `(tactic| (refine SufP.bind $t ?_
             rintro ⟨⟨$a:ident, $b:ident⟩, $s1:ident, $h1:ident⟩ $hs1:ident
             (try dsimp only at $hs1:ident)
             (try dsimp only)))

/-- one monadic step of a helper returning a lexer state in a subtype (`expect`, `sepUnless`) -/
macro "sbs " t:term:max " with " s1:ident h1:ident hs1:ident : tactic =>
  `(tactic| (refine SufP.bind $t ?_
             rintro ⟨$s1:ident, $h1:ident⟩ $hs1:ident
             (try dsimp only at $hs1:ident)
             (try dsimp only)))

/-- one monadic step that is a call of a production through the induction hypothesis:
    `t : SufLt/SufLe (F c s …) s.toks`, `hs : s.toks <:+ ts` -/
macro "sbh " t:term:max hs:term:max " with " e:ident s1:ident h1:ident hs1:ident : tactic =>
  `(tactic| (first | refine SufP.bind (SufLt.to $t $hs) ?_ | refine SufP.bind (SufLe.to $t $hs) ?_
             rintro ⟨$e:ident, $s1:ident, $h1:ident⟩ $hs1:ident
             (try dsimp only at $hs1:ident)
             (try dsimp only)))

macro "sbh2 " t:term:max hs:term:max " with " a:ident b:ident s1:ident h1:ident hs1:ident : tactic =>
  `(tactic| (first | refine SufP.bind (SufLt.to $t $hs) ?_ | refine SufP.bind (SufLe.to $t $hs) ?_
             rintro ⟨⟨$a:ident, $b:ident⟩, $s1:ident, $h1:ident⟩ $hs1:ident
             (try dsimp only at $hs1:ident)
             (try dsimp only)))

/-- a step that does not touch the lexer state -/
macro "sany " a:ident : tactic => `(tactic| (refine SufP.bind_any ?_; intro $a:ident; (try dsimp only)))

/-- a step (an inline `show … from match …`) whose suffix property is left as the first goal -/
macro "sbrLt " ts:term:max " with " e:ident s1:ident h1:ident hs1:ident : tactic =>
  `(tactic| (refine SufP.bindLt $ts ?_ ?_
             rotate_left
             rintro ⟨$e:ident, $s1:ident, $h1:ident⟩ $hs1:ident
             (try dsimp only at $hs1:ident)
             (try dsimp only)
             rotate_left))

macro "sbrLe " ts:term:max " with " e:ident s1:ident h1:ident hs1:ident : tactic =>
  `(tactic| (refine SufP.bindLe $ts ?_ ?_
             rotate_left
             rintro ⟨$e:ident, $s1:ident, $h1:ident⟩ $hs1:ident
             (try dsimp only at $hs1:ident)
             (try dsimp only)
             rotate_left))

/-- close a goal `SufP _ (pure ⟨v, s, _⟩)` / `SufP _ (.ok ⟨v, s, _⟩)` / an error -/
macro "sok " hs:term:max : tactic =>
  `(tactic| first | exact SufP.ok $hs | exact SufP.pure $hs)

macro "serr" : tactic => `(tactic| first | exact SufP.err | exact SufP.throw)

/-! ### the token-stream helpers -/

theorem suffix_of_cons {t : Token} {rest l ts : List Token} (h : l = t :: rest) (hs : l <:+ ts) : rest <:+ ts :=
  (h ▸ List.suffix_cons t rest : rest <:+ l).trans hs

theorem matchIf_suffix {s : St} {v : List Char} {ty : Option TokType}
    {a : { s' : St // s'.toks.length < s.toks.length }} (h : s.matchIf v ty = some a) : a.1.toks <:+ s.toks := by
  obtain ⟨p, toks⟩ := s
  cases toks with
  | nil => simp [St.matchIf] at h
  | cons t rest =>
    simp only [St.matchIf] at h
    split at h
    · cases h; exact List.suffix_cons t rest
    · cases h

theorem matchIf2_suffix {s : St} {v1 v2 : List Char} {ty1 ty2 : Option TokType}
    {a : { s' : St // s'.toks.length < s.toks.length }} (h : s.matchIf2 v1 ty1 v2 ty2 = some a) :
    a.1.toks <:+ s.toks := by
  obtain ⟨p, toks⟩ := s
  rcases toks with _ | ⟨t1, _ | ⟨t2, rest⟩⟩
  · simp [St.matchIf2] at h
  · simp [St.matchIf2] at h
  · simp only [St.matchIf2] at h
    split at h
    · cases h; exact (List.suffix_cons t2 rest).trans (List.suffix_cons t1 _)
    · cases h

theorem matchIf3_suffix {s : St} {v1 v2 v3 : List Char} {ty1 ty2 ty3 : Option TokType}
    {a : { s' : St // s'.toks.length < s.toks.length }} (h : s.matchIf3 v1 ty1 v2 ty2 v3 ty3 = some a) :
    a.1.toks <:+ s.toks := by
  obtain ⟨p, toks⟩ := s
  rcases toks with _ | ⟨t1, _ | ⟨t2, _ | ⟨t3, rest⟩⟩⟩
  · simp [St.matchIf3] at h
  · simp [St.matchIf3] at h
  · simp [St.matchIf3] at h
  · simp only [St.matchIf3] at h
    split at h
    · cases h
      exact ((List.suffix_cons t3 rest).trans (List.suffix_cons t2 _)).trans (List.suffix_cons t1 _)
    · cases h

/-- case split on an optional new lexer state -/
theorem opt_suf {Q : St → Prop} {l ts : List Token} (f : Option { s' : St // Q s' })
    (hf : ∀ a, f = some a → a.1.toks <:+ l) (hs : l <:+ ts) :
    f = none ∨ ∃ a, f = some a ∧ a.1.toks <:+ ts := by
  cases f with
  | none => exact Or.inl rfl
  | some a => exact Or.inr ⟨a, rfl, (hf a rfl).trans hs⟩

theorem matchIf_suf {s : St} {ts : List Token} (hs : s.toks <:+ ts) (v : List Char) (ty : Option TokType) :
    s.matchIf v ty = none ∨ ∃ a, s.matchIf v ty = some a ∧ a.1.toks <:+ ts :=
  opt_suf _ (fun _ h => matchIf_suffix h) hs

theorem matchIf2_suf {s : St} {ts : List Token} (hs : s.toks <:+ ts) (v1 : List Char) (ty1 : Option TokType)
    (v2 : List Char) (ty2 : Option TokType) :
    s.matchIf2 v1 ty1 v2 ty2 = none ∨ ∃ a, s.matchIf2 v1 ty1 v2 ty2 = some a ∧ a.1.toks <:+ ts :=
  opt_suf _ (fun _ h => matchIf2_suffix h) hs

theorem matchIf3_suf {s : St} {ts : List Token} (hs : s.toks <:+ ts) (v1 : List Char) (ty1 : Option TokType)
    (v2 : List Char) (ty2 : Option TokType) (v3 : List Char) (ty3 : Option TokType) :
    s.matchIf3 v1 ty1 v2 ty2 v3 ty3 = none ∨
      ∃ a, s.matchIf3 v1 ty1 v2 ty2 v3 ty3 = some a ∧ a.1.toks <:+ ts :=
  opt_suf _ (fun _ h => matchIf3_suffix h) hs

/-- `if b then s.matchIf v ty else none` -/
theorem matchIf_guard_suf (b : Bool) {s : St} {ts : List Token} (hs : s.toks <:+ ts) (v : List Char)
    (ty : Option TokType) :
    (if b then s.matchIf v ty else none) = none ∨
      ∃ a, (if b then s.matchIf v ty else none) = some a ∧ a.1.toks <:+ ts := by
  cases b
  · exact Or.inl rfl
  · exact matchIf_suf hs v ty

theorem matchIf2_guard_suf (b : Bool) {s : St} {ts : List Token} (hs : s.toks <:+ ts) (v1 : List Char)
    (ty1 : Option TokType) (v2 : List Char) (ty2 : Option TokType) :
    (if b then s.matchIf2 v1 ty1 v2 ty2 else none) = none ∨
      ∃ a, (if b then s.matchIf2 v1 ty1 v2 ty2 else none) = some a ∧ a.1.toks <:+ ts := by
  cases b
  · exact Or.inl rfl
  · exact matchIf2_suf hs v1 ty1 v2 ty2

/-- `(s.matchIf "if").orElse (fun _ => s.matchIf "elif")` -/
theorem matchIf_orElse_suf {s : St} {ts : List Token} (hs : s.toks <:+ ts) (v1 : List Char)
    (ty1 : Option TokType) (v2 : List Char) (ty2 : Option TokType) :
    (s.matchIf v1 ty1).orElse (fun _ => s.matchIf v2 ty2) = none ∨
      ∃ a, (s.matchIf v1 ty1).orElse (fun _ => s.matchIf v2 ty2) = some a ∧ a.1.toks <:+ ts := by
  rcases matchIf_suf hs v1 ty1 with e1 | ⟨a, e1, ha⟩ <;> rw [e1]
  · exact matchIf_suf hs v2 ty2
  · exact Or.inr ⟨a, rfl, ha⟩

theorem skipIf_suf {s : St} {ts : List Token} (hs : s.toks <:+ ts) (v : List Char) (ty : Option TokType) :
    (s.skipIf v ty).1.toks <:+ ts := by
  unfold St.skipIf
  rcases matchIf_suf hs v ty with e1 | ⟨⟨s1, h1⟩, e1, hs1⟩ <;> rw [e1]
  · exact hs
  · exact hs1

theorem expect_suffix {s : St} {v : List Char} {ty : TokType}
    {a : { s' : St // s'.toks.length < s.toks.length }} (h : s.expect v ty = .ok a) : a.1.toks <:+ s.toks := by
  obtain ⟨p, toks⟩ := s
  cases toks with
  | nil => simp [St.expect] at h
  | cons t rest =>
    simp only [St.expect] at h
    split at h
    · cases h
    · cases h; exact List.suffix_cons t rest

theorem expect_suf {s : St} {ts : List Token} (hs : s.toks <:+ ts) (v : List Char) (ty : TokType) :
    SufP (fun a => a.1.toks <:+ ts) (s.expect v ty) := fun _ h => (expect_suffix h).trans hs

theorem next_suf {c : Ctx} {s : St} {ts : List Token} (hs : s.toks <:+ ts) :
    SufP (fun o => o.st.toks <:+ ts) (s.next c) := by
  intro o h
  obtain ⟨p, toks⟩ := s
  cases toks with
  | nil => simp [St.next] at h
  | cons t rest =>
    simp only [St.next] at h
    cases h
    exact (List.suffix_cons t rest).trans hs

theorem matchIdentifier_suf {s : St} {ts : List Token} (hs : s.toks <:+ ts) :
    SufP (fun o => o.st.toks <:+ ts) s.matchIdentifier := by
  intro o h
  obtain ⟨p, toks⟩ := s
  cases toks with
  | nil => simp [St.matchIdentifier] at h
  | cons t rest =>
    simp only [St.matchIdentifier] at h
    split at h
    · cases h
    · cases h; exact (List.suffix_cons t rest).trans hs

theorem sepUnless_suf {s : St} {ts : List Token} (hs : s.toks <:+ ts) (closer : List Char) :
    SufP (fun a => a.1.toks <:+ ts) (sepUnless s closer) := by
  unfold sepUnless
  sif hb : s.peekn 1 closer ip
  · exact SufP.ok hs
  · intro a h
    cases he : s.expect c!"," .interpunction with
    | error e => rw [he] at h; cases h
    | ok b =>
      rw [he] at h
      obtain ⟨s', hs'⟩ := b
      cases h
      exact (expect_suffix he).trans hs

theorem matchWhat_suf {s : St} {ts : List Token} (hs : s.toks <:+ ts) : (matchWhat s).2.1.toks <:+ ts := by
  unfold matchWhat
  rcases matchIf_suf hs c!"keys" idt with e1 | ⟨⟨s1, h1⟩, e1, hs1⟩ <;> rw [e1]
  · rcases matchIf_suf hs c!"values" idt with e2 | ⟨⟨s1, h1⟩, e2, hs1⟩ <;> rw [e2]
    · rcases matchIf_suf hs c!"entries" idt with e3 | ⟨⟨s1, h1⟩, e3, hs1⟩ <;> rw [e3]
      · exact hs
      · exact hs1
    · exact hs1
  · exact hs1

theorem takeComment_suf {s : St} {ts : List Token} (hs : s.toks <:+ ts) : (takeComment s).2.1.toks <:+ ts := by
  obtain ⟨p, toks⟩ := s
  cases toks with
  | nil => simp [takeComment]
  | cons t rest =>
    simp only [takeComment]
    split
    · exact (List.suffix_cons t rest).trans hs
    · exact hs

theorem matchFirstIdent_suf {s : St} {ts : List Token} (hs : s.toks <:+ ts) (vs : List (List Char)) :
    matchFirstIdent s vs = none ∨ ∃ v a, matchFirstIdent s vs = some (v, a) ∧ a.1.toks <:+ ts := by
  induction vs with
  | nil => exact Or.inl rfl
  | cons v vs ih =>
    unfold matchFirstIdent
    rcases matchIf_suf hs v idt with e1 | ⟨a, e1, ha⟩ <;> rw [e1]
    · exact ih
    · exact Or.inr ⟨v, a, rfl, ha⟩

theorem matchOpTable_suf {s : St} {ts : List Token} (hs : s.toks <:+ ts) (tab : List (List Char × String)) :
    matchOpTable s tab = none ∨ ∃ fn a, matchOpTable s tab = some (fn, a) ∧ a.1.toks <:+ ts := by
  induction tab with
  | nil => exact Or.inl rfl
  | cons p tab ih =>
    obtain ⟨v, fn⟩ := p
    unfold matchOpTable
    rcases matchIf_suf hs v op with e1 | ⟨a, e1, ha⟩ <;> rw [e1]
    · exact ih
    · exact Or.inr ⟨fn, a, rfl, ha⟩

theorem matchBracketCompound_go_suf {s : St} {ts : List Token} (hs : s.toks <:+ ts)
    (tab : List (List Char × String)) :
    matchBracketCompound.go s tab = none ∨
      ∃ fn a, matchBracketCompound.go s tab = some (fn, a) ∧ a.1.toks <:+ ts := by
  induction tab with
  | nil => exact Or.inl rfl
  | cons p tab ih =>
    obtain ⟨v, fn⟩ := p
    unfold matchBracketCompound.go
    rcases matchIf2_suf hs c!"]" ip v op with e1 | ⟨a, e1, ha⟩ <;> rw [e1]
    · exact ih
    · exact Or.inr ⟨fn, a, rfl, ha⟩

theorem matchBracketCompound_suf {s : St} {ts : List Token} (hs : s.toks <:+ ts) :
    matchBracketCompound s = none ∨ ∃ fn a, matchBracketCompound s = some (fn, a) ∧ a.1.toks <:+ ts :=
  matchBracketCompound_go_suf hs _

/-- one `match s.matchIf … with | some s' => some (p, s') | none => rest` step of a table -/
theorem tab_step_suf {X : Type} {s : St} {ts : List Token}
    (f : Option { s' : St // s'.toks.length < s.toks.length }) (p : X)
    (rest : Option (X × { s' : St // s'.toks.length < s.toks.length }))
    (hf : f = none ∨ ∃ a, f = some a ∧ a.1.toks <:+ ts)
    (hr : rest = none ∨ ∃ q a, rest = some (q, a) ∧ a.1.toks <:+ ts) :
    (match f with | some s' => some (p, s') | none => rest) = none ∨
      ∃ q a, (match f with | some s' => some (p, s') | none => rest) = some (q, a) ∧ a.1.toks <:+ ts := by
  rcases hf with e1 | ⟨a, e1, ha⟩ <;> rw [e1]
  · exact hr
  · exact Or.inr ⟨p, a, rfl, ha⟩

theorem isPredTable_suf {s : St} {ts : List Token} (hs : s.toks <:+ ts) (negated : Bool) :
    isPredTable s negated = none ∨ ∃ p a, isPredTable s negated = some (p, a) ∧ a.1.toks <:+ ts := by
  unfold isPredTable
  dsimp only
  refine tab_step_suf _ _ _ (matchIf_suf hs _ _) ?_
  refine tab_step_suf _ _ _ (matchIf_suf hs _ _) ?_
  refine tab_step_suf _ _ _ (matchIf_suf hs _ _) ?_
  refine tab_step_suf _ _ _ (matchIf_suf hs _ _) ?_
  refine tab_step_suf _ _ _ (matchIf_suf hs _ _) ?_
  refine tab_step_suf _ _ _ (matchIf_suf hs _ _) ?_
  refine tab_step_suf _ _ _ (matchIf3_suf hs _ _ _ _ _ _) ?_
  refine tab_step_suf _ _ _ (matchIf_suf hs _ _) ?_
  refine tab_step_suf _ _ _ (matchIf_suf hs _ _) ?_
  rcases matchFirstIdent_suf hs typePreds with e1 | ⟨v, a, e1, ha⟩ <;> rw [e1]
  · exact Or.inl rfl
  · exact Or.inr ⟨_, a, rfl, ha⟩

theorem binPredTable_suf {s : St} {ts : List Token} (hs : s.toks <:+ ts) :
    binPredTable s = none ∨ ∃ p a, binPredTable s = some (p, a) ∧ a.1.toks <:+ ts := by
  unfold binPredTable
  dsimp only
  refine tab_step_suf _ _ _ (matchIf2_suf hs _ _ _ _) ?_
  refine tab_step_suf _ _ _ (matchIf_suf hs _ _) ?_
  refine tab_step_suf _ _ _ (matchIf3_suf hs _ _ _ _ _ _) ?_
  refine tab_step_suf _ _ _ (matchIf2_suf hs _ _ _ _) ?_
  refine tab_step_suf _ _ _ (matchIf3_suf hs _ _ _ _ _ _) ?_
  refine tab_step_suf _ _ _ (matchIf2_suf hs _ _ _ _) ?_
  refine tab_step_suf _ _ _ (matchIf2_suf hs _ _ _ _) ?_
  refine tab_step_suf _ _ _ (matchIf_suf hs _ _) ?_
  refine tab_step_suf _ _ _ (matchIf2_suf hs _ _ _ _) ?_
  refine tab_step_suf _ _ _ (matchIf_suf hs _ _) ?_
  exact Or.inl rfl

/-- the loop head of `parse_rel_expr` -/
theorem relopNext_suf {c : Ctx} {s : St} {ts : List Token} (hs : s.toks <:+ ts) :
    SufP (fun r => ∀ p, r = some p → p.2.1.toks <:+ ts) (relopNext c s) := by
  intro r h p hp
  subst hp
  obtain ⟨pr, toks⟩ := s
  rcases toks with _ | ⟨t, _ | ⟨t2, rest2⟩⟩
  · simp [relopNext] at h
  · simp only [relopNext] at h
    split at h
    · cases h
    · split at h
      · cases h
      · cases h
        exact (List.suffix_cons t _).trans hs
  · simp only [relopNext] at h
    split at h
    · cases h
    · split at h
      · split at h
        · cases h
          exact ((List.suffix_cons t2 rest2).trans (List.suffix_cons t _)).trans hs
        · cases h
          exact (List.suffix_cons t _).trans hs
      · cases h
        exact (List.suffix_cons t _).trans hs

end Ckl.C14X
