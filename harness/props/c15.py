"""C15 Indexing, slicing and sub-sequence functions follow the sequence model."""
import itertools

from harness import core, proto
from harness.props import common


# ------------------------------------------------------------------ the sequence model (specification)

def adj(x, n):
    return x + n if x < 0 else x


def clamp(x, n):
    return max(0, min(n, x))


def spec_deref(s, i):
    n = len(s)
    if -n <= i < n:
        return s[i]
    return None          # runtime error


def spec_slice(s, a, b):
    n = len(s)
    lo = clamp(adj(a, n), n)
    hi = clamp(adj(n if b is None else b, n), n)
    return s[lo:hi] if lo < hi else s[0:0]


def occurs(s, t, p):
    return p + len(t) <= len(s) and s[p:p + len(t)] == t


def spec_find(s, t, start):
    for p in range(max(0, start), len(s) + 1):
        if occurs(s, t, p):
            return p
    return -1


def spec_find_last(s, t, start):
    lim = len(s) if start is None else start
    best = -1
    for p in range(0, len(s) + 1):
        if p <= lim and occurs(s, t, p):
            best = p
    return best


def spec_insert(l, i, v):
    n = len(l)
    pos = i if i >= 0 else n + i + 1
    if 0 <= pos <= n:
        return l[:pos] + [v] + l[pos:]
    return l


def spec_delete(l, i):
    n = len(l)
    pos = adj(i, n)
    if 0 <= pos < n:
        return l[pos], l[:pos] + l[pos + 1:]
    return None, l


class Templates:
    """pre-parsed programs evaluated with variables bound in the environment"""

    def __init__(self, it):
        from ckl.parser import parse_script
        self.it = it
        self.nodes = {}
        self.parse = parse_script

    def run(self, src, **vars_):
        from ckl.errors import CklRuntimeError, CklSyntaxError
        node = self.nodes.get(src)
        if node is None:
            node = self.nodes[src] = self.parse(src, "c15")
        env = self.it.environment
        for k, v in vars_.items():
            env.put(k, v)
        try:
            with core.time_limit(5):
                return ('val', node.evaluate(env))
        except CklRuntimeError as e:
            return ('rt', str(e.msg))
        except CklSyntaxError as e:
            return ('syn', str(e.msg))
        except core.Timeout:
            return ('timeout',)
        except Exception as e:  # noqa
            return ('host', type(e).__name__ + ": " + str(e)[:100])


def run(ctx):
    from ckl import values as V
    it, _ = common.fresh_interpreter(True, False)
    T = Templates(it)
    rng = ctx.rng
    maxlen = 6 if ctx.thorough else 4
    idx_range = list(range(-9, 10))
    alphabet = "abc"
    ctx.rule = (f"exhaustive: all strings and lists of length <= {maxlen} over a 3-symbol alphabet x all index arguments in [-9, 9] "
                "(deref, slices with and without end, substr/sublist, find/find_last with all parts of length <= 2 and all starts, "
                "insert_at/delete_at), plus random longer sequences and larger indices; non-trivial = an index outside [0, len) "
                "or crossed bounds")
    ctx.exhaustive = True
    I = V.ValueInt
    reqs, meta = [], []

    def ck_seq(kind, s):
        if kind == "str":
            return V.ValueString(s)
        lst = V.ValueList()
        for c in s:
            lst.addItem(V.ValueString(c))
        return lst

    def av_seq(kind, s):
        return ('s', s) if kind == "str" else ('l', tuple(('s', c) for c in s))

    def as_py(kind, v):
        """implementation result -> python str (for both kinds: the string of element characters)"""
        if kind == "str":
            return v.value if isinstance(v, V.ValueString) else None
        if isinstance(v, V.ValueList):
            return "".join(x.value for x in v.value)
        return None

    def bad(what, rp):
        ctx.violation("oracle", what, rp)

    seqs = [""]
    for n in range(1, maxlen + 1):
        seqs += ["".join(p) for p in itertools.product(alphabet, repeat=n)]
    if not ctx.thorough:
        pass
    parts = [""] + list(alphabet) + ["".join(p) for p in itertools.product(alphabet, repeat=2)]
    sample_every = 1
    for kind in ("str", "list"):
        for s in seqs:
            n = len(s)
            S = ck_seq(kind, s)
            sx = proto.to_sx(av_seq(kind, s))
            # ---- s[i]
            for i in idx_range:
                out = T.run("s[i]", s=S, i=I(i))
                want = spec_deref(s, i)
                ctx.seen((kind, "deref", s, i), nontrivial=not (0 <= i < n))
                got = out[1].value if out[0] == 'val' and kind == "str" else (out[1].value if out[0] == 'val' else None)
                if want is None:
                    if out[0] != 'rt':
                        bad(f"{kind} {s!r}[{i}] must be a runtime error (out of range), got {out[:2]}", {"op": "deref", "kind": kind, "s": s, "i": i})
                elif out[0] != 'val' or got != want:
                    bad(f"{kind} {s!r}[{i}] gives {out[:2]}, expected {want!r}", {"op": "deref", "kind": kind, "s": s, "i": i})
                reqs.append(f"(seq deref {sx} {i})")
                meta.append((kind, "deref", s, (i,), (got if out[0] == 'val' else None)))
            # ---- slices / substr / sublist
            for a in idx_range:
                for b in idx_range + [None]:
                    want = spec_slice(s, a, b)
                    nontriv = not (0 <= a <= n) or (b is not None and not (0 <= b <= n)) or (b is not None and a > b)
                    if b is None:
                        o1 = T.run("s[a to *]", s=S, a=I(a))
                        o2 = T.run("substr(s, a)" if kind == "str" else "sublist(s, a)", s=S, a=I(a))
                    else:
                        o1 = T.run("s[a to b]", s=S, a=I(a), b=I(b))
                        o2 = T.run("substr(s, a, b)" if kind == "str" else "sublist(s, a, b)", s=S, a=I(a), b=I(b))
                    ctx.seen((kind, "slice", s, a, b), nontrivial=nontriv)
                    for nm, o in (("slice", o1), ("substr", o2)):
                        got = as_py(kind, o[1]) if o[0] == 'val' else None
                        if got != want:
                            bad(f"{nm} of {kind} {s!r} with bounds ({a}, {b}) gives {o[:2] if got is None else got!r}, the clamped contiguous run is {want!r}",
                                {"op": nm, "kind": kind, "s": s, "a": a, "b": b})
                        if (len(s) <= 3 or (a + (b or 0)) % 3 == 0):
                            reqs.append(f"(seq {nm} {sx} {a}" + (f" {b})" if b is not None else ")"))
                            meta.append((kind, nm, s, (a, b), got))
                # identity s[0 to k] + s[k to *] == s
                o = T.run("s[0 to a] + s[a to *] == s", s=S, a=I(a))
                if o[0] != 'val' or o[1] is not V.TRUE:
                    bad(f"{kind} {s!r}: s[0 to {a}] + s[{a} to *] == s gives {o[:2]}", {"op": "split-identity", "kind": kind, "s": s, "k": a})
            # ---- find / find_last
            for t in parts:
                tv = V.ValueString(t)
                if kind == "list" and len(t) != 1:
                    continue
                for st in idx_range + [None]:
                    if kind == "str":
                        wf = spec_find(s, t, 0 if st is None else st)
                        wl = spec_find_last(s, t, st)
                    else:
                        cand = [p for p in range(n) if s[p] == t and p >= max(0, st or 0)]
                        wf = cand[0] if cand else -1
                        lim = n - 1 if st is None else min(st, n - 1)
                        cand = [p for p in range(n) if s[p] == t and p <= lim]
                        wl = cand[-1] if cand else -1
                    if st is None:
                        of = T.run("find(s, t)", s=S, t=tv)
                        ol = T.run("find_last(s, t)", s=S, t=tv)
                    else:
                        of = T.run("find(s, t, start = k)", s=S, t=tv, k=I(st))
                        ol = T.run("find_last(s, t, start = k)", s=S, t=tv, k=I(st))
                    ctx.seen((kind, "find", s, t, st), nontrivial=(st is not None and not 0 <= st < n) or t == "")
                    for nm, o, w in (("find", of, wf), ("findlast", ol, wl)):
                        got = o[1].value if o[0] == 'val' and isinstance(o[1], V.ValueInt) else None
                        if got != w:
                            bad(f"{nm}({kind} {s!r}, {t!r}, start={st}) gives {o[:2] if got is None else got}, expected {w}",
                                {"op": nm, "kind": kind, "s": s, "t": t, "start": st})
                        if nm == "find" and st is None:
                            continue
                        tsx = proto.to_sx(('s', t))
                        if nm == "find":
                            reqs.append(f"(seq find {sx} {tsx} {st})")
                        else:
                            reqs.append(f"(seq findlast {sx} {tsx}" + (f" {st})" if st is not None else ")"))
                        meta.append((kind, nm, s, (t, st), got))
                if kind == "str":
                    # contains / in / find consistency
                    o = T.run("[contains(s, t), t in s, find(s, t) >= 0]", s=S, t=tv)
                    w = t in s
                    if o[0] != 'val' or [x is V.TRUE for x in o[1].value] != [w, w, w]:
                        bad(f"contains/in/find disagree on {s!r}, {t!r}: {o[:2]}", {"op": "contains", "s": s, "t": t})
            # ---- insert_at / delete_at (lists)
            if kind == "list":
                for i in idx_range:
                    L = ck_seq(kind, s)
                    o = T.run("insert_at(l, i, 'X')", l=L, i=I(i))
                    want = "".join(spec_insert(list(s), i, "X"))
                    got = as_py(kind, L)
                    ctx.seen((kind, "insert", s, i), nontrivial=not (0 <= i <= n))
                    if o[0] != 'val' or o[1] is not L or got != want:
                        bad(f"insert_at({list(s)}, {i}, 'X') gives {o[:1]} {got!r}, expected {want!r}", {"op": "insertat", "s": s, "i": i})
                    reqs.append(f"(seq insertat {sx} {i} (s 000058))")
                    meta.append((kind, "insertat", s, (i,), got))
                    L = ck_seq(kind, s)
                    o = T.run("delete_at(l, i)", l=L, i=I(i))
                    wr, wl_ = spec_delete(list(s), i)
                    got = as_py(kind, L)
                    gr = (o[1].value if isinstance(o[1], V.ValueString) else None) if o[0] == 'val' else 'ERR'
                    ctx.seen((kind, "delete", s, i), nontrivial=not (0 <= i < n))
                    if o[0] != 'val' or gr != wr or got != "".join(wl_):
                        bad(f"delete_at({list(s)}, {i}) returns {o[:2]} and leaves {got!r}; expected {wr!r} and {''.join(wl_)!r}", {"op": "deleteat", "s": s, "i": i})
                    reqs.append(f"(seq deleteat {sx} {i})")
                    meta.append((kind, "deleteat", s, (i,), (gr, got)))
    # ---- random longer sequences and larger indices
    for _ in range(3000 if ctx.thorough else 600):
        kind = rng.choice(("str", "list"))
        n = rng.randint(5, 14)
        s = "".join(rng.choice("abcd") for _ in range(n))
        S = ck_seq(kind, s)
        a, b = rng.randint(-40, 40), rng.choice([None, rng.randint(-40, 40), rng.randint(-10 ** 12, 10 ** 12), 2 ** 70])
        i = rng.choice([rng.randint(-20, 20), 2 ** 64, -2 ** 64])
        ctx.seen((kind, "rand", s, a, b, i))
        o = T.run("s[i]", s=S, i=I(i))
        w = spec_deref(s, i)
        if (w is None) != (o[0] == 'rt') or (w is not None and (o[0] != 'val' or o[1].value != w)):
            bad(f"{kind} {s!r}[{i}] gives {o[:2]}", {"op": "deref", "kind": kind, "s": s, "i": i})
        want = spec_slice(s, a, b)
        o1 = T.run("s[a to *]", s=S, a=I(a)) if b is None else T.run("s[a to b]", s=S, a=I(a), b=I(b))
        fn = "substr" if kind == "str" else "sublist"
        o2 = T.run(f"{fn}(s, a)", s=S, a=I(a)) if b is None else T.run(f"{fn}(s, a, b)", s=S, a=I(a), b=I(b))
        for nm, o in (("slice", o1), (fn, o2)):
            got = as_py(kind, o[1]) if o[0] == 'val' else None
            if got != want:
                bad(f"{nm} of {kind} {s!r} with bounds ({a}, {b}) gives {o[:2] if got is None else got!r}, expected {want!r}",
                    {"op": nm, "kind": kind, "s": s, "a": a, "b": b})
        sx = proto.to_sx(av_seq(kind, s))
        reqs.append(f"(seq slice {sx} {a}" + (f" {b})" if b is not None else ")"))
        meta.append((kind, "slice", s, (a, b), as_py(kind, o1[1]) if o1[0] == 'val' else None))
        o = T.run("length(s + s2) == length(s) + length(s2)", s=S, s2=ck_seq(kind, s[:3]))
        if o[0] != 'val' or o[1] is not V.TRUE:
            bad(f"length of a concatenation: {o[:2]}", {"op": "length-append", "kind": kind, "s": s})
    # ---- correspondence with the model
    if ctx.build.ok:
        resp = core.run_driver(reqs)
        for r, (kind, op, s, args, impl) in zip(resp, meta):
            x = proto.parse_sx(r)
            ctx.count("model_" + op)
            if x[0] == "err":
                model = None
            elif x[0] != "ok":
                raise RuntimeError(f"driver answered {r}")
            elif op == "deleteat":
                rv = proto.from_sx(x[1][0])
                model = (rv[1] if rv[0] == 's' else None, "".join(e[1] for e in proto.from_sx(x[1][1])[1]))
            else:
                v = proto.from_sx(x[1])
                if v[0] == 'i':
                    model = v[1]
                elif v[0] == 's':
                    model = v[1]
                else:
                    model = "".join(e[1] for e in v[1])
            if model != impl:
                ctx.disagreements += 1
                ctx.violation("correspondence", f"{op} on {kind} {s!r} {args}: model {model!r}, implementation {impl!r}",
                              {"op": op, "kind": kind, "s": s, "args": list(args), "correspondence": f"Ckl.Seq.{op} vs implementation"})
    ctx.sample({"op": "s[a to b]", "s": "abcd", "a": 0, "b": -7, "result": ""})
    ctx.sample({"op": "find_last", "s": "abc", "t": "", "result": 3})
    ctx.sample({"op": "insert_at", "l": ["a", "b", "c"], "i": -5, "result": "unchanged"})
    # results of non-mutating operations are independent of their inputs (strings included); parameter defaults are per call
    from harness import progcheck as _pc
    _pc.run_templates(ctx, common.independence_cases(), "result-independence")
    common.replay_known(ctx)


def replay(ctx, payload):
    return common.generic_replay(ctx, payload)
