/-
  C20 (scanner part) — the line number carried by every token is the line on which
  the token starts.

  `scanWithOffsets s name` is `scan s name` with, next to every token, the ghost
  0-based offset of the character at which the token starts (the character that
  moved the automaton out of state 0).
-/
import CklVerif.Lemmas.LexerLine
namespace Ckl.C20
open Ckl.Lexer

/-- `scan` is `scanWithOffsets` with the ghost offsets erased -/
theorem scan_eq_map_fst (s : List Char) (name : String) :
    scan s name = (scanWithOffsets s name).map (fun l => l.map Prod.fst) := by
  unfold scan; cases scanWithOffsets s name <;> rfl

/-- **token_line_correct**: for every input `s`, every token `t` that the scanner emits for `s`,
    with `o` the offset of the token's first character: the token's line number is one plus the
    number of newline characters among the first `o` characters of `s`, and the token's file is
    the name the scanner was started with. -/
theorem token_line_correct (s : List Char) (name : String) (l : List (Token × Nat))
    (h : scanWithOffsets s name = .ok l) :
    ∀ t o, (t, o) ∈ l → t.pos.line = 1 + (s.take o).count '\n' ∧ t.pos.file = name := by
  unfold scanWithOffsets at h
  cases hr : run name {} (s ++ [' ']) with
  | error e => rw [hr] at h; cases h
  | ok σ =>
    rw [hr] at h
    cases h
    have hinv := run_inv (name := name) (s := s ++ [' ']) (s ++ [' ']) {} σ [] [] (by simp) rfl
      (inv_init name _) hr
    intro t o hmem
    have := hinv.out (t, o) (List.mem_reverse.mp hmem)
    rw [nl_take_snoc_space] at this
    exact ⟨this.1, this.2.1⟩

/-- **token_start**: the ghost start offset of every token lies inside the input and holds a
    character that is not whitespace (so `token_line_correct` speaks about the line of an actual
    character of the token). -/
theorem token_start (s : List Char) (name : String) (l : List (Token × Nat))
    (h : scanWithOffsets s name = .ok l) :
    ∀ t o, (t, o) ∈ l → ∃ c, s[o]? = some c ∧ c ∉ [' ', '\t', '\r', '\n'] := by
  unfold scanWithOffsets at h
  cases hr : run name {} (s ++ [' ']) with
  | error e => rw [hr] at h; cases h
  | ok σ =>
    rw [hr] at h
    cases h
    have hinv := run_inv (name := name) (s := s ++ [' ']) (s ++ [' ']) {} σ [] [] (by simp) rfl
      (inv_init name _) hr
    intro t o hmem
    obtain ⟨_, _, c, hc, hws⟩ := hinv.out (t, o) (List.mem_reverse.mp hmem)
    refine ⟨c, ?_, hws⟩
    by_cases ho : o < s.length
    · rw [List.getElem?_append_left ho] at hc; exact hc
    · rw [List.getElem?_append_right (by omega)] at hc
      by_cases h0 : o - s.length = 0
      · rw [h0] at hc; simp at hc; subst hc; exact absurd (by decide) hws
      · have : ([' '] : List Char)[o - s.length]? = none := by
          apply List.getElem?_eq_none; simp; omega
        rw [this] at hc; cases hc

/-- the same for the tokens of `scan` (existentially quantified offset) -/
theorem scan_line_correct (s : List Char) (name : String) (toks : List Token)
    (h : scan s name = .ok toks) :
    ∀ t ∈ toks, ∃ o, t.pos.line = 1 + (s.take o).count '\n' ∧ t.pos.file = name := by
  unfold scan at h
  cases hl : scanWithOffsets s name with
  | error e => rw [hl] at h; cases h
  | ok l =>
    rw [hl] at h; cases h
    intro t ht
    obtain ⟨⟨t', o⟩, hmem, rfl⟩ := List.mem_map.mp ht
    exact ⟨o, token_line_correct s name l hl t' o hmem⟩

/-- **error_line_correct**: when the scanner fails, it fails at some character `c` of the input
    (or at the space appended to it) after consuming a prefix `p` successfully, and the line of the
    syntax error is either the line of `c` (the next line if `c` is itself a newline) — this is
    the case of an invalid `\x` escape — or the line on which the token being scanned started
    (offset `σ.startOff` — the case of an invalid hex / binary literal). -/
theorem error_line_correct (s : List Char) (name : String) (e : SynErr)
    (h : scanWithOffsets s name = .error e) :
    ∃ p c rest σ, s ++ [' '] = p ++ c :: rest ∧ run name {} p = .ok σ ∧ feed name σ c = .error e ∧
      e.pos.file = name ∧
      (e.pos.line = 1 + (p ++ [c]).count '\n' ∨ e.pos.line = 1 + (p.take σ.startOff).count '\n') := by
  unfold scanWithOffsets at h
  cases hr : run name {} (s ++ [' ']) with
  | ok σ => rw [hr] at h; cases h
  | error e' =>
    rw [hr] at h; cases h
    obtain ⟨p, c, rest, σ, hs, hrp, hf⟩ := run_error_split _ hr
    have hinv := run_inv (name := name) (s := s ++ [' ']) p {} σ [] (c :: rest) (by simpa using hs)
      rfl (inv_init name _) hrp
    have hpos : σ.pos = p.length := by rw [run_pos p hrp]; simp
    have hget : (s ++ [' '])[σ.pos]? = some c := by rw [hs, hpos]; simp
    refine ⟨p, c, rest, σ, hs, hrp, hf, feed_error_file hf, ?_⟩
    have htake1 : (s ++ [' ']).take (σ.pos + 1) = p ++ [c] := by
      rw [hs, hpos, List.take_append]; simp [List.take_of_length_le]
    have hso : σ.startOff ≤ σ.pos := hinv.off
    have htake2 : (s ++ [' ']).take σ.startOff = p.take σ.startOff := by
      rw [hs, List.take_append, show σ.startOff - p.length = 0 by omega]; simp
    rcases feed_error_line hget hinv hf with hl | hl
    · left; rw [hl, htake1]; rfl
    · right; rw [hl, htake2]; rfl

/-- non-vacuity: a three-line input whose tokens start on lines 1, 2 (a string spanning two
    lines) and 4 -/
example :
    (scanWithOffsets ['a', '\n', '"', '\n', '"', '\n', 'b'] "f").map
        (fun l => l.map fun p => (p.1.value, p.1.pos.line, p.2))
      = .ok [(['a'], 1, 0), (['\n'], 2, 2), (['b'], 4, 6)] := by rfl

/-- non-vacuity of `error_line_correct`: both kinds of error.  The bad escape on line 2 is
    reported on line 2; the bad hex literal starting on line 2 is reported on line 2 although it is
    detected at the newline that ends it. -/
example :
    (match scanWithOffsets ['\n', '\'', '\\', 'x', 'g', '0', '\''] "f" with
      | .ok _ => none | .error e => some e.pos.line) = some 2
    ∧ (match scanWithOffsets ['\n', '0', 'x', '\n', '\n'] "f" with
      | .ok _ => none | .error e => some e.pos.line) = some 2 := by decide

end Ckl.C20
