/-
  C10 (sessions): no function of the evaluator reads the ghost counters — the simultaneous
  induction on the fuel, part 1: everything except `eval` itself.
-/
import CklVerif.Lemmas.C10SessGhostNatives
namespace Ckl.C10S
open Ckl Ckl.C05

macro_rules | `(tactic| r2_lemma) => `(tactic| exact R2.callPure _ _ _ _ _ (by assumption))

/-- re-raising an error -/
theorem R2.throwV' {α} (v : RVal) (msg : String) (p : Pos) (t : List (String × Pos)) :
    GI (fun s => (Out.err v msg p t s : Out α)) :=
  ⟨fun s s' h => by show Out.err v msg p t (er s) = Out.err v msg p t (er s'); rw [h]⟩

/-- hypothesis on the (arbitrary) interpretation of the unmodelled natives -/
def NativeGhostFree (ld : Loader) : Prop := ∀ name args, GI (ld.nativeSem name args)

section
variable (ld : Loader)

/-- the statement proved by induction on `fuel`, one field per function of the mutual block -/
structure AllR (fuel : Nat) : Prop where
  eval : ∀ env n, GI (eval ld fuel env n)
  evalAnd : ∀ env es pos, GI (evalAnd ld fuel env es pos)
  evalOr : ∀ env es pos, GI (evalOr ld fuel env es pos)
  evalIf : ∀ env cs xs els pos, GI (evalIf ld fuel env cs xs els pos)
  evalSeq : ∀ env ns, GI (evalSeq ld fuel env ns)
  evalItems : ∀ env ns pos, GI (evalItems ld fuel env ns pos)
  evalPairs : ∀ env ks vs, GI (evalPairs ld fuel env ks vs)
  evalBody : ∀ env ns last, GI (evalBody ld fuel env ns last)
  evalFinally : ∀ env ns, GI (evalFinally ld fuel env ns)
  tryHandlers : ∀ env cs hs v msg p t, GI (tryHandlers ld fuel env cs hs v msg p t)
  invoke : ∀ fn pre names args env pos, GI (invoke ld fuel fn pre names args env pos)
  evalArgs : ∀ env names args pos, GI (evalArgs ld fuel env names args pos)
  callFn : ∀ fn bound env pos, GI (callFn ld fuel fn bound env pos)
  bindParams : ∀ lenv ps ds bound pos, GI (bindParams ld fuel lenv ps ds bound pos)
  evalFor : ∀ env ids e body what pos, GI (evalFor ld fuel env ids e body what pos)
  forItems : ∀ env ids xs body r pos, GI (forItems ld fuel env ids xs body r pos)
  forListLive : ∀ env ids a i body r pos, GI (forListLive ld fuel env ids a i body r pos)
  forString : ∀ env x cs body r, GI (forString ld fuel env x cs body r)
  whileLoop : ∀ env c body pos, GI (whileLoop ld fuel env c body pos)
  comprStep : ∀ lenv kind ve ke cond pos, GI (comprStep ld fuel lenv kind ve ke cond pos)
  comprLoop : ∀ lenv kind ve ke cond pos l acc, GI (comprLoop ld fuel lenv kind ve ke cond pos l acc)
  comprProduct : ∀ lenv kind ve ke cond pos x1 vs x2 ws acc,
    GI (comprProduct ld fuel lenv kind ve ke cond pos x1 vs x2 ws acc)
  comprParallel : ∀ lenv kind ve ke cond pos x1 vs x2 ws acc,
    GI (comprParallel ld fuel lenv kind ve ke cond pos x1 vs x2 ws acc)
  nativeSorted : ∀ bound env pos, GI (nativeSorted ld fuel bound env pos)
  sortedOuter : ∀ cmp key senv pos arr i, GI (sortedOuter ld fuel cmp key senv pos arr i)
  sortedInner : ∀ cmp key senv pos arr v j, GI (sortedInner ld fuel cmp key senv pos arr v j)
  call1 : ∀ f x env pos, GI (call1 ld fuel f x env pos)
  call2 : ∀ f x y env pos, GI (call2 ld fuel f x y env pos)
  evalRequire : ∀ env spec name unq syms pos, GI (evalRequire ld fuel env spec name unq syms pos)
  loadModule : ∀ env ident file pos, GI (loadModule ld fuel env ident file pos)


theorem allR_zero : AllR ld 0 := by
  constructor
  all_goals (intros; simp only [eval, evalAnd, evalOr, evalIf, evalSeq, evalItems, evalPairs, evalBody, evalFinally,
        tryHandlers, invoke, evalArgs, callFn, bindParams, evalFor, forItems, forListLive, forString,
        whileLoop, comprStep, comprLoop, comprProduct, comprParallel, nativeSorted, sortedOuter,
        sortedInner, call1, call2, evalRequire, loadModule]; exact R2.failM _)

variable {ld} {fuel : Nat}

theorem gstep_evalAnd (ih : AllR ld fuel) : ∀ env es pos, GI (evalAnd ld (fuel+1) env es pos) := by
  have ihEval := ih.eval; have ihAnd := ih.evalAnd
  intro env es pos
  cases es <;> simp only [Ckl.evalAnd] <;> r2_auto

theorem gstep_evalOr (ih : AllR ld fuel) : ∀ env es pos, GI (evalOr ld (fuel+1) env es pos) := by
  have ihEval := ih.eval; have ihOr := ih.evalOr
  intro env es pos
  cases es <;> simp only [Ckl.evalOr] <;> r2_auto

theorem gstep_evalIf (ih : AllR ld fuel) :
    ∀ env cs xs els pos, GI (evalIf ld (fuel+1) env cs xs els pos) := by
  have ihEval := ih.eval; have ihIf := ih.evalIf
  intro env cs xs els pos
  cases cs <;> cases xs <;> simp only [Ckl.evalIf] <;> r2_auto

theorem gstep_evalSeq (ih : AllR ld fuel) : ∀ env ns, GI (evalSeq ld (fuel+1) env ns) := by
  have ihEval := ih.eval; have ihSeq := ih.evalSeq
  intro env ns
  cases ns <;> simp only [Ckl.evalSeq] <;> r2_auto

theorem gstep_evalItems (ih : AllR ld fuel) : ∀ env ns pos, GI (evalItems ld (fuel+1) env ns pos) := by
  have ihEval := ih.eval; have ihItems := ih.evalItems
  intro env ns pos
  cases ns with
  | nil => simp only [Ckl.evalItems]; r2_auto
  | cons n ns => cases n <;> simp only [Ckl.evalItems] <;> r2_auto

theorem gstep_evalPairs (ih : AllR ld fuel) : ∀ env ks vs, GI (evalPairs ld (fuel+1) env ks vs) := by
  have ihEval := ih.eval; have ihPairs := ih.evalPairs
  intro env ks vs
  cases ks <;> cases vs <;> simp only [Ckl.evalPairs] <;> r2_auto

theorem gstep_evalBody (ih : AllR ld fuel) : ∀ env ns last, GI (evalBody ld (fuel+1) env ns last) := by
  have ihEval := ih.eval; have ihBody := ih.evalBody
  intro env ns last
  cases ns <;> simp only [Ckl.evalBody] <;> r2_auto

theorem gstep_evalFinally (ih : AllR ld fuel) : ∀ env ns, GI (evalFinally ld (fuel+1) env ns) := by
  have ihEval := ih.eval; have ihFin := ih.evalFinally
  intro env ns
  cases ns <;> simp only [Ckl.evalFinally] <;> r2_auto

theorem gstep_tryHandlers (ih : AllR ld fuel) :
    ∀ env cs hs v msg p t, GI (tryHandlers ld (fuel+1) env cs hs v msg p t) := by
  have ihEval := ih.eval; have ihTry := ih.tryHandlers
  intro env cs hs v msg p t
  cases cs with
  | nil => simp only [Ckl.tryHandlers]; exact R2.throwV' _ _ _ _
  | cons c cs =>
    cases hs with
    | nil => simp only [Ckl.tryHandlers]; exact R2.throwV' _ _ _ _
    | cons h hs => cases c <;> simp only [Ckl.tryHandlers] <;> r2_auto

theorem gstep_evalArgs (ih : AllR ld fuel) :
    ∀ env names args pos, GI (evalArgs ld (fuel+1) env names args pos) := by
  have ihEval := ih.eval; have ihArgs := ih.evalArgs
  intro env names args pos
  cases names with
  | nil => simp only [Ckl.evalArgs]; r2_auto
  | cons n ns =>
    cases args with
    | nil => simp only [Ckl.evalArgs]; r2_auto
    | cons a as => cases a <;> simp only [Ckl.evalArgs] <;> r2_auto

theorem gstep_bindParams (ih : AllR ld fuel) :
    ∀ lenv ps ds bound pos, GI (bindParams ld (fuel+1) lenv ps ds bound pos) := by
  have ihEval := ih.eval; have ihBP := ih.bindParams
  intro lenv ps ds bound pos
  cases ps with
  | nil => simp only [Ckl.bindParams]; r2_auto
  | cons p ps =>
    cases ds with
    | nil => simp only [Ckl.bindParams]; r2_auto
    | cons d ds =>
      by_cases hd : d = Node.absent
      · subst hd; simp only [Ckl.bindParams]; r2_auto
      · simp only [Ckl.bindParams]; r2_auto

theorem gstep_evalFor (ih : AllR ld fuel) :
    ∀ env ids e body what pos, GI (evalFor ld (fuel+1) env ids e body what pos) := by
  have ihEval := ih.eval; have ih1 := ih.forItems; have ih2 := ih.forListLive; have ih3 := ih.forString
  intro env ids e body what pos
  simp only [Ckl.evalFor]; r2_auto

theorem gstep_forItems (ih : AllR ld fuel) :
    ∀ env ids xs body r pos, GI (forItems ld (fuel+1) env ids xs body r pos) := by
  have ihEval := ih.eval; have ih1 := ih.forItems
  intro env ids xs body r pos
  cases xs <;> simp only [Ckl.forItems] <;> r2_auto

theorem gstep_forListLive (ih : AllR ld fuel) :
    ∀ env ids a i body r pos, GI (forListLive ld (fuel+1) env ids a i body r pos) := by
  have ihEval := ih.eval; have ih1 := ih.forListLive
  intro env ids a i body r pos
  simp only [Ckl.forListLive]; r2_auto

theorem gstep_forString (ih : AllR ld fuel) :
    ∀ env x cs body r, GI (forString ld (fuel+1) env x cs body r) := by
  have ihEval := ih.eval; have ih1 := ih.forString
  intro env x cs body r
  cases cs <;> simp only [Ckl.forString] <;> r2_auto

theorem gstep_whileLoop (ih : AllR ld fuel) :
    ∀ env c body pos, GI (whileLoop ld (fuel+1) env c body pos) := by
  have ihEval := ih.eval; have ih1 := ih.whileLoop
  intro env c body pos
  simp only [Ckl.whileLoop]; r2_auto

theorem gstep_comprStep (ih : AllR ld fuel) :
    ∀ lenv kind ve ke cond pos, GI (comprStep ld (fuel+1) lenv kind ve ke cond pos) := by
  have ihEval := ih.eval
  intro lenv kind ve ke cond pos
  by_cases hd : cond = Node.absent
  · subst hd; cases kind <;> simp only [Ckl.comprStep] <;> r2_auto
  · cases kind <;> simp only [Ckl.comprStep] <;> r2_auto

theorem gstep_comprLoop (ih : AllR ld fuel) :
    ∀ lenv kind ve ke cond pos l acc, GI (comprLoop ld (fuel+1) lenv kind ve ke cond pos l acc) := by
  have ih1 := ih.comprStep; have ih2 := ih.comprLoop
  intro lenv kind ve ke cond pos l acc
  match l with
  | [] => simp only [Ckl.comprLoop]; r2_auto
  | [(x, [])] => simp only [Ckl.comprLoop]; r2_auto
  | [(x, v :: vs)] => simp only [Ckl.comprLoop]; r2_auto
  | _ :: _ :: _ => simp only [Ckl.comprLoop]; r2_auto

theorem gstep_comprProduct (ih : AllR ld fuel) :
    ∀ lenv kind ve ke cond pos x1 vs x2 ws acc,
      GI (comprProduct ld (fuel+1) lenv kind ve ke cond pos x1 vs x2 ws acc) := by
  have ih1 := ih.comprLoop; have ih2 := ih.comprProduct
  intro lenv kind ve ke cond pos x1 vs x2 ws acc
  cases vs <;> simp only [Ckl.comprProduct] <;> r2_auto

theorem gstep_comprParallel (ih : AllR ld fuel) :
    ∀ lenv kind ve ke cond pos x1 vs x2 ws acc,
      GI (comprParallel ld (fuel+1) lenv kind ve ke cond pos x1 vs x2 ws acc) := by
  have ih1 := ih.comprStep; have ih2 := ih.comprParallel
  intro lenv kind ve ke cond pos x1 vs x2 ws acc
  cases vs <;> cases ws <;> simp only [Ckl.comprParallel] <;> r2_auto

theorem gstep_nativeSorted (ih : AllR ld fuel) :
    ∀ bound env pos, GI (nativeSorted ld (fuel+1) bound env pos) := by
  have ih1 := ih.sortedOuter
  intro bound env pos
  simp only [Ckl.nativeSorted]; r2_auto

theorem gstep_sortedOuter (ih : AllR ld fuel) :
    ∀ cmp key senv pos arr i, GI (sortedOuter ld (fuel+1) cmp key senv pos arr i) := by
  have ih1 := ih.sortedOuter; have ih2 := ih.sortedInner; have ih3 := ih.call1
  intro cmp key senv pos arr i
  simp only [Ckl.sortedOuter]; r2_auto

theorem gstep_sortedInner (ih : AllR ld fuel) :
    ∀ cmp key senv pos arr v j, GI (sortedInner ld (fuel+1) cmp key senv pos arr v j) := by
  have ih2 := ih.sortedInner; have ih3 := ih.call1; have ih4 := ih.call2
  intro cmp key senv pos arr v j
  cases j <;> simp only [Ckl.sortedInner] <;> r2_auto

theorem gstep_call1 (ih : AllR ld fuel) : ∀ f x env pos, GI (call1 ld (fuel+1) f x env pos) := by
  have ih1 := ih.callFn
  intro f x env pos
  simp only [Ckl.call1]; r2_auto

theorem gstep_call2 (ih : AllR ld fuel) : ∀ f x y env pos, GI (call2 ld (fuel+1) f x y env pos) := by
  have ih1 := ih.callFn
  intro f x y env pos
  simp only [Ckl.call2]; r2_auto


/-- post-processing of the outcome by functions that do not read the ghost counters -/
theorem R2.postProcess {α β} {m : EvalM α} (hm : GI m) (F : Out α → Out β)
    (hF : ∀ o o', erO o = erO o' → erO (F o) = erO (F o')) : GI (fun s => F (m s)) :=
  ⟨fun s s' h => hF _ _ (hm.run s s' h)⟩

theorem gstep_invoke (ih : AllR ld fuel) :
    ∀ fn pre names args env pos, GI (invoke ld (fuel+1) fn pre names args env pos) := by
  have ih1 := ih.evalArgs; have ih2 := ih.callFn
  intro fn pre names args env pos
  simp only [Ckl.invoke]
  r2_auto
  all_goals
    refine R2.postProcess (ih2 _ _ _ _) (fun o => match o with
      | .err v m p t s2 => .err v m p (t ++ [(fnName s2 fn, pos)]) s2
      | .fail (.syn e) s2 => .err (.str "ERROR".toList) e.msg pos [] s2
      | .fail (.host k) s2 => .err (.str "ERROR".toList) (fnName s2 fn ++ " failed: " ++ k) pos [] s2
      | other => other) ?_
  all_goals
    intro o o' h
    cases o with
    | ok a s2 => cases o' <;> first | exact h | cases h
    | err v m p t s2 =>
      cases o' with
      | err v' m' p' t' s2' =>
        simp only [erO, Out.err.injEq] at h
        obtain ⟨rfl, rfl, rfl, rfl, h5⟩ := h
        have hw := eq_wg_of_er h5
        generalize s2'.ghost = γ at hw
        subst hw
        show erO (Out.err v m p (t ++ [(fnName s2 fn, pos)]) s2)
          = erO (Out.err v m p (t ++ [(fnName (wg s2 γ) fn, pos)]) (wg s2 γ))
        rw [fnName_wg]; rfl
      | _ => cases h
    | fail f s2 =>
      cases o' with
      | fail f' s2' =>
        simp only [erO, Out.fail.injEq] at h
        obtain ⟨rfl, h5⟩ := h
        have hw := eq_wg_of_er h5
        generalize s2'.ghost = γ at hw
        subst hw
        cases f with
        | oof => rfl
        | unsupported w => rfl
        | host k =>
          show erO (Out.err (.str "ERROR".toList) (fnName s2 fn ++ " failed: " ++ k) pos [] s2)
            = erO (Out.err (.str "ERROR".toList) (fnName (wg s2 γ) fn ++ " failed: " ++ k) pos [] (wg s2 γ))
          rw [fnName_wg]; rfl
        | syn e => rfl
      | _ => cases h

theorem gstep_callFn (hN : NativeGhostFree ld) (ih : AllR ld fuel) :
    ∀ fn bound env pos, GI (callFn ld (fuel+1) fn bound env pos) := by
  have ih1 := ih.eval; have ih2 := ih.bindParams; have ih3 := ih.nativeSorted
  have hN' : ∀ name args, GI (ld.nativeSem name args) := hN
  intro fn bound env pos
  cases fn <;> simp only [Ckl.callFn] <;> r2_auto

theorem gstep_evalRequire (ih : AllR ld fuel) :
    ∀ env spec name unq syms pos, GI (evalRequire ld (fuel+1) env spec name unq syms pos) := by
  have ih1 := ih.eval; have ih2 := ih.loadModule
  intro env spec name unq syms pos
  by_cases h : ∃ n p, spec = Node.ident n p
  · obtain ⟨n, p, rfl⟩ := h
    simp only [Ckl.evalRequire]
    r2_auto
    all_goals
      refine R2.postProcess (ih2 _ _ _ _) (fun o => match o with
        | .ok e s2 => .ok e { s2 with modstack := s2.modstack.dropLast }
        | .err v m p t s2 => .err v m p t { s2 with modstack := s2.modstack.dropLast }
        | .fail f s2 => .fail f { s2 with modstack := s2.modstack.dropLast }) ?_
    all_goals
      intro o o' h
      cases o <;> cases o' <;> first
        | cases h
        | (simp only [erO, Out.ok.injEq] at h
           obtain ⟨rfl, h5⟩ := h
           have hw := eq_wg_of_er h5
           rw [hw]; rfl)
        | (simp only [erO, Out.fail.injEq] at h
           obtain ⟨rfl, h5⟩ := h
           have hw := eq_wg_of_er h5
           rw [hw]; rfl)
        | (simp only [erO, Out.err.injEq] at h
           obtain ⟨rfl, rfl, rfl, rfl, h5⟩ := h
           have hw := eq_wg_of_er h5
           rw [hw]; rfl)
  · have h' : ∀ n p, spec = Node.ident n p → False := fun n p e => h ⟨n, p, e⟩
    simp only [Ckl.evalRequire]
    r2_auto
    all_goals
      refine R2.postProcess (ih2 _ _ _ _) (fun o => match o with
        | .ok e s2 => .ok e { s2 with modstack := s2.modstack.dropLast }
        | .err v m p t s2 => .err v m p t { s2 with modstack := s2.modstack.dropLast }
        | .fail f s2 => .fail f { s2 with modstack := s2.modstack.dropLast }) ?_
    all_goals
      intro o o' h
      cases o <;> cases o' <;> first
        | cases h
        | (simp only [erO, Out.ok.injEq] at h
           obtain ⟨rfl, h5⟩ := h
           have hw := eq_wg_of_er h5
           rw [hw]; rfl)
        | (simp only [erO, Out.fail.injEq] at h
           obtain ⟨rfl, h5⟩ := h
           have hw := eq_wg_of_er h5
           rw [hw]; rfl)
        | (simp only [erO, Out.err.injEq] at h
           obtain ⟨rfl, rfl, rfl, rfl, h5⟩ := h
           have hw := eq_wg_of_er h5
           rw [hw]; rfl)

theorem gstep_loadModule (ih : AllR ld fuel) :
    ∀ env ident file pos, GI (loadModule ld (fuel+1) env ident file pos) := by
  have ih1 := ih.eval
  intro env ident file pos
  simp only [Ckl.loadModule]; r2_auto

end
end Ckl.C10S
