import CklVerif.Lemmas.C14EvalVal

/-! C14 (evaluator part) — tactics for `Resp` goals; the helpers of `EvalBase` -/
namespace Ckl.C14E
open Ckl

/-! observations of values -/
section
variable (v : RVal)
@[obs_simp] theorem isNull_obs : v.isNull = V1 RVal.isNull (ers v) := by cases v <;> rfl
@[obs_simp] theorem isInt_obs : v.isInt = V1 RVal.isInt (ers v) := by cases v <;> rfl
@[obs_simp] theorem isDecimal_obs : v.isDecimal = V1 RVal.isDecimal (ers v) := by cases v <;> rfl
@[obs_simp] theorem isNumerical_obs : v.isNumerical = V1 RVal.isNumerical (ers v) := by cases v <;> rfl
@[obs_simp] theorem isString_obs : v.isString = V1 RVal.isString (ers v) := by cases v <;> rfl
@[obs_simp] theorem isBoolean_obs : v.isBoolean = V1 RVal.isBoolean (ers v) := by cases v <;> rfl
@[obs_simp] theorem isFunc_obs : v.isFunc = V1 RVal.isFunc (ers v) := by cases v <;> rfl
@[obs_simp] theorem isReturn_obs : v.isReturn = V1 RVal.isReturn (ers v) := by cases v <;> rfl
@[obs_simp] theorem isBreak_obs : v.isBreak = V1 RVal.isBreak (ers v) := by cases v <;> rfl
@[obs_simp] theorem isContinue_obs : v.isContinue = V1 RVal.isContinue (ers v) := by cases v <;> rfl
@[obs_simp] theorem isAtomic_obs : v.isAtomic = V1 RVal.isAtomic (ers v) := by cases v <;> rfl
end

section
variable {α : Type} [Ers α]
@[obs_simp] theorem length_obs (l : List α) : l.length = V1 List.length (ers l) := (length_ers l).symm
@[obs_simp] theorem isEmpty_obs (l : List α) : l.isEmpty = V1 List.isEmpty (ers l) := by simp [V1]
@[obs_simp] theorem isSome_obs (o : Option α) : o.isSome = V1 Option.isSome (ers o) := by cases o <;> rfl
@[obs_simp] theorem asize_obs (l : Array α) : l.size = V1 Array.size (ers l) := (asize_ers l).symm
end

/-- `ers X = ers X'` (or `X = X'`, `c ↔ c'`) from the similarity hypotheses of the context -/
syntax "ers_tac" : tactic
macro_rules | `(tactic| ers_tac) => `(tactic| first
  | rfl
  | assumption
  | (simp only [ers_simp, obs_simp, *] <;> fail "ers_tac: open goal"))

/-- joint case analysis of two similar objects -/
syntax "sim_cases " ident : tactic
set_option hygiene false in
macro_rules | `(tactic| sim_cases $h:ident) => `(tactic| (first
  | (rcases RVal.sim_cases $h with ⟨rfl, rfl⟩ | ⟨_, rfl, rfl⟩ | ⟨_, rfl, rfl⟩ | ⟨_, _, rfl, rfl⟩ | ⟨_, rfl, rfl⟩ |
      ⟨_, rfl, rfl⟩ | ⟨_, rfl, rfl⟩ | ⟨_, rfl, rfl⟩ | ⟨_, rfl, rfl⟩ | ⟨_, _, rfl, rfl⟩ | ⟨_, _, rfl, rfl, _⟩ |
      ⟨_, _, rfl, rfl⟩ | ⟨_, _, rfl, rfl⟩ | ⟨_, _, _, _, rfl, rfl, _⟩)
  | (rcases OptCell.sim_cases $h with ⟨rfl, rfl⟩ | ⟨_, _, rfl, rfl, _⟩ | ⟨_, _, rfl, rfl, _⟩ | ⟨_, _, rfl, rfl, _⟩ |
      ⟨_, _, _, rfl, rfl, _⟩ | ⟨_, _, _, _, _, _, _, rfl, rfl, _, _⟩)
  | (rcases Cell.sim_cases $h with ⟨_, _, rfl, rfl, _⟩ | ⟨_, _, rfl, rfl, _⟩ | ⟨_, _, rfl, rfl, _⟩ |
      ⟨_, _, _, rfl, rfl, _⟩ | ⟨_, _, _, _, _, _, _, rfl, rfl, _, _⟩)
  | (rcases Option.sim_cases $h with ⟨rfl, rfl⟩ | ⟨_, _, rfl, rfl, _⟩)
  | (rcases ProdS.sim_cases $h with ⟨_, _, _, rfl, rfl, _⟩)
  | (rcases Prod.sim_cases $h with ⟨_, _, _, _, rfl, rfl, _, _⟩)
  | (rcases List.sim_cases $h with ⟨rfl, rfl⟩ | ⟨_, _, _, _, rfl, rfl, _, _⟩)
  | (rcases Out.sim_cases $h with ⟨_, _, _, _, rfl, rfl, _, _⟩ | ⟨_, _, _, _, _, _, _, _, _, rfl, rfl, _, _, _⟩ |
      ⟨_, _, _, _, rfl, rfl, _, _⟩)
  | (rcases Fail.sim_cases $h with ⟨rfl, rfl⟩ | ⟨_, _, rfl, rfl⟩ | ⟨_, rfl, rfl⟩ | ⟨_, rfl, rfl⟩)) <;> try dsimp -zeta only)

/-- joint case analysis of two similar values: equal, or both of the same positional kind -/
syntax "sim_cases5 " ident : tactic
set_option hygiene false in
macro_rules | `(tactic| sim_cases5 $h:ident) => `(tactic| (first
  | (rcases RVal.sim_cases5 $h with rfl | ⟨_, _, rfl, rfl, _⟩ | ⟨_, _, rfl, rfl⟩ | ⟨_, _, rfl, rfl⟩ | ⟨_, _, _, _, rfl, rfl, _⟩)
  | sim_cases $h) <;> try dsimp -zeta only)

/-- library facts; extended as they are proved -/
syntax "resp_lib" : tactic
macro_rules | `(tactic| resp_lib) => `(tactic| fail "no library fact applies")

/-- one decomposition step for goals `Resp (do …) (do …)` -/
macro "resp_step" : tactic => `(tactic| first
  | (apply Resp.pure; ers_tac)
  | exact Resp.getS
  | (apply Resp.setS; ers_tac)
  | (apply Resp.modifyS; intro _ _ _; ers_tac)
  | (apply Resp.throwE; ers_tac)
  | (apply Resp.throwV <;> ers_tac)
  | exact Resp.unsupported
  | (apply Resp.failM; ers_tac)
  | resp_lib
  | (with_reducible apply Resp.getS_bind; intro _ _ _)
  | with_reducible apply Resp.bind
  | (with_reducible apply Resp.iteB; ers_tac)
  | (with_reducible apply Resp.ite; ers_tac)
  | (intro a a' h; try (first
      | (simp only [ers_id] at h; subst h)
      | (rcases ProdS.sim_cases h with ⟨_, _, _, $(Lean.mkIdent `rfl):ident, $(Lean.mkIdent `rfl):ident, h1⟩
         try (simp only [ers_id] at h1; subst h1)
         try dsimp -zeta only)
      | (rcases Prod.sim_cases h with ⟨_, _, _, _, $(Lean.mkIdent `rfl):ident, $(Lean.mkIdent `rfl):ident, h1, h2⟩
         try (simp only [ers_id] at h1; subst h1)
         try (simp only [ers_id] at h2; subst h2)
         try dsimp -zeta only)))
  | intro _
  | dsimp -zeta only)

macro "resp" : tactic => `(tactic| repeat' resp_step)

/-! ### `EvalBase` -/

theorem allocM_resp {c c' : Cell} (h : ers c = ers c') : Resp (allocM c) (allocM c') := by
  constructor
  intro s s' hs
  have h1 : ers (s.alloc c).1 = ers (s'.alloc c').1 := by rw [alloc_ers, alloc_ers, hs, h]
  show ers (Out.ok (RVal.ref (s.alloc c).2) (s.alloc c).1) = ers (Out.ok (RVal.ref (s'.alloc c').2) (s'.alloc c').1)
  simp only [ers_ok, h1, alloc_snd, heap_size_congr hs, ers_vref]

macro_rules | `(tactic| resp_lib) => `(tactic| (apply allocM_resp; ers_tac))

theorem newList_resp {c c' : List RVal} (h : ers c = ers c') : Resp (newList c) (newList c') :=
  allocM_resp (by ers_tac)

macro_rules | `(tactic| resp_lib) => `(tactic| (apply newList_resp; ers_tac))

theorem cellOf_resp {v v' : RVal} (h : ers v = ers v') : Resp (cellOf v) (cellOf v') := by
  constructor
  intro s s' hs
  unfold cellOf
  sim_cases h <;> simp only [ers_ok, ers_none, hs]
  simp only [cell_ers', hs]

macro_rules | `(tactic| resp_lib) => `(tactic| (apply cellOf_resp; ers_tac))

theorem typeOf_resp {v v' : RVal} (h : ers v = ers v') : Resp (typeOf v) (typeOf v') := by
  constructor
  intro s s' hs
  unfold typeOf
  simp only [ers_ok, hs, ers_string]
  ers_tac

macro_rules | `(tactic| resp_lib) => `(tactic| (apply typeOf_resp; ers_tac))

theorem getIndex_resp {v v' : RVal} {p p' : Pos} (h : ers v = ers v') : Resp (getIndex v p) (getIndex v' p') := by
  unfold getIndex
  sim_cases h <;> resp

end Ckl.C14E
