"""C14 Program meaning is independent of layout, comments and literal spelling."""
import ast as pyast
import os
import re
import warnings

from harness import core, proto, astdump, gensyntax, session
from harness.props import common

warnings.filterwarnings("ignore", category=FutureWarning)

POS = re.compile(r" @\d+:-?\d+")


def suite_programs():
    """runnable programs: the source strings of the repository's own interpreter tests"""
    progs = []
    for f in ("test_interpreter.py", "test_infotests.py"):
        p = os.path.join(core.REPO, "tests", f)
        if not os.path.exists(p):
            continue
        tree = pyast.parse(open(p, encoding="utf-8").read())
        for node in pyast.walk(tree):
            if (isinstance(node, pyast.Call) and isinstance(node.func, pyast.Name) and node.args
                    and isinstance(node.args[0], pyast.Constant) and isinstance(node.args[0].value, str)):
                progs.append(node.args[0].value)
    return list(dict.fromkeys(progs))


def lex(src):
    from ckl.lexer import Lexer
    from ckl.errors import CklSyntaxError
    try:
        with core.time_limit(2):
            return [(t.value, t.type) for t in Lexer(src, "f").scan().tokens]
    except (CklSyntaxError, core.Timeout):
        return None


def norm_tokens(toks):
    """token sequence up to the spelling of int literals (007, 0x7 and 0b111 are the same literal)"""
    if toks is None:
        return None
    return [(str(int(v)) if t == "int" else ("!=" if (t == "operator" and v == "<>") else v), t) for v, t in toks]


def parse_dump(src):
    from ckl.parser import parse_script
    from ckl.errors import CklSyntaxError
    try:
        with core.time_limit(3):
            return astdump.dump(parse_script(src, "f"), False)
    except CklSyntaxError:
        return "(syn)"
    except core.Timeout:
        return "(timeout)"
    except RecursionError:
        return "(deep)"
    except Exception as e:  # noqa
        return "(host " + type(e).__name__ + ")"


def toggle_semicolons(toks, rng):
    """optional trailing semicolons: before `end`, `catch`, `finally` (inside a block, after a statement) and at the end of the text"""
    out = []
    changed = False
    for i, t in enumerate(toks):
        if t[1] == "keyword" and t[0] in ("end", "catch", "finally") and out:
            prev = out[-1]
            if prev == (";", "interpunction"):
                # only a semicolon that follows a statement is optional (not `do ;`)
                if len(out) >= 2 and out[-2] != (";", "interpunction") and rng.random() < 0.5:
                    out.pop()
                    changed = True
            elif not (prev[1] == "keyword" and prev[0] in ("do", "finally", "all", "catch")) and rng.random() < 0.5:
                out.append((";", "interpunction"))
                changed = True
        out.append(t)
    return out, changed


def run_once(src):
    s = session.ImplSession()
    try:
        out = s.run(src)
    finally:
        s.close()
    return out[0][:2], out[1]


def run(ctx):
    rng = ctx.rng
    g = gensyntax.Gen(rng, maxdepth=4)
    ctx.rule = ("for each program (grammar-generated programs and the runnable programs of the repository's test-suite) N random "
                "re-renderings over all layout choices at every token boundary (spaces, tabs, LF, CRLF, comments) and literal spellings "
                "(decimal/hex/binary/underscored ints, single/double quotes with equivalent escapes, != vs <>), optional trailing semicolons (at the end of the text and before end / catch / finally inside blocks) "
                "and redundant parentheses around the whole expression; token values, AST (without positions), result, output and error "
                "value must equal the canonical rendering's; non-trivial = the rendering differs from the canonical one in >= 2 boundaries")
    n_render = 40 if ctx.thorough else 10
    syntactic = [g.program() for _ in range(400 if ctx.thorough else 120)]
    runnable = suite_programs()
    if not ctx.thorough:
        runnable = rng.sample(runnable, min(len(runnable), 220))
    reqs, meta = [], []
    for kind, progs in (("syntactic", syntactic), ("runnable", runnable)):
        for p in progs:
            toks = lex(p)
            if not toks:
                continue
            canon = gensyntax.render_tokens(toks)
            if lex(canon) != toks:
                # value/type pairs that the canonical renderer cannot spell back (e.g. patterns with odd content): skip
                ctx.count("skipped_not_respellable")
                continue
            base_ast = parse_dump(canon)
            base_run = run_once(canon) if kind == "runnable" and base_ast.startswith("(") and base_ast not in ("(syn)", "(timeout)", "(deep)") else None
            ctx.count("programs_" + kind)
            for k in range(n_render):
                variant = gensyntax.render_tokens(toks, rng, canonical=False)
                plain_variant = variant
                if rng.random() < 0.2 and base_ast != "(syn)" and toks[-1] != (";", "interpunction"):
                    variant = variant + rng.choice([";", " ;", "\n;"])
                    # a trailing semicolon is optional: meaning unchanged
                boundaries = sum(1 for a, b in zip(variant.split(" "), canon.split(" ")) if a != b)
                ctx.seen((p, k, variant), nontrivial=boundaries >= 2 or "\n" in variant)
                vt = lex(plain_variant)
                rp = {"op": "relayout", "canonical": canon, "variant": variant}
                if norm_tokens(vt) != norm_tokens(toks):
                    ctx.violation("oracle", f"re-rendering changes the token sequence: {variant!r} vs {canon!r}", rp)
                    continue
                va = parse_dump(variant)
                if va != base_ast:
                    ctx.violation("oracle", f"re-rendering changes the parse: {variant!r} vs {canon!r}", rp)
                    continue
                if base_run is not None and k < (n_render if ctx.thorough else 4):
                    vr = run_once(variant)
                    if vr != base_run:
                        ctx.violation("oracle", f"re-rendering changes the result: {vr} vs {base_run}: {variant!r} vs {canon!r}", rp)
                if k < 3:
                    reqs.append("(parsesrc s:" + proto.enc_str(variant) + ")")
                    meta.append((canon, variant, base_ast))
            # optional trailing semicolons inside blocks
            if base_ast not in ("(syn)", "(timeout)", "(deep)") and not base_ast.startswith("(host"):
                for k in range(3):
                    t2, changed = toggle_semicolons(toks, rng)
                    if not changed:
                        continue
                    variant = gensyntax.render_tokens(t2, rng, canonical=False)
                    ctx.seen((p, "semi", variant), nontrivial=True)
                    ctx.count("semicolon_variants")
                    rp = {"op": "relayout", "canonical": canon, "variant": variant}
                    va = parse_dump(variant)
                    if va != base_ast:
                        ctx.violation("oracle", f"adding / removing optional trailing semicolons changes the parse: {variant!r} vs {canon!r}", rp)
                        continue
                    if base_run is not None and k < 2:
                        vr = run_once(variant)
                        if vr != base_run:
                            ctx.violation("oracle", f"optional trailing semicolons change the result: {vr} vs {base_run}: {variant!r} vs {canon!r}", rp)
                    if k == 0:
                        reqs.append("(parsesrc s:" + proto.enc_str(variant) + ")")
                        meta.append((canon, variant, base_ast))
            # redundant parentheses around an expression program
            if base_ast not in ("(syn)", "(timeout)", "(deep)") and ";" not in canon and not canon.startswith(("def ", "for ", "while ", "require ", "'")):
                par = "( " + canon + " )"
                pa = parse_dump(par)
                ctx.seen((p, "paren"))
                if pa != base_ast and not base_ast.startswith(("(assign", "(derefAssign", "(return", "(assignD")):
                    # `( e )` may take call/deref suffixes but alone must denote the node of e
                    ctx.violation("oracle", f"redundant parentheses change the parse of {canon!r}", {"op": "paren", "canonical": canon})
    # ---------------- model: the front end maps every re-rendering to the same AST (positions aside)
    if ctx.build.ok and reqs:
        resp = core.run_driver(reqs)
        for r, (canon, variant, base_ast) in zip(resp, meta):
            ctx.count("model_parses")
            if r.startswith("(ast "):
                m = POS.sub("", r[5:-1])
            elif r.startswith("(syn"):
                m = "(syn)"
            else:
                raise RuntimeError("driver: " + r[:200])
            if base_ast.startswith("(host") or base_ast in ("(timeout)", "(deep)"):
                continue
            if m != base_ast:
                ctx.disagreements += 1
                ctx.violation("correspondence", f"model front end on {variant!r} differs from the implementation's parse of {canon!r}",
                              {"op": "relayout", "canonical": canon, "variant": variant, "correspondence": "Ckl.parseScript vs parse_script"})
    ctx.sample({"canonical": "x = 255 != 3", "variant": "x\t=\n0xff # c\n<> 0b11"})
    ctx.sample({"canonical": "'a\\'b'", "variant": "\"a'b\""})
    common.replay_known(ctx)


def replay(ctx, payload):
    return common.generic_replay(ctx, payload)
