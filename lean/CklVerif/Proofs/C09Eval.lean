/-
  C09 — secure mode at the level of the EVALUATOR model (`Model/Eval.lean`).

  `NoEff ld s`            : the interpreter state is in secure mode and no native value whose name is in
                            `ld.effectful` (the built-ins with `secure = False`: file, process, script
                            loading) occurs anywhere in it.
  `eval_preserves_noEff`  : every function of the evaluator keeps `NoEff` and only ever returns / throws
                            values that are not (and do not wrap) an effectful native — for every
                            interpretation of the unmodelled natives that does so itself (`NativeClean`).
  `secure_flag_constant`  : no evaluation changes `State.secure` (given that the unmodelled natives do not).
  `eval_indep_effectful`  : non-interference: the outcome of an evaluation from a `NoEff` state does not
                            depend on the interpretation of the effectful natives — they are never invoked.
  `bind_native_refuses`   : the `bind_native` arm of `callFn` returns NULL and changes nothing when asked
                            for an effectful native in secure mode, with or without alias.

  Where values live in `State` (`Model/Env.lean`): frame variables (`frames[e].vars`) and heap cells
  (`heap[a]`: list / set elements, map keys and values, object members).  Closures (`Cell.closure`) hold an
  environment id and syntax, the module registry (`modules`) maps names to environment ids, `modstack`,
  `out`, `nextInst`, `ghost` hold no values: `NoEff` has nothing to say about them.
-/
import CklVerif.Lemmas.C09EvalEval
import CklVerif.Lemmas.C16Alloc
import CklVerif.Driver.EvalCmd
import CklVerif.Gen.NativeTable
namespace Ckl.C09E
open Ckl

/-! ### 1. the predicate -/

/-- secure mode is on, and no frame variable and no heap cell holds (or wraps in a `return`) a native
    whose name is in `ld.effectful` -/
def NoEff (ld : Loader) (s : State) : Prop := Inv ld.effectful true s

/-- the values stored in a heap cell are clean: list / set elements, map keys and values, object members
    (a closure cell stores an environment id and syntax only) -/
def CellOK (E : List String) : Cell → Prop
  | .list xs => ∀ x ∈ xs, Clean E x
  | .set xs => ∀ x ∈ xs, Clean E x
  | .map kvs => ∀ kv ∈ kvs, Clean E kv.1 ∧ Clean E kv.2
  | .obj kvs _ => ∀ kv ∈ kvs, Clean E kv.2
  | .closure _ _ _ _ _ => True

/-- `NoEff` spelled out over the `State` structure -/
theorem noEff_iff (ld : Loader) (s : State) :
    NoEff ld s ↔
      s.secure = true ∧
      (∀ (e : EnvId) (x : String) (v : RVal), (x, v) ∈ (s.frames.getD e {}).vars → Clean ld.effectful v) ∧
      (∀ (a : Nat) (c : Cell), s.heap[a]? = some c →
        CellOK ld.effectful c) := by
  constructor
  · intro h
    refine ⟨h.secure, fun e x v hm => ?_, fun a c hc => ?_⟩
    · exact (cl_of_mem hm (h.frames e)).2
    · have := h.heap a c hc
      cases c with
      | list xs => exact fun x hx => cl_of_mem hx this
      | set xs => exact fun x hx => cl_of_mem hx this
      | map kvs => exact fun kv hkv => cl_of_mem (E := ld.effectful) hkv this
      | obj kvs m => exact fun kv hkv => (cl_of_mem (E := ld.effectful) hkv this).2
      | closure => trivial
  · rintro ⟨h1, h2, h3⟩
    refine ⟨h1, fun e => (cl_list_iff _).mpr fun p hp => ⟨trivial, h2 e p.1 p.2 hp⟩, fun a c hc => ?_⟩
    have := h3 a c hc
    cases c with
    | list xs => exact (cl_list_iff _).mpr this
    | set xs => exact (cl_list_iff _).mpr this
    | map kvs => exact (cl_list_iff _).mpr this
    | obj kvs m => exact (cl_list_iff _).mpr fun kv hkv => ⟨trivial, this kv hkv⟩
    | closure => trivial

/-- a container value that is returned is a reference into the heap of the final state, whose cells
    `NoEff` covers: the result "contains" no effectful native either -/
theorem NoEff.cell {ld : Loader} {s : State} (h : NoEff ld s) {a : Nat} {c : Cell} (hc : s.heap[a]? = some c) :
    CellOK ld.effectful c :=
  ((noEff_iff ld s).mp h).2.2 a c hc

/-- every variable visible from any environment is clean -/
theorem NoEff.lookup {ld : Loader} {s : State} (h : NoEff ld s) {e : EnvId} {x : String} {v : RVal}
    (hv : s.lookup e x = some v) : Clean ld.effectful v := Inv.lookup h hv

/-- strip the `return` wrappers of a control value -/
def unret : RVal → RVal
  | .ret v _ => unret v
  | v => v

/-- `Clean E v`: `v`, looked at through `return` wrappers, is not a native with a name in `E` -/
theorem clean_iff (E : List String) (v : RVal) :
    Clean E v ↔ ∀ nm i, unret v = .native nm i → nm ∉ E := by
  induction v with
  | native n j => simp [Clean, unret]
  | ret v p ih => simpa [Clean, unret] using ih
  | _ => simp [Clean, unret]

/-- what an outcome must satisfy: final state `NoEff`, value / error value clean -/
def NoEffOut (ld : Loader) : Out RVal → Prop
  | .ok v s' => NoEff ld s' ∧ Clean ld.effectful v
  | .err v _ _ _ s' => NoEff ld s' ∧ Clean ld.effectful v
  | .fail _ s' => NoEff ld s'

theorem noEffOut_iff (ld : Loader) (o : Out RVal) : NoEffOut ld o ↔ Post ld.effectful true o := by
  cases o <;> exact Iff.rfl

theorem NoEffOut.st {ld : Loader} {o : Out RVal} (h : NoEffOut ld o) : NoEff ld o.st := by
  cases o with
  | ok v s => exact h.1
  | err v m p t s => exact h.1
  | fail f s => exact h

/-- hypothesis on the interpretation of the unmodelled natives: a native that is not effectful, called
    with clean arguments in a `NoEff` state, leaves a `NoEff` state and returns / throws a clean value -/
def NativeClean (ld : Loader) : Prop :=
  ∀ name, name ∉ ld.effectful → ∀ args : List (String × RVal), (∀ p ∈ args, Clean ld.effectful p.2) →
    ∀ s, NoEff ld s → NoEffOut ld (ld.nativeSem name args s)

theorem cl_args_iff (E : List String) (args : List (String × RVal)) :
    Cl.cl E args ↔ ∀ p ∈ args, Clean E p.2 := by
  rw [cl_list_iff]
  exact ⟨fun h p hp => (h p hp).2, fun h p hp => ⟨trivial, h p hp⟩⟩

theorem effOK_self (ld : Loader) : EffOK ld.effectful true ld := fun _ h => ⟨rfl, h⟩

theorem nativeOK_self {ld : Loader} (h : NativeClean ld) : NativeOK ld.effectful true ld ld :=
  fun name hn args ha => Pres.mk' fun s hs =>
    (noEffOut_iff ld _).mp (h name hn args ((cl_args_iff _ _).mp ha) s hs)

/-- all functions of the evaluator preserve `NoEff` -/
theorem allP_self {ld : Loader} (h : NativeClean ld) (fuel : Nat) : AllP ld.effectful true ld ld fuel :=
  allP (LdAgree.refl ld) (effOK_self ld) (nativeOK_self h) fuel

/-! ### 2. preservation -/

/-- `eval` keeps `NoEff`; the value it returns or throws is not an effectful native -/
theorem eval_preserves_noEff {ld : Loader} (h : NativeClean ld) (fuel : Nat) (env : EnvId) (n : Node)
    (s : State) (hs : NoEff ld s) : NoEffOut ld (eval ld fuel env n s) :=
  (noEffOut_iff ld _).mpr (((allP_self h fuel).eval env n).run s hs).2

/-- the three outcomes separately -/
theorem eval_ok_noEff {ld : Loader} (h : NativeClean ld) {fuel env n s v s'} (hs : NoEff ld s)
    (hr : eval ld fuel env n s = .ok v s') : NoEff ld s' ∧ Clean ld.effectful v := by
  have := eval_preserves_noEff h fuel env n s hs; rw [hr] at this; exact this

theorem eval_err_noEff {ld : Loader} (h : NativeClean ld) {fuel env n s v m p t s'} (hs : NoEff ld s)
    (hr : eval ld fuel env n s = .err v m p t s') : NoEff ld s' ∧ Clean ld.effectful v := by
  have := eval_preserves_noEff h fuel env n s hs; rw [hr] at this; exact this

theorem eval_fail_noEff {ld : Loader} (h : NativeClean ld) {fuel env n s f s'} (hs : NoEff ld s)
    (hr : eval ld fuel env n s = .fail f s') : NoEff ld s' := by
  have := eval_preserves_noEff h fuel env n s hs; rw [hr] at this; exact this

/-- a function call with a clean function value and clean bound arguments -/
theorem callFn_preserves_noEff {ld : Loader} (h : NativeClean ld) (fuel : Nat) (fn : RVal)
    (bound : List (String × RVal)) (env : EnvId) (pos : Pos) (hfn : Clean ld.effectful fn)
    (hb : ∀ p ∈ bound, Clean ld.effectful p.2) (s : State) (hs : NoEff ld s) :
    NoEffOut ld (callFn ld fuel fn bound env pos s) :=
  (noEffOut_iff ld _).mpr
    (((allP_self h fuel).callFn fn bound env pos hfn ((cl_args_iff _ _).mpr hb)).run s hs).2

theorem invoke_preserves_noEff {ld : Loader} (h : NativeClean ld) (fuel : Nat) (fn : RVal) (pre : List RVal)
    (names : List (Option String)) (args : List Node) (env : EnvId) (pos : Pos)
    (hfn : Clean ld.effectful fn) (hp : ∀ v ∈ pre, Clean ld.effectful v) (s : State) (hs : NoEff ld s) :
    NoEffOut ld (invoke ld fuel fn pre names args env pos s) :=
  (noEffOut_iff ld _).mpr
    (((allP_self h fuel).invoke fn pre names args env pos hfn ((cl_list_iff _).mpr hp)).run s hs).2

/-- `require` (module loading included) -/
theorem evalRequire_preserves_noEff {ld : Loader} (h : NativeClean ld) (fuel : Nat) (env : EnvId) (spec : Node)
    (name : Option String) (unq : Bool) (syms : Option (List (String × String))) (pos : Pos)
    (s : State) (hs : NoEff ld s) : NoEffOut ld (evalRequire ld fuel env spec name unq syms pos s) :=
  (noEffOut_iff ld _).mpr (((allP_self h fuel).evalRequire env spec name unq syms pos).run s hs).2

theorem interpretProg_presA {E : List String} {b : Bool} {ld ld' : Loader} {fuel : Nat}
    (hall : AllP E b ld ld' fuel) (senv : EnvId) (ast : Node) :
    PresA E b (interpretProg ld fuel senv ast) (interpretProg ld' fuel senv ast) := by
  have ihEval := hall.eval
  unfold interpretProg
  pa_auto

/-- `Interpreter.interpret` -/
theorem interpretProg_preserves_noEff {ld : Loader} (h : NativeClean ld) (fuel : Nat) (senv : EnvId)
    (ast : Node) (s : State) (hs : NoEff ld s) : NoEffOut ld (interpretProg ld fuel senv ast s) :=
  (noEffOut_iff ld _).mpr ((interpretProg_presA (allP_self h fuel) senv ast).run s hs).2

/-- a session: the programs run one after the other, each on the state the previous one left behind
    (whatever its outcome was) -/
def runProgs (ld : Loader) (fuel : Nat) (senv : EnvId) : List Node → State → State
  | [], s => s
  | p :: ps, s => runProgs ld fuel senv ps (interpretProg ld fuel senv p s).st

/-- `NoEff` is an invariant of whole sessions -/
theorem session_preserves_noEff {ld : Loader} (h : NativeClean ld) (fuel : Nat) (senv : EnvId)
    (progs : List Node) (s : State) (hs : NoEff ld s) : NoEff ld (runProgs ld fuel senv progs s) := by
  induction progs generalizing s with
  | nil => exact hs
  | cons p ps ih => exact ih _ (interpretProg_preserves_noEff h fuel senv p s hs).st


/-! ### 3. the secure flag is constant -/

/-- with nothing to avoid (`E = []`) every value is clean -/
theorem cl_nilE_args (l : List (String × RVal)) : Cl.cl [] l :=
  (cl_list_iff _).mpr fun p _ => ⟨trivial, clean_nil_all p.2⟩

theorem cl_nilE_cell (c : Cell) : Cl.cl [] c := by
  cases c with
  | list xs => exact (cl_list_iff _).mpr fun x _ => clean_nil_all x
  | set xs => exact (cl_list_iff _).mpr fun x _ => clean_nil_all x
  | map kvs => exact (cl_list_iff _).mpr fun p _ => ⟨clean_nil_all p.1, clean_nil_all p.2⟩
  | obj kvs m => exact cl_nilE_args kvs
  | closure => trivial

theorem inv_nilE_iff (b : Bool) (s : State) : Inv [] b s ↔ s.secure = b :=
  ⟨fun h => h.secure, fun h => ⟨h, fun _ => cl_nilE_args _, fun _ c _ => cl_nilE_cell c⟩⟩

/-- hypothesis on the interpretation of the unmodelled natives: they do not touch the flag -/
def NativeKeepsSecure (ld : Loader) : Prop :=
  ∀ name args s, (ld.nativeSem name args s).st.secure = s.secure

theorem allP_secure {ld : Loader} (h : NativeKeepsSecure ld) (b : Bool) (fuel : Nat) : AllP [] b ld ld fuel := by
  refine allP (LdAgree.refl ld) (fun nm hnm => by cases hnm) ?_ fuel
  intro name _ args _
  refine Pres.mk' fun s hs => ?_
  have hk := h name args s
  have hb : (ld.nativeSem name args s).st.secure = b := hk.trans hs.secure
  revert hb
  cases ld.nativeSem name args s with
  | ok v s' => exact fun hb => ⟨(inv_nilE_iff b s').mpr hb, clean_nil_all v⟩
  | err v m p t s' => exact fun hb => ⟨(inv_nilE_iff b s').mpr hb, clean_nil_all v⟩
  | fail f s' => exact fun hb => (inv_nilE_iff b s').mpr hb

theorem post_nilE_secure {α} [Cl α] {b : Bool} {o : Out α} (h : Post [] b o) : o.st.secure = b := by
  cases o with
  | ok v s => exact h.1.secure
  | err v m p t s => exact h.1.secure
  | fail f s => exact h.secure

/-- no evaluation changes `State.secure`, whatever the program, the environment and the state are
    (secure or not, clean or not) -/
theorem secure_flag_constant {ld : Loader} (h : NativeKeepsSecure ld) (fuel : Nat) (env : EnvId) (n : Node)
    (s : State) : (eval ld fuel env n s).st.secure = s.secure :=
  post_nilE_secure (((allP_secure h s.secure fuel).eval env n).run s ((inv_nilE_iff _ s).mpr rfl)).2

theorem secure_flag_constant_interpret {ld : Loader} (h : NativeKeepsSecure ld) (fuel : Nat) (senv : EnvId)
    (ast : Node) (s : State) : (interpretProg ld fuel senv ast s).st.secure = s.secure :=
  post_nilE_secure ((interpretProg_presA (allP_secure h s.secure fuel) senv ast).run s
    ((inv_nilE_iff _ s).mpr rfl)).2

theorem secure_flag_constant_callFn {ld : Loader} (h : NativeKeepsSecure ld) (fuel : Nat) (fn : RVal)
    (bound : List (String × RVal)) (env : EnvId) (pos : Pos) (s : State) :
    (callFn ld fuel fn bound env pos s).st.secure = s.secure :=
  post_nilE_secure (((allP_secure h s.secure fuel).callFn fn bound env pos (clean_nil_all fn)
    (cl_nilE_args bound)).run s ((inv_nilE_iff _ s).mpr rfl)).2

theorem secure_flag_constant_require {ld : Loader} (h : NativeKeepsSecure ld) (fuel : Nat) (env : EnvId)
    (spec : Node) (name : Option String) (unq : Bool) (syms : Option (List (String × String))) (pos : Pos)
    (s : State) : (evalRequire ld fuel env spec name unq syms pos s).st.secure = s.secure :=
  post_nilE_secure (((allP_secure h s.secure fuel).evalRequire env spec name unq syms pos).run s
    ((inv_nilE_iff _ s).mpr rfl)).2

/-- a program cannot switch secure mode off: sessions keep the flag -/
theorem secure_flag_constant_session {ld : Loader} (h : NativeKeepsSecure ld) (fuel : Nat) (senv : EnvId)
    (progs : List Node) (s : State) : (runProgs ld fuel senv progs s).secure = s.secure := by
  induction progs generalizing s with
  | nil => rfl
  | cons p ps ih => exact (ih _).trans (secure_flag_constant_interpret h fuel senv p s)

/-! ### 4. non-interference: the effectful natives are never invoked -/

/-- `ld'` is `ld` with another interpretation of the effectful natives -/
structure DiffOnlyEffectful (ld ld' : Loader) : Prop where
  agree : LdAgree ld ld'
  sem : ∀ name, name ∉ ld.effectful → ld'.nativeSem name = ld.nativeSem name

theorem nativeOK_diff {ld ld' : Loader} (hd : DiffOnlyEffectful ld ld') (h : NativeClean ld) :
    NativeOK ld.effectful true ld ld' := by
  intro name hn args ha
  rw [hd.sem name hn]
  exact nativeOK_self h name hn args ha

theorem allP_diff {ld ld' : Loader} (hd : DiffOnlyEffectful ld ld') (h : NativeClean ld) (fuel : Nat) :
    AllP ld.effectful true ld ld' fuel :=
  allP hd.agree (effOK_self ld) (nativeOK_diff hd h) fuel

/-- from a `NoEff` state, evaluation under two loaders that differ only in what the effectful natives do
    yields the SAME outcome (value, error, failure, final state) -/
theorem eval_indep_effectful {ld ld' : Loader} (hd : DiffOnlyEffectful ld ld') (h : NativeClean ld)
    (fuel : Nat) (env : EnvId) (n : Node) (s : State) (hs : NoEff ld s) :
    eval ld fuel env n s = eval ld' fuel env n s :=
  (((allP_diff hd h fuel).eval env n).run s hs).1

theorem interpretProg_indep_effectful {ld ld' : Loader} (hd : DiffOnlyEffectful ld ld') (h : NativeClean ld)
    (fuel : Nat) (senv : EnvId) (ast : Node) (s : State) (hs : NoEff ld s) :
    interpretProg ld fuel senv ast s = interpretProg ld' fuel senv ast s :=
  ((interpretProg_presA (allP_diff hd h fuel) senv ast).run s hs).1

theorem callFn_indep_effectful {ld ld' : Loader} (hd : DiffOnlyEffectful ld ld') (h : NativeClean ld)
    (fuel : Nat) (fn : RVal) (bound : List (String × RVal)) (env : EnvId) (pos : Pos)
    (hfn : Clean ld.effectful fn) (hb : ∀ p ∈ bound, Clean ld.effectful p.2) (s : State) (hs : NoEff ld s) :
    callFn ld fuel fn bound env pos s = callFn ld' fuel fn bound env pos s :=
  (((allP_diff hd h fuel).callFn fn bound env pos hfn ((cl_args_iff _ _).mpr hb)).run s hs).1

theorem evalRequire_indep_effectful {ld ld' : Loader} (hd : DiffOnlyEffectful ld ld') (h : NativeClean ld)
    (fuel : Nat) (env : EnvId) (spec : Node) (name : Option String) (unq : Bool)
    (syms : Option (List (String × String))) (pos : Pos) (s : State) (hs : NoEff ld s) :
    evalRequire ld fuel env spec name unq syms pos s = evalRequire ld' fuel env spec name unq syms pos s :=
  (((allP_diff hd h fuel).evalRequire env spec name unq syms pos).run s hs).1

/-- whole sessions do not depend on the effectful natives -/
theorem session_indep_effectful {ld ld' : Loader} (hd : DiffOnlyEffectful ld ld') (h : NativeClean ld)
    (fuel : Nat) (senv : EnvId) (progs : List Node) (s : State) (hs : NoEff ld s) :
    runProgs ld fuel senv progs s = runProgs ld' fuel senv progs s := by
  induction progs generalizing s with
  | nil => rfl
  | cons p ps ih =>
    simp only [runProgs]
    rw [← interpretProg_indep_effectful hd h fuel senv p s hs]
    exact ih _ (interpretProg_preserves_noEff h fuel senv p s hs).st



/-! ### 5. the `bind_native` arm of `callFn` -/

theorem callPure_bind_native (bound : List (String × RVal)) (d : Option RVal) (pos : Pos) :
    callPure "bind_native" bound d pos = none := by
  unfold callPure
  rfl

/-- secure mode, name of an effectful native (known to `bind_native`), with or without an alias:
    NULL is returned and the state — every frame of every environment included — is unchanged -/
theorem bind_native_refuses (ld : Loader) (fuel inst : Nat) (bound : List (String × RVal)) (env : EnvId)
    (pos : Pos) (s : State) (nm : List Char)
    (hsec : s.secure = true) (heff : String.ofList nm ∈ ld.effectful)
    (hknown : String.ofList nm ∈ ld.knownNatives)
    (hn : dictGet "native" bound = some (.str nm))
    (ha : dictGet "alias" bound = none ∨ ∃ a, dictGet "alias" bound = some (.str a)) :
    callFn ld (fuel+1) (.native "bind_native" inst) bound env pos s = .ok .null s := by
  simp only [callFn, callPure_bind_native]
  rcases ha with ha | ⟨a, ha⟩
  · simp [C05.bind_def, getS, argGet, hn, dictHas, ha, hknown, heff, hsec, pure, EvalM.pure']
  · simp [C05.bind_def, getS, argGet, hn, dictHas, ha, hknown, heff, hsec, pure, EvalM.pure']

set_option linter.unusedSimpArgs false in
/-- … and whatever the alias argument is and whether or not the name is known: nothing is bound, the
    state is unchanged (the outcome is NULL or a runtime error) -/
theorem bind_native_refuses_state (ld : Loader) (fuel inst : Nat) (bound : List (String × RVal)) (env : EnvId)
    (pos : Pos) (s : State) (nm : List Char)
    (hsec : s.secure = true) (heff : String.ofList nm ∈ ld.effectful)
    (hn : dictGet "native" bound = some (.str nm)) :
    (callFn ld (fuel+1) (.native "bind_native" inst) bound env pos s).st = s := by
  simp only [callFn, callPure_bind_native]
  by_cases hk : String.ofList nm ∈ ld.knownNatives
  · cases ha : dictGet "alias" bound with
    | none => simp [C05.bind_def, getS, argGet, hn, dictHas, ha, hk, heff, hsec, pure, EvalM.pure', Out.st]
    | some v =>
      cases v <;> simp [C05.bind_def, getS, argGet, hn, dictHas, ha, hk, heff, hsec, pure, EvalM.pure', typeOf, throwE,
        throwV, Out.st]
  · cases ha : dictGet "alias" bound with
    | none => simp [C05.bind_def, getS, argGet, hn, dictHas, ha, hk, heff, hsec, pure, EvalM.pure', throwE, throwV, Out.st]
    | some v =>
      cases v <;> simp [C05.bind_def, getS, argGet, hn, dictHas, ha, hk, heff, hsec, pure, EvalM.pure', typeOf, throwE,
        throwV, Out.st]

/-! ### 6. non-vacuity -/

/-- the interpreter's initial state (driver) is `NoEff` when none of the natives bound into the base
    frame is effectful -/
theorem initialState_inv (E : List String) (b : Bool) (natives : List String)
    (hn : ∀ n ∈ natives, n ∉ E) : Inv E b (initialState b natives).1 := by
  unfold initialState
  dsimp only
  refine Inv.newEnv ?_ 0
  refine Inv.foldl (fun s n hmem h => ?_) ?_
  · exact (h.put 0 n (hn n hmem : Cl.cl E (RVal.native n s.nextInst))).nextInst _
  · have h0 : Inv E b ({ frames := #[{ vars := [], parent := none }], secure := b } : State) := by
      refine ⟨rfl, fun e => ?_, fun a c hc => ?_⟩
      · unfold State.frame
        rw [Array.getD_eq_getD_getElem?]
        cases e with
        | zero => exact cl_nil'
        | succ k => exact cl_nil'
      · simp [State.cell] at hc
    have h1 := h0.put 0 "checkerlang_secure_mode" (v := .bool b) trivial
    have h2 := h1.put 0 "MAXINT" (v := .int 9223372036854775807) trivial
    have h3 := h2.put 0 "MININT" (v := .int (-9223372036854775808)) trivial
    exact h3.put 0 "NULL" (v := .null) trivial

/-- the loader of the regenerated native table: effectful = the built-ins flagged `secure = False` -/
def tableLoader : Loader :=
  { effectful := (Gen.natives.filter (fun n => !n.secure)).map (·.name),
    knownNatives := Gen.natives.map (·.name) }

example : "file_output" ∈ tableLoader.effectful ∧ "execute" ∈ tableLoader.effectful ∧
    tableLoader.effectful.length = 10 := by decide

/-- none of the natives the driver binds initially is effectful -/
theorem modelled_not_effectful : ∀ n ∈ modelledNatives, n ∉ tableLoader.effectful := by decide

/-- (a) a concrete initial state satisfying `NoEff`, for a non-empty `effectful` list -/
theorem initialState_noEff : NoEff tableLoader (initialState true modelledNatives).1 :=
  initialState_inv _ true _ modelled_not_effectful

/-- (b) the driver's default interpretation of the unmodelled natives (abstains with `unsupported`)
    satisfies both hypotheses — for every loader that uses it -/
theorem default_nativeClean (ld : Loader)
    (h : ld.nativeSem = fun name _ s => .fail (.unsupported ("native " ++ name)) s) : NativeClean ld := by
  intro name _ args _ s hs
  rw [h]; exact hs

theorem default_keepsSecure (ld : Loader)
    (h : ld.nativeSem = fun name _ s => .fail (.unsupported ("native " ++ name)) s) :
    NativeKeepsSecure ld := by
  intro name args s
  rw [h]; rfl

example : NativeClean tableLoader := default_nativeClean _ rfl
example : NativeKeepsSecure tableLoader := default_keepsSecure _ rfl

/-- (c) a loader whose effectful natives "do" something bad — hand out a file handle native and switch
    secure mode off: it differs from `tableLoader` only on effectful names -/
def evilLoader : Loader :=
  { tableLoader with
    nativeSem := fun name args s =>
      if name ∈ tableLoader.effectful then .ok (.native "file_output" 0) { s with secure := false }
      else tableLoader.nativeSem name args s }

theorem evil_diff : DiffOnlyEffectful tableLoader evilLoader := by
  refine ⟨⟨rfl, rfl, rfl, rfl, rfl, rfl, rfl⟩, fun name hn => ?_⟩
  funext args s
  show (if name ∈ tableLoader.effectful then _ else _) = _
  rw [if_neg hn]

/-- … so every session started in the initial state behaves the same under both: the bad natives are
    never reached -/
example (fuel : Nat) (progs : List Node) :
    runProgs tableLoader fuel 1 progs (initialState true modelledNatives).1 =
      runProgs evilLoader fuel 1 progs (initialState true modelledNatives).1 :=
  session_indep_effectful evil_diff (default_nativeClean _ rfl) fuel 1 progs _ initialState_noEff

/-- (d) an instance of `bind_native_refuses`: `bind_native("file_output", "fo")` in the initial state -/
example : callFn tableLoader 1 (.native "bind_native" 0)
      [("native", .str "file_output".toList), ("alias", .str "fo".toList)] 1 {}
      (initialState true modelledNatives).1 = .ok .null (initialState true modelledNatives).1 :=
  bind_native_refuses tableLoader 0 0 _ 1 {} _ "file_output".toList rfl (by decide) (by decide) rfl
    (Or.inr ⟨_, rfl⟩)

/-- (e) instances of the preservation theorems: any program, any fuel, from the initial state -/
example (fuel : Nat) (n : Node) :
    NoEffOut tableLoader (eval tableLoader fuel 1 n (initialState true modelledNatives).1) :=
  eval_preserves_noEff (default_nativeClean _ rfl) fuel 1 n _ initialState_noEff

example (fuel : Nat) (n : Node) :
    (eval tableLoader fuel 1 n (initialState true modelledNatives).1).st.secure = true :=
  secure_flag_constant (default_keepsSecure _ rfl) fuel 1 n _

example (fuel : Nat) (n : Node) :
    eval tableLoader fuel 1 n (initialState true modelledNatives).1 =
      eval evilLoader fuel 1 n (initialState true modelledNatives).1 :=
  eval_indep_effectful evil_diff (default_nativeClean _ rfl) fuel 1 n _ initialState_noEff

/-- calling the (clean) native `add` with clean arguments -/
example (fuel : Nat) (x y : Int) :
    NoEffOut tableLoader (callFn tableLoader fuel (.native "add" 0) [("a", .int x), ("b", .int y)] 1 {}
      (initialState true modelledNatives).1) :=
  callFn_preserves_noEff (ld := tableLoader) (default_nativeClean _ rfl) fuel (.native "add" 0) _ 1 {}
    (show "add" ∉ tableLoader.effectful by decide)
    (by intro p hp; simp at hp; rcases hp with rfl | rfl <;> trivial) _ initialState_noEff

/-- (f) executed: `bind_native("file_output", "fo")` gives NULL and afterwards neither `file_output` nor
    `fo` is defined; under `evilLoader` too -/
def progBind : Node :=
  .call (.ident "bind_native" {}) [none, none] [.lit (.str "file_output".toList) {}, .lit (.str "fo".toList) {}] {}

#guard (match interpretProg tableLoader 20 1 progBind (initialState true modelledNatives).1 with
  | .ok .null s => !s.isDefined 1 "file_output" && !s.isDefined 1 "fo" && s.secure
  | _ => false)
#guard (match interpretProg evilLoader 20 1 progBind (initialState true modelledNatives).1 with
  | .ok .null s => !s.isDefined 1 "file_output" && !s.isDefined 1 "fo" && s.secure
  | _ => false)
-- in an insecure interpreter the same call binds the native (the refusal is the secure-mode check)
#guard (match interpretProg tableLoader 20 1 progBind (initialState false modelledNatives).1 with
  | .ok .null s => s.isDefined 1 "file_output" && s.isDefined 1 "fo"
  | _ => false)

/-! (g) modelling remark.  The flag consulted by `bind_native` is the field `State.secure`, which no node can
   write.  The base-frame VARIABLE `checkerlang_secure_mode` is an ordinary variable: a program can assign
   it, and that has no influence on `State.secure` or on `bind_native` in the model.  (Whether the Python
   `bind_native` reads an interpreter attribute or this variable is a correspondence question outside this
   file.) -/
def progAssignFlag : Node := .assign "checkerlang_secure_mode" (.lit (.bool false) {}) {}

#guard (match interpretProg tableLoader 20 1 progAssignFlag (initialState true modelledNatives).1 with
  | .ok (.bool false) s =>
    s.secure &&
    (match s.lookup 1 "checkerlang_secure_mode" with | some (.bool false) => true | _ => false) &&
    (match interpretProg tableLoader 20 1 progBind s with
      | .ok .null s' => !s'.isDefined 1 "file_output"
      | _ => false)
  | _ => false)

/-! ### the hypothesis of `secure_flag_constant` is needed

  `Loader.nativeSem` is an ARBITRARY function of the state: an interpretation of an unmodelled native
  that returns a state with another flag makes the unconditional statement false (no arm of the
  evaluator proper writes the flag). -/

def flipLoader : Loader :=
  { nativeSem := fun _ _ s => .ok .null { s with secure := false },
    nativeArgs := fun _ => some [] }

def flipState : State := { frames := #[{ vars := [("f", .native "flip" 0)] }], secure := true }

example : (eval flipLoader 3 0 (.call (.ident "f" {}) [] [] {}) flipState).st.secure = false := by
  simp [eval, invoke, evalArgs, callFn, callPure, callDate, flipLoader, flipState, C05.bind_def, getS, State.lookup,
    State.lookupF, State.frame, dictGet, RVal.isFunc, setArgs, addArgs, bindNamed, bindPositional, nativeArgNames,
    pure, EvalM.pure', Out.st]

end Ckl.C09E
