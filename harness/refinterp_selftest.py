"""Compares refinterp's reference interpreter with the real checkerlang interpreter.

usage: python3 test_refinterp.py [programs_per_profile] [workers]
"""
import sys
import os
import json
import random
import signal
import time
import multiprocessing as mp

sys.path.insert(0, os.path.dirname(os.path.abspath(__file__)))
sys.path.insert(0, __import__("os").environ.get("CKL_REPO", "/repo") + "/src")

import refinterp as R  # noqa: E402


class _Timeout(Exception):
    pass


def _alarm(signum, frame):
    raise _Timeout()


def run_real(src, seconds=20):
    from ckl.interpreter import Interpreter
    from ckl.values import StringInput, StringOutput
    from ckl.errors import CklRuntimeError, CklSyntaxError
    it = Interpreter(True, False)
    out = StringOutput()
    it.setStandardOutput(out)
    it.setStandardInput(StringInput(""))
    signal.signal(signal.SIGALRM, _alarm)
    signal.setitimer(signal.ITIMER_REAL, seconds)
    try:
        try:
            v = it.interpret(src, "f")
            res = {"outcome": "value", "value": str(v)}
        except CklRuntimeError as e:
            res = {"outcome": "error", "value": str(e.value)}
        except CklSyntaxError as e:
            res = {"outcome": "syntax", "value": str(e)}
        except _Timeout:
            res = {"outcome": "timeout", "value": ""}
        except RecursionError:
            res = {"outcome": "recursion", "value": ""}
        except Exception as e:  # crash of the real interpreter
            res = {"outcome": "crash", "value": type(e).__name__ + ": " + str(e)}
    finally:
        signal.setitimer(signal.ITIMER_REAL, 0)
    res["output"] = out.output
    return res


def one(job):
    profile, seed = job
    rng = random.Random("%s/%d" % (profile, seed))
    size = 3 + seed % 23
    ir = R.gen_program(rng, profile, size)
    # determinism + JSON round trip
    ir2 = R.gen_program(random.Random("%s/%d" % (profile, seed)), profile, size)
    det = repr(ir) == repr(ir2) and json.loads(json.dumps(ir)) == ir
    src = R.to_source(ir)
    ref = R.ref_run(ir)
    real = run_real(src)
    okay = (ref["outcome"] == real["outcome"] and ref["value"] == real["value"]
            and ref["output"] == real["output"])
    nt = R.nontrivial(ir, profile)
    return (profile, seed, okay, det, nt, ref["outcome"],
            None if okay else (src, ref, real, ir))


def check_names():
    """no generated identifier may collide with a built-in of the real interpreter"""
    from ckl.interpreter import Interpreter
    it = Interpreter(True, False)
    names = set()
    e = it.environment
    while e is not None:
        names |= set(e.map.keys())
        e = e.parent
    mine = set(R._NAME_TYPES) | set(R._FN_NAMES) | {"self", "rest", "more", "undef0", "nodef0"}
    clash = (mine & names) - set(R._BUILTINS)
    assert not clash, clash
    for prefix in ("i", "w", "v", "in", "rec", "undef", "nodef"):
        assert not any(n.startswith(prefix) and n[len(prefix):].isdigit() for n in names)


def check_shrink():
    """shrink keeps the failure and makes the program smaller"""
    def fails(ir):
        r = R.ref_run(ir)
        return r["outcome"] == "value" and "fin" in r["output"]
    done = 0
    for seed in range(400):
        ir = R.gen_program(random.Random("errors/%d" % seed), "errors", 12)
        if fails(ir):
            small = R.shrink(ir, fails)
            assert fails(small) and R._size(small) <= R._size(ir)
            real = run_real(R.to_source(small))
            ref = R.ref_run(small)
            assert (real["outcome"], real["value"], real["output"]) == (
                ref["outcome"], ref["value"], ref["output"]), (R.to_source(small), ref, real)
            done += 1
            if done == 5:
                break
    assert done == 5
    print("shrink ok, e.g.:\n" + R.to_source(small))


def main():
    check_names()
    check_shrink()
    per = int(sys.argv[1]) if len(sys.argv) > 1 else 4200
    workers = int(sys.argv[2]) if len(sys.argv) > 2 else max(1, (os.cpu_count() or 2))
    jobs = [(p, s) for s in range(per) for p in R.PROFILES]
    stats = {p: {"n": 0, "mismatch": 0, "nontrivial": 0, "value": 0, "error": 0, "nondet": 0}
             for p in R.PROFILES}
    bad = []
    t0 = time.time()
    with mp.Pool(workers) as pool:
        for i, r in enumerate(pool.imap_unordered(one, jobs, chunksize=20), 1):
            profile, seed, okay, det, nt, outcome, detail = r
            st = stats[profile]
            st["n"] += 1
            st["nontrivial"] += 1 if nt else 0
            st[outcome] = st.get(outcome, 0) + 1
            if not det:
                st["nondet"] += 1
            if not okay:
                st["mismatch"] += 1
                bad.append((profile, seed, detail))
            if i % 1000 == 0:
                print("%6d/%d  mismatches so far %d  (%.0fs)" % (i, len(jobs), len(bad),
                                                               time.time() - t0), flush=True)
    total = sum(s["n"] for s in stats.values())
    for p in R.PROFILES:
        print(p, stats[p])
    print("total programs:", total, " mismatches:", len(bad),
          " non-deterministic:", sum(s["nondet"] for s in stats.values()))
    bad.sort(key=lambda b: len(b[2][0]))
    with open(os.path.join(os.path.dirname(os.path.abspath(__file__)), "mismatches.json"), "w") as f:
        json.dump([{"profile": p, "seed": s, "src": d[0], "ref": d[1], "real": d[2], "ir": d[3]}
                   for p, s, d in bad[:200]], f, indent=1)
    for p, s, d in bad[:5]:
        print("=" * 70)
        print("MISMATCH", p, s)
        print(d[0])
        print("ref :", d[1])
        print("real:", d[2])
    return 1 if bad or any(s["nondet"] for s in stats.values()) else 0


if __name__ == "__main__":
    sys.exit(main())
