import CklVerif.Model.Eval

/-!
  C13 helper library: the predicate "this computation never ends in a host failure"
  (`NoHost`), its closure under the monad operations of `EvalM`, and the fact for
  every non-recursive helper of the evaluator.
-/
namespace Ckl

/-! ### `EvalM` is a lawful monad -/

theorem EvalM.bind_apply {α β} (m : EvalM α) (f : α → EvalM β) (s : State) :
    (m >>= f) s = match m s with
      | .ok a s' => f a s'
      | .err v msg p t s' => .err v msg p t s'
      | .fail k s' => .fail k s' := rfl

theorem EvalM.pure_apply {α} (a : α) (s : State) : (pure a : EvalM α) s = .ok a s := rfl

instance : LawfulMonad EvalM := LawfulMonad.mk'
  (id_map := by
    intro α x; funext s
    show EvalM.bind' x (fun a => EvalM.pure' (id a)) s = x s
    unfold EvalM.bind' EvalM.pure'
    cases x s <;> rfl)
  (pure_bind := by intro α β x f; rfl)
  (bind_assoc := by
    intro α β γ x f g; funext s
    show EvalM.bind' (EvalM.bind' x f) g s = EvalM.bind' x (fun a => EvalM.bind' (f a) g) s
    unfold EvalM.bind'
    cases x s <;> rfl)

/-! ### outcomes that are not host failures -/

/-- the outcome is not a host failure -/
def Out.NH {α} (o : Out α) : Prop := ∀ k s', o ≠ .fail (.host k) s'

@[simp] theorem Out.NH_ok {α} (a : α) (s : State) : (Out.ok a s).NH := by intro k s' h; cases h
@[simp] theorem Out.NH_err {α} (v m p t) (s : State) : (Out.err v m p t s : Out α).NH := by
  intro k s' h; cases h
@[simp] theorem Out.NH_oof {α} (s : State) : (Out.fail .oof s : Out α).NH := by intro k s' h; cases h
@[simp] theorem Out.NH_unsupported {α} (w) (s : State) : (Out.fail (.unsupported w) s : Out α).NH := by
  intro k s' h; cases h
@[simp] theorem Out.NH_syn {α} (e) (s : State) : (Out.fail (.syn e) s : Out α).NH := by
  intro k s' h; cases h
@[simp] theorem Out.NH_host {α} (k) (s : State) : ¬ (Out.fail (.host k) s : Out α).NH := by
  intro h; exact h k s rfl

/-- a failure that is not a host failure keeps `NH` whatever the result type -/
theorem Out.NH_fail_of {α β} {f : Fail} {s : State} (h : (Out.fail f s : Out α).NH) :
    (Out.fail f s : Out β).NH := by
  cases f with
  | host k => exact absurd h (by simp)
  | _ => simp

/-- the computation never ends in a host failure -/
structure NoHost {α} (m : EvalM α) : Prop where
  nh : ∀ s, (m s).NH

theorem NoHost.ne {α} {m : EvalM α} (h : NoHost m) (s : State) (k : String) (s' : State) :
    m s ≠ .fail (.host k) s' := h.nh s k s'

theorem noHost_iff {α} (m : EvalM α) : NoHost m ↔ ∀ s k s', m s ≠ .fail (.host k) s' :=
  ⟨fun h => h.ne, fun h => ⟨h⟩⟩

namespace NoHost

theorem pure {α} (a : α) : NoHost (Pure.pure a : EvalM α) := ⟨fun s => Out.NH_ok a s⟩

theorem bind {α β} {m : EvalM α} {f : α → EvalM β} (hm : NoHost m) (hf : ∀ a, NoHost (f a)) :
    NoHost (m >>= f) := by
  constructor
  intro s
  rw [EvalM.bind_apply]
  have := hm.nh s
  cases h : m s with
  | ok a s1 => exact (hf a).nh s1
  | err v msg p t s1 => simp
  | fail k s1 => rw [h] at this; exact Out.NH_fail_of this

theorem map {α β} {m : EvalM α} (g : α → β) (hm : NoHost m) : NoHost (g <$> m) := by
  rw [map_eq_pure_bind]; exact bind hm (fun a => pure _)

theorem seqRight {α β} {m : EvalM α} {n : EvalM β} (hm : NoHost m) (hn : NoHost n) :
    NoHost (m *> n) := by
  rw [seqRight_eq_bind]; exact bind hm (fun _ => hn)

theorem getS : NoHost getS := ⟨fun s => Out.NH_ok s s⟩
theorem setS (s : State) : NoHost (setS s) := ⟨fun _ => Out.NH_ok () s⟩
theorem modifyS (f : State → State) : NoHost (modifyS f) := ⟨fun s => Out.NH_ok () (f s)⟩
theorem throwV {α} (v : RVal) (msg : String) (pos : Pos) : NoHost (throwV v msg pos : EvalM α) :=
  ⟨fun s => Out.NH_err v msg pos [] s⟩
theorem throwE {α} (msg : String) (pos : Pos) : NoHost (throwE msg pos : EvalM α) :=
  ⟨fun s => Out.NH_err _ msg pos [] s⟩
theorem unsupported {α} (w : String) : NoHost (unsupported w : EvalM α) := ⟨fun s => Out.NH_unsupported w s⟩
theorem failOof {α} : NoHost (failM .oof : EvalM α) := ⟨fun s => Out.NH_oof s⟩
theorem failSyn {α} (e) : NoHost (failM (.syn e) : EvalM α) := ⟨fun s => Out.NH_syn e s⟩
theorem allocM (c : Cell) : NoHost (allocM c) := ⟨fun _ => Out.NH_ok _ _⟩
theorem newList (xs : List RVal) : NoHost (newList xs) := allocM _
theorem cellOf (v : RVal) : NoHost (cellOf v) := by
  constructor; intro s; unfold Ckl.cellOf; split <;> simp
theorem typeOf (v : RVal) : NoHost (typeOf v) := ⟨fun _ => Out.NH_ok _ _⟩

theorem mapM {α β} (f : α → EvalM β) (hf : ∀ a, NoHost (f a)) (xs : List α) : NoHost (xs.mapM f) := by
  induction xs with
  | nil => rw [List.mapM_nil]; exact pure _
  | cons x xs ih =>
    rw [List.mapM_cons]
    exact bind (hf x) (fun _ => bind ih (fun _ => pure _))

end NoHost

/-- one decomposition step for goals `NoHost (do …)` -/
macro "nohost_step" : tactic => `(tactic| first
  | exact NoHost.pure _
  | exact NoHost.getS
  | exact NoHost.setS _
  | exact NoHost.modifyS _
  | exact NoHost.throwV _ _ _
  | exact NoHost.throwE _ _
  | exact NoHost.unsupported _
  | exact NoHost.failOof
  | exact NoHost.failSyn _
  | exact NoHost.allocM _
  | exact NoHost.newList _
  | exact NoHost.cellOf _
  | exact NoHost.typeOf _
  | apply_assumption (exfalso := false) (symm := false)
  | apply NoHost.bind
  | (apply NoHost.mapM; intro _)
  | intro _
  | dsimp only
  | split)

macro "nohost" : tactic => `(tactic| repeat' nohost_step)

/-! ### non-recursive helpers -/

namespace NoHost

theorem argGet (args : List (String × RVal)) (name : String) (pos : Pos) : NoHost (argGet args name pos) := by
  unfold Ckl.argGet; nohost

theorem getIndex (idx : RVal) (pos : Pos) : NoHost (getIndex idx pos) := by
  unfold Ckl.getIndex; nohost

theorem asStringM (v : RVal) (pos : Pos) : NoHost (asStringM v pos) := by
  unfold Ckl.asStringM; nohost

theorem bindNamed (sp : ArgSpec) (pos : Pos) (ns : List (Option String)) (vs : List RVal)
    (args : List (String × RVal)) : NoHost (bindNamed sp pos ns vs args) := by
  induction ns generalizing vs args with
  | nil => unfold Ckl.bindNamed; exact pure _
  | cons n ns ih =>
    cases vs with
    | nil => unfold Ckl.bindNamed; exact pure _
    | cons v vs =>
      unfold Ckl.bindNamed
      split
      · split
        · exact ih _ _
        · exact throwE _ _
      · exact ih _ _

theorem bindPositional (sp : ArgSpec) (pos : Pos) (ns : List (Option String)) (vs : List RVal)
    (kw : Bool) (args : List (String × RVal)) (rest : List RVal) :
    NoHost (bindPositional sp pos ns vs kw args rest) := by
  induction ns generalizing vs kw args rest with
  | nil => unfold Ckl.bindPositional; exact pure _
  | cons n ns ih =>
    cases vs with
    | nil => unfold Ckl.bindPositional; exact pure _
    | cons v vs =>
      unfold Ckl.bindPositional
      split
      · split
        · exact throwE _ _
        · split
          · split
            · exact throwE _ _
            · exact ih _ _ _ _
          · exact ih _ _ _ _
      · split
        · exact ih _ _ _ _
        · exact throwE _ _

theorem setArgs (paramNames : List String) (names : List (Option String)) (values : List RVal) (pos : Pos) :
    NoHost (setArgs paramNames names values pos) := by
  unfold Ckl.setArgs
  have h1 := bindNamed (addArgs paramNames) pos names values []
  have h2 := fun a => bindPositional (addArgs paramNames) pos names values false a []
  nohost

theorem addSet (items : List RVal) : NoHost (addSet items) := by
  unfold Ckl.addSet; nohost

theorem destructure (v : RVal) (count : Nat) (pos : Pos) : NoHost (destructure v count pos) := by
  unfold Ckl.destructure; nohost

theorem bindLoopVars (env : EnvId) (ids : List String) (v : RVal) (pos : Pos) :
    NoHost (bindLoopVars env ids v pos) := by
  unfold Ckl.bindLoopVars
  have := fun n => destructure v n pos
  nohost

theorem removeVars (env : EnvId) (ids : List String) : NoHost (removeVars env ids) := modifyS _

theorem spreadValues (v : RVal) (pos : Pos) : NoHost (spreadValues v pos) := by
  unfold Ckl.spreadValues; nohost

theorem collectionValues (v : RVal) (what : Option String) (pos : Pos) :
    NoHost (collectionValues v what pos) := by
  unfold Ckl.collectionValues; nohost

theorem renameClosure (v : RVal) (name : String) : NoHost (renameClosure v name) := by
  unfold Ckl.renameClosure; nohost

theorem assignAll (env : EnvId) (xs : List String) (items : List RVal) (i : Nat) (last : RVal) (pos : Pos) :
    NoHost (assignAll env xs items i last pos) := by
  induction xs generalizing i last with
  | nil => unfold Ckl.assignAll; exact pure _
  | cons x xs ih =>
    unfold Ckl.assignAll
    have := fun i l => ih i l
    nohost

theorem defAll (env : EnvId) (xs : List String) (items : List RVal) (i : Nat) (last : RVal) :
    NoHost (defAll env xs items i last) := by
  induction xs generalizing i last with
  | nil => unfold Ckl.defAll; exact pure _
  | cons x xs ih =>
    unfold Ckl.defAll
    have := fun i l => ih i l
    have := fun v n => renameClosure v n
    nohost

theorem comprResult (kind : ComprKind) (out : List (RVal × RVal)) : NoHost (comprResult kind out) := by
  unfold Ckl.comprResult
  have := fun xs => addSet xs
  nohost

theorem ofFun {α} {f : State → Out α} (h : ∀ s, (f s).NH) : NoHost (f : EvalM α) := ⟨h⟩

end NoHost

/-- the library facts as one tactic -/
macro "nohost_lib" : tactic => `(tactic| first
  | exact NoHost.argGet _ _ _
  | exact NoHost.getIndex _ _
  | exact NoHost.asStringM _ _
  | exact NoHost.setArgs _ _ _ _
  | exact NoHost.addSet _
  | exact NoHost.destructure _ _ _
  | exact NoHost.bindLoopVars _ _ _ _
  | exact NoHost.removeVars _ _
  | exact NoHost.spreadValues _ _
  | exact NoHost.collectionValues _ _ _
  | exact NoHost.renameClosure _ _
  | exact NoHost.assignAll _ _ _ _ _ _
  | exact NoHost.defAll _ _ _ _ _
  | exact NoHost.comprResult _ _)

/-- decompose a goal `NoHost (do …)` completely, using the helper library and the hypotheses -/
macro "nohost!" : tactic => `(tactic| repeat' (first | nohost_lib | nohost_step))

end Ckl
