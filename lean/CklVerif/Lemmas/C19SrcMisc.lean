import CklVerif.Lemmas.C19SrcLoop

/-! C19Src — `is_positive` on decimals, core.ckl `non_zero` (through the uninterpreted built-in `int`), small facts used by the
    property theorems -/
namespace Ckl.C19Src
open Ckl Ckl.C03 Ckl.Gen.LibSrc
variable (ld : Loader)

theorem postCall_ok_of_not_ctl {v : RVal} (h : isCtl v = false) (s : State) : postCall (.ok v s) = .ok v s := by
  cases v <;> simp_all [postCall, isCtl, RVal.isReturn, RVal.isBreak, RVal.isContinue]

theorem cmpGt_dec_int (m : Int) (e : Nat) (b : Int) (s : State) :
    cmpGt (.dec m e) (.int b) s = .ok (!numLt m e b 0 && !numEq m e b 0) s := by
  simp [cmpGt, EvalM.bind_apply, getS, rveq, rveqF, EvalM.map_apply, cmpLt_dec_int]

/-- the value of `is_positive`: `obj > 0` as `functools.total_ordering` derives it (`not (obj < 0) and obj != 0`) -/
def isPositiveVal : RVal → Bool
  | .int n => decide (0 < n)
  | .dec m e => !numLt m e 0 0 && !numEq m e 0 0
  | _ => false

theorem is_positive_calls_all {s : State} {M nats srcs fn m} (h : LibEnv s M nats srcs) (hn : ∀ x ∈ mathNats, x ∈ nats)
    (hs : ∀ p ∈ mathSrcs, p ∈ srcs) (hm : M m) (hsrc : IsSrc s fn predicate_is_positive m) (v : RVal) :
    ∃ s', Ext s s' ∧ ∀ env pos, Calls ld 20 fn [("obj", v)] env pos s (.ok (.bool (isPositiveVal v)) s') := by
  have := calls_of_body1 ld (src := predicate_is_positive)
    (r := fun s' => .ok (.bool (v.isNumerical && isPositiveVal v)) s') rfl rfl rfl (by decide) h hm hsrc v
    (fun _ ctx _ => predicate_body ld v "greater" isPositiveVal ctx hn hs (by decide) (by decide) rfl (by
      intro hnum d pos s
      refine ⟨_, pure_greater _ _ _ _, ?_⟩
      cases v <;> simp_all [RVal.isNumerical, RVal.isInt, RVal.isDecimal, isPositiveVal, EvalM.bind_apply, cmpGt_int,
        cmpGt_dec_int, EvalM.pure_apply, boolV]))
  have hv : (v.isNumerical && isPositiveVal v) = isPositiveVal v := by
    cases v <;> simp [RVal.isNumerical, RVal.isInt, RVal.isDecimal, isPositiveVal]
  simpa [postCall, hv] using this

/-! ### core.ckl `non_zero`: `if int(a) == 0 then b else a` — `int` is NOT one of the modelled built-ins (`callPure "int" = none`), its
    meaning is the loader's `nativeSem`; the theorem is therefore stated under a hypothesis on that interpretation -/

/-- call of a built-in the evaluator model leaves to the loader's interpretation `nativeSem` -/
theorem Ev.callNativeSem {k env fname p names args pos s nm i ns vs s1 ps bound s2}
    (hfn : s.lookup env fname = some (.native nm i))
    (hargs : EvArgs ld k env names args pos s (.ok (ns, vs) s1))
    (hps : nativeArgNames nm = some ps)
    (hset : setArgs ps ns vs pos s1 = .ok bound s2)
    (hpure : callPure nm bound (div0Value s2 env) pos = none) (h1 : nm ≠ "sorted") (h2 : nm ≠ "bind_native") :
    Ev ld (k+2) env (.call (.ident fname p) names args pos) s (wrapCall (.native nm i) pos (ld.nativeSem nm bound s2)) := by
  intro f hf; obtain ⟨g, rfl, hg⟩ := succ_of_lt hf
  obtain ⟨g1, rfl, hg1⟩ := succ_of_lt (show k + 1 < g by omega)
  obtain ⟨g2, rfl, hg2⟩ := succ_of_lt (show 0 < g1 by omega)
  rw [eval, EvalM.bind_apply, Ev.ident ld hfn (k := 0) _ (by omega)]
  simp only [RVal.isFunc, Bool.not_true, Bool.false_eq_true, if_false]
  rw [invoke_native ld (hargs _ (by omega)) hps hset]
  congr 1
  rw [callFn, EvalM.bind_apply]; simp only [getS, hpure, h1, h2, if_false]

theorem non_zero_body {s : State} {M nats srcs c m} (n : Int) (b : RVal)
    (ctx : Ctx s M nats srcs c m [("a", .int n), ("b", b)]) (hn : ∀ x ∈ ["int", "equals"], x ∈ nats)
    (hint : ∀ s, ld.nativeSem "int" [("obj", .int n)] s = .ok (.int n) s) :
    Ev ld 9 c (lamBody core_non_zero) s (.ok (if n = 0 then b else .int n) s) := by
  obtain ⟨i, hl⟩ := ctx.nat (x := "equals") (hn _ (by decide)) (by rfl)
  obtain ⟨j, hli⟩ := ctx.nat (x := "int") (hn _ (by decide)) (by rfl)
  have A : ∀ p1 p2 p3 p4 p5 p6, Ev ld 7 c (.call (.ident "equals" p1) [some "a", some "b"]
      [.call (.ident "int" p2) [none] [.ident "a" p3] p4, .lit (.int 0) p5] p6) s (.ok (.bool (decide (n = 0))) s) := by
    intro p1 p2 p3 p4 p5 p6
    have I := Ev.callNativeSem ld (k := 1) (p := p2) (pos := p4) hli
      (EvArgs.cons ld (n := none) (by trivial) (Ev.ident ld (p := p3) (ctx.var (x := "a") (by rfl))) (EvArgs.nil ld))
      (by rfl) (setArgs_pos1 (addArgs_plain' _ (by decide))) (by rfl) (by decide) (by decide)
    rw [hint, wrapCall_ok] at I
    have A := Ev.natAB ld (k := 3) (p := p1) (pos := p6) hl (by rfl) (by trivial) (by trivial)
      I (Ev.litInt ld (p := p5) (n := 0)) (pure_equals _ _ _ _) rfl
    rwa [wrapCall_ok, rveq_int] at A
  by_cases h0 : n = 0
  · simp only [h0, if_true]
    have A' := A; simp only [h0, decide_true] at A'
    subst h0
    exact Ev.mono ld (Ev.ite ld (EvIf.true ld (A' _ _ _ _ _ _) (Ev.ident ld (ctx.var (x := "b") (by rfl))))) (by decide)
  · simp only [h0, if_false]
    have A' := A; simp only [h0, decide_false] at A'
    exact Ev.mono ld (Ev.ite ld (EvIf.false ld (A' _ _ _ _ _ _) (EvIf.else ld (Ev.ident ld (ctx.var (x := "a") (by rfl))))))
      (by decide)

theorem non_zero_calls_int {s : State} {M nats srcs fn m} (h : LibEnv s M nats srcs) (hn : ∀ x ∈ ["int", "equals"], x ∈ nats)
    (hm : M m) (hsrc : IsSrc s fn core_non_zero m) (n : Int) (b : RVal)
    (hint : ∀ s, ld.nativeSem "int" [("obj", .int n)] s = .ok (.int n) s) :
    ∃ s', Ext s s' ∧ ∀ env pos, Calls ld 10 fn [("a", .int n), ("b", b)] env pos s
      (postCall (.ok (if n = 0 then b else .int n) s')) :=
  calls_of_body2 ld (src := core_non_zero) (r := fun s' => .ok (if n = 0 then b else .int n) s') rfl rfl rfl
    (by decide) (by decide) h hm hsrc (.int n) b (fun s0 ctx _ => ⟨s0, Ext.refl _, non_zero_body ld n b ctx hn hint⟩)

end Ckl.C19Src
