/-
  C06Eval — generic list facts for the bridge between heap values and tree values:
  positionwise comparison `all2`, transfer of `any` / `all` / `zip` comparisons along a
  `Forall₂` relation, the pigeonhole lemma for partners modulo an equivalence, and
  "two duplicate-free lists with the same classes sort to positionwise equivalent lists".
-/
import CklVerif.Lemmas.C12Heap
namespace Ckl.C06E
open Ckl

variable {α : Type} {β : Type}

/-- positionwise comparison of two lists (the shape of `veqL` / `veqM`) -/
def all2 (E : α → α → Bool) : List α → List α → Bool
  | [], [] => true
  | x :: xs, y :: ys => E x y && all2 E xs ys
  | _, _ => false

theorem veqL_eq_all2 : ∀ xs ys : List Val, veqL xs ys = all2 veq xs ys
  | [], [] => by simp [veqL, all2]
  | [], _ :: _ => by simp [veqL, all2]
  | _ :: _, [] => by simp [veqL, all2]
  | x :: xs, y :: ys => by simp [veqL, all2, veqL_eq_all2 xs ys]

/-- entry comparison of `veqM` -/
def veqE (p q : Val × Val) : Bool := veq p.1 q.1 && veq p.2 q.2

theorem veqM_eq_all2 : ∀ xs ys : List (Val × Val), veqM xs ys = all2 veqE xs ys
  | [], [] => by simp [veqM, all2]
  | [], _ :: _ => by simp [veqM, all2]
  | _ :: _, [] => by simp [veqM, all2]
  | (k, v) :: xs, (k', v') :: ys => by simp [veqM, all2, veqE, veqM_eq_all2 xs ys]

theorem all2_length {E : α → α → Bool} : ∀ {xs ys : List α}, all2 E xs ys = true → xs.length = ys.length
  | [], [], _ => rfl
  | [], _ :: _, h => by simp [all2] at h
  | _ :: _, [], h => by simp [all2] at h
  | x :: xs, y :: ys, h => by
    simp only [all2, Bool.and_eq_true] at h
    simp [all2_length h.2]

theorem all2_mem_left {E : α → α → Bool} : ∀ {xs ys : List α}, all2 E xs ys = true →
    ∀ x ∈ xs, ∃ y ∈ ys, E x y = true
  | [], _, _, x, hx => by simp at hx
  | _ :: _, [], h, _, _ => by simp [all2] at h
  | x :: xs, y :: ys, h, z, hz => by
    simp only [all2, Bool.and_eq_true] at h
    rcases List.mem_cons.mp hz with rfl | hz
    · exact ⟨y, by simp, h.1⟩
    · obtain ⟨w, hw, he⟩ := all2_mem_left h.2 z hz
      exact ⟨w, List.mem_cons_of_mem _ hw, he⟩

/-! ### `mapM` into `Option` as a `Forall₂` relation -/

theorem mapM_forall2 {f : α → Option β} : ∀ {xs : List α} {vs : List β},
    xs.mapM f = some vs → List.Forall₂ (fun x v => f x = some v) xs vs
  | [], vs, h => by
    simp at h; subst h; exact List.Forall₂.nil
  | x :: xs, vs, h => by
    rw [List.mapM_cons] at h
    cases hx : f x with
    | none => rw [hx] at h; cases h
    | some v =>
      rw [hx] at h
      cases hxs : xs.mapM f with
      | none => rw [hxs] at h; cases h
      | some ws =>
        rw [hxs] at h
        have : vs = v :: ws := by simpa using h.symm
        subst this
        exact List.Forall₂.cons hx (mapM_forall2 hxs)

theorem forall2_mapM {f : α → Option β} {xs : List α} {vs : List β}
    (h : List.Forall₂ (fun x v => f x = some v) xs vs) : xs.mapM f = some vs := by
  induction h with
  | nil => rfl
  | cons hx _ ih => rw [List.mapM_cons, hx, ih]; rfl

/-! ### transfer of comparisons along a relation -/

section transfer
variable {R : α → β → Prop} {r : α → α → Bool} {E : β → β → Bool}

theorem any_transfer (H : ∀ x y a b, R x a → R y b → r x y = E a b) {x : α} {a : β} (hx : R x a)
    {ys : List α} {B : List β} (hB : List.Forall₂ R ys B) : ys.any (r x) = B.any (E a) := by
  induction hB with
  | nil => rfl
  | cons hy _ ih => simp only [List.any_cons, ih, H _ _ _ _ hx hy]

theorem all_any_transfer (H : ∀ x y a b, R x a → R y b → r x y = E a b)
    {xs : List α} {A : List β} (hA : List.Forall₂ R xs A)
    {ys : List α} {B : List β} (hB : List.Forall₂ R ys B) :
    xs.all (fun x => ys.any (r x)) = A.all (fun a => B.any (E a)) := by
  induction hA with
  | nil => rfl
  | cons hx _ ih => simp only [List.all_cons, ih, any_transfer H hx hB]

theorem zip_all_transfer (H : ∀ x y a b, R x a → R y b → r x y = E a b) :
    ∀ {xs : List α} {A : List β}, List.Forall₂ R xs A →
    ∀ {ys : List α} {B : List β}, List.Forall₂ R ys B →
    (xs.length == ys.length && (xs.zip ys).all (fun p => r p.1 p.2)) = all2 E A B
  | _, _, .nil, _, _, .nil => by simp [all2]
  | _, _, .nil, _, _, .cons _ _ => by simp [all2]
  | _, _, .cons _ _, _, _, .nil => by simp [all2]
  | _, _, .cons hx hA, _, _, .cons hy hB => by
    have ih := zip_all_transfer H hA hB
    simp only [List.length_cons, List.zip_cons_cons, List.all_cons, all2, H _ _ _ _ hx hy, ← ih]
    have : ∀ n m : Nat, (n + 1 == m + 1) = (n == m) := by intro n m; simp
    rw [this, Bool.and_left_comm]

end transfer

/-! ### pigeonhole: partners modulo an equivalence -/

section pigeon
variable {K : α → α → Bool}

theorem partners_back (ksymm : ∀ a b, K a b = true → K b a = true)
    (ktrans : ∀ a b c, K a b = true → K b c = true → K a c = true) :
    ∀ (A B : List α), A.Pairwise (fun x y => K x y = false) →
      (∀ a ∈ A, ∃ b ∈ B, K a b = true) → B.length ≤ A.length →
      ∀ b ∈ B, ∃ a ∈ A, K a b = true := by
  intro A
  induction A with
  | nil =>
    intro B _ _ hlen b hb
    have : B = [] := List.length_eq_zero_iff.mp (by simpa using hlen)
    subst this; simp at hb
  | cons a as ih =>
    intro B hd hp hlen b hb
    rw [List.pairwise_cons] at hd
    obtain ⟨b0, hb0, hk0⟩ := hp a (by simp)
    obtain ⟨l1, l2, rfl⟩ := List.append_of_mem hb0
    have hp' : ∀ a' ∈ as, ∃ b' ∈ l1 ++ l2, K a' b' = true := by
      intro a' ha'
      obtain ⟨b', hb', hk'⟩ := hp a' (List.mem_cons_of_mem _ ha')
      have hne : b' ≠ b0 := by
        rintro rfl
        have := ktrans _ _ _ hk0 (ksymm _ _ hk')
        rw [hd.1 a' ha'] at this; cases this
      refine ⟨b', ?_, hk'⟩
      simp only [List.mem_append, List.mem_cons] at hb' ⊢
      rcases hb' with h | h | h
      · exact Or.inl h
      · exact absurd h hne
      · exact Or.inr h
    have hlen' : (l1 ++ l2).length ≤ as.length := by
      simp only [List.length_append, List.length_cons] at hlen ⊢; omega
    simp only [List.mem_append, List.mem_cons] at hb
    rcases hb with h | rfl | h
    · obtain ⟨a', ha', hk⟩ := ih (l1 ++ l2) hd.2 hp' hlen' b (by simp [h])
      exact ⟨a', List.mem_cons_of_mem _ ha', hk⟩
    · exact ⟨a, by simp, hk0⟩
    · obtain ⟨a', ha', hk⟩ := ih (l1 ++ l2) hd.2 hp' hlen' b (by simp [h])
      exact ⟨a', List.mem_cons_of_mem _ ha', hk⟩

end pigeon

/-! ### sorting two lists with the same classes -/

/-- the order `lt` and the equivalence `K` fit together on the elements satisfying `U`:
    `lt` is a strict weak order there and its incomparability classes are the `K` classes -/
structure OrdCompat (U : α → Prop) (lt K : α → α → Bool) : Prop where
  weak : StrictWeakOn U lt
  inc : ∀ a b, U a → U b → lt a b = false → lt b a = false → K a b = true
  comp : ∀ a b, U a → U b → K a b = true → lt a b = false
  ksymm : ∀ a b, K a b = true → K b a = true
  ktrans : ∀ a b c, K a b = true → K b c = true → K a c = true

theorem OrdCompat.comap {U : β → Prop} {lt K : β → β → Bool} (h : OrdCompat U lt K) (g : α → β) :
    OrdCompat (fun a => U (g a)) (fun a b => lt (g a) (g b)) (fun a b => K (g a) (g b)) where
  weak := h.weak.comap g
  inc a b := h.inc (g a) (g b)
  comp a b := h.comp (g a) (g b)
  ksymm a b := h.ksymm (g a) (g b)
  ktrans a b c := h.ktrans (g a) (g b) (g c)

section sorting
variable {U : α → Prop} {lt K E : α → α → Bool}

theorem sorted_all2_K (h : OrdCompat U lt K) :
    ∀ (A B : List α), (∀ a ∈ A, U a) → (∀ b ∈ B, U b) → SortedBy lt A → SortedBy lt B →
      A.Pairwise (fun x y => K x y = false) → B.Pairwise (fun x y => K x y = false) →
      (∀ a ∈ A, ∃ b ∈ B, K a b = true) → (∀ b ∈ B, ∃ a ∈ A, K a b = true) →
      all2 K A B = true := by
  intro A
  induction A with
  | nil =>
    intro B _ _ _ _ _ _ _ hBA
    cases B with
    | nil => rfl
    | cons b bs => obtain ⟨a, ha, _⟩ := hBA b (by simp); simp at ha
  | cons a as ih =>
    intro B hUA hUB hsA hsB hdA hdB hAB hBA
    cases B with
    | nil => obtain ⟨b, hb, _⟩ := hAB a (by simp); simp at hb
    | cons b bs =>
      have ua : U a := hUA a (by simp)
      have ub : U b := hUB b (by simp)
      have hsA' := List.pairwise_cons.mp hsA
      have hsB' := List.pairwise_cons.mp hsB
      have hdA' := List.pairwise_cons.mp hdA
      have hdB' := List.pairwise_cons.mp hdB
      have hab : K a b = true := by
        cases hk : K a b with
        | true => rfl
        | false =>
          exfalso
          cases h1 : lt a b with
          | false =>
            cases h2 : lt b a with
            | false => rw [h.inc a b ua ub h1 h2] at hk; cases hk
            | true =>
              obtain ⟨a1, ha1, hk1⟩ := hBA b (by simp)
              rcases List.mem_cons.mp ha1 with rfl | ha1
              · rw [hk] at hk1; cases hk1
              · have ua1 : U a1 := hUA a1 (List.mem_cons_of_mem _ ha1)
                have e1 : lt a1 b = false := h.comp a1 b ua1 ub hk1
                have e2 : lt b a1 = false := h.comp b a1 ub ua1 (h.ksymm _ _ hk1)
                have e3 : lt a1 a = false := hsA'.1 a1 ha1
                cases e4 : lt a a1 with
                | true =>
                  have := h.weak.trans b a a1 ub ua ua1 h2 e4
                  rw [e2] at this; cases this
                | false =>
                  have := (h.weak.incomp_trans b a1 a ub ua1 ua e2 e1 e3 e4).1
                  rw [h2] at this; cases this
          | true =>
            obtain ⟨b1, hb1, hk1⟩ := hAB a (by simp)
            rcases List.mem_cons.mp hb1 with rfl | hb1
            · rw [hk] at hk1; cases hk1
            · have ub1 : U b1 := hUB b1 (List.mem_cons_of_mem _ hb1)
              have e1 : lt a b1 = false := h.comp a b1 ua ub1 hk1
              have e2 : lt b1 a = false := h.comp b1 a ub1 ua (h.ksymm _ _ hk1)
              have e3 : lt b1 b = false := hsB'.1 b1 hb1
              cases e4 : lt b b1 with
              | true =>
                have := h.weak.trans a b b1 ua ub ub1 h1 e4
                rw [e1] at this; cases this
              | false =>
                have := (h.weak.incomp_trans a b1 b ua ub1 ub e1 e2 e3 e4).1
                rw [h1] at this; cases this
      simp only [all2, hab, Bool.true_and]
      apply ih bs (fun x hx => hUA x (List.mem_cons_of_mem _ hx))
        (fun x hx => hUB x (List.mem_cons_of_mem _ hx)) hsA'.2 hsB'.2 hdA'.2 hdB'.2
      · intro a' ha'
        obtain ⟨b', hb', hk'⟩ := hAB a' (List.mem_cons_of_mem _ ha')
        rcases List.mem_cons.mp hb' with rfl | hb'
        · have := h.ktrans _ _ _ hab (h.ksymm _ _ hk')
          rw [hdA'.1 a' ha'] at this; cases this
        · exact ⟨b', hb', hk'⟩
      · intro b' hb'
        obtain ⟨a', ha', hk'⟩ := hBA b' (List.mem_cons_of_mem _ hb')
        rcases List.mem_cons.mp ha' with rfl | ha'
        · have := h.ktrans _ _ _ (h.ksymm _ _ hab) hk'
          rw [hdB'.1 b' hb'] at this; cases this
        · exact ⟨a', ha', hk'⟩

theorem all2_K_to_E (ek : ∀ a b, E a b = true → K a b = true)
    (ksymm : ∀ a b, K a b = true → K b a = true)
    (ktrans : ∀ a b c, K a b = true → K b c = true → K a c = true) :
    ∀ (A B : List α), all2 K A B = true → B.Pairwise (fun x y => K x y = false) →
      (∀ a ∈ A, ∃ b ∈ B, E a b = true) → all2 E A B = true := by
  intro A
  induction A with
  | nil => intro B h _ _; cases B <;> simp_all [all2]
  | cons a as ih =>
    intro B h hd hp
    cases B with
    | nil => simp [all2] at h
    | cons b bs =>
      simp only [all2, Bool.and_eq_true] at h ⊢
      have hd' := List.pairwise_cons.mp hd
      refine ⟨?_, ih bs h.2 hd'.2 ?_⟩
      · obtain ⟨b', hb', he⟩ := hp a (by simp)
        rcases List.mem_cons.mp hb' with rfl | hb'
        · exact he
        · have := ktrans _ _ _ (ksymm _ _ h.1) (ek _ _ he)
          rw [hd'.1 b' hb'] at this; cases this
      · intro a' ha'
        obtain ⟨b', hb', he⟩ := hp a' (List.mem_cons_of_mem _ ha')
        rcases List.mem_cons.mp hb' with rfl | hb'
        · obtain ⟨b'', hb'', hk''⟩ := all2_mem_left h.2 a' ha'
          have := ktrans _ _ _ (ksymm _ _ (ek _ _ he)) hk''
          rw [hd'.1 b'' hb''] at this; cases this
        · exact ⟨b', hb', he⟩

theorem pairwise_false_perm (ksymm : ∀ a b, K a b = true → K b a = true) {A A' : List α}
    (hp : A.Perm A') (h : A.Pairwise (fun x y => K x y = false)) :
    A'.Pairwise (fun x y => K x y = false) := by
  refine (hp.pairwise_iff ?_).mp h
  intro x y hxy
  cases hyx : K y x with
  | false => rfl
  | true => rw [ksymm _ _ hyx] at hxy; cases hxy

/-- positionwise `E` on the sorted lists implies equal lengths and `E`-partners -/
theorem all2_sort_imp (A B : List α) (h : all2 E (sortBy lt A) (sortBy lt B) = true) :
    A.length = B.length ∧ ∀ a ∈ A, ∃ b ∈ B, E a b = true := by
  refine ⟨?_, ?_⟩
  · have := all2_length h
    rw [(sortBy_perm' lt A).length_eq, (sortBy_perm' lt B).length_eq] at this
    exact this
  · intro a ha
    obtain ⟨b, hb, he⟩ := all2_mem_left h a ((sortBy_perm' lt A).mem_iff.mpr ha)
    exact ⟨b, (sortBy_perm' lt B).mem_iff.mp hb, he⟩

/-- conversely, for duplicate-free lists inside the domain of a compatible order -/
theorem all2_sort_of (h : OrdCompat U lt K) (ek : ∀ a b, E a b = true → K a b = true)
    {A B : List α} (hUA : ∀ a ∈ A, U a) (hUB : ∀ b ∈ B, U b)
    (hdA : A.Pairwise (fun x y => K x y = false)) (hdB : B.Pairwise (fun x y => K x y = false))
    (hlen : A.length = B.length) (hp : ∀ a ∈ A, ∃ b ∈ B, E a b = true) :
    all2 E (sortBy lt A) (sortBy lt B) = true := by
  have pA := sortBy_perm' lt A
  have pB := sortBy_perm' lt B
  have hpK : ∀ a ∈ A, ∃ b ∈ B, K a b = true := fun a ha => by
    obtain ⟨b, hb, he⟩ := hp a ha; exact ⟨b, hb, ek _ _ he⟩
  have hback := partners_back h.ksymm h.ktrans A B hdA hpK (by omega)
  have hK : all2 K (sortBy lt A) (sortBy lt B) = true := by
    apply sorted_all2_K h
    · exact fun a ha => hUA a (pA.mem_iff.mp ha)
    · exact fun b hb => hUB b (pB.mem_iff.mp hb)
    · exact sortBy_sorted' h.weak hUA
    · exact sortBy_sorted' h.weak hUB
    · exact pairwise_false_perm h.ksymm pA.symm hdA
    · exact pairwise_false_perm h.ksymm pB.symm hdB
    · intro a ha
      obtain ⟨b, hb, hk⟩ := hpK a (pA.mem_iff.mp ha)
      exact ⟨b, pB.mem_iff.mpr hb, hk⟩
    · intro b hb
      obtain ⟨a, ha, hk⟩ := hback b (pB.mem_iff.mp hb)
      exact ⟨a, pA.mem_iff.mpr ha, hk⟩
  apply all2_K_to_E ek h.ksymm h.ktrans _ _ hK (pairwise_false_perm h.ksymm pB.symm hdB)
  intro a ha
  obtain ⟨b, hb, he⟩ := hp a (pA.mem_iff.mp ha)
  exact ⟨b, pB.mem_iff.mpr hb, he⟩

end sorting

/-! ### sorting commutes with decoration -/

theorem insertBy_map (lt : β → β → Bool) (g : α → β) (x : α) (l : List α) :
    (insertBy (fun a b => lt (g a) (g b)) x l).map g = insertBy lt (g x) (l.map g) := by
  induction l with
  | nil => rfl
  | cons y ys ih =>
    simp only [insertBy, List.map_cons]
    split
    · rfl
    · simp only [List.map_cons, ih]

theorem sortBy_map (lt : β → β → Bool) (g : α → β) (l : List α) :
    (sortBy (fun a b => lt (g a) (g b)) l).map g = sortBy lt (l.map g) := by
  induction l with
  | nil => rfl
  | cons x xs ih => simp only [sortBy, List.map_cons, insertBy_map, ih]

end Ckl.C06E
