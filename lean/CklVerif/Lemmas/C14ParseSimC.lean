/-
  C14 / C20 (parser half) — simulation lemmas, part C: functions, calls, dereferences
  (`pFn`, `paramsLoop`, `invokeBody`, `argsLoop`, `derefArrow`, `derefBracket`, `postfixLoop`).
-/
import CklVerif.Lemmas.C14ParseHyp
namespace Ckl.C14P
open Ckl Ckl.Parser

local notation "kw" => (some TokType.keyword)
local notation "ip" => (some TokType.interpunction)
local notation "op" => (some TokType.operator)
local notation "idt" => (some TokType.identifier)

set_option linter.unusedSimpArgs false
set_option linter.unusedVariables false

variable {f : Pos → Pos}

theorem sim_pFn {c c' : Ctx} {st st' : St} (pos : Pos) (H : Hyp f (st.toks.length * 16 + 0)) (hc : CRel f c c')
    (hs : SRel f st st') : ERel f (OLt f (NR f)) (pFn c pos st) (pFn c' (f pos) st') := by
  rw [pFn, pFn]
  sbind (expect_rel hs _ _) with s1 h1 s1' h1' hs1
  ebind2 (H.paramsLoop [] hc hs1 rfl (by omega)) with ps ds s2 h2 s2' h2' hs2
  ebind (blockOrExpr_rel H hc hs2 (by omega)) with b s3 h3 s3' h3' hs3
  exact ⟨by simp [NR, mapPos, mapPos_unwrapReturn], hs3⟩

theorem sim_paramsLoop {c c' : Ctx} {st st' : St} {ds ds' : List Node} (ps : List String)
    (H : Hyp f (st.toks.length * 16 + 0)) (hc : CRel f c c') (hs : SRel f st st') (hd : LR f ds ds') :
    ERel f (OLe f (XLR f)) (paramsLoop c st ps ds) (paramsLoop c' st' ps ds') := by
  rw [paramsLoop, paramsLoop]
  subst hd
  mif hs c!")" ip with s1 h1 s1' h1' hs1
  · ebind (next_rel hc hs) with t s1 h1 s1' h1' hs1
    refine ERel.bind (checkRedefineKeyword_rel f t) ?_
    intro _ _ _
    refine ERel.bind (checkExpectedIdentifier_rel f t) ?_
    intro _ _ _
    ebindr (OLe f (NR f)) with dv s2 h2 s2' h2' hs2
    · mif hs1 c!"=" op with s h s' h' hs'
      · exact ⟨rfl, hs1⟩
      · exact ERel_ltLe (H.pExpression hc hs' (by omega))
    simp only [peekn_rel hs2, tokMap_value, tokMap_pos]
    bif hb : (c!"...".isSuffixOf t.value && !s2.peekn 1 c!")" ip)
    · exact mkErr_rel f _ _
    · sbind (sepUnless_rel hs2 _) with s3 h3 s3' h3' hs3
      ebind (H.paramsLoop _ hc hs3 (by simp [LR]) (by omega)) with r s4 h4 s4' h4' hs4
      exact ⟨rfl, hs4⟩
  · exact ⟨rfl, hs1⟩

theorem sim_argsLoop {c c' : Ctx} {st st' : St} {args args' : List Node} (names : List (Option String))
    (H : Hyp f (st.toks.length * 16 + 11)) (hc : CRel f c c') (hs : SRel f st st') (ha : LR f args args') :
    ERel f (OLt f (XLR f)) (argsLoop c st names args) (argsLoop c' st' names args') := by
  rw [argsLoop, argsLoop]
  subst ha
  mif hs c!")" ip with s1 h1 s1' h1' hs1
  · refine ERel.bind (peek_rel hc hs) ?_
    rintro t _ rfl
    simp only [tokMap_type, peekn_rel hs]
    bif hb : (t.type == .identifier && st.peekn 2 c!"=" op)
    · ebind (matchIdentifier_rel hs) with name s1 h1 s1' h1' hs1
      sbind (expect_rel hs1 _ _) with s2 h2 s2' h2' hs2
      ebind (H.pExpression hc hs2 (by omega)) with e s3 h3 s3' h3' hs3
      sbind (sepUnless_rel hs3 _) with s4 h4 s4' h4' hs4
      ebind (H.argsLoop _ hc hs4 (by simp [LR]) (by omega)) with r s5 h5 s5' h5' hs5
      exact ⟨rfl, hs5⟩
    · ebind (H.pExpression hc hs (by omega)) with e s1 h1 s1' h1' hs1
      sbind (sepUnless_rel hs1 _) with s2 h2 s2' h2' hs2
      ebind (H.argsLoop _ hc hs2 (by simp [LR]) (by omega)) with r s3 h3 s3' h3' hs3
      exact ⟨rfl, hs3⟩
  · exact ⟨rfl, hs1⟩

theorem sim_invokeBody {c c' : Ctx} {st st' : St} {node node' : Node} (H : Hyp f (st.toks.length * 16 + 0))
    (hc : CRel f c c') (hs : SRel f st st') (hn : NR f node node') :
    ERel f (OLt f (NR f)) (invokeBody c node st) (invokeBody c' node' st') := by
  rw [invokeBody, invokeBody]
  subst hn
  ebindr (OLt f (NR f)) with fn s1 h1 s1' h1' hs1
  · mif2 hs c!"(" ip c!"fn" kw with sa ha sa' ha' hsa
    · ebind (matchIdentifier_rel hs) with name sa ha sa' ha' hsa
      have hd := derefChain_rel _ sa sa' (.ident (str name) sa.prev) rfl hsa
      simp only [mapPos, ← hsa.prev] at hd
      ebind hd with fn0 sb hb sb' hb' hsb
      exact ⟨rfl, hsb⟩
    · rw [hsa.prev]
      ebind (H.pFn _ hc hsa (by omega)) with fn0 sb hb sb' hb' hsb
      sbind (expect_rel hsb _ _) with sc hc sc' hc' hsc
      exact ⟨rfl, hsc⟩
  rw [hs1.prev]
  sbind (expect_rel hs1 _ _) with s2 h2 s2' h2' hs2
  ebind2 (H.argsLoop _ hc hs2 (by simp [LR]) (by omega)) with names args s3 h3 s3' h3' hs3
  exact ⟨by simp [NR, mapPos], hs3⟩

theorem sim_derefArrow {c c' : Ctx} {st st' : St} {node node' : Node} (H : Hyp f (st.toks.length * 16 + 0))
    (hc : CRel f c c') (hs : SRel f st st') (hn : NR f node node') :
    ERel f (OLt f (NBR f)) (derefArrow c node st) (derefArrow c' node' st') := by
  rw [derefArrow, derefArrow]
  subst hn
  ebind (matchIdentifier_rel hs) with ident s1 h1 s1' h1' hs1
  simp only [hs.prev]
  mif hs1 c!"=" op with s2 h2 s2' h2' hs2
  · mif hs1 c!"(" ip with s2 h2 s2' h2' hs2
    · mtab (matchOpTable_cases hs1 compoundOps) with fn s2 h2 s2' h2' hs2
      · exact ⟨by simp [NBR, mapPos, mapPos_strLit], hs1⟩
      · ebind (H.pExpression hc hs2 (by omega)) with v s3 h3 s3' h3' hs3
        exact ⟨by simp [NBR, mapPos, mapPos_strLit, mapPos_funcCallAB], hs3⟩
    · ebind2 (H.argsLoop [] hc hs2 rfl (by omega)) with names args s3 h3 s3' h3' hs3
      exact ⟨by simp [NBR, mapPos], hs3⟩
  · ebind (H.pExpression hc hs2 (by omega)) with v s3 h3 s3' h3' hs3
    exact ⟨by simp [NBR, mapPos, mapPos_strLit], hs3⟩

theorem sim_derefBracket {c c' : Ctx} {st st' : St} {node node' : Node} (H : Hyp f (st.toks.length * 16 + 11))
    (hc : CRel f c c') (hs : SRel f st st') (hn : NR f node node') :
    ERel f (OLt f (NBR f)) (derefBracket c node st) (derefBracket c' node' st') := by
  rw [derefBracket, derefBracket]
  subst hn
  ebind (H.pExpression hc hs (by omega)) with index s1 h1 s1' h1' hs1
  simp only [hs.prev]
  mif hs1 c!"to" idt with s2 h2 s2' h2' hs2
  · ebindr (OLe f (NR f)) with dv s2 h2 s2' h2' hs2
    · mif hs1 c!"," ip with s h s' h' hs'
      · exact ⟨rfl, hs1⟩
      · exact ERel_ltLe (H.pExpression hc hs' (by omega))
    mif2 hs2 c!"]" ip c!"=" op with s3 h3 s3' h3' hs3
    · mtab (matchBracketCompound_cases hs2) with fn s3 h3 s3' h3' hs3
      · sbind (expect_rel hs2 _ _) with s3 h3 s3' h3' hs3
        exact ⟨by simp [NBR, mapPos], hs3⟩
      · ebind (H.pExpression hc hs3 (by omega)) with v s4 h4 s4' h4' hs4
        exact ⟨by simp [NBR, mapPos, mapPos_funcCallAB], hs4⟩
    · ebind (H.pExpression hc hs3 (by omega)) with v s4 h4 s4' h4' hs4
      exact ⟨by simp [NBR, mapPos], hs4⟩
  · ebindr (OLe f (NR f)) with stop s3 h3 s3' h3' hs3
    · mif hs2 c!"*" op with s h s' h' hs'
      · exact ERel_ltLe (H.pExpression hc hs2 (by omega))
      · exact ⟨rfl, hs'⟩
    sbind (expect_rel hs3 _ _) with s4 h4 s4' h4' hs4
    exact ⟨by simp [NBR, mapPos], hs4⟩

theorem sim_postfixLoop {c c' : Ctx} {st st' : St} {node node' : Node} (ac ad : Bool)
    (H : Hyp f (st.toks.length * 16 + 0)) (hc : CRel f c c') (hs : SRel f st st') (hn : NR f node node') :
    ERel f (OLe f (NR f)) (postfixLoop c ac ad st node) (postfixLoop c' ac ad st' node') := by
  rw [postfixLoop, postfixLoop]
  subst hn
  mif hs c!"!>" op with s1 h1 s1' h1' hs1
  · mifg ac hs c!"(" ip with s1 h1 s1' h1' hs1
    · mifg ad hs c!"->" op with s1 h1 s1' h1' hs1
      · mifg ad hs c!"[" ip with s1 h1 s1' h1' hs1
        · exact ⟨rfl, hs⟩
        · ebind2 (H.derefBracket hc hs1 rfl (by omega)) with n interrupt s2 h2 s2' h2' hs2
          bif hi : interrupt
          · exact ⟨rfl, hs2⟩
          · ebind (H.postfixLoop ac ad hc hs2 rfl (by omega)) with r s3 h3 s3' h3' hs3
            exact ⟨rfl, hs3⟩
      · ebind2 (H.derefArrow hc hs1 rfl (by omega)) with n interrupt s2 h2 s2' h2' hs2
        bif hi : interrupt
        · exact ⟨rfl, hs2⟩
        · ebind (H.postfixLoop ac ad hc hs2 rfl (by omega)) with r s3 h3 s3' h3' hs3
          exact ⟨rfl, hs3⟩
    · ebind2 (H.argsLoop [] hc hs1 rfl (by omega)) with names args s2 h2 s2' h2' hs2
      ebind (H.postfixLoop ac ad hc hs2 (by simp [NR, mapPos, hs1.prev]) (by omega)) with r s3 h3 s3' h3' hs3
      exact ⟨rfl, hs3⟩
  · ebind (H.invokeBody hc hs1 rfl (by omega)) with n s2 h2 s2' h2' hs2
    ebind (H.postfixLoop ac ad hc hs2 rfl (by omega)) with r s3 h3 s3' h3' hs3
    exact ⟨rfl, hs3⟩

end Ckl.C14P
