/-
  Layer 1 — the modelled built-in functions (functions.py `Func*` classes) that
  do not call back into the evaluator.  Each mirrors the dispatch order of its
  `execute` method.  Everything not listed in `nativeArgNames` is an
  uninterpreted native: calling it yields `Fail.unsupported`.
  Decimal arithmetic uses the machine's binary64 operations (`Float`), the same
  operations CPython uses; no theorem depends on it.
-/
import CklVerif.Model.EvalBase
import CklVerif.Model.Date
namespace Ckl

/-! ### binary64 <-> exact dyadic -/

def mkDec (m : Int) (e : Nat) : RVal := let (m', e') := normNum m e; .dec m' e'

def dyadicToFloat (m : Int) (e : Nat) : Float := (Float.ofInt m).scaleB (-(e : Int))

/-- exact value of a finite double; `none` for inf / nan -/
def floatToDyadic (x : Float) : Option (Int × Nat) :=
  let bits := x.toBits.toNat
  let sign : Nat := bits / 2 ^ 63
  let ex : Nat := bits / 2 ^ 52 % 2048
  let frac : Nat := bits % 2 ^ 52
  if ex = 2047 then none
  else
    let (mant, e2) : Nat × Int := if ex = 0 then (frac, -1074) else (frac + 2 ^ 52, (ex : Int) - 1075)
    let m : Int := if sign = 1 then -(mant : Int) else mant
    if e2 ≥ 0 then some (m * 2 ^ e2.toNat, 0) else some (normNum m (-e2).toNat)

def floatResult (x : Float) (pos : Pos) (what : String) : EvalM RVal :=
  match floatToDyadic x with
  | some (m, e) => pure (.dec m e)
  | none => unsupported ("non-finite decimal result of " ++ what ++ " at line " ++ toString pos.line)

/-- `float(int)`: `none` on OverflowError -/
def intToFloat (n : Int) : Option Float :=
  let x := Float.ofInt n
  if x.isInf then none else some x

/-- numeric operand as double (`asDecimal().value`) -/
def numAsFloat : RVal → Option Float
  | .int n => intToFloat n
  | .dec m e => some (dyadicToFloat m e)
  | _ => none

/-! ### argument names (`getArgNames`) -/

def nativeArgNames : String → Option (List String)
  | "add" | "sub" | "mul" | "div" | "mod" | "equals" | "not_equals" | "less" | "less_equals"
  | "greater" | "greater_equals" | "compare" | "zip" | "if_null" | "if_empty" => some ["a", "b"]
  | "type" | "string" | "int" | "decimal" | "boolean" | "length" | "identity" | "is_empty"
  | "is_not_empty" | "is_null" | "is_not_null" | "list" | "set" | "date" => some ["obj"]
  | "append" => some ["lst", "element"]
  | "remove" => some ["lst", "element"]
  | "insert_at" => some ["lst", "index", "value"]
  | "delete_at" => some ["lst", "index"]
  | "put" => some ["m", "key", "value"]
  | "range" => some ["a", "b", "step"]
  | "sum" => some ["list", "ignore"]
  | "find" | "find_last" => some ["obj", "part", "key", "start"]
  | "sublist" => some ["lst", "startidx", "endidx"]
  | "substr" => some ["str", "startidx", "endidx"]
  | "contains" => some ["obj", "part"]
  | "starts_with" | "ends_with" => some ["str", "part"]
  | "chr" => some ["n"]
  | "ord" => some ["ch"]
  | "println" | "print" => some ["obj", "out"]
  | "sorted" => some ["lst", "cmp", "key"]
  | "bind_native" => some ["native", "alias"]
  | "ls" => some ["module"]
  | _ => none

def boolV (b : Bool) : RVal := .bool b

def listItems (v : RVal) : EvalM (Option (List RVal)) := do
  match ← cellOf v with
  | some (.list xs) => pure (some xs)
  | _ => pure none

def isColl (c : Option Cell) : Bool := match c with | some (.list _) | some (.set _) => true | _ => false

/-- `asList()` of a list or set (sets enumerate sorted) -/
def collAsList (c : Cell) : EvalM (List RVal) := do
  match c with
  | .list xs => pure xs
  | .set xs => do
      let s ← getS
      match sortedR s xs with
      | some ys => pure ys
      | none => unsupported "sorting non-data set elements"
  | _ => unsupported "asList of this container"

def addSet (items : List RVal) : EvalM RVal := do
  let s ← getS
  allocM (.set (items.foldl (fun acc x => setAdd s x acc) []))

/-! ### dates: `FuncAdd` / `FuncSub` on dates, `ValueDate.asInt` / `asDecimal`, `Value*.asDate` (`FuncDate`)

  The day part is the integer arithmetic of `Model/Date.lean` (`toOaDay`, `toDate`: exact).  The time of day is kept in
  whole milliseconds (`Date.toMillis` / `Date.ofMillis`), the precision `to_date` rounds to; the code computes it in
  binary floating point and rounds to the nearest millisecond (validated by correspondence).  Inputs on which the
  floating-point computation of the code is not determined by this integer arithmetic are `unsup`:
    * a date with a microsecond field that is not a whole millisecond (only `date()` = now produces one);
    * `date ± x` for a decimal `x` with a fractional part, `date - 'text'`, and for offsets beyond 10^8 days;
    * `date(k)` for day numbers beyond 10^9 (the code walks one loop iteration per year, then raises);
    * `decimal(date)` for a date with a time of day; `date(x)` for a fractional decimal whose product with the
      milliseconds of a day needs more than 53 bits;
    * `date - date` when one of them lies before 1900 (`to_oa_date` is not a day count there, `datetime` is);
    * `date('…')` for texts with blanks / non-ASCII characters (`strptime` details) or of a length other than
      8, 10, 14 (the code returns the host's `None`). -/

/-- result of a date computation: a date, an int, a decimal, the runtime error, or "not modelled"; none touches the state -/
inductive DateRes where
  | date (d : DT)
  | int (n : Int)
  | dec (m : Int) (e : Nat)
  | err (msg : String)      -- CklRuntimeError 'ERROR' (raised directly, or a ValueError / OverflowError turned into one by `invoke`)
  | unsup (why : String)
deriving Inhabited

def dateResM (r : DateRes) (pos : Pos) : EvalM RVal :=
  match r with
  | .date d => pure (.date d)
  | .int n => pure (.int n)
  | .dec m e => pure (.dec m e)
  | .err msg => throwE msg pos
  | .unsup why => unsupported why

/-- time of day in milliseconds; `none` when the microseconds are not a whole number of milliseconds -/
def dtMillis? (d : DT) : Option Nat :=
  if d.us % 1000 = 0 then some (Date.toMillis d.h d.mi d.s (d.us / 1000)) else none

/-- integer part of `to_oa_date(d)` -/
def dtDay (d : DT) : Nat := Date.toOaDay d.y d.mo d.d

/-- day number of 9999-12-31, the last `datetime` -/
def maxOaDay : Nat := 2958465

/-- `to_date` on day number `k` and `t` milliseconds into the day: `datetime.replace` raises ValueError for a
    day ≤ 0 (day numbers below 2) and for the year 10000 -/
def dateOfDayMs (k : Int) (t : Nat) : DateRes :=
  if k < 2 then .err "ValueError: day is out of range for month"
  else if k > 1000000000 then .unsup "day number beyond 10^9 (the code walks one loop iteration per year before it raises)"
  else if k > maxOaDay then .err "ValueError: year is out of range"
  else
    let ymd := Date.toDate k.toNat
    let hms := Date.ofMillis t
    .date ⟨ymd.1, ymd.2.1, ymd.2.2, hms.1, hms.2.1, hms.2.2.1, hms.2.2.2 * 1000⟩

/-- up to this many days the float arithmetic of `to_oa_date(d) + n` and of `round(x * 86400000)` is exact on whole days;
    beyond it the model abstains (the result is rounded, and the code walks one loop iteration per year before it raises) -/
def maxShift : Int := 100000000

/-- `to_date(to_oa_date(d) + n)` for a whole number of days `n` -/
def dateShift (d : DT) (n : Int) : DateRes :=
  match dtMillis? d with
  | none => .unsup "date arithmetic on a date with microseconds"
  | some t =>
    if n < -maxShift ∨ n > maxShift then .unsup "date arithmetic with an offset beyond 10^8 days (binary floating point)"
    else dateOfDayMs ((dtDay d : Int) + n) t

/-- `date + b` (`neg = false`, `b` numerical) and `date - b` (`neg = true`, `b` not a date): `args.getAsDecimal("b")` days -/
def dateShiftBy (d : DT) (b : RVal) (neg : Bool) : DateRes :=
  match b with
  | .int n => dateShift d (if neg then -n else n)
  | .dec m 0 => dateShift d (if neg then -m else m)
  | .dec _ _ => .unsup "date plus or minus a fractional number of days (binary floating point)"
  | .bool t => dateShift d (if neg then (if t then -1 else 0) else (if t then 1 else 0))
  | .str _ => .unsup "date minus a string (float(str))"
  | _ => .err "Cannot convert to decimal"

/-- `date - date`: whole days between two date-times, truncated toward zero (`Date.diffDays` on millisecond stamps) -/
def dateDiff (a b : DT) : DateRes :=
  if a.y < 1900 ∨ b.y < 1900 then .unsup "difference of dates before 1900"
  else match dtMillis? a, dtMillis? b with
    | some t, some u => .int (Date.diffDays (Date.stamp a.y a.mo a.d t) (Date.stamp b.y b.mo b.d u))
    | _, _ => .unsup "difference of dates with microseconds"

/-- `ValueDate.asInt`: `math.trunc(to_oa_date(d))` -/
def dateAsInt (d : DT) : DateRes :=
  match dtMillis? d with
  | some _ => .int (dtDay d)
  | none => .unsup "int(date) with microseconds"

/-- `ValueDate.asDecimal`: `to_oa_date(d)`, a float -/
def dateAsDecimal (d : DT) : DateRes :=
  if d.h = 0 ∧ d.mi = 0 ∧ d.s = 0 ∧ d.us = 0 then .dec (dtDay d) 0
  else .unsup "decimal(date) with a time of day (binary floating point)"

/-- Python `round(x)` of the float `a / 2^e`: to the nearest integer, ties to even -/
def roundHalfEvenDyadic (a : Int) (e : Nat) : Int :=
  let p : Int := (2 : Int) ^ e
  let q := a / p
  let r := a % p
  if 2 * r < p then q else if p < 2 * r then q + 1 else if q % 2 = 0 then q else q + 1

def isAsciiDigit (c : Char) : Bool := 48 ≤ c.toNat && c.toNat ≤ 57

def digitsNat (t : List Char) : Nat := t.foldl (fun acc c => acc * 10 + (c.toNat - 48)) 0

/-- `ValueString.asDate`: `strptime` with `%Y%m%d`, `%Y%m%d%H`, `%Y%m%d%H%M%S` by length -/
def parseDateStr (t : List Char) : DateRes :=
  let n := t.length
  if n < 8 then .err "Cannot convert to date"
  else if n ≠ 8 ∧ n ≠ 10 ∧ n ≠ 14 then .unsup "date(string) of a length other than 8, 10, 14 (the code returns the host's None)"
  else if t.all isAsciiDigit then
    let y := digitsNat (t.take 4)
    let mo := digitsNat ((t.drop 4).take 2)
    let d := digitsNat ((t.drop 6).take 2)
    let h := digitsNat ((t.drop 8).take 2)
    let mi := digitsNat ((t.drop 10).take 2)
    let s := digitsNat ((t.drop 12).take 2)
    if 1 ≤ y ∧ 1 ≤ mo ∧ mo ≤ 12 ∧ 1 ≤ d ∧ d ≤ Date.monthDays y (mo - 1) ∧ h < 24 ∧ mi < 60 ∧ s < 60
    then .date ⟨y, mo, d, h, mi, s, 0⟩
    else .err "Cannot convert to date"
  else if t.any (fun c => c.toNat < 128 && !isAsciiDigit c && c != ' ') then .err "Cannot convert to date"
  else .unsup "date(string) with blanks or non-ASCII characters (strptime)"

/-- `value.asDate()` -/
def asDateRes (v : RVal) : DateRes :=
  match v with
  | .date d => .date d
  | .int k => dateOfDayMs k 0
  | .dec m e =>
    -- `round(x * 86400000)`: the product is exact when its odd part fits the 53-bit significand
    if e = 0 ∨ (m * 84375).natAbs < 2 ^ 53 then
      let total := roundHalfEvenDyadic (m * 86400000) e
      dateOfDayMs (total / 86400000) (total % 86400000).toNat
    else .unsup "date(decimal) with an inexact product (binary floating point)"
  | .str t => parseDateStr t
  | _ => .err "Cannot convert to date"

/-- `date(obj)`, `int(date)`, `decimal(date)`; everything else about `int` / `decimal` is left to the loader's
    interpretation, and so is `date()` (the current time) -/
def callDate (name : String) (args : List (String × RVal)) (pos : Pos) : Option (EvalM RVal) :=
  match name, dictGet "obj" args with
  | "date", some v => some (dateResM (asDateRes v) pos)
  | "int", some (.date d) => some (dateResM (dateAsInt d) pos)
  | "decimal", some (.date d) => some (dateResM (dateAsDecimal d) pos)
  | _, _ => none

/-- `FuncAdd.execute` -/
def nativeAdd (a b : RVal) (pos : Pos) : EvalM RVal := do
  let s ← getS
  if a.isNull || b.isNull then return .null
  match a, b with
  | .int x, .int y => return .int (x + y)
  | _, _ => pure ()
  if a.isNumerical && b.isNumerical then
    match numAsFloat a, numAsFloat b with
    | some x, some y => return ← floatResult (x + y) pos "add"
    | _, _ => throwE "add failed: OverflowError: int too large to convert to float" pos
  let ca ← cellOf a
  let cb ← cellOf b
  match ca with
  | some (.list xs) =>
    if isColl cb then do
      let ys ← collAsList cb.get!
      return ← newList (xs ++ ys)
    else return ← newList (xs ++ [b])
  | some (.set xs) =>
    if isColl cb then do
      let ys ← (match cb with | some (.set ys) => pure ys | some (.list ys) => pure ys | _ => pure [])
      return ← addSet (xs ++ ys)
    else return ← addSet (xs ++ [b])
  | _ => pure ()
  match cb with
  | some (.list ys) => return ← newList (a :: ys)
  | some (.set ys) => return ← addSet (a :: ys)
  | _ => pure ()
  match a, b with
  | .date d, _ => if b.isNumerical then return ← dateResM (dateShiftBy d b false) pos else pure ()
  | _, _ => pure ()
  if (a.isString && b.isAtomic) || (a.isAtomic && b.isString) then do
    let x ← asStringM a pos
    let y ← asStringM b pos
    return .str (x ++ y)
  throwE ("Cannot add " ++ typeName s a ++ " and " ++ typeName s b) pos

/-- `FuncSub.execute` (list − x, set − x, date − x come before the NULL test) -/
def nativeSub (a b : RVal) (pos : Pos) : EvalM RVal := do
  let s ← getS
  let ca ← cellOf a
  let cb ← cellOf b
  match ca with
  | some (.list xs) =>
    -- `args.getAsList("b")` is evaluated inside the loop over `a`: never for an empty list
    if xs.isEmpty then return ← newList []
    let ys ← (match b, cb with
      | _, some (.list ys) => pure ys
      | _, some (.set ys) => collAsList (.set ys)
      | _, some (.map _) => unsupported "list minus map"
      | _, some _ => throwE "Cannot convert to list" pos
      | .closure _, _ | .native _ _, _ | .null, _ | .node _, _ | .brk _, _ | .cont _, _ | .ret _ _, _ =>
          throwE "Cannot convert to list" pos
      | v, none => pure [v])
    return ← newList (xs.filter (fun x => !memR s x ys))
  | some (.set xs) =>
    let minus : List RVal := match cb with
      | some (.set ys) => ys
      | some (.list ys) => ys
      | _ => [b]
    return ← allocM (.set (xs.filter (fun x => !memR s x minus)))
  | _ => pure ()
  match a, b with
  | .date d, .date d' => return ← dateResM (dateDiff d d') pos
  | .date d, _ => return ← dateResM (dateShiftBy d b true) pos
  | _, _ => pure ()
  if a.isNull || b.isNull then return .null
  match a, b with
  | .int x, .int y => return .int (x - y)
  | _, _ => pure ()
  if a.isNumerical && b.isNumerical then
    match numAsFloat a, numAsFloat b with
    | some x, some y => return ← floatResult (x - y) pos "sub"
    | _, _ => throwE "sub failed: OverflowError" pos
  throwE ("Cannot subtract " ++ typeName s b ++ " from " ++ typeName s a) pos

/-- `FuncMul.execute` -/
def nativeMul (a b : RVal) (pos : Pos) : EvalM RVal := do
  let s ← getS
  if a.isNull || b.isNull then return .null
  let ca ← cellOf a
  match a, b with
  | .str x, .int n => return .str ((List.replicate n.toNat x).flatten)
  | _, _ => pure ()
  match ca, b with
  | some (.list xs), .int n => return ← newList ((List.replicate n.toNat xs).flatten)
  | _, _ => pure ()
  match a, b with
  | .int x, .int y => return .int (x * y)
  | _, _ => pure ()
  if a.isNumerical && b.isNumerical then
    match numAsFloat a, numAsFloat b with
    | some x, some y => return ← floatResult (x * y) pos "mul"
    | _, _ => throwE "mul failed: OverflowError" pos
  throwE ("Cannot multiply " ++ typeName s a ++ " by " ++ typeName s b) pos

/-- truncating integer division of the repaired `FuncDiv` -/
def truncDiv (a b : Int) : Int :=
  let q : Int := (a.natAbs / b.natAbs : Nat)
  if (decide (a < 0)) != (decide (b < 0)) then -q else q

/-- `FuncDiv.execute`; `div0` is the value of DIV_0_VALUE when defined and truthy -/
def nativeDiv (a b : RVal) (div0 : Option RVal) (pos : Pos) : EvalM RVal := do
  let s ← getS
  if a.isNull || b.isNull then return .null
  match a, b with
  | .int x, .int y =>
    if y = 0 then
      match div0 with
      | some v => return v
      | none => throwE "divide by zero" pos
    else return .int (truncDiv x y)
  | _, _ => pure ()
  if a.isNumerical && b.isNumerical then
    match numAsFloat a, numAsFloat b with
    | some x, some y =>
      if y == 0.0 then
        match div0 with
        | some v => return v
        | none => throwE "divide by zero" pos
      else return ← floatResult (x / y) pos "div"
    | _, _ => throwE "div failed: OverflowError" pos
  throwE ("Cannot divide " ++ typeName s a ++ " by " ++ typeName s b) pos

/-- `FuncMod.execute`: Python `%` on ints is the floored modulus (`Int.fmod`) -/
def nativeMod (a b : RVal) (pos : Pos) : EvalM RVal := do
  let s ← getS
  if a.isNull || b.isNull then return .null
  match a, b with
  | .int x, .int y =>
    if y = 0 then throwE "mod failed: ZeroDivisionError: integer modulo by zero" pos
    else return .int (Int.fmod x y)
  | _, _ => pure ()
  if a.isNumerical && b.isNumerical then unsupported "decimal modulus"
  throwE ("Cannot calculate modulus of " ++ typeName s a ++ " by " ++ typeName s b) pos

def cmpLt (a b : RVal) : EvalM Bool := do
  let s ← getS
  match rvlt s a b with
  | some r => pure r
  | none => unsupported "ordering of non-data values"

/-- `a > b` as `functools.total_ordering` derives it: `not (a < b) and a != b` -/
def cmpGt (a b : RVal) : EvalM Bool := do
  let s ← getS
  let l ← cmpLt a b
  pure (!l && !rveq s a b)

def asListArg (v : RVal) (pos : Pos) : EvalM RVal := do
  match v with
  | .bool _ | .date _ | .dec _ _ | .int _ | .pat _ | .str _ => newList [v]
  | .ref _ => do
    match ← cellOf v with
    | some (.list _) => pure v
    | some (.set xs) => do let ys ← collAsList (.set xs); newList ys
    | some (.map kvs) => do
        -- ValueMap.asList: sorted(values)
        let s ← getS
        match sortedR s (kvs.map (·.2)) with
        | some ys => newList ys
        | none => unsupported "sorting non-data map values"
    | _ => unsupported "asList of an object"
  | _ => throwE "Cannot convert to list" pos

def asSetArg (v : RVal) (pos : Pos) : EvalM RVal := do
  match v with
  | .ref _ => do
    match ← cellOf v with
    | some (.set _) => pure v
    | some (.list xs) => addSet xs
    | some (.map kvs) => addSet (kvs.map (·.1))
    | some (.obj kvs _) => addSet (kvs.map (fun kv => .str kv.1.toList))
    | _ => throwE "Cannot convert to set" pos
  | _ => throwE "Cannot convert to set" pos

/-- CPython `str.strip()` whitespace -/
def pyIsSpace (c : Char) : Bool :=
  let n := c.toNat
  (9 ≤ n && n ≤ 13) || (28 ≤ n && n ≤ 32) || n = 0x85 || n = 0xA0 || n = 0x1680 ||
  (0x2000 ≤ n && n ≤ 0x200A) || n = 0x2028 || n = 0x2029 || n = 0x202F || n = 0x205F || n = 0x3000

def pyStrip (s : List Char) : List Char :=
  ((s.dropWhile pyIsSpace).reverse.dropWhile pyIsSpace).reverse

/-- the pure natives; `none` = not handled here -/
def callPure (name : String) (args : List (String × RVal)) (div0 : Option RVal) (pos : Pos) :
    Option (EvalM RVal) :=
  let get := fun n => argGet args n pos
  let has := fun n => dictHas n args
  match name with
  | "add" => some do nativeAdd (← get "a") (← get "b") pos
  | "sub" => some do nativeSub (← get "a") (← get "b") pos
  | "mul" => some do nativeMul (← get "a") (← get "b") pos
  | "div" => some do nativeDiv (← get "a") (← get "b") div0 pos
  | "mod" => some do nativeMod (← get "a") (← get "b") pos
  | "equals" => some do let a ← get "a"; let b ← get "b"; let s ← getS; pure (boolV (rveq s a b))
  | "not_equals" => some do let a ← get "a"; let b ← get "b"; let s ← getS; pure (boolV (!rveq s a b))
  | "less" => some do let a ← get "a"; let b ← get "b"; pure (boolV (← cmpLt a b))
  | "greater" => some do let a ← get "a"; let b ← get "b"; pure (boolV (← cmpGt a b))
  | "less_equals" => some do
      let a ← get "a"; let b ← get "b"; let s ← getS
      pure (boolV ((← cmpLt a b) || rveq s a b))
  | "greater_equals" => some do let a ← get "a"; let b ← get "b"; pure (boolV (!(← cmpLt a b)))
  | "compare" => some do
      let a ← get "a"; let b ← get "b"
      if ← cmpLt a b then pure (.int (-1)) else if ← cmpGt a b then pure (.int 1) else pure (.int 0)
  | "type" => some do let v ← get "obj"; pure (.str (← typeOf v).toList)
  | "identity" => some (get "obj")
  | "string" => some do let v ← get "obj"; pure (.str (← asStringM v pos))
  | "length" => some do
      let v ← get "obj"
      match v with
      | .str s => pure (.int s.length)
      | _ => match ← cellOf v with
        | some (.list xs) => pure (.int xs.length)
        | some (.set xs) => pure (.int xs.length)
        | some (.map xs) => pure (.int xs.length)
        | some (.obj xs _) => pure (.int xs.length)
        | _ => throwE "length failed: TypeError" pos     -- CklRuntimeError(msg, pos) called with two arguments
  | "is_null" => some do pure (boolV (← get "obj").isNull)
  | "is_not_null" => some do pure (boolV (!(← get "obj").isNull))
  | "is_empty" => some do
      let v ← get "obj"
      match v with
      | .null => pure (boolV true)
      | .str s => pure (boolV s.isEmpty)
      | _ => match ← cellOf v with
        | some (.list xs) => pure (boolV xs.isEmpty)
        | some (.set xs) => pure (boolV xs.isEmpty)
        | some (.map xs) => pure (boolV xs.isEmpty)
        | some (.obj xs _) => pure (boolV xs.isEmpty)
        | _ => pure (boolV false)
  | "if_null" => some do let a ← get "a"; if a.isNull then get "b" else pure a
  | "append" => some do
      let lst ← get "lst"; let el ← get "element"
      match lst, ← cellOf lst with
      | .ref a, some (.list xs) => do modifyS (·.setCell a (.list (xs ++ [el]))); pure lst
      | .ref a, some (.set xs) => do let s ← getS; modifyS (·.setCell a (.set (setAdd s el xs))); pure lst
      | _, _ => do throwE ("Cannot append to " ++ (← typeOf lst)) pos
  | "insert_at" => some do
      let lst ← get "lst"
      match lst, ← cellOf lst with
      | .ref a, some (.list xs) => do
          let idx ← get "index"
          match idx with
          | .int i => do
              let v ← get "value"
              modifyS (·.setCell a (.list (Seq.insertAt xs i v))); pure lst
          | _ => do throwE ("Int required but got " ++ (← typeOf idx)) pos
      | _, _ => do throwE ("Cannot insert into " ++ (← typeOf lst)) pos
  | "delete_at" => some do
      let lst ← get "lst"
      let idx ← get "index"
      match idx with
      | .int i =>
        match lst, ← cellOf lst with
        | .ref a, some (.list xs) => do
            let (r, xs') := Seq.deleteAt xs i
            modifyS (·.setCell a (.list xs')); pure (r.getD .null)
        | _, _ => do throwE ("Cannot delete from " ++ (← typeOf lst)) pos
      | _ => do throwE ("Int required but got " ++ (← typeOf idx)) pos
  | "remove" => some do
      let lst ← get "lst"; let el ← get "element"
      let s ← getS
      match lst, ← cellOf lst with
      | .ref a, some (.list xs) =>
          if memR s el xs then do
            -- list.remove: the first equal element
            let rec rm : List RVal → List RVal
              | [] => []
              | y :: ys => if rveq s y el then ys else y :: rm ys
            modifyS (·.setCell a (.list (rm xs))); pure lst
          else throwE "remove failed: ValueError: list.remove(x): x not in list" pos
      | .ref a, some (.set xs) =>
          if memR s el xs then do modifyS (·.setCell a (.set (xs.filter (fun y => !rveq s y el)))); pure lst
          else throwE "remove failed: KeyError" pos
      | .ref a, some (.map kvs) =>
          if (mapGet s el kvs).isSome then do modifyS (·.setCell a (.map (mapDel s el kvs))); pure lst
          else throwE "remove failed: KeyError" pos
      | .ref a, some (.obj kvs m) =>
          match el with
          | .str k =>
            if dictHas (String.ofList k) kvs then do modifyS (·.setCell a (.obj (dictDel (String.ofList k) kvs) m)); pure lst
            else throwE "remove failed: KeyError" pos
          | _ => unsupported "remove from object with a non-string key"
      | _, _ => do throwE ("Cannot remove from " ++ (← typeOf lst)) pos
  | "put" => some do
      let m ← get "m"
      match m, ← cellOf m with
      | .ref a, some (.map kvs) => do
          let k ← get "key"; let v ← get "value"; let s ← getS
          modifyS (·.setCell a (.map (mapPut s k v kvs))); pure m
      | _, _ => do throwE ("Map required but got " ++ (← typeOf m)) pos
  | "list" => some do if has "obj" then asListArg (← get "obj") pos else newList []
  | "set" => some do if has "obj" then asSetArg (← get "obj") pos else allocM (.set [])
  | "range" => some do
      let intArg := fun (n : String) => do
        let v ← get n
        match v with
        | .int i => pure i
        | _ => do throwE ("Int required but got " ++ (← typeOf v)) pos
      let (start, stop) ← (if has "a" && !has "b" then do let e ← intArg "a"; pure ((0 : Int), e)
                           else if has "a" && has "b" then do let a ← intArg "a"; let b ← intArg "b"; pure (a, b)
                           else pure ((0 : Int), (0 : Int)))
      let step ← (if has "step" then intArg "step" else pure (1 : Int))
      if step > 0 then
        let n := ((stop - start + step - 1) / step).toNat
        newList ((List.range n).map (fun (k : Nat) => .int (start + step * (k : Int))))
      else if step < 0 then
        let n := ((start - stop + (-step) - 1) / (-step)).toNat
        newList ((List.range n).map (fun (k : Nat) => .int (start + step * (k : Int))))
      else newList []
  | "sum" => some do
      let l ← get "list"
      if l.isNull then return .null
      match ← listItems l with
      | none => do throwE ("List required but got " ++ (← typeOf l)) pos
      | some xs => do
        if has "ignore" then unsupported "sum with ignore"
        let allInt := xs.all RVal.isInt
        if allInt then pure (.int (xs.foldl (fun acc x => match x with | .int n => acc + n | _ => acc) 0))
        else if xs.all RVal.isNumerical then unsupported "sum of decimals (left-to-right float accumulation)"
        else do
          let s ← getS
          match xs.find? (fun x => !x.isNumerical) with
          | some bad => throwE ("Cannot sum " ++ typeName s bad) pos
          | none => pure .null
  | "zip" => some do
      let a ← get "a"; let b ← get "b"
      if a.isNull || b.isNull then return .null
      match ← listItems a, ← listItems b with
      | some xs, some ys => do
          let pairs ← (xs.zip ys).mapM (fun p => newList [p.1, p.2])
          newList pairs
      | _, _ => do throwE ("Cannot zip " ++ (← typeOf a) ++ " and " ++ (← typeOf b)) pos
  | "sublist" => some do
      let l ← get "lst"
      if l.isNull then return .null
      match ← listItems l with
      | none => do throwE ("List required but got " ++ (← typeOf l)) pos
      | some xs => do
        let st ← get "startidx"
        let en ← (if has "endidx" then do pure (some (← get "endidx")) else pure none)
        match st, en with
        | .int a, none => newList (Seq.substr xs a none)
        | .int a, some (.int b) => newList (Seq.substr xs a (some b))
        | _, _ => throwE "Int required" pos
  | "substr" => some do
      let v ← get "str"
      if v.isNull then return .null
      match v with
      | .str xs => do
        let st ← get "startidx"
        let en ← (if has "endidx" then do pure (some (← get "endidx")) else pure none)
        match st, en with
        | .int a, none => pure (.str (Seq.substr xs a none))
        | .int a, some (.int b) => pure (.str (Seq.substr xs a (some b)))
        | _, _ => throwE "Int required" pos
      | _ => do throwE ("String required but got " ++ (← typeOf v)) pos
  | "find" => some do
      let o ← get "obj"
      if o.isNull then return .null
      if has "key" then unsupported "find with key"
      let st ← (if has "start" then do
                  match ← get "start" with
                  | .int i => pure i
                  | v => do throwE ("Int required but got " ++ (← typeOf v)) pos
                else pure (0 : Int))
      match o with
      | .str s => do
        match ← get "part" with
        | .str t => pure (.int (Seq.find s t st))
        | v => do throwE ("String required but got " ++ (← typeOf v)) pos
      | _ => match ← listItems o with
        | some xs => do let x ← get "part"; let s ← getS; pure (.int (Seq.findList (fun y z => rveq s y z) xs x st))
        | none => throwE "Find only works with strings and lists" pos
  | "find_last" => some do
      let o ← get "obj"
      if o.isNull then return .null
      if has "key" then unsupported "find_last with key"
      let st ← (if has "start" then do
                  match ← get "start" with
                  | .int i => pure (some i)
                  | v => do throwE ("Int required but got " ++ (← typeOf v)) pos
                else pure none)
      match o with
      | .str s => do
        match ← get "part" with
        | .str t => pure (.int (Seq.findLast s t st))
        | v => do throwE ("String required but got " ++ (← typeOf v)) pos
      | _ => match ← listItems o with
        | some xs => do let x ← get "part"; let s ← getS; pure (.int (Seq.findLastList (fun y z => rveq s y z) xs x st))
        | none => throwE "Find_last only works with strings and lists" pos
  | "contains" => some do
      if has "obj" && (← get "obj").isNull then return boolV false
      let o ← get "obj"
      let s ← getS
      match ← cellOf o with
      | some (.list xs) => do pure (boolV (memR s (← get "part") xs))
      | some (.set xs) => do pure (boolV (memR s (← get "part") xs))
      | some (.map kvs) => do pure (boolV (mapGet s (← get "part") kvs).isSome)
      | some (.obj _ _) => unsupported "contains on objects"
      | _ => do
        let text ← (match o with | .str t => pure t | v => asStringM v pos)
        match ← get "part" with
        | .str t => pure (boolV (decide (0 ≤ Seq.find text t 0)))
        | v => do throwE ("String required but got " ++ (← typeOf v)) pos
  | "starts_with" => some do
      if has "str" && (← get "str").isNull then return boolV false
      match ← get "str", ← get "part" with
      | .str s, .str t => pure (boolV (Seq.isPrefixB t s))
      | _, _ => throwE "String required" pos
  | "ends_with" => some do
      if has "str" && (← get "str").isNull then return boolV false
      match ← get "str", ← get "part" with
      | .str s, .str t => pure (boolV (Seq.isPrefixB t.reverse s.reverse))
      | _, _ => throwE "String required" pos
  | "chr" => some do
      if has "n" && (← get "n").isNull then return .null
      match ← get "n" with
      | .int n =>
        if 0 ≤ n ∧ n < 0x110000 ∧ ¬ (0xD800 ≤ n ∧ n < 0xE000) then pure (.str [Char.ofNat n.toNat])
        else if 0xD800 ≤ n ∧ n < 0xE000 then unsupported "lone surrogate"
        else throwE "chr failed: ValueError" pos
      | v => do throwE ("Int required but got " ++ (← typeOf v)) pos
  | "ord" => some do
      if has "ch" && (← get "ch").isNull then return .null
      match ← get "ch" with
      | .str (c :: _) => pure (.int c.toNat)
      | .str [] => throwE "ord failed: IndexError" pos
      | v => do throwE ("String required but got " ++ (← typeOf v)) pos
  | "println" => some do
      if has "out" then unsupported "println to an explicit output"
      let t ← (if has "obj" then do asStringM (← get "obj") pos else pure [])
      modifyS (·.write (t ++ ['\n'])); pure .null
  | "print" => some do
      if has "out" then unsupported "print to an explicit output"
      let t ← asStringM (← get "obj") pos
      modifyS (·.write t); pure .null
  | _ => callDate name args pos

end Ckl
