"""Validate MANIFEST.json and evidence/*.json against the schemas in /root/.vp (run with python3-vt, which has jsonschema):
   python3-vt -m harness.validate
Also checks the consistency rules a proof-level evidence record has to meet (discharged == obligations >= 1, no violations)."""
import glob
import json
import os
import sys

VERIF = os.path.dirname(os.path.dirname(os.path.abspath(__file__)))


def main():
    import jsonschema
    bad = 0
    man = json.load(open(os.path.join(VERIF, "MANIFEST.json")))
    jsonschema.validate(man, json.load(open("/root/.vp/MANIFEST.schema.json")))
    schema = json.load(open("/root/.vp/EVIDENCE.schema.json"))
    for f in sorted(glob.glob(os.path.join(VERIF, "evidence", "C*.json"))):
        ev = json.load(open(f))
        try:
            jsonschema.validate(ev, schema)
        except jsonschema.ValidationError as e:
            print(os.path.basename(f), "SCHEMA:", e.message[:200])
            bad += 1
            continue
        cov = ev.get("coverage", {})
        if cov.get("discharged") != cov.get("obligations") or not cov.get("obligations"):
            print(os.path.basename(f), "discharged", cov.get("discharged"), "obligations", cov.get("obligations"))
            bad += 1
        if ev.get("violations"):
            print(os.path.basename(f), "records violations:", len(ev["violations"]))
            bad += 1
    print("manifest ok; evidence files with problems:", bad)
    return 1 if bad else 0


if __name__ == "__main__":
    sys.exit(main())
