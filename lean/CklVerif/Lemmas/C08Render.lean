/-
  C08 helper lemmas (rendering part): the enumeration order of a map does not depend on the
  insertion order; shape of the rendered numbers.
-/
import CklVerif.Proofs.C07
import CklVerif.Model.DecRepr
namespace Ckl.C08
open Ckl

variable (dr : DecRenderer)

/-! ### maps -/

/-- `dict[k] = v` for a key that is not present appends the entry -/
theorem assocPut_fresh (k v : Val) (m : List (Val × Val))
    (h : ∀ e ∈ m, veq k e.1 = false) : assocPut k v m = m ++ [(k, v)] := by
  induction m with
  | nil => rfl
  | cons e m ih =>
    obtain ⟨k', v'⟩ := e
    have h1 : veq k k' = false := h (k', v') (by simp)
    simp only [assocPut, h1, Bool.false_eq_true, if_false, List.cons_append]
    rw [ih (fun e he => h e (List.mem_cons_of_mem _ he))]

theorem foldl_assocPut_distinct (kvs acc : List (Val × Val))
    (h : (acc ++ kvs).Pairwise (fun a b => veq a.1 b.1 = false)) :
    kvs.foldl (fun acc kv => assocPut kv.1 kv.2 acc) acc = acc ++ kvs := by
  induction kvs generalizing acc with
  | nil => simp
  | cons e kvs ih =>
    have hfresh : ∀ x ∈ acc, veq e.1 x.1 = false := by
      intro x hx
      rw [veq_symm']
      exact (List.pairwise_append.mp h).2.2 x hx e (by simp)
    rw [List.foldl_cons, assocPut_fresh _ _ _ hfresh, ih]
    · simp
    · simpa using h

/-- entries with pairwise different (non-`veq`) keys are stored as they are -/
theorem assocOfList_distinct {kvs : List (Val × Val)}
    (h : kvs.Pairwise (fun a b => veq a.1 b.1 = false)) : assocOfList kvs = kvs := by
  unfold assocOfList
  simpa using foldl_assocPut_distinct kvs [] (by simpa using h)

/-- comparing entries by their keys is a strict total order on entries with pairwise different,
    pairwise same-kind keys -/
theorem entries_strictTotalOn {kvs : List (Val × Val)}
    (hk : (kvs.map Prod.fst).Pairwise SameKind)
    (hne : (kvs.map Prod.fst).Pairwise (fun x y => veq x y = false)) :
    StrictTotalOn (· ∈ kvs) (fun a b : Val × Val => vltWith dr a.1 b.1) := by
  have ht := C07.vlt_strictTotalOn dr hk hne
  have hmem : ∀ a ∈ kvs, a.1 ∈ kvs.map Prod.fst := fun a ha => List.mem_map.mpr ⟨a, ha, rfl⟩
  have hne' : kvs.Pairwise (fun a b => veq a.1 b.1 = false) := List.pairwise_map.mp hne
  refine ⟨fun a ha => ht.irrefl a.1 (hmem a ha), ?_, ?_⟩
  · intro a b c ha hb hc
    exact ht.trans a.1 b.1 c.1 (hmem a ha) (hmem b hb) (hmem c hc)
  · intro a b ha hb
    rcases ht.tri a.1 b.1 (hmem a ha) (hmem b hb) with h | h | h
    · exact Or.inl h
    · right; left
      rcases C07.pairwise_mem_cases hne' ha hb with h' | h' | h'
      · exact h'
      · rw [h, veq_refl'] at h'; exact absurd h' (by decide)
      · rw [h, veq_refl'] at h'; exact absurd h' (by decide)
    · exact Or.inr (Or.inr h)

theorem sortedEntries_perm_invariant {xs ys : List (Val × Val)}
    (hk : (xs.map Prod.fst).Pairwise SameKind)
    (hne : (xs.map Prod.fst).Pairwise (fun x y => veq x y = false)) (hp : xs.Perm ys) :
    sortedEntries dr xs = sortedEntries dr ys :=
  C07.sortBy_perm_invariant (entries_strictTotalOn dr hk hne) hp

theorem mkMap_perm_aux {xs ys : List (Val × Val)} (hp : xs.Perm ys)
    (hk : (xs.map Prod.fst).Pairwise SameKind)
    (hne : (xs.map Prod.fst).Pairwise (fun x y => veq x y = false)) :
    mkMap dr xs = mkMap dr ys := by
  have hne1 : xs.Pairwise (fun a b => veq a.1 b.1 = false) := List.pairwise_map.mp hne
  have hne2 : ys.Pairwise (fun a b => veq a.1 b.1 = false) :=
    hp.pairwise_iff (fun {x y} h => by rw [veq_symm']; exact h) |>.mp hne1
  unfold mkMap
  rw [assocOfList_distinct hne1, assocOfList_distinct hne2,
    sortedEntries_perm_invariant dr hk hne hp]

/-! ### numbers -/

theorem natDigits_no_point (n : Nat) : '.' ∉ natDigits n := by
  intro h
  have := Nat.isDigit_of_mem_toDigits (b := 10) (by decide) (by decide) h
  simp [Char.isDigit] at this

theorem natDigits_no_minus (n : Nat) : '-' ∉ natDigits n := by
  intro h
  have := Nat.isDigit_of_mem_toDigits (b := 10) (by decide) (by decide) h
  simp [Char.isDigit] at this

/-- `decRepr` with the digit generator factored out (keeps the kernel away from
    `shortestDigits`) -/
def decFmt (m : Int) (r : List Char × Int) : List Char :=
  if m = 0 then ['0', '.', '0']
  else
    let (ds, k) := r
    let sign : List Char := if m < 0 then ['-'] else []
    let body : List Char :=
      if k ≤ 0 then '0' :: '.' :: (List.replicate (-k).toNat '0' ++ ds)
      else if k.toNat ≥ ds.length then ds ++ List.replicate (k.toNat - ds.length) '0' ++ ['.', '0']
      else ds.take k.toNat ++ '.' :: ds.drop k.toNat
    sign ++ body

theorem decRepr_eq (m : Int) (e : Nat) : decRepr m e = decFmt m (shortestDigits m.natAbs e) := rfl

theorem decFmt_has_point (m : Int) (r : List Char × Int) : '.' ∈ decFmt m r := by
  obtain ⟨ds, k⟩ := r
  unfold decFmt
  split
  · simp
  · apply List.mem_append_right
    split
    · simp
    · split
      · simp
      · simp

/-- the positional text of a double always contains a decimal point -/
theorem decRepr_has_point (m : Int) (e : Nat) : '.' ∈ decRepr m e := by
  rw [decRepr_eq]; exact decFmt_has_point _ _

end Ckl.C08
