/-
  C18Src — theorems about the SOURCE of the bundled STRING library (src/ckl/modules/string.ckl), property C18.

  `Gen/LibSrc.lean` (regenerated on every run by `harness/extract/libsrc.py`) contains the AST the real parser builds for the
  current text of `reverse`, `replace`, `join`, `q`, `esc` (`Ckl.Gen.LibSrc.string_reverse`, …).  The theorems below are about THOSE
  terms evaluated by the model evaluator (`callFn` of `Model/Eval.lean`); they say that the source computes what the hand-written
  mirrors of `Model/Str.lean` compute (`Str.reverseM`, `Str.joinM`, `Str.replaceM`), and so the laws of `Proofs/C18.lean`
  (reverse is an involution, join = intercalate, join ∘ split = id, replace = left-to-right non-overlapping substitution) hold for
  the source.  If the source changes so that a statement becomes false, this file (or a lemma file it imports) stops building.

  Reading guide: `IsSrc`, `LibEnv`, `Ext` as in `Proofs/C19Src.lean`.  Every statement: all argument strings / lists, all states
  satisfying `LibEnv`, every fuel above an EXPLICIT bound, the exact outcome (`.ok v s'`; never out-of-fuel / unsupported), and
  `Ext s s'`: every frame, heap cell and the output of `s` is unchanged (the call only adds frames / cells).
-/
import CklVerif.Lemmas.C18SrcReplace
import CklVerif.Lemmas.C19SrcLoad
namespace Ckl.C18Src
open Ckl Ckl.C19Src Ckl.Gen.LibSrc Ckl.Str
variable (ld : Loader)

/-! ## 1  `reverse` -/

/-- **The source of String `reverse` computes `List.reverse` of the characters**; fuel bound `length + 18`. -/
theorem reverse_src {s : State} {M nats srcs fn m} (h : LibEnv s M nats srcs) (hn : ∀ x ∈ reverseStrNats, x ∈ nats)
    (hs : ∀ p ∈ reverseStrSrcs, p ∈ srcs) (hm : M m) (hsrc : IsSrc s fn string_reverse m) (cs : List Char) :
    ∃ s', Ext s s' ∧ ∀ fuel env pos, cs.length + 18 < fuel →
      callFn ld fuel fn [("str", .str cs)] env pos s = .ok (.str cs.reverse) s' :=
  let ⟨s', e, c⟩ := reverse_calls_str ld h hn hs hm hsrc cs; ⟨s', e, fun fuel env pos hf => c env pos fuel hf⟩

/-- … which is the hand-written mirror `Str.reverseM` of C18 -/
theorem reverse_src_eq_mirror {s : State} {M nats srcs fn m} (h : LibEnv s M nats srcs) (hn : ∀ x ∈ reverseStrNats, x ∈ nats)
    (hs : ∀ p ∈ reverseStrSrcs, p ∈ srcs) (hm : M m) (hsrc : IsSrc s fn string_reverse m) (cs : List Char) :
    ∃ s', Ext s s' ∧ ∀ fuel env pos, cs.length + 18 < fuel →
      callFn ld fuel fn [("str", .str cs)] env pos s = .ok (.str (reverseM cs)) s' := by
  rw [C18.reverse_eq]; exact reverse_src ld h hn hs hm hsrc cs

/-- `reverse` of anything that is not a string — a LIST (the String module's `reverse` does not reverse lists), a number, NULL,
    a function, … — is NULL -/
theorem reverse_src_not_string {s : State} {M nats srcs fn m} (h : LibEnv s M nats srcs) (hn : ∀ x ∈ reverseStrNats, x ∈ nats)
    (hs : ∀ p ∈ reverseStrSrcs, p ∈ srcs) (hm : M m) (hsrc : IsSrc s fn string_reverse m) (v : RVal)
    (hv : v.isString = false) :
    ∃ s', Ext s s' ∧ ∀ fuel env pos, 15 < fuel → callFn ld fuel fn [("str", v)] env pos s = .ok .null s' :=
  let ⟨s', e, c⟩ := reverse_calls_nonstring ld h hn hs hm hsrc v hv; ⟨s', e, fun fuel env pos hf => c env pos fuel hf⟩

/-- **`reverse` is an involution, for the source**: calling the function on `cs` and then, in the resulting state, on the result
    gives back `cs` (C18 `reverse_involutive` transported to the source). -/
theorem reverse_src_involutive {s : State} {M nats srcs fn m} (h : LibEnv s M nats srcs) (hn : ∀ x ∈ reverseStrNats, x ∈ nats)
    (hs : ∀ p ∈ reverseStrSrcs, p ∈ srcs) (hm : M m) (hsrc : IsSrc s fn string_reverse m) (cs : List Char) :
    ∃ r s1 s2, Ext s s1 ∧ Ext s1 s2 ∧ ∀ fuel env pos, cs.length + 18 < fuel →
      callFn ld fuel fn [("str", .str cs)] env pos s = .ok (.str r) s1 ∧
      callFn ld fuel fn [("str", .str r)] env pos s1 = .ok (.str cs) s2 := by
  obtain ⟨s1, e1, c1⟩ := reverse_src_eq_mirror ld h hn hs hm hsrc cs
  obtain ⟨s2, e2, c2⟩ := reverse_src_eq_mirror ld (h.ext e1) hn hs hm (hsrc.ext e1) (reverseM cs)
  rw [C18.reverse_involutive] at c2
  refine ⟨reverseM cs, s1, s2, e1, e2, fun fuel env pos hf => ⟨c1 fuel env pos hf, c2 fuel env pos ?_⟩⟩
  have : (reverseM cs).length = cs.length := by rw [C18.reverse_eq, List.length_reverse]
  omega

example : (RVal.ref 3).isString = false ∧ (RVal.int 12).isString = false ∧ RVal.null.isString = false := ⟨rfl, rfl, rfl⟩

/-! ## 2  `join`, `q` -/

/-- **The source of `join` computes `Str.joinM`**, in general form: `lst` a list cell holding `xs`, `sep` a string, and every
    element `xs[i]` has the text `ts[i]` (`StrOf`: `string(x)` is `t` in every state — strings, NULL (empty text), patterns, …;
    elements whose `string(…)` fails or is unmodelled (control signals, nodes) are excluded by this hypothesis).
    Fuel bound `length + 19`. -/
theorem join_src_general {s : State} {M nats srcs fn m} (h : LibEnv s M nats srcs) (hn : ∀ x ∈ joinNats, x ∈ nats) (hm : M m)
    (hsrc : IsSrc s fn string_join m) (a : Nat) (xs : List RVal) (sep : List Char) (ts : List (List Char))
    (hc : s.cell a = some (.list xs)) (hlen : xs.length = ts.length)
    (hstr : ∀ (i : Nat) v t, xs[i]? = some v → ts[i]? = some t → StrOf v t) :
    ∃ s', Ext s s' ∧ ∀ fuel env pos, xs.length + 19 < fuel →
      callFn ld fuel fn [("lst", .ref a), ("sep", .str sep)] env pos s = .ok (.str (joinM sep ts)) s' :=
  let ⟨s', e, c⟩ := join_calls_list ld h hn hm hsrc a xs sep ts hc hlen hstr
  ⟨s', e, fun fuel env pos hf => c env pos fuel hf⟩

theorem strOf_map_str (ts : List (List Char)) :
    ∀ (i : Nat) v t, (ts.map RVal.str)[i]? = some v → ts[i]? = some t → StrOf v t := by
  intro i v t hv ht
  rw [List.getElem?_map, ht] at hv
  cases hv; exact StrOf.str t

/-- **`join` on a list of strings is `intercalate`** (C18 `join_eq_intercalate` for the source) -/
theorem join_src {s : State} {M nats srcs fn m} (h : LibEnv s M nats srcs) (hn : ∀ x ∈ joinNats, x ∈ nats) (hm : M m)
    (hsrc : IsSrc s fn string_join m) (a : Nat) (sep : List Char) (ts : List (List Char))
    (hc : s.cell a = some (.list (ts.map .str))) :
    ∃ s', Ext s s' ∧ ∀ fuel env pos, ts.length + 19 < fuel →
      callFn ld fuel fn [("lst", .ref a), ("sep", .str sep)] env pos s = .ok (.str (sep.intercalate ts)) s' := by
  have := join_src_general ld h hn hm hsrc a (ts.map .str) sep ts hc (by simp) (strOf_map_str ts)
  rwa [C18.join_eq_intercalate, List.length_map] at this

theorem join_src_eq_mirror {s : State} {M nats srcs fn m} (h : LibEnv s M nats srcs) (hn : ∀ x ∈ joinNats, x ∈ nats) (hm : M m)
    (hsrc : IsSrc s fn string_join m) (a : Nat) (sep : List Char) (ts : List (List Char))
    (hc : s.cell a = some (.list (ts.map .str))) :
    ∃ s', Ext s s' ∧ ∀ fuel env pos, ts.length + 19 < fuel →
      callFn ld fuel fn [("lst", .ref a), ("sep", .str sep)] env pos s = .ok (.str (joinM sep ts)) s' := by
  have := join_src_general ld h hn hm hsrc a (ts.map .str) sep ts hc (by simp) (strOf_map_str ts)
  rwa [List.length_map] at this

/-- **join ∘ split = id for the source**: `join` applied to a list cell holding the pieces `splitLit s sep` (what `split(s, sep)`
    returns for a literal separator, `Str.splitM` / C18 `split_escape`) with the same separator gives back `s` -/
theorem join_split_src {s : State} {M nats srcs fn m} (h : LibEnv s M nats srcs) (hn : ∀ x ∈ joinNats, x ∈ nats) (hm : M m)
    (hsrc : IsSrc s fn string_join m) (a : Nat) (str sep : List Char)
    (hc : s.cell a = some (.list ((splitLit str sep).map .str))) :
    ∃ s', Ext s s' ∧ ∀ fuel env pos, (splitLit str sep).length + 19 < fuel →
      callFn ld fuel fn [("lst", .ref a), ("sep", .str sep)] env pos s = .ok (.str str) s' := by
  have := join_src_eq_mirror ld h hn hm hsrc a sep (splitLit str sep) hc
  rwa [C18.join_split] at this

/-- non-string elements: `string(element)` is applied — an int is rendered in decimal, a boolean as `TRUE` / `FALSE` -/
theorem StrOf.int (n : Int) : StrOf (.int n) (renderInt n) := by
  intro pos s
  simp [asStringM, rrender, rrenderF, reify, reifyF, render, EvalM.bind_apply, getS, EvalM.pure_apply, renderWith]

theorem StrOf.bool (b : Bool) : StrOf (.bool b) (if b then ['T', 'R', 'U', 'E'] else ['F', 'A', 'L', 'S', 'E']) := by
  intro pos s
  cases b <;> simp [asStringM, rrender, rrenderF, reify, reifyF, render, EvalM.bind_apply, getS, EvalM.pure_apply, renderWith]

/-- `join([1, 2, 3], '|') ==> '1|2|3'` for every list of ints: the decimal renderings, intercalated -/
theorem join_src_ints {s : State} {M nats srcs fn m} (h : LibEnv s M nats srcs) (hn : ∀ x ∈ joinNats, x ∈ nats) (hm : M m)
    (hsrc : IsSrc s fn string_join m) (a : Nat) (sep : List Char) (ns : List Int)
    (hc : s.cell a = some (.list (ns.map .int))) :
    ∃ s', Ext s s' ∧ ∀ fuel env pos, ns.length + 19 < fuel →
      callFn ld fuel fn [("lst", .ref a), ("sep", .str sep)] env pos s
        = .ok (.str (sep.intercalate (ns.map renderInt))) s' := by
  have := join_src_general ld h hn hm hsrc a (ns.map .int) sep (ns.map renderInt) hc (by simp) (by
    intro i v t hv ht
    rw [List.getElem?_map] at hv ht
    cases hn : ns[i]? with
    | none => rw [hn] at hv; cases hv
    | some n => rw [hn] at hv ht; cases hv; cases ht; exact StrOf.int n)
  rwa [C18.join_eq_intercalate, List.length_map] at this

/-- the arguments the other way round, `join(sep, lst)` (first a string, then a list cell): the guard of the source swaps them -/
theorem join_src_swapped {s : State} {M nats srcs fn m} (h : LibEnv s M nats srcs) (hn : ∀ x ∈ joinNats, x ∈ nats) (hm : M m)
    (hsrc : IsSrc s fn string_join m) (a : Nat) (xs : List RVal) (sep : List Char) (ts : List (List Char))
    (hc : s.cell a = some (.list xs)) (hlen : xs.length = ts.length)
    (hstr : ∀ (i : Nat) v t, xs[i]? = some v → ts[i]? = some t → StrOf v t) :
    ∃ s', Ext s s' ∧ ∀ fuel env pos, xs.length + 19 < fuel →
      callFn ld fuel fn [("lst", .str sep), ("sep", .ref a)] env pos s = .ok (.str (joinM sep ts)) s' :=
  let ⟨s', e, c⟩ := join_calls_swapped ld h hn hm hsrc a xs sep ts hc hlen hstr
  ⟨s', e, fun fuel env pos hf => c env pos fuel hf⟩

/-- `q(lst) = join("|", lst)`: the elements separated by a pipe; fuel bound `length + 22` -/
theorem q_src {s : State} {M nats srcs fn m} (h : LibEnv s M nats srcs) (hn : ∀ x ∈ joinNats, x ∈ nats)
    (hs : ∀ p ∈ qSrcs, p ∈ srcs) (hm : M m)
    (hsrc : IsSrc s fn string_q m) (a : Nat) (xs : List RVal) (ts : List (List Char))
    (hc : s.cell a = some (.list xs)) (hlen : xs.length = ts.length)
    (hstr : ∀ (i : Nat) v t, xs[i]? = some v → ts[i]? = some t → StrOf v t) :
    ∃ s', Ext s s' ∧ ∀ fuel env pos, xs.length + 22 < fuel →
      callFn ld fuel fn [("lst", .ref a)] env pos s = .ok (.str (['|'].intercalate ts)) s' := by
  obtain ⟨s', e, c⟩ := q_calls_list ld h hn hs hm hsrc a xs ts hc hlen hstr
  rw [C18.join_eq_intercalate] at c
  exact ⟨s', e, fun fuel env pos hf => c env pos fuel hf⟩

example : StrOf (.str ['a']) ['a'] ∧ StrOf .null [] ∧ StrOf (.pat ['x']) ['x'] := ⟨StrOf.str _, StrOf.null, StrOf.pat _⟩
example : joinM ['-', '-'] [['o', 'n', 'e'], ['w']] = ['o', 'n', 'e', '-', '-', 'w'] := by decide
example : ['|'].intercalate ([1, 2, 3].map renderInt) = ['1', '|', '2', '|', '3'] := by decide

/-! ## 3  `replace`, `esc` -/

/-- **The recursive source of `replace` computes `Str.replaceM`** (strings `s`, `a`, `b`, int `start`, all four arguments given):
    explicit fuel bound `replFuel s start = 30 * (length s - start) + 30` (a constant per recursion step, at most
    `length s - start + 1` steps; `start` negative counts as 0). -/
theorem replace_src {s : State} {M nats srcs fn m} (h : LibEnv s M nats srcs) (hn : ∀ x ∈ replaceNats, x ∈ nats)
    (hs : ∀ p ∈ replaceSrcs, p ∈ srcs) (hm : M m) (hsrc : IsSrc s fn string_replace m) (cs pa pb : List Char) (st : Int) :
    ∃ s', Ext s s' ∧ ∀ fuel env pos, replFuel cs st < fuel →
      callFn ld fuel fn [("s", .str cs), ("a", .str pa), ("b", .str pb), ("start", .int st)] env pos s
        = .ok (.str (replaceM cs pa pb st)) s' :=
  let ⟨s', e, c⟩ := replace_calls ld h hn hs hm hsrc cs pa pb st _ (by rfl) (by rfl) (by rfl) (by rfl)
  ⟨s', e, fun fuel env pos hf => c env pos fuel hf⟩

/-- … hence **left-to-right non-overlapping substitution** behind the first `start` characters (C18 `replace_spec_start`): the
    first `start` characters are kept, `substAll` is applied to the rest; for the empty pattern the string is unchanged. -/
theorem replace_src_spec {s : State} {M nats srcs fn m} (h : LibEnv s M nats srcs) (hn : ∀ x ∈ replaceNats, x ∈ nats)
    (hs : ∀ p ∈ replaceSrcs, p ∈ srcs) (hm : M m) (hsrc : IsSrc s fn string_replace m) (cs pa pb : List Char) (st : Int) :
    ∃ s', Ext s s' ∧ ∀ fuel env pos, replFuel cs st < fuel →
      callFn ld fuel fn [("s", .str cs), ("a", .str pa), ("b", .str pb), ("start", .int st)] env pos s
        = .ok (.str (cs.take st.toNat ++ C18.substAll (cs.drop st.toNat) pa pb)) s' := by
  have := replace_src ld h hn hs hm hsrc cs pa pb st
  rwa [C18.replace_spec_start] at this

/-- `replace(s, a, b)` with `start` NOT given (the default `0` of the parameter is evaluated in the callee frame):
    `substAll s a b` (C18 `replace_spec`); fuel bound `30 * length s + 30` -/
theorem replace_src_default {s : State} {M nats srcs fn m} (h : LibEnv s M nats srcs) (hn : ∀ x ∈ replaceNats, x ∈ nats)
    (hs : ∀ p ∈ replaceSrcs, p ∈ srcs) (hm : M m) (hsrc : IsSrc s fn string_replace m) (cs pa pb : List Char) :
    ∃ s', Ext s s' ∧ ∀ fuel env pos, 30 * cs.length + 30 < fuel →
      callFn ld fuel fn [("s", .str cs), ("a", .str pa), ("b", .str pb)] env pos s
        = .ok (.str (C18.substAll cs pa pb)) s' := by
  obtain ⟨s', e, c⟩ := replace_calls_default ld h hn hs hm hsrc cs pa pb
    [("s", .str cs), ("a", .str pa), ("b", .str pb)] (by rfl) (by rfl) (by rfl) (by rfl)
  rw [C18.replace_spec] at c
  exact ⟨s', e, fun fuel env pos hf => c env pos fuel (by unfold replFuel; simpa using hf)⟩

/-- the guard for the empty pattern: the string comes back unchanged (no recursion: fuel bound 30) -/
theorem replace_src_empty_pattern {s : State} {M nats srcs fn m} (h : LibEnv s M nats srcs) (hn : ∀ x ∈ replaceNats, x ∈ nats)
    (hs : ∀ p ∈ replaceSrcs, p ∈ srcs) (hm : M m) (hsrc : IsSrc s fn string_replace m) (cs pb : List Char) (st : Int) :
    ∃ s', Ext s s' ∧ ∀ fuel env pos, replFuel cs st < fuel →
      callFn ld fuel fn [("s", .str cs), ("a", .str []), ("b", .str pb), ("start", .int st)] env pos s = .ok (.str cs) s' := by
  have := replace_src ld h hn hs hm hsrc cs [] pb st
  rwa [C18.replace_empty_pattern] at this

/-- `replace(NULL, a, b, start)` is NULL for all `a`, `b`, `start` -/
theorem replace_src_null {s : State} {M nats srcs fn m} (h : LibEnv s M nats srcs) (hn : ∀ x ∈ replaceNats, x ∈ nats)
    (hm : M m) (hsrc : IsSrc s fn string_replace m) (v2 v3 v4 : RVal) :
    ∃ s', Ext s s' ∧ ∀ fuel env pos, 8 < fuel →
      callFn ld fuel fn [("s", .null), ("a", v2), ("b", v3), ("start", v4)] env pos s = .ok .null s' :=
  let ⟨s', e, c⟩ := replace_calls_null ld h hn hm hsrc v2 v3 v4 _ (by rfl) (by rfl) (by rfl) (by rfl)
  ⟨s', e, fun fuel env pos hf => c env pos fuel hf⟩

/-- **`esc`**: the three nested `replace` calls of the source (each with the defaulted `start`), i.e. `&`, then `<`, then `>`
    substituted left to right; explicit fuel bound `escFuel str` (the three `replFuel`s of the intermediate strings) -/
theorem esc_src {s : State} {M nats srcs fn m} (h : LibEnv s M nats srcs) (hn : ∀ x ∈ replaceNats, x ∈ nats)
    (hs : ∀ p ∈ replaceSrcs, p ∈ srcs) (hm : M m) (hsrc : IsSrc s fn string_esc m) (cs : List Char) :
    ∃ s', Ext s s' ∧ ∀ fuel env pos, escFuel cs < fuel →
      callFn ld fuel fn [("str", .str cs)] env pos s
        = .ok (.str (C18.substAll (C18.substAll (C18.substAll cs ['&'] ['&', 'a', 'm', 'p', ';']) ['<'] ['&', 'l', 't', ';'])
            ['>'] ['&', 'g', 't', ';'])) s' := by
  obtain ⟨s', e, c⟩ := esc_calls ld h hn hs hm hsrc cs
  unfold escM at c
  rw [C18.replace_spec, C18.replace_spec, C18.replace_spec] at c
  exact ⟨s', e, fun fuel env pos hf => c env pos fuel hf⟩

example : replFuel ['a', 'b', 'c'] 1 = 90 ∧ replFuel ['a', 'b', 'c'] (-5) = 120 ∧ replFuel ['a'] 7 = 30 := by decide
example : replaceM ['a', 'b', 'c', 'a', 'b', 'c'] ['a', 'b', 'c'] ['x', 'y'] 3 = ['a', 'b', 'c', 'x', 'y'] := by decide
example : escM ['a', '<', 'b'] = ['a', '&', 'l', 't', ';', 'b'] := by decide

/-! ## 4  the hypotheses are satisfiable: the driver's initial state with the generated definitions loaded -/

/-- the built-ins the string library needs -/
def strNats : List String := ["is_null", "type", "equals", "add", "string", "substr", "length", "find"]

/-- the generated definitions of this family -/
def strDefs : List Node := [type_is_string, string_reverse, string_replace, string_join, string_q, string_esc]

theorem strDefs_names : strDefs.map defName = ["is_string", "reverse", "replace", "join", "q", "esc"] := rfl

/-- `initialState` of the driver with the built-ins `strNats`, then the generated definitions evaluated as the statements of a
    module in the session frame 1: the resulting state satisfies `LibEnv` for everything the theorems above need. -/
theorem initialState_str_libEnv (secure : Bool) (last : RVal) :
    ∃ v s', (∀ fuel, strDefs.length + 1 < fuel →
        evalBody ld fuel 1 strDefs last (initialState secure strNats).1 = .ok v s') ∧
      LibEnv s' (· = 1) strNats (strDefs.map (fun d => (defName d, d))) := by
  obtain ⟨v, s', h1, h2, _⟩ := load_defs_libEnv ld strDefs
    (by
      intro d hd
      simp only [strDefs, List.mem_cons, List.not_mem_nil, or_false] at hd
      rcases hd with rfl | rfl | rfl | rfl | rfl | rfl <;> exact ⟨_, _, _, _, _, _, _, rfl⟩)
    (by rw [strDefs_names]; decide) strNats (by rw [strDefs_names]; decide)
    (initialState secure strNats).1 1 (by rw [initialState_frames_size]; exact Nat.lt_succ_self 1)
    (initialState_null secure strNats (by decide)) (fun x hx => initialState_nat secure strNats hx) last
  exact ⟨v, s', h1, h2⟩

example : (∀ x ∈ reverseStrNats, x ∈ strNats) ∧ (∀ x ∈ joinNats, x ∈ strNats) ∧ (∀ x ∈ replaceNats, x ∈ strNats) := by decide
theorem strDefs_mem {d : Node} (hd : d ∈ strDefs) : (defName d, d) ∈ strDefs.map (fun d => (defName d, d)) :=
  List.mem_map.mpr ⟨d, hd, rfl⟩

theorem strDefs_reverseSrcs : ∀ p ∈ reverseStrSrcs, p ∈ strDefs.map (fun d => (defName d, d)) := by
  intro p hp; simp only [reverseStrSrcs, List.mem_singleton] at hp; subst hp
  exact strDefs_mem (d := type_is_string) (by simp [strDefs])
theorem strDefs_replaceSrcs : ∀ p ∈ replaceSrcs, p ∈ strDefs.map (fun d => (defName d, d)) := by
  intro p hp; simp only [replaceSrcs, List.mem_singleton] at hp; subst hp
  exact strDefs_mem (d := string_replace) (by simp [strDefs])
theorem strDefs_qSrcs : ∀ p ∈ qSrcs, p ∈ strDefs.map (fun d => (defName d, d)) := by
  intro p hp; simp only [qSrcs, List.mem_singleton] at hp; subst hp
  exact strDefs_mem (d := string_join) (by simp [strDefs])

/-- **end to end, no hypothesis left**: load the definitions into the driver's initial state; then `replace` resolves from the
    session frame to a function whose call on strings (with `start` defaulted) is left-to-right non-overlapping substitution,
    and `reverse` to a function computing `List.reverse`. -/
theorem loaded_replace_reverse (secure : Bool) (last : RVal) (cs pa pb : List Char) :
    ∃ v s1 f g, (∀ fuel, strDefs.length + 1 < fuel →
        evalBody ld fuel 1 strDefs last (initialState secure strNats).1 = .ok v s1) ∧
      Res s1 1 "replace" f ∧ Res s1 1 "reverse" g ∧
      (∃ s', Ext s1 s' ∧ ∀ fuel env pos, 30 * cs.length + 30 < fuel →
        callFn ld fuel f [("s", .str cs), ("a", .str pa), ("b", .str pb)] env pos s1 = .ok (.str (C18.substAll cs pa pb)) s') ∧
      (∃ s', Ext s1 s' ∧ ∀ fuel env pos, cs.length + 18 < fuel →
        callFn ld fuel g [("str", .str cs)] env pos s1 = .ok (.str cs.reverse) s') := by
  obtain ⟨v, s1, hev, hlib⟩ := initialState_str_libEnv ld secure last
  obtain ⟨f, m1, hf1, hm1, hf2⟩ := hlib.src 1 rfl ("replace", string_replace)
    (strDefs_mem (d := string_replace) (by simp [strDefs]))
  obtain ⟨g, m2, hg1, hm2, hg2⟩ := hlib.src 1 rfl ("reverse", string_reverse)
    (strDefs_mem (d := string_reverse) (by simp [strDefs]))
  subst hm1; subst hm2
  exact ⟨v, s1, f, g, hev, hf1, hg1,
    replace_src_default ld hlib (by decide) strDefs_replaceSrcs rfl hf2 cs pa pb,
    reverse_src ld hlib (by decide) strDefs_reverseSrcs rfl hg2 cs⟩

end Ckl.C18Src
