import CklVerif.Lemmas.C18Basic

/-!
  C18 helper lemmas: searching for a single character from a start position.
-/
namespace Ckl.C18
open Ckl.Seq Ckl.Str Ckl.C15

/-- positions before `start` are skipped -/
theorem findFrom_skip (t pre w : S) (pos : Nat) :
    findFrom t (pre ++ w) pos (pos + pre.length) =
      findFrom t w (pos + pre.length) (pos + pre.length) := by
  induction pre generalizing pos with
  | nil => simp
  | cons d pre ih =>
    simp only [List.cons_append, List.length_cons, findFrom]
    rw [if_neg (by omega)]
    have e : pos + (pre.length + 1) = (pos + 1) + pre.length := by omega
    rw [e]
    exact ih (pos + 1)

theorem isPrefixB_single (c d : Char) (r : S) : isPrefixB [c] (d :: r) = (c == d) := by
  simp [isPrefixB]

theorem findFrom_char_hit (c : Char) (l r : S) (pos start : Nat) (hs : start ≤ pos) (h : c ∉ l) :
    findFrom [c] (l ++ c :: r) pos start = ((pos + l.length : Nat) : Int) := by
  induction l generalizing pos with
  | nil =>
    simp only [List.nil_append, findFrom, isPrefixB_single]
    rw [if_pos ⟨hs, by simp⟩]
    simp
  | cons d l ih =>
    simp only [List.cons_append, findFrom, isPrefixB_single]
    have hd : ¬ (c = d) := fun e => h (by simp [e])
    rw [if_neg (by simp [hd])]
    rw [ih (pos + 1) (by omega) (fun hm => h (List.mem_cons_of_mem _ hm))]
    simp only [List.length_cons]
    congr 1
    omega

theorem findFrom_char_miss (c : Char) (l : S) (pos start : Nat) (h : c ∉ l) :
    findFrom [c] l pos start = -1 := by
  induction l generalizing pos with
  | nil => simp [findFrom]
  | cons d l ih =>
    simp only [findFrom, isPrefixB_single]
    have hd : ¬ (c = d) := fun e => h (by simp [e])
    rw [if_neg (by simp [hd])]
    exact ih (pos + 1) (fun hm => h (List.mem_cons_of_mem _ hm))

theorem find_natCast (s t : S) (p : Nat) : find s t (p : Int) = findFrom t s 0 p := by
  unfold find
  rw [if_neg (by omega)]
  simp

/-- searching `c` from the end of `pre`: the first `c` after a `c`-free stretch `l` -/
theorem find_char_hit (c : Char) (pre l r : S) (h : c ∉ l) :
    find (pre ++ l ++ c :: r) [c] (pre.length : Int) = ((pre.length + l.length : Nat) : Int) := by
  rw [find_natCast, List.append_assoc]
  have := findFrom_skip [c] pre (l ++ c :: r) 0
  simp only [Nat.zero_add] at this
  rw [this, findFrom_char_hit c l r pre.length pre.length (Nat.le_refl _) h]

theorem find_char_miss (c : Char) (pre l : S) (h : c ∉ l) :
    find (pre ++ l) [c] (pre.length : Int) = -1 := by
  rw [find_natCast]
  have := findFrom_skip [c] pre l 0
  simp only [Nat.zero_add] at this
  rw [this, findFrom_char_miss c l _ _ h]

end Ckl.C18
