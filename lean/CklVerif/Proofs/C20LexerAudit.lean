import CklVerif.Proofs.C20Lexer
#print axioms Ckl.C20.scan_eq_map_fst
#print axioms Ckl.C20.token_line_correct
#print axioms Ckl.C20.scan_line_correct
#print axioms Ckl.C20.token_start
#print axioms Ckl.C20.error_line_correct
