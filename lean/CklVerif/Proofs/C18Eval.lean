/-
  C18Eval — property C18 (the string functions satisfy the algebra of strings) at the level of the EVALUATOR.
  `Proofs/C18.lean` proves what the string model `Ckl.Str` / `Ckl.Seq` means; this file proves that PROGRAM
  constructs — the natives through `callPure`, call nodes, the operator nodes `+`, `==`, `>=`, the `in` node —
  compute exactly these functions, and that the consistency laws of the property hold THROUGH `eval`: for all
  strings, all states, all loaders, explicit fuel, exact outcomes, state unchanged.

  Vocabulary
  * `Ev ld k env n s r` (Lemmas/C19SrcBase): `eval ld f env n s = r` for EVERY fuel `f > k`; `r` is an exact outcome
    (`.ok v s'` / `.err 'ERROR' msg pos trace s'`), never out-of-fuel / unsupported.
  * `ERR` = the string value 'ERROR' carried by the interpreter's own runtime errors.
  * `atomText v` (Lemmas/C18EvalNat): the text of an atomic non-NULL value: strings / patterns as they are; ints,
    decimals, booleans, dates through `render` (`atomText_render`).
  * `ValidCode n` : `0 ≤ n < 0x110000` and `n` is not a surrogate (`0xD800 ≤ n < 0xE000`).
  * `Parser.funcCallAB fn x y pos` = the node the parser writes for `x op y` (`add`, `equals`, `greater_equals`).
-/
import CklVerif.Lemmas.C18EvalCall
import CklVerif.Proofs.C18
set_option linter.unusedSimpArgs false
namespace Ckl.C18Eval
open Ckl Ckl.C19Src Ckl.C15Eval Ckl.Str

variable (ld : Loader)

/-! ## 0. Pure facts linking the model's decisions to the textbook notions -/

theorem find_decide_eq_infix (cs t : List Char) : decide (0 ≤ Seq.find cs t 0) = decide (t <:+: cs) :=
  decide_eq_decide.mpr (C15.find_nonneg_iff_infix cs t)

theorem find_decide_eq_containsM (cs t : List Char) : decide (0 ≤ Seq.find cs t 0) = containsM cs t := by
  have h := C18.contains_iff_find cs t
  unfold findM at h
  cases hb : containsM cs t
  · rw [decide_eq_false_iff_not]; intro h0; rw [h.mpr h0] at hb; exact absurd hb (by decide)
  · rw [decide_eq_true_iff]; exact h.mp hb

theorem isPrefixB_eq_prefix (cs t : List Char) : Seq.isPrefixB t cs = decide (t <+: cs) := by
  have h := C18.isPrefixB_iff_prefix t cs
  cases hb : Seq.isPrefixB t cs
  · symm; rw [decide_eq_false_iff_not]; intro h0; rw [h.mpr h0] at hb; exact absurd hb (by decide)
  · symm; rw [decide_eq_true_iff]; exact h.mp hb

theorem isPrefixB_rev_eq_suffix (cs t : List Char) : Seq.isPrefixB t.reverse cs.reverse = decide (t <:+ cs) := by
  rw [isPrefixB_eq_prefix]
  exact decide_eq_decide.mpr List.reverse_prefix

theorem isPrefixB_rev_eq_endsWithM (cs t : List Char) : Seq.isPrefixB t.reverse cs.reverse = endsWithM cs t := by
  rw [isPrefixB_rev_eq_suffix]
  have h := C18.endsWith_iff_suffix cs t
  cases hb : endsWithM cs t
  · rw [decide_eq_false_iff_not]; intro h0; rw [h.mpr h0] at hb; exact absurd hb (by decide)
  · rw [decide_eq_true_iff]; exact h.mp hb

/-- every character has a valid code, and `Char.ofNat` of it is the character -/
theorem validCode_toNat (c : Char) : ValidCode (c.toNat : Int) ∧ Char.ofNat ((c.toNat : Int).toNat) = c := by
  have hv : c.toNat < 0xD800 ∨ (0xDFFF < c.toNat ∧ c.toNat < 0x110000) := c.valid
  refine ⟨by unfold ValidCode; omega, by simp⟩

/-- on a valid code, `Char.ofNat` loses nothing -/
theorem toNat_ofNat_validCode {n : Int} (hv : ValidCode n) : ((Char.ofNat n.toNat).toNat : Int) = n := by
  unfold ValidCode at hv
  have : n.toNat.isValidChar := by unfold Nat.isValidChar; omega
  rw [C18.toNat_ofNat_of_valid _ this]; omega

/-- the text of an int / decimal / boolean / date is `render` of its data value (`reify`), in every state -/
theorem atomText_render {s : State} {v : RVal}
    (hv : (∃ n, v = .int n) ∨ (∃ m e, v = .dec m e) ∨ (∃ b, v = .bool b) ∨ (∃ d, v = .date d)) :
    ∃ va, reify s v = some va ∧ atomText v = some (render va) ∧ rrender s v = some (render va) := by
  rcases hv with ⟨n, rfl⟩ | ⟨m, e, rfl⟩ | ⟨b, rfl⟩ | ⟨d, rfl⟩
  · exact ⟨.int n, rfl, rfl, rfl⟩
  · exact ⟨.dec m e, rfl, rfl, rfl⟩
  · exact ⟨.bool b, rfl, rfl, rfl⟩
  · exact ⟨.date d, rfl, rfl, rfl⟩

theorem atomText_int (n : Int) : atomText (.int n) = some (renderInt n) := rfl
theorem atomText_bool (b : Bool) :
    atomText (.bool b) = some (if b then ['T', 'R', 'U', 'E'] else ['F', 'A', 'L', 'S', 'E']) := by
  cases b <;> rfl
theorem atomText_dec (m : Int) (e : Nat) : atomText (.dec m e) = some (decRepr m e) := rfl
theorem atomText_date (d : DT) : atomText (.date d) = some (renderDate d) := rfl

/-! ## 1. The natives through `callPure` (any argument table binding the named parameters, any `DIV_0_VALUE`,
       any position, any state; the state is never touched) -/

section natives
variable {args args' : List (String × RVal)} {d0 d0' : Option RVal} {pos pos' : Pos} {m m' : EvalM RVal} {s : State}

/-- **`contains(s, t)` decides "t is an infix of s"**; it is `Str.containsM`, and TRUE exactly when `s = a + t + b` -/
theorem native_contains {cs t : List Char}
    (h : callPure "contains" args d0 pos = some m)
    (h1 : dictGet "obj" args = some (.str cs)) (h2 : dictGet "part" args = some (.str t)) :
    m s = .ok (.bool (decide (t <:+: cs))) s ∧ decide (t <:+: cs) = containsM cs t ∧
      (decide (t <:+: cs) = true ↔ ∃ a b, cs = a ++ t ++ b) := by
  refine ⟨by rw [contains_str h h1 h2, find_decide_eq_infix], ?_, ?_⟩
  · rw [← find_decide_eq_infix, find_decide_eq_containsM]
  · rw [decide_eq_true_iff]
    exact ⟨fun ⟨a, b, h⟩ => ⟨a, b, h.symm⟩, fun ⟨a, b, h⟩ => ⟨a, b, h.symm⟩⟩

/-- … and the same decision as `find(s, t) >= 0` (`find` through `callPure`, C15Eval's `find_str`) -/
theorem native_contains_find {cs t : List Char}
    (h : callPure "contains" args d0 pos = some m)
    (h1 : dictGet "obj" args = some (.str cs)) (h2 : dictGet "part" args = some (.str t))
    (hf : callPure "find" args' d0' pos' = some m')
    (f1 : dictGet "obj" args' = some (.str cs)) (f2 : dictGet "part" args' = some (.str t))
    (fk : dictGet "key" args' = none) (fs : dictGet "start" args' = none) :
    ∃ r : Int, m' s = .ok (.int r) s ∧ m s = .ok (.bool (decide (0 ≤ r))) s ∧ (r = -1 ∨ 0 ≤ r) ∧
      (0 ≤ r ↔ t <:+: cs) := by
  refine ⟨Seq.find cs t 0, find_str hf f1 f2 fk fs, contains_str h h1 h2, ?_, C15.find_nonneg_iff_infix cs t⟩
  rcases C15.find_range cs t 0 with h | ⟨h, _⟩
  · exact Or.inl h
  · right; omega

theorem native_contains_null
    (h : callPure "contains" args d0 pos = some m) (h1 : dictGet "obj" args = some .null) :
    m s = .ok (.bool false) s := contains_null h h1

/-- an atomic non-string container is searched in its text: `contains(1234, '23')` -/
theorem native_contains_atom {o : RVal} {text t : List Char}
    (h : callPure "contains" args d0 pos = some m)
    (h1 : dictGet "obj" args = some o) (ho : atomText o = some text) (h2 : dictGet "part" args = some (.str t)) :
    m s = .ok (.bool (decide (t <:+: text))) s := by
  rw [contains_atom h h1 ho h2, find_decide_eq_infix]

theorem native_contains_part_not_string {cs : List Char} {v : RVal}
    (h : callPure "contains" args d0 pos = some m)
    (h1 : dictGet "obj" args = some (.str cs)) (h2 : dictGet "part" args = some v) (hv : ∀ t, v ≠ .str t) :
    m s = .err ERR ("String required but got " ++ typeName s v) pos [] s :=
  contains_part_not_string h h1 h2 hv

/-- **`starts_with(s, t)` decides `t <+: s`** (= `Str.startsWithM`) -/
theorem native_starts_with {cs t : List Char}
    (h : callPure "starts_with" args d0 pos = some m)
    (h1 : dictGet "str" args = some (.str cs)) (h2 : dictGet "part" args = some (.str t)) :
    m s = .ok (.bool (decide (t <+: cs))) s ∧ decide (t <+: cs) = startsWithM cs t := by
  rw [starts_with_str h h1 h2, isPrefixB_eq_prefix]
  exact ⟨rfl, (isPrefixB_eq_prefix cs t).symm⟩

/-- **`ends_with(s, t)` decides `t <:+ s`** (= `Str.endsWithM`) -/
theorem native_ends_with {cs t : List Char}
    (h : callPure "ends_with" args d0 pos = some m)
    (h1 : dictGet "str" args = some (.str cs)) (h2 : dictGet "part" args = some (.str t)) :
    m s = .ok (.bool (decide (t <:+ cs))) s ∧ decide (t <:+ cs) = endsWithM cs t := by
  rw [ends_with_str h h1 h2, isPrefixB_rev_eq_suffix]
  exact ⟨rfl, by rw [← isPrefixB_rev_eq_suffix, isPrefixB_rev_eq_endsWithM]⟩

theorem native_starts_ends_null :
    (callPure "starts_with" args d0 pos = some m → dictGet "str" args = some .null → m s = .ok (.bool false) s) ∧
    (callPure "ends_with" args d0 pos = some m → dictGet "str" args = some .null → m s = .ok (.bool false) s) :=
  ⟨starts_with_null, ends_with_null⟩

/-- anything else than two strings (operand not NULL): EXACTLY the runtime error "String required" -/
theorem native_starts_ends_not_string {v w : RVal} (hn : v ≠ .null)
    (hv : (∀ t, v ≠ .str t) ∨ (∀ t, w ≠ .str t))
    (h1 : dictGet "str" args = some v) (h2 : dictGet "part" args = some w) :
    (callPure "starts_with" args d0 pos = some m → m s = .err ERR "String required" pos [] s) ∧
    (callPure "ends_with" args d0 pos = some m → m s = .err ERR "String required" pos [] s) :=
  ⟨fun h => starts_with_not_string h h1 h2 hn hv, fun h => ends_with_not_string h h1 h2 hn hv⟩

/-- **`chr(ord(c…)) = c`**: `ord` of a non-empty string is the code of its first character (`Str.ordM`), always a
    valid code, and `chr` of it is that character -/
theorem native_chr_ord {c : Char} {cs : List Char}
    (ho : callPure "ord" args d0 pos = some m) (h1 : dictGet "ch" args = some (.str (c :: cs)))
    (hc : callPure "chr" args' d0' pos' = some m') (h2 : dictGet "n" args' = some (.int c.toNat)) :
    m s = .ok (.int c.toNat) s ∧ ordM (c :: cs) = .ok (c.toNat : Int) ∧ ValidCode (c.toNat : Int) ∧
      m' s = .ok (.str [c]) s := by
  have hv := validCode_toNat c
  refine ⟨ord_cons ho h1, rfl, hv.1, ?_⟩
  rw [chr_valid hc h2 hv.1, hv.2]

/-- **`ord(chr(n)) = n`** on the valid range: `chr` returns a one-character string (`Str.chrM`), whose `ord` is `n` -/
theorem native_ord_chr {n : Int} (hv : ValidCode n)
    (hc : callPure "chr" args d0 pos = some m) (h1 : dictGet "n" args = some (.int n))
    (ho : callPure "ord" args' d0' pos' = some m')
    (h2 : dictGet "ch" args' = some (.str [Char.ofNat n.toNat])) :
    m s = .ok (.str [Char.ofNat n.toNat]) s ∧ chrM n = .ok [Char.ofNat n.toNat] ∧ m' s = .ok (.int n) s := by
  refine ⟨chr_valid hc h1 hv, ?_, ?_⟩
  · unfold ValidCode at hv
    unfold chrM
    rw [if_neg (by omega), if_neg (by omega)]
  · rw [ord_cons ho h2, toNat_ofNat_validCode hv]

/-- `chr` on EVERY int: a one-character string on the valid range, exactly the runtime error
    "chr failed: ValueError" outside `range(0x110000)`, and the model's abstention on the surrogates (never a value,
    never an error there: nothing is claimed) -/
theorem native_chr_total {n : Int}
    (hc : callPure "chr" args d0 pos = some m) (h1 : dictGet "n" args = some (.int n)) :
    (ValidCode n ∧ m s = .ok (.str [Char.ofNat n.toNat]) s) ∨
    ((n < 0 ∨ 0x110000 ≤ n) ∧ chrM n = .err ∧ m s = .err ERR "chr failed: ValueError" pos [] s) ∨
    ((0xD800 ≤ n ∧ n < 0xE000) ∧ chrM n = .unsup ∧ m s = .fail (.unsupported "lone surrogate") s) := by
  by_cases hv : ValidCode n
  · exact Or.inl ⟨hv, chr_valid hc h1 hv⟩
  · by_cases ho : n < 0 ∨ 0x110000 ≤ n
    · exact Or.inr (Or.inl ⟨ho, (C18.chr_err_iff n).mpr (by omega), chr_out_of_range hc h1 ho⟩)
    · have hs : 0xD800 ≤ n ∧ n < 0xE000 := by unfold ValidCode at hv; omega
      refine Or.inr (Or.inr ⟨hs, ?_, chr_surrogate_abstains hc h1 hs⟩)
      unfold chrM; rw [if_neg (by omega), if_pos (by omega)]

/-- `ord` on EVERY string: the first code point, or exactly the runtime error "ord failed: IndexError" on `''` -/
theorem native_ord_total {cs : List Char}
    (ho : callPure "ord" args d0 pos = some m) (h1 : dictGet "ch" args = some (.str cs)) :
    (∃ c rest, cs = c :: rest ∧ m s = .ok (.int c.toNat) s) ∨
    (cs = [] ∧ ordM cs = .err ∧ m s = .err ERR "ord failed: IndexError" pos [] s) := by
  cases cs with
  | nil => exact Or.inr ⟨rfl, rfl, ord_empty ho h1⟩
  | cons c rest => exact Or.inl ⟨c, rest, rfl, ord_cons ho h1⟩

theorem native_chr_ord_other {v : RVal} (hn : v ≠ .null) :
    (callPure "chr" args d0 pos = some m → dictGet "n" args = some .null → m s = .ok .null s) ∧
    (callPure "ord" args d0 pos = some m → dictGet "ch" args = some .null → m s = .ok .null s) ∧
    (callPure "chr" args d0 pos = some m → dictGet "n" args = some v → (∀ n, v ≠ .int n) →
      m s = .err ERR ("Int required but got " ++ typeName s v) pos [] s) ∧
    (callPure "ord" args d0 pos = some m → dictGet "ch" args = some v → (∀ t, v ≠ .str t) →
      m s = .err ERR ("String required but got " ++ typeName s v) pos [] s) :=
  ⟨chr_null, ord_null, fun h h1 hv => chr_not_int h h1 hn hv, fun h h1 hv => ord_not_string h h1 hn hv⟩

/-- **`length(s + t) = length(s) + length(t)` THROUGH the natives**: `add` on two strings returns the concatenation,
    `length` of that value returns the sum of the lengths -/
theorem native_length_add {x y : List Char} {v : RVal}
    (ha : callPure "add" args d0 pos = some m)
    (h1 : dictGet "a" args = some (.str x)) (h2 : dictGet "b" args = some (.str y))
    (hres : m s = .ok v s)
    (hl : callPure "length" args' d0' pos' = some m') (h3 : dictGet "obj" args' = some v) :
    v = .str (concat x y) ∧ m' s = .ok (.int (lengthM x + lengthM y)) s := by
  rw [add_str_str ha h1 h2] at hres
  injection hres with hv
  subst hv
  refine ⟨rfl, ?_⟩
  rw [length_str hl h3]
  simp [lengthM]

/-- **string + int / decimal / boolean / date** (either order): concatenation with `render` of the data value -/
theorem native_add_render {x : List Char} {v : RVal}
    (hv : (∃ n, v = .int n) ∨ (∃ m e, v = .dec m e) ∨ (∃ b, v = .bool b) ∨ (∃ d, v = .date d)) :
    ∃ va, reify s v = some va ∧
      (callPure "add" args d0 pos = some m → dictGet "a" args = some (.str x) → dictGet "b" args = some v →
        m s = .ok (.str (x ++ render va)) s) ∧
      (callPure "add" args d0 pos = some m → dictGet "a" args = some v → dictGet "b" args = some (.str x) →
        m s = .ok (.str (render va ++ x)) s) := by
  obtain ⟨va, h1, h2, _⟩ := atomText_render (s := s) hv
  exact ⟨va, h1, fun h a b => add_str_atom h a b h2, fun h a b => add_atom_str h a b h2⟩

theorem native_add_str_int {x : List Char} {n : Int}
    (h : callPure "add" args d0 pos = some m)
    (h1 : dictGet "a" args = some (.str x)) (h2 : dictGet "b" args = some (.int n)) :
    m s = .ok (.str (x ++ renderInt n)) s := add_str_atom h h1 h2 rfl

theorem native_add_str_bool {x : List Char} {b : Bool}
    (h : callPure "add" args d0 pos = some m)
    (h1 : dictGet "a" args = some (.str x)) (h2 : dictGet "b" args = some (.bool b)) :
    m s = .ok (.str (x ++ if b then ['T', 'R', 'U', 'E'] else ['F', 'A', 'L', 'S', 'E'])) s :=
  add_str_atom h h1 h2 (atomText_bool b)

theorem native_add_str_dec {x : List Char} {mm : Int} {e : Nat}
    (h : callPure "add" args d0 pos = some m)
    (h1 : dictGet "a" args = some (.str x)) (h2 : dictGet "b" args = some (.dec mm e)) :
    m s = .ok (.str (x ++ decRepr mm e)) s := add_str_atom h h1 h2 rfl

/-- a pattern contributes its source text; NULL makes the sum NULL (either side) -/
theorem native_add_str_pat_null {x t : List Char} :
    (callPure "add" args d0 pos = some m → dictGet "a" args = some (.str x) → dictGet "b" args = some (.pat t) →
      m s = .ok (.str (x ++ t)) s) ∧
    (callPure "add" args d0 pos = some m → dictGet "a" args = some (.str x) → dictGet "b" args = some .null →
      m s = .ok .null s) ∧
    (callPure "add" args d0 pos = some m → dictGet "a" args = some .null → dictGet "b" args = some (.str x) →
      m s = .ok .null s) :=
  ⟨fun h a b => add_str_atom h a b rfl, add_str_null, add_null_str⟩

/-- `string(v)`: a string is returned as it is (no quotes), an int / decimal / boolean / date as `render` of its data
    value, NULL as the empty string -/
theorem native_string :
    (∀ t, callPure "string" args d0 pos = some m → dictGet "obj" args = some (.str t) → m s = .ok (.str t) s) ∧
    (∀ v, ((∃ n, v = .int n) ∨ (∃ m e, v = .dec m e) ∨ (∃ b, v = .bool b) ∨ (∃ d, v = .date d)) →
      ∃ va, reify s v = some va ∧ (callPure "string" args d0 pos = some m → dictGet "obj" args = some v →
        m s = .ok (.str (render va)) s)) ∧
    (callPure "string" args d0 pos = some m → dictGet "obj" args = some .null → m s = .ok (.str []) s) := by
  refine ⟨fun t h h1 => string_atom h h1 rfl, fun v hv => ?_, string_null⟩
  obtain ⟨va, h1, h2, _⟩ := atomText_render (s := s) hv
  exact ⟨va, h1, fun h a => string_atom h a h2⟩

/-- `string` of a container cell or function: `rrender` (for data containers `render` of the reified value:
    C06Eval `rrender_bridge`) -/
theorem native_string_rrender {v : RVal} {t : List Char}
    (h : callPure "string" args d0 pos = some m) (h1 : dictGet "obj" args = some v)
    (hk : (∃ a, v = .ref a) ∨ (∃ a, v = .closure a) ∨ (∃ nm i, v = .native nm i))
    (hr : rrender s v = some t) : m s = .ok (.str t) s := string_rrender h h1 hk hr

end natives

/-! ## 1b. … through `eval` of a call node / operator node / `in` node -/

section calls
variable {k : Nat} {env : EnvId} {fname : String} {p pos : Pos} {s s1 s2 : State} {inst : Nat} {e1 e2 : Node}

theorem call_contains {cs t : List Char}
    (hfn : s.lookup env fname = some (.native "contains" inst)) (hn1 : NotSpread e1) (hn2 : NotSpread e2)
    (h1 : Ev ld k env e1 s (.ok (.str cs) s1)) (h2 : Ev ld k env e2 s1 (.ok (.str t) s2)) :
    Ev ld (k + 4) env (.call (.ident fname p) [none, none] [e1, e2] pos) s
      (.ok (.bool (decide (t <:+: cs))) s2) := by
  rw [← find_decide_eq_infix]; exact call_contains_str ld hfn hn1 hn2 h1 h2

/-- `t in s` on two strings: its own node, the same decision as `contains(s, t)` (element evaluated first) -/
theorem in_node_str {x t : List Char}
    (h1 : Ev ld k env e1 s (.ok (.str x) s1)) (h2 : Ev ld k env e2 s1 (.ok (.str t) s2)) :
    Ev ld (k + 1) env (.isIn e1 e2 pos) s (.ok (.bool (decide (x <:+: t))) s2) ∧
      decide (x <:+: t) = inM t x := by
  rw [← find_decide_eq_infix]
  exact ⟨in_str ld h1 h2, find_decide_eq_containsM t x⟩

theorem call_starts_with_prefix {cs t : List Char}
    (hfn : s.lookup env fname = some (.native "starts_with" inst)) (hn1 : NotSpread e1) (hn2 : NotSpread e2)
    (h1 : Ev ld k env e1 s (.ok (.str cs) s1)) (h2 : Ev ld k env e2 s1 (.ok (.str t) s2)) :
    Ev ld (k + 4) env (.call (.ident fname p) [none, none] [e1, e2] pos) s
      (.ok (.bool (decide (t <+: cs))) s2) := by
  rw [← isPrefixB_eq_prefix]; exact call_starts_with ld hfn hn1 hn2 h1 h2

theorem call_ends_with_suffix {cs t : List Char}
    (hfn : s.lookup env fname = some (.native "ends_with" inst)) (hn1 : NotSpread e1) (hn2 : NotSpread e2)
    (h1 : Ev ld k env e1 s (.ok (.str cs) s1)) (h2 : Ev ld k env e2 s1 (.ok (.str t) s2)) :
    Ev ld (k + 4) env (.call (.ident fname p) [none, none] [e1, e2] pos) s
      (.ok (.bool (decide (t <:+ cs))) s2) := by
  rw [← isPrefixB_rev_eq_suffix]; exact call_ends_with ld hfn hn1 hn2 h1 h2

/-- `chr(e)` for EVERY int value of `e` outside the surrogates: the character, or exactly the runtime error at the
    call position with the call in the trace -/
theorem call_chr {n : Int}
    (hfn : s.lookup env fname = some (.native "chr" inst)) (hn1 : NotSpread e1)
    (h1 : Ev ld k env e1 s (.ok (.int n) s1)) (hs : ¬ (0xD800 ≤ n ∧ n < 0xE000)) :
    Ev ld (k + 3) env (.call (.ident fname p) [none] [e1] pos) s
      (if 0 ≤ n ∧ n < 0x110000 then .ok (.str [Char.ofNat n.toNat]) s1
       else .err ERR "chr failed: ValueError" pos [("chr", pos)] s1) := by
  by_cases hr : 0 ≤ n ∧ n < 0x110000
  · rw [if_pos hr]; exact call_chr_valid ld hfn hn1 h1 ⟨hr.1, hr.2, hs⟩
  · rw [if_neg hr]; exact call_chr_out_of_range ld hfn hn1 h1 (by omega)

/-- `ord(e)` for EVERY string value of `e` -/
theorem call_ord {cs : List Char}
    (hfn : s.lookup env fname = some (.native "ord" inst)) (hn1 : NotSpread e1)
    (h1 : Ev ld k env e1 s (.ok (.str cs) s1)) :
    Ev ld (k + 3) env (.call (.ident fname p) [none] [e1] pos) s
      (match cs with
       | c :: _ => .ok (.int c.toNat) s1
       | [] => .err ERR "ord failed: IndexError" pos [("ord", pos)] s1) := by
  cases cs with
  | nil => exact call_ord_empty ld hfn hn1 h1
  | cons c rest => exact call_ord_cons ld hfn hn1 h1

/-- `x + v` / `v + x` on a string and an int / decimal / boolean / date: concatenation with `render` of the value -/
theorem op_add_render {x : List Char} {v : RVal}
    (hv : (∃ n, v = .int n) ∨ (∃ m e, v = .dec m e) ∨ (∃ b, v = .bool b) ∨ (∃ d, v = .date d))
    (hfn : s.lookup env "add" = some (.native "add" inst)) (hn1 : NotSpread e1) (hn2 : NotSpread e2) :
    ∃ va, reify s2 v = some va ∧
      (Ev ld k env e1 s (.ok (.str x) s1) → Ev ld k env e2 s1 (.ok v s2) →
        Ev ld (k + 4) env (Ckl.Parser.funcCallAB "add" e1 e2 pos) s (.ok (.str (x ++ render va)) s2)) ∧
      (Ev ld k env e1 s (.ok v s1) → Ev ld k env e2 s1 (.ok (.str x) s2) →
        Ev ld (k + 4) env (Ckl.Parser.funcCallAB "add" e1 e2 pos) s (.ok (.str (render va ++ x)) s2)) := by
  obtain ⟨va, h1, h2, _⟩ := atomText_render (s := s2) hv
  exact ⟨va, h1, fun a b => op_add_str_atom ld hfn hn1 hn2 a b h2, fun a b => op_add_atom_str ld hfn hn1 hn2 a b h2⟩

theorem op_add_str_int {x : List Char} {n : Int}
    (hfn : s.lookup env "add" = some (.native "add" inst)) (hn1 : NotSpread e1) (hn2 : NotSpread e2)
    (h1 : Ev ld k env e1 s (.ok (.str x) s1)) (h2 : Ev ld k env e2 s1 (.ok (.int n) s2)) :
    Ev ld (k + 4) env (Ckl.Parser.funcCallAB "add" e1 e2 pos) s (.ok (.str (x ++ renderInt n)) s2) :=
  op_add_str_atom ld hfn hn1 hn2 h1 h2 rfl

theorem op_add_str_bool {x : List Char} {b : Bool}
    (hfn : s.lookup env "add" = some (.native "add" inst)) (hn1 : NotSpread e1) (hn2 : NotSpread e2)
    (h1 : Ev ld k env e1 s (.ok (.str x) s1)) (h2 : Ev ld k env e2 s1 (.ok (.bool b) s2)) :
    Ev ld (k + 4) env (Ckl.Parser.funcCallAB "add" e1 e2 pos) s
      (.ok (.str (x ++ if b then ['T', 'R', 'U', 'E'] else ['F', 'A', 'L', 'S', 'E'])) s2) :=
  op_add_str_atom ld hfn hn1 hn2 h1 h2 (atomText_bool b)

/-- `string(e)` as a call node: strings unquoted, ints / decimals / booleans / dates rendered -/
theorem call_string {v : RVal} {t : List Char}
    (hfn : s.lookup env fname = some (.native "string" inst)) (hn1 : NotSpread e1)
    (h1 : Ev ld k env e1 s (.ok v s1)) (hv : atomText v = some t) :
    Ev ld (k + 3) env (.call (.ident fname p) [none] [e1] pos) s (.ok (.str t) s1) :=
  call_string_atom ld hfn hn1 h1 hv

end calls

/-! ## 2. The consistency laws of C18 through the EVALUATOR

  `S`, `T` are arbitrary nodes that evaluate to strings and leave the state alone (identifiers, literals, any pure
  expression); every law is the AST the parser produces for the source text in its doc-string (checked by `#guard`
  in `C18EvalEx.lean`), evaluates to TRUE for ALL strings, for every fuel above the stated bound, in the unchanged
  state. -/

section laws
variable {k : Nat} {env : EnvId} {s : State} {S T : Node} {cs t : List Char}

/-- **`contains(S, T) == (find(S, T) >= 0)`** is TRUE -/
theorem law_contains_find {fc ff : String} {ic ifd ige ieq : Nat} {p1 p2 p3 q1 q2 q3 q4 : Pos}
    (hc : s.lookup env fc = some (.native "contains" ic)) (hf : s.lookup env ff = some (.native "find" ifd))
    (hge : s.lookup env "greater_equals" = some (.native "greater_equals" ige))
    (heq : s.lookup env "equals" = some (.native "equals" ieq))
    (hS : Ev ld k env S s (.ok (.str cs) s)) (hT : Ev ld k env T s (.ok (.str t) s))
    (hSn : NotSpread S) (hTn : NotSpread T) :
    Ev ld (k + 12) env
      (Ckl.Parser.funcCallAB "equals" (.call (.ident fc p1) [none, none] [S, T] q1)
        (Ckl.Parser.funcCallAB "greater_equals" (.call (.ident ff p2) [none, none] [S, T] q2)
          (.lit (.int 0) p3) q3) q4) s (.ok (.bool true) s) := by
  have h1 := call_contains_str ld (p := p1) (pos := q1) hc hSn hTn hS hT
  have h2 := C15Eval.call_find_str ld (p := p2) (pos := q2) hf hSn hTn hS hT
  have h3 := op_greater_equals_int ld (pos := q3) hge (by trivial) (by trivial) h2 (Ev.litInt ld (n := 0) (p := p3))
  have h4 := C15Eval.op_equals ld (pos := q4) heq (by trivial) (by trivial) (h1.mono ld (by omega)) h3
  have hb : rveq s (.bool (decide (0 ≤ Seq.find cs t 0))) (.bool (decide (0 ≤ Seq.find cs t 0))) = true := by
    show (decide (0 ≤ Seq.find cs t 0) == decide (0 ≤ Seq.find cs t 0)) = true
    simp
  rw [hb] at h4
  exact h4

/-- **`starts_with(S + T, S)`** is TRUE -/
theorem law_starts_with_append {fs : String} {isw iadd : Nat} {p1 q1 q2 : Pos}
    (hsw : s.lookup env fs = some (.native "starts_with" isw))
    (hadd : s.lookup env "add" = some (.native "add" iadd))
    (hS : Ev ld k env S s (.ok (.str cs) s)) (hT : Ev ld k env T s (.ok (.str t) s))
    (hSn : NotSpread S) (hTn : NotSpread T) :
    Ev ld (k + 8) env (.call (.ident fs p1) [none, none] [Ckl.Parser.funcCallAB "add" S T q1, S] q2) s
      (.ok (.bool true) s) := by
  have h1 := C15Eval.op_add_str ld (pos := q1) hadd hSn hTn hS hT
  have h2 := call_starts_with ld (p := p1) (pos := q2) hsw (by trivial) hSn h1 (hS.mono ld (by omega))
  rw [(C18.isPrefixB_iff_prefix cs (cs ++ t)).mpr (List.prefix_append cs t)] at h2
  exact h2

/-- **`ends_with(S + T, T)`** is TRUE -/
theorem law_ends_with_append {fe : String} {iew iadd : Nat} {p1 q1 q2 : Pos}
    (hew : s.lookup env fe = some (.native "ends_with" iew))
    (hadd : s.lookup env "add" = some (.native "add" iadd))
    (hS : Ev ld k env S s (.ok (.str cs) s)) (hT : Ev ld k env T s (.ok (.str t) s))
    (hSn : NotSpread S) (hTn : NotSpread T) :
    Ev ld (k + 8) env (.call (.ident fe p1) [none, none] [Ckl.Parser.funcCallAB "add" S T q1, T] q2) s
      (.ok (.bool true) s) := by
  have h1 := C15Eval.op_add_str ld (pos := q1) hadd hSn hTn hS hT
  have h2 := call_ends_with ld (p := p1) (pos := q2) hew (by trivial) hTn h1 (hT.mono ld (by omega))
  rw [isPrefixB_rev_eq_suffix, decide_eq_true (List.suffix_append cs t)] at h2
  exact h2

/-- **`length(S + T) == length(S) + length(T)`** is TRUE -/
theorem law_length_append {fl : String} {il iadd ieq : Nat} {p1 p2 p3 q1 q2 q3 q4 q5 q6 : Pos}
    (hl : s.lookup env fl = some (.native "length" il))
    (hadd : s.lookup env "add" = some (.native "add" iadd))
    (heq : s.lookup env "equals" = some (.native "equals" ieq))
    (hS : Ev ld k env S s (.ok (.str cs) s)) (hT : Ev ld k env T s (.ok (.str t) s))
    (hSn : NotSpread S) (hTn : NotSpread T) :
    Ev ld (k + 11) env
      (Ckl.Parser.funcCallAB "equals"
        (.call (.ident fl p1) [none] [Ckl.Parser.funcCallAB "add" S T q1] q2)
        (Ckl.Parser.funcCallAB "add" (.call (.ident fl p2) [none] [S] q3) (.call (.ident fl p3) [none] [T] q4) q5)
        q6) s (.ok (.bool true) s) := by
  have h1 := C15Eval.op_add_str ld (pos := q1) hadd hSn hTn hS hT
  have h2 := C15Eval.call_length_str ld (p := p1) (pos := q2) hl (by trivial) h1
  have h3 := C15Eval.call_length_str ld (p := p2) (pos := q3) hl hSn hS
  have h4 := C15Eval.call_length_str ld (p := p3) (pos := q4) hl hTn hT
  have h5 := op_add_int ld (pos := q5) hadd (by trivial) (by trivial) h3 h4
  have h6 := C15Eval.op_equals ld (pos := q6) heq (by trivial) (by trivial) (h2.mono ld (by omega)) h5
  have hb : rveq s (.int ((cs ++ t).length : Nat)) (.int ((cs.length : Int) + (t.length : Int))) = true := by
    show decide ((((cs ++ t).length : Nat) : Int) = (cs.length : Int) + (t.length : Int)) = true
    simp
  rw [hb] at h6
  exact h6

/-- **`S + '' == S`** is TRUE (`E` any node evaluating to the empty string, e.g. the literal) -/
theorem law_add_empty {E : Node} {iadd ieq : Nat} {q1 q2 : Pos}
    (hadd : s.lookup env "add" = some (.native "add" iadd))
    (heq : s.lookup env "equals" = some (.native "equals" ieq))
    (hS : Ev ld k env S s (.ok (.str cs) s)) (hE : Ev ld k env E s (.ok (.str []) s))
    (hSn : NotSpread S) (hEn : NotSpread E) :
    Ev ld (k + 8) env (Ckl.Parser.funcCallAB "equals" (Ckl.Parser.funcCallAB "add" S E q1) S q2) s
      (.ok (.bool true) s) := by
  have h1 := C15Eval.op_add_str ld (pos := q1) hadd hSn hEn hS hE
  have h2 := C15Eval.op_equals ld (pos := q2) heq (by trivial) hSn h1 (hS.mono ld (by omega))
  have hb : rveq s (.str (cs ++ [])) (.str cs) = true := by
    show ((cs ++ []) == cs) = true
    simp
  rw [hb] at h2
  exact h2

/-- **`'' + S == S`** is TRUE -/
theorem law_empty_add {E : Node} {iadd ieq : Nat} {q1 q2 : Pos}
    (hadd : s.lookup env "add" = some (.native "add" iadd))
    (heq : s.lookup env "equals" = some (.native "equals" ieq))
    (hS : Ev ld k env S s (.ok (.str cs) s)) (hE : Ev ld k env E s (.ok (.str []) s))
    (hSn : NotSpread S) (hEn : NotSpread E) :
    Ev ld (k + 8) env (Ckl.Parser.funcCallAB "equals" (Ckl.Parser.funcCallAB "add" E S q1) S q2) s
      (.ok (.bool true) s) := by
  have h1 := C15Eval.op_add_str ld (pos := q1) hadd hEn hSn hE hS
  have h2 := C15Eval.op_equals ld (pos := q2) heq (by trivial) hSn h1 (hS.mono ld (by omega))
  have hb : rveq s (.str ([] ++ cs)) (.str cs) = true := by
    show (([] ++ cs) == cs) = true
    simp
  rw [hb] at h2
  exact h2

/-- **`(T in S) == contains(S, T)`** is TRUE: the `in` node and the built-in agree -/
theorem law_in_contains {fc : String} {ic ieq : Nat} {p1 q1 q2 q3 : Pos}
    (hc : s.lookup env fc = some (.native "contains" ic))
    (heq : s.lookup env "equals" = some (.native "equals" ieq))
    (hS : Ev ld k env S s (.ok (.str cs) s)) (hT : Ev ld k env T s (.ok (.str t) s))
    (hSn : NotSpread S) (hTn : NotSpread T) :
    Ev ld (k + 8) env
      (Ckl.Parser.funcCallAB "equals" (.isIn T S q1) (.call (.ident fc p1) [none, none] [S, T] q2) q3) s
      (.ok (.bool true) s) := by
  have h1 := in_str ld (pos := q1) hT hS
  have h2 := call_contains_str ld (p := p1) (pos := q2) hc hSn hTn hS hT
  have h3 := C15Eval.op_equals ld (pos := q3) heq (by trivial) (by trivial) (h1.mono ld (by omega)) h2
  have hb : rveq s (.bool (decide (0 ≤ Seq.find cs t 0))) (.bool (decide (0 ≤ Seq.find cs t 0))) = true := by
    show (decide (0 ≤ Seq.find cs t 0) == decide (0 ≤ Seq.find cs t 0)) = true
    simp
  rw [hb] at h3
  exact h3

/-- **`contains(S + T, S)`, `contains(S + T, T)`** are TRUE -/
theorem law_contains_append {fc : String} {ic iadd : Nat} {p1 q1 q2 : Pos}
    (hc : s.lookup env fc = some (.native "contains" ic))
    (hadd : s.lookup env "add" = some (.native "add" iadd))
    (hS : Ev ld k env S s (.ok (.str cs) s)) (hT : Ev ld k env T s (.ok (.str t) s))
    (hSn : NotSpread S) (hTn : NotSpread T) :
    Ev ld (k + 8) env (.call (.ident fc p1) [none, none] [Ckl.Parser.funcCallAB "add" S T q1, S] q2) s
      (.ok (.bool true) s) ∧
    Ev ld (k + 8) env (.call (.ident fc p1) [none, none] [Ckl.Parser.funcCallAB "add" S T q1, T] q2) s
      (.ok (.bool true) s) := by
  have h1 := C15Eval.op_add_str ld (pos := q1) hadd hSn hTn hS hT
  have h2 := call_contains ld (p := p1) (pos := q2) hc (by trivial) hSn h1 (hS.mono ld (by omega))
  have h3 := call_contains ld (p := p1) (pos := q2) hc (by trivial) hTn h1 (hT.mono ld (by omega))
  rw [decide_eq_true (List.prefix_append cs t).isInfix] at h2
  rw [decide_eq_true (List.suffix_append cs t).isInfix] at h3
  exact ⟨h2, h3⟩

/-- **`chr(ord(C)) == C`** is TRUE for every ONE-character string; for a longer string `chr(ord(C))` is its first
    character (`law_chr_ord_first`) -/
theorem law_chr_ord_first {C : Node} {c : Char} {rest : List Char} {fchr ford : String} {ichr iord : Nat}
    {p1 p2 q1 q2 : Pos}
    (hchr : s.lookup env fchr = some (.native "chr" ichr)) (hord : s.lookup env ford = some (.native "ord" iord))
    (hC : Ev ld k env C s (.ok (.str (c :: rest)) s)) (hCn : NotSpread C) :
    Ev ld (k + 6) env (.call (.ident fchr p1) [none] [.call (.ident ford p2) [none] [C] q1] q2) s
      (.ok (.str [c]) s) := by
  have h1 := call_ord_cons ld (p := p2) (pos := q1) hord hCn hC
  have h2 := call_chr_valid ld (p := p1) (pos := q2) hchr (by trivial) h1 (validCode_toNat c).1
  rw [(validCode_toNat c).2] at h2
  exact h2

theorem law_chr_ord {C : Node} {c : Char} {fchr ford : String} {ichr iord ieq : Nat} {p1 p2 q1 q2 q3 : Pos}
    (hchr : s.lookup env fchr = some (.native "chr" ichr)) (hord : s.lookup env ford = some (.native "ord" iord))
    (heq : s.lookup env "equals" = some (.native "equals" ieq))
    (hC : Ev ld k env C s (.ok (.str [c]) s)) (hCn : NotSpread C) :
    Ev ld (k + 10) env
      (Ckl.Parser.funcCallAB "equals"
        (.call (.ident fchr p1) [none] [.call (.ident ford p2) [none] [C] q1] q2) C q3) s
      (.ok (.bool true) s) := by
  have h1 := law_chr_ord_first ld (p1 := p1) (p2 := p2) (q1 := q1) (q2 := q2) hchr hord hC hCn
  have h2 := C15Eval.op_equals ld (pos := q3) heq (by trivial) hCn h1 (hC.mono ld (by omega))
  have hb : rveq s (.str [c]) (.str [c]) = true := by
    show ([c] == [c]) = true
    simp
  rw [hb] at h2
  exact h2

/-- **`ord(chr(N)) == N`** is TRUE for every valid code `n` -/
theorem law_ord_chr {N : Node} {n : Int} {fchr ford : String} {ichr iord ieq : Nat} {p1 p2 q1 q2 q3 : Pos}
    (hchr : s.lookup env fchr = some (.native "chr" ichr)) (hord : s.lookup env ford = some (.native "ord" iord))
    (heq : s.lookup env "equals" = some (.native "equals" ieq))
    (hN : Ev ld k env N s (.ok (.int n) s)) (hNn : NotSpread N) (hv : ValidCode n) :
    Ev ld (k + 10) env
      (Ckl.Parser.funcCallAB "equals"
        (.call (.ident ford p1) [none] [.call (.ident fchr p2) [none] [N] q1] q2) N q3) s
      (.ok (.bool true) s) := by
  have h1 := call_chr_valid ld (p := p2) (pos := q1) hchr hNn hN hv
  have h2 := call_ord_cons ld (p := p1) (pos := q2) hord (by trivial) h1
  rw [toNat_ofNat_validCode hv] at h2
  have h3 := C15Eval.op_equals ld (pos := q3) heq (by trivial) hNn h2 (hN.mono ld (by omega))
  have hb : rveq s (.int n) (.int n) = true := by
    show decide (n = n) = true
    simp
  rw [hb] at h3
  exact h3

/-- **`length(S + N) == length(S) + length(string(N))`** for an int / decimal / boolean / date `N`: the rendering
    that `+` appends is the one `string` returns -/
theorem law_length_add_render {N : Node} {v : RVal} {fl fstr : String} {il istr iadd ieq : Nat}
    {p1 p2 p3 p4 q1 q2 q3 q4 q5 q6 q7 : Pos}
    (hv : (∃ n, v = .int n) ∨ (∃ m e, v = .dec m e) ∨ (∃ b, v = .bool b) ∨ (∃ d, v = .date d))
    (hl : s.lookup env fl = some (.native "length" il))
    (hstr : s.lookup env fstr = some (.native "string" istr))
    (hadd : s.lookup env "add" = some (.native "add" iadd))
    (heq : s.lookup env "equals" = some (.native "equals" ieq))
    (hS : Ev ld k env S s (.ok (.str cs) s)) (hN : Ev ld k env N s (.ok v s))
    (hSn : NotSpread S) (hNn : NotSpread N) :
    Ev ld (k + 14) env
      (Ckl.Parser.funcCallAB "equals"
        (.call (.ident fl p1) [none] [Ckl.Parser.funcCallAB "add" S N q1] q2)
        (Ckl.Parser.funcCallAB "add" (.call (.ident fl p2) [none] [S] q3)
          (.call (.ident fl p3) [none] [.call (.ident fstr p4) [none] [N] q7] q4) q5)
        q6) s (.ok (.bool true) s) := by
  obtain ⟨va, _, hva, _⟩ := atomText_render (s := s) hv
  have h1 := op_add_str_atom ld (pos := q1) hadd hSn hNn hS hN hva
  have h2 := C15Eval.call_length_str ld (p := p1) (pos := q2) hl (by trivial) h1
  have h3 := C15Eval.call_length_str ld (p := p2) (pos := q3) hl hSn hS
  have h4 := call_string_atom ld (p := p4) (pos := q7) hstr hNn hN hva
  have h5 := C15Eval.call_length_str ld (p := p3) (pos := q4) hl (by trivial) h4
  have h6 := op_add_int ld (pos := q5) hadd (by trivial) (by trivial) (h3.mono ld (by omega)) h5
  have h7 := C15Eval.op_equals ld (pos := q6) heq (by trivial) (by trivial) (h2.mono ld (by omega)) h6
  have hb : rveq s (.int ((cs ++ render va).length : Nat)) (.int ((cs.length : Int) + ((render va).length : Int)))
      = true := by
    show decide ((((cs ++ render va).length : Nat) : Int) = (cs.length : Int) + ((render va).length : Int)) = true
    simp
  rw [hb] at h7
  exact h7

end laws

end Ckl.C18Eval
