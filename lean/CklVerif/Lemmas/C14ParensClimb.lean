/-
  C14 (redundant parentheses) — a parenthesised expression at every level of the expression tower:
  once `parse_primary_expr` has returned the node of `( e )`, each level above it returns the same
  node as long as the next token is none of the operators of that level or of a tighter level
  (`C02P.Follow k`).
-/
import CklVerif.Lemmas.C14ParensPrimary
namespace Ckl.C14X
open Ckl Ckl.Parser
open Ckl.C02P (plain plainLe plain_eq_ok plainLe_eq_ok Follow)

local notation "kw" => (some TokType.keyword)
local notation "ip" => (some TokType.interpunction)
local notation "op" => (some TokType.operator)
local notation "idt" => (some TokType.identifier)

set_option linter.unusedSimpArgs false
set_option linter.unusedVariables false

theorem IsLp.exprHead {t : Token} (h : IsLp t) : C02P.exprHead t = true := by
  simp [C02P.exprHead, h.2]

theorem IsLp.not_op {t : Token} (h : IsLp t) : t.type ≠ .operator := by
  rw [h.2]; decide

theorem IsLp.not_not {t : Token} (h : IsLp t) : C02P.sp t ≠ C02P.notSp := by
  simp [C02P.sp, C02P.notSp, h.1, h.2]

/-- the levels above a primary expression that starts with `(`: what each of them returns when the
    primary expression returned `(n, ⟨q, rest⟩)` and `rest` does not continue that level -/
theorem climb (c : Ctx) (um : Bool) (p : Pos) (lp : Token) (hl : IsLp lp) (tl : List Token) (n : Node) (q : Pos)
    (rest : List Token)
    (hp : ∀ um, plain (pPrimary c um ⟨p, lp :: tl⟩) = .ok (n, ⟨q, rest⟩)) :
    (Follow 7 rest → plain (pPred c um ⟨p, lp :: tl⟩) = .ok (n, ⟨q, rest⟩)) ∧
    (Follow 7 rest → plain (pUnary c ⟨p, lp :: tl⟩) = .ok (n, ⟨q, rest⟩)) ∧
    (Follow 5 rest → plain (pMul c ⟨p, lp :: tl⟩) = .ok (n, ⟨q, rest⟩)) ∧
    (Follow 4 rest → plain (pAdd c ⟨p, lp :: tl⟩) = .ok (n, ⟨q, rest⟩)) ∧
    (Follow 3 rest → plain (pRel c ⟨p, lp :: tl⟩) = .ok (n, ⟨q, rest⟩)) ∧
    (Follow 3 rest → plain (pNot c ⟨p, lp :: tl⟩) = .ok (n, ⟨q, rest⟩)) ∧
    (Follow 1 rest → plain (pAnd c ⟨p, lp :: tl⟩) = .ok (n, ⟨q, rest⟩)) ∧
    (Follow 0 rest → plain (pOr c ⟨p, lp :: tl⟩) = .ok (n, ⟨q, rest⟩)) ∧
    (Follow 0 rest → plain (pExpression c ⟨p, lp :: tl⟩) = .ok (n, ⟨q, rest⟩)) ∧
    (Follow 0 rest → plain (pStatement c ⟨p, lp :: tl⟩) = .ok (n, ⟨q, rest⟩)) := by
  have h7 : ∀ um, Follow 7 rest → plain (pPred c um ⟨p, lp :: tl⟩) = .ok (n, ⟨q, rest⟩) :=
    fun um hf => C02P.pPred_of_primary c um _ _ _ _ (hp um) hf
  have h6 : Follow 7 rest → plain (pUnary c ⟨p, lp :: tl⟩) = .ok (n, ⟨q, rest⟩) := by
    intro hf; rw [C02P.pUnary_plain c p lp tl hl.not_op]; exact h7 false hf
  have h5 : Follow 5 rest → plain (pMul c ⟨p, lp :: tl⟩) = .ok (n, ⟨q, rest⟩) := by
    intro hf; rw [C02P.pMul_plain, h6 (hf.mono (by omega))]; exact C02P.mulLoop_stop c q rest _ hf
  have h4 : Follow 4 rest → plain (pAdd c ⟨p, lp :: tl⟩) = .ok (n, ⟨q, rest⟩) := by
    intro hf; rw [C02P.pAdd_plain, h5 (hf.mono (by omega))]; exact C02P.addLoop_stop c q rest _ hf
  have h3 : Follow 3 rest → plain (pRel c ⟨p, lp :: tl⟩) = .ok (n, ⟨q, rest⟩) := by
    intro hf; rw [C02P.pRel_plain, h4 (hf.mono (by omega))]; simp [Except.bind, C02P.relGuard_stop q rest hf]
  have h2 : Follow 3 rest → plain (pNot c ⟨p, lp :: tl⟩) = .ok (n, ⟨q, rest⟩) := by
    intro hf; rw [C02P.pNot_plain c p lp tl hl.not_not]; exact h3 hf
  have h1 : Follow 1 rest → plain (pAnd c ⟨p, lp :: tl⟩) = .ok (n, ⟨q, rest⟩) := by
    intro hf; rw [C02P.pAnd_plain, h2 (hf.mono (by omega))]; simp [Except.bind, (C02P.and_stop (q := q) hf).1]
  have h0 : Follow 0 rest → plain (pOr c ⟨p, lp :: tl⟩) = .ok (n, ⟨q, rest⟩) := by
    intro hf; rw [C02P.pOr_plain, h1 (hf.mono (by omega))]; simp [Except.bind, (C02P.or_stop (q := q) hf).1]
  refine ⟨h7 um, h6, h5, h4, h3, h2, h1, h0, ?_, ?_⟩
  · intro hf; rw [C02P.pExpression_plain c p lp tl hl.exprHead]; exact h0 hf
  · intro hf; rw [C02P.pStatement_plain c p lp tl hl.exprHead]; exact h0 hf

/-- a stopper stops every level of the tower -/
theorem stops_of_stop {t : Token} (h : isCont t = false) : C02P.stops 0 t = true := by
  have hr : isRelop t = false := by
    unfold isCont at h; simp only [Bool.or_eq_false_iff] at h; exact h.2
  have ht : ∀ {v ty}, (v, ty) ∈ contTable → St.tokIs t v ty = false := fun hm => not_tokIs_of_stop h hm
  simp [C02P.stops, C02P.stop7, C02P.isMulOp, C02P.isAddOp, hr, ht (v := c!"!>") (ty := op) (by tab),
    ht (v := c!"(") (ty := ip) (by tab), ht (v := c!"->") (ty := op) (by tab), ht (v := c!"[") (ty := ip) (by tab),
    ht (v := c!"=") (ty := op) (by tab), ht (v := c!"+=") (ty := op) (by tab), ht (v := c!"-=") (ty := op) (by tab),
    ht (v := c!"*=") (ty := op) (by tab), ht (v := c!"/=") (ty := op) (by tab), ht (v := c!"%=") (ty := op) (by tab),
    ht (v := c!"is") (ty := kw) (by tab), ht (v := c!"not") (ty := kw) (by tab), ht (v := c!"in") (ty := kw) (by tab),
    ht (v := c!"starts") (ty := idt) (by tab), ht (v := c!"ends") (ty := idt) (by tab),
    ht (v := c!"contains") (ty := idt) (by tab), ht (v := c!"matches") (ty := idt) (by tab),
    ht (v := c!"*") (ty := op) (by tab), ht (v := c!"/") (ty := op) (by tab), ht (v := c!"%") (ty := op) (by tab),
    ht (v := c!"+") (ty := op) (by tab), ht (v := c!"-") (ty := op) (by tab),
    ht (v := c!"and") (ty := kw) (by tab), ht (v := c!"or") (ty := kw) (by tab)]

theorem follow_of_stop {t : Token} (h : isCont t = false) (rest : List Token) (k : Nat) : Follow k (t :: rest) :=
  C02P.Follow.mono (j := 0) (stops_of_stop h) (by omega)

end Ckl.C14X
