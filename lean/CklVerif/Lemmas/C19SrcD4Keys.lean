import CklVerif.Lemmas.C19SrcUnion

/-! C19Src (D4) — the module-cache keys `modKey "Core"`, `modKey "List"` as PROVED string facts.
    `modKey n = C11B.identOf n = let last := (n.splitOn "/").getLast!; if last.endsWith ".ckl" then … else last`.  `String.splitOn`
    (well-founded `splitOnAux`) does not reduce by `decide` or in the kernel, but its equation can be unrolled character by character:
    the tests `atEnd`, `get`, and the positions `next` on string literals ARE decidable. -/
namespace Ckl.C19Src
open Ckl

theorem notCkl_D4 (p : String) (h : ¬ (".ckl".toList <:+ p.toList)) : p.endsWith ".ckl" = false := by
  cases hb : p.endsWith ".ckl" with
  | false => rfl
  | true =>
    exfalso; apply h
    have : p.toSlice.endsWith ".ckl" = true := hb
    rw [String.Slice.endsWith_string_iff] at this
    simpa using this

theorem split_Core_D4 : "Core".splitOn "/" = ["Core"] := by
  unfold String.splitOn
  rw [if_neg (by decide)]
  have n1 : String.Pos.Raw.next "Core" (String.Pos.Raw.unoffsetBy 0 0) = ⟨1⟩ := by decide
  have n2 : String.Pos.Raw.next "Core" (String.Pos.Raw.unoffsetBy ⟨1⟩ 0) = ⟨2⟩ := by decide
  have n3 : String.Pos.Raw.next "Core" (String.Pos.Raw.unoffsetBy ⟨2⟩ 0) = ⟨3⟩ := by decide
  have n4 : String.Pos.Raw.next "Core" (String.Pos.Raw.unoffsetBy ⟨3⟩ 0) = ⟨4⟩ := by decide
  rw [String.splitOnAux, if_neg (by decide), if_neg (by decide), n1]
  rw [String.splitOnAux, if_neg (by decide), if_neg (by decide), n2]
  rw [String.splitOnAux, if_neg (by decide), if_neg (by decide), n3]
  rw [String.splitOnAux, if_neg (by decide), if_neg (by decide), n4]
  rw [String.splitOnAux, if_pos (by decide)]
  decide

theorem split_List_D4 : "List".splitOn "/" = ["List"] := by
  unfold String.splitOn
  rw [if_neg (by decide)]
  have n1 : String.Pos.Raw.next "List" (String.Pos.Raw.unoffsetBy 0 0) = ⟨1⟩ := by decide
  have n2 : String.Pos.Raw.next "List" (String.Pos.Raw.unoffsetBy ⟨1⟩ 0) = ⟨2⟩ := by decide
  have n3 : String.Pos.Raw.next "List" (String.Pos.Raw.unoffsetBy ⟨2⟩ 0) = ⟨3⟩ := by decide
  have n4 : String.Pos.Raw.next "List" (String.Pos.Raw.unoffsetBy ⟨3⟩ 0) = ⟨4⟩ := by decide
  rw [String.splitOnAux, if_neg (by decide), if_neg (by decide), n1]
  rw [String.splitOnAux, if_neg (by decide), if_neg (by decide), n2]
  rw [String.splitOnAux, if_neg (by decide), if_neg (by decide), n3]
  rw [String.splitOnAux, if_neg (by decide), if_neg (by decide), n4]
  rw [String.splitOnAux, if_pos (by decide)]
  decide

/-- the key of the module `Core` is the string `"Core"` -/
theorem modKey_Core_D4 : modKey "Core" = "Core" := by
  show C11B.identOf "Core" = "Core"
  unfold C11B.identOf
  rw [split_Core_D4]
  show (if ("Core" : String).endsWith ".ckl" then _ else "Core") = "Core"
  rw [notCkl_D4 "Core" (by decide)]
  rfl

/-- the key of the module `List` is the string `"List"` -/
theorem modKey_List_D4 : modKey "List" = "List" := by
  show C11B.identOf "List" = "List"
  unfold C11B.identOf
  rw [split_List_D4]
  show (if ("List" : String).endsWith ".ckl" then _ else "List") = "List"
  rw [notCkl_D4 "List" (by decide)]
  rfl

/-- `Core`, registered before `List`, has a different cache key -/
theorem modKey_Core_ne_List_D4 : modKey "Core" ≠ modKey "List" := by
  rw [modKey_Core_D4, modKey_List_D4]; decide

end Ckl.C19Src
