/-
  C08Dec — `nearestDouble` yields a finite binary64 value in the model's normal form (`IsDoubleN`).
-/
import CklVerif.Lemmas.C08DecDefs
import Mathlib.Tactic.Ring
import Mathlib.Tactic.Linarith
namespace Ckl.C08D
open Ckl Ckl.Parser

/-! ### bit length -/

theorem bitLen_le_iff (n k : Nat) : bitLen n ≤ k ↔ n < 2 ^ k := by
  unfold bitLen
  by_cases hn : n = 0
  · subst hn
    simp only [if_pos, Nat.zero_le, true_iff]
    exact Nat.two_pow_pos k
  · rw [if_neg hn, Nat.succ_le_iff]
    exact Nat.log2_lt hn

/-! ### `normDyadic` -/

theorem normDyadic_spec (t : Nat) : ∀ (q m e : Nat), normDyadic q t = (m, e) →
    e ≤ t ∧ m ≤ q ∧ (m % 2 = 1 ∨ e = 0) ∧ m * 2 ^ t = q * 2 ^ e := by
  induction t with
  | zero =>
    intro q m e h
    simp only [normDyadic, Prod.mk.injEq] at h
    obtain ⟨rfl, rfl⟩ := h
    exact ⟨Nat.le_refl _, Nat.le_refl _, Or.inr rfl, rfl⟩
  | succ t ih =>
    intro q m e h
    simp only [normDyadic] at h
    split at h
    · rename_i hq
      have hq' : q % 2 = 0 := by simpa using hq
      obtain ⟨h1, h2, h3, h4⟩ := ih _ _ _ h
      refine ⟨by omega, by omega, h3, ?_⟩
      have hq2 : q = q / 2 * 2 := by omega
      calc m * 2 ^ (t + 1) = (m * 2 ^ t) * 2 := by rw [Nat.pow_succ, Nat.mul_assoc]
        _ = (q / 2 * 2 ^ e) * 2 := by rw [h4]
        _ = (q / 2 * 2) * 2 ^ e := by rw [Nat.mul_assoc, Nat.mul_comm (2 ^ e), ← Nat.mul_assoc]
        _ = q * 2 ^ e := by rw [← hq2]
    · rename_i hq
      have hq' : q % 2 = 1 := by
        have : ¬ q % 2 = 0 := by simpa using hq
        omega
      simp only [Prod.mk.injEq] at h
      obtain ⟨rfl, rfl⟩ := h
      exact ⟨Nat.le_refl _, Nat.le_refl _, Or.inl hq', rfl⟩

/-! ### `divRoundEven` -/

theorem divRoundEven_le_succ (a b : Nat) : divRoundEven a b ≤ a / b + 1 := by
  unfold divRoundEven
  simp only
  split <;> omega

theorem divRoundEven_le (a b k : Nat) (hb : 0 < b) (h : a < b * 2 ^ k) : divRoundEven a b ≤ 2 ^ k := by
  have hq : a / b < 2 ^ k := by
    rw [Nat.div_lt_iff_lt_mul hb, Nat.mul_comm]; exact h
  have := divRoundEven_le_succ a b
  omega

/-! ### scaling by powers of two -/

/-- `num / den < 2^(r-s)` implies `num / den < 2^(r'-s')` when `r - s ≤ r' - s'` -/
theorem pow2_lt_mono (num den s r s' r' : Nat) (hk : (r : Int) - s ≤ (r' : Int) - s')
    (h : num * 2 ^ s < den * 2 ^ r) : num * 2 ^ s' < den * 2 ^ r' := by
  have h2s : 0 < 2 ^ s := Nat.two_pow_pos s
  have h2s' : 0 < 2 ^ s' := Nat.two_pow_pos s'
  apply Nat.lt_of_mul_lt_mul_right (a := 2 ^ s)
  have hle : r + s' ≤ r' + s := by omega
  calc num * 2 ^ s' * 2 ^ s = num * 2 ^ s * 2 ^ s' := by ring
    _ < den * 2 ^ r * 2 ^ s' := Nat.mul_lt_mul_of_pos_right h h2s'
    _ = den * 2 ^ (r + s') := by rw [Nat.mul_assoc, ← Nat.pow_add]
    _ ≤ den * 2 ^ (r' + s) := Nat.mul_le_mul_left _ (Nat.pow_le_pow_right (by decide) hle)
    _ = den * 2 ^ r' * 2 ^ s := by rw [Nat.mul_assoc, ← Nat.pow_add]

/-! ### the pieces of `nearestDouble` -/

/-- `num/den ≥ 2^k` -/
def ndGe (num den : Nat) (k : Int) : Bool :=
  if k ≥ 0 then num ≥ den * 2 ^ k.toNat else num * 2 ^ (-k).toNat ≥ den

def ndD (num den : Nat) : Int := (Nat.log2 num : Int) - (Nat.log2 den : Int)
def ndFl (num den : Nat) : Int := if ndGe num den (ndD num den) then ndD num den else ndD num den - 1
def ndX (num den : Nat) : Int := max (ndFl num den - 52) (-1074)
def ndA (num den : Nat) : Nat := if ndX num den < 0 then num * 2 ^ (-ndX num den).toNat else num
def ndB (num den : Nat) : Nat := if ndX num den < 0 then den else den * 2 ^ (ndX num den).toNat
def ndQ (num den : Nat) : Nat := divRoundEven (ndA num den) (ndB num den)

theorem nearestDouble_eq (num den : Nat) :
    nearestDouble num den =
      if num == 0 then some (0, 0) else
      if ndX num den ≥ 0 then
        (if ndQ num den * 2 ^ (ndX num den).toNat ≥ 2 ^ 1024 then none
         else some (ndQ num den * 2 ^ (ndX num den).toNat, 0))
      else some (normDyadic (ndQ num den) (-ndX num den).toNat) := rfl

theorem ndX_ge (num den : Nat) : -1074 ≤ ndX num den := by
  unfold ndX; omega

/-- Step 1: `num/den < 2^(fl+1)`, in the form: for all `s r` with `r - s ≥ fl + 1`. -/
theorem ndFl_lt (num den : Nat) (hden : 0 < den) (s r : Nat)
    (hk : ndFl num den + 1 ≤ (r : Int) - s) : num * 2 ^ s < den * 2 ^ r := by
  have h1 : num < 2 ^ (num.log2 + 1) := Nat.lt_log2_self
  have h2 : 2 ^ den.log2 ≤ den := Nat.log2_self_le (by omega)
  unfold ndFl at hk
  split at hk
  · -- fl = d
    have h3 : num * 2 ^ den.log2 < den * 2 ^ (num.log2 + 1) := by
      calc num * 2 ^ den.log2 < 2 ^ (num.log2 + 1) * 2 ^ den.log2 :=
            Nat.mul_lt_mul_of_pos_right h1 (Nat.two_pow_pos _)
        _ ≤ 2 ^ (num.log2 + 1) * den := Nat.mul_le_mul_left _ h2
        _ = den * 2 ^ (num.log2 + 1) := Nat.mul_comm _ _
    refine pow2_lt_mono num den _ _ s r ?_ h3
    unfold ndD at hk
    push_cast
    omega
  · rename_i hge
    unfold ndGe at hge
    split at hge
    · rename_i hd
      have h3 : num * 2 ^ 0 < den * 2 ^ (ndD num den).toNat := by
        simpa using hge
      refine pow2_lt_mono num den _ _ s r ?_ h3
      have := Int.toNat_of_nonneg hd
      push_cast
      omega
    · rename_i hd
      have h3 : num * 2 ^ (-ndD num den).toNat < den * 2 ^ 0 := by
        simpa using hge
      refine pow2_lt_mono num den _ _ s r ?_ h3
      have : ((-ndD num den).toNat : Int) = -ndD num den := Int.toNat_of_nonneg (by omega)
      push_cast
      omega

/-- Steps 1/2: the quotient to be rounded is below `2^53`. -/
theorem nearestDouble_q_le (num den : Nat) (hden : 0 < den) :
    ndA num den < ndB num den * 2 ^ 53 := by
  have hx : ndFl num den - 52 ≤ ndX num den := by unfold ndX; omega
  unfold ndA ndB
  split
  · rename_i hneg
    apply ndFl_lt num den hden
    have : ((-ndX num den).toNat : Int) = -ndX num den := Int.toNat_of_nonneg (by omega)
    omega
  · rename_i hpos
    have h := ndFl_lt num den hden 0 ((ndX num den).toNat + 53) (by
      have : ((ndX num den).toNat : Int) = ndX num den := Int.toNat_of_nonneg (by omega)
      push_cast
      omega)
    rw [Nat.pow_add, ← Nat.mul_assoc] at h
    simpa using h

theorem ndB_pos (num den : Nat) (hden : 0 < den) : 0 < ndB num den := by
  unfold ndB
  split
  · exact hden
  · exact Nat.mul_pos hden (Nat.two_pow_pos _)

theorem ndQ_le (num den : Nat) (hden : 0 < den) : ndQ num den ≤ 2 ^ 53 :=
  divRoundEven_le _ _ 53 (ndB_pos num den hden) (nearestDouble_q_le num den hden)

/-- the same fact with the `let`s of the definition of `nearestDouble` -/
theorem nearestDouble_q_le' (num den : Nat) (hden : 0 < den) :
    let d : Int := (Nat.log2 num : Int) - (Nat.log2 den : Int)
    let ge (k : Int) : Bool :=
      if k ≥ 0 then num ≥ den * 2 ^ k.toNat else num * 2 ^ (-k).toNat ≥ den
    let fl : Int := if ge d then d else d - 1
    let x : Int := max (fl - 52) (-1074)
    let a := if x < 0 then num * 2 ^ (-x).toNat else num
    let b := if x < 0 then den else den * 2 ^ x.toNat
    a < b * 2 ^ 53 ∧ divRoundEven a b ≤ 2 ^ 53 :=
  ⟨nearestDouble_q_le num den hden, ndQ_le num den hden⟩

/-! ### 53 significant bits -/

/-- `q * 2^x` with `q ≤ 2^53` has at most 53 significant bits -/
theorem pow_bitLen_dvd (q x : Nat) (hq : q ≤ 2 ^ 53) : 2 ^ (bitLen (q * 2 ^ x) - 53) ∣ q * 2 ^ x := by
  rcases Nat.lt_or_ge q (2 ^ 53) with hlt | hge
  · have hv : q * 2 ^ x < 2 ^ (53 + x) := by
      rw [Nat.pow_add]; exact Nat.mul_lt_mul_of_pos_right hlt (Nat.two_pow_pos _)
    have hb := (bitLen_le_iff _ _).2 hv
    exact Nat.dvd_trans (Nat.pow_dvd_pow 2 (by omega)) (Nat.dvd_mul_left (2 ^ x) q)
  · have hq' : q = 2 ^ 53 := Nat.le_antisymm hq hge
    subst hq'
    rw [← Nat.pow_add]
    have hv : 2 ^ (53 + x) < 2 ^ (54 + x) := Nat.pow_lt_pow_right (by decide) (by omega)
    have hb := (bitLen_le_iff _ _).2 hv
    exact Nat.pow_dvd_pow 2 (by omega)

/-! ### main theorem -/

theorem nearestDouble_isDoubleN (num den m e : Nat) (hden : 0 < den)
    (h : nearestDouble num den = some (m, e)) : IsDoubleN m e := by
  rw [nearestDouble_eq] at h
  split at h
  · simp only [Option.some.injEq, Prod.mk.injEq] at h
    obtain ⟨rfl, rfl⟩ := h
    left
    refine ⟨rfl, Nat.two_pow_pos _, ?_⟩
    exact Nat.dvd_zero _
  · have hq := ndQ_le num den hden
    split at h
    · rename_i hx
      split at h
      · exact absurd h (by simp)
      · rename_i hv
        simp only [Option.some.injEq, Prod.mk.injEq] at h
        obtain ⟨rfl, rfl⟩ := h
        left
        exact ⟨rfl, by omega, pow_bitLen_dvd _ _ hq⟩
    · rename_i hx
      simp only [Option.some.injEq] at h
      obtain ⟨h1, h2, h3, _⟩ := normDyadic_spec _ _ _ _ h
      have hxg := ndX_ge num den
      have ht : (-ndX num den).toNat ≤ 1074 := by omega
      have hm : m ≤ 2 ^ 53 := Nat.le_trans h2 hq
      have h53 : (2 : Nat) ^ 53 = 9007199254740992 := by decide
      rcases Nat.eq_zero_or_pos e with he | he
      · subst he
        left
        refine ⟨rfl, ?_, ?_⟩
        · exact Nat.lt_of_le_of_lt hm (Nat.pow_lt_pow_right (by decide) (by decide))
        · have := pow_bitLen_dvd m 0 hm
          simpa using this
      · right
        have hodd : m % 2 = 1 := by omega
        refine ⟨he, by omega, hodd, ?_⟩
        omega

/-! ### non-vacuity -/

example : nearestDouble 1 10 = some (3602879701896397, 55) := by decide +kernel
example : IsDoubleN 3602879701896397 55 := by decide +kernel
example : nearestDouble 3 (2 ^ 1076) = some (1, 1074) := by decide +kernel
example : nearestDouble (10 ^ 23) 1 = some (99999999999999991611392, 0) := by decide +kernel
example : normDyadic 12 5 = (3, 3) := by decide
example : divRoundEven 5 2 = 2 ∧ divRoundEven 7 2 = 4 := by decide

end Ckl.C08D
