import CklVerif.Lemmas.C19SrcD4Mods

/-! C19Src (D4) — all modules one after the other, `LibEnv` of the multi-frame state, the driver's initial state, the seven modules of
    `Gen/LibSrc.lean` -/
namespace Ckl.C19Src
open Ckl Ckl.C03 Ckl.Gen.LibSrc
variable (ld : Loader)

/-- fuel that suffices to load the modules: the longest module needs `length + 2`; the sum is a simple explicit bound -/
def modsFuel_D4 (mods : List (List Node)) : Nat := (mods.map List.length).sum + 2

theorem framesFrom_append_D4 (L : List (EnvId × List Node)) (n : Nat) (d : List Node) (r : List (List Node)) :
    (L ++ [(n, d)]) ++ framesFrom_D4 (n + 1) r = L ++ framesFrom_D4 n (d :: r) := by
  simp [framesFrom_D4]

/-- **all modules**: loading them one after the other keeps the invariant; the module frames are the consecutive frame numbers
    from `s.frames.size`; frames other than 0 that existed, old cells and the output are untouched; frame 0 changes only at the
    names the modules define. -/
theorem loadMods_inv_D4 {nats : List String} (mods : List (List Node)) :
    (∀ defs ∈ mods, ModOk_D4 nats defs) → ∀ (s : State) (L : List (EnvId × List Node)), ModInv_D4 s nats L →
    ∃ s', (∀ fuel, modsFuel_D4 mods < fuel → loadMods_D4 ld fuel mods s = some s') ∧
      ModInv_D4 s' nats (L ++ framesFrom_D4 s.frames.size mods) ∧
      s'.frames.size = s.frames.size + mods.length ∧
      (∀ i, i < s.frames.size → i ≠ 0 → s'.frame i = s.frame i) ∧
      s.heap.size ≤ s'.heap.size ∧ (∀ a, a < s.heap.size → s'.cell a = s.cell a) ∧ s'.out = s.out ∧
      (∀ x, (∀ defs ∈ mods, x ∉ defs.map defName) → dictGet x (s'.frame 0).vars = dictGet x (s.frame 0).vars) := by
  induction mods with
  | nil =>
    intro _ s L inv
    exact ⟨s, fun _ _ => rfl, by simpa [framesFrom_D4] using inv, rfl, fun _ _ _ => rfl, Nat.le_refl _, fun _ _ => rfl, rfl,
      fun _ _ => rfl⟩
  | cons d r ih =>
    intro hok s L inv
    obtain ⟨s1, hl1, inv1, hsz1, hfr1, hhp1, hc1, ho1, hz1⟩ := loadMod_step_D4 ld inv d (hok d List.mem_cons_self)
    obtain ⟨s2, hl2, inv2, hsz2, hfr2, hhp2, hc2, ho2, hz2⟩ :=
      ih (fun defs h => hok defs (List.mem_cons_of_mem _ h)) s1 (L ++ [(s.frames.size, d)]) inv1
    refine ⟨s2, ?_, ?_, ?_, ?_, Nat.le_trans hhp1 hhp2, ?_, by rw [ho2, ho1], ?_⟩
    · intro fuel hf
      have hf' : modsFuel_D4 (d :: r) = d.length + modsFuel_D4 r := by
        simp [modsFuel_D4]; omega
      have h1 : d.length + 2 < fuel := by rw [hf'] at hf; unfold modsFuel_D4 at hf; omega
      have h2 : modsFuel_D4 r < fuel := by rw [hf'] at hf; omega
      show (loadMod_D4 ld fuel d s).bind (loadMods_D4 ld fuel r) = some s2
      rw [hl1 fuel h1]; exact hl2 fuel h2
    · rw [hsz1, framesFrom_append_D4] at inv2; exact inv2
    · rw [hsz2, hsz1, List.length_cons]; omega
    · intro i hi hi0
      rw [hfr2 i (by rw [hsz1]; omega) hi0, hfr1 i hi hi0]
    · intro a ha
      rw [hc2 a (Nat.lt_of_lt_of_le ha hhp1), hc1 a ha]
    · intro x hx
      rw [hz2 x (fun defs h => hx defs (List.mem_cons_of_mem _ h)), hz1 x (hx d List.mem_cons_self)]

/-! ### from the invariant to `LibEnv` -/

/-- the set of module frames -/
def modFrames_D4 (L : List (EnvId × List Node)) : EnvId → Prop := fun m => ∃ p ∈ L, p.1 = m

/-- the definitions whose name is defined by ONE module only, as `(name, definition)` pairs -/
def uniqSrcs_D4 (L : List (EnvId × List Node)) : List (String × Node) :=
  L.flatMap (fun p => (p.2.filter (fun d => L.all (fun q => q.1 == p.1 || !(q.2.map defName).contains (defName d)))).map
    (fun d => (defName d, d)))

theorem mem_uniqSrcs_D4 {L : List (EnvId × List Node)} {pr : String × Node} :
    pr ∈ uniqSrcs_D4 L ↔ ∃ p ∈ L, ∃ d ∈ p.2, pr = (defName d, d) ∧ ∀ q ∈ L, q.1 ≠ p.1 → defName d ∉ q.2.map defName := by
  unfold uniqSrcs_D4
  simp only [List.mem_flatMap, List.mem_map, List.mem_filter, List.all_eq_true, Bool.or_eq_true, beq_iff_eq,
    Bool.not_eq_true', List.contains_eq_mem, decide_eq_false_iff_not]
  constructor
  · rintro ⟨p, hp, d, ⟨hd, hu⟩, rfl⟩
    exact ⟨p, hp, d, hd, rfl, fun q hq hne => (hu q hq).resolve_left hne⟩
  · rintro ⟨p, hp, d, hd, rfl, hu⟩
    refine ⟨p, hp, d, ⟨hd, fun q hq => ?_⟩, rfl⟩
    by_cases h : q.1 = p.1
    · exact Or.inl h
    · exact Or.inr (hu q hq h)

/-- **The multi-frame state satisfies `LibEnv`**, with `M` = the set of ALL module frames and `srcs` = every definition whose name
    only one module defines: from the frame of the defining module the name resolves locally (first disjunct of `Res`), from every
    other module frame through the export in frame 0 (second disjunct — the name is not bound in that frame); the function value
    is closed over ITS module frame.
    Side condition (in `uniqSrcs_D4`): when two modules define the same name (`reverse` of list.ckl and string.ckl), each sees its
    own version and everybody else the one exported last, so neither definition resolves uniformly from all frames. -/
theorem ModInv_D4.libEnv {s : State} {nats : List String} {L : List (EnvId × List Node)} (inv : ModInv_D4 s nats L) :
    LibEnv s (modFrames_D4 L) nats (uniqSrcs_D4 L) := by
  have hres0 : ∀ p ∈ L, ∀ x v, x ∉ p.2.map defName → dictGet x (s.frame 0).vars = some v → Res s p.1 x v :=
    fun p hp x v hx h => Or.inr ⟨inv.own p hp x hx, inv.parent p hp, h⟩
  refine ⟨?_, ?_, ?_, ?_⟩
  · rintro m ⟨p, hp, rfl⟩; exact inv.lt p hp
  · rintro m ⟨p, hp, rfl⟩
    exact hres0 p hp _ _ (inv.disj p hp _ List.mem_cons_self) inv.null
  · rintro m ⟨p, hp, rfl⟩ x hx
    obtain ⟨i, hi⟩ := inv.nat x hx
    exact ⟨i, hres0 p hp _ _ (inv.disj p hp _ (List.mem_cons_of_mem _ hx)) hi⟩
  · rintro m ⟨p, hp, rfl⟩ pr hpr
    obtain ⟨q, hq, d, hd, rfl, hu⟩ := mem_uniqSrcs_D4.mp hpr
    obtain ⟨a, nm, h1, h2⟩ := inv.src q hq d hd
    refine ⟨.closure a, q.1, ?_, ⟨q, hq, rfl⟩, a, nm, rfl, h2⟩
    by_cases hpq : p.1 = q.1
    · have : p = q := inv.inj p hp q hq hpq
      subst this; exact Or.inl h1
    · refine hres0 p hp _ _ (hu p hp hpq) ?_
      show dictGet (defName d) (s.frame 0).vars = some (.closure a)
      rw [inv.exp q hq d hd hu]; exact h1

/-- a definition of a loaded module whose name no other module defines is what the name is bound to in the base frame 0 -/
theorem ModInv_D4.base {s : State} {nats : List String} {L : List (EnvId × List Node)} (inv : ModInv_D4 s nats L)
    {p : EnvId × List Node} (hp : p ∈ L) {d : Node} (hd : d ∈ p.2)
    (hu : ∀ q ∈ L, q.1 ≠ p.1 → defName d ∉ q.2.map defName) :
    ∃ fn, dictGet (defName d) (s.frame 0).vars = some fn ∧ IsSrc s fn d p.1 := by
  obtain ⟨a, nm, h1, h2⟩ := inv.src p hp d hd
  exact ⟨.closure a, by rw [inv.exp p hp d hd hu]; exact h1, a, nm, rfl, h2⟩

/-! ### the driver's initial state: base frame 0 (constants + built-ins), session frame 1 -/

/-- the initial state satisfies the invariant with the SESSION frame 1 as a (definition-free) client of frame 0: so frame 1 is a
    member of `M`, and library names resolve from it through frame 0 -/
theorem initialState_modInv_D4 (secure : Bool) (natives : List String) (h : "NULL" ∉ natives) :
    ModInv_D4 (initialState secure natives).1 natives [(1, [])] := by
  have hfold := natFold_spec natives (constState secure) (by rw [constState_frames_size]; exact Nat.one_pos)
  refine ⟨by rw [initialState_frames_size]; decide, ?_, ?_, ?_, ?_, ?_, ?_, ?_, ?_, ?_, ?_⟩
  · rw [initialState_frame0, hfold.2.1 _ h]; exact constState_null secure
  · intro x hx
    obtain ⟨i, hi⟩ := hfold.2.2 x hx
    exact ⟨i, by rw [initialState_frame0]; exact hi⟩
  · intro p hp; simp only [List.mem_singleton] at hp; subst hp
    rw [initialState_frames_size]; decide
  · intro p hp; simp only [List.mem_singleton] at hp; subst hp; decide
  · intro p hp q hq _
    simp only [List.mem_singleton] at hp hq; rw [hp, hq]
  · intro p hp; simp only [List.mem_singleton] at hp; subst hp
    show ((initialState secure natives).1.frame 1).parent = some 0
    rw [initialState_frame1]
  · intro p hp x _; simp only [List.mem_singleton] at hp; subst hp; simp
  · intro p hp x _; simp only [List.mem_singleton] at hp; subst hp
    show dictGet x ((initialState secure natives).1.frame 1).vars = none
    rw [initialState_frame1]; rfl
  · intro p hp d hd; simp only [List.mem_singleton] at hp; subst hp; cases hd
  · intro p hp d hd; simp only [List.mem_singleton] at hp; subst hp; cases hd

/-! ### the seven modules of `Gen/LibSrc.lean`, in the order of the `require … unqualified` lines of `legacy.ckl`
    (Core, List, Math, Predicate, Set, String, Type) -/

def coreDefs_D4 : List Node := [core_non_zero, core_non_empty, core_const, core_any, core_all, core_pairs, core_chunks]
def listDefs_D4 : List Node :=
  [list_first, list_first_n, list_last, list_last_n, list_rest, list_reverse_list, list_reverse, list_reduce, list_prod,
   list_append_all, list_for_each, list_filter, list_flatten, list_unique, list_map_list]
def mathDefs_D4 : List Node := [math_abs, math_sign, math_is_even, math_is_odd, math_gcd, math_lcm]
def predicateDefs_D4 : List Node := [predicate_is_zero, predicate_is_negative, predicate_is_positive]
def setDefs_D4 : List Node := [set_union, set_intersection, set_diff, set_symmetric_diff]
def stringDefs_D4 : List Node := [string_reverse, string_replace, string_join, string_q, string_esc]
def typeDefs_D4 : List Node :=
  [type_is_list, type_is_string, type_is_int, type_is_decimal, type_is_numeric, type_is_boolean, type_is_set, type_is_map,
   type_is_object, type_is_func]

def libMods_D4 : List (List Node) :=
  [coreDefs_D4, listDefs_D4, mathDefs_D4, predicateDefs_D4, setDefs_D4, stringDefs_D4, typeDefs_D4]

/-- every definition of the generated table is in one of the modules -/
theorem libMods_table_D4 : (libMods_D4.flatten).length = table.length := by decide

/-- session frame 1, then core = 2, list = 3, math = 4, predicate = 5, set = 6, string = 7, type = 8 -/
def libFrames_D4 : List (EnvId × List Node) := (1, []) :: framesFrom_D4 2 libMods_D4

theorem libFrames_eq_D4 : libFrames_D4 =
    [(1, []), (2, coreDefs_D4), (3, listDefs_D4), (4, mathDefs_D4), (5, predicateDefs_D4), (6, setDefs_D4), (7, stringDefs_D4),
     (8, typeDefs_D4)] := rfl

theorem coreNames_D4 : coreDefs_D4.map defName = ["non_zero", "non_empty", "const", "any", "all", "pairs", "chunks"] := rfl
theorem listNames_D4 : listDefs_D4.map defName =
    ["first", "first_n", "last", "last_n", "rest", "reverse_list", "reverse", "reduce", "prod", "append_all", "for_each",
     "filter", "flatten", "unique", "map_list"] := rfl
theorem mathNames_D4 : mathDefs_D4.map defName = ["abs", "sign", "is_even", "is_odd", "gcd", "lcm"] := rfl
theorem predicateNames_D4 : predicateDefs_D4.map defName = ["is_zero", "is_negative", "is_positive"] := rfl
theorem setNames_D4 : setDefs_D4.map defName = ["union", "intersection", "diff", "symmetric_diff"] := rfl
theorem stringNames_D4 : stringDefs_D4.map defName = ["reverse", "replace", "join", "q", "esc"] := rfl
theorem typeNames_D4 : typeDefs_D4.map defName =
    ["is_list", "is_string", "is_int", "is_decimal", "is_numeric", "is_boolean", "is_set", "is_map", "is_object", "is_func"] := rfl

/-- all names the seven modules define (50; `reverse` twice) -/
def libNames_D4 : List String := libMods_D4.flatMap (fun defs => defs.map defName)

theorem libNames_eq_D4 : libNames_D4 =
    ["non_zero", "non_empty", "const", "any", "all", "pairs", "chunks",
     "first", "first_n", "last", "last_n", "rest", "reverse_list", "reverse", "reduce", "prod", "append_all", "for_each",
     "filter", "flatten", "unique", "map_list", "abs", "sign", "is_even", "is_odd", "gcd", "lcm", "is_zero", "is_negative", "is_positive",
     "union", "intersection", "diff", "symmetric_diff", "reverse", "replace", "join", "q", "esc",
     "is_list", "is_string", "is_int", "is_decimal", "is_numeric", "is_boolean", "is_set", "is_map", "is_object", "is_func"] := rfl

theorem isDefLam_of_D4 {defs : List Node}
    (hall : defs.all (fun d => match d with | .defn _ (.lambda _ _ _ _) _ _ => true | _ => false) = true) :
    ∀ d ∈ defs, IsDefLam d := by
  intro d hd
  have := List.all_eq_true.mp hall d hd
  cases d with
  | defn name e info dp =>
    cases e with
    | lambda ps ds body lp => exact ⟨_, _, _, _, _, _, _, rfl⟩
    | _ => simp at this
  | _ => simp at this

theorem modOk_of_names_D4 {nats : List String} {defs : List Node} (names : List String) (h : defs.map defName = names)
    (hall : defs.all (fun d => match d with | .defn _ (.lambda _ _ _ _) _ _ => true | _ => false) = true)
    (hnd : names.Nodup) (hdisj : ∀ x ∈ "NULL" :: nats, x ∉ names) (hpub : ∀ x ∈ names, ¬ ("_".toList <+: x.toList)) :
    ModOk_D4 nats defs :=
  ⟨isDefLam_of_D4 hall, by rw [h]; exact hnd, by rw [h]; exact hdisj,
   fun d hd => notUnderscore_D4 _ (hpub _ (by rw [← h]; exact List.mem_map.mpr ⟨d, hd, rfl⟩))⟩

/-- the seven modules can be loaded, for any list of built-ins none of which is a name a module defines -/
theorem libMods_ok_D4 {nats : List String} (hdisj : ∀ x ∈ "NULL" :: nats, x ∉ libNames_D4) :
    ∀ defs ∈ libMods_D4, ModOk_D4 nats defs := by
  have hsub : ∀ (names : List String), (∀ x ∈ names, x ∈ libNames_D4) → ∀ x ∈ "NULL" :: nats, x ∉ names :=
    fun names hs x hx hn => hdisj x hx (hs x hn)
  intro defs hd
  simp only [libMods_D4, List.mem_cons, List.not_mem_nil, or_false] at hd
  rcases hd with rfl | rfl | rfl | rfl | rfl | rfl | rfl
  · exact modOk_of_names_D4 _ coreNames_D4 (by rfl) (by decide) (hsub _ (by rw [libNames_eq_D4]; decide)) (by decide)
  · exact modOk_of_names_D4 _ listNames_D4 (by rfl) (by decide) (hsub _ (by rw [libNames_eq_D4]; decide)) (by decide)
  · exact modOk_of_names_D4 _ mathNames_D4 (by rfl) (by decide) (hsub _ (by rw [libNames_eq_D4]; decide)) (by decide)
  · exact modOk_of_names_D4 _ predicateNames_D4 (by rfl) (by decide) (hsub _ (by rw [libNames_eq_D4]; decide)) (by decide)
  · exact modOk_of_names_D4 _ setNames_D4 (by rfl) (by decide) (hsub _ (by rw [libNames_eq_D4]; decide)) (by decide)
  · exact modOk_of_names_D4 _ stringNames_D4 (by rfl) (by decide) (hsub _ (by rw [libNames_eq_D4]; decide)) (by decide)
  · exact modOk_of_names_D4 _ typeNames_D4 (by rfl) (by decide) (hsub _ (by rw [libNames_eq_D4]; decide)) (by decide)

/-- **the multi-frame library state**: the driver's initial state (base frame 0 with the constants and the built-ins `natives`,
    session frame 1), then the seven modules loaded — each in its own frame 2 … 8 with parent 0 — and re-exported into frame 0 -/
theorem libState_modInv_D4 (secure : Bool) (natives : List String) (hnull : "NULL" ∉ natives)
    (hdisj : ∀ x ∈ "NULL" :: natives, x ∉ libNames_D4) :
    ∃ s', (∀ fuel, modsFuel_D4 libMods_D4 < fuel →
        loadMods_D4 ld fuel libMods_D4 (initialState secure natives).1 = some s') ∧
      ModInv_D4 s' natives libFrames_D4 ∧ s'.frames.size = 9 ∧
      s'.frame 1 = { vars := [], parent := some 0 } ∧ s'.out = (initialState secure natives).1.out := by
  obtain ⟨s', h1, h2, h3, h4, _, _, h7, _⟩ := loadMods_inv_D4 ld libMods_D4 (libMods_ok_D4 hdisj)
    (initialState secure natives).1 [(1, [])] (initialState_modInv_D4 secure natives hnull)
  rw [initialState_frames_size] at h2 h3 h4
  refine ⟨s', h1, h2, h3, ?_, h7⟩
  rw [h4 1 (by decide) (by decide), initialState_frame1]

end Ckl.C19Src
