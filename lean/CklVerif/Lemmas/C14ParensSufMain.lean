/-
  C14 (redundant parentheses) — "every production leaves a suffix of its input tokens":
  assembling the 51 suffix lemmas by well-founded induction on the parser's own termination
  measure `(remaining tokens, rank)`, flattened to `tokens * 16 + rank`, and the user-facing
  corollaries.
-/
import CklVerif.Lemmas.C14ParensSufA
import CklVerif.Lemmas.C14ParensSufB
import CklVerif.Lemmas.C14ParensSufC
import CklVerif.Lemmas.C14ParensSufD
namespace Ckl.C14X
open Ckl Ckl.Parser

/-- every production of the parser leaves a suffix of its input tokens -/
theorem suf_all : ∀ k, Suf k := by
  intro k
  induction k using Nat.strongRecOn with
  | _ k ih =>
    exact {
      pBareBlock := fun c tl st hk => suf_pBareBlock c tl st (ih _ hk) (List.suffix_refl _)
      bareLoop := fun c st acc hk => suf_bareLoop c st acc (ih _ hk) (List.suffix_refl _)
      pBlock := fun c st hk => suf_pBlock c st (ih _ hk) (List.suffix_refl _)
      blockLoop := fun c st acc hk => suf_blockLoop c st acc (ih _ hk) (List.suffix_refl _)
      catchLoop := fun c st e h hk => suf_catchLoop c st e h (ih _ hk) (List.suffix_refl _)
      finallyLoop := fun c st acc hk => suf_finallyLoop c st acc (ih _ hk) (List.suffix_refl _)
      pStatement := fun c st hk => suf_pStatement c st (ih _ hk) (List.suffix_refl _)
      pDef := fun c comment st hk => suf_pDef c comment st (ih _ hk) (List.suffix_refl _)
      pDefTail := fun c name comment pos st hk =>
        suf_pDefTail c name comment pos st (ih _ hk) (List.suffix_refl _)
      classLoop := fun c comment st acc hk => suf_classLoop c comment st acc (ih _ hk) (List.suffix_refl _)
      pExpression := fun c st hk => suf_pExpression c st (ih _ hk) (List.suffix_refl _)
      ifClause := fun c st hk => suf_ifClause c st (ih _ hk) (List.suffix_refl _)
      ifLoop := fun c st cs es hk => suf_ifLoop c st cs es (ih _ hk) (List.suffix_refl _)
      pOr := fun c st hk => suf_pOr c st (ih _ hk) (List.suffix_refl _)
      orLoop := fun c st acc hk => suf_orLoop c st acc (ih _ hk) (List.suffix_refl _)
      pAnd := fun c st hk => suf_pAnd c st (ih _ hk) (List.suffix_refl _)
      andLoop := fun c st acc hk => suf_andLoop c st acc (ih _ hk) (List.suffix_refl _)
      pNot := fun c st hk => suf_pNot c st (ih _ hk) (List.suffix_refl _)
      pRel := fun c st hk => suf_pRel c st (ih _ hk) (List.suffix_refl _)
      relLoop := fun c st lhs acc hk => suf_relLoop c st lhs acc (ih _ hk) (List.suffix_refl _)
      pAdd := fun c st hk => suf_pAdd c st (ih _ hk) (List.suffix_refl _)
      addLoop := fun c st e hk => suf_addLoop c st e (ih _ hk) (List.suffix_refl _)
      pMul := fun c st hk => suf_pMul c st (ih _ hk) (List.suffix_refl _)
      mulLoop := fun c st e hk => suf_mulLoop c st e (ih _ hk) (List.suffix_refl _)
      pUnary := fun c st hk => suf_pUnary c st (ih _ hk) (List.suffix_refl _)
      pPred := fun c um st hk => suf_pPred c um st (ih _ hk) (List.suffix_refl _)
      applyIsPred := fun c p e pos st hk => suf_applyIsPred c p e pos st (ih _ hk) (List.suffix_refl _)
      pCollectMinMax := fun c fn e pos st hk =>
        suf_pCollectMinMax c fn e pos st (ih _ hk) (List.suffix_refl _)
      optPrimary := fun c word d st hk => suf_optPrimary c word d st (ih _ hk) (List.suffix_refl _)
      pPrimary := fun c um st hk => suf_pPrimary c um st (ih _ hk) (List.suffix_refl _)
      pPrimaryKw := fun c t st hk => suf_pPrimaryKw c t st (ih _ hk) (List.suffix_refl _)
      pListLiteral := fun c tpos st hk => suf_pListLiteral c tpos st (ih _ hk) (List.suffix_refl _)
      listLoop := fun c st items pending hk =>
        suf_listLoop c st items pending (ih _ hk) (List.suffix_refl _)
      comprClause := fun c st hk => suf_comprClause c st (ih _ hk) (List.suffix_refl _)
      pComprRest := fun c kind multi closer tpos v ke st hk =>
        suf_pComprRest c kind multi closer tpos v ke st (ih _ hk) (List.suffix_refl _)
      comprFinish := fun c mk closer st hk => suf_comprFinish c mk closer st (ih _ hk) (List.suffix_refl _)
      pSetLiteral := fun c tpos st hk => suf_pSetLiteral c tpos st (ih _ hk) (List.suffix_refl _)
      setLoop := fun c st items hk => suf_setLoop c st items (ih _ hk) (List.suffix_refl _)
      pMapLiteral := fun c tpos st hk => suf_pMapLiteral c tpos st (ih _ hk) (List.suffix_refl _)
      mapLoop := fun c st ks vs hk => suf_mapLoop c st ks vs (ih _ hk) (List.suffix_refl _)
      pObjectLiteral := fun c tpos st hk => suf_pObjectLiteral c tpos st (ih _ hk) (List.suffix_refl _)
      objLoop := fun c st ks vs hk => suf_objLoop c st ks vs (ih _ hk) (List.suffix_refl _)
      pFn := fun c pos st hk => suf_pFn c pos st (ih _ hk) (List.suffix_refl _)
      paramsLoop := fun c st ps ds hk => suf_paramsLoop c st ps ds (ih _ hk) (List.suffix_refl _)
      invokeBody := fun c node st hk => suf_invokeBody c node st (ih _ hk) (List.suffix_refl _)
      argsLoop := fun c st names args hk => suf_argsLoop c st names args (ih _ hk) (List.suffix_refl _)
      derefArrow := fun c node st hk => suf_derefArrow c node st (ih _ hk) (List.suffix_refl _)
      derefBracket := fun c node st hk => suf_derefBracket c node st (ih _ hk) (List.suffix_refl _)
      postfixLoop := fun c ac ad st node hk => suf_postfixLoop c ac ad st node (ih _ hk) (List.suffix_refl _) }

/-- the induction hypothesis with no bound: usable for every lexer state with `n` tokens -/
theorem suf_at (n : Nat) : Suf (n * 16 + 16) := suf_all _

/-! ### the user-facing corollaries -/

theorem pStatement_suffix (c : Ctx) (st : St) {o : OutLt Node st.toks.length}
    (h : pStatement c st = .ok o) : o.st.toks <:+ st.toks :=
  (suf_at st.toks.length).pStatement c st (by omega) o h

theorem pBlock_suffix (c : Ctx) (st : St) {o : OutLt Node st.toks.length}
    (h : pBlock c st = .ok o) : o.st.toks <:+ st.toks :=
  (suf_at st.toks.length).pBlock c st (by omega) o h

theorem pExpression_suffix (c : Ctx) (st : St) {o : OutLt Node st.toks.length}
    (h : pExpression c st = .ok o) : o.st.toks <:+ st.toks :=
  (suf_at st.toks.length).pExpression c st (by omega) o h

theorem pOr_suffix (c : Ctx) (st : St) {o : OutLt Node st.toks.length}
    (h : pOr c st = .ok o) : o.st.toks <:+ st.toks :=
  (suf_at st.toks.length).pOr c st (by omega) o h

theorem bareLoop_suffix (c : Ctx) (st : St) (acc : List Node) {o : OutLe (List Node) st.toks.length}
    (h : bareLoop c st acc = .ok o) : o.st.toks <:+ st.toks :=
  (suf_at st.toks.length).bareLoop c st acc (by omega) o h

theorem pBareBlock_suffix (c : Ctx) (toplevel : Bool) (st : St) {o : OutLt Node st.toks.length}
    (h : pBareBlock c toplevel st = .ok o) : o.st.toks <:+ st.toks :=
  (suf_at st.toks.length).pBareBlock c toplevel st (by omega) o h

theorem pPrimary_suffix (c : Ctx) (um : Bool) (st : St) {o : OutLt Node st.toks.length}
    (h : pPrimary c um st = .ok o) : o.st.toks <:+ st.toks :=
  (suf_at st.toks.length).pPrimary c um st (by omega) o h

theorem postfixLoop_suffix (c : Ctx) (allowCall allowDeref : Bool) (st : St) (node : Node)
    {o : OutLe Node st.toks.length} (h : postfixLoop c allowCall allowDeref st node = .ok o) :
    o.st.toks <:+ st.toks :=
  (suf_at st.toks.length).postfixLoop c allowCall allowDeref st node (by omega) o h

end Ckl.C14X
