/- driver handlers: sequence operations (C15) and calendar functions (C17) -/
import CklVerif.Driver.Codec
import CklVerif.Model.Seq
import CklVerif.Model.Date
namespace Ckl
open Sx

def optInt? : List Sx → Option (Option Int)
  | [] => some none
  | [x] => (atomInt? x).map some
  | _ => none

def errSx : Sx := .list [.atom "err"]

def seqOnStr (op : String) (s : List Char) (args : List Sx) : Option Sx :=
  match op, args with
  | "deref", [i] => do
      let i ← atomInt? i
      match Seq.deref s i with
      | some c => some (okSx (encodeVal (.str [c])))
      | none => some errSx
  | "slice", a :: rest => do
      let a ← atomInt? a; let b ← optInt? rest
      some (okSx (encodeVal (.str (Seq.slice s a b))))
  | "substr", a :: rest => do
      let a ← atomInt? a; let b ← optInt? rest
      some (okSx (encodeVal (.str (Seq.substr s a b))))
  | "find", [t, st] => do
      match ← decodeVal t with
      | .str t => let st ← atomInt? st; some (okSx (encodeVal (.int (Seq.find s t st))))
      | _ => none
  | "findlast", t :: rest => do
      match ← decodeVal t with
      | .str t => let st ← optInt? rest; some (okSx (encodeVal (.int (Seq.findLast s t st))))
      | _ => none
  | _, _ => none

def seqOnList (op : String) (l : List Val) (args : List Sx) : Option Sx :=
  match op, args with
  | "deref", [i] => do
      let i ← atomInt? i
      match Seq.deref l i with
      | some c => some (okSx (encodeVal c))
      | none => some errSx
  | "slice", a :: rest => do
      let a ← atomInt? a; let b ← optInt? rest
      some (okSx (encodeVal (.list (Seq.slice l a b))))
  | "substr", a :: rest => do
      let a ← atomInt? a; let b ← optInt? rest
      some (okSx (encodeVal (.list (Seq.substr l a b))))
  | "find", [x, st] => do
      let x ← decodeVal x; let st ← atomInt? st
      some (okSx (encodeVal (.int (Seq.findList veq l x st))))
  | "findlast", x :: rest => do
      let x ← decodeVal x; let st ← optInt? rest
      some (okSx (encodeVal (.int (Seq.findLastList veq l x st))))
  | "insertat", [i, x] => do
      let i ← atomInt? i; let x ← decodeVal x
      some (okSx (encodeVal (.list (Seq.insertAt l i x))))
  | "deleteat", [i] => do
      let i ← atomInt? i
      let (r, l') := Seq.deleteAt l i
      some (okSx (.list [encodeVal (r.getD .null), encodeVal (.list l')]))
  | _, _ => none

def handleSeqDate : Sx → Option Sx
  | .list (.atom "seq" :: .atom op :: v :: args) => do
      match ← decodeVal v with
      | .str s => seqOnStr op s args
      | .list l => seqOnList op l args
      | _ => none
  | .list [.atom "date", .atom "tooa", y, m, d] => do
      let y ← atomNat? y; let m ← atomNat? m; let d ← atomNat? d
      some (okSx (.atom (toString (Date.toOaDay y m d))))
  | .list [.atom "date", .atom "todate", n] => do
      let n ← atomNat? n
      let (y, m, d) := Date.toDate n
      some (okSx (.list [.atom (toString y), .atom (toString m), .atom (toString d)]))
  | .list [.atom "date", .atom "next", y, m, d] => do
      let y ← atomNat? y; let m ← atomNat? m; let d ← atomNat? d
      let (y, m, d) := Date.nextDay y m d
      some (okSx (.list [.atom (toString y), .atom (toString m), .atom (toString d)]))
  | .list [.atom "date", .atom "millis", h, mi, s, ms] => do
      let h ← atomNat? h; let mi ← atomNat? mi; let s ← atomNat? s; let ms ← atomNat? ms
      some (okSx (.atom (toString (Date.toMillis h mi s ms))))
  | .list [.atom "date", .atom "diff", y, m, d, t, y', m', d', t'] => do
      let y ← atomNat? y; let m ← atomNat? m; let d ← atomNat? d; let t ← atomNat? t
      let y' ← atomNat? y'; let m' ← atomNat? m'; let d' ← atomNat? d'; let t' ← atomNat? t'
      some (okSx (.atom (toString (Date.diffDays (Date.stamp y m d t) (Date.stamp y' m' d' t')))))
  | .list [.atom "date", .atom "ofmillis", t] => do
      let t ← atomNat? t
      let (h, mi, s, ms) := Date.ofMillis t
      some (okSx (.list [.atom (toString h), .atom (toString mi), .atom (toString s), .atom (toString ms)]))
  | _ => none

end Ckl
